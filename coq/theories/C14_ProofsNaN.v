(* C14_ProofsNaN.v — lemmas for the NaN extension of C14 (statements: C14_Props.v, part 2).

   Throughout, an equality test [eq] is only assumed to be SOUND:
       sub eq  :=  forall a b, eq a b = true -> a = b
   (Go's == on floats restricted to one NaN: reflexive exactly on the ordinary values). *)
From Gogu Require Import Base C14_Model C14_Proofs C14_ModelNaN.
From Coq Require Import Permutation Sorted.
Local Open Scope Z_scope.

Definition sub {A} (eq : A -> A -> bool) : Prop := forall a b, eq a b = true -> a = b.

Lemma sub_sym {A} (eq : A -> A -> bool) : sub eq -> forall a b, eq a b = eq b a.
Proof.
  intros Hs a b. destruct (eq a b) eqn:E1, (eq b a) eqn:E2; try reflexivity.
  - pose proof (Hs _ _ E1) as ->. congruence.
  - pose proof (Hs _ _ E2) as ->. congruence.
Qed.

Lemma sub_trans {A} (eq : A -> A -> bool) : sub eq -> forall a b c, eq a b = true -> eq b c = true -> eq a c = true.
Proof. intros Hs a b c H1 H2. pose proof (Hs _ _ H1) as ->. exact H2. Qed.

(* an equal key is an ordinary key *)
Lemma sub_ordinary {A} (eq : A -> A -> bool) : sub eq -> forall a b, eq a b = true -> eq a a = true /\ eq b b = true.
Proof. intros Hs a b H. pose proof (Hs _ _ H) as ->. now split. Qed.

Lemma Permutation_filter' {A} (p : A -> bool) l l' : Permutation l l' -> Permutation (filter p l) (filter p l').
Proof.
  induction 1; cbn.
  - constructor.
  - destruct (p x); [now constructor|assumption].
  - destruct (p x), (p y); try apply perm_swap; try apply Permutation_refl.
  - eapply Permutation_trans; eassumption.
Qed.

Lemma filter_app' {A} (p : A -> bool) l1 l2 : filter p (l1 ++ l2) = filter p l1 ++ filter p l2.
Proof. induction l1 as [|a l1 IH]; cbn; [reflexivity|]. destruct (p a); cbn; now rewrite IH. Qed.

(* ------------------------------------------------------------------ *)
(* maps over a key type with a sound, partial equality                  *)

Section GMap.
  Context {K V : Type} (keq : K -> K -> bool) (Hsub : sub keq).
  Implicit Types (m l : list (K * V)) (k : K) (v : V) (e : K * V).

  Definition nokey m k : Prop := forall k' v', In (k', v') m -> keq k' k = false.

  Lemma nokey_unreachable m k : keq k k = false -> nokey m k.
  Proof.
    intros Hk k' v' _. destruct (keq k' k) eqn:E; [|reflexivity].
    apply (sub_ordinary keq Hsub) in E as [_ E]. congruence.
  Qed.

  Lemma glookup_nokey m k : nokey m k -> glookup keq m k = None.
  Proof.
    induction m as [|[k' v'] m IH]; cbn; intros H; [reflexivity|].
    rewrite (H k' v') by now left. apply IH. intros k2 v2 He. apply (H k2 v2). now right.
  Qed.

  Lemma gset_nokey m k v : nokey m k -> gset keq m k v = m ++ [(k, v)].
  Proof.
    induction m as [|[k' v'] m IH]; cbn; intros H; [reflexivity|].
    rewrite (H k' v') by now left. f_equal. apply IH. intros k2 v2 He. apply (H k2 v2). now right.
  Qed.

  Lemma gdelete_nokey m k : nokey m k -> gdelete keq m k = m.
  Proof.
    induction m as [|[k' v'] m IH]; cbn; intros H; [reflexivity|].
    rewrite (H k' v') by now left. f_equal. apply IH. intros k2 v2 He. apply (H k2 v2). now right.
  Qed.

  Lemma glookup_some_in m k v : glookup keq m k = Some v -> In (k, v) m.
  Proof.
    induction m as [|[k' v'] m IH]; cbn; [discriminate|].
    destruct (keq k' k) eqn:E; intros H.
    - injection H as ->. apply Hsub in E. subst. now left.
    - right. now apply IH.
  Qed.

  Lemma glookup_none m k : glookup keq m k = None <-> nokey m k.
  Proof.
    split; [|apply glookup_nokey].
    induction m as [|[k' v'] m IH]; cbn; intros H k2 v2 He; [destruct He|].
    destruct (keq k' k) eqn:E; [discriminate|]. destruct He as [He|He]; [now injection He as <- <-|now apply (IH H k2 v2)].
  Qed.

  Lemma wfk_in_glookup m k v : wfk keq m -> In (k, v) m -> keq k k = true -> glookup keq m k = Some v.
  Proof.
    induction m as [|[k' v'] m IH]; cbn; [tauto|].
    intros [Hhd Hwf] [H|H] Hk.
    - injection H as -> ->. now rewrite Hk.
    - destruct (keq k' k) eqn:E; [|now apply IH].
      specialize (Hhd _ H). cbn in Hhd. congruence.
  Qed.

  Lemma wfk_app m1 m2 :
    wfk keq (m1 ++ m2) <-> wfk keq m1 /\ wfk keq m2 /\ (forall a b, In a m1 -> In b m2 -> keq (fst a) (fst b) = false).
  Proof.
    induction m1 as [|e m1 IH]; cbn.
    - intuition.
    - rewrite IH. split.
      + intros (Hhd & H1 & H2 & H12). repeat split; auto.
        * intros e' He'. apply Hhd. apply in_or_app. now left.
        * intros a b [<-|Ha] Hb; [apply Hhd; apply in_or_app; now right|now apply H12].
      + intros ((Hhd & H1) & H2 & H12). repeat split; auto.
        intros e' He'. apply in_app_or in He' as [He'|He']; [now apply Hhd|apply H12; [now left|exact He']].
  Qed.

  Lemma wfk_perm m m' : Permutation m m' -> wfk keq m -> wfk keq m'.
  Proof.
    induction 1; cbn.
    - tauto.
    - intros [Hhd Hwf]. split; [|now apply IHPermutation].
      intros e' He'. apply Hhd. eapply Permutation_in; [apply Permutation_sym; eassumption|exact He'].
    - intros [Hy [Hx Hwf]]. split; [|split].
      + intros e' [<-|He']; [rewrite (sub_sym keq Hsub); apply Hy; now left|now apply Hx].
      + intros e' He'. apply Hy. now right.
      + exact Hwf.
    - auto.
  Qed.

  Lemma wfk_filter (p : K * V -> bool) m : wfk keq m -> wfk keq (filter p m).
  Proof.
    induction m as [|e m IH]; cbn; [tauto|]. intros [Hhd Hwf].
    destruct (p e); cbn; [|now apply IH]. split; [|now apply IH].
    intros e' He'. apply filter_In in He' as [He' _]. now apply Hhd.
  Qed.

  Lemma wfk_in_same_key m a b : wfk keq m -> In a m -> In b m -> keq (fst a) (fst b) = true -> a = b.
  Proof.
    induction m as [|e m IH]; cbn; [tauto|]. intros [Hhd Hwf] [Ha|Ha] [Hb|Hb] E.
    - congruence.
    - subst e. rewrite (Hhd _ Hb) in E. discriminate.
    - subst e. rewrite (sub_sym keq Hsub), (Hhd _ Ha) in E. discriminate.
    - now apply IH.
  Qed.

  Lemma glookup_perm m m' k : wfk keq m -> Permutation m m' -> glookup keq m k = glookup keq m' k.
  Proof.
    intros Hwf Hp. pose proof (wfk_perm _ _ Hp Hwf) as Hwf'.
    destruct (glookup keq m k) as [v|] eqn:E.
    - symmetry. pose proof E as Hin. apply glookup_some_in in Hin.
      apply wfk_in_glookup; [exact Hwf'|eapply Permutation_in; eassumption|].
      destruct (keq k k) eqn:Ek; [reflexivity|]. rewrite (glookup_nokey m k) in E by now apply nokey_unreachable. discriminate.
    - symmetry. apply glookup_none. apply glookup_none in E. intros k2 v2 He. apply (E k2 v2).
      eapply Permutation_in; [apply Permutation_sym; exact Hp|exact He].
  Qed.

  (* m[k] = v: the entry with an equal key (at most one) goes, (k, v) is there *)
  Lemma gset_perm m k v : wfk keq m ->
    Permutation (gset keq m k v) (filter (fun e => negb (keq (fst e) k)) m ++ [(k, v)]).
  Proof.
    induction m as [|[k' v'] m IH]; cbn; intros Hwf; [apply Permutation_refl|].
    destruct Hwf as [Hhd Hwf]. destruct (keq k' k) eqn:E; cbn.
    - apply Hsub in E. subst k'.
      rewrite (filter_all_true _ m).
      + apply Permutation_cons_append.
      + intros e He. now rewrite (sub_sym keq Hsub), (Hhd _ He).
    - constructor. now apply IH.
  Qed.

  Lemma gset_in m k v e : In e (gset keq m k v) -> e = (k, v) \/ In e m.
  Proof.
    induction m as [|[k' v'] m IH]; cbn; [intuition|].
    destruct (keq k' k); cbn; intuition.
  Qed.

  Lemma wfk_gset m k v : wfk keq m -> wfk keq (gset keq m k v).
  Proof.
    induction m as [|[k' v'] m IH]; cbn; intros Hwf.
    - split; [intros e []|exact I].
    - destruct Hwf as [Hhd Hwf]. destruct (keq k' k) eqn:E; cbn.
      + apply Hsub in E. subst k'. split; assumption.
      + split; [|now apply IH]. intros e He. apply gset_in in He as [->|He]; [exact E|now apply Hhd].
  Qed.

  Lemma gdelete_filter m k : wfk keq m -> gdelete keq m k = filter (fun e => negb (keq (fst e) k)) m.
  Proof.
    induction m as [|[k' v'] m IH]; cbn; [reflexivity|]. intros [Hhd Hwf].
    destruct (keq k' k) eqn:E; cbn.
    - apply Hsub in E. subst k'. symmetry. apply filter_all_true.
      intros e He. now rewrite (sub_sym keq Hsub), (Hhd _ He).
    - f_equal. now apply IH.
  Qed.

  (* ---------- "the last assignment wins" ---------- *)

  Definition gbuild_from (acc : list (K * V)) (l : list (K * V)) : list (K * V) :=
    fold_left (fun acc e => gset keq acc (fst e) (snd e)) l acc.

  Lemma wfk_gbuild_from l : forall acc, wfk keq acc -> wfk keq (gbuild_from acc l).
  Proof. induction l as [|e l IH]; intros acc Hwf; cbn; [exact Hwf|]. apply IH. now apply wfk_gset. Qed.

  Lemma gbuild_from_perm l : forall acc, wfk keq acc ->
    Permutation (gbuild_from acc l) (filter (fun e => negb (overwritten keq l e)) acc ++ keep_last keq l).
  Proof.
    induction l as [|[k v] l IH]; intros acc Hwf.
    - cbn. rewrite app_nil_r. rewrite filter_all_true; [apply Permutation_refl|reflexivity].
    - change (gbuild_from acc ((k, v) :: l)) with (gbuild_from (gset keq acc k v) l).
      eapply Permutation_trans; [apply (IH (gset keq acc k v)); now apply wfk_gset|].
      eapply Permutation_trans.
      { apply Permutation_app_tail. apply Permutation_filter'. apply gset_perm. exact Hwf. }
      rewrite filter_app', filter_filter.
      replace (filter (fun e => negb (overwritten keq ((k, v) :: l) e)) acc)
        with (filter (fun x => negb (keq (fst x) k) && negb (overwritten keq l x)) acc).
      2:{ apply filter_ext. intros e. unfold overwritten. cbn. rewrite (sub_sym keq Hsub k). now rewrite Bool.negb_orb. }
      rewrite <- app_assoc. apply Permutation_app_head.
      assert (Hk : keep_last keq ((k, v) :: l)
                   = if overwritten keq l (k, v) then keep_last keq l else (k, v) :: keep_last keq l) by reflexivity.
      rewrite Hk. cbn [filter]. destruct (overwritten keq l (k, v)); cbn; apply Permutation_refl.
  Qed.

  Lemma keep_last_in l e : In e (keep_last keq l) -> In e l.
  Proof.
    induction l as [|a l IH]; cbn; [tauto|]. destruct (overwritten keq l a); cbn; intuition.
  Qed.

  (* an entry under an unreachable key is never dropped; one under an ordinary key
     leaves an entry with that key *)
  Lemma keep_last_unreachable l e : In e l -> keq (fst e) (fst e) = false -> In e (keep_last keq l).
  Proof.
    induction l as [|a l IH]; cbn; [tauto|]. intros [->|H] He.
    - replace (overwritten keq l e) with false; [now left|].
      symmetry. apply Bool.not_true_is_false. intros Ho. apply existsb_exists in Ho as (e' & _ & E).
      apply (sub_ordinary keq Hsub) in E as [_ E]. congruence.
    - destruct (overwritten keq l a); [|right]; now apply IH.
  Qed.

  Lemma keep_last_covers l : forall e, In e l -> keq (fst e) (fst e) = true -> exists v', In (fst e, v') (keep_last keq l).
  Proof.
    induction l as [|a l IH]; cbn; [tauto|]. intros e [->|H] He.
    - destruct (overwritten keq l e) eqn:Ho.
      + apply existsb_exists in Ho as (e' & Hin & E). pose proof (Hsub _ _ E) as Heq.
        destruct (IH e' Hin) as [v' Hv']; [now rewrite Heq|]. exists v'. now rewrite <- Heq.
      + exists (snd e). left. now destruct e.
    - destruct (IH e H He) as [v' Hv']. exists v'. destruct (overwritten keq l a); [|right]; exact Hv'.
  Qed.

  Lemma keep_last_count_unreachable l :
    filter (fun e => negb (keq (fst e) (fst e))) (keep_last keq l) = filter (fun e => negb (keq (fst e) (fst e))) l.
  Proof.
    induction l as [|a l IH]; cbn; [reflexivity|].
    destruct (overwritten keq l a) eqn:Ho; cbn; rewrite IH.
    - apply existsb_exists in Ho as (e' & _ & E). apply (sub_ordinary keq Hsub) in E as [_ E]. now rewrite E.
    - reflexivity.
  Qed.

  Lemma wfk_keep_last l : wfk keq (keep_last keq l).
  Proof.
    induction l as [|a l IH]; cbn; [exact I|]. destruct (overwritten keq l a) eqn:Ho; [exact IH|]. cbn. split; [|exact IH].
    intros e' He'. apply keep_last_in in He'. destruct (keq (fst a) (fst e')) eqn:E; [|reflexivity].
    exfalso. assert (overwritten keq l a = true); [|congruence].
    apply existsb_exists. exists e'. split; [exact He'|]. now rewrite (sub_sym keq Hsub).
  Qed.

  (* every entry of l is represented: by itself or by an entry with an equal key *)
  Lemma keep_last_rep l : forall e, In e l ->
    exists e', In e' (keep_last keq l) /\ (e' = e \/ keq (fst e') (fst e) = true).
  Proof.
    induction l as [|a l IH]; cbn; [tauto|]. intros e [->|H].
    - destruct (overwritten keq l e) eqn:Ho.
      + apply existsb_exists in Ho as (e1 & Hin & E).
        destruct (IH e1 Hin) as (e' & Hin' & Hr). exists e'. split; [exact Hin'|right].
        destruct Hr as [->|E']; [exact E|eapply (sub_trans keq Hsub); eassumption].
      + exists e. split; [now left|now left].
    - destruct (IH e H) as (e' & Hin' & Hr). exists e'. split; [|exact Hr].
      destruct (overwritten keq l a); [|right]; exact Hin'.
  Qed.

  (* the unique-value case: an entry whose key no other entry of l equals stays *)
  Lemma keep_last_alone l e : In e l -> (forall e', In e' l -> keq (fst e') (fst e) = true -> e' = e) -> In e (keep_last keq l).
  Proof.
    intros Hin Hal. destruct (keep_last_rep l e Hin) as (e' & Hin' & [->|E]); [exact Hin'|].
    rewrite <- (Hal e' (keep_last_in _ _ Hin') E). exact Hin'.
  Qed.

  (* ---------- loops that copy selected entries of a wf map into a fresh map ---------- *)

  Lemma gbuild_filter {W} (sel : K * V -> bool) (val : K * V -> W) m : forall (acc : list (K * W)),
    wfk keq m -> (forall a b, In a acc -> In b m -> keq (fst a) (fst b) = false) ->
    fold_left (fun acc kv => if sel kv then gset keq acc (fst kv) (val kv) else acc) m acc
    = acc ++ map (fun kv => (fst kv, val kv)) (filter sel m).
  Proof.
    induction m as [|[k0 v0] m IH]; intros acc Hwf Hdis; cbn.
    - now rewrite app_nil_r.
    - destruct Hwf as [Hhd Hwf]. destruct (sel (k0, v0)) eqn:Es; cbn.
      + assert (Hfresh : gset keq acc k0 (val (k0, v0)) = acc ++ [(k0, val (k0, v0))]).
        { clear - Hdis. induction acc as [|[k' w'] acc IHa]; cbn; [reflexivity|].
          pose proof (Hdis (k', w') (k0, v0) (or_introl Logic.eq_refl) (or_introl Logic.eq_refl)) as E. cbn in E. rewrite E.
          f_equal. apply IHa.
          intros a b Ha Hb. apply Hdis; [now right|exact Hb]. }
        rewrite Hfresh, IH; [now rewrite <- app_assoc|exact Hwf|].
        intros a b Ha Hb. apply in_app_or in Ha as [Ha|[<-|[]]].
        * apply Hdis; [exact Ha|now right].
        * cbn. apply (Hhd b Hb).
      + apply IH; [exact Hwf|]. intros a b Ha Hb. apply Hdis; [exact Ha|now right].
  Qed.

End GMap.

Arguments nokey {K V} keq m k.
Arguments gbuild_from {K V} keq acc l.

(* ------------------------------------------------------------------ *)
(* Keys / Values / MapCollection                                        *)

Lemma gfill_loop {K V A} (az : A) (f : K * V -> A) (m : list (K * V)) : forall pre,
  fold_left (fun (st : list A * nat) kv => let (arr, idx) := st in (upd arr idx (f kv), S idx))
            m (pre ++ repeat az (length m), length pre)
  = (pre ++ map f m, (length pre + length m)%nat).
Proof.
  induction m as [|kv m IH]; intros pre; cbn.
  - now rewrite Nat.add_0_r.
  - rewrite upd_app_here.
    replace (pre ++ f kv :: repeat az (length m)) with ((pre ++ [f kv]) ++ repeat az (length m))
      by now rewrite <- app_assoc.
    replace (S (length pre)) with (length (pre ++ [f kv])) by (rewrite app_length; cbn; lia).
    rewrite IH. rewrite <- app_assoc. cbn. f_equal. rewrite app_length. cbn. lia.
Qed.

Lemma gfill_spec {K V A} (az : A) (f : K * V -> A) (m : list (K * V)) : gfill az f m = map f m.
Proof.
  unfold gfill. change (repeat az (length m), O) with (@nil A ++ repeat az (length m), length (@nil A)).
  now rewrite (gfill_loop az f m []).
Qed.

(* ------------------------------------------------------------------ *)
(* Contains                                                              *)

Lemma gcontains_iff {A} (eq : A -> A -> bool) l x : gcontains eq l x = true <-> exists y, In y l /\ eq y x = true.
Proof.
  induction l as [|v l IH]; cbn.
  - split; [discriminate|]. intros (y & [] & _).
  - destruct (eq v x) eqn:E.
    + split; [|reflexivity]. intros _. exists v. split; [now left|exact E].
    + rewrite IH. split; intros (y & Hy & Ey); exists y; (split; [|exact Ey]); [now right|].
      destruct Hy as [<-|Hy]; [congruence|exact Hy].
Qed.

(* a value that is not equal to itself is contained in no list *)
Lemma gcontains_unreachable {A} (eq : A -> A -> bool) l x : sub eq -> eq x x = false -> gcontains eq l x = false.
Proof.
  intros Hs Hx. apply Bool.not_true_is_false. intros H. apply gcontains_iff in H as (y & _ & E).
  apply (sub_ordinary eq Hs) in E as [_ E]. congruence.
Qed.

(* ------------------------------------------------------------------ *)
(* Pick / PickBy / FilterMap / MapValues                                *)

Section Select.
  Context {K V : Type} (keq : K -> K -> bool) (Hsub : sub keq).
  Implicit Types (m : list (K * V)).

  Lemma gfilter_val_id (sel : K * V -> bool) m : map (fun kv => (fst kv, snd kv)) (filter sel m) = filter sel m.
  Proof. rewrite <- (map_id (filter sel m)) at 2. apply map_ext. now intros []. Qed.

  Lemma gget_in vz m k v : wfk keq m -> In (k, v) m -> keq k k = true -> gget keq vz m k = v.
  Proof. intros Hwf Hin Hk. unfold gget. now rewrite (wfk_in_glookup keq m k v Hwf Hin Hk). Qed.

  Lemma gcopy_spec (sel : K * V -> bool) m : wfk keq m ->
    fold_left (fun result kv => if sel kv then gset keq result (fst kv) (snd kv) else result) m [] = filter sel m.
  Proof.
    intros Hwf. etransitivity; [exact (gbuild_filter keq sel snd m [] Hwf ltac:(intros a b []))|].
    cbn. apply gfilter_val_id.
  Qed.

  Lemma gkey_in_ordinary ks (kv : K * V) : gkey_in keq ks kv = true -> keq (fst kv) (fst kv) = true.
  Proof.
    unfold gkey_in. intros H. apply gcontains_iff in H as (y & _ & E). now apply (sub_ordinary keq Hsub) in E.
  Qed.

  Lemma gpick_spec vz m ks : wfk keq m ->
    gpick keq vz m ks = match ks with [] => Err 1 | _ => Ok (filter (gkey_in keq ks) m) end.
  Proof.
    intros Hwf. unfold gpick. destruct ks as [|k0 ks]; [reflexivity|]. f_equal.
    rewrite <- (gcopy_spec (gkey_in keq (k0 :: ks)) m Hwf).
    apply fold_left_ext_in. intros a [k v] Hin. unfold gkey_in. cbn [fst snd].
    destruct (gcontains keq (k0 :: ks) k) eqn:E; [|reflexivity].
    rewrite (gget_in vz m k v Hwf Hin); [reflexivity|]. now apply (gkey_in_ordinary (k0 :: ks) (k, v)).
  Qed.

  Lemma gpick_by_spec fn m : wfk keq m -> gpick_by keq fn m = filter (gkv_ok fn) m.
  Proof. intros Hwf. apply (gcopy_spec (gkv_ok fn) m Hwf). Qed.

  Lemma gfilter_map_spec fn m : wfk keq m -> gfilter_map keq fn m = filter (gval_ok fn) m.
  Proof. intros Hwf. apply (gcopy_spec (gval_ok fn) m Hwf). Qed.

  Lemma gmap_values_spec {R} (fn : V -> R) m : wfk keq m ->
    gmap_values keq fn m = map (fun kv => (fst kv, fn (snd kv))) m.
  Proof.
    intros Hwf. unfold gmap_values.
    etransitivity; [exact (gbuild_filter keq (fun _ => true) (fun kv => fn (snd kv)) m [] Hwf ltac:(intros a b []))|].
    cbn. f_equal. clear. induction m; cbn; congruence.
  Qed.

  (* ---------- Omit / OmitBy: delete while ranging ---------- *)

  Lemma gomit_loop_spec (sel : K * V -> bool) (l : list (K * V)) : forall coll, wfk keq coll ->
    fold_left (fun coll kv => if sel kv then gdelete keq coll (fst kv) else coll) l coll
    = filter (fun kv : K * V => negb (existsb (fun e : K * V => sel e && keq (fst e) (fst kv)) l)) coll.
  Proof.
    induction l as [|e l IH]; intros coll Hwf; cbn.
    - symmetry. now apply filter_all_true.
    - destruct (sel e) eqn:Es; cbn.
      + rewrite IH by (rewrite (gdelete_filter keq Hsub) by exact Hwf; now apply wfk_filter).
        rewrite (gdelete_filter keq Hsub) by exact Hwf. rewrite filter_filter.
        apply filter_ext. intros [k v]. cbn. rewrite (sub_sym keq Hsub k).
        destruct (keq (fst e) k); cbn; reflexivity.
      + now apply IH.
  Qed.

  (* what deleting can achieve: the qualifying entries under ordinary keys go *)
  Lemma gomit_self_spec (sel : K * V -> bool) m : wfk keq m ->
    fold_left (fun coll kv => if sel kv then gdelete keq coll (fst kv) else coll) m m
    = filter (fun kv => negb (sel kv && keq (fst kv) (fst kv))) m.
  Proof.
    intros Hwf. rewrite gomit_loop_spec by exact Hwf.
    apply filter_ext_in. intros kv Hin. f_equal.
    destruct (sel kv && keq (fst kv) (fst kv)) eqn:Es.
    - apply existsb_exists. exists kv. split; [exact Hin|exact Es].
    - apply Bool.not_true_is_false. intros Hex. apply existsb_exists in Hex as (e & Hin' & Hc).
      apply andb_prop in Hc as [Hs Hk].
      pose proof (wfk_in_same_key keq Hsub m e kv Hwf Hin' Hin Hk) as ->.
      apply (sub_ordinary keq Hsub) in Hk as [Hk _]. rewrite Hs, Hk in Es. discriminate.
  Qed.

  Lemma gomit_spec m ks : wfk keq m -> gomit keq m ks = filter (fun kv => negb (gkey_in keq ks kv)) m.
  Proof.
    intros Hwf. unfold gomit. etransitivity; [exact (gomit_self_spec (gkey_in keq ks) m Hwf)|].
    apply filter_ext. intros kv. destruct (gkey_in keq ks kv) eqn:E; [|reflexivity].
    now rewrite (gkey_in_ordinary ks kv E).
  Qed.

  Lemma gomit_by_asfound_spec fn m : wfk keq m ->
    gomit_by_asfound keq fn m = filter (fun kv => negb (gkv_ok fn kv && keq (fst kv) (fst kv))) m.
  Proof. intros Hwf. apply (gomit_self_spec (gkv_ok fn) m Hwf). Qed.

  (* the repaired OmitBy *)
  Definition omit_step (fn : K -> V -> bool) (st : list (K * V) * bool * list (K * V)) (kv : K * V) :=
    let '(coll, stuck, keep) := st in
    if fn (fst kv) (snd kv)
    then if keq (fst kv) (fst kv) then (gdelete keq coll (fst kv), stuck, keep) else (coll, true, keep)
    else if negb (keq (fst kv) (fst kv)) then (coll, stuck, keep ++ [kv]) else (coll, stuck, keep).

  Lemma gomit_by_loop fn (l : list (K * V)) : forall coll stuck keep,
    fold_left (omit_step fn) l (coll, stuck, keep)
    = (fold_left (fun coll kv => if gkv_ok fn kv && keq (fst kv) (fst kv) then gdelete keq coll (fst kv) else coll) l coll,
       stuck || existsb (fun kv => gkv_ok fn kv && negb (keq (fst kv) (fst kv))) l,
       keep ++ filter (fun kv => negb (gkv_ok fn kv) && negb (keq (fst kv) (fst kv))) l).
  Proof.
    induction l as [|kv l IH]; intros coll stuck keep; cbn.
    - now rewrite Bool.orb_false_r, app_nil_r.
    - unfold gkv_ok in *. cbn. destruct (fn (fst kv) (snd kv)) eqn:Ef, (keq (fst kv) (fst kv)) eqn:Ek; cbn;
        rewrite IH; cbn; try reflexivity.
      + now rewrite Bool.orb_true_r.
      + now rewrite <- app_assoc.
  Qed.

  Lemma gomit_by_spec fn m : wfk keq m ->
    Permutation (gomit_by keq fn m) (filter (fun kv => negb (gkv_ok fn kv)) m) /\
    ((forall kv, In kv m -> gkv_ok fn kv = true -> keq (fst kv) (fst kv) = true) ->
     gomit_by keq fn m = filter (fun kv => negb (gkv_ok fn kv)) m).
  Proof.
    intros Hwf. unfold gomit_by.
    change (fun (st : list (K * V) * bool * list (K * V)) (kv : K * V) =>
              let '(coll, stuck, keep) := st in
              if fn (fst kv) (snd kv)
              then if keq (fst kv) (fst kv) then (gdelete keq coll (fst kv), stuck, keep) else (coll, true, keep)
              else if negb (keq (fst kv) (fst kv)) then (coll, stuck, keep ++ [kv]) else (coll, stuck, keep))
      with (omit_step fn).
    rewrite gomit_by_loop.
    assert (Hcoll : fold_left (fun coll kv => if gkv_ok fn kv && keq (fst kv) (fst kv) then gdelete keq coll (fst kv) else coll) m m
                    = filter (fun kv => negb (gkv_ok fn kv && keq (fst kv) (fst kv))) m).
    { rewrite (gomit_self_spec (fun kv => gkv_ok fn kv && keq (fst kv) (fst kv)) m Hwf).
      apply filter_ext. intros kv. cbn. now destruct (gkv_ok fn kv), (keq (fst kv) (fst kv)). }
    rewrite Hcoll. clear Hcoll. cbn [orb app].
    set (coll := filter (fun kv => negb (gkv_ok fn kv && keq (fst kv) (fst kv))) m).
    destruct (existsb (fun kv => gkv_ok fn kv && negb (keq (fst kv) (fst kv))) m) eqn:Est.
    - (* a new map: the remaining ordinary entries, then the kept unreachable ones *)
      split.
      + set (keep := filter (fun kv => negb (gkv_ok fn kv) && negb (keq (fst kv) (fst kv))) m).
        assert (Hfirst : fold_left (fun rest kv => if keq (fst kv) (fst kv) then gset keq rest (fst kv) (snd kv) else rest) coll []
                         = filter (fun kv => keq (fst kv) (fst kv)) coll).
        { apply (gcopy_spec (fun kv => keq (fst kv) (fst kv)) coll). unfold coll. now apply wfk_filter. }
        rewrite Hfirst.
        assert (Hsecond : forall acc, fold_left (fun rest kv => gset keq rest (fst kv) (snd kv)) keep acc = acc ++ keep).
        { unfold keep. clear - Hsub. induction m as [|kv m IH]; intros acc; cbn; [now rewrite app_nil_r|].
          destruct (negb (gkv_ok fn kv) && negb (keq (fst kv) (fst kv))) eqn:E; cbn; [|apply IH].
          apply andb_prop in E as [_ E]. apply Bool.negb_true_iff in E.
          rewrite (gset_nokey keq acc (fst kv) (snd kv)) by now apply (nokey_unreachable keq Hsub).
          rewrite IH, <- app_assoc. cbn. now destruct kv. }
        rewrite Hsecond. unfold coll, keep. rewrite filter_filter.
        clear. induction m as [|kv m IH]; cbn; [constructor|].
        destruct (gkv_ok fn kv), (keq (fst kv) (fst kv)); cbn; try exact IH.
        * now constructor.
        * apply Permutation_sym, Permutation_cons_app, Permutation_sym. exact IH.
      + intros Hall. exfalso. apply existsb_exists in Est as (kv & Hin & E). apply andb_prop in E as [E1 E2].
        rewrite (Hall kv Hin E1) in E2. discriminate.
    - assert (Heq : coll = filter (fun kv => negb (gkv_ok fn kv)) m).
      { unfold coll. apply filter_ext_in. intros kv Hin. f_equal.
        destruct (gkv_ok fn kv) eqn:E1; [|reflexivity]. destruct (keq (fst kv) (fst kv)) eqn:E2; [reflexivity|].
        exfalso. rewrite <- Bool.not_true_iff_false in Est. apply Est. apply existsb_exists. exists kv.
        split; [exact Hin|]. now rewrite E1, E2. }
      rewrite Heq. split; [apply Permutation_refl|reflexivity].
  Qed.

  Lemma gfilter_disjoint_keys (p : K * V -> bool) m a b :
    wfk keq m -> In a (filter p m) -> In b (filter (fun x => negb (p x)) m) -> keq (fst a) (fst b) = false.
  Proof.
    intros Hwf Ha Hb. apply filter_In in Ha as [Ha Hpa]. apply filter_In in Hb as [Hb Hpb].
    destruct (keq (fst a) (fst b)) eqn:E; [|reflexivity].
    pose proof (wfk_in_same_key keq Hsub m a b Hwf Ha Hb E) as ->. rewrite Hpa in Hpb. discriminate.
  Qed.
End Select.

(* ------------------------------------------------------------------ *)
(* MapKeys / Invert / SliceToMap: last assignment wins                  *)

Lemma gmap_keys_build {K V R} (req : R -> R -> bool) (fn : K -> V -> R) (m : list (K * V)) :
  gmap_keys req fn m = gbuild_from req [] (map (fun kv => (fn (fst kv) (snd kv), snd kv)) m).
Proof. unfold gmap_keys, gbuild_from. now rewrite fold_left_map'. Qed.

Lemma ginvert_build {K V} (veq : V -> V -> bool) (m : list (K * V)) :
  ginvert veq m = gbuild_from veq [] (map (fun kv => (snd kv, fst kv)) m).
Proof. unfold ginvert, gbuild_from. now rewrite fold_left_map'. Qed.

Lemma gslice_to_map_loop_build {K V} (keq : K -> K -> bool) (s1 : list K) : forall (s2 : list V) acc,
  gslice_to_map_loop keq acc s1 s2 = gbuild_from keq acc (combine s1 s2).
Proof.
  induction s1 as [|k s1 IH]; intros [|v s2] acc; cbn; try reflexivity.
  now rewrite IH.
Qed.

Lemma gbuild_nil_perm {K V} (keq : K -> K -> bool) (l : list (K * V)) : sub keq ->
  Permutation (gbuild_from keq [] l) (keep_last keq l) /\ wfk keq (gbuild_from keq [] l).
Proof.
  intros Hs. split.
  - exact (gbuild_from_perm keq Hs l [] I).
  - now apply wfk_gbuild_from.
Qed.

(* ------------------------------------------------------------------ *)
(* MapEvery / MapSome / MapContains                                     *)

Lemma gmap_every_spec {K V} (fn : V -> bool) (m : list (K * V)) : gmap_every fn m = forallb fn (map snd m).
Proof. induction m as [|[k v] m IH]; cbn; [reflexivity|]. destruct (fn v); cbn; [exact IH|reflexivity]. Qed.
Lemma gmap_some_spec {K V} (fn : V -> bool) (m : list (K * V)) : gmap_some fn m = existsb fn (map snd m).
Proof. induction m as [|[k v] m IH]; cbn; [reflexivity|]. destruct (fn v); cbn; [reflexivity|exact IH]. Qed.
Lemma gmap_contains_spec {K V} (veq : V -> V -> bool) (m : list (K * V)) x :
  gmap_contains veq m x = existsb (fun v => veq v x) (map snd m).
Proof. induction m as [|[k v] m IH]; cbn; [reflexivity|]. destruct (veq v x); cbn; [reflexivity|exact IH]. Qed.

(* ------------------------------------------------------------------ *)
(* FindKey / FindByKey / Pluck                                          *)

Lemma gfind_key_spec {K V} (kz : K) (fn : V -> bool) (m : list (K * V)) :
  (gfind_key kz fn m = kz /\ forall k v, In (k, v) m -> fn v = false) \/
  (exists v, In (gfind_key kz fn m, v) m /\ fn v = true).
Proof.
  induction m as [|[k v] m IH]; cbn.
  - left. split; [reflexivity|tauto].
  - destruct (fn v) eqn:E.
    + right. exists v. split; [now left|exact E].
    + destruct IH as [[H0 Hall]|(v' & Hin & Hv')].
      * left. split; [exact H0|]. intros k' v'' [H|H]; [congruence|eauto].
      * right. exists v'. split; [now right|exact Hv'].
Qed.

Lemma gfind_by_key_spec {K V} (keq : K -> K -> bool) (fn : K -> bool) (m : list (K * V)) :
  (gfind_by_key keq fn m = [] /\ forall k v, In (k, v) m -> fn k = false) \/
  (exists k v, gfind_by_key keq fn m = [(k, v)] /\ In (k, v) m /\ fn k = true).
Proof.
  induction m as [|[k v] m IH]; cbn.
  - left. split; [reflexivity|tauto].
  - destruct (fn k) eqn:E.
    + right. exists k, v. split; [reflexivity|]. split; [now left|exact E].
    + destruct IH as [[H0 Hall]|(k' & v' & Hr & Hin & Hv')].
      * left. split; [exact H0|]. intros k' v'' [H|H]; [congruence|eauto].
      * right. exists k', v'. split; [exact Hr|]. split; [now right|exact Hv'].
Qed.

Lemma gfind_key_any_order {K V} (kz : K) (fn : V -> bool) (m : list (K * V)) k v :
  In (k, v) m -> fn v = true -> exists m', Permutation m m' /\ gfind_key kz fn m' = k.
Proof.
  intros Hin Hv. apply in_split in Hin as (a & b & ->).
  exists ((k, v) :: a ++ b). split; [apply Permutation_sym, Permutation_middle|].
  cbn. now rewrite Hv.
Qed.
Lemma gfind_by_key_any_order {K V} (keq : K -> K -> bool) (fn : K -> bool) (m : list (K * V)) k v :
  In (k, v) m -> fn k = true -> exists m', Permutation m m' /\ gfind_by_key keq fn m' = [(k, v)].
Proof.
  intros Hin Hv. apply in_split in Hin as (a & b & ->).
  exists ((k, v) :: a ++ b). split; [apply Permutation_sym, Permutation_middle|].
  cbn. now rewrite Hv.
Qed.

Lemma gfind_by_key_eq_lookup {K V} (keq : K -> K -> bool) (m : list (K * V)) key :
  glookup keq (gfind_by_key keq (fun k => keq k key) m) key = glookup keq m key.
Proof.
  induction m as [|[k v] m IH]; cbn; [reflexivity|].
  destruct (keq k key) eqn:E; cbn; [now rewrite E|exact IH].
Qed.

Lemma gpluck_spec {K V} (keq : K -> K -> bool) (vz : V) (ms : list (list (K * V))) key :
  gpluck keq vz ms key = gspec_pluck keq ms key.
Proof.
  unfold gpluck, gspec_pluck.
  rewrite (fold_left_ext_in _ (fun (acc : list V) (m : list (K * V)) =>
                                 acc ++ match glookup keq m key with Some v => [v] | None => [] end)).
  - now rewrite fold_append_flat_map.
  - intros acc m _. unfold gget. rewrite gfind_by_key_eq_lookup.
    destruct (glookup keq m key); [reflexivity|now rewrite app_nil_r].
Qed.

(* ------------------------------------------------------------------ *)
(* Find                                                                  *)

Section Find.
  Context {K V : Type} (keq : K -> K -> bool) (klt : K -> K -> bool) (Hsub : sub keq).
  Implicit Types (m : list (K * V)).

  Definition le_k (a b : K) : Prop := klt b a = false.

  Lemma gfind_keys_spec m : forall acc,
    fold_left (fun keys (kv : K * V) => if keq (fst kv) (fst kv) then keys ++ [fst kv] else keys) m acc
    = acc ++ filter (fun k => keq k k) (map fst m).
  Proof.
    induction m as [|[k v] m IH]; intros acc; cbn; [now rewrite app_nil_r|].
    destruct (keq k k); rewrite IH; [now rewrite <- app_assoc|reflexivity].
  Qed.

  Lemma gfind_loop_spec vz fn m ks :
    (gfind_loop keq vz fn m ks = None /\ forall k, In k ks -> fn (gget keq vz m k) = false) \/
    (exists a k b, ks = a ++ k :: b /\ gfind_loop keq vz fn m ks = Some (k, gget keq vz m k) /\
                   fn (gget keq vz m k) = true /\ forall k', In k' a -> fn (gget keq vz m k') = false).
  Proof.
    induction ks as [|k ks IH]; cbn.
    - left. split; [reflexivity|tauto].
    - destruct (fn (gget keq vz m k)) eqn:E.
      + right. exists [], k, ks. cbn. repeat split; auto. tauto.
      + destruct IH as [[H0 Hall]|(a & k' & b & -> & Hr & Hk' & Ha)].
        * left. split; [exact H0|]. intros k' [<-|H]; auto.
        * right. exists (k :: a), k', b. cbn. repeat split; auto. intros k'' [<-|H]; auto.
  Qed.

  Lemma gfind_unordered_spec fn m :
    (gfind_unordered keq fn m = [] /\ forall k v, In (k, v) m -> keq k k = false -> fn v = false) \/
    (exists k v, gfind_unordered keq fn m = [(k, v)] /\ In (k, v) m /\ keq k k = false /\ fn v = true).
  Proof.
    induction m as [|[k v] m IH]; cbn.
    - left. split; [reflexivity|tauto].
    - destruct (negb (keq k k) && fn v) eqn:E.
      + apply andb_prop in E as [E1 E2]. apply Bool.negb_true_iff in E1.
        right. exists k, v. repeat split; auto.
      + destruct IH as [[H0 Hall]|(k' & v' & Hr & Hin & Hk' & Hv')].
        * left. split; [exact H0|]. intros k' v' [H|H] Hk'; [|eauto].
          injection H as <- <-. rewrite Hk' in E. cbn in E. exact E.
        * right. exists k', v'. repeat split; auto.
  Qed.

  Lemma gfind_with_spec vz (sorter : list K -> list K) fn m :
    (forall a, klt a a = false) ->
    (forall l, (forall x, In x l -> keq x x = true) -> Permutation (sorter l) l /\ StronglySorted le_k (sorter l)) ->
    wfk keq m ->
    (gfind_with keq vz sorter fn m = [] /\ forall k v, In (k, v) m -> fn v = false) \/
    (exists k v, gfind_with keq vz sorter fn m = [(k, v)] /\ In (k, v) m /\ fn v = true /\
       ((keq k k = true /\ forall k' v', In (k', v') m -> fn v' = true -> keq k' k' = true -> le_k k k') \/
        (keq k k = false /\ forall k' v', In (k', v') m -> fn v' = true -> keq k' k' = false))).
  Proof.
    intros Hirr Hsort Hwf. unfold gfind_with, gfind_keys. rewrite gfind_keys_spec. cbn [app].
    set (oks := filter (fun k => keq k k) (map fst m)).
    assert (Hoks : forall x, In x oks -> keq x x = true) by (intros x Hx; now apply filter_In in Hx).
    destruct (Hsort oks Hoks) as [Hperm Hsorted].
    assert (Hkey : forall k, In k (sorter oks) <-> keq k k = true /\ exists v, In (k, v) m).
    { intros k. split.
      - intros H. apply (Permutation_in _ Hperm) in H. apply filter_In in H as [H Hk]. split; [exact Hk|].
        apply in_map_iff in H as ([k0 v0] & Hk0 & Hin0). cbn in Hk0. subst k0. eauto.
      - intros [Hk [v Hin]]. apply (Permutation_in _ (Permutation_sym Hperm)). apply filter_In. split; [|exact Hk].
        change k with (fst (k, v)). now apply in_map. }
    assert (Hget : forall k v, In (k, v) m -> keq k k = true -> gget keq vz m k = v).
    { intros k v Hin Hk. now apply (gget_in keq vz m k v Hwf Hin Hk). }
    destruct (gfind_loop_spec vz fn m (sorter oks)) as [[H0 Hall]|(a & k & b & Heq & Hr & Hk & Ha)].
    - rewrite H0.
      assert (Hord : forall k v, In (k, v) m -> keq k k = true -> fn v = false).
      { intros k v Hin Hk. rewrite <- (Hget k v Hin Hk). apply Hall. apply Hkey. eauto. }
      destruct (gfind_unordered_spec fn m) as [[Hu Hnone]|(k & v & Hu & Hin & Hk & Hv)].
      + left. split; [exact Hu|]. intros k v Hin. destruct (keq k k) eqn:Ek; eauto.
      + right. exists k, v. split; [exact Hu|]. split; [exact Hin|]. split; [exact Hv|]. right. split; [exact Hk|].
        intros k' v' Hin' Hv'. destruct (keq k' k') eqn:Ek'; [|reflexivity].
        rewrite (Hord k' v' Hin' Ek') in Hv'. discriminate.
    - rewrite Hr. right.
      assert (Hkin : In k (sorter oks)) by (rewrite Heq; apply in_elt).
      apply Hkey in Hkin as [Hkk [v0 Hin0]]. rewrite (Hget k v0 Hin0 Hkk) in *.
      exists k, v0. split; [reflexivity|]. split; [exact Hin0|]. split; [exact Hk|]. left. split; [exact Hkk|].
      intros k' v' Hin' Hv' Hk'k'.
      assert (Hk'in : In k' (a ++ k :: b)) by (rewrite <- Heq; apply Hkey; eauto).
      apply in_app_or in Hk'in as [Hk'a|[<-|Hk'b]].
      + specialize (Ha k' Hk'a). rewrite (Hget k' v' Hin' Hk'k') in Ha. congruence.
      + apply Hirr.
      + rewrite Heq in Hsorted. clear - Hsorted Hk'b. induction a as [|x a IH]; cbn in Hsorted.
        * inversion Hsorted as [|? ? _ Hall]; subst. rewrite Forall_forall in Hall. now apply Hall.
        * inversion Hsorted; subst. now apply IH.
  Qed.
End Find.

(* the instance of sort.Slice: insertion sort by < on ordinary fl keys *)
Lemma fl_insert_perm x l : Permutation (fl_insert x l) (x :: l).
Proof.
  induction l as [|y l IH]; cbn; [apply Permutation_refl|].
  destruct (fl_ltb y x); [|apply Permutation_refl].
  eapply Permutation_trans; [apply perm_skip; exact IH|apply perm_swap].
Qed.
Lemma fl_sort_perm l : Permutation (fl_sort l) l.
Proof.
  induction l as [|x l IH]; cbn; [constructor|].
  eapply Permutation_trans; [apply fl_insert_perm|now constructor].
Qed.

Lemma fl_sub : sub fl_eqb.
Proof. intros [x|] [y|] H; cbn in H; try discriminate. apply Z.eqb_eq in H. now subst. Qed.

Lemma fl_insert_sorted x l : fl_eqb x x = true -> (forall y, In y l -> fl_eqb y y = true) ->
  StronglySorted (le_k fl_ltb) l -> StronglySorted (le_k fl_ltb) (fl_insert x l).
Proof.
  intros Hx. induction l as [|y l IH]; cbn; intros Hall Hs; [repeat constructor|].
  inversion Hs as [|? ? Hs' Hhd]; subst.
  assert (Hy : fl_eqb y y = true) by (apply Hall; now left).
  destruct x as [x|]; [|discriminate]. destruct y as [y|]; [|discriminate]. cbn.
  destruct (Z.ltb_spec y x).
  - constructor; [apply IH; [intros z Hz; apply Hall; now right|exact Hs']|].
    rewrite Forall_forall. intros z Hz. apply (Permutation_in _ (fl_insert_perm (Num x) l)) in Hz.
    destruct Hz as [<-|Hz].
    + unfold le_k. cbn. apply Z.ltb_ge. lia.
    + rewrite Forall_forall in Hhd. now apply Hhd.
  - constructor; [exact Hs|]. constructor.
    + unfold le_k. cbn. apply Z.ltb_ge. lia.
    + rewrite Forall_forall in *. intros z Hz. specialize (Hhd z Hz). unfold le_k in *.
      assert (Hzz : fl_eqb z z = true) by (apply Hall; now right).
      destruct z as [z|]; [|discriminate]. cbn in *. apply Z.ltb_ge in Hhd. apply Z.ltb_ge. lia.
Qed.

Lemma fl_sort_sorted l : (forall x, In x l -> fl_eqb x x = true) ->
  Permutation (fl_sort l) l /\ StronglySorted (le_k fl_ltb) (fl_sort l).
Proof.
  intros Hall. split; [apply fl_sort_perm|].
  induction l as [|x l IH]; cbn; [constructor|].
  apply fl_insert_sorted.
  - apply Hall. now left.
  - intros y Hy. apply Hall. right. eapply Permutation_in; [apply fl_sort_perm|exact Hy].
  - apply IH. intros y Hy. apply Hall. now right.
Qed.

(* ------------------------------------------------------------------ *)
(* MapUnique                                                            *)

Section Unique.
  Context {K V : Type} (keq : K -> K -> bool) (veq : V -> V -> bool) (Hk : sub keq) (Hv : sub veq).
  Implicit Types (m : list (K * V)).

  Lemma glookup_none_contains (ref : list (V * bool)) v : glookup veq ref v = None <-> gcontains veq (map fst ref) v = false.
  Proof.
    induction ref as [|[v' bb] ref IH]; cbn; [tauto|].
    destruct (veq v' v); [split; discriminate|exact IH].
  Qed.

  Lemma gmap_unique_loop m : forall result (ref : list (V * bool)),
    wfk keq m -> (forall a b, In a result -> In b m -> keq (fst a) (fst b) = false) ->
    fst (fold_left (fun (st : list (K * V) * list (V * bool)) kv =>
                      let (result, ref) := st in
                      match glookup veq ref (snd kv) with
                      | None => (gset keq result (fst kv) (snd kv), gset veq ref (snd kv) true)
                      | Some _ => (result, ref)
                      end) m (result, ref))
    = result ++ guniq_ref veq (map fst ref) m.
  Proof.
    induction m as [|[k v] m IH]; intros result ref Hwf Hdis; cbn.
    - now rewrite app_nil_r.
    - destruct Hwf as [Hhd Hwf].
      destruct (glookup veq ref v) eqn:El.
      + assert (Hc : gcontains veq (map fst ref) v = true).
        { destruct (gcontains veq (map fst ref) v) eqn:Ec; [reflexivity|].
          apply glookup_none_contains in Ec. congruence. }
        rewrite Hc. apply IH; [exact Hwf|]. intros a0 b0 Ha Hb. apply Hdis; [exact Ha|now right].
      + pose proof El as Ec. apply glookup_none_contains in Ec. rewrite Ec.
        rewrite (gset_nokey keq result k v).
        2:{ intros k' v' Hin. exact (Hdis (k', v') (k, v) Hin (or_introl Logic.eq_refl)). }
        rewrite (gset_nokey veq ref v true) by (now apply (glookup_none veq)).
        rewrite IH.
        * rewrite map_app. cbn. now rewrite <- app_assoc.
        * exact Hwf.
        * intros a0 b0 Ha Hb. apply in_app_or in Ha as [Ha|[<-|[]]].
          -- apply Hdis; [exact Ha|now right].
          -- cbn. apply (Hhd b0 Hb).
  Qed.

  Lemma gmap_unique_ref m : wfk keq m -> gmap_unique keq veq m = guniq_ref veq [] m.
  Proof. intros Hwf. unfold gmap_unique. rewrite gmap_unique_loop; [reflexivity|exact Hwf|intros a b []]. Qed.

  Lemma guniq_ref_sub m : forall seen k v, In (k, v) (guniq_ref veq seen m) -> In (k, v) m /\ gcontains veq seen v = false.
  Proof.
    induction m as [|[k0 v0] m IH]; intros seen k v; cbn; [tauto|].
    destruct (gcontains veq seen v0) eqn:Ec.
    - intros H. apply IH in H as [H1 H2]. split; [now right|exact H2].
    - intros [H|H].
      + injection H as -> ->. split; [now left|exact Ec].
      + apply IH in H as [H1 H2]. split; [now right|].
        apply Bool.not_true_is_false. intros Hc. apply gcontains_iff in Hc as (y & Hy & Ey).
        rewrite <- Bool.not_true_iff_false in H2. apply H2. apply gcontains_iff. exists y. split; [|exact Ey].
        apply in_or_app. now left.
  Qed.

  (* the kept values are pairwise unequal *)
  Lemma guniq_ref_values_distinct m : forall seen,
    wfk veq (map (fun kv => (snd kv, fst kv)) (guniq_ref veq seen m)).
  Proof.
    induction m as [|[k0 v0] m IH]; intros seen; cbn; [exact I|].
    destruct (gcontains veq seen v0); [apply IH|]. cbn. split; [|apply IH].
    intros e' He'. apply in_map_iff in He' as ([k v] & <- & Hin). cbn.
    apply guniq_ref_sub in Hin as [_ Hnot].
    destruct (veq v0 v) eqn:E; [|reflexivity]. exfalso.
    rewrite <- Bool.not_true_iff_false in Hnot. apply Hnot. apply gcontains_iff. exists v0. split; [|exact E].
    apply in_or_app. right. now left.
  Qed.

  (* every value is kept: an unreachable one (NaN) under every key that held it,
     an ordinary one under some key *)
  Lemma guniq_ref_covers m : forall seen k v, In (k, v) m ->
    (veq v v = false -> In (k, v) (guniq_ref veq seen m)) /\
    (veq v v = true -> gcontains veq seen v = true \/ exists k', In (k', v) (guniq_ref veq seen m)).
  Proof.
    induction m as [|[k0 v0] m IH]; intros seen k v; cbn; [tauto|].
    intros [H|H].
    - injection H as -> ->. split.
      + intros Hvv. rewrite (gcontains_unreachable veq seen v Hv Hvv). now left.
      + intros Hvv. destruct (gcontains veq seen v) eqn:Ec; [now left|]. right. exists k. now left.
    - destruct (gcontains veq seen v0) eqn:Ec.
      + now apply (IH seen k v).
      + destruct (IH (seen ++ [v0]) k v H) as [Hn Ho]. split.
        * intros Hvv. right. now apply Hn.
        * intros Hvv. destruct (Ho Hvv) as [Hs|[k' Hk']].
          -- apply gcontains_iff in Hs as (y & Hy & Ey). apply in_app_or in Hy as [Hy|[<-|[]]].
             ++ left. apply gcontains_iff. eauto.
             ++ right. exists k0. left. f_equal. now apply Hv.
          -- right. exists k'. now right.
  Qed.

  Lemma guniq_ref_wfk m : forall seen, wfk keq m -> wfk keq (guniq_ref veq seen m).
  Proof.
    induction m as [|[k0 v0] m IH]; intros seen Hwf; cbn; [exact I|]. destruct Hwf as [Hhd Hwf].
    destruct (gcontains veq seen v0); [now apply IH|]. cbn. split; [|now apply IH].
    intros [k v] Hin. apply guniq_ref_sub in Hin as [Hin _]. now apply (Hhd (k, v)).
  Qed.
End Unique.

(* ------------------------------------------------------------------ *)
(* PartitionMap, the collection filters                                 *)

Lemma ginner_hit_spec {K V} (fn : V -> bool) (item : list (K * V)) : ginner_hit fn item = existsb fn (map snd item).
Proof. induction item as [|[k v] item IH]; cbn; [reflexivity|]. destruct (fn v); cbn; [reflexivity|exact IH]. Qed.

Lemma gfilter_collection_loop {K V} (fn : V -> bool) (coll : list (list (K * V))) : forall acc,
  fold_left (fun filtered item => if ginner_hit fn item then filtered ++ [item] else filtered) coll acc
  = acc ++ gspec_filter_collection fn coll.
Proof.
  unfold gspec_filter_collection.
  induction coll as [|item coll IH]; intros acc; cbn; [now rewrite app_nil_r|].
  rewrite <- ginner_hit_spec. destruct (ginner_hit fn item); cbn; rewrite IH; [now rewrite <- app_assoc|reflexivity].
Qed.

Lemma gfilter_collection_spec {K V} (fn : V -> bool) (coll : list (list (K * V))) :
  gfilter_collection fn coll = gspec_filter_collection fn coll.
Proof. unfold gfilter_collection. now rewrite gfilter_collection_loop. Qed.

Lemma gpartition_map_loop {K V} (fn : list (K * V) -> bool) (ms : list (list (K * V))) : forall a b,
  fold_left (fun (result : list (list (K * V)) * list (list (K * V))) m =>
               match m with
               | [] => result
               | _ :: _ => if fn m then (fst result ++ [m], snd result) else (fst result, snd result ++ [m])
               end) ms (a, b)
  = (a ++ fst (gspec_partition_map fn ms), b ++ snd (gspec_partition_map fn ms)).
Proof.
  unfold gspec_partition_map.
  induction ms as [|m ms IH]; intros a b; cbn; [now rewrite !app_nil_r|].
  destruct m as [|e m']; cbn; [apply IH|].
  destruct (fn (e :: m')) eqn:E; cbn; rewrite IH; cbn; now rewrite <- app_assoc.
Qed.

Lemma gpartition_map_spec {K V} (fn : list (K * V) -> bool) (ms : list (list (K * V))) :
  gpartition_map fn ms = gspec_partition_map fn ms.
Proof. unfold gpartition_map. now rewrite gpartition_map_loop. Qed.

(* ------------------------------------------------------------------ *)
(* Conservativity: at a reflexive equality (Z.eqb) the generic helpers are
   the helpers of C14_Model.v — also the five repaired loops, on every
   well-formed map                                                      *)

Lemma sub_Zeqb : sub Z.eqb.
Proof. intros a b H. now apply Z.eqb_eq. Qed.

Lemma glookup_Z {V} (m : amapV V) k : glookup Z.eqb m k = lookup m k.
Proof. induction m as [|[k' v'] m IH]; cbn; [reflexivity|]. now rewrite IH. Qed.
Lemma gset_Z {V} (m : amapV V) k v : gset Z.eqb m k v = map_set m k v.
Proof. induction m as [|[k' v'] m IH]; cbn; [reflexivity|]. now rewrite IH. Qed.
Lemma gdelete_Z {V} (m : amapV V) k : gdelete Z.eqb m k = map_delete m k.
Proof. induction m as [|[k' v'] m IH]; cbn; [reflexivity|]. now rewrite IH. Qed.
Lemma gget_Z (m : amap) k : gget Z.eqb 0 m k = get m k.
Proof. unfold gget, get. now rewrite glookup_Z. Qed.
Lemma gcontains_Z l x : gcontains Z.eqb l x = contains l x.
Proof. induction l as [|v l IH]; cbn; [reflexivity|]. now rewrite IH. Qed.

Lemma wfk_Z {V} (m : amapV V) : wfk Z.eqb m <-> wf m.
Proof.
  unfold wf. induction m as [|[k v] m IH]; cbn.
  - split; [constructor|trivial].
  - rewrite IH. split.
    + intros [Hhd Hnd]. constructor; [|exact Hnd]. intros Hin.
      apply in_map_iff in Hin as ([k' v'] & Hk & Hin). cbn in Hk. subst k'.
      specialize (Hhd _ Hin). cbn in Hhd. rewrite Z.eqb_refl in Hhd. discriminate.
    + intros Hnd. inversion Hnd as [|? ? Hnot Hnd']; subst. split; [|exact Hnd'].
      intros [k' v'] Hin. cbn. apply Z.eqb_neq. intros ->. apply Hnot.
      change k' with (fst (k', v')). now apply in_map.
Qed.

Lemma gbuild_from_Z {V} (l : list (Z * V)) : forall acc, gbuild_from Z.eqb acc l = build_from acc l.
Proof.
  unfold gbuild_from, build_from. induction l as [|e l IH]; intros acc; cbn; [reflexivity|]. rewrite gset_Z. apply IH.
Qed.

Lemma guniq_ref_Z (m : amap) : forall seen, guniq_ref Z.eqb seen m = uniq_ref seen m.
Proof. induction m as [|[k v] m IH]; intros seen; cbn; [reflexivity|]. now rewrite gcontains_Z, !IH. Qed.

Lemma conservative_plain (m : amap) (ms : list amap) ks k fn1 fn2 fnk (p : Z -> bool) s1 s2 :
  gkeys 0 m = keys_go m /\ gvalues 0 m = values_go m /\ gmap_collection 0 fn1 m = map_collection fn1 m /\
  gmap_values Z.eqb fn1 m = map_values fn1 m /\ gmap_keys Z.eqb fn2 m = map_keys fn2 m /\
  gmap_every p m = map_every p m /\ gmap_some p m = map_some p m /\ gmap_contains Z.eqb m k = map_contains m k /\
  gfind_key 0 p m = find_key p m /\ gfind_by_key Z.eqb fnk m = find_by_key fnk m /\
  gpluck Z.eqb 0 ms k = pluck ms k /\ gpick Z.eqb 0 m ks = pick m ks /\ gomit Z.eqb m ks = omit m ks /\
  gslice_to_map Z.eqb s1 s2 = slice_to_map s1 s2 /\ gfilter_map Z.eqb p m = filter_map p m /\
  gfilter_collection p ms = filter_map_collection p ms.
Proof.
  repeat split; try reflexivity.
  - induction m as [|[k0 v0] m IH]; cbn; [reflexivity|]. now rewrite IH.
  - induction m as [|[k0 v0] m IH]; cbn; [reflexivity|]. now rewrite IH.
  - induction m as [|[k0 v0] m IH]; cbn; [reflexivity|]. now rewrite IH.
  - induction m as [|[k0 v0] m IH]; cbn; [reflexivity|]. now rewrite IH.
  - induction m as [|[k0 v0] m IH]; cbn; [reflexivity|]. now rewrite IH.
  - rewrite gpluck_spec, pluck_spec. unfold gspec_pluck, spec_pluck. apply flat_map_ext. intros a. now rewrite glookup_Z.
  - unfold gpick, pick. destruct ks as [|k0 ks]; [reflexivity|]. apply (f_equal (@Ok amap)).
    apply fold_left_ext_in. intros a b _. now rewrite gcontains_Z, gset_Z, gget_Z.
  - unfold gomit, omit. apply fold_left_ext_in. intros a b _. now rewrite gcontains_Z, gdelete_Z.
  - unfold gslice_to_map, slice_to_map. destruct (Nat.eqb (length s1) (length s2)); [|reflexivity]. apply (f_equal (@Ok amap)).
    now rewrite gslice_to_map_loop_build, slice_to_map_loop_build, gbuild_from_Z.
  - unfold filter_map_collection. now rewrite gfilter_collection_spec, filter_collection_spec.
Qed.

Lemma conservative_repaired (m : amap) (ms : list amap) (sorter : list Z -> list Z) fn2 (p : Z -> bool) fnm : wf m ->
  gmap_unique Z.eqb Z.eqb m = map_unique m /\
  ginvert Z.eqb m = invert m /\ gpick_by Z.eqb fn2 m = pick_by fn2 m /\ gomit_by Z.eqb fn2 m = omit_by fn2 m /\
  gfind_with Z.eqb 0 sorter p m = find_with sorter p m /\ gpartition_map fnm ms = partition_map fnm ms.
Proof.
  intros Hwf. pose proof (proj2 (wfk_Z m) Hwf) as Hwfk. repeat split.
  - rewrite (gmap_unique_ref Z.eqb Z.eqb m Hwfk), (map_unique_ref m Hwf). apply guniq_ref_Z.
  - now rewrite ginvert_build, (invert_build m Hwf), gbuild_from_Z.
  - now rewrite (gpick_by_spec Z.eqb fn2 m Hwfk), (pick_by_spec fn2 m Hwf).
  - rewrite (omit_by_spec fn2 m Hwf). apply (gomit_by_spec Z.eqb sub_Zeqb fn2 m Hwfk).
    intros kv _ _. apply Z.eqb_refl.
  - unfold gfind_with, find_with, gfind_keys. rewrite gfind_keys_spec, keys_go_spec. cbn [app].
    rewrite (filter_all_true (fun k => k =? k)) by (intros; apply Z.eqb_refl).
    induction (sorter (map fst m)) as [|k ks IH]; cbn.
    + clear. induction m as [|[k v] m IH]; cbn; [reflexivity|]. rewrite Z.eqb_refl. cbn. exact IH.
    + rewrite gget_Z. destruct (p (get m k)); [reflexivity|exact IH].
  - now rewrite gpartition_map_spec, partition_map_spec.
Qed.

(* ------------------------------------------------------------------ *)
(* The code as found under unreachable keys: refutation witnesses (fl)  *)

Definition nan_map1 : fmap := [(NaN, Num 30)].

Lemma invert_asfound_witness :
  ginvert_asfound fl_eqb fl_eqb fl_zero fl_zero nan_map1 = [(Num 0, NaN)] /\ ginvert fl_eqb nan_map1 = [(Num 30, NaN)].
Proof. split; reflexivity. Qed.

Lemma pick_by_asfound_witness :
  gpick_by_asfound fl_eqb fl_zero (fun _ _ => true) nan_map1 = [(NaN, Num 0)] /\
  gpick_by fl_eqb (fun _ _ => true) nan_map1 = nan_map1.
Proof. split; reflexivity. Qed.

Lemma omit_by_asfound_witness :
  gomit_by_asfound fl_eqb (fun _ _ => true) nan_map1 = nan_map1 /\ gomit_by fl_eqb (fun _ _ => true) nan_map1 = [].
Proof. split; reflexivity. Qed.

Lemma find_asfound_witness :
  gfind_asfound fl_eqb fl_zero fl_zero fl_sort (fun v => fl_ltb (Num 20) v) nan_map1 = [] /\
  gfind_asfound fl_eqb fl_zero fl_zero fl_sort (fun v => fl_eqb v (Num 0)) nan_map1 = [(NaN, Num 0)] /\
  ffind (fun v => fl_ltb (Num 20) v) nan_map1 = nan_map1 /\ ffind (fun v => fl_eqb v (Num 0)) nan_map1 = [].
Proof. repeat split; reflexivity. Qed.

Lemma partition_map_asfound_witness :
  gpartition_map_asfound fl_eqb (fun m => (length m =? 1)%nat) [nan_map1] = ([], [[(NaN, Num 30); (NaN, Num 30)]]) /\
  gpartition_map (fun m : fmap => (length m =? 1)%nat) [nan_map1] = ([nan_map1], []).
Proof. split; reflexivity. Qed.

(* ------------------------------------------------------------------ *)
(* Statement-level lemmas (restated in C14_Props.v)                     *)

Lemma nan_key_unreachable {K V} (keq : K -> K -> bool) (m : list (K * V)) k v : sub keq -> keq k k = false ->
  glookup keq m k = None /\ gdelete keq m k = m /\ gset keq m k v = m ++ [(k, v)] /\
  (wfk keq m -> wfk keq (m ++ [(k, v)])).
Proof.
  intros Hs Hk. pose proof (nokey_unreachable keq Hs m k Hk) as Hn.
  split; [now apply glookup_nokey|]. split; [now apply gdelete_nokey|]. split; [now apply gset_nokey|].
  intros Hwf. rewrite <- (gset_nokey keq m k v Hn). now apply wfk_gset.
Qed.

Lemma nan_pick_omit_partition {K V} (keq : K -> K -> bool) (vz : V) (m : list (K * V)) ks : sub keq -> wfk keq m -> ks <> [] ->
  exists r, gpick keq vz m ks = Ok r /\ Permutation (r ++ gomit keq m ks) m /\
            (forall a b, In a r -> In b (gomit keq m ks) -> keq (fst a) (fst b) = false).
Proof.
  intros Hs Hwf Hks. exists (filter (gkey_in keq ks) m).
  rewrite (gpick_spec keq Hs vz m ks Hwf), (gomit_spec keq Hs m ks Hwf).
  destruct ks as [|k0 ks]; [congruence|]. split; [reflexivity|].
  split; [apply filter_partition_perm|]. intros a b. now apply gfilter_disjoint_keys.
Qed.

(* OmitBy as it is in /repo (delete only) *)
Lemma nan_omit_by_asfound_partial {K V} (keq : K -> K -> bool) (fn : K -> V -> bool) (m : list (K * V)) : sub keq -> wfk keq m ->
  gomit_by_asfound keq fn m = filter (fun kv => negb (gkv_ok fn kv && keq (fst kv) (fst kv))) m /\
  ((forall kv, In kv m -> gkv_ok fn kv = true -> keq (fst kv) (fst kv) = true) ->
   gomit_by_asfound keq fn m = filter (fun kv => negb (gkv_ok fn kv)) m /\
   Permutation (gpick_by keq fn m ++ gomit_by_asfound keq fn m) m /\
   (forall a b, In a (gpick_by keq fn m) -> In b (gomit_by_asfound keq fn m) -> keq (fst a) (fst b) = false)).
Proof.
  intros Hs Hwf. rewrite (gomit_by_asfound_spec keq Hs fn m Hwf). split; [reflexivity|]. intros Hall.
  assert (Heq : filter (fun kv => negb (gkv_ok fn kv && keq (fst kv) (fst kv))) m = filter (fun kv => negb (gkv_ok fn kv)) m).
  { apply filter_ext_in. intros kv Hin. destruct (gkv_ok fn kv) eqn:E; [|reflexivity]. now rewrite (Hall kv Hin E). }
  rewrite Heq, (gpick_by_spec keq fn m Hwf). split; [reflexivity|].
  split; [apply filter_partition_perm|]. intros a b. now apply gfilter_disjoint_keys.
Qed.

(* the proposed repair (fixes/nan-c14/0004) *)
Lemma nan_pick_by_omit_by_partition {K V} (keq : K -> K -> bool) (fn : K -> V -> bool) (m : list (K * V)) : sub keq -> wfk keq m ->
  Permutation (gomit_by keq fn m) (filter (fun kv => negb (gkv_ok fn kv)) m) /\
  Permutation (gpick_by keq fn m ++ gomit_by keq fn m) m /\
  (forall a b, In a (gpick_by keq fn m) -> In b (gomit_by keq fn m) -> keq (fst a) (fst b) = false).
Proof.
  intros Hs Hwf. destruct (gomit_by_spec keq Hs fn m Hwf) as [Hp _]. split; [exact Hp|].
  rewrite (gpick_by_spec keq fn m Hwf). split.
  - eapply Permutation_trans; [apply Permutation_app_head; exact Hp|apply filter_partition_perm].
  - intros a b Ha Hb. apply (gfilter_disjoint_keys keq Hs (gkv_ok fn) m a b Hwf Ha).
    eapply Permutation_in; eassumption.
Qed.

Lemma nan_filter_map_omit_by_partition {K V} (keq : K -> K -> bool) (fn : V -> bool) (m : list (K * V)) : sub keq -> wfk keq m ->
  Permutation (gfilter_map keq fn m ++ gomit_by keq (fun _ v => fn v) m) m.
Proof.
  intros Hs Hwf. destruct (gomit_by_spec keq Hs (fun _ v => fn v) m Hwf) as [Hp _].
  rewrite (gfilter_map_spec keq fn m Hwf).
  eapply Permutation_trans; [apply Permutation_app_head; exact Hp|]. apply (filter_partition_perm (gval_ok fn)).
Qed.

(* a map built by successive assignments: the defining properties in entry form *)
Lemma nan_last_wins_entries {A B} (eq : A -> A -> bool) (l r : list (A * B)) : sub eq ->
  Permutation r (keep_last eq l) ->
  wfk eq r /\
  (forall e, In e r -> In e l) /\
  (forall e, In e l -> eq (fst e) (fst e) = true -> exists b', In (fst e, b') r) /\
  (forall e, In e l -> eq (fst e) (fst e) = false -> In e r) /\
  Permutation (filter (fun e => negb (eq (fst e) (fst e))) r) (filter (fun e => negb (eq (fst e) (fst e))) l) /\
  (forall e, In e l -> (forall e', In e' l -> eq (fst e') (fst e) = true -> e' = e) -> In e r).
Proof.
  intros Hs Hp. pose proof (Permutation_sym Hp) as Hp'. split; [|split; [|split; [|split; [|split]]]].
  - eapply (wfk_perm eq Hs); [exact Hp'|]. now apply wfk_keep_last.
  - intros e He. apply (keep_last_in eq l). eapply Permutation_in; eassumption.
  - intros e He Ho. destruct (keep_last_covers eq Hs l e He Ho) as [b' Hb']. exists b'. eapply Permutation_in; eassumption.
  - intros e He Hn. eapply Permutation_in; [exact Hp'|]. now apply keep_last_unreachable.
  - rewrite <- (keep_last_count_unreachable eq Hs l). now apply Permutation_filter'.
  - intros e He Hal. eapply Permutation_in; [exact Hp'|]. now apply keep_last_alone.
Qed.

Lemma nan_map_keys_last_wins {K V R} (req : R -> R -> bool) (fn : K -> V -> R) (m : list (K * V)) : sub req ->
  Permutation (gmap_keys req fn m) (keep_last req (map (fun kv => (fn (fst kv) (snd kv), snd kv)) m)).
Proof. intros Hs. rewrite gmap_keys_build. now apply gbuild_nil_perm. Qed.

Lemma nan_invert_last_wins {K V} (veq : V -> V -> bool) (m : list (K * V)) : sub veq ->
  Permutation (ginvert veq m) (keep_last veq (map (fun kv => (snd kv, fst kv)) m)).
Proof. intros Hs. rewrite ginvert_build. now apply gbuild_nil_perm. Qed.

Lemma nan_invert_sound {K V} (veq : V -> V -> bool) (m : list (K * V)) : sub veq ->
  wfk veq (ginvert veq m) /\
  (forall v k, In (v, k) (ginvert veq m) -> In (k, v) m) /\
  (forall k v, In (k, v) m -> veq v v = true -> exists k', In (v, k') (ginvert veq m) /\ In (k', v) m) /\
  (forall k v, In (k, v) m -> veq v v = false -> In (v, k) (ginvert veq m)) /\
  (forall k v, In (k, v) m -> (forall k' v', In (k', v') m -> veq v' v = true -> k' = k) -> In (v, k) (ginvert veq m)).
Proof.
  intros Hs. set (l := map (fun kv : K * V => (snd kv, fst kv)) m).
  assert (Hl : forall k v, In (v, k) l <-> In (k, v) m).
  { intros k v. unfold l. rewrite in_map_iff. split.
    - intros ([k0 v0] & Heq & Hin). cbn in Heq. now injection Heq as <- <-.
    - intros Hin. exists (k, v). now split. }
  destruct (nan_last_wins_entries veq l (ginvert veq m) Hs (nan_invert_last_wins veq m Hs))
    as (Hwf & Hsound & Hcov & Hnan & _ & Halone).
  split; [exact Hwf|]. split; [|split; [|split]].
  - intros v k Hin. apply Hl. now apply Hsound.
  - intros k v Hin Ho. destruct (Hcov (v, k) (proj2 (Hl k v) Hin) Ho) as [k' Hk']. cbn in Hk'.
    exists k'. split; [exact Hk'|]. apply Hl. now apply Hsound.
  - intros k v Hin Hn. apply (Hnan (v, k)); [now apply Hl|exact Hn].
  - intros k v Hin Huniq. apply (Halone (v, k)); [now apply Hl|].
    intros [v' k'] Hin' E. cbn in E. pose proof (Hs _ _ E) as ->. f_equal. apply (Huniq k' v); [now apply Hl|exact E].
Qed.

Lemma nan_map_keys_assoc {K V R} (req : R -> R -> bool) (fn : K -> V -> R) (m : list (K * V)) : sub req ->
  wfk req (gmap_keys req fn m) /\
  (forall r v, In (r, v) (gmap_keys req fn m) -> exists k, In (k, v) m /\ fn k v = r) /\
  (forall k v, In (k, v) m -> req (fn k v) (fn k v) = true -> exists v', In (fn k v, v') (gmap_keys req fn m)) /\
  (forall k v, In (k, v) m -> req (fn k v) (fn k v) = false -> In (fn k v, v) (gmap_keys req fn m)) /\
  (forall k v, In (k, v) m -> (forall k' v', In (k', v') m -> req (fn k' v') (fn k v) = true -> v' = v) ->
               In (fn k v, v) (gmap_keys req fn m)).
Proof.
  intros Hs. set (l := map (fun kv : K * V => (fn (fst kv) (snd kv), snd kv)) m).
  assert (Hl : forall k v, In (k, v) m -> In (fn k v, v) l).
  { intros k v Hin. unfold l. apply in_map_iff. exists (k, v). now split. }
  destruct (nan_last_wins_entries req l (gmap_keys req fn m) Hs (nan_map_keys_last_wins req fn m Hs))
    as (Hwf & Hsound & Hcov & Hnan & _ & Halone).
  split; [exact Hwf|]. split; [|split; [|split]].
  - intros r v Hin. apply Hsound in Hin. unfold l in Hin. apply in_map_iff in Hin as ([k0 v0] & Heq & Hin).
    cbn in Heq. injection Heq as <- <-. eauto.
  - intros k v Hin Ho. exact (Hcov (fn k v, v) (Hl k v Hin) Ho).
  - intros k v Hin Hn. exact (Hnan (fn k v, v) (Hl k v Hin) Hn).
  - intros k v Hin Hinj. apply (Halone (fn k v, v) (Hl k v Hin)).
    intros [r' v'] Hin' E. cbn in E. unfold l in Hin'. apply in_map_iff in Hin' as ([k0 v0] & Heq & Hin0).
    cbn in Heq. injection Heq as <- <-. pose proof (Hs _ _ E) as Hr. rewrite Hr. f_equal. now apply (Hinj k0 v0).
Qed.

Lemma nan_slice_to_map_last_wins {K V} (keq : K -> K -> bool) (s1 : list K) (s2 : list V) : sub keq ->
  (length s1 <> length s2 -> gslice_to_map keq s1 s2 = Panic) /\
  (length s1 = length s2 ->
   exists r, gslice_to_map keq s1 s2 = Ok r /\ Permutation r (keep_last keq (combine s1 s2))).
Proof.
  intros Hs. unfold gslice_to_map. split; intros H.
  - apply Nat.eqb_neq in H. now rewrite H.
  - apply Nat.eqb_eq in H. rewrite H. eexists. split; [reflexivity|].
    rewrite gslice_to_map_loop_build. now apply gbuild_nil_perm.
Qed.

Lemma nan_map_unique {K V} (keq : K -> K -> bool) (veq : V -> V -> bool) (m : list (K * V)) : sub veq -> wfk keq m ->
  wfk keq (gmap_unique keq veq m) /\
  (forall k v, In (k, v) (gmap_unique keq veq m) -> In (k, v) m) /\
  wfk veq (map (fun kv => (snd kv, fst kv)) (gmap_unique keq veq m)) /\
  (forall k v, In (k, v) m -> veq v v = true -> exists k', In (k', v) (gmap_unique keq veq m)) /\
  (forall k v, In (k, v) m -> veq v v = false -> In (k, v) (gmap_unique keq veq m)).
Proof.
  intros Hv Hwf. rewrite (gmap_unique_ref keq veq m Hwf).
  split; [now apply guniq_ref_wfk|]. split; [|split; [|split]].
  - intros k v H. now apply (guniq_ref_sub veq m [] k v).
  - apply guniq_ref_values_distinct.
  - intros k v Hin Ho. destruct (guniq_ref_covers veq Hv m [] k v Hin) as [_ H]. destruct (H Ho) as [Hc|Hc]; [discriminate|exact Hc].
  - intros k v Hin Hn. now apply (guniq_ref_covers veq Hv m [] k v Hin).
Qed.

Lemma nan_pluck {K V} (keq : K -> K -> bool) (vz : V) (ms : list (list (K * V))) key : sub keq ->
  gpluck keq vz ms key = flat_map (fun m => match glookup keq m key with Some v => [v] | None => [] end) ms /\
  (keq key key = false -> gpluck keq vz ms key = []).
Proof.
  intros Hs. rewrite gpluck_spec. split; [reflexivity|]. intros Hk. unfold gspec_pluck.
  induction ms as [|m ms IH]; cbn; [reflexivity|].
  rewrite (glookup_nokey keq m key) by now apply nokey_unreachable. exact IH.
Qed.

Lemma nan_map_contains {K V} (veq : V -> V -> bool) (m : list (K * V)) x : sub veq ->
  (gmap_contains veq m x = true <-> exists k v, In (k, v) m /\ veq v x = true) /\
  (veq x x = false -> gmap_contains veq m x = false).
Proof.
  intros Hs. rewrite gmap_contains_spec.
  assert (Hiff : existsb (fun v => veq v x) (map snd m) = true <-> exists k v, In (k, v) m /\ veq v x = true).
  { rewrite existsb_exists. split.
    - intros (v & Hin & Hv). apply in_map_iff in Hin as ([k v'] & <- & Hin). eauto.
    - intros (k & v & Hin & Hv). exists v. split; [|exact Hv]. change v with (snd (k, v)). now apply in_map. }
  split; [exact Hiff|]. intros Hx. apply Bool.not_true_is_false. intros H. apply Hiff in H as (k & v & _ & E).
  apply (sub_ordinary veq Hs) in E as [_ E]. congruence.
Qed.

(* [wfk] of a concrete list *)
Ltac wfk_tac :=
  cbn; repeat (split; [let e := fresh "e" in let H := fresh "H" in
                       intros e H; repeat (destruct H as [<-|H]; [reflexivity|]); destruct H|]); exact I.
