(* C14_Props.v — property C14 over the model of C14_Model.v.

   A Go map is an association list [m] with distinct keys ([wf m]) in the order
   the runtime iterates it; every theorem is for ALL such lists, hence for every
   map and every iteration order.  [lookup r k = Some v] reads "the result map r
   has the entry k -> v"; the list order of a RESULT map means nothing.
   Only statements here; each is closed by a lemma of C14_Proofs.v. *)

From Gogu Require Import Base C14_Model C14_Proofs.
From Coq Require Import Permutation Sorted.
Local Open Scope Z_scope.

(* ---- the modelling itself: what a map contains does not depend on the order ---- *)
Theorem C14_lookup_order_irrelevant : forall (m m' : amap) k,
  wf m -> Permutation m m' -> wf m' /\ lookup m k = lookup m' k.
Proof. intros m m' k Hwf Hp. split; [eapply wf_perm; eassumption|now apply lookup_perm]. Qed.
Print Assumptions C14_lookup_order_irrelevant.

(* ---- Keys / Values / MapCollection: every key / value exactly once ---- *)
Theorem C14_keys_once : forall m : amap, wf m ->
  keys_go m = map fst m /\ NoDup (keys_go m) /\
  (forall k, In k (keys_go m) <-> exists v, lookup m k = Some v).
Proof.
  intros m Hwf. rewrite keys_go_spec. split; [reflexivity|]. split; [exact Hwf|].
  intros k. split.
  - intros Hin. apply in_map_iff in Hin as ([k' v] & Hk & Hin). cbn in Hk. subst k'.
    exists v. now apply in_lookup.
  - intros [v Hv]. apply lookup_some_in in Hv. change k with (fst (k, v)). now apply in_map.
Qed.
Print Assumptions C14_keys_once.

(* one value per entry, whatever the iteration order: the same multiset *)
Theorem C14_values_once : forall m m' : amap,
  values_go m = map snd m /\ (Permutation m m' -> Permutation (values_go m) (values_go m')).
Proof.
  intros m m'. rewrite !values_go_spec. split; [reflexivity|]. apply Permutation_map.
Qed.
Print Assumptions C14_values_once.

Theorem C14_map_collection_once : forall fn (m m' : amap),
  map_collection fn m = map (fun kv => fn (snd kv)) m /\
  (Permutation m m' -> Permutation (map_collection fn m) (map_collection fn m')).
Proof.
  intros fn m m'. rewrite !map_collection_spec. split; [reflexivity|]. apply Permutation_map.
Qed.
Print Assumptions C14_map_collection_once.

(* ---- Pick / PickBy / FilterMap: exactly the qualifying entries ---- *)
Theorem C14_pick_exact : forall m ks, wf m ->
  pick m ks = match ks with [] => Err 1 | _ => Ok (filter (key_in ks) m) end.
Proof. exact pick_spec. Qed.
Print Assumptions C14_pick_exact.

(* the same, read entry by entry *)
Theorem C14_pick_entries : forall m ks r k v, wf m -> pick m ks = Ok r ->
  wf r /\ (lookup r k = Some v <-> lookup m k = Some v /\ In k ks).
Proof.
  intros m ks r k v Hwf. rewrite pick_spec by exact Hwf. destruct ks as [|k0 ks]; [discriminate|].
  intros H. injection H as <-. split; [now apply wf_filter|].
  rewrite (lookup_iff_in _ k v (wf_filter _ m Hwf)), (lookup_iff_in m k v Hwf), filter_In.
  unfold key_in. cbn [fst]. now rewrite contains_iff.
Qed.
Print Assumptions C14_pick_entries.

Theorem C14_pick_by_exact : forall fn m, wf m -> pick_by fn m = filter (kv_ok fn) m.
Proof. exact pick_by_spec. Qed.
Print Assumptions C14_pick_by_exact.

Theorem C14_filter_map_exact : forall fn m, wf m -> filter_map fn m = filter (val_ok fn) m.
Proof. exact filter_map_spec. Qed.
Print Assumptions C14_filter_map_exact.

(* ---- Omit / OmitBy: exactly the others ---- *)
Theorem C14_omit_exact : forall m ks, wf m -> omit m ks = filter (fun kv => negb (key_in ks kv)) m.
Proof. exact omit_spec. Qed.
Print Assumptions C14_omit_exact.

Theorem C14_omit_by_exact : forall fn m, wf m -> omit_by fn m = filter (fun kv => negb (kv_ok fn kv)) m.
Proof. exact omit_by_spec. Qed.
Print Assumptions C14_omit_by_exact.

(* ---- the two always partition the original map ---- *)
Theorem C14_pick_omit_partition : forall m ks, wf m -> ks <> [] ->
  exists r, pick m ks = Ok r /\ Permutation (r ++ omit m ks) m /\
            (forall k, In k (map fst r) -> ~ In k (map fst (omit m ks))).
Proof.
  intros m ks Hwf Hks. exists (filter (key_in ks) m). rewrite pick_spec, omit_spec by exact Hwf.
  destruct ks as [|k0 ks]; [congruence|]. split; [reflexivity|].
  split; [apply filter_partition_perm|]. intros k. now apply filter_disjoint_keys.
Qed.
Print Assumptions C14_pick_omit_partition.

Theorem C14_pick_by_omit_by_partition : forall fn m, wf m ->
  Permutation (pick_by fn m ++ omit_by fn m) m /\
  (forall k, In k (map fst (pick_by fn m)) -> ~ In k (map fst (omit_by fn m))).
Proof.
  intros fn m Hwf. rewrite pick_by_spec, omit_by_spec by exact Hwf.
  split; [apply filter_partition_perm|]. intros k. now apply filter_disjoint_keys.
Qed.
Print Assumptions C14_pick_by_omit_by_partition.

(* FilterMap has no helper of its own for the rest; OmitBy with the same test on the value is it *)
Theorem C14_filter_map_omit_by_partition : forall fn m, wf m ->
  Permutation (filter_map fn m ++ omit_by (fun _ v => fn v) m) m.
Proof.
  intros fn m Hwf. rewrite filter_map_spec, omit_by_spec by exact Hwf.
  apply (filter_partition_perm (val_ok fn)).
Qed.
Print Assumptions C14_filter_map_omit_by_partition.

(* non-vacuity of the hypotheses: a concrete map, both halves non-empty *)
Example C14_partition_example :
  wf [(3, 1); (1, 2); (2, 0)] /\ pick [(3, 1); (1, 2); (2, 0)] [1; 7; 3] = Ok [(3, 1); (1, 2)]
  /\ omit [(3, 1); (1, 2); (2, 0)] [1; 7; 3] = [(2, 0)].
Proof.
  split; [|split; reflexivity]. unfold wf. cbn.
  repeat constructor; cbn; intuition congruence.
Qed.

(* ---- MapValues: the association is preserved under the transformation ---- *)
Theorem C14_map_values_assoc : forall fn m k, wf m ->
  wf (map_values fn m) /\ lookup (map_values fn m) k = option_map fn (lookup m k).
Proof.
  intros fn m k Hwf. rewrite map_values_spec by exact Hwf. split.
  - unfold wf in *. rewrite map_map. cbn. exact Hwf.
  - clear Hwf. induction m as [|[k0 v0] m IH]; cbn; [reflexivity|]. destruct (k0 =? k); [reflexivity|exact IH].
Qed.
Print Assumptions C14_map_values_assoc.

(* ---- MapKeys: the last entry mapped to a new key wins; hence (defining
   property) every result entry comes from an entry with that image and that
   value, every image is a key of the result, and where fn does not collide the
   association is preserved exactly ---- *)
Theorem C14_map_keys_last_wins : forall fn (m : amap) r,
  wf (map_keys fn m) /\
  lookup (map_keys fn m) r = lookup (rev (map (fun kv => (fn (fst kv) (snd kv), snd kv)) m)) r.
Proof.
  intros fn m r. rewrite map_keys_build. split.
  - apply wf_build_from. constructor.
  - rewrite lookup_build_from. cbn. now destruct (lookup _ r).
Qed.
Print Assumptions C14_map_keys_last_wins.

Theorem C14_map_keys_assoc : forall fn (m : amap),
  (forall r v, lookup (map_keys fn m) r = Some v -> exists k, In (k, v) m /\ fn k v = r) /\
  (forall k v, In (k, v) m -> exists v', lookup (map_keys fn m) (fn k v) = Some v') /\
  (forall k v, In (k, v) m -> (forall k' v', In (k', v') m -> fn k' v' = fn k v -> v' = v) ->
               lookup (map_keys fn m) (fn k v) = Some v).
Proof.
  intros fn m.
  assert (Hl : forall r, lookup (map_keys fn m) r
                         = lookup (rev (map (fun kv => (fn (fst kv) (snd kv), snd kv)) m)) r)
    by (intros r; apply C14_map_keys_last_wins).
  assert (Hsound : forall r v, lookup (map_keys fn m) r = Some v -> exists k, In (k, v) m /\ fn k v = r).
  { intros r v H. rewrite Hl in H. apply lookup_rev_some_in in H.
    apply in_map_iff in H as ([k v0] & Heq & Hin). cbn in Heq. injection Heq as <- <-. eauto. }
  assert (Hcov : forall k v, In (k, v) m -> exists v', lookup (map_keys fn m) (fn k v) = Some v').
  { intros k v Hin. rewrite Hl. apply (lookup_rev_covers _ (fn k v) v).
    apply in_map_iff. exists (k, v). split; [reflexivity|exact Hin]. }
  split; [exact Hsound|]. split; [exact Hcov|].
  intros k v Hin Hinj. destruct (Hcov k v Hin) as [v' Hv']. rewrite Hv'.
  destruct (Hsound _ _ Hv') as (k' & Hin' & Heq). f_equal. eapply Hinj; eassumption.
Qed.
Print Assumptions C14_map_keys_assoc.

(* ---- Invert: every value is mapped back to a key that held it ---- *)
Theorem C14_invert_sound : forall m, wf m ->
  wf (invert m) /\
  (forall v k, lookup (invert m) v = Some k -> lookup m k = Some v) /\
  (forall k v, lookup m k = Some v -> exists k', lookup (invert m) v = Some k' /\ lookup m k' = Some v) /\
  (forall k v, lookup m k = Some v -> (forall k', lookup m k' = Some v -> k' = k) ->
               lookup (invert m) v = Some k).
Proof.
  intros m Hwf. rewrite invert_build by exact Hwf.
  set (l := map (fun kv : Z * Z => (snd kv, fst kv)) m).
  assert (Hl : forall v, lookup (build_from [] l) v = lookup (rev l) v).
  { intros v. rewrite lookup_build_from. cbn. now destruct (lookup (rev l) v). }
  assert (Hsound : forall v k, lookup (build_from [] l) v = Some k -> lookup m k = Some v).
  { intros v k H. rewrite Hl in H. apply lookup_rev_some_in in H. unfold l in H.
    apply in_map_iff in H as ([k0 v0] & Heq & Hin). cbn in Heq. injection Heq as <- <-.
    now apply in_lookup. }
  assert (Hcov : forall k v, lookup m k = Some v ->
                 exists k', lookup (build_from [] l) v = Some k' /\ lookup m k' = Some v).
  { intros k v H. apply lookup_some_in in H.
    destruct (lookup_rev_covers l v k) as [k' Hk'].
    - unfold l. apply in_map_iff. exists (k, v). split; [reflexivity|exact H].
    - exists k'. rewrite Hl. split; [exact Hk'|]. apply Hsound. now rewrite Hl. }
  split; [apply wf_build_from; constructor|]. split; [exact Hsound|]. split; [exact Hcov|].
  intros k v H Huniq. destruct (Hcov k v H) as (k' & Hk' & Hm'). rewrite Hk'. f_equal. now apply Huniq.
Qed.
Print Assumptions C14_invert_sound.

(* ---- Find: the qualifying entry with the smallest key (for every sorter that
   returns a sorted permutation — what the code asks of sort.Slice) ---- *)
Theorem C14_find_smallest_key : forall (sorter : list Z -> list Z) fn m,
  (forall l, Permutation (sorter l) l /\ Sorted Z.le (sorter l)) ->
  wf m ->
  (find_with sorter fn m = [] /\ forall k v, In (k, v) m -> fn v = false) \/
  (exists k v, find_with sorter fn m = [(k, v)] /\ In (k, v) m /\ fn v = true /\
               forall k' v', In (k', v') m -> fn v' = true -> k <= k').
Proof. exact find_with_spec. Qed.
Print Assumptions C14_find_smallest_key.

(* the executable instance (insertion sort) meets the hypothesis on the sorter *)
Theorem C14_find_go_smallest_key : forall fn m, wf m ->
  (find_go fn m = [] /\ forall k v, In (k, v) m -> fn v = false) \/
  (exists k v, find_go fn m = [(k, v)] /\ In (k, v) m /\ fn v = true /\
               forall k' v', In (k', v') m -> fn v' = true -> k <= k').
Proof.
  intros fn m. apply find_with_spec. intros l. split; [apply sort_z_perm|apply sort_z_sorted].
Qed.
Print Assumptions C14_find_go_smallest_key.

(* ---- FindKey / FindByKey: some qualifying entry (the zero key / the empty map
   when there is none); and every qualifying entry is the answer under some
   iteration order, so nothing more can be promised ---- *)
Theorem C14_find_key_some : forall fn m,
  (find_key fn m = 0 /\ forall k v, In (k, v) m -> fn v = false) \/
  (exists v, In (find_key fn m, v) m /\ fn v = true).
Proof. exact find_key_spec. Qed.
Print Assumptions C14_find_key_some.

Theorem C14_find_by_key_some : forall fn m,
  (find_by_key fn m = [] /\ forall k v, In (k, v) m -> fn k = false) \/
  (exists k v, find_by_key fn m = [(k, v)] /\ In (k, v) m /\ fn k = true).
Proof. exact find_by_key_spec. Qed.
Print Assumptions C14_find_by_key_some.

Theorem C14_find_key_every_choice_possible : forall fn (m : amap) k v,
  In (k, v) m -> fn v = true -> exists m', Permutation m m' /\ find_key fn m' = k.
Proof. exact find_key_any_order. Qed.
Print Assumptions C14_find_key_every_choice_possible.

Theorem C14_find_by_key_every_choice_possible : forall fn (m : amap) k v,
  In (k, v) m -> fn k = true -> exists m', Permutation m m' /\ find_by_key fn m' = [(k, v)].
Proof. exact find_by_key_any_order. Qed.
Print Assumptions C14_find_by_key_every_choice_possible.

(* ---- Pluck: the value under the key from each map that has it, in order ---- *)
Theorem C14_pluck_in_order : forall ms key,
  pluck ms key = flat_map (fun m => match lookup m key with Some v => [v] | None => [] end) ms.
Proof. exact pluck_spec. Qed.
Print Assumptions C14_pluck_in_order.

(* ---- MapUnique: a sub-map with exactly one entry per distinct value ---- *)
Theorem C14_map_unique_one_per_value : forall m, wf m ->
  wf (map_unique m) /\
  (forall k v, lookup (map_unique m) k = Some v -> lookup m k = Some v) /\
  NoDup (map snd (map_unique m)) /\
  (forall k v, lookup m k = Some v -> exists k', lookup (map_unique m) k' = Some v).
Proof.
  intros m Hwf. rewrite map_unique_ref by exact Hwf.
  pose proof (uniq_ref_wf m [] Hwf) as Hwf'.
  split; [exact Hwf'|]. split.
  - intros k v H. apply lookup_some_in in H. apply uniq_ref_sub in H as [H _]. now apply in_lookup.
  - split; [apply uniq_ref_values_nodup|].
    intros k v H. apply lookup_some_in in H.
    destruct (uniq_ref_covers m [] k v H) as [[]|Hin].
    apply in_map_iff in Hin as ([k' v'] & Hv & Hin). cbn in Hv. subst v'.
    exists k'. now apply in_lookup.
Qed.
Print Assumptions C14_map_unique_one_per_value.

(* ---- MapEvery / MapSome / MapContains: the quantifiers over the values ---- *)
Theorem C14_map_every_iff : forall fn m, map_every fn m = true <-> forall k v, In (k, v) m -> fn v = true.
Proof.
  intros fn m. rewrite map_every_spec, forallb_forall. split.
  - intros H k v Hin. apply H. change v with (snd (k, v)). now apply in_map.
  - intros H v Hin. apply in_map_iff in Hin as ([k v'] & <- & Hin). eauto.
Qed.
Theorem C14_map_some_iff : forall fn m, map_some fn m = true <-> exists k v, In (k, v) m /\ fn v = true.
Proof.
  intros fn m. rewrite map_some_spec, existsb_exists. split.
  - intros (v & Hin & Hv). apply in_map_iff in Hin as ([k v'] & <- & Hin). eauto.
  - intros (k & v & Hin & Hv). exists v. split; [|exact Hv]. change v with (snd (k, v)). now apply in_map.
Qed.
Theorem C14_map_contains_iff : forall m x, map_contains m x = true <-> exists k, In (k, x) m.
Proof.
  intros m x. rewrite map_contains_iff. split.
  - intros Hin. apply in_map_iff in Hin as ([k v'] & <- & Hin). eauto.
  - intros [k Hin]. change x with (snd (k, x)). now apply in_map.
Qed.
Print Assumptions C14_map_every_iff.
Print Assumptions C14_map_some_iff.
Print Assumptions C14_map_contains_iff.

(* ---- SliceToMap: pairs positions, the last position of a key wins; unequal
   lengths are rejected (panic) ---- *)
Theorem C14_slice_to_map_last_wins : forall s1 s2,
  (length s1 <> length s2 -> slice_to_map s1 s2 = Panic) /\
  (length s1 = length s2 ->
   exists r, slice_to_map s1 s2 = Ok r /\ wf r /\
             forall k, lookup r k = lookup (rev (combine s1 s2)) k).
Proof.
  intros s1 s2. unfold slice_to_map. split; intros H.
  - apply Nat.eqb_neq in H. now rewrite H.
  - apply Nat.eqb_eq in H. rewrite H. eexists. split; [reflexivity|].
    rewrite slice_to_map_loop_build. split; [apply wf_build_from; constructor|].
    intros k. rewrite lookup_build_from. cbn. now destruct (lookup _ k).
Qed.
Print Assumptions C14_slice_to_map_last_wins.

(* "last wins", position by position *)
Theorem C14_slice_to_map_positions : forall s1 s2 r k v, length s1 = length s2 ->
  slice_to_map s1 s2 = Ok r ->
  (lookup r k = Some v -> exists i, nth_error s1 i = Some k /\ nth_error s2 i = Some v) /\
  (In k s1 -> exists v', lookup r k = Some v').
Proof.
  intros s1 s2 r k v Hlen Hr.
  destruct (C14_slice_to_map_last_wins s1 s2) as [_ H]. destruct (H Hlen) as (r' & Hr' & _ & Hl).
  rewrite Hr in Hr'. injection Hr' as <-. split.
  - intros Hv. rewrite Hl in Hv. apply lookup_rev_some_in in Hv.
    apply In_nth_error in Hv as [i Hi]. exists i.
    clear - Hi. revert s2 i Hi. induction s1 as [|a s1 IH]; intros [|b s2] [|i]; cbn; try discriminate.
    + intros H. now injection H as -> ->.
    + apply IH.
  - intros Hin. rewrite Hl.
    assert (exists v0, In (k, v0) (combine s1 s2)) as [v0 Hv0].
    { clear - Hin Hlen. revert s2 Hlen. induction s1 as [|a s1 IH]; intros [|b s2] Hlen; cbn in *; try tauto; try discriminate.
      destruct Hin as [->|Hin]; [eauto|]. destruct (IH Hin s2) as [v0 Hv0]; [lia|eauto]. }
    eapply lookup_rev_covers; eassumption.
Qed.
Print Assumptions C14_slice_to_map_positions.

(* ---- the map-collection filters: a map is kept exactly when one of its values
   qualifies — once, in order (the repaired code) ---- *)
Theorem C14_filter_collection_spec : forall fn ms,
  filter_map_collection fn ms = filter (fun m => existsb fn (map snd m)) ms.
Proof. intros fn ms. apply filter_collection_spec. Qed.
Print Assumptions C14_filter_collection_spec.

Theorem C14_filter_2d_collection_spec : forall fn coll,
  filter_2d_map_collection fn coll = filter (fun item => existsb fn (map snd item)) coll.
Proof. intros fn coll. apply filter_collection_spec. Qed.
Print Assumptions C14_filter_2d_collection_spec.

(* the code as found (DESIGN §7 #3) returned a map once per qualifying value *)
Theorem C14_filter_collection_asfound_refuted :
  exists fn (ms : list amap),
    filter_collection_asfound fn ms <> filter (fun m => existsb fn (map snd m)) ms.
Proof. exists (fun v => 22 <? v), [[(0, 30); (1, 40)]]. vm_compute. discriminate. Qed.
Print Assumptions C14_filter_collection_asfound_refuted.

(* ---- PartitionMap: every non-empty map is routed by the predicate, order kept ---- *)
Theorem C14_partition_map_spec : forall fn ms,
  partition_map fn ms =
  (filter fn (filter (fun m => negb (is_empty m)) ms),
   filter (fun m => negb (fn m)) (filter (fun m => negb (is_empty m)) ms)).
Proof. exact partition_map_spec. Qed.
Print Assumptions C14_partition_map_spec.

(* ---- non-vacuity / the boundary shapes, computed on the model ---- *)
(* PartitionMap: empty maps (a nil map is the same thing to the loop) are dropped,
   wherever they stand; the others keep their order on each side *)
Example C14_partition_map_example :
  partition_map (fun m => (2 <=? Z.of_nat (length m))) [[]; [(1, 2)]; []; [(3, 0); (4, 1)]; [(5, 5)]; []]
  = ([[(3, 0); (4, 1)]], [[(1, 2)]; [(5, 5)]]) /\
  partition_map (fun _ => true) [[]; []] = ([], []) /\ partition_map (fun _ => true) [] = ([], []).
Proof. repeat split; reflexivity. Qed.

(* Invert / MapKeys on collisions: the two iteration orders of one map give
   different results, and both satisfy the defining property (C14_invert_sound,
   C14_map_keys_assoc) — the key kept is one that held the value *)
Example C14_collision_examples :
  invert [(1, 5); (2, 5); (3, 0)] = [(5, 2); (0, 3)] /\ invert [(2, 5); (1, 5); (3, 0)] = [(5, 1); (0, 3)] /\
  map_keys (fun _ _ => 0) [(1, 7); (2, 8)] = [(0, 8)] /\ map_keys (fun _ _ => 0) [(2, 8); (1, 7)] = [(0, 7)] /\
  map_unique [(1, 5); (2, 5); (3, 0)] = [(1, 5); (3, 0)] /\ map_unique [(2, 5); (1, 5); (3, 0)] = [(2, 5); (3, 0)].
Proof. repeat split; reflexivity. Qed.

(* Find: the smallest qualifying key whatever the iteration order; FindKey's zero
   key when nothing qualifies; Pick with keys that are absent (7) or repeated;
   SliceToMap: last position wins, unequal lengths panic; the collection filter
   keeps a map with two qualifying values once *)
Example C14_boundary_examples :
  find_go (fun v => 1 <? v) [(9, 5); (2, 0); (4, 7); (3, 1)] = [(4, 7)] /\
  find_go (fun v => 1 <? v) [(4, 7); (3, 1); (9, 5); (2, 0)] = [(4, 7)] /\
  find_go (fun v => 9 <? v) [(4, 7); (3, 1)] = [] /\
  find_key (fun v => 9 <? v) [(4, 7); (3, 1)] = 0 /\
  pick [(3, 1); (1, 2)] [7; 1; 1; 7] = Ok [(1, 2)] /\ pick [(3, 1)] [7] = Ok [] /\ pick [(3, 1)] [] = Err 1 /\
  omit [(3, 1); (1, 2)] [7; 1; 1; 7] = [(3, 1)] /\
  slice_to_map [1; 2; 1] [10; 20; 30] = Ok [(1, 30); (2, 20)] /\
  slice_to_map [1; 2] [10] = Panic /\ slice_to_map [] [10] = Panic /\ slice_to_map [] [] = Ok [] /\
  filter_map_collection (fun v => 22 <? v) [[(0, 30); (1, 40)]; [(0, 1)]; []] = [[(0, 30); (1, 40)]] /\
  pluck [[(1, 5)]; [(2, 6)]; []; [(1, 0); (2, 3)]] 1 = [5; 0].
Proof. repeat split; reflexivity. Qed.
