(* C14_Props.v — property C14 over the model of C14_Model.v.

   A Go map is an association list [m] with distinct keys ([wf m]) in the order
   the runtime iterates it; every theorem is for ALL such lists, hence for every
   map and every iteration order.  [lookup r k = Some v] reads "the result map r
   has the entry k -> v"; the list order of a RESULT map means nothing.
   Only statements here; each is closed by a lemma of C14_Proofs.v. *)

From Gogu Require Import Base C14_Model C14_Proofs.
From Coq Require Import Permutation Sorted.
Local Open Scope Z_scope.

(* ---- the modelling itself: what a map contains does not depend on the order ---- *)
Theorem C14_lookup_order_irrelevant : forall (m m' : amap) k,
  wf m -> Permutation m m' -> wf m' /\ lookup m k = lookup m' k.
Proof. intros m m' k Hwf Hp. split; [eapply wf_perm; eassumption|now apply lookup_perm]. Qed.
Print Assumptions C14_lookup_order_irrelevant.

(* ---- Keys / Values / MapCollection: every key / value exactly once ---- *)
Theorem C14_keys_once : forall m : amap, wf m ->
  keys_go m = map fst m /\ NoDup (keys_go m) /\
  (forall k, In k (keys_go m) <-> exists v, lookup m k = Some v).
Proof.
  intros m Hwf. rewrite keys_go_spec. split; [reflexivity|]. split; [exact Hwf|].
  intros k. split.
  - intros Hin. apply in_map_iff in Hin as ([k' v] & Hk & Hin). cbn in Hk. subst k'.
    exists v. now apply in_lookup.
  - intros [v Hv]. apply lookup_some_in in Hv. change k with (fst (k, v)). now apply in_map.
Qed.
Print Assumptions C14_keys_once.

(* one value per entry, whatever the iteration order: the same multiset *)
Theorem C14_values_once : forall m m' : amap,
  values_go m = map snd m /\ (Permutation m m' -> Permutation (values_go m) (values_go m')).
Proof.
  intros m m'. rewrite !values_go_spec. split; [reflexivity|]. apply Permutation_map.
Qed.
Print Assumptions C14_values_once.

Theorem C14_map_collection_once : forall fn (m m' : amap),
  map_collection fn m = map (fun kv => fn (snd kv)) m /\
  (Permutation m m' -> Permutation (map_collection fn m) (map_collection fn m')).
Proof.
  intros fn m m'. rewrite !map_collection_spec. split; [reflexivity|]. apply Permutation_map.
Qed.
Print Assumptions C14_map_collection_once.

(* ---- Pick / PickBy / FilterMap: exactly the qualifying entries ---- *)
Theorem C14_pick_exact : forall m ks, wf m ->
  pick m ks = match ks with [] => Err 1 | _ => Ok (filter (key_in ks) m) end.
Proof. exact pick_spec. Qed.
Print Assumptions C14_pick_exact.

(* the same, read entry by entry *)
Theorem C14_pick_entries : forall m ks r k v, wf m -> pick m ks = Ok r ->
  wf r /\ (lookup r k = Some v <-> lookup m k = Some v /\ In k ks).
Proof.
  intros m ks r k v Hwf. rewrite pick_spec by exact Hwf. destruct ks as [|k0 ks]; [discriminate|].
  intros H. injection H as <-. split; [now apply wf_filter|].
  rewrite (lookup_iff_in _ k v (wf_filter _ m Hwf)), (lookup_iff_in m k v Hwf), filter_In.
  unfold key_in. cbn [fst]. now rewrite contains_iff.
Qed.
Print Assumptions C14_pick_entries.

Theorem C14_pick_by_exact : forall fn m, wf m -> pick_by fn m = filter (kv_ok fn) m.
Proof. exact pick_by_spec. Qed.
Print Assumptions C14_pick_by_exact.

Theorem C14_filter_map_exact : forall fn m, wf m -> filter_map fn m = filter (val_ok fn) m.
Proof. exact filter_map_spec. Qed.
Print Assumptions C14_filter_map_exact.

(* ---- Omit / OmitBy: exactly the others ---- *)
Theorem C14_omit_exact : forall m ks, wf m -> omit m ks = filter (fun kv => negb (key_in ks kv)) m.
Proof. exact omit_spec. Qed.
Print Assumptions C14_omit_exact.

Theorem C14_omit_by_exact : forall fn m, wf m -> omit_by fn m = filter (fun kv => negb (kv_ok fn kv)) m.
Proof. exact omit_by_spec. Qed.
Print Assumptions C14_omit_by_exact.

(* ---- the two always partition the original map ---- *)
Theorem C14_pick_omit_partition : forall m ks, wf m -> ks <> [] ->
  exists r, pick m ks = Ok r /\ Permutation (r ++ omit m ks) m /\
            (forall k, In k (map fst r) -> ~ In k (map fst (omit m ks))).
Proof.
  intros m ks Hwf Hks. exists (filter (key_in ks) m). rewrite pick_spec, omit_spec by exact Hwf.
  destruct ks as [|k0 ks]; [congruence|]. split; [reflexivity|].
  split; [apply filter_partition_perm|]. intros k. now apply filter_disjoint_keys.
Qed.
Print Assumptions C14_pick_omit_partition.

Theorem C14_pick_by_omit_by_partition : forall fn m, wf m ->
  Permutation (pick_by fn m ++ omit_by fn m) m /\
  (forall k, In k (map fst (pick_by fn m)) -> ~ In k (map fst (omit_by fn m))).
Proof.
  intros fn m Hwf. rewrite pick_by_spec, omit_by_spec by exact Hwf.
  split; [apply filter_partition_perm|]. intros k. now apply filter_disjoint_keys.
Qed.
Print Assumptions C14_pick_by_omit_by_partition.

(* FilterMap has no helper of its own for the rest; OmitBy with the same test on the value is it *)
Theorem C14_filter_map_omit_by_partition : forall fn m, wf m ->
  Permutation (filter_map fn m ++ omit_by (fun _ v => fn v) m) m.
Proof.
  intros fn m Hwf. rewrite filter_map_spec, omit_by_spec by exact Hwf.
  apply (filter_partition_perm (val_ok fn)).
Qed.
Print Assumptions C14_filter_map_omit_by_partition.

(* non-vacuity of the hypotheses: a concrete map, both halves non-empty *)
Example C14_partition_example :
  wf [(3, 1); (1, 2); (2, 0)] /\ pick [(3, 1); (1, 2); (2, 0)] [1; 7; 3] = Ok [(3, 1); (1, 2)]
  /\ omit [(3, 1); (1, 2); (2, 0)] [1; 7; 3] = [(2, 0)].
Proof.
  split; [|split; reflexivity]. unfold wf. cbn.
  repeat constructor; cbn; intuition congruence.
Qed.

(* ---- MapValues: the association is preserved under the transformation ---- *)
Theorem C14_map_values_assoc : forall fn m k, wf m ->
  wf (map_values fn m) /\ lookup (map_values fn m) k = option_map fn (lookup m k).
Proof.
  intros fn m k Hwf. rewrite map_values_spec by exact Hwf. split.
  - unfold wf in *. rewrite map_map. cbn. exact Hwf.
  - clear Hwf. induction m as [|[k0 v0] m IH]; cbn; [reflexivity|]. destruct (k0 =? k); [reflexivity|exact IH].
Qed.
Print Assumptions C14_map_values_assoc.

(* ---- MapKeys: the last entry mapped to a new key wins; hence (defining
   property) every result entry comes from an entry with that image and that
   value, every image is a key of the result, and where fn does not collide the
   association is preserved exactly ---- *)
Theorem C14_map_keys_last_wins : forall fn (m : amap) r,
  wf (map_keys fn m) /\
  lookup (map_keys fn m) r = lookup (rev (map (fun kv => (fn (fst kv) (snd kv), snd kv)) m)) r.
Proof.
  intros fn m r. rewrite map_keys_build. split.
  - apply wf_build_from. constructor.
  - rewrite lookup_build_from. cbn. now destruct (lookup _ r).
Qed.
Print Assumptions C14_map_keys_last_wins.

Theorem C14_map_keys_assoc : forall fn (m : amap),
  (forall r v, lookup (map_keys fn m) r = Some v -> exists k, In (k, v) m /\ fn k v = r) /\
  (forall k v, In (k, v) m -> exists v', lookup (map_keys fn m) (fn k v) = Some v') /\
  (forall k v, In (k, v) m -> (forall k' v', In (k', v') m -> fn k' v' = fn k v -> v' = v) ->
               lookup (map_keys fn m) (fn k v) = Some v).
Proof.
  intros fn m.
  assert (Hl : forall r, lookup (map_keys fn m) r
                         = lookup (rev (map (fun kv => (fn (fst kv) (snd kv), snd kv)) m)) r)
    by (intros r; apply C14_map_keys_last_wins).
  assert (Hsound : forall r v, lookup (map_keys fn m) r = Some v -> exists k, In (k, v) m /\ fn k v = r).
  { intros r v H. rewrite Hl in H. apply lookup_rev_some_in in H.
    apply in_map_iff in H as ([k v0] & Heq & Hin). cbn in Heq. injection Heq as <- <-. eauto. }
  assert (Hcov : forall k v, In (k, v) m -> exists v', lookup (map_keys fn m) (fn k v) = Some v').
  { intros k v Hin. rewrite Hl. apply (lookup_rev_covers _ (fn k v) v).
    apply in_map_iff. exists (k, v). split; [reflexivity|exact Hin]. }
  split; [exact Hsound|]. split; [exact Hcov|].
  intros k v Hin Hinj. destruct (Hcov k v Hin) as [v' Hv']. rewrite Hv'.
  destruct (Hsound _ _ Hv') as (k' & Hin' & Heq). f_equal. eapply Hinj; eassumption.
Qed.
Print Assumptions C14_map_keys_assoc.

(* ---- Invert: every value is mapped back to a key that held it ---- *)
Theorem C14_invert_sound : forall m, wf m ->
  wf (invert m) /\
  (forall v k, lookup (invert m) v = Some k -> lookup m k = Some v) /\
  (forall k v, lookup m k = Some v -> exists k', lookup (invert m) v = Some k' /\ lookup m k' = Some v) /\
  (forall k v, lookup m k = Some v -> (forall k', lookup m k' = Some v -> k' = k) ->
               lookup (invert m) v = Some k).
Proof.
  intros m Hwf. rewrite invert_build by exact Hwf.
  set (l := map (fun kv : Z * Z => (snd kv, fst kv)) m).
  assert (Hl : forall v, lookup (build_from [] l) v = lookup (rev l) v).
  { intros v. rewrite lookup_build_from. cbn. now destruct (lookup (rev l) v). }
  assert (Hsound : forall v k, lookup (build_from [] l) v = Some k -> lookup m k = Some v).
  { intros v k H. rewrite Hl in H. apply lookup_rev_some_in in H. unfold l in H.
    apply in_map_iff in H as ([k0 v0] & Heq & Hin). cbn in Heq. injection Heq as <- <-.
    now apply in_lookup. }
  assert (Hcov : forall k v, lookup m k = Some v ->
                 exists k', lookup (build_from [] l) v = Some k' /\ lookup m k' = Some v).
  { intros k v H. apply lookup_some_in in H.
    destruct (lookup_rev_covers l v k) as [k' Hk'].
    - unfold l. apply in_map_iff. exists (k, v). split; [reflexivity|exact H].
    - exists k'. rewrite Hl. split; [exact Hk'|]. apply Hsound. now rewrite Hl. }
  split; [apply wf_build_from; constructor|]. split; [exact Hsound|]. split; [exact Hcov|].
  intros k v H Huniq. destruct (Hcov k v H) as (k' & Hk' & Hm'). rewrite Hk'. f_equal. now apply Huniq.
Qed.
Print Assumptions C14_invert_sound.

(* ---- Find: the qualifying entry with the smallest key (for every sorter that
   returns a sorted permutation — what the code asks of sort.Slice) ---- *)
Theorem C14_find_smallest_key : forall (sorter : list Z -> list Z) fn m,
  (forall l, Permutation (sorter l) l /\ Sorted Z.le (sorter l)) ->
  wf m ->
  (find_with sorter fn m = [] /\ forall k v, In (k, v) m -> fn v = false) \/
  (exists k v, find_with sorter fn m = [(k, v)] /\ In (k, v) m /\ fn v = true /\
               forall k' v', In (k', v') m -> fn v' = true -> k <= k').
Proof. exact find_with_spec. Qed.
Print Assumptions C14_find_smallest_key.

(* the executable instance (insertion sort) meets the hypothesis on the sorter *)
Theorem C14_find_go_smallest_key : forall fn m, wf m ->
  (find_go fn m = [] /\ forall k v, In (k, v) m -> fn v = false) \/
  (exists k v, find_go fn m = [(k, v)] /\ In (k, v) m /\ fn v = true /\
               forall k' v', In (k', v') m -> fn v' = true -> k <= k').
Proof.
  intros fn m. apply find_with_spec. intros l. split; [apply sort_z_perm|apply sort_z_sorted].
Qed.
Print Assumptions C14_find_go_smallest_key.

(* ---- FindKey / FindByKey: some qualifying entry (the zero key / the empty map
   when there is none); and every qualifying entry is the answer under some
   iteration order, so nothing more can be promised ---- *)
Theorem C14_find_key_some : forall fn m,
  (find_key fn m = 0 /\ forall k v, In (k, v) m -> fn v = false) \/
  (exists v, In (find_key fn m, v) m /\ fn v = true).
Proof. exact find_key_spec. Qed.
Print Assumptions C14_find_key_some.

Theorem C14_find_by_key_some : forall fn m,
  (find_by_key fn m = [] /\ forall k v, In (k, v) m -> fn k = false) \/
  (exists k v, find_by_key fn m = [(k, v)] /\ In (k, v) m /\ fn k = true).
Proof. exact find_by_key_spec. Qed.
Print Assumptions C14_find_by_key_some.

Theorem C14_find_key_every_choice_possible : forall fn (m : amap) k v,
  In (k, v) m -> fn v = true -> exists m', Permutation m m' /\ find_key fn m' = k.
Proof. exact find_key_any_order. Qed.
Print Assumptions C14_find_key_every_choice_possible.

Theorem C14_find_by_key_every_choice_possible : forall fn (m : amap) k v,
  In (k, v) m -> fn k = true -> exists m', Permutation m m' /\ find_by_key fn m' = [(k, v)].
Proof. exact find_by_key_any_order. Qed.
Print Assumptions C14_find_by_key_every_choice_possible.

(* ---- Pluck: the value under the key from each map that has it, in order ---- *)
Theorem C14_pluck_in_order : forall ms key,
  pluck ms key = flat_map (fun m => match lookup m key with Some v => [v] | None => [] end) ms.
Proof. exact pluck_spec. Qed.
Print Assumptions C14_pluck_in_order.

(* ---- MapUnique: a sub-map with exactly one entry per distinct value ---- *)
Theorem C14_map_unique_one_per_value : forall m, wf m ->
  wf (map_unique m) /\
  (forall k v, lookup (map_unique m) k = Some v -> lookup m k = Some v) /\
  NoDup (map snd (map_unique m)) /\
  (forall k v, lookup m k = Some v -> exists k', lookup (map_unique m) k' = Some v).
Proof.
  intros m Hwf. rewrite map_unique_ref by exact Hwf.
  pose proof (uniq_ref_wf m [] Hwf) as Hwf'.
  split; [exact Hwf'|]. split.
  - intros k v H. apply lookup_some_in in H. apply uniq_ref_sub in H as [H _]. now apply in_lookup.
  - split; [apply uniq_ref_values_nodup|].
    intros k v H. apply lookup_some_in in H.
    destruct (uniq_ref_covers m [] k v H) as [[]|Hin].
    apply in_map_iff in Hin as ([k' v'] & Hv & Hin). cbn in Hv. subst v'.
    exists k'. now apply in_lookup.
Qed.
Print Assumptions C14_map_unique_one_per_value.

(* ---- MapEvery / MapSome / MapContains: the quantifiers over the values ---- *)
Theorem C14_map_every_iff : forall fn m, map_every fn m = true <-> forall k v, In (k, v) m -> fn v = true.
Proof.
  intros fn m. rewrite map_every_spec, forallb_forall. split.
  - intros H k v Hin. apply H. change v with (snd (k, v)). now apply in_map.
  - intros H v Hin. apply in_map_iff in Hin as ([k v'] & <- & Hin). eauto.
Qed.
Theorem C14_map_some_iff : forall fn m, map_some fn m = true <-> exists k v, In (k, v) m /\ fn v = true.
Proof.
  intros fn m. rewrite map_some_spec, existsb_exists. split.
  - intros (v & Hin & Hv). apply in_map_iff in Hin as ([k v'] & <- & Hin). eauto.
  - intros (k & v & Hin & Hv). exists v. split; [|exact Hv]. change v with (snd (k, v)). now apply in_map.
Qed.
Theorem C14_map_contains_iff : forall m x, map_contains m x = true <-> exists k, In (k, x) m.
Proof.
  intros m x. rewrite map_contains_iff. split.
  - intros Hin. apply in_map_iff in Hin as ([k v'] & <- & Hin). eauto.
  - intros [k Hin]. change x with (snd (k, x)). now apply in_map.
Qed.
Print Assumptions C14_map_every_iff.
Print Assumptions C14_map_some_iff.
Print Assumptions C14_map_contains_iff.

(* ---- SliceToMap: pairs positions, the last position of a key wins; unequal
   lengths are rejected (panic) ---- *)
Theorem C14_slice_to_map_last_wins : forall s1 s2,
  (length s1 <> length s2 -> slice_to_map s1 s2 = Panic) /\
  (length s1 = length s2 ->
   exists r, slice_to_map s1 s2 = Ok r /\ wf r /\
             forall k, lookup r k = lookup (rev (combine s1 s2)) k).
Proof.
  intros s1 s2. unfold slice_to_map. split; intros H.
  - apply Nat.eqb_neq in H. now rewrite H.
  - apply Nat.eqb_eq in H. rewrite H. eexists. split; [reflexivity|].
    rewrite slice_to_map_loop_build. split; [apply wf_build_from; constructor|].
    intros k. rewrite lookup_build_from. cbn. now destruct (lookup _ k).
Qed.
Print Assumptions C14_slice_to_map_last_wins.

(* "last wins", position by position *)
Theorem C14_slice_to_map_positions : forall s1 s2 r k v, length s1 = length s2 ->
  slice_to_map s1 s2 = Ok r ->
  (lookup r k = Some v -> exists i, nth_error s1 i = Some k /\ nth_error s2 i = Some v) /\
  (In k s1 -> exists v', lookup r k = Some v').
Proof.
  intros s1 s2 r k v Hlen Hr.
  destruct (C14_slice_to_map_last_wins s1 s2) as [_ H]. destruct (H Hlen) as (r' & Hr' & _ & Hl).
  rewrite Hr in Hr'. injection Hr' as <-. split.
  - intros Hv. rewrite Hl in Hv. apply lookup_rev_some_in in Hv.
    apply In_nth_error in Hv as [i Hi]. exists i.
    clear - Hi. revert s2 i Hi. induction s1 as [|a s1 IH]; intros [|b s2] [|i]; cbn; try discriminate.
    + intros H. now injection H as -> ->.
    + apply IH.
  - intros Hin. rewrite Hl.
    assert (exists v0, In (k, v0) (combine s1 s2)) as [v0 Hv0].
    { clear - Hin Hlen. revert s2 Hlen. induction s1 as [|a s1 IH]; intros [|b s2] Hlen; cbn in *; try tauto; try discriminate.
      destruct Hin as [->|Hin]; [eauto|]. destruct (IH Hin s2) as [v0 Hv0]; [lia|eauto]. }
    eapply lookup_rev_covers; eassumption.
Qed.
Print Assumptions C14_slice_to_map_positions.

(* ---- the map-collection filters: a map is kept exactly when one of its values
   qualifies — once, in order (the repaired code) ---- *)
Theorem C14_filter_collection_spec : forall fn ms,
  filter_map_collection fn ms = filter (fun m => existsb fn (map snd m)) ms.
Proof. intros fn ms. apply filter_collection_spec. Qed.
Print Assumptions C14_filter_collection_spec.

Theorem C14_filter_2d_collection_spec : forall fn coll,
  filter_2d_map_collection fn coll = filter (fun item => existsb fn (map snd item)) coll.
Proof. intros fn coll. apply filter_collection_spec. Qed.
Print Assumptions C14_filter_2d_collection_spec.

(* the code as found (DESIGN §7 #3) returned a map once per qualifying value *)
Theorem C14_filter_collection_asfound_refuted :
  exists fn (ms : list amap),
    filter_collection_asfound fn ms <> filter (fun m => existsb fn (map snd m)) ms.
Proof. exists (fun v => 22 <? v), [[(0, 30); (1, 40)]]. vm_compute. discriminate. Qed.
Print Assumptions C14_filter_collection_asfound_refuted.

(* ---- PartitionMap: every non-empty map is routed by the predicate, order kept ---- *)
Theorem C14_partition_map_spec : forall fn ms,
  partition_map fn ms =
  (filter fn (filter (fun m => negb (is_empty m)) ms),
   filter (fun m => negb (fn m)) (filter (fun m => negb (is_empty m)) ms)).
Proof. exact partition_map_spec. Qed.
Print Assumptions C14_partition_map_spec.

(* ---- non-vacuity / the boundary shapes, computed on the model ---- *)
(* PartitionMap: empty maps (a nil map is the same thing to the loop) are dropped,
   wherever they stand; the others keep their order on each side *)
Example C14_partition_map_example :
  partition_map (fun m => (2 <=? Z.of_nat (length m))) [[]; [(1, 2)]; []; [(3, 0); (4, 1)]; [(5, 5)]; []]
  = ([[(3, 0); (4, 1)]], [[(1, 2)]; [(5, 5)]]) /\
  partition_map (fun _ => true) [[]; []] = ([], []) /\ partition_map (fun _ => true) [] = ([], []).
Proof. repeat split; reflexivity. Qed.

(* Invert / MapKeys on collisions: the two iteration orders of one map give
   different results, and both satisfy the defining property (C14_invert_sound,
   C14_map_keys_assoc) — the key kept is one that held the value *)
Example C14_collision_examples :
  invert [(1, 5); (2, 5); (3, 0)] = [(5, 2); (0, 3)] /\ invert [(2, 5); (1, 5); (3, 0)] = [(5, 1); (0, 3)] /\
  map_keys (fun _ _ => 0) [(1, 7); (2, 8)] = [(0, 8)] /\ map_keys (fun _ _ => 0) [(2, 8); (1, 7)] = [(0, 7)] /\
  map_unique [(1, 5); (2, 5); (3, 0)] = [(1, 5); (3, 0)] /\ map_unique [(2, 5); (1, 5); (3, 0)] = [(2, 5); (3, 0)].
Proof. repeat split; reflexivity. Qed.

(* Find: the smallest qualifying key whatever the iteration order; FindKey's zero
   key when nothing qualifies; Pick with keys that are absent (7) or repeated;
   SliceToMap: last position wins, unequal lengths panic; the collection filter
   keeps a map with two qualifying values once *)
Example C14_boundary_examples :
  find_go (fun v => 1 <? v) [(9, 5); (2, 0); (4, 7); (3, 1)] = [(4, 7)] /\
  find_go (fun v => 1 <? v) [(4, 7); (3, 1); (9, 5); (2, 0)] = [(4, 7)] /\
  find_go (fun v => 9 <? v) [(4, 7); (3, 1)] = [] /\
  find_key (fun v => 9 <? v) [(4, 7); (3, 1)] = 0 /\
  pick [(3, 1); (1, 2)] [7; 1; 1; 7] = Ok [(1, 2)] /\ pick [(3, 1)] [7] = Ok [] /\ pick [(3, 1)] [] = Err 1 /\
  omit [(3, 1); (1, 2)] [7; 1; 1; 7] = [(3, 1)] /\
  slice_to_map [1; 2; 1] [10; 20; 30] = Ok [(1, 30); (2, 20)] /\
  slice_to_map [1; 2] [10] = Panic /\ slice_to_map [] [10] = Panic /\ slice_to_map [] [] = Ok [] /\
  filter_map_collection (fun v => 22 <? v) [[(0, 30); (1, 40)]; [(0, 1)]; []] = [[(0, 30); (1, 40)]] /\
  pluck [[(1, 5)]; [(2, 6)]; []; [(1, 0); (2, 3)]] 1 = [5; 0].
Proof. repeat split; reflexivity. Qed.

(* ================================================================== *)
(* Part 2.  Key and value types whose `==` is not reflexive (float NaN)
   — model C14_ModelNaN.v, lemmas C14_ProofsNaN.v.

   [keq], [veq], [req] are Go's == on the key / value / result-key type.  The
   only assumption about them is [sub eq]: eq a b = true -> a = b.  A key (value)
   with eq a a = false is "unreachable": a NaN.  [wfk keq m]: the keys of m are
   pairwise unequal under keq — an ordinary key occurs once, an unreachable key
   as often as it was inserted.  A map that a helper returns may hold entries
   that no look-up reaches, so the statements are about its ENTRIES ([In],
   [Permutation], [filter]) instead of [lookup].  Every theorem is for ALL such
   lists = all maps in all iteration orders. *)

From Gogu Require Import C14_ModelNaN C14_ProofsNaN.

(* the assumption has the two intended models: Z with Z.eqb (everything ordinary)
   and floats with one NaN *)
Theorem C14_nan_equalities :
  sub Z.eqb /\ (forall z, Z.eqb z z = true) /\
  sub fl_eqb /\ fl_eqb NaN NaN = false /\ (forall z, fl_eqb (Num z) (Num z) = true) /\
  (forall (A : Type) (eq : A -> A -> bool), sub eq ->
     (forall a b, eq a b = eq b a) /\ (forall a b c, eq a b = true -> eq b c = true -> eq a c = true)).
Proof.
  split; [exact sub_Zeqb|]. split; [exact Z.eqb_refl|]. split; [exact fl_sub|]. split; [reflexivity|].
  split; [intros z; apply Z.eqb_refl|]. intros A eq Hs. split; [now apply sub_sym|now apply sub_trans].
Qed.
Print Assumptions C14_nan_equalities.

(* ---- the modelling: an entry under an unreachable key is reached by no look-up,
   delete or overwrite; an insert under such a key always adds an entry ---- *)
Theorem C14_nan_key_unreachable : forall (K V : Type) (keq : K -> K -> bool) (m : list (K * V)) k v,
  sub keq -> keq k k = false ->
  glookup keq m k = None /\ gdelete keq m k = m /\ gset keq m k v = m ++ [(k, v)] /\
  (wfk keq m -> wfk keq (m ++ [(k, v)])).
Proof. exact @nan_key_unreachable. Qed.
Print Assumptions C14_nan_key_unreachable.

Theorem C14_nan_order_irrelevant : forall (K V : Type) (keq : K -> K -> bool) (m m' : list (K * V)) k,
  sub keq -> wfk keq m -> Permutation m m' -> wfk keq m' /\ glookup keq m k = glookup keq m' k.
Proof. intros K V keq m m' k Hs Hwf Hp. split; [eapply wfk_perm; eassumption|now apply glookup_perm]. Qed.
Print Assumptions C14_nan_order_irrelevant.

(* ---- Keys / Values / MapCollection: one element per ENTRY (an unreachable key is
   listed once per entry stored under it), the same multiset under every order ---- *)
Theorem C14_nan_keys_values_once : forall (K V : Type) (kz : K) (vz : V) (fn : V -> V) (m m' : list (K * V)),
  gkeys kz m = map fst m /\ gvalues vz m = map snd m /\ gmap_collection vz fn m = map (fun kv => fn (snd kv)) m /\
  (Permutation m m' -> Permutation (gkeys kz m) (gkeys kz m') /\ Permutation (gvalues vz m) (gvalues vz m') /\
                       Permutation (gmap_collection vz fn m) (gmap_collection vz fn m')).
Proof.
  intros K V kz vz fn m m'. unfold gkeys, gvalues, gmap_collection. rewrite !gfill_spec.
  repeat split; try reflexivity; now apply Permutation_map.
Qed.
Print Assumptions C14_nan_keys_values_once.

(* ---- Pick / PickBy / FilterMap: exactly the qualifying entries.  A listed key
   qualifies an entry when it is EQUAL to its key: an entry under an unreachable
   key is never picked and never omitted by a key list ---- *)
Theorem C14_nan_pick_exact : forall (K V : Type) (keq : K -> K -> bool) (vz : V) (m : list (K * V)) ks,
  sub keq -> wfk keq m ->
  gpick keq vz m ks = match ks with [] => Err 1 | _ => Ok (filter (gkey_in keq ks) m) end.
Proof. intros K V keq vz m ks Hs Hwf. now apply gpick_spec. Qed.
Print Assumptions C14_nan_pick_exact.

Theorem C14_nan_unreachable_key_never_listed : forall (K V : Type) (keq : K -> K -> bool) ks (kv : K * V),
  sub keq -> keq (fst kv) (fst kv) = false -> gkey_in keq ks kv = false.
Proof. intros K V keq ks kv Hs Hk. now apply gcontains_unreachable. Qed.
Print Assumptions C14_nan_unreachable_key_never_listed.

Theorem C14_nan_pick_by_exact : forall (K V : Type) (keq : K -> K -> bool) fn (m : list (K * V)),
  wfk keq m -> gpick_by keq fn m = filter (gkv_ok fn) m.
Proof. intros K V keq fn m. apply gpick_by_spec. Qed.
Print Assumptions C14_nan_pick_by_exact.

Theorem C14_nan_filter_map_exact : forall (K V : Type) (keq : K -> K -> bool) fn (m : list (K * V)),
  wfk keq m -> gfilter_map keq fn m = filter (gval_ok fn) m.
Proof. intros K V keq fn m. apply gfilter_map_spec. Qed.
Print Assumptions C14_nan_filter_map_exact.

(* ---- Omit: exactly the others; Pick and Omit partition the map ---- *)
Theorem C14_nan_omit_exact : forall (K V : Type) (keq : K -> K -> bool) (m : list (K * V)) ks,
  sub keq -> wfk keq m -> gomit keq m ks = filter (fun kv => negb (gkey_in keq ks kv)) m.
Proof. intros K V keq m ks Hs Hwf. now apply gomit_spec. Qed.
Print Assumptions C14_nan_omit_exact.

Theorem C14_nan_pick_omit_partition : forall (K V : Type) (keq : K -> K -> bool) (vz : V) (m : list (K * V)) ks,
  sub keq -> wfk keq m -> ks <> [] ->
  exists r, gpick keq vz m ks = Ok r /\ Permutation (r ++ gomit keq m ks) m /\
            (forall a b, In a r -> In b (gomit keq m ks) -> keq (fst a) (fst b) = false).
Proof. exact @nan_pick_omit_partition. Qed.
Print Assumptions C14_nan_pick_omit_partition.

(* ---- OmitBy.  The clause "OmitBy returns exactly the others; PickBy and OmitBy
   partition the map":

     forall fn m, wfk keq m ->
       Permutation (gomit_by_asfound keq fn m) (filter (fun kv => negb (gkv_ok fn kv)) m)

   is FALSE for the code in /repo (delete(collection, k) cannot remove an entry
   under an unreachable key): known finding KF-C14-omitby-nan.  Proved: what the
   code returns exactly; that it meets the clause on every map in which no entry
   under an unreachable key qualifies (_partial); the witness (_refuted); and
   that the proposed repair fixes/nan-c14/0004 ([gomit_by], not in /repo) meets
   the clause on all maps. ---- *)
Theorem C14_nan_omit_by_partial : forall (K V : Type) (keq : K -> K -> bool) fn (m : list (K * V)),
  sub keq -> wfk keq m ->
  gomit_by_asfound keq fn m = filter (fun kv => negb (gkv_ok fn kv && keq (fst kv) (fst kv))) m /\
  ((forall kv, In kv m -> gkv_ok fn kv = true -> keq (fst kv) (fst kv) = true) ->
   gomit_by_asfound keq fn m = filter (fun kv => negb (gkv_ok fn kv)) m /\
   Permutation (gpick_by keq fn m ++ gomit_by_asfound keq fn m) m /\
   (forall a b, In a (gpick_by keq fn m) -> In b (gomit_by_asfound keq fn m) -> keq (fst a) (fst b) = false)).
Proof. exact @nan_omit_by_asfound_partial. Qed.
Print Assumptions C14_nan_omit_by_partial.

Theorem C14_nan_omit_by_refuted :
  exists (fn : fl -> fl -> bool) (m : fmap),
    wfk fl_eqb m /\
    ~ Permutation (gomit_by_asfound fl_eqb fn m) (filter (fun kv => negb (gkv_ok fn kv)) m) /\
    ~ Permutation (gpick_by fl_eqb fn m ++ gomit_by_asfound fl_eqb fn m) m.
Proof.
  exists (fun _ _ => true), [(NaN, Num 30)]. split; [cbn; intuition|]. split; intros H.
  - apply Permutation_length in H. discriminate.
  - apply Permutation_length in H. discriminate.
Qed.
Print Assumptions C14_nan_omit_by_refuted.

Theorem C14_nan_omit_by_repair_exact : forall (K V : Type) (keq : K -> K -> bool) fn (m : list (K * V)),
  sub keq -> wfk keq m ->
  Permutation (gomit_by keq fn m) (filter (fun kv => negb (gkv_ok fn kv)) m) /\
  Permutation (gpick_by keq fn m ++ gomit_by keq fn m) m /\
  (forall a b, In a (gpick_by keq fn m) -> In b (gomit_by keq fn m) -> keq (fst a) (fst b) = false).
Proof. exact @nan_pick_by_omit_by_partition. Qed.
Print Assumptions C14_nan_omit_by_repair_exact.

(* ---- MapValues: the association is preserved, entry by entry ---- *)
Theorem C14_nan_map_values_assoc : forall (K V R : Type) (keq : K -> K -> bool) (fn : V -> R) (m : list (K * V)),
  wfk keq m -> gmap_values keq fn m = map (fun kv => (fst kv, fn (snd kv))) m.
Proof. intros K V R keq fn m. apply gmap_values_spec. Qed.
Print Assumptions C14_nan_map_values_assoc.

(* ---- MapKeys / Invert / SliceToMap: "the last assignment to a key wins", where
   only EQUAL keys collide: the result is, as a multiset of entries, [keep_last]
   of the sequence of assignments — every assignment under an unreachable key
   leaves its own entry ---- *)
Theorem C14_nan_map_keys_last_wins : forall (K V R : Type) (req : R -> R -> bool) (fn : K -> V -> R) (m : list (K * V)),
  sub req -> Permutation (gmap_keys req fn m) (keep_last req (map (fun kv => (fn (fst kv) (snd kv), snd kv)) m)).
Proof. exact @nan_map_keys_last_wins. Qed.
Print Assumptions C14_nan_map_keys_last_wins.

(* defining property: every result entry comes from an entry with that image and
   value; every ordinary image is a key of the result; an entry whose image is
   unreachable has its own result entry; exact where fn does not collide *)
Theorem C14_nan_map_keys_assoc : forall (K V R : Type) (req : R -> R -> bool) (fn : K -> V -> R) (m : list (K * V)),
  sub req ->
  wfk req (gmap_keys req fn m) /\
  (forall r v, In (r, v) (gmap_keys req fn m) -> exists k, In (k, v) m /\ fn k v = r) /\
  (forall k v, In (k, v) m -> req (fn k v) (fn k v) = true -> exists v', In (fn k v, v') (gmap_keys req fn m)) /\
  (forall k v, In (k, v) m -> req (fn k v) (fn k v) = false -> In (fn k v, v) (gmap_keys req fn m)) /\
  (forall k v, In (k, v) m -> (forall k' v', In (k', v') m -> req (fn k' v') (fn k v) = true -> v' = v) ->
               In (fn k v, v) (gmap_keys req fn m)).
Proof. exact @nan_map_keys_assoc. Qed.
Print Assumptions C14_nan_map_keys_assoc.

Theorem C14_nan_invert_last_wins : forall (K V : Type) (veq : V -> V -> bool) (m : list (K * V)),
  sub veq -> Permutation (ginvert veq m) (keep_last veq (map (fun kv => (snd kv, fst kv)) m)).
Proof. exact @nan_invert_last_wins. Qed.
Print Assumptions C14_nan_invert_last_wins.

(* Invert maps every value back to a key that held it: sound; every ordinary value
   is covered; EVERY entry with an unreachable value is inverted on its own
   (whatever its key, reachable or not); exact for a value held once *)
Theorem C14_nan_invert_sound : forall (K V : Type) (veq : V -> V -> bool) (m : list (K * V)),
  sub veq ->
  wfk veq (ginvert veq m) /\
  (forall v k, In (v, k) (ginvert veq m) -> In (k, v) m) /\
  (forall k v, In (k, v) m -> veq v v = true -> exists k', In (v, k') (ginvert veq m) /\ In (k', v) m) /\
  (forall k v, In (k, v) m -> veq v v = false -> In (v, k) (ginvert veq m)) /\
  (forall k v, In (k, v) m -> (forall k' v', In (k', v') m -> veq v' v = true -> k' = k) -> In (v, k) (ginvert veq m)).
Proof. exact @nan_invert_sound. Qed.
Print Assumptions C14_nan_invert_sound.

Theorem C14_nan_slice_to_map_last_wins : forall (K V : Type) (keq : K -> K -> bool) (s1 : list K) (s2 : list V),
  sub keq ->
  (length s1 <> length s2 -> gslice_to_map keq s1 s2 = Panic) /\
  (length s1 = length s2 ->
   exists r, gslice_to_map keq s1 s2 = Ok r /\ Permutation r (keep_last keq (combine s1 s2))).
Proof. exact @nan_slice_to_map_last_wins. Qed.
Print Assumptions C14_nan_slice_to_map_last_wins.

(* what [keep_last] means, entry by entry (used for the three helpers above) *)
Theorem C14_nan_last_wins_entries : forall (A B : Type) (eq : A -> A -> bool) (l r : list (A * B)),
  sub eq -> Permutation r (keep_last eq l) ->
  wfk eq r /\
  (forall e, In e r -> In e l) /\
  (forall e, In e l -> eq (fst e) (fst e) = true -> exists b', In (fst e, b') r) /\
  (forall e, In e l -> eq (fst e) (fst e) = false -> In e r) /\
  Permutation (filter (fun e => negb (eq (fst e) (fst e))) r) (filter (fun e => negb (eq (fst e) (fst e))) l) /\
  (forall e, In e l -> (forall e', In e' l -> eq (fst e') (fst e) = true -> e' = e) -> In e r).
Proof. exact @nan_last_wins_entries. Qed.
Print Assumptions C14_nan_last_wins_entries.

(* ---- Find (the code after aa675fa): the qualifying entry with the smallest
   ORDERED key — [le_k klt k k'] is "k' < k is false"; an entry under an
   unordered key (k != k) is returned only when no qualifying entry has an ordered
   key; for every sorter that returns a sorted permutation of lists of ordered keys ---- *)
Theorem C14_nan_find_smallest_key : forall (K V : Type) (keq klt : K -> K -> bool) (vz : V)
    (sorter : list K -> list K) (fn : V -> bool) (m : list (K * V)),
  (forall a, klt a a = false) ->
  (forall l, (forall x, In x l -> keq x x = true) -> Permutation (sorter l) l /\ StronglySorted (le_k klt) (sorter l)) ->
  wfk keq m ->
  (gfind_with keq vz sorter fn m = [] /\ forall k v, In (k, v) m -> fn v = false) \/
  (exists k v, gfind_with keq vz sorter fn m = [(k, v)] /\ In (k, v) m /\ fn v = true /\
     ((keq k k = true /\ forall k' v', In (k', v') m -> fn v' = true -> keq k' k' = true -> le_k klt k k') \/
      (keq k k = false /\ forall k' v', In (k', v') m -> fn v' = true -> keq k' k' = false))).
Proof. exact @gfind_with_spec. Qed.
Print Assumptions C14_nan_find_smallest_key.

(* the executable instance (insertion sort by < on floats) meets the hypotheses *)
Theorem C14_nan_find_fl_smallest_key : forall (fn : fl -> bool) (m : fmap), wfk fl_eqb m ->
  (ffind fn m = [] /\ forall k v, In (k, v) m -> fn v = false) \/
  (exists k v, ffind fn m = [(k, v)] /\ In (k, v) m /\ fn v = true /\
     ((exists z, k = Num z /\ forall z' v', In (Num z', v') m -> fn v' = true -> z <= z') \/
      (k = NaN /\ forall k' v', In (k', v') m -> fn v' = true -> k' = NaN))).
Proof.
  intros fn m Hwf.
  destruct (gfind_with_spec fl_eqb fl_ltb fl_zero fl_sort fn m) as [H|(k & v & Hr & Hin & Hv & H)].
  - intros [z|]; cbn; [apply Z.ltb_irrefl|reflexivity].
  - exact fl_sort_sorted.
  - exact Hwf.
  - now left.
  - right. exists k, v. split; [exact Hr|]. split; [exact Hin|]. split; [exact Hv|].
    destruct H as [[Hk Hmin]|[Hk Hall]].
    + left. destruct k as [z|]; [|discriminate]. exists z. split; [reflexivity|].
      intros z' v' Hin' Hv'. specialize (Hmin (Num z') v' Hin' Hv' (Z.eqb_refl z')). unfold le_k in Hmin. cbn in Hmin.
      now apply Z.ltb_ge in Hmin.
    + right. destruct k as [z|]; [cbn in Hk; rewrite Z.eqb_refl in Hk; discriminate|]. split; [reflexivity|].
      intros k' v' Hin' Hv'. specialize (Hall k' v' Hin' Hv'). destruct k' as [z'|]; [|reflexivity].
      cbn in Hall. rewrite Z.eqb_refl in Hall. discriminate.
Qed.
Print Assumptions C14_nan_find_fl_smallest_key.

(* ---- FindKey / FindByKey: some qualifying entry, any of them under some order ---- *)
Theorem C14_nan_find_key_some : forall (K V : Type) (kz : K) (fn : V -> bool) (m : list (K * V)),
  (gfind_key kz fn m = kz /\ forall k v, In (k, v) m -> fn v = false) \/
  (exists v, In (gfind_key kz fn m, v) m /\ fn v = true).
Proof. exact @gfind_key_spec. Qed.
Print Assumptions C14_nan_find_key_some.

Theorem C14_nan_find_by_key_some : forall (K V : Type) (keq : K -> K -> bool) (fn : K -> bool) (m : list (K * V)),
  (gfind_by_key keq fn m = [] /\ forall k v, In (k, v) m -> fn k = false) \/
  (exists k v, gfind_by_key keq fn m = [(k, v)] /\ In (k, v) m /\ fn k = true).
Proof. exact @gfind_by_key_spec. Qed.
Print Assumptions C14_nan_find_by_key_some.

Theorem C14_nan_find_every_choice_possible : forall (K V : Type) (keq : K -> K -> bool) (kz : K) (m : list (K * V)) k v,
  In (k, v) m ->
  (forall fn : V -> bool, fn v = true -> exists m', Permutation m m' /\ gfind_key kz fn m' = k) /\
  (forall fn : K -> bool, fn k = true -> exists m', Permutation m m' /\ gfind_by_key keq fn m' = [(k, v)]).
Proof.
  intros K V keq kz m k v Hin. split; intros fn Hfn.
  - now apply (gfind_key_any_order kz fn m k v).
  - now apply gfind_by_key_any_order.
Qed.
Print Assumptions C14_nan_find_every_choice_possible.

(* ---- Pluck: the value under the key from each map in which a look-up finds it,
   in order; nothing for an unreachable key ---- *)
Theorem C14_nan_pluck_in_order : forall (K V : Type) (keq : K -> K -> bool) (vz : V) (ms : list (list (K * V))) key,
  sub keq ->
  gpluck keq vz ms key = flat_map (fun m => match glookup keq m key with Some v => [v] | None => [] end) ms /\
  (keq key key = false -> gpluck keq vz ms key = []).
Proof. exact @nan_pluck. Qed.
Print Assumptions C14_nan_pluck_in_order.

(* ---- MapUnique: a sub-map; the kept values are pairwise unequal; every ordinary
   value is kept under some key; EVERY entry with an unreachable value (each NaN
   is distinct from every other value) is kept under its own key ---- *)
Theorem C14_nan_map_unique_one_per_value : forall (K V : Type) (keq : K -> K -> bool) (veq : V -> V -> bool) (m : list (K * V)),
  sub veq -> wfk keq m ->
  wfk keq (gmap_unique keq veq m) /\
  (forall k v, In (k, v) (gmap_unique keq veq m) -> In (k, v) m) /\
  wfk veq (map (fun kv => (snd kv, fst kv)) (gmap_unique keq veq m)) /\
  (forall k v, In (k, v) m -> veq v v = true -> exists k', In (k', v) (gmap_unique keq veq m)) /\
  (forall k v, In (k, v) m -> veq v v = false -> In (k, v) (gmap_unique keq veq m)).
Proof. exact @nan_map_unique. Qed.
Print Assumptions C14_nan_map_unique_one_per_value.

(* ---- MapEvery / MapSome / MapContains (== on the values: a NaN is contained in no map) ---- *)
Theorem C14_nan_map_every_some_iff : forall (K V : Type) (fn : V -> bool) (m : list (K * V)),
  (gmap_every fn m = true <-> forall k v, In (k, v) m -> fn v = true) /\
  (gmap_some fn m = true <-> exists k v, In (k, v) m /\ fn v = true).
Proof.
  intros K V fn m. rewrite gmap_every_spec, gmap_some_spec, forallb_forall, existsb_exists. split; split.
  - intros H k v Hin. apply H. change v with (snd (k, v)). now apply in_map.
  - intros H v Hin. apply in_map_iff in Hin as ([k v'] & <- & Hin). eauto.
  - intros (v & Hin & Hv). apply in_map_iff in Hin as ([k v'] & <- & Hin). eauto.
  - intros (k & v & Hin & Hv). exists v. split; [|exact Hv]. change v with (snd (k, v)). now apply in_map.
Qed.
Print Assumptions C14_nan_map_every_some_iff.

Theorem C14_nan_map_contains_iff : forall (K V : Type) (veq : V -> V -> bool) (m : list (K * V)) x,
  sub veq ->
  (gmap_contains veq m x = true <-> exists k v, In (k, v) m /\ veq v x = true) /\
  (veq x x = false -> gmap_contains veq m x = false).
Proof. exact @nan_map_contains. Qed.
Print Assumptions C14_nan_map_contains_iff.

(* ---- the collection filters and PartitionMap (the code after 8c13ccc: the maps
   are not written to) ---- *)
Theorem C14_nan_filter_collection_spec : forall (K V : Type) (fn : V -> bool) (coll : list (list (K * V))),
  gfilter_collection fn coll = filter (fun item => existsb fn (map snd item)) coll.
Proof. exact @gfilter_collection_spec. Qed.
Print Assumptions C14_nan_filter_collection_spec.

Theorem C14_nan_partition_map_spec : forall (K V : Type) (fn : list (K * V) -> bool) (ms : list (list (K * V))),
  gpartition_map fn ms =
  (filter fn (filter (fun m => negb (gis_empty m)) ms),
   filter (fun m => negb (fn m)) (filter (fun m => negb (gis_empty m)) ms)).
Proof. exact @gpartition_map_spec. Qed.
Print Assumptions C14_nan_partition_map_spec.

(* ---- the four loops as they were before d979ad3 / d5dd95e / aa675fa / 8c13ccc
   (repaired in /repo): under an unreachable key they broke the clauses above ---- *)
Theorem C14_nan_invert_asfound_refuted :
  exists m : fmap, wfk fl_eqb m /\
    ~ (forall v k, In (v, k) (ginvert_asfound fl_eqb fl_eqb fl_zero fl_zero m) -> In (k, v) m).
Proof.
  exists [(NaN, Num 30)]. split; [cbn; intuition|]. intros H.
  specialize (H (Num 0) NaN (or_introl Logic.eq_refl)). destruct H as [H|[]]. discriminate.
Qed.
Print Assumptions C14_nan_invert_asfound_refuted.

Theorem C14_nan_pick_by_asfound_refuted :
  exists (fn : fl -> fl -> bool) (m : fmap), wfk fl_eqb m /\
    gpick_by_asfound fl_eqb fl_zero fn m <> filter (gkv_ok fn) m.
Proof. exists (fun _ _ => true), [(NaN, Num 30)]. split; [cbn; intuition|]. vm_compute. discriminate. Qed.
Print Assumptions C14_nan_pick_by_asfound_refuted.

Theorem C14_nan_find_asfound_refuted :
  exists m : fmap, wfk fl_eqb m /\
    gfind_asfound fl_eqb fl_zero fl_zero fl_sort (fun v => fl_ltb (Num 20) v) m = [] /\
    In (NaN, Num 30) m /\
    gfind_asfound fl_eqb fl_zero fl_zero fl_sort (fun v => fl_eqb v (Num 0)) m = [(NaN, Num 0)] /\
    ~ In (NaN, Num 0) m.
Proof.
  exists [(NaN, Num 30)]. split; [cbn; intuition|]. split; [reflexivity|]. split; [now left|]. split; [reflexivity|].
  intros [H|[]]. discriminate.
Qed.
Print Assumptions C14_nan_find_asfound_refuted.

Theorem C14_nan_partition_map_asfound_refuted :
  exists (fn : fmap -> bool) (ms : list fmap),
    gpartition_map_asfound fl_eqb fn ms
    <> (filter fn (filter (fun m => negb (gis_empty m)) ms),
        filter (fun m => negb (fn m)) (filter (fun m => negb (gis_empty m)) ms)).
Proof. exists (fun m => (length m =? 1)%nat), [[(NaN, Num 30)]]. vm_compute. discriminate. Qed.
Print Assumptions C14_nan_partition_map_asfound_refuted.

(* ---- conservativity: at a reflexive equality the generic helpers ARE the helpers
   of C14_Model.v (so Part 1 is the instance K = V = Z of Part 2), including the
   four repaired loops and the proposed OmitBy on every well-formed map: the
   theorems of Part 1 are theorems about the code as it is now ---- *)
Theorem C14_nan_conservative : forall (m : amap) (ms : list amap) ks k fn1 fn2 fnk (p : Z -> bool) s1 s2,
  (wfk Z.eqb m <-> wf m) /\
  (forall k', glookup Z.eqb m k' = lookup m k') /\
  gkeys 0 m = keys_go m /\ gvalues 0 m = values_go m /\ gmap_collection 0 fn1 m = map_collection fn1 m /\
  gmap_values Z.eqb fn1 m = map_values fn1 m /\ gmap_keys Z.eqb fn2 m = map_keys fn2 m /\
  gmap_every p m = map_every p m /\ gmap_some p m = map_some p m /\ gmap_contains Z.eqb m k = map_contains m k /\
  gfind_key 0 p m = find_key p m /\ gfind_by_key Z.eqb fnk m = find_by_key fnk m /\
  gpluck Z.eqb 0 ms k = pluck ms k /\ gpick Z.eqb 0 m ks = pick m ks /\ gomit Z.eqb m ks = omit m ks /\
  gslice_to_map Z.eqb s1 s2 = slice_to_map s1 s2 /\ gfilter_map Z.eqb p m = filter_map p m /\
  gfilter_collection p ms = filter_map_collection p ms.
Proof.
  intros. split; [apply wfk_Z|]. split; [intros; apply glookup_Z|]. apply conservative_plain.
Qed.
Print Assumptions C14_nan_conservative.

Theorem C14_nan_conservative_repaired : forall (m : amap) (ms : list amap) (sorter : list Z -> list Z) fn2 (p : Z -> bool) fnm,
  wf m ->
  gmap_unique Z.eqb Z.eqb m = map_unique m /\
  ginvert Z.eqb m = invert m /\ gpick_by Z.eqb fn2 m = pick_by fn2 m /\ gomit_by Z.eqb fn2 m = omit_by fn2 m /\
  gomit_by_asfound Z.eqb fn2 m = omit_by fn2 m /\
  gfind_with Z.eqb 0 sorter p m = find_with sorter p m /\ gpartition_map fnm ms = partition_map fnm ms.
Proof.
  intros m ms sorter fn2 p fnm Hwf.
  destruct (conservative_repaired m ms sorter fn2 p fnm Hwf) as (H1 & H2 & H3 & H4 & H5 & H6).
  repeat split; try assumption.
Qed.
Print Assumptions C14_nan_conservative_repaired.

(* ---- non-vacuity and the NaN shapes, computed on the float instance ---- *)
Example C14_nan_examples :
  let m : fmap := [(Num 1, Num 10); (NaN, Num 30); (Num 2, NaN); (NaN, Num 30); (Num 3, NaN)] in
  wfk fl_eqb m /\
  gkeys fl_zero m = [Num 1; NaN; Num 2; NaN; Num 3] /\
  glookup fl_eqb m NaN = None /\ glookup fl_eqb m (Num 2) = Some NaN /\
  gpick fl_eqb fl_zero m [NaN; Num 2; Num 7] = Ok [(Num 2, NaN)] /\
  gomit fl_eqb m [NaN; Num 2; Num 7] = [(Num 1, Num 10); (NaN, Num 30); (NaN, Num 30); (Num 3, NaN)] /\
  gpick_by fl_eqb (fun k _ => negb (fl_eqb k k)) m = [(NaN, Num 30); (NaN, Num 30)] /\
  gomit_by fl_eqb (fun k _ => negb (fl_eqb k k)) m = [(Num 1, Num 10); (Num 2, NaN); (Num 3, NaN)] /\
  gomit_by_asfound fl_eqb (fun k _ => negb (fl_eqb k k)) m = m /\
  ginvert fl_eqb m = [(Num 10, Num 1); (Num 30, NaN); (NaN, Num 2); (NaN, Num 3)] /\
  gmap_unique fl_eqb fl_eqb m = [(Num 1, Num 10); (NaN, Num 30); (Num 2, NaN); (Num 3, NaN)] /\
  gmap_contains fl_eqb m NaN = false /\ gmap_contains fl_eqb m (Num 30) = true /\
  ffind (fun v => fl_ltb (Num 20) v) m = [(NaN, Num 30)] /\ ffind (fun v => negb (fl_eqb v v)) m = [(Num 2, NaN)] /\
  gfind_key fl_zero (fun v => fl_ltb (Num 20) v) m = NaN /\
  gpluck fl_eqb fl_zero [m; [(Num 2, Num 5)]] NaN = [] /\ gpluck fl_eqb fl_zero [m; [(Num 2, Num 5)]] (Num 2) = [NaN; Num 5] /\
  gslice_to_map fl_eqb [NaN; Num 1; NaN; Num 1] [Num 1; Num 2; Num 3; NaN] = Ok [(NaN, Num 1); (Num 1, NaN); (NaN, Num 3)] /\
  gmap_keys fl_eqb (fun k v => if fl_eqb k k then NaN else Num 0) m
    = [(NaN, Num 10); (Num 0, Num 30); (NaN, NaN); (NaN, NaN)] /\
  gpartition_map (fun m : fmap => (length m =? 1)%nat) [[(NaN, Num 1)]; []; m] = ([[(NaN, Num 1)]], [m]).
Proof. cbn zeta. split; [wfk_tac|]. repeat split; reflexivity. Qed.
