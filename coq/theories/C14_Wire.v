(* C14_Wire.v — wire glue for C14 (no proofs; exercised by the correspondence).

   input  = fn :: args                     (table in harness/c14.go, kept in step)
   observed = enc_zss outcomes             — the harness calls the helper 8 times
              on maps built in different insertion orders (Go also randomises
              the start of every range loop), canonicalises each outcome
              (result maps sorted by key, Keys/Values/MapCollection sorted) and
              lists the DISTINCT outcomes it saw, each as one length-prefixed
              blob.

   c14_run   w     = the single outcome of the model on the iteration order in
                     which the entries are written on the wire.
   c14_agree w obs = every observed outcome is the model's outcome for SOME
                     iteration order of the argument map (all permutations of
                     its entries when it has <= 5 entries; for larger maps the
                     order-insensitive helpers are run on the given order and
                     the helpers that leave a choice open fall back on the
                     defining property).
   c14_holds w obs = every observed outcome satisfies the clause of C14 for
                     that helper, judged by the reference functions of
                     C14_Model part 2 / plain filter, map, existsb — not by
                     the loops.

   fn > 100: the `nan` stream (helper fn - 100 at map[float64]float64, NaN among
   keys and values) — second half of the file; [c14_run] / [c14_agree] /
   [c14_holds] at the end dispatch on fn. *)

From Gogu Require Import Base C14_Model C14_ModelNaN.
Local Open Scope Z_scope.

(* ---------- callback families (mirrored in harness/c14.go) ---------- *)

Definition vpred (c a : Z) : Z -> bool :=
  match c with
  | 0 => fun _ => true
  | 1 => fun _ => false
  | 2 => fun x => Z.rem x 2 =? 0
  | 3 => fun x => x <? a
  | 4 => fun x => x =? a
  | _ => fun x => a <? x
  end.

Definition kvpred (c a : Z) : Z -> Z -> bool :=
  match c with
  | 0 => fun _ _ => true
  | 1 => fun _ _ => false
  | 2 => fun k _ => k <? a
  | 3 => fun _ v => v =? a
  | 4 => fun k v => Z.rem (k + v) 2 =? 0
  | _ => fun k _ => k =? a
  end.

(* Go's int is 64 bits wide: the callbacks that do arithmetic wrap (the harness
   sends keys and values up to the limits of int64).  The helpers themselves
   only copy and compare keys and values.  The parity tests (kvpred 4, mpred 5)
   are unaffected by wrap-around: 2^64 is even. *)
Definition wrap64 (z : Z) : Z := (z + 2 ^ 63) mod 2 ^ 64 - 2 ^ 63.

Definition vfun (c : Z) : Z -> Z :=
  match c with
  | 0 => fun v => v
  | 1 => fun v => wrap64 (v * 2)
  | 2 => fun _ => 7
  | 3 => fun v => wrap64 (- v)
  | _ => fun v => Z.rem v 2
  end.

Definition kfun (c : Z) : Z -> Z -> Z :=
  match c with
  | 0 => fun k _ => k
  | 1 => fun k _ => Z.rem k 2
  | 2 => fun _ _ => 0
  | 3 => fun k v => wrap64 (k + v)
  | 4 => fun _ v => v
  | _ => fun k _ => wrap64 (k + 10)
  end.

Definition zsum (l : list Z) : Z := fold_left Z.add l 0.

(* predicates on whole maps: functions of the contents, not of the order *)
Definition mpred (c a : Z) : amap -> bool :=
  match c with
  | 0 => fun _ => true
  | 1 => fun _ => false
  | 2 => fun m => (2 <=? Z.of_nat (length m))
  | 3 => fun m => match lookup m a with Some _ => true | None => false end
  | 4 => fun m => existsb (fun kv => snd kv =? a) m
  | _ => fun m => Z.rem (zsum (map snd m)) 2 =? 0
  end.

(* ---------- canonical forms ---------- *)

Fixpoint pairs_of (l : list Z) : amap :=
  match l with
  | k :: v :: l' => (k, v) :: pairs_of l'
  | _ => []
  end.

Fixpoint insert_kv {V} (x : Z * V) (l : amapV V) : amapV V :=
  match l with
  | [] => [x]
  | y :: l' => if fst x <=? fst y then x :: l else y :: insert_kv x l'
  end.
Definition sort_kv {V} (l : amapV V) : amapV V := fold_right insert_kv [] l.

Definition flat (m : amap) : list Z := flat_map (fun kv => [fst kv; snd kv]) m.
Definition enc_map (m : amap) : list Z := enc_zs (flat (sort_kv m)).
Definition enc_maps (ms : list amap) : list Z := enc_zss (map (fun m => flat (sort_kv m)) ms).
Definition enc_map2 (item : amapV amap) : list Z :=
  Z.of_nat (length item) :: flat_map (fun e => fst e :: enc_map (snd e)) (sort_kv item).
Definition enc_coll2 (coll : list (amapV amap)) : list Z :=
  Z.of_nat (length coll) :: flat_map enc_map2 coll.
Definition enc_rmap (r : res amap) : list Z :=
  match r with Ok m => 0 :: enc_map m | Err _ => [1; 1] | Panic => [2] end.

(* ---------- decoded input ---------- *)

Record inp := mkInp {
  i_fn : Z; i_c : Z; i_a : Z;
  i_m : amap;                    (* the map argument *)
  i_zs : list Z;                 (* key list / first slice *)
  i_zs2 : list Z;                (* second slice *)
  i_ms : list amap;              (* list-of-maps argument *)
  i_coll : list (amapV amap)     (* two-dimensional collection *)
}.

Definition rd_map : reader amap := fun w =>
  match rd_zs w with Some (l, w') => Some (pairs_of l, w') | None => None end.
Definition rd_maps : reader (list amap) := fun w =>
  match rd_zss w with Some (ll, w') => Some (map pairs_of ll, w') | None => None end.
Definition rd_entry2 : reader (Z * amap) := fun w =>
  match w with
  | k :: w' => match rd_map w' with Some (m, w'') => Some ((k, m), w'') | None => None end
  | [] => None
  end.
Definition rd_item2 : reader (amapV amap) := fun w =>
  match rd_len w with Some (n, w') => rd_n rd_entry2 n w' | None => None end.
Definition rd_coll2 : reader (list (amapV amap)) := fun w =>
  match rd_len w with Some (n, w') => rd_n rd_item2 n w' | None => None end.

(* 24-26: MapUnique / Invert / MapContains instantiated at float64 values (the
   harness passes v/4 for the wire value v — exact — and multiplies results by
   4; no NaN): the same model functions *)
Definition base_fn (fn : Z) : Z :=
  match fn with 24 => 15 | 25 => 10 | 26 => 18 | _ => fn end.

Definition decode (w : list Z) : option inp :=
  match w with
  | fn0 :: a =>
      let fn := base_fn fn0 in
      let base := mkInp fn 0 0 [] [] [] [] [] in
      let only_m :=
          match rd_map a with Some (m, []) => Some (mkInp fn 0 0 m [] [] [] []) | _ => None end in
      let m_zs :=
          match rd_map a with
          | Some (m, a') => match rd_zs a' with Some (ks, []) => Some (mkInp fn 0 0 m ks [] [] []) | _ => None end
          | None => None end in
      let ca_m :=
          match a with
          | c :: x :: a' => match rd_map a' with Some (m, []) => Some (mkInp fn c x m [] [] [] []) | _ => None end
          | _ => None end in
      let c_m :=
          match a with
          | c :: a' => match rd_map a' with Some (m, []) => Some (mkInp fn c 0 m [] [] [] []) | _ => None end
          | _ => None end in
      let ca_ms :=
          match a with
          | c :: x :: a' => match rd_maps a' with Some (ms, []) => Some (mkInp fn c x [] [] [] ms []) | _ => None end
          | _ => None end in
      match fn with
      | 1 | 2 | 10 | 15 => only_m
      | 3 | 6 => m_zs
      | 4 | 5 | 7 | 11 | 12 | 13 | 16 | 17 => ca_m
      | 8 | 9 | 23 => c_m
      | 18 => match a with
              | v :: a' => match rd_map a' with Some (m, []) => Some (mkInp fn 0 v m [] [] [] []) | _ => None end
              | _ => None end
      | 14 => match a with
              | key :: a' => match rd_maps a' with Some (ms, []) => Some (mkInp fn 0 key [] [] [] ms []) | _ => None end
              | _ => None end
      | 19 => match rd_zs a with
              | Some (s1, a') => match rd_zs a' with Some (s2, []) => Some (mkInp fn 0 0 [] s1 s2 [] []) | _ => None end
              | None => None end
      | 20 | 22 => ca_ms
      | 21 => match a with
              | c :: x :: a' => match rd_coll2 a' with Some (coll, []) => Some (mkInp fn c x [] [] [] [] coll) | _ => None end
              | _ => None end
      | _ => None
      end
  | [] => None
  end.

(* ---------- the model on one iteration order ---------- *)

Definition run_one (i : inp) : list Z :=
  let m := i_m i in let c := i_c i in let a := i_a i in
  match i_fn i with
  | 1 => enc_zs (sort_z (keys_go m))
  | 2 => enc_zs (sort_z (values_go m))
  | 3 => enc_rmap (pick m (i_zs i))
  | 4 => enc_map (pick_by (kvpred c a) m)
  | 5 => enc_map (filter_map (vpred c a) m)
  | 6 => enc_map (omit m (i_zs i))
  | 7 => enc_map (omit_by (kvpred c a) m)
  | 8 => enc_map (map_values (vfun c) m)
  | 9 => enc_map (map_keys (kfun c) m)
  | 10 => enc_map (invert m)
  | 11 => enc_map (find_go (vpred c a) m)
  | 12 => [find_key (vpred c a) m]
  | 13 => enc_map (find_by_key (vpred c a) m)
  | 14 => enc_zs (pluck (i_ms i) a)
  | 15 => enc_map (map_unique m)
  | 16 => enc_bool (map_every (vpred c a) m)
  | 17 => enc_bool (map_some (vpred c a) m)
  | 18 => enc_bool (map_contains m a)
  | 19 => enc_rmap (slice_to_map (i_zs i) (i_zs2 i))
  | 20 => enc_maps (filter_map_collection (vpred c a) (i_ms i))
  | 21 => enc_coll2 (filter_2d_map_collection (mpred c a) (i_coll i))
  | 22 => let r := partition_map (mpred c a) (i_ms i) in enc_maps (fst r) ++ enc_maps (snd r)
  | 23 => enc_zs (sort_z (map_collection (vfun c) m))
  | _ => wire_error
  end.

Definition c14_run_base (w : list Z) : list Z :=
  match decode w with
  | Some i => enc_zss [run_one i]
  | None => wire_error
  end.

(* ---------- all iteration orders of a small map ---------- *)

Fixpoint insert_all {A} (x : A) (l : list A) : list (list A) :=
  match l with
  | [] => [[x]]
  | y :: l' => (x :: l) :: map (cons y) (insert_all x l')
  end.
Fixpoint perms {A} (l : list A) : list (list A) :=
  match l with
  | [] => [[]]
  | x :: l' => flat_map (insert_all x) (perms l')
  end.

Definition with_m (i : inp) (m : amap) : inp :=
  mkInp (i_fn i) (i_c i) (i_a i) m (i_zs i) (i_zs2 i) (i_ms i) (i_coll i).

(* helpers whose outcome depends on the iteration order *)
Definition open_choice (fn : Z) : bool :=
  match fn with 9 | 10 | 12 | 13 | 15 => true | _ => false end.

(* ---------- the property on one outcome ---------- *)

Definition mem_z (x : Z) (l : list Z) : bool := existsb (Z.eqb x) l.
Fixpoint nodup_z (l : list Z) : bool :=
  match l with [] => true | x :: l' => negb (mem_z x l') && nodup_z l' end.
Definition mem_kv (kv : Z * Z) (m : amap) : bool :=
  existsb (fun e => (fst e =? fst kv) && (snd e =? snd kv)) m.

(* SliceToMap reference: scanning from the back, the first time a key is met decides *)
Fixpoint first_occ (seen : list Z) (c : amap) : amap :=
  match c with
  | [] => []
  | (k, v) :: c' => if mem_z k seen then first_occ seen c' else (k, v) :: first_occ (k :: seen) c'
  end.

Definition out_map (o : list Z) : option amap :=
  match rd_zs o with
  | Some (l, []) => if Nat.even (length l) then Some (pairs_of l) else None
  | _ => None
  end.

Definition holds_one (i : inp) (o : list Z) : bool :=
  let m := i_m i in let c := i_c i in let a := i_a i in
  let is (expected : list Z) := zlist_eqb o expected in
  match i_fn i with
  | 1 => is (enc_zs (sort_z (map fst m)))
  | 2 => is (enc_zs (sort_z (map snd m)))
  | 3 => match i_zs i with
         | [] => is [1; 1]
         | ks => is (0 :: enc_map (filter (key_in ks) m))
         end
  | 4 => is (enc_map (filter (kv_ok (kvpred c a)) m))
  | 5 => is (enc_map (filter (val_ok (vpred c a)) m))
  | 6 => is (enc_map (filter (fun kv => negb (key_in (i_zs i) kv)) m))
  | 7 => is (enc_map (filter (fun kv => negb (kv_ok (kvpred c a) kv)) m))
  | 8 => is (enc_map (map (fun kv => (fst kv, vfun c (snd kv))) m))
  | 9 => (* MapKeys: every result entry comes from an entry with that image and
            value; every image is a result key; keys distinct *)
      match out_map o with
      | Some r =>
          let img := map (fun kv => (kfun c (fst kv) (snd kv), snd kv)) m in   (* (image key, value), computed once *)
          nodup_z (map fst r)
          && forallb (fun rv => mem_kv rv img) r
          && forallb (fun iv => mem_z (fst iv) (map fst r)) img
      | None => false
      end
  | 10 => (* Invert: every value maps back to a key that held it *)
      match out_map o with
      | Some r =>
          nodup_z (map fst r)
          && forallb (fun vk => mem_kv (snd vk, fst vk) m) r
          && forallb (fun kv => mem_z (snd kv) (map fst r)) m
      | None => false
      end
  | 11 => (* Find: the qualifying entry with the smallest key *)
      is (enc_map (match filter (val_ok (vpred c a)) (sort_kv m) with [] => [] | kv :: _ => [kv] end))
  | 12 => (* FindKey: some qualifying key; the zero value when there is none *)
      match o with
      | [k] => if existsb (val_ok (vpred c a)) m
               then existsb (fun kv => (fst kv =? k) && vpred c a (snd kv)) m
               else k =? 0
      | _ => false
      end
  | 13 => (* FindByKey: one entry whose key qualifies; empty when there is none *)
      match out_map o with
      | Some [] => negb (existsb (fun kv => vpred c a (fst kv)) m)
      | Some [kv] => mem_kv kv m && vpred c a (fst kv)
      | _ => false
      end
  | 14 => is (enc_zs (spec_pluck (i_ms i) a))
  | 15 => (* MapUnique: a sub-map with one entry per distinct value *)
      match out_map o with
      | Some r =>
          nodup_z (map fst r) && nodup_z (map snd r)
          && forallb (fun kv => mem_kv kv m) r
          && forallb (fun kv => mem_z (snd kv) (map snd r)) m
      | None => false
      end
  | 16 => is (enc_bool (forallb (vpred c a) (map snd m)))
  | 17 => is (enc_bool (existsb (vpred c a) (map snd m)))
  | 18 => is (enc_bool (mem_z a (map snd m)))
  | 19 => if Nat.eqb (length (i_zs i)) (length (i_zs2 i))
          then is (0 :: enc_map (first_occ [] (rev (combine (i_zs i) (i_zs2 i)))))
          else is [2]
  | 20 => is (enc_maps (spec_filter_collection (vpred c a) (i_ms i)))
  | 21 => is (enc_coll2 (spec_filter_collection (mpred c a) (i_coll i)))
  | 22 => let r := spec_partition_map (mpred c a) (i_ms i) in is (enc_maps (fst r) ++ enc_maps (snd r))
  | 23 => is (enc_zs (sort_z (map (fun kv => vfun c (snd kv)) m)))
  | _ => false
  end.

Definition outcomes (obs : list Z) : option (list (list Z)) :=
  match rd_zss obs with
  | Some (o :: os, []) => Some (o :: os)
  | _ => None
  end.

Definition c14_holds_base (w obs : list Z) : bool :=
  match decode w, outcomes obs with
  | Some i, Some os => forallb (holds_one i) os
  | _, _ => false
  end.

Definition agree_one (i : inp) (o : list Z) : bool :=
  if (length (i_m i) <=? 5)%nat
  then existsb (fun m' => zlist_eqb o (run_one (with_m i m'))) (perms (i_m i))
  else if open_choice (i_fn i) then holds_one i o
  else zlist_eqb o (run_one i).

Definition c14_agree_base (w obs : list Z) : bool :=
  match decode w, outcomes obs with
  | Some i, Some os => forallb (agree_one i) os
  | _, _ => false
  end.

(* ================================================================== *)
(* The `nan` stream: the helpers at map[float64]float64 (C14_ModelNaN.v).

   fn = 100 + the code of the helper above; same argument shapes.  Every key,
   value, probe and predicate argument on the wire is the CODE of a float: the
   integer itself, or [nan_code] for NaN (the harness only sends small integers,
   so no arithmetic callback can produce the code by accident).  Result maps are
   canonicalised by sorting their entries (k v) lexicographically by code — a map
   may hold several entries under NaN, with equal or different values.
   callback families: as above on floats (every comparison with NaN is false,
   arithmetic propagates NaN, x%2 is math.Mod(x, 2)), plus
     key/value predicates 6: k != k, 7: v != v;  key functions 6: const NaN. *)

Definition nan_code : Z := -999999999.
Definition fl_of_z (c : Z) : fl := if c =? nan_code then NaN else Num c.
Definition z_of_fl (x : fl) : Z := match x with Num z => z | NaN => nan_code end.
(* the same float (NaN is the same as NaN): used by the checker only *)
Definition fl_same (a b : fl) : bool := z_of_fl a =? z_of_fl b.

Definition fl_map1 (f : Z -> Z) (x : fl) : fl := match x with Num z => Num (f z) | NaN => NaN end.
Definition fl_map2 (f : Z -> Z -> Z) (x y : fl) : fl :=
  match x, y with Num a, Num b => Num (f a b) | _, _ => NaN end.
Definition fl_even (x : fl) : bool := match x with Num z => Z.rem z 2 =? 0 | NaN => false end.

Definition nvpred (c : Z) (a : fl) : fl -> bool :=
  match c with
  | 0 => fun _ => true
  | 1 => fun _ => false
  | 2 => fl_even
  | 3 => fun x => fl_ltb x a
  | 4 => fun x => fl_eqb x a
  | _ => fun x => fl_ltb a x
  end.
Definition nkvpred (c : Z) (a : fl) : fl -> fl -> bool :=
  match c with
  | 0 => fun _ _ => true
  | 1 => fun _ _ => false
  | 2 => fun k _ => fl_ltb k a
  | 3 => fun _ v => fl_eqb v a
  | 4 => fun k v => fl_even (fl_map2 Z.add k v)
  | 5 => fun k _ => fl_eqb k a
  | 6 => fun k _ => negb (fl_eqb k k)
  | _ => fun _ v => negb (fl_eqb v v)
  end.
Definition nvfun (c : Z) : fl -> fl :=
  match c with
  | 0 => fun v => v
  | 1 => fl_map1 (fun z => z * 2)
  | 2 => fun _ => Num 7
  | 3 => fl_map1 Z.opp
  | _ => fl_map1 (fun z => Z.rem z 2)
  end.
Definition nkfun (c : Z) : fl -> fl -> fl :=
  match c with
  | 0 => fun k _ => k
  | 1 => fun k _ => fl_map1 (fun z => Z.rem z 2) k
  | 2 => fun _ _ => Num 0
  | 3 => fl_map2 Z.add
  | 4 => fun _ v => v
  | 5 => fun k _ => fl_map1 (fun z => z + 10) k
  | _ => fun _ _ => NaN
  end.
Definition fl_sum (l : list fl) : fl := fold_left (fl_map2 Z.add) l (Num 0).
Definition nmpred (c : Z) (a : fl) : fmap -> bool :=
  match c with
  | 0 => fun _ => true
  | 1 => fun _ => false
  | 2 => fun m => (2 <=? Z.of_nat (length m))
  | 3 => fun m => match glookup fl_eqb m a with Some _ => true | None => false end
  | 4 => fun m => existsb (fun kv => fl_eqb (snd kv) a) m
  | _ => fun m => fl_even (fl_sum (map snd m))
  end.

(* ---------- canonical forms ---------- *)

Fixpoint lex_leb (a b : list Z) : bool :=
  match a, b with
  | [], _ => true
  | _ :: _, [] => false
  | x :: a', y :: b' => if x <? y then true else if y <? x then false else lex_leb a' b'
  end.
Fixpoint insert_zl (x : list Z) (l : list (list Z)) : list (list Z) :=
  match l with
  | [] => [x]
  | y :: l' => if lex_leb x y then x :: l else y :: insert_zl x l'
  end.
Definition sort_zl (l : list (list Z)) : list (list Z) := fold_right insert_zl [] l.

Definition nflat (m : fmap) : list Z :=
  concat (sort_zl (map (fun kv => [z_of_fl (fst kv); z_of_fl (snd kv)]) m)).
Definition nenc_map (m : fmap) : list Z := enc_zs (nflat m).
Definition nenc_maps (ms : list fmap) : list Z := enc_zss (map nflat ms).
Definition nenc_fls (l : list fl) : list Z := enc_zs (map z_of_fl l).
Definition nenc_sorted (l : list fl) : list Z := enc_zs (sort_z (map z_of_fl l)).
Definition nenc_map2 (item : list (fl * fmap)) : list Z :=
  Z.of_nat (length item) :: concat (sort_zl (map (fun e => z_of_fl (fst e) :: nenc_map (snd e)) item)).
Definition nenc_coll2 (coll : list (list (fl * fmap))) : list Z :=
  Z.of_nat (length coll) :: flat_map nenc_map2 coll.
Definition nenc_rmap (r : res fmap) : list Z :=
  match r with Ok m => 0 :: nenc_map m | Err _ => [1; 1] | Panic => [2] end.

(* ---------- decoded input ---------- *)

Record ninp := mkNinp {
  n_fn : Z; n_c : Z; n_a : fl;
  n_m : fmap;
  n_zs : list fl;
  n_zs2 : list fl;
  n_ms : list fmap;
  n_coll : list (list (fl * fmap))
}.

Definition fpairs (l : list Z) : fmap := map (fun kv => (fl_of_z (fst kv), fl_of_z (snd kv))) (pairs_of l).
Definition fls (l : list Z) : list fl := map fl_of_z l.
Definition item2_of (item : amapV amap) : list (fl * fmap) :=
  map (fun e => (fl_of_z (fst e), map (fun kv => (fl_of_z (fst kv), fl_of_z (snd kv))) (snd e))) item.

(* the argument shapes are those of the base helpers: decode with [decode] at fn - 100 *)
Definition ndecode (w : list Z) : option ninp :=
  match w with
  | fn :: a =>
      if (101 <=? fn) && (fn <=? 123) then
        match decode ((fn - 100) :: a) with
        | Some i => Some (mkNinp fn (i_c i) (fl_of_z (i_a i))
                                 (map (fun kv => (fl_of_z (fst kv), fl_of_z (snd kv))) (i_m i))
                                 (fls (i_zs i)) (fls (i_zs2 i))
                                 (map (fun m => map (fun kv => (fl_of_z (fst kv), fl_of_z (snd kv))) m) (i_ms i))
                                 (map item2_of (i_coll i)))
        | None => None
        end
      else None
  | [] => None
  end.

(* ---------- the model on one iteration order ---------- *)

Definition nrun_one (i : ninp) : list Z :=
  let m := n_m i in let c := n_c i in let a := n_a i in
  match n_fn i with
  | 101 => nenc_sorted (gkeys fl_zero m)
  | 102 => nenc_sorted (gvalues fl_zero m)
  | 103 => nenc_rmap (gpick fl_eqb fl_zero m (n_zs i))
  | 104 => nenc_map (gpick_by fl_eqb (nkvpred c a) m)
  | 105 => nenc_map (gfilter_map fl_eqb (nvpred c a) m)
  | 106 => nenc_map (gomit fl_eqb m (n_zs i))
  | 107 => nenc_map (gomit_by_asfound fl_eqb (nkvpred c a) m)      (* OmitBy as it is in /repo: KF-C14-omitby-nan *)
  | 108 => nenc_map (gmap_values fl_eqb (nvfun c) m)
  | 109 => nenc_map (gmap_keys fl_eqb (nkfun c) m)
  | 110 => nenc_map (ginvert fl_eqb m)
  | 111 => nenc_map (ffind (nvpred c a) m)
  | 112 => [z_of_fl (gfind_key fl_zero (nvpred c a) m)]
  | 113 => nenc_map (gfind_by_key fl_eqb (nvpred c a) m)
  | 114 => nenc_fls (gpluck fl_eqb fl_zero (n_ms i) a)
  | 115 => nenc_map (gmap_unique fl_eqb fl_eqb m)
  | 116 => enc_bool (gmap_every (nvpred c a) m)
  | 117 => enc_bool (gmap_some (nvpred c a) m)
  | 118 => enc_bool (gmap_contains fl_eqb m a)
  | 119 => nenc_rmap (gslice_to_map fl_eqb (n_zs i) (n_zs2 i))
  | 120 => nenc_maps (gfilter_collection (nvpred c a) (n_ms i))
  | 121 => nenc_coll2 (gfilter_collection (nmpred c a) (n_coll i))
  | 122 => let r := gpartition_map (nmpred c a) (n_ms i) in nenc_maps (fst r) ++ nenc_maps (snd r)
  | 123 => nenc_sorted (gmap_collection fl_zero (nvfun c) m)
  | _ => wire_error
  end.

Definition nwith_m (i : ninp) (m : fmap) : ninp :=
  mkNinp (n_fn i) (n_c i) (n_a i) m (n_zs i) (n_zs2 i) (n_ms i) (n_coll i).

Definition nopen_choice (fn : Z) : bool :=
  match fn with 109 | 110 | 111 | 112 | 113 | 115 => true | _ => false end.

(* ---------- the property on one outcome ---------- *)

Definition nout_map (o : list Z) : option fmap :=
  match out_map o with Some r => Some (map (fun kv => (fl_of_z (fst kv), fl_of_z (snd kv))) r) | None => None end.

Definition ordk (kv : fl * fl) : bool := fl_eqb (fst kv) (fst kv).
Definition ordv (kv : fl * fl) : bool := fl_eqb (snd kv) (snd kv).
Definition nmem_kv (kv : fl * fl) (m : fmap) : bool :=
  existsb (fun e => fl_same (fst e) (fst kv) && fl_same (snd e) (snd kv)) m.
(* the same multiset of entries *)
Definition same_entries (a b : fmap) : bool := zlist_eqb (nflat a) (nflat b).
(* a map built by assignments [img] (in some order): keys pairwise unequal, every
   entry is one of the assignments, every ordinary key assigned is there, and
   the entries under NaN are exactly the assignments under NaN *)
Definition assigned_ok (img r : fmap) : bool :=
  nodup_z (map (fun kv => z_of_fl (fst kv)) (filter ordk r))
  && forallb (fun rv => nmem_kv rv img) r
  && forallb (fun iv => existsb (fun rv => fl_eqb (fst rv) (fst iv)) r) (filter ordk img)
  && same_entries (filter (fun kv => negb (ordk kv)) r) (filter (fun kv => negb (ordk kv)) img).

Fixpoint min_key (best : fl * fl) (l : fmap) : fl * fl :=
  match l with
  | [] => best
  | kv :: l' => min_key (if fl_ltb (fst kv) (fst best) then kv else best) l'
  end.

Definition nholds_one (i : ninp) (o : list Z) : bool :=
  let m := n_m i in let c := n_c i in let a := n_a i in
  let is (expected : list Z) := zlist_eqb o expected in
  match n_fn i with
  | 101 => is (nenc_sorted (map fst m))
  | 102 => is (nenc_sorted (map snd m))
  | 103 => match n_zs i with
           | [] => is [1; 1]
           | ks => is (0 :: nenc_map (filter (gkey_in fl_eqb ks) m))
           end
  | 104 => is (nenc_map (filter (gkv_ok (nkvpred c a)) m))
  | 105 => is (nenc_map (filter (gval_ok (nvpred c a)) m))
  | 106 => is (nenc_map (filter (fun kv => negb (gkey_in fl_eqb (n_zs i) kv)) m))
  | 107 => is (nenc_map (filter (fun kv => negb (gkv_ok (nkvpred c a) kv)) m))
  | 108 => is (nenc_map (map (fun kv => (fst kv, nvfun c (snd kv))) m))
  | 109 => match nout_map o with
           | Some r => assigned_ok (map (fun kv => (nkfun c (fst kv) (snd kv), snd kv)) m) r
           | None => false
           end
  | 110 => match nout_map o with
           | Some r => assigned_ok (map (fun kv => (snd kv, fst kv)) m) r
           | None => false
           end
  | 111 => (* Find: the qualifying entry with the smallest ordered key; under NaN only when no ordered key qualifies *)
      let q := filter (gval_ok (nvpred c a)) m in
      match filter ordk q with
      | kv :: q' => is (nenc_map [min_key kv q'])
      | [] => match q with
              | [] => is (nenc_map [])
              | _ => match nout_map o with Some [kv] => nmem_kv kv q | _ => false end
              end
      end
  | 112 => match o with
           | [k] => if existsb (gval_ok (nvpred c a)) m
                    then existsb (fun kv => fl_same (fst kv) (fl_of_z k) && nvpred c a (snd kv)) m
                    else k =? 0
           | _ => false
           end
  | 113 => match nout_map o with
           | Some [] => negb (existsb (fun kv => nvpred c a (fst kv)) m)
           | Some [kv] => nmem_kv kv m && nvpred c a (fst kv)
           | _ => false
           end
  | 114 => is (nenc_fls (gspec_pluck fl_eqb (n_ms i) a))
  | 115 => (* MapUnique: entries of m; kept values pairwise unequal; every ordinary value kept;
              the entries with a NaN value are exactly those of m *)
      match nout_map o with
      | Some r =>
          nodup_z (map (fun kv => z_of_fl (fst kv)) (filter ordk r))
          && nodup_z (map (fun kv => z_of_fl (snd kv)) (filter ordv r))
          && forallb (fun kv => nmem_kv kv m) r
          && forallb (fun kv => existsb (fun rv => fl_eqb (snd rv) (snd kv)) r) (filter ordv m)
          && same_entries (filter (fun kv => negb (ordv kv)) r) (filter (fun kv => negb (ordv kv)) m)
      | None => false
      end
  | 116 => is (enc_bool (forallb (nvpred c a) (map snd m)))
  | 117 => is (enc_bool (existsb (nvpred c a) (map snd m)))
  | 118 => is (enc_bool (existsb (fun v => fl_eqb v a) (map snd m)))
  | 119 => if Nat.eqb (length (n_zs i)) (length (n_zs2 i))
           then is (0 :: nenc_map (keep_last fl_eqb (combine (n_zs i) (n_zs2 i))))
           else is [2]
  | 120 => is (nenc_maps (gspec_filter_collection (nvpred c a) (n_ms i)))
  | 121 => is (nenc_coll2 (gspec_filter_collection (nmpred c a) (n_coll i)))
  | 122 => let r := gspec_partition_map (nmpred c a) (n_ms i) in is (nenc_maps (fst r) ++ nenc_maps (snd r))
  | 123 => is (nenc_sorted (map (fun kv => nvfun c (snd kv)) m))
  | _ => false
  end.

Definition nagree_one (i : ninp) (o : list Z) : bool :=
  if (length (n_m i) <=? 5)%nat
  then existsb (fun m' => zlist_eqb o (nrun_one (nwith_m i m'))) (perms (n_m i))
  else if nopen_choice (n_fn i) then nholds_one i o
  else zlist_eqb o (nrun_one i).

Definition is_nan_fn (w : list Z) : bool := match w with fn :: _ => 100 <? fn | [] => false end.

Definition c14_run (w : list Z) : list Z :=
  if is_nan_fn w then match ndecode w with Some i => enc_zss [nrun_one i] | None => wire_error end
  else c14_run_base w.

Definition c14_holds (w obs : list Z) : bool :=
  if is_nan_fn w
  then match ndecode w, outcomes obs with
       | Some i, Some os => forallb (nholds_one i) os
       | _, _ => false
       end
  else c14_holds_base w obs.

Definition c14_agree (w obs : list Z) : bool :=
  if is_nan_fn w
  then match ndecode w, outcomes obs with
       | Some i, Some os => forallb (nagree_one i) os
       | _, _ => false
       end
  else c14_agree_base w obs.
