(* C15_Model.v — string helpers of /repo/string.go (with math.go: Abs, InRange),
   transcribed statement by statement AFTER the repairs of
   fixes/builder-c15/ (ToUpper maps with unicode.ToUpper; SplitAtIndex slices at
   the byte index; Unwrap only strips a token that both starts and ends the
   string, with room for both) and of fixes/deepen-c15/ (/repo 6d6c881: Substr
   clips the selection at the end of the string before adding offset and
   length).

   Strings are [list Z] of bytes.  Go [int] is [Z]; the one function that does
   arithmetic on two caller-supplied ints, Substr, has the 64-bit wrap-around
   of every + and - written in ([substr_go]); everywhere else the code only
   compares ints or subtracts a length from a larger int, which cannot wrap.  A slice expression
   [s[lo:hi]] is [slice], which answers [Panic] exactly when Go panics, so that
   "never panics" is a theorem and not a convention.  Runes go through Utf8.v.

   What is NOT verified but modelled (agreement with Go is checked by the
   correspondence on every run):
     - unicode.ToLower/ToUpper: Section variables [to_lower]/[to_upper]; for
       execution the hand table [tbl_lower]/[tbl_upper] (exact on U+0000..U+00FF,
       on the cased runes of [tbl_extra] and on every rune without case mapping);
     - strings.TrimSpace, Split(_, " "), Repeat, Index, LastIndex: the small
       functions below;
     - regexp "[-_&]+" with ReplaceAllString(_, " ") and regexp "[a-zö][A-ZÖ]+"
       with FindAllStringIndex(_, -1): the hand scanners [replace_seps] and
       [find_all_lu] (leftmost, greedy, non-overlapping).
   No proofs in this file. *)

From Gogu Require Import Base Utf8.
Local Open Scope Z_scope.

(* ---------- plumbing ---------- *)

Definition blen (s : list Z) : Z := Z.of_nat (length s).

Definition bind {A B} (r : res A) (f : A -> res B) : res B :=
  match r with Ok a => f a | Err k => Err k | Panic => Panic end.
Notation "x <- r ;; k" := (bind r (fun x => k)) (at level 61, r at next level, right associativity).

(* s[lo:hi] — panics unless 0 <= lo <= hi <= len(s) *)
Definition slice (s : list Z) (lo hi : Z) : res (list Z) :=
  if (0 <=? lo) && (lo <=? hi) && (hi <=? blen s)
  then Ok (firstn (Z.to_nat (hi - lo)) (skipn (Z.to_nat lo) s))
  else Panic.

(* ---------- math.go ---------- *)

Definition abs_go (x : Z) : Z := if x <? 0 then - x else x.
Definition in_range (num lo up : Z) : bool := (lo <=? num) && (num <=? up).

(* ---------- Substr (string.go:27-55) ---------- *)

(* [substr]: the statements of Substr in unbounded integer arithmetic.  This is
   what the code computes whenever no intermediate value leaves the range of a
   64-bit int — in particular for the calls splitStringWithDelimiter makes
   (C15_Proofs.substr_go_internal).  The exported function on arbitrary Go ints
   is [substr_go] below, with the wrap-around of [+], [-] and unary [-] written in. *)
Definition substr (str : list Z) (offset length : Z) : res (list Z) :=
  let n := blen str in
  (* if offset < 0 { offset = len(str) + offset; if Abs(offset) > len(str) { return "" } } *)
  let offset' := if offset <? 0 then n + offset else offset in
  if (offset <? 0) && (n <? abs_go offset') then Ok []
  else
    (* if length < 0 { newLength := len(str)+length;
                       if Abs(newLength) > len(str) || newLength < offset { return "" }; end = newLength }
       else if length > len(str)-offset { end = len(str) }        (repaired, 6d6c881)
       else { end = offset + length } *)
    let e :=
      if length <? 0 then
        let newLength := n + length in
        if (n <? abs_go newLength) || (newLength <? offset') then None else Some newLength
      else if n - offset' <? length then Some n
      else Some (offset' + length) in
    match e with
    | None => Ok []
    | Some e0 =>
        (* if !InRange(offset, 0, len(str)) || !InRange(end, 0, len(str)) { return "" } *)
        if negb (in_range offset' 0 n) || negb (in_range e0 0 n) then Ok []
        else slice str offset' e0
    end.

(* Go's int is 64 bits: [+], [-] and unary [-] wrap around *)
Definition maxint : Z := 9223372036854775807.      (* math.MaxInt *)
Definition minint : Z := -9223372036854775808.     (* math.MinInt *)
Definition int64 (x : Z) : Prop := minint <= x <= maxint.
Definition wrap64 (x : Z) : Z := (x + 9223372036854775808) mod 18446744073709551616 - 9223372036854775808.
(* Abs: if x < 0 { return -x }  — Abs(MinInt) = MinInt *)
Definition abs_go64 (x : Z) : Z := if x <? 0 then wrap64 (- x) else x.

(* Substr on Go ints: the same statements, every [+] and [-] through [wrap64].
   [len(str)-offset] can leave the range only for an offset that is negative
   after normalisation (then the range check at the end answers ""); in the last
   branch length <= len(str)-offset, so [offset+length] cannot. *)
Definition substr_go (str : list Z) (offset length : Z) : res (list Z) :=
  let n := blen str in
  let offset' := if offset <? 0 then wrap64 (n + offset) else offset in
  if (offset <? 0) && (n <? abs_go64 offset') then Ok []
  else
    let e :=
      if length <? 0 then
        let newLength := wrap64 (n + length) in
        if (n <? abs_go64 newLength) || (newLength <? offset') then None else Some newLength
      else if wrap64 (n - offset') <? length then Some n
      else Some (wrap64 (offset' + length)) in
    match e with
    | None => Ok []
    | Some e0 =>
        if negb (in_range offset' 0 n) || negb (in_range e0 0 n) then Ok []
        else slice str offset' e0
    end.

(* Substr as it was SHIPPED before 6d6c881 ([end = offset + length], then
   [if end > len(str) { end = len(str) }]): kept only for the witnesses
   C15_substr_unrepaired_* — the sum wrapped for lengths near math.MaxInt, [end]
   was negative and the range check answered "" *)
Definition substr_go_unrepaired (str : list Z) (offset length : Z) : res (list Z) :=
  let n := blen str in
  let offset' := if offset <? 0 then wrap64 (n + offset) else offset in
  if (offset <? 0) && (n <? abs_go64 offset') then Ok []
  else
    let e :=
      if length <? 0 then
        let newLength := wrap64 (n + length) in
        if (n <? abs_go64 newLength) || (newLength <? offset') then None else Some newLength
      else Some (wrap64 (offset' + length)) in
    match e with
    | None => Ok []
    | Some e0 =>
        let e1 := if n <? e0 then n else e0 in
        if negb (in_range offset' 0 n) || negb (in_range e1 0 n) then Ok []
        else slice str offset' e1
    end.

(* ---------- strings.* ---------- *)

(* strings.Repeat(token, count), count >= 0 here *)
Definition repeat_str (tok : list Z) (count : Z) : list Z := concat (repeat tok (Z.to_nat count)).

Fixpoint is_prefix (p s : list Z) : bool :=
  match p, s with
  | [], _ => true
  | a :: p', b :: s' => (a =? b) && is_prefix p' s'
  | _ :: _, [] => false
  end.

(* strings.Index: the least byte offset at which tok occurs, -1 if none *)
Fixpoint index_nat (s tok : list Z) : option nat :=
  if is_prefix tok s then Some O
  else match s with
       | [] => None
       | _ :: s' => option_map S (index_nat s' tok)
       end.
Definition index (s tok : list Z) : Z :=
  match index_nat s tok with Some i => Z.of_nat i | None => -1 end.

(* strings.LastIndex: the greatest such offset (len(s) for the empty token), -1 if none *)
Fixpoint last_index_nat (s tok : list Z) : option nat :=
  match s with
  | [] => if is_prefix tok [] then Some O else None
  | _ :: s' =>
      match last_index_nat s' tok with
      | Some i => Some (S i)
      | None => if is_prefix tok s then Some O else None
      end
  end.
Definition last_index (s tok : list Z) : Z :=
  match last_index_nat s tok with Some i => Z.of_nat i | None => -1 end.

(* strings.TrimSpace = TrimFunc(s, unicode.IsSpace): strip White_Space runes at
   both ends.  The White_Space runes and their UTF-8 forms:
     U+0009..U+000D, U+0020                        1 byte
     U+0085 (C2 85), U+00A0 (C2 A0)                2 bytes
     U+1680 (E1 9A 80), U+2000..U+200A (E2 80 80..8A), U+2028/9 (E2 80 A8/A9),
     U+202F (E2 80 AF), U+205F (E2 81 9F), U+3000 (E3 80 80)   3 bytes
   A lead byte C2/E1/E2/E3 is never a continuation byte, so these byte patterns
   occur only at rune starts, both for the forward scan and for
   DecodeLastRuneInString. *)
Definition is_ascii_space (c : Z) : bool := ((9 <=? c) && (c <=? 13)) || (c =? 32).
Definition is_space2 (a b : Z) : bool := (a =? 194) && ((b =? 133) || (b =? 160)).
Definition is_space3 (a b c : Z) : bool :=
  ((a =? 225) && (b =? 154) && (c =? 128))
  || ((a =? 226) && (b =? 128) && (((128 <=? c) && (c <=? 138)) || (c =? 168) || (c =? 169) || (c =? 175)))
  || ((a =? 226) && (b =? 129) && (c =? 159))
  || ((a =? 227) && (b =? 128) && (c =? 128)).

(* width in bytes of a space rune at the head of s (0: none) *)
Definition space_head (s : list Z) : nat :=
  match s with
  | a :: t =>
      if is_ascii_space a then 1%nat
      else match t with
           | b :: t' =>
               if is_space2 a b then 2%nat
               else match t' with
                    | c :: _ => if is_space3 a b c then 3%nat else O
                    | [] => O
                    end
           | [] => O
           end
  | [] => O
  end.
(* the same at the END of the string, given the reversed string *)
Definition space_last (rs : list Z) : nat :=
  match rs with
  | c :: t =>
      if is_ascii_space c then 1%nat
      else match t with
           | b :: t' =>
               if is_space2 b c then 2%nat
               else match t' with
                    | a :: _ => if is_space3 a b c then 3%nat else O
                    | [] => O
                    end
           | [] => O
           end
  | [] => O
  end.
(* drop leading runes recognised by [w]; [skip] = bytes of the current rune
   still to drop (structural recursion, no fuel) *)
Fixpoint trim_aux (w : list Z -> nat) (skip : nat) (s : list Z) : list Z :=
  match s with
  | [] => []
  | _ :: t =>
      match skip with
      | S k => trim_aux w k t
      | O => match w s with
             | O => s
             | S k => trim_aux w k t
             end
      end
  end.
Definition trim_left (s : list Z) : list Z := trim_aux space_head 0 s.
(* [rev'] is the linear-time reversal of the standard library ([rev' l = rev l], List.rev_alt) *)
Definition trim_right (s : list Z) : list Z := rev' (trim_aux space_last 0 (rev' s)).
Definition trim_space (s : list Z) : list Z := trim_right (trim_left s).

(* strings.Split(s, " "): cut at every single space; n spaces give n+1 pieces *)
Fixpoint split_sp (s : list Z) : list (list Z) :=
  match s with
  | [] => [[]]
  | c :: t =>
      if c =? 32 then [] :: split_sp t
      else match split_sp t with
           | h :: r => (c :: h) :: r
           | [] => [[c]]          (* unreachable: split_sp never returns [] *)
           end
  end.

(* ---------- the two regular expressions ---------- *)

(* [-_&] *)
Definition is_sep (c : Z) : bool := (c =? 45) || (c =? 95) || (c =? 38).

(* regexp.MustCompile("[-_&]+").ReplaceAllString(s, " "): every maximal run of
   separator bytes becomes one space.  [in_run]: the previous byte was one. *)
Fixpoint replace_seps (in_run : bool) (s : list Z) : list Z :=
  match s with
  | [] => []
  | c :: t =>
      if is_sep c then (if in_run then replace_seps true t else 32 :: replace_seps true t)
      else c :: replace_seps false t
  end.

(* [a-zö] / [A-ZÖ] at the head of s: width of the rune in bytes, 0 if none.
   ö = C3 B6, Ö = C3 96; the lead byte C3 is never a continuation byte, so the
   byte pattern occurs only at rune starts. *)
Definition lo_tok (s : list Z) : nat :=
  match s with
  | c :: t =>
      if (97 <=? c) && (c <=? 122) then 1%nat
      else if c =? 195 then match t with c2 :: _ => if c2 =? 182 then 2%nat else O | [] => O end
      else O
  | [] => O
  end.
Definition up_tok (s : list Z) : nat :=
  match s with
  | c :: t =>
      if (65 <=? c) && (c <=? 90) then 1%nat
      else if c =? 195 then match t with c2 :: _ => if c2 =? 150 then 2%nat else O | [] => O end
      else O
  | [] => O
  end.

(* number of bytes of the maximal run of [A-ZÖ] runes at the head of s (greedy +) *)
Fixpoint up_run (skip : nat) (s : list Z) : nat :=
  match s with
  | [] => O
  | _ :: t =>
      match skip with
      | S k => up_run k t
      | O => match up_tok s with
             | O => O
             | S k => (S k + up_run k t)%nat
             end
      end
  end.

(* FindAllStringIndex(s, -1) for "[a-zö][A-ZÖ]+": the [start, end) byte offsets
   of the leftmost, greedy, non-overlapping matches.  [pos] = offset of the head
   of s; [skip] = bytes of the last match still to step over. *)
Fixpoint find_all_lu (skip : nat) (pos : Z) (s : list Z) : list (Z * Z) :=
  match s with
  | [] => []
  | _ :: t =>
      match skip with
      | S k => find_all_lu k (pos + 1) t
      | O =>
          match lo_tok s with
          | O => find_all_lu O (pos + 1) t
          | S l =>
              match up_run l t with          (* the run after the l+1 bytes of the first rune *)
              | O => find_all_lu O (pos + 1) t
              | S u => (pos, pos + Z.of_nat (S l) + Z.of_nat (S u)) :: find_all_lu (l + S u) (pos + 1) t
              end
          end
      end
  end.

(* ---------- case mapping (string.go:58-93), over the oracle ---------- *)

Section Oracle.
Variables to_lower to_upper : Z -> Z.       (* unicode.ToLower, unicode.ToUpper *)

(* for _, val := range str { result = append(result, unicode.ToLower(val)) }; T(result) *)
Definition to_lower_str (s : list Z) : list Z := encode (map to_lower (decode s)).
(* repaired: unicode.ToUpper *)
Definition to_upper_str (s : list Z) : list Z := encode (map to_upper (decode s)).
(* for i, val := range str { if i == 0 { upper } else { lower } } — i is the byte offset *)
Definition capitalize (s : list Z) : list Z :=
  encode (map (fun ir => if fst ir =? 0 then to_upper (snd ir) else to_lower (snd ir)) (range_loop s)).

(* ---------- CamelCase (string.go:96-126) ---------- *)

(* the loop over strings.Split(newstr, " "); [i] the index, [idx] the counter of
   empty pieces seen so far *)
Fixpoint camel_loop (i idx : Z) (chunks : list (list Z)) (sb : list Z) : list Z :=
  match chunks with
  | [] => sb
  | s :: rest =>
      if (length (decode s) =? 0)%nat then camel_loop (i + 1) (idx + 1) rest sb
      else if (i =? 0) || (i =? idx) then camel_loop (i + 1) idx rest (sb ++ to_lower_str s)
      else camel_loop (i + 1) idx rest (sb ++ capitalize s)
  end.
Definition camel_case (str : list Z) : list Z :=
  camel_loop 0 0 (split_sp (replace_seps false (trim_space str))) [].

(* ---------- splitStringWithDelimiter (string.go:139-191) ---------- *)

(* for i := 0; i < len(strIdx); i++ { ... } *)
Fixpoint sw_inner (str d : list Z) (idxs : list (Z * Z)) (sb : list Z) : res (list Z) :=
  match idxs with
  | [] => Ok sb
  | (a, _) :: rest =>
      match rest with
      | (b, _) :: _ =>
          (* i < len(strIdx)-1: s = Substr(str, strIdx[i][0]+1, strIdx[i+1][0]-strIdx[i][0]) *)
          s <- substr str (a + 1) (b - a) ;;
          sw_inner str d rest (sb ++ to_lower_str s ++ d)
      | [] =>
          (* s = Substr(str, strIdx[i][0]+1, len(str)-strIdx[i][0]+1) *)
          s <- substr str (a + 1) (blen str - a + 1) ;;
          Ok (sb ++ to_lower_str s)
      end
  end.

(* for i, str := range chars { ... }   (the counter idx is incremented but never read) *)
Fixpoint sw_loop (d : list Z) (nchars i : Z) (chars : list (list Z)) (sb : list Z) : res (list Z) :=
  match chars with
  | [] => Ok sb
  | str :: rest =>
      if (length (decode str) =? 0)%nat then sw_loop d nchars (i + 1) rest sb
      else
        (* if len(chars) > 1 && i != len(chars)-1 { sb.WriteString(delimiter) } *)
        let tail := if (1 <? nchars) && negb (i =? nchars - 1) then d else [] in
        let strIdx := find_all_lu 0 0 str in
        match strIdx with
        | (a0, _) :: _ =>
            s <- substr str 0 (a0 + 1) ;;
            sb1 <- sw_inner str d strIdx (sb ++ to_lower_str s ++ d) ;;
            sw_loop d nchars (i + 1) rest (sb1 ++ tail)
        | [] => sw_loop d nchars (i + 1) rest (sb ++ to_lower_str str ++ tail)
        end
  end.

Definition split_with_delim (str d : list Z) : res (list Z) :=
  let chars := split_sp (replace_seps false (trim_space str)) in
  sw_loop d (Z.of_nat (length chars)) 0 chars [].

Definition snake_case (str : list Z) : res (list Z) := split_with_delim str [95].
Definition kebab_case (str : list Z) : res (list Z) := split_with_delim str [45].

End Oracle.

(* ---------- Pad* (string.go:194-261) ---------- *)

Definition pad_left (str : list Z) (size : Z) (token : list Z) : res (list Z) :=
  let strLen := blen str in
  let tokenLen := blen token in
  if size <=? strLen then Ok str
  else
    let tokenStr := if tokenLen <=? size - strLen then repeat_str token (size - strLen) else token in
    t <- slice tokenStr 0 (size - strLen) ;;
    Ok (t ++ str).

Definition pad_right (str : list Z) (size : Z) (token : list Z) : res (list Z) :=
  let strLen := blen str in
  let tokenLen := blen token in
  if size <=? strLen then Ok str
  else
    let tokenStr := if tokenLen <=? size - strLen then repeat_str token (size - strLen) else token in
    t <- slice tokenStr 0 (size - strLen) ;;
    Ok (str ++ t).

(* split := float64(size-strLen)/2; left := floor(split); right := ceil(split);
   int(split) truncates: for size-strLen > 0 these are d/2, (d+1)/2, d/2 *)
Definition pad (str : list Z) (size : Z) (token : list Z) : res (list Z) :=
  let strLen := blen str in
  let tokenLen := blen token in
  if size <=? strLen then Ok str
  else
    let d := size - strLen in
    let left := d / 2 in
    let right := (d + 1) / 2 in
    let rep := tokenLen <=? d / 2 in
    let leftTokenStr := if rep then repeat_str token left else token in
    let rightTokenStr := if rep then repeat_str token right else token in
    l <- slice leftTokenStr 0 left ;;
    r <- slice rightTokenStr 0 right ;;
    Ok (l ++ str ++ r).

(* ---------- SplitAtIndex (repaired: byte index) ---------- *)

Definition split_at_index (str : list Z) (index : Z) : res (list (list Z)) :=
  if index <? 0 then Ok [[]; str]
  else if blen str - 1 <? index then Ok [str; []]
  else
    a <- slice str 0 (index + 1) ;;
    b <- slice str (index + 1) (blen str) ;;
    Ok [a; b].

(* ---------- Wrap / Unwrap / WrapAllRune / ReverseStr ---------- *)

Definition wrap (str token : list Z) : list Z := token ++ str ++ token.

(* repaired:
     startToken := strings.Index(str, token); endToken := strings.LastIndex(str, token)
     if startToken == 0 && endToken == len(str)-len(token) && endToken >= len(token) {
         str = str[len(token):endToken] } *)
Definition unwrap (str token : list Z) : res (list Z) :=
  let startToken := index str token in
  let endToken := last_index str token in
  if (startToken =? 0) && (endToken =? blen str - blen token) && (blen token <=? endToken)
  then slice str (blen token) endToken
  else Ok str.

(* for _, st := range str { s.WriteString(token); s.WriteRune(st); s.WriteString(token) } *)
Definition wrap_all_rune (str token : list Z) : list Z :=
  concat (map (fun r => token ++ encode_rune r ++ token) (decode str)).

(* res[i], res[j] = res[j], res[i] *)
Definition upd (l : list Z) (i : nat) (v : Z) : list Z := firstn i l ++ v :: skipn (S i) l.
Definition swap (l : list Z) (i j : nat) : list Z :=
  let a := nth i l 0 in
  let b := nth j l 0 in
  upd (upd l i b) j a.
(* for i, j := 0, len(res)-1; i < j; i, j = i+1, j-1 *)
Fixpoint rev_loop (fuel : nat) (i j : Z) (l : list Z) : list Z :=
  match fuel with
  | O => l
  | S f => if i <? j then rev_loop f (i + 1) (j - 1) (swap l (Z.to_nat i) (Z.to_nat j)) else l
  end.
(* fuel: the loop runs len/2 times; len suffices (C15_Proofs.rev_loop_rev) *)
Definition reverse_str (s : list Z) : list Z :=
  let rs := decode s in
  encode (rev_loop (length rs) 0 (blen rs - 1) rs).

(* ---------- the executable instance of the case oracle ---------- *)

(* unicode.ToLower / unicode.ToUpper restricted to where a short rule is exact:
   U+0000..U+00FF by two lines (ASCII, Latin-1 with the exceptions × ÷ ß µ ÿ),
   the listed cased runes above U+00FF (2-, 3- and 4-byte letters, among them
   mappings that change the encoded width: ſ->S, K(Kelvin)->k, İ->i, ı->I,
   Ⱥ<->ⱥ, ẞ->ß; the list is closed under both mappings), and every rune
   without case mapping.  The harness generators stay inside this domain and
   compare the table with package unicode rune by rune (wire functions 20/21). *)
Definition tbl_extra : list (Z * (Z * Z)) :=     (* rune, (unicode.ToLower, unicode.ToUpper) *)
  [ (963, (963, 931)); (931, (963, 931)); (962, (962, 931));          (* σ Σ ς *)
    (383, (383, 83)); (8490, (107, 8490));                            (* ſ  K (Kelvin sign) *)
    (304, (105, 304)); (305, (305, 73));                              (* İ ı *)
    (570, (11365, 570)); (11365, (11365, 570));                       (* Ⱥ ⱥ : 2 <-> 3 bytes *)
    (65313, (65345, 65313)); (65345, (65345, 65313));                 (* fullwidth A a : 3 bytes *)
    (66560, (66600, 66560)); (66600, (66600, 66560));                 (* Deseret : 4 bytes *)
    (924, (956, 924)); (956, (956, 924));                             (* Μ μ (Μ = ToUpper µ) *)
    (376, (255, 376)); (7838, (223, 7838));                           (* Ÿ (= ToUpper ÿ), ẞ *)
    (1046, (1078, 1046)); (1078, (1078, 1046));                       (* Ж ж *)
    (7680, (7681, 7680)); (7681, (7681, 7680)) ].                     (* Ḁ ḁ *)
Fixpoint assoc_z (r : Z) (l : list (Z * (Z * Z))) : option (Z * Z) :=
  match l with
  | [] => None
  | (k, v) :: l' => if r =? k then Some v else assoc_z r l'
  end.
Definition tbl_lower (r : Z) : Z :=
  if r <? 256 then
    (if ((65 <=? r) && (r <=? 90)) || ((192 <=? r) && (r <=? 222) && negb (r =? 215)) then r + 32 else r)
  else match assoc_z r tbl_extra with Some (l, _) => l | None => r end.
Definition tbl_upper (r : Z) : Z :=
  if r <? 256 then
    (if ((97 <=? r) && (r <=? 122)) || ((224 <=? r) && (r <=? 254) && negb (r =? 247)) then r - 32
     else if r =? 181 then 924
     else if r =? 255 then 376
     else r)
  else match assoc_z r tbl_extra with Some (_, u) => u | None => r end.
