(* C15_Proofs.v — lemmas for C15 (Substr, SplitAtIndex, Pad*, Wrap/Unwrap,
   WrapAllRune, ReverseStr, rune-wise case mapping). *)

From Gogu Require Import Base Utf8 C15_Model C15_Spec.
Local Open Scope Z_scope.

(* destruct the integer comparisons of the goal, innermost first *)
Ltac no_if t := lazymatch t with context [if _ then _ else _] => fail | _ => idtac end.
Ltac zb :=
  repeat match goal with
  | |- context [?a =? ?b] => no_if a; no_if b; destruct (Z.eqb_spec a b); try lia
  | |- context [?a <? ?b] => no_if a; no_if b; destruct (Z.ltb_spec a b); try lia
  | |- context [?a <=? ?b] => no_if a; no_if b; destruct (Z.leb_spec a b); try lia
  end.

Lemma blen_slen s : blen s = slen s.
Proof. reflexivity. Qed.

Lemma blen_nonneg s : 0 <= blen s.
Proof. unfold blen. lia. Qed.

(* ---------- Substr ---------- *)

Lemma substr_ok s off len : substr s off len = Ok (substr_ref s off len).
Proof.
  unfold substr, substr_ref, substr_stop, substr_start, slice, abs_go, in_range, byte_range.
  change (slen s) with (blen s). pose proof (blen_nonneg s) as Hn. set (n := blen s) in *.
  destruct (Z.ltb_spec off 0) as [Ho|Ho]; destruct (Z.ltb_spec len 0) as [Hl|Hl]; cbn [andb orb negb].
  all: repeat (progress (zb; cbn [andb orb negb])); try reflexivity.
  all: try (exfalso; lia).
  all: try (do 3 f_equal; lia).
  all: f_equal; match goal with |- [] = firstn (Z.to_nat ?k) _ => replace k with 0 by lia; reflexivity end.
Qed.

Lemma substr_never_panics s off len : substr s off len <> Panic.
Proof. rewrite substr_ok. discriminate. Qed.

(* ---------- Substr on 64-bit ints ---------- *)

Lemma wrap64_id x : int64 x -> wrap64 x = x.
Proof.
  unfold int64, minint, maxint, wrap64. intros H.
  rewrite Z.mod_small by lia. lia.
Qed.

Lemma wrap64_over x : maxint < x <= maxint + maxint + 1 -> wrap64 x = x - 18446744073709551616.
Proof.
  unfold maxint, wrap64. intros H.
  replace (x + 9223372036854775808) with ((x - 9223372036854775808) + 1 * 18446744073709551616) by lia.
  rewrite Z.mod_add by lia. rewrite Z.mod_small by lia. lia.
Qed.

Lemma abs_go64_spec x : int64 x ->
  (x = minint /\ abs_go64 x = minint) \/ (x <> minint /\ abs_go64 x = Z.abs x).
Proof.
  unfold int64, abs_go64. intros H. destruct (Z.eq_dec x minint) as [E|E].
  - left. split; [exact E|]. subst x. vm_compute. reflexivity.
  - right. split; [exact E|]. unfold minint, maxint in *.
    destruct (Z.ltb_spec x 0); [rewrite wrap64_id by (unfold int64, minint, maxint; lia)|]; lia.
Qed.


Lemma wrap64_spec t :
  - 18446744073709551616 <= t < 18446744073709551616 ->
  (minint <= t <= maxint /\ wrap64 t = t) \/ (maxint < t /\ wrap64 t = t - 18446744073709551616)
  \/ (t < minint /\ wrap64 t = t + 18446744073709551616).
Proof.
  intros H. unfold minint, maxint.
  destruct (Z_lt_le_dec t (-9223372036854775808)) as [H1|H1].
  - right. right. split; [exact H1|]. unfold wrap64.
    replace (t + 9223372036854775808) with ((t + 9223372036854775808 + 18446744073709551616) + (-1) * 18446744073709551616) by lia.
    rewrite Z.mod_add by lia. rewrite Z.mod_small by lia. lia.
  - destruct (Z_lt_le_dec 9223372036854775807 t) as [H2|H2].
    + right. left. split; [exact H2|]. apply wrap64_over. unfold maxint. lia.
    + left. split; [lia|]. apply wrap64_id. unfold int64, minint, maxint. lia.
Qed.

Ltac no_wrap t := lazymatch t with context [wrap64 _] => fail | _ => idtac end.
Ltac elim_wrap :=
  repeat match goal with
  | |- context [wrap64 ?t] =>
      no_wrap t;
      let H := fresh "Hw" in let E := fresh "Ew" in
      destruct (wrap64_spec t ltac:(unfold minint, maxint in *; lia)) as [[H E]|[[H E]|[H E]]];
      rewrite E in *; unfold minint, maxint in H; try lia
  end.

(* Substr (repaired) on Go ints, completely: the rule's byte range for EVERY offset and length *)
Lemma substr_go_ok s off len :
  int64 off -> int64 len -> blen s <= maxint ->
  substr_go s off len = Ok (substr_ref s off len).
Proof.
  intros Ho Hl Hn. pose proof (blen_nonneg s) as Hn0.
  unfold substr_go, substr_ref, substr_stop, substr_start, abs_go64, slice, in_range, byte_range.
  change (slen s) with (blen s). set (n := blen s) in *.
  unfold int64, minint, maxint in *.
  destruct (Z.ltb_spec off 0) as [Hoff|Hoff]; destruct (Z.ltb_spec len 0) as [Hlen|Hlen]; cbn [andb orb negb].
  all: try elim_wrap.
  all: repeat (progress (zb; cbn [andb orb negb]; try elim_wrap)); try reflexivity.
  all: try (exfalso; lia).
  all: try (do 3 f_equal; lia).
  all: f_equal; match goal with |- [] = firstn (Z.to_nat ?k) _ => replace k with 0 by lia; reflexivity end.
Qed.

Lemma substr_go_never_panics s off len :
  int64 off -> int64 len -> blen s <= maxint -> substr_go s off len <> Panic.
Proof. intros Ho Hl Hn. rewrite substr_go_ok by assumption. discriminate. Qed.

(* the calls made by splitStringWithDelimiter (offset >= 0, length >= 0,
   offset + length <= len(str) + 2) are ints: there the unbounded arithmetic
   of [substr] is exactly what the 64-bit code computes *)
Lemma substr_go_internal s off len :
  blen s + 2 <= maxint -> 0 <= off -> 0 <= len -> off + len <= blen s + 2 ->
  substr_go s off len = substr s off len.
Proof.
  intros Hn Ho Hl Hs. pose proof (blen_nonneg s).
  rewrite substr_go_ok, substr_ok; try reflexivity; unfold int64, minint, maxint in *; lia.
Qed.

(* ----- the code shipped before /repo 6d6c881 ([substr_go_unrepaired]) ----- *)

Lemma substr_go_unrepaired_exact s off len :
  int64 off -> int64 len -> blen s <= maxint ->
  substr_go_unrepaired s off len = Ok (if substr_overflows s off len then [] else substr_ref s off len).
Proof.
  intros Ho Hl Hn. pose proof (blen_nonneg s) as Hn0.
  unfold substr_go_unrepaired, substr_overflows, substr_ref, substr_stop, substr_start, abs_go64, slice, in_range, byte_range.
  change (slen s) with (blen s). set (n := blen s) in *.
  unfold int64, minint, maxint in *.
  destruct (Z.ltb_spec off 0) as [Hoff|Hoff]; destruct (Z.ltb_spec len 0) as [Hlen|Hlen]; cbn [andb orb negb].
  all: try elim_wrap.
  all: repeat (progress (zb; cbn [andb orb negb])); try reflexivity.
  all: try (exfalso; lia).
  all: try (do 3 f_equal; lia).
  all: f_equal; match goal with |- [] = firstn (Z.to_nat ?k) _ => replace k with 0 by lia; reflexivity end.
Qed.

(* when the sum wrapped the shipped code returned the empty string although the
   PHP rule selects the non-empty rest of the string *)
Lemma substr_go_unrepaired_overflow_loses s off len :
  int64 off -> int64 len -> blen s <= maxint -> substr_overflows s off len = true ->
  substr_go_unrepaired s off len = Ok [] /\ substr_ref s off len <> [].
Proof.
  intros Ho Hl Hn Hv. split; [rewrite substr_go_unrepaired_exact by assumption; rewrite Hv; reflexivity|].
  unfold substr_overflows in Hv. unfold substr_ref, substr_stop. change (slen s) with (blen s) in *.
  set (n := blen s) in *. set (a := substr_start n off) in *.
  apply andb_prop in Hv. destruct Hv as [Hv H4]. apply andb_prop in Hv. destruct Hv as [Hv H3].
  apply andb_prop in Hv. destruct Hv as [H1 H2].
  unfold maxint in *.
  destruct (Z.ltb_spec len 0); [lia|]. rewrite Z.min_l by lia.
  destruct (Z.leb_spec 0 a); [|lia]. destruct (Z.leb_spec a n); [|lia]. destruct (Z.leb_spec n n); [|lia].
  cbn [andb]. intros E. apply (f_equal (@length Z)) in E. unfold byte_range in E.
  rewrite firstn_length, skipn_length in E. cbn [length] in E. unfold n, blen in *. lia.
Qed.

(* ---------- slices ---------- *)

Lemma slice_ok s lo hi :
  0 <= lo <= hi -> hi <= blen s -> slice s lo hi = Ok (byte_range s lo hi).
Proof.
  intros H1 H2. unfold slice, byte_range.
  destruct (Z.leb_spec 0 lo); [|lia]. destruct (Z.leb_spec lo hi); [|lia].
  destruct (Z.leb_spec hi (blen s)); [|lia]. reflexivity.
Qed.

Lemma slice_panics s lo hi :
  ~ (0 <= lo <= hi /\ hi <= blen s) -> slice s lo hi = Panic.
Proof.
  intros H. unfold slice.
  destruct (Z.leb_spec 0 lo); cbn [andb]; [|reflexivity].
  destruct (Z.leb_spec lo hi); cbn [andb]; [|reflexivity].
  destruct (Z.leb_spec hi (blen s)); [lia|reflexivity].
Qed.

Lemma byte_range_length s a b :
  0 <= a <= b -> b <= slen s -> slen (byte_range s a b) = b - a.
Proof.
  intros H1 H2. unfold byte_range, slen in *. rewrite firstn_length, skipn_length. lia.
Qed.

(* the selected range really is the part of s between offsets a and b *)
Lemma byte_range_split s a b :
  0 <= a <= b -> b <= slen s ->
  exists pre post, s = pre ++ byte_range s a b ++ post /\ slen pre = a /\ slen (byte_range s a b) = b - a.
Proof.
  intros H1 H2. exists (firstn (Z.to_nat a) s), (skipn (Z.to_nat (b - a)) (skipn (Z.to_nat a) s)).
  unfold byte_range. rewrite firstn_skipn, firstn_skipn. split; [reflexivity|]. split.
  - unfold slen in *. rewrite firstn_length. lia.
  - apply byte_range_length; assumption.
Qed.

Lemma byte_range_mid (a m b : list Z) :
  byte_range (a ++ m ++ b) (slen a) (slen a + slen m) = m.
Proof.
  unfold byte_range, slen. replace (Z.of_nat (length a) + Z.of_nat (length m) - Z.of_nat (length a)) with (Z.of_nat (length m)) by lia.
  rewrite !Nat2Z.id. rewrite skipn_app, skipn_all, Nat.sub_diag. cbn [skipn app].
  rewrite firstn_app, firstn_all, Nat.sub_diag. cbn. apply app_nil_r.
Qed.

(* ---------- SplitAtIndex ---------- *)

Lemma split_at_index_two_parts s i :
  exists a b, split_at_index s i = Ok [a; b] /\ a ++ b = s /\
              (0 <= i < blen s -> blen a = i + 1).
Proof.
  unfold split_at_index.
  destruct (Z.ltb_spec i 0) as [Hi|Hi].
  { exists [], s. repeat split; try reflexivity. lia. }
  destruct (Z.ltb_spec (blen s - 1) i) as [Hj|Hj].
  { exists s, []. repeat split; try reflexivity; [apply app_nil_r|lia]. }
  rewrite slice_ok by lia. cbn [bind]. rewrite slice_ok by lia. cbn [bind].
  eexists _, _. split; [reflexivity|]. unfold byte_range.
  replace (i + 1 - 0) with (i + 1) by lia. cbn [Z.to_nat skipn].
  split.
  - rewrite (firstn_all2 (n := Z.to_nat (blen s - (i + 1)))) by (rewrite skipn_length; unfold blen in *; lia).
    apply firstn_skipn.
  - intros _. unfold blen in *. rewrite firstn_length. lia.
Qed.

(* ---------- Pad* ---------- *)

Lemma rep_length tok k : length (rep tok k) = (k * length tok)%nat.
Proof.
  unfold rep. induction k as [|k IH]; [reflexivity|].
  cbn [repeat concat]. rewrite app_length, IH. lia.
Qed.

Lemma repeat_str_rep tok c : repeat_str tok c = rep tok (Z.to_nat c).
Proof. reflexivity. Qed.

Lemma rep_one tok : rep tok 1 = tok.
Proof. unfold rep. cbn. apply app_nil_r. Qed.

(* a slice [:n] of token^k is a padding of n bytes that is a prefix of token^k *)
Lemma slice_rep tok k n :
  0 <= n <= blen (rep tok k) ->
  exists p, slice (rep tok k) 0 n = Ok p /\ blen p = n /\ rep_prefix p tok.
Proof.
  intros H. rewrite slice_ok by lia. eexists. split; [reflexivity|]. split.
  - change (blen (byte_range (rep tok k) 0 n)) with (slen (byte_range (rep tok k) 0 n)).
    rewrite byte_range_length; [lia|lia|exact (proj2 H)].
  - exists k, (skipn (Z.to_nat (n - 0)) (rep tok k)). unfold byte_range. cbn [Z.to_nat skipn].
    symmetry. apply firstn_skipn.
Qed.

Lemma blen_rep tok k : blen (rep tok k) = Z.of_nat k * blen tok.
Proof. unfold blen. rewrite rep_length. lia. Qed.

Lemma blen_app a b : blen (a ++ b) = blen a + blen b.
Proof. unfold blen. rewrite app_length. lia. Qed.

Lemma blen_pos_nonempty (tok : list Z) : tok <> [] -> 1 <= blen tok.
Proof. destruct tok; [congruence|]. unfold blen. cbn [length]. lia. Qed.

(* the token string prepared by PadLeft/PadRight, cut at d bytes *)
Lemma pad_piece tok d :
  tok <> [] -> 0 < d ->
  exists p, slice (if blen tok <=? d then repeat_str tok d else tok) 0 d = Ok p
            /\ blen p = d /\ rep_prefix p tok.
Proof.
  intros Ht Hd. pose proof (blen_pos_nonempty tok Ht) as H1.
  destruct (Z.leb_spec (blen tok) d) as [Hle|Hgt].
  - rewrite repeat_str_rep. apply slice_rep. rewrite blen_rep. nia.
  - pose proof (slice_rep tok 1 d) as HS. rewrite rep_one in HS. apply HS. lia.
Qed.

Lemma pad_left_spec s size tok :
  tok <> [] ->
  (size <= blen s -> pad_left s size tok = Ok s) /\
  (blen s < size -> exists p, pad_left s size tok = Ok (p ++ s) /\
                              blen (p ++ s) = size /\ rep_prefix p tok).
Proof.
  intros Ht. unfold pad_left. split; intros H.
  - destruct (Z.leb_spec size (blen s)); [reflexivity|lia].
  - destruct (Z.leb_spec size (blen s)); [lia|].
    destruct (pad_piece tok (size - blen s) Ht ltac:(lia)) as (p & Hp & Hl & Hr).
    rewrite Hp. cbn [bind]. exists p. split; [reflexivity|]. split; [|exact Hr].
    rewrite blen_app. lia.
Qed.

Lemma pad_right_spec s size tok :
  tok <> [] ->
  (size <= blen s -> pad_right s size tok = Ok s) /\
  (blen s < size -> exists p, pad_right s size tok = Ok (s ++ p) /\
                              blen (s ++ p) = size /\ rep_prefix p tok).
Proof.
  intros Ht. unfold pad_right. split; intros H.
  - destruct (Z.leb_spec size (blen s)); [reflexivity|lia].
  - destruct (Z.leb_spec size (blen s)); [lia|].
    destruct (pad_piece tok (size - blen s) Ht ltac:(lia)) as (p & Hp & Hl & Hr).
    rewrite Hp. cbn [bind]. exists p. split; [reflexivity|]. split; [|exact Hr].
    rewrite blen_app. lia.
Qed.

Lemma pad_spec s size tok :
  tok <> [] ->
  (size <= blen s -> pad s size tok = Ok s) /\
  (blen s < size -> exists l r, pad s size tok = Ok (l ++ s ++ r) /\
                                blen (l ++ s ++ r) = size /\
                                blen l = (size - blen s) / 2 /\
                                blen r = (size - blen s + 1) / 2 /\
                                rep_prefix l tok /\ rep_prefix r tok).
Proof.
  intros Ht. unfold pad. pose proof (blen_pos_nonempty tok Ht) as H1. split; intros H.
  - destruct (Z.leb_spec size (blen s)); [reflexivity|lia].
  - destruct (Z.leb_spec size (blen s)); [lia|].
    set (d := size - blen s) in *.
    assert (Hd : 0 < d) by (unfold d; lia).
    pose proof (Z.div_mod d 2 ltac:(lia)) as E1. pose proof (Z.mod_pos_bound d 2 ltac:(lia)) as B1.
    pose proof (Z.div_mod (d + 1) 2 ltac:(lia)) as E2. pose proof (Z.mod_pos_bound (d + 1) 2 ltac:(lia)) as B2.
    assert (Hl : exists l, slice (if blen tok <=? d / 2 then repeat_str tok (d / 2) else tok) 0 (d / 2) = Ok l
                           /\ blen l = d / 2 /\ rep_prefix l tok).
    { destruct (Z.leb_spec (blen tok) (d / 2)).
      - rewrite repeat_str_rep. apply slice_rep. rewrite blen_rep. nia.
      - pose proof (slice_rep tok 1 (d / 2)) as HS. rewrite rep_one in HS. apply HS. lia. }
    assert (Hr : exists r, slice (if blen tok <=? d / 2 then repeat_str tok ((d + 1) / 2) else tok) 0 ((d + 1) / 2) = Ok r
                           /\ blen r = (d + 1) / 2 /\ rep_prefix r tok).
    { destruct (Z.leb_spec (blen tok) (d / 2)).
      - rewrite repeat_str_rep. apply slice_rep. rewrite blen_rep. nia.
      - pose proof (slice_rep tok 1 ((d + 1) / 2)) as HS. rewrite rep_one in HS. apply HS. lia. }
    destruct Hl as (l & Hl1 & Hl2 & Hl3). destruct Hr as (r & Hr1 & Hr2 & Hr3).
    rewrite Hl1. cbn [bind]. rewrite Hr1. cbn [bind].
    exists l, r. split; [reflexivity|]. rewrite !blen_app. repeat split; try assumption. lia.
Qed.

(* with the empty token and a size above the length every Pad* panics in Go
   (slice beyond the empty repeated token); the model says so *)
Lemma pad_empty_token_panics s size :
  blen s < size ->
  pad_left s size [] = Panic /\ pad_right s size [] = Panic /\ pad s size [] = Panic.
Proof.
  intros H. unfold pad_left, pad_right, pad.
  destruct (Z.leb_spec size (blen s)); [lia|].
  assert (Hr : forall c, repeat_str [] c = []).
  { intros c. unfold repeat_str. induction (Z.to_nat c) as [|k IH]; [reflexivity|exact IH]. }
  change (blen []) with 0.
  destruct (Z.leb_spec 0 (size - blen s)); [|lia]. rewrite Hr.
  rewrite (slice_panics [] 0 (size - blen s)) by (change (blen []) with 0; lia).
  repeat split; try reflexivity.
  set (d := size - blen s) in *.
  pose proof (Z.div_mod d 2 ltac:(lia)) as E1. pose proof (Z.mod_pos_bound d 2 ltac:(lia)) as B1.
  pose proof (Z.div_mod (d + 1) 2 ltac:(lia)) as E2. pose proof (Z.mod_pos_bound (d + 1) 2 ltac:(lia)) as B2.
  destruct (Z.leb_spec 0 (d / 2)); [|lia]. rewrite !Hr.
  destruct (Z.eq_dec (d / 2) 0) as [E0|E0].
  - rewrite (slice_ok [] 0 (d / 2)) by (change (blen []) with 0; lia). cbn [bind].
    rewrite (slice_panics [] 0 ((d + 1) / 2)) by (change (blen []) with 0; lia). reflexivity.
  - rewrite (slice_panics [] 0 (d / 2)) by (change (blen []) with 0; lia). reflexivity.
Qed.

(* ---------- strings.Index / LastIndex ---------- *)

Lemma is_prefix_iff p s : is_prefix p s = true <-> exists r, s = p ++ r.
Proof.
  revert s. induction p as [|a p IH]; intros s; cbn.
  - split; [intros _; exists s; reflexivity|reflexivity].
  - destruct s as [|b s]; [split; [discriminate|intros [r Hr]; discriminate]|].
    rewrite andb_true_iff, Z.eqb_eq, IH. split.
    + intros [-> [r ->]]. exists r. reflexivity.
    + intros [r Hr]. injection Hr as -> ->. split; [reflexivity|exists r; reflexivity].
Qed.

(* tok occurs in s at byte offset i *)
Definition occ (s tok : list Z) (i : nat) : Prop :=
  exists pre post, s = pre ++ tok ++ post /\ length pre = i.

Lemma occ_zero s tok : occ s tok 0 <-> is_prefix tok s = true.
Proof.
  rewrite is_prefix_iff. split.
  - intros (pre & post & -> & Hl). destruct pre; [|discriminate]. exists post. reflexivity.
  - intros [r ->]. exists [], r. split; reflexivity.
Qed.

Lemma occ_succ c s tok i : occ (c :: s) tok (S i) <-> occ s tok i.
Proof.
  split.
  - intros (pre & post & E & Hl). destruct pre as [|c' pre]; [discriminate|].
    injection E as -> ->. exists pre, post. split; [reflexivity|]. cbn in Hl. lia.
  - intros (pre & post & -> & Hl). exists (c :: pre), post. split; [reflexivity|]. cbn. lia.
Qed.

Lemma occ_fits s tok i : occ s tok i -> (i + length tok <= length s)%nat.
Proof. intros (pre & post & -> & <-). rewrite !app_length. lia. Qed.

Lemma index_nat_zero s tok : index_nat s tok = Some O <-> is_prefix tok s = true.
Proof.
  destruct s as [|c s]; cbn [index_nat]; destruct (is_prefix tok _) eqn:E.
  - tauto.
  - split; discriminate.
  - tauto.
  - split; [|discriminate]. destruct (index_nat s tok); discriminate.
Qed.

(* Index finds the least occurrence *)
Lemma index_nat_least s tok :
  match index_nat s tok with
  | Some i => occ s tok i /\ forall j, occ s tok j -> (i <= j)%nat
  | None => forall j, ~ occ s tok j
  end.
Proof.
  induction s as [|c s IH]; cbn [index_nat].
  - destruct (is_prefix tok []) eqn:E.
    + split; [apply occ_zero; exact E|intros; lia].
    + intros j Hj. pose proof (occ_fits _ _ _ Hj) as Hf. cbn in Hf.
      assert (j = O) by lia. subst j. apply -> occ_zero in Hj. congruence.
  - destruct (is_prefix tok (c :: s)) eqn:E.
    + split; [apply occ_zero; exact E|intros; lia].
    + destruct (index_nat s tok) as [i|]; cbn [option_map].
      * destruct IH as [H1 H2]. split; [apply occ_succ; exact H1|].
        intros [|j] Hj; [apply -> occ_zero in Hj; congruence|].
        apply -> occ_succ in Hj. apply H2 in Hj. lia.
      * intros [|j] Hj; [apply -> occ_zero in Hj; congruence|].
        apply -> occ_succ in Hj. exact (IH j Hj).
Qed.

(* LastIndex finds the greatest occurrence *)
Lemma last_index_nat_greatest s tok :
  match last_index_nat s tok with
  | Some i => occ s tok i /\ forall j, occ s tok j -> (j <= i)%nat
  | None => forall j, ~ occ s tok j
  end.
Proof.
  induction s as [|c s IH]; cbn [last_index_nat].
  - destruct (is_prefix tok []) eqn:E.
    + split; [apply occ_zero; exact E|].
      intros j Hj. pose proof (occ_fits _ _ _ Hj) as Hf. cbn in Hf. lia.
    + intros j Hj. pose proof (occ_fits _ _ _ Hj) as Hf. cbn in Hf.
      assert (j = O) by lia. subst j. apply -> occ_zero in Hj. congruence.
  - destruct (last_index_nat s tok) as [i|].
    + destruct IH as [H1 H2]. split; [apply occ_succ; exact H1|].
      intros [|j] Hj; [lia|]. apply -> occ_succ in Hj. apply H2 in Hj. lia.
    + destruct (is_prefix tok (c :: s)) eqn:E.
      * split; [apply occ_zero; exact E|].
        intros [|j] Hj; [lia|]. apply -> occ_succ in Hj. exfalso. exact (IH j Hj).
      * intros [|j] Hj; [apply -> occ_zero in Hj; congruence|].
        apply -> occ_succ in Hj. exact (IH j Hj).
Qed.

(* ---------- Wrap / Unwrap ---------- *)

Lemma wrapped_facts s t m :
  s = t ++ m ++ t ->
  index s t = 0 /\ last_index s t = blen s - blen t /\ blen t <= blen s - blen t
  /\ byte_range s (blen t) (blen s - blen t) = m.
Proof.
  intros ->. unfold index, last_index.
  assert (H0 : index_nat (t ++ m ++ t) t = Some O).
  { apply index_nat_zero, is_prefix_iff. exists (m ++ t). reflexivity. }
  rewrite H0.
  pose proof (last_index_nat_greatest (t ++ m ++ t) t) as HL.
  assert (Ho : occ (t ++ m ++ t) t (length t + length m)).
  { exists (t ++ m), []. rewrite app_nil_r, <- app_assoc, app_length. split; reflexivity. }
  destruct (last_index_nat (t ++ m ++ t) t) as [i|]; [|exfalso; exact (HL _ Ho)].
  destruct HL as [H1 H2]. apply occ_fits in H1. apply H2 in Ho.
  rewrite !blen_app. unfold blen in *. rewrite !app_length in H1.
  repeat split; try lia.
  replace (Z.of_nat (length t) + (Z.of_nat (length m) + Z.of_nat (length t)) - Z.of_nat (length t))
    with (slen t + slen m) by (unfold slen; lia).
  apply byte_range_mid.
Qed.

Lemma unwrap_wrapped s t m : s = t ++ m ++ t -> unwrap s t = Ok m.
Proof.
  intros Hs. destruct (wrapped_facts s t m Hs) as (H1 & H2 & H3 & H4).
  unfold unwrap. rewrite H1, H2, Z.eqb_refl, Z.eqb_refl. cbn [andb].
  destruct (Z.leb_spec (blen t) (blen s - blen t)); [|lia].
  rewrite slice_ok by (pose proof (blen_nonneg t); lia). rewrite H4. reflexivity.
Qed.

Lemma unwrap_wrap s t : unwrap (wrap s t) t = Ok s.
Proof. apply unwrap_wrapped. reflexivity. Qed.

(* if the guard of the repaired Unwrap fires, the string is wrapped *)
Lemma unwrap_guard_wrapped s t :
  index s t = 0 -> last_index s t = blen s - blen t -> blen t <= last_index s t -> wrapped s t.
Proof.
  unfold index, last_index. intros H1 H2 H3.
  pose proof (index_nat_least s t) as HI. pose proof (last_index_nat_greatest s t) as HL.
  destruct (index_nat s t) as [i|]; [|lia]. assert (i = O) by lia. subst i.
  destruct (last_index_nat s t) as [k|]; [|pose proof (blen_nonneg t); lia].
  destruct HI as [(pre0 & r & E0 & L0) _]. destruct pre0; [|discriminate]. cbn [app] in E0.
  destruct HL as [(pre & post & E & L) _].
  assert (post = []).
  { apply length_zero_iff_nil. pose proof (f_equal (@length Z) E) as EL.
    unfold blen in *. rewrite !app_length in EL. lia. }
  subst post. rewrite app_nil_r in E.
  (* s = t ++ r = pre ++ t with |t| <= |pre| *)
  rewrite E in E0. symmetry in E0. apply app_eq_app in E0. destruct E0 as [l [[Ea Eb]|[Ea Eb]]].
  - (* t = pre ++ l: then |t| <= |pre| forces l = [] *)
    assert (l = []).
    { apply length_zero_iff_nil. rewrite Ea in H3. unfold blen in H3. rewrite app_length in H3. lia. }
    subst l. rewrite app_nil_r in Ea. exists []. cbn [app]. rewrite E. rewrite <- Ea at 1. reflexivity.
  - exists l. rewrite E, Ea, <- app_assoc. reflexivity.
Qed.

Lemma unwrap_unwrapped_unchanged s t : ~ wrapped s t -> unwrap s t = Ok s.
Proof.
  intros Hn. unfold unwrap.
  destruct (Z.eqb_spec (index s t) 0) as [H1|H1]; cbn [andb]; [|reflexivity].
  destruct (Z.eqb_spec (last_index s t) (blen s - blen t)) as [H2|H2]; cbn [andb]; [|reflexivity].
  destruct (Z.leb_spec (blen t) (last_index s t)) as [H3|H3]; [|reflexivity].
  exfalso. apply Hn. apply unwrap_guard_wrapped; assumption.
Qed.

Lemma unwrap_never_panics s t : unwrap s t <> Panic.
Proof.
  unfold unwrap.
  destruct (Z.eqb_spec (index s t) 0) as [H1|H1]; cbn [andb]; [|discriminate].
  destruct (Z.eqb_spec (last_index s t) (blen s - blen t)) as [H2|H2]; cbn [andb]; [|discriminate].
  destruct (Z.leb_spec (blen t) (last_index s t)) as [H3|H3]; [|discriminate].
  destruct (unwrap_guard_wrapped s t H1 H2 H3) as [m Hm].
  pose proof (unwrap_wrapped s t m Hm) as HU. unfold unwrap in HU.
  rewrite H1, H2, !Z.eqb_refl in HU. cbn [andb] in HU.
  destruct (Z.leb_spec (blen t) (blen s - blen t)); [|lia]. rewrite H2. rewrite HU. discriminate.
Qed.

(* ---------- WrapAllRune ---------- *)

Lemma wrap_all_rune_spec rs t :
  Forall valid_rune rs ->
  wrap_all_rune (encode rs) t = concat (map (fun r => t ++ encode_rune r ++ t) rs).
Proof. intros H. unfold wrap_all_rune. rewrite decode_encode by exact H. reflexivity. Qed.

(* ---------- ReverseStr ---------- *)

Lemma upd_app_mid (pre post : list Z) a v :
  upd (pre ++ a :: post) (length pre) v = pre ++ v :: post.
Proof.
  unfold upd. rewrite firstn_app, firstn_all, Nat.sub_diag. cbn [firstn]. rewrite app_nil_r.
  rewrite skipn_app. rewrite skipn_all2 by lia.
  replace (S (length pre) - length pre)%nat with 1%nat by lia. reflexivity.
Qed.

Lemma nth_app_mid (pre post : list Z) a : nth (length pre) (pre ++ a :: post) 0 = a.
Proof. rewrite app_nth2 by lia. rewrite Nat.sub_diag. reflexivity. Qed.

Lemma swap_ends (pre mid post : list Z) a b :
  swap (pre ++ a :: mid ++ b :: post) (length pre) (length pre + S (length mid)) =
  pre ++ b :: mid ++ a :: post.
Proof.
  unfold swap. rewrite nth_app_mid.
  replace (pre ++ a :: mid ++ b :: post) with ((pre ++ a :: mid) ++ b :: post)
    by (rewrite <- app_assoc; reflexivity).
  replace (length pre + S (length mid))%nat with (length (pre ++ a :: mid))
    by (rewrite app_length; cbn; lia).
  rewrite nth_app_mid.
  rewrite <- app_assoc. cbn [app]. rewrite upd_app_mid.
  replace (pre ++ b :: mid ++ b :: post) with ((pre ++ b :: mid) ++ b :: post)
    by (rewrite <- app_assoc; reflexivity).
  replace (length (pre ++ a :: mid)) with (length (pre ++ b :: mid))
    by (rewrite !app_length; reflexivity).
  rewrite upd_app_mid. rewrite <- app_assoc. reflexivity.
Qed.

(* the two-index swap loop reverses the part between its indices; fuel |mid| suffices *)
Lemma rev_loop_mid fuel : forall pre mid post,
  (length mid <= fuel)%nat ->
  rev_loop fuel (Z.of_nat (length pre)) (Z.of_nat (length pre) + Z.of_nat (length mid) - 1)
           (pre ++ mid ++ post) = pre ++ rev mid ++ post.
Proof.
  induction fuel as [|f IH]; intros pre mid post Hf.
  - destruct mid; [reflexivity|cbn in Hf; lia].
  - cbn [rev_loop].
    destruct mid as [|a mid]; [cbn [length]; destruct (Z.ltb_spec (Z.of_nat (length pre)) (Z.of_nat (length pre) + Z.of_nat 0 - 1)); [lia|reflexivity]|].
    destruct (exists_last (l := a :: mid)) as (mid' & b & E); [discriminate|].
    destruct mid' as [|a' mid'].
    + (* one element *)
      cbn [app] in E. injection E as -> Em. assert (mid = []) by (destruct mid; [reflexivity|discriminate]). subst mid.
      cbn [length]. destruct (Z.ltb_spec (Z.of_nat (length pre)) (Z.of_nat (length pre) + Z.of_nat 1 - 1)); [lia|reflexivity].
    + cbn [app] in E. injection E as <- Em. subst mid.
      cbn [length]. rewrite app_length. cbn [length].
      destruct (Z.ltb_spec (Z.of_nat (length pre)) (Z.of_nat (length pre) + Z.of_nat (S (length mid' + 1)) - 1)); [|lia].
      rewrite Nat2Z.id.
      replace (Z.to_nat (Z.of_nat (length pre) + Z.of_nat (S (length mid' + 1)) - 1))
        with (length pre + S (length mid'))%nat by lia.
      replace (pre ++ (a :: mid' ++ [b]) ++ post) with (pre ++ a :: mid' ++ b :: post)
        by (cbn [app]; rewrite <- app_assoc; reflexivity).
      rewrite swap_ends.
      replace (pre ++ b :: mid' ++ a :: post) with ((pre ++ [b]) ++ mid' ++ (a :: post))
        by (rewrite <- app_assoc; reflexivity).
      replace (Z.of_nat (length pre) + 1) with (Z.of_nat (length (pre ++ [b])))
        by (rewrite app_length; cbn [length]; lia).
      replace (Z.of_nat (length pre) + Z.of_nat (S (length mid' + 1)) - 1 - 1)
        with (Z.of_nat (length (pre ++ [b])) + Z.of_nat (length mid') - 1)
        by (rewrite app_length; cbn [length]; lia).
      rewrite IH by (cbn [length] in Hf; rewrite app_length in Hf; cbn [length] in Hf; lia).
      cbn [rev]. rewrite rev_app_distr. cbn [rev app]. rewrite <- !app_assoc. reflexivity.
Qed.

Lemma rev_loop_rev l : rev_loop (length l) 0 (blen l - 1) l = rev l.
Proof.
  pose proof (rev_loop_mid (length l) [] l [] (le_n _)) as H.
  cbn [length app] in H. rewrite !app_nil_r in H. unfold blen. exact H.
Qed.

Lemma reverse_str_decode s : reverse_str s = encode (rev (decode s)).
Proof. unfold reverse_str. rewrite rev_loop_rev. reflexivity. Qed.

Lemma reverse_str_runes rs : Forall valid_rune rs -> reverse_str (encode rs) = encode (rev rs).
Proof. intros H. rewrite reverse_str_decode, decode_encode by exact H. reflexivity. Qed.

(* ---------- ToLower / ToUpper / Capitalize ---------- *)

Section CaseMap.
Variables to_lower to_upper : Z -> Z.

Lemma to_lower_runes rs :
  Forall valid_rune rs -> to_lower_str to_lower (encode rs) = encode (map to_lower rs).
Proof. intros H. unfold to_lower_str. rewrite decode_encode by exact H. reflexivity. Qed.

Lemma to_upper_runes rs :
  Forall valid_rune rs -> to_upper_str to_upper (encode rs) = encode (map to_upper rs).
Proof. intros H. unfold to_upper_str. rewrite decode_encode by exact H. reflexivity. Qed.

Lemma with_offsets_pos (f g : Z -> Z) pos l :
  0 < pos ->
  map (fun ir : Z * Z => if fst ir =? 0 then f (snd ir) else g (snd ir)) (with_offsets pos l)
  = map g (map fst l).
Proof.
  revert pos. induction l as [|[r w] l IH]; intros pos Hp; [reflexivity|].
  cbn [with_offsets map fst snd]. destruct (Z.eqb_spec pos 0); [lia|]. f_equal. apply IH. lia.
Qed.

Lemma decode_w_cons b t :
  decode_w (b :: t) = decode1 (b :: t) :: decode_w_aux (snd (decode1 (b :: t)) - 1) t.
Proof. reflexivity. Qed.

(* on every byte string: the first decoded rune upper-cased, the others lower-cased *)
Lemma capitalize_decode s :
  capitalize to_lower to_upper s =
  match decode s with [] => [] | r :: rs => encode (to_upper r :: map to_lower rs) end.
Proof.
  unfold capitalize, range_loop, decode.
  destruct (decode_w s) as [|[r w] l] eqn:E; [reflexivity|].
  cbn [with_offsets map fst snd]. rewrite Z.eqb_refl.
  assert (Hw : (1 <= w)%nat).
  { destruct s as [|b t]; [discriminate|]. rewrite decode_w_cons in E.
    pose proof (f_equal (@hd (Z * nat) (0, O)) E) as E1. cbn [hd] in E1.
    pose proof (decode1_width (b :: t)) as HW. rewrite E1 in HW. cbn [snd] in HW. lia. }
  rewrite with_offsets_pos by lia. reflexivity.
Qed.

Lemma capitalize_runes r rs :
  Forall valid_rune (r :: rs) ->
  capitalize to_lower to_upper (encode (r :: rs)) = encode (to_upper r :: map to_lower rs).
Proof. intros H. rewrite capitalize_decode, decode_encode by exact H. reflexivity. Qed.

End CaseMap.

(* ---------- the decision procedures of C15_Spec.v used by the property checker ---------- *)

Lemma prefixb_is_prefix p s : prefixb p s = is_prefix p s.
Proof. reflexivity. Qed.

Lemma wrappedb_iff s t : wrappedb s t = true <-> wrapped s t.
Proof.
  unfold wrappedb, wrapped. rewrite !andb_true_iff, !prefixb_is_prefix, !is_prefix_iff, Z.leb_le. split.
  - intros [[Hl [r Hr]] [q Hq]].
    apply (f_equal (@rev Z)) in Hq. rewrite rev_involutive, rev_app_distr, rev_involutive in Hq.
    (* s = t ++ r = rev q ++ t, |t| <= |rev q| *)
    assert (Hlen : (length t <= length (rev q))%nat).
    { pose proof (f_equal (@length Z) Hq) as E. rewrite app_length in E. unfold slen in Hl. lia. }
    rewrite Hr in Hq. apply app_eq_app in Hq. destruct Hq as [l [[Ea Eb]|[Ea Eb]]].
    + rewrite Ea in Hlen. rewrite app_length in Hlen.
      assert (l = []) by (apply length_zero_iff_nil; lia). subst l.
      rewrite app_nil_r in Ea. cbn [app] in Eb. exists []. cbn [app]. rewrite Hr, <- Eb. reflexivity.
    + exists l. rewrite Hr, Eb. reflexivity.
  - intros [m ->]. repeat split.
    + unfold slen. rewrite !app_length. lia.
    + exists (m ++ t). reflexivity.
    + exists (rev m ++ rev t). rewrite !rev_app_distr, <- app_assoc. reflexivity.
Qed.

(* Unwrap, completely: the decision [wrappedb] and the middle bytes *)
Lemma unwrap_spec s t : unwrap s t = Ok (unwrap_ref s t).
Proof.
  unfold unwrap_ref. destruct (wrappedb s t) eqn:E.
  - apply wrappedb_iff in E. destruct E as [m Hm]. rewrite (unwrap_wrapped s t m Hm).
    destruct (wrapped_facts s t m Hm) as (_ & _ & _ & H4). rewrite <- H4. reflexivity.
  - apply unwrap_unwrapped_unchanged. intros W. apply wrappedb_iff in W. congruence.
Qed.

Lemma rep_app tok a b : rep tok (a + b) = rep tok a ++ rep tok b.
Proof. unfold rep. rewrite repeat_app, concat_app. reflexivity. Qed.

Lemma firstn_app_le {A} (l1 l2 : list A) n : (n <= length l1)%nat -> firstn n (l1 ++ l2) = firstn n l1.
Proof.
  intros H. rewrite firstn_app. replace (n - length l1)%nat with O by lia. cbn. apply app_nil_r.
Qed.

Lemma rep_prefixb_iff p tok : tok <> [] -> (rep_prefixb p tok = true <-> rep_prefix p tok).
Proof.
  intros Ht. unfold rep_prefixb, rep_prefix. rewrite zlist_eqb_eq.
  assert (Hlen : forall k, (k <= length (rep tok k))%nat).
  { intros k. rewrite rep_length. destruct tok; [congruence|]. cbn [length]. nia. }
  split.
  - intros E. exists (length p), (skipn (length p) (rep tok (length p))). rewrite E at 2. symmetry. apply firstn_skipn.
  - intros (k & rest & E). destruct (le_lt_dec (length p) k) as [Hk|Hk].
    + replace k with (length p + (k - length p))%nat in E by lia. rewrite rep_app in E.
      pose proof (f_equal (firstn (length p)) E) as F.
      rewrite firstn_app_le in F by apply Hlen. rewrite firstn_app_le in F by lia.
      rewrite firstn_all in F. symmetry. exact F.
    + replace (length p) with (k + (length p - k))%nat at 2 by lia. rewrite rep_app, E, <- app_assoc.
      rewrite firstn_app_le by lia. rewrite firstn_all. reflexivity.
Qed.

(* ---------- arbitrary byte strings (invalid UTF-8 included) ---------- *)

Definition bytes (s : list Z) : Prop := Forall (fun b => 0 <= b < 256) s.

Lemma decode_w_aux_valid s : bytes s -> forall skip, Forall (fun rw => valid_rune (fst rw)) (decode_w_aux skip s).
Proof.
  induction 1 as [|b t Hb Ht IH]; intros skip; [constructor|].
  cbn [decode_w_aux]. destruct skip as [|k]; [|apply IH].
  constructor; [|apply IH]. apply decode1_valid. constructor; assumption.
Qed.

(* whatever the bytes, the range loop only produces scalar values (U+FFFD for every byte that
   does not start a well-formed sequence) *)
Lemma decode_valid s : bytes s -> Forall valid_rune (decode s).
Proof.
  intros H. unfold decode, decode_w. pose proof (decode_w_aux_valid s H 0%nat) as F.
  induction F as [|x l Hx _ IH]; [constructor|]. cbn [map]. constructor; assumption.
Qed.

(* re-encoding what the range loop saw and decoding again changes nothing: [encode (decode s)]
   is the sanitised string (strings.ToValidUTF8(s, "�") byte by byte) *)
Lemma decode_sanitised s : bytes s -> decode (encode (decode s)) = decode s.
Proof. intros H. apply decode_encode, decode_valid, H. Qed.

Lemma wrap_all_rune_bytes s t :
  bytes s ->
  wrap_all_rune s t = concat (map (fun r => t ++ encode_rune r ++ t) (decode s))
  /\ Forall valid_rune (decode s)
  /\ wrap_all_rune s t = wrap_all_rune (encode (decode s)) t.
Proof.
  intros H. split; [reflexivity|]. split; [apply decode_valid, H|].
  unfold wrap_all_rune. rewrite decode_sanitised by exact H. reflexivity.
Qed.

Lemma reverse_str_bytes s :
  bytes s -> reverse_str s = encode (rev (decode s)) /\ reverse_str s = reverse_str (encode (decode s)).
Proof.
  intros H. split; [apply reverse_str_decode|]. rewrite !reverse_str_decode, decode_sanitised by exact H. reflexivity.
Qed.

(* Pad* never panic with a non-empty token *)
Lemma pad_never_panics s size tok :
  tok <> [] -> pad s size tok <> Panic /\ pad_left s size tok <> Panic /\ pad_right s size tok <> Panic.
Proof.
  intros Ht. destruct (Z_le_gt_dec size (blen s)) as [H|H].
  - rewrite (proj1 (pad_spec s size tok Ht) H), (proj1 (pad_left_spec s size tok Ht) H),
      (proj1 (pad_right_spec s size tok Ht) H). repeat split; discriminate.
  - destruct (proj2 (pad_spec s size tok Ht) ltac:(lia)) as (l & r & E & _).
    destruct (proj2 (pad_left_spec s size tok Ht) ltac:(lia)) as (p & E1 & _).
    destruct (proj2 (pad_right_spec s size tok Ht) ltac:(lia)) as (q & E2 & _).
    rewrite E, E1, E2. repeat split; discriminate.
Qed.
