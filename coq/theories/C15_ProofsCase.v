(* C15_ProofsCase.v — CamelCase / SnakeCase / KebabCase on the ASCII word domain.

   Plan.  For a string over letters, digits, space, '-', '_', '&':
     A. on ASCII the rune-wise case mapping is byte-wise (oracle laws [HL], [HU]);
     B. one chunk (a word): the scanner for [a-zö][A-ZÖ]+ finds exactly the
        lower->upper boundaries, and the Substr arithmetic cuts the word right
        after each of them:  chunk output = join d (segs w);
     C. the loops over the chunks are [render] / [camel_render];
     D. the chunks are the words of the input plus empty strings;
     E. the clauses of the property follow from the normal form
        join d pieces ++ (d | nothing). *)

From Gogu Require Import Base Utf8 C15_Model C15_Spec C15_Proofs.
Local Open Scope Z_scope.

(* ------------------------------------------------------------------ *)
(* A. ASCII                                                            *)

Definition alnum_w (w : list Z) : Prop := Forall (fun c => is_alnum c = true) w.

Lemma is_alnum_ascii c : is_alnum c = true -> 0 <= c < 128.
Proof. unfold is_alnum, is_upper, is_lower, is_digit. lia. Qed.

Lemma word_char_ascii c : word_char c = true -> 0 <= c < 128.
Proof. unfold word_char, is_alnum, is_upper, is_lower, is_digit, is_sepc. lia. Qed.

Lemma alnum_w_ascii w : alnum_w w -> ascii w.
Proof. intros H. eapply Forall_impl; [|exact H]. intros c Hc. apply is_alnum_ascii. exact Hc. Qed.

Lemma lower_b_ascii c : 0 <= c < 128 -> 0 <= lower_b c < 128.
Proof. unfold lower_b, is_upper. intros H. destruct ((65 <=? c) && (c <=? 90)) eqn:E; lia. Qed.

Lemma upper_b_ascii c : 0 <= c < 128 -> 0 <= upper_b c < 128.
Proof. unfold upper_b, is_lower. intros H. destruct ((97 <=? c) && (c <=? 122)) eqn:E; lia. Qed.

Lemma ascii_map f s : (forall c, 0 <= c < 128 -> 0 <= f c < 128) -> ascii s -> ascii (map f s).
Proof. intros Hf H. induction H; constructor; auto. Qed.

Lemma word_dom_forall s : word_dom s = true <-> Forall (fun c => word_char c = true) s.
Proof. unfold word_dom. rewrite forallb_forall, Forall_forall. reflexivity. Qed.

Section Case.
Variables to_lower to_upper : Z -> Z.
(* the only facts about unicode.ToLower/ToUpper that are used: their values on ASCII *)
Hypothesis HL : forall c, 0 <= c < 128 -> to_lower c = lower_b c.
Hypothesis HU : forall c, 0 <= c < 128 -> to_upper c = upper_b c.

Lemma to_lower_ascii s : ascii s -> to_lower_str to_lower s = lower_w s.
Proof.
  intros H. unfold to_lower_str, lower_w. rewrite decode_ascii by exact H.
  rewrite (map_ext_in to_lower lower_b).
  - apply encode_ascii. apply ascii_map; [exact lower_b_ascii|exact H].
  - intros c Hc. apply HL. unfold ascii in H. rewrite Forall_forall in H. auto.
Qed.

Lemma capitalize_ascii s : ascii s -> capitalize to_lower to_upper s = cap_w s.
Proof.
  intros H. rewrite capitalize_decode, decode_ascii by exact H. unfold cap_w.
  destruct s as [|c t]; [reflexivity|]. inversion H as [|? ? Hc Ht]; subst.
  rewrite HU by exact Hc. rewrite (map_ext_in to_lower lower_b).
  - apply (encode_ascii (upper_b c :: map lower_b t)). constructor; [apply upper_b_ascii; exact Hc|].
    apply ascii_map; [exact lower_b_ascii|exact Ht].
  - intros x Hx. apply HL. unfold ascii in Ht. rewrite Forall_forall in Ht. auto.
Qed.

Lemma decode_len_zero s : ascii s -> (length (decode s) =? 0)%nat = negb (nonempty s).
Proof. intros H. rewrite decode_ascii by exact H. destruct s; reflexivity. Qed.

(* ------------------------------------------------------------------ *)
(* B. one chunk                                                        *)

(* number of leading upper-case letters *)
Fixpoint ur (s : list Z) : nat :=
  match s with
  | c :: t => if is_upper c then S (ur t) else O
  | [] => O
  end.

(* boundary mask: position i is followed by a cut iff s[i] is lower and s[i+1] upper *)
Fixpoint bnd (s : list Z) : list bool :=
  match s with
  | [] => []
  | a :: t => (is_lower a && match t with b :: _ => is_upper b | [] => false end) :: bnd t
  end.

Lemma bnd_length s : length (bnd s) = length s.
Proof. induction s as [|a t IH]; [reflexivity|]. cbn [bnd length]. rewrite IH. reflexivity. Qed.

(* offsets pos+i of the true entries *)
Fixpoint positions (pos : Z) (mask : list bool) : list Z :=
  match mask with
  | [] => []
  | m :: mask' => if m then pos :: positions (pos + 1) mask' else positions (pos + 1) mask'
  end.

Lemma up_tok_ascii c t : 0 <= c < 128 -> up_tok (c :: t) = if is_upper c then 1%nat else O.
Proof.
  intros H. unfold up_tok, is_upper. destruct ((65 <=? c) && (c <=? 90)); [reflexivity|].
  destruct (Z.eqb_spec c 195); [lia|reflexivity].
Qed.

Lemma lo_tok_ascii c t : 0 <= c < 128 -> lo_tok (c :: t) = if is_lower c then 1%nat else O.
Proof.
  intros H. unfold lo_tok, is_lower. destruct ((97 <=? c) && (c <=? 122)); [reflexivity|].
  destruct (Z.eqb_spec c 195); [lia|reflexivity].
Qed.

Lemma up_run_ascii s : ascii s -> up_run 0 s = ur s.
Proof.
  induction 1 as [|c t Hc Ht IH]; [reflexivity|].
  cbn [up_run ur]. rewrite up_tok_ascii by exact Hc.
  destruct (is_upper c); [|reflexivity]. rewrite IH. reflexivity.
Qed.

(* the scanner finds exactly the boundaries; [skip] bytes of upper-case letters
   belonging to the previous match are stepped over *)
Lemma find_all_positions s : ascii s -> forall skip pos,
  (skip <= ur s)%nat -> map fst (find_all_lu skip pos s) = positions pos (bnd s).
Proof.
  induction 1 as [|c t Hc Ht IH]; intros skip pos Hs; [reflexivity|].
  cbn [find_all_lu bnd positions]. cbn [ur] in Hs.
  destruct skip as [|k].
  - rewrite lo_tok_ascii by exact Hc. destruct (is_lower c) eqn:Elo; cbn [andb].
    + rewrite up_run_ascii by exact Ht.
      destruct t as [|b t']; [reflexivity|]. cbn [ur]. destruct (is_upper b) eqn:Eb.
      * cbn [map fst]. f_equal. apply IH. cbn [ur]. rewrite Eb. lia.
      * apply IH. lia.
    + apply IH. lia.
  - assert (Eu : is_upper c = true) by (destruct (is_upper c); [reflexivity|lia]).
    assert (Elo : is_lower c = false).
    { unfold is_upper, is_lower in *. lia. }
    rewrite Elo. cbn [andb]. apply IH. rewrite Eu in Hs. lia.
Qed.

(* cut after every position whose mask entry is true; [cur] = the piece being built *)
Fixpoint sa (cur : list Z) (mask : list bool) (rest : list Z) : list (list Z) :=
  match mask, rest with
  | m :: mask', c :: rest' =>
      if m then (cur ++ [c]) :: sa [] mask' rest' else sa (cur ++ [c]) mask' rest'
  | _, _ => [cur]
  end.

Lemma sa_nonnil cur mask rest : sa cur mask rest <> [].
Proof.
  revert cur rest. induction mask as [|m mask IH]; intros cur rest; [destruct rest; discriminate|].
  destruct rest as [|c rest]; [discriminate|]. cbn [sa]. destruct m; [discriminate|apply IH].
Qed.

Lemma join_cons d x l : l <> [] -> join d (x :: l) = x ++ d ++ join d l.
Proof. destruct l; [congruence|reflexivity]. Qed.

Lemma substr_range w a b :
  0 <= a <= b -> b <= blen w -> substr w a (b - a) = Ok (byte_range w a b).
Proof.
  intros H1 H2. rewrite substr_ok. f_equal. unfold substr_ref, substr_stop, substr_start.
  change (slen w) with (blen w).
  destruct (Z.ltb_spec a 0); [lia|]. destruct (Z.ltb_spec (b - a) 0); [lia|].
  rewrite Z.min_r by lia. replace (a + (b - a)) with b by lia.
  destruct (Z.leb_spec 0 a); [|lia]. destruct (Z.leb_spec a b); [|lia].
  destruct (Z.leb_spec b (blen w)); [|lia]. reflexivity.
Qed.

(* Substr with a length that overshoots the end *)
Lemma substr_to_end w a n :
  0 <= a <= blen w -> blen w - a <= n -> substr w a n = Ok (byte_range w a (blen w)).
Proof.
  intros H1 H2. rewrite substr_ok. f_equal. unfold substr_ref, substr_stop, substr_start.
  change (slen w) with (blen w).
  destruct (Z.ltb_spec a 0); [lia|]. destruct (Z.ltb_spec n 0); [lia|].
  rewrite Z.min_l by lia.
  destruct (Z.leb_spec 0 a); [|lia]. destruct (Z.leb_spec a (blen w)); [|lia].
  destruct (Z.leb_spec (blen w) (blen w)); [|lia]. reflexivity.
Qed.

Lemma byte_range_mid3 (a m b : list Z) x y :
  x = blen a -> y = blen a + blen m -> byte_range (a ++ m ++ b) x y = m.
Proof. intros -> ->. apply byte_range_mid. Qed.

Lemma byte_range_tail (a m : list Z) x y :
  x = blen a -> y = blen (a ++ m) -> byte_range (a ++ m) x y = m.
Proof.
  intros -> ->. rewrite <- (app_nil_r m) at 1. rewrite blen_app. apply byte_range_mid.
Qed.

Section Chunk.
Variable d : list Z.

Lemma sw_inner_cons2 str a e b e' rest sb :
  sw_inner to_lower str d ((a, e) :: (b, e') :: rest) sb =
  (s <- substr str (a + 1) (b - a) ;;
   sw_inner to_lower str d ((b, e') :: rest) (sb ++ to_lower_str to_lower s ++ d)).
Proof. reflexivity. Qed.

Lemma sw_inner_last str a e sb :
  sw_inner to_lower str d [(a, e)] sb =
  (s <- substr str (a + 1) (blen str - a + 1) ;; Ok (sb ++ to_lower_str to_lower s)).
Proof. reflexivity. Qed.

(* the inner loop: the previous match started at a = |done|-1, the pieces after
   it are cut by the remaining matches *)
Lemma sw_inner_pieces : forall rest mask done cur a e idxs sb,
  length mask = length rest ->
  ascii (done ++ cur ++ rest) ->
  a + 1 = blen done ->
  map fst idxs = positions (blen done + blen cur) mask ->
  sw_inner to_lower (done ++ cur ++ rest) d ((a, e) :: idxs) sb
  = Ok (sb ++ join d (map lower_w (sa cur mask rest))).
Proof.
  induction rest as [|c rest IH]; intros mask done cur a e idxs sb Hlen Hasc Ha Hidx.
  - destruct mask; [|discriminate]. cbn [positions] in Hidx. destruct idxs; [|discriminate].
    rewrite sw_inner_last. cbn [sa map join]. rewrite app_nil_r in *.
    rewrite substr_to_end by (rewrite blen_app; pose proof (blen_nonneg cur); pose proof (blen_nonneg done); lia).
    cbn [bind]. rewrite (byte_range_tail done cur) by (try reflexivity; lia).
    rewrite to_lower_ascii; [reflexivity|].
    unfold ascii in *. apply Forall_app in Hasc. tauto.
  - destruct mask as [|m mask]; [discriminate|]. cbn [length] in Hlen.
    assert (Hasc' : ascii ((done ++ cur ++ [c]) ++ [] ++ rest)).
    { cbn [app]. rewrite <- !app_assoc. exact Hasc. }
    assert (Hasc'' : ascii (done ++ (cur ++ [c]) ++ rest)).
    { rewrite <- !app_assoc. exact Hasc. }
    cbn [positions] in Hidx. cbn [sa]. destruct m.
    + destruct idxs as [|[p e'] idxs]; [discriminate|]. cbn [map fst] in Hidx.
      injection Hidx as Hp Hidx. subst p.
      rewrite sw_inner_cons2.
      replace (blen done + blen cur - a) with ((blen done + blen cur + 1) - (a + 1)) by lia.
      rewrite substr_range.
      2:{ pose proof (blen_nonneg cur). pose proof (blen_nonneg done). lia. }
      2:{ rewrite !blen_app. pose proof (blen_nonneg rest). change (blen (c :: rest)) with (Z.of_nat (S (length rest))). unfold blen in *. lia. }
      cbn [bind].
      replace (done ++ cur ++ c :: rest) with (done ++ (cur ++ [c]) ++ rest) by (rewrite <- !app_assoc; reflexivity).
      rewrite (byte_range_mid3 done (cur ++ [c]) rest) by (rewrite ?blen_app; change (blen [c]) with 1; lia).
      replace (done ++ (cur ++ [c]) ++ rest) with ((done ++ cur ++ [c]) ++ [] ++ rest) by (cbn [app]; rewrite <- !app_assoc; reflexivity).
      rewrite (IH mask (done ++ cur ++ [c]) [] (blen done + blen cur) e' idxs); try assumption; try lia.
      * rewrite to_lower_ascii.
        2:{ unfold ascii in *. apply Forall_app in Hasc''. destruct Hasc'' as [_ H2]. apply Forall_app in H2. tauto. }
        cbn [map]. rewrite join_cons by (intro E; apply map_eq_nil in E; exact (sa_nonnil _ _ _ E)).
        rewrite <- !app_assoc. reflexivity.
      * rewrite !blen_app. change (blen [c]) with 1. lia.
      * rewrite !blen_app. change (blen [c]) with 1. change (blen []) with 0.
        rewrite Hidx. f_equal. lia.
    + replace (done ++ cur ++ c :: rest) with (done ++ (cur ++ [c]) ++ rest) by (rewrite <- !app_assoc; reflexivity).
      apply IH; try assumption; try lia.
      rewrite Hidx. rewrite blen_app. change (blen [c]) with 1. f_equal. lia.
Qed.

(* what the loop body writes for one chunk, before the trailing delimiter *)
Definition chunk_res (str : list Z) : res (list Z) :=
  match find_all_lu 0 0 str with
  | (a0, _) :: _ =>
      s <- substr str 0 (a0 + 1) ;;
      sw_inner to_lower str d (find_all_lu 0 0 str) (to_lower_str to_lower s ++ d)
  | [] => Ok (to_lower_str to_lower str)
  end.

Lemma first_piece : forall rest mask cur idxs,
  length mask = length rest ->
  ascii (cur ++ rest) ->
  map fst idxs = positions (blen cur) mask ->
  match idxs with
  | (a0, _) :: _ =>
      s <- substr (cur ++ rest) 0 (a0 + 1) ;;
      sw_inner to_lower (cur ++ rest) d idxs (to_lower_str to_lower s ++ d)
  | [] => Ok (to_lower_str to_lower (cur ++ rest))
  end = Ok (join d (map lower_w (sa cur mask rest))).
Proof.
  induction rest as [|c rest IH]; intros mask cur idxs Hlen Hasc Hidx.
  - destruct mask; [|discriminate]. cbn [positions] in Hidx. destruct idxs; [|discriminate].
    cbn [sa map join]. rewrite to_lower_ascii by exact Hasc. rewrite app_nil_r. reflexivity.
  - destruct mask as [|m mask]; [discriminate|]. cbn [length] in Hlen.
    assert (Hasc' : ascii ((cur ++ [c]) ++ rest)) by (rewrite <- app_assoc; exact Hasc).
    cbn [positions] in Hidx. cbn [sa]. destruct m.
    + destruct idxs as [|[p e'] idxs]; [discriminate|]. cbn [map fst] in Hidx.
      injection Hidx as Hp Hidx. subst p.
      replace (blen cur + 1) with ((blen cur + 1) - 0) by lia.
      rewrite substr_range.
      2:{ pose proof (blen_nonneg cur). lia. }
      2:{ rewrite blen_app. change (blen (c :: rest)) with (Z.of_nat (S (length rest))). lia. }
      cbn [bind].
      replace (cur ++ c :: rest) with ([] ++ (cur ++ [c]) ++ rest) by (cbn [app]; rewrite <- app_assoc; reflexivity).
      rewrite (byte_range_mid3 [] (cur ++ [c]) rest) by (rewrite ?blen_app; change (blen [c]) with 1; change (blen []) with 0; lia).
      cbn [app].
      replace ((cur ++ [c]) ++ rest) with ((cur ++ [c]) ++ [] ++ rest) by reflexivity.
      rewrite (sw_inner_pieces rest mask (cur ++ [c]) [] (blen cur) e' idxs); try assumption; try lia.
      * rewrite to_lower_ascii.
        2:{ unfold ascii in *. apply Forall_app in Hasc'. tauto. }
        cbn [map]. rewrite join_cons by (intro E; apply map_eq_nil in E; exact (sa_nonnil _ _ _ E)).
        rewrite <- !app_assoc. reflexivity.
      * rewrite blen_app. change (blen [c]) with 1. lia.
      * rewrite blen_app. change (blen [c]) with 1. change (blen []) with 0. rewrite Hidx. f_equal. lia.
    + replace (cur ++ c :: rest) with ((cur ++ [c]) ++ rest) by (rewrite <- app_assoc; reflexivity).
      apply IH; try assumption; try lia.
      rewrite blen_app. change (blen [c]) with 1. exact Hidx.
Qed.

(* cutting by the boundary mask and lower-casing gives the pieces of the reference *)
Lemma sa_segs : forall w cur,
  map lower_w (sa cur (bnd w) w) =
  match segs w with
  | h :: r => (lower_w cur ++ h) :: r
  | [] => [lower_w cur]
  end.
Proof.
  induction w as [|a t IH]; intros cur; [reflexivity|].
  cbn [bnd sa segs]. destruct t as [|b t'].
  - cbn [andb]. rewrite andb_false_r. cbn [bnd sa map]. unfold lower_w. rewrite map_app. reflexivity.
  - destruct (is_lower a && is_upper b) eqn:E.
    + cbn [map]. rewrite (IH []). unfold lower_w at 1. rewrite map_app. cbn [map app].
      destruct (segs (b :: t')) as [|h r] eqn:Es.
      * exfalso. cbn [segs] in Es. destruct t'; [discriminate|]. destruct (is_lower b && is_upper z); [discriminate|].
        destruct (segs (z :: t')); discriminate.
      * reflexivity.
    + rewrite (IH (cur ++ [a])). unfold lower_w. rewrite map_app. cbn [map].
      destruct (segs (b :: t')) as [|h r]; rewrite <- ?app_assoc; reflexivity.
Qed.

Lemma segs_nonnil w : w <> [] -> segs w <> [].
Proof.
  destruct w as [|a t]; [congruence|]. intros _. cbn [segs]. destruct t as [|b t']; [discriminate|].
  destruct (is_lower a && is_upper b); [discriminate|]. destruct (segs (b :: t')); discriminate.
Qed.

(* B, assembled: the chunk of an ASCII letter/digit word *)
Lemma chunk_res_segs w : alnum_w w -> w <> [] -> chunk_res w = Ok (join d (segs w)).
Proof.
  intros Hw Hne. pose proof (alnum_w_ascii w Hw) as Ha. unfold chunk_res.
  pose proof (first_piece w (bnd w) [] (find_all_lu 0 0 w) (bnd_length w) Ha) as H.
  cbn [app] in H. rewrite H.
  - rewrite sa_segs. destruct (segs w) as [|h r] eqn:E; [exfalso; exact (segs_nonnil w Hne E)|].
    reflexivity.
  - change (blen []) with 0. apply find_all_positions; [exact Ha|lia].
Qed.

(* ------------------------------------------------------------------ *)
(* C. the loops over the chunks                                        *)

Lemma sw_inner_sb str : forall idxs sb x,
  sw_inner to_lower str d idxs (sb ++ x) =
  (r <- sw_inner to_lower str d idxs x ;; Ok (sb ++ r)).
Proof.
  induction idxs as [|[a e] rest IH]; intros sb x; [reflexivity|].
  destruct rest as [|[b e'] rest'].
  - rewrite !sw_inner_last. destruct (substr str (a + 1) (blen str - a + 1)); cbn [bind]; try reflexivity.
    rewrite app_assoc. reflexivity.
  - rewrite !sw_inner_cons2. destruct (substr str (a + 1) (b - a)) as [s0| |]; cbn [bind]; try reflexivity.
    rewrite <- app_assoc. apply IH.
Qed.

(* what the outer loop writes for the list of chunks *)
Fixpoint render (cs : list (list Z)) : list Z :=
  match cs with
  | [] => []
  | c :: rest =>
      (if nonempty c then join d (segs c) ++ (match rest with [] => [] | _ => d end) else [])
      ++ render rest
  end.

Lemma sw_loop_render : forall cs n i sb,
  Forall alnum_w cs -> n = i + Z.of_nat (length cs) -> 0 <= i ->
  sw_loop to_lower d n i cs sb = Ok (sb ++ render cs).
Proof.
  induction cs as [|c rest IH]; intros n i sb Hcs Hn Hi.
  - cbn [sw_loop render]. rewrite app_nil_r. reflexivity.
  - apply Forall_cons_iff in Hcs as [Hc Hrest].
    cbn [sw_loop render]. rewrite decode_len_zero by (apply alnum_w_ascii; exact Hc).
    cbn [length] in Hn.
    destruct (nonempty c) eqn:Ene; cbn [negb].
    + assert (Hne : c <> []) by (destruct c; [discriminate|discriminate]).
      pose proof (chunk_res_segs c Hc Hne) as HC. unfold chunk_res in HC.
      set (tail := if (1 <? n) && negb (i =? n - 1) then d else []).
      assert (Htail : tail = match rest with [] => [] | _ => d end).
      { unfold tail. destruct rest as [|c1 rest1].
        - cbn [length] in Hn. destruct (Z.eqb_spec i (n - 1)); [|lia]. rewrite andb_false_r. reflexivity.
        - cbn [length] in Hn. destruct (Z.eqb_spec i (n - 1)); [lia|].
          destruct (Z.ltb_spec 1 n); [reflexivity|lia]. }
      destruct (find_all_lu 0 0 c) as [|[a0 e0] idxs] eqn:Ef.
      * injection HC as HC. rewrite HC. rewrite IH by (try assumption; lia).
        rewrite Htail, <- !app_assoc. reflexivity.
      * destruct (substr c 0 (a0 + 1)) as [s0| |]; cbn [bind] in HC |- *; try discriminate.
        rewrite sw_inner_sb, HC. cbn [bind]. rewrite IH by (try assumption; lia).
        rewrite Htail, <- !app_assoc. reflexivity.
    + cbn [app]. apply IH; [assumption|lia|lia].
Qed.

End Chunk.

(* CamelCase: the first non-empty chunk lower-cased, the others capitalised *)
Fixpoint camel_render (first : bool) (cs : list (list Z)) : list Z :=
  match cs with
  | [] => []
  | c :: rest =>
      if nonempty c then (if first then lower_w c else cap_w c) ++ camel_render false rest
      else camel_render first rest
  end.

Lemma camel_loop_render : forall cs i idx sb,
  Forall alnum_w cs -> 0 <= idx <= i ->
  camel_loop to_lower to_upper i idx cs sb = sb ++ camel_render (idx =? i) cs.
Proof.
  induction cs as [|c rest IH]; intros i idx sb Hcs Hi.
  - cbn. rewrite app_nil_r. reflexivity.
  - apply Forall_cons_iff in Hcs as [Hc Hrest].
    cbn [camel_loop camel_render]. rewrite decode_len_zero by (apply alnum_w_ascii; exact Hc).
    destruct (nonempty c) eqn:Ene; cbn [negb].
    + assert (Hcond : (i =? 0) || (i =? idx) = (idx =? i)).
      { destruct (Z.eqb_spec idx i); destruct (Z.eqb_spec i idx); destruct (Z.eqb_spec i 0); cbn; try reflexivity; lia. }
      rewrite Hcond. destruct (idx =? i) eqn:E.
      * rewrite IH by (try assumption; lia). rewrite to_lower_ascii by (apply alnum_w_ascii; exact Hc).
        destruct (Z.eqb_spec idx (i + 1)); [lia|]. rewrite <- app_assoc. reflexivity.
      * rewrite IH by (try assumption; lia). rewrite capitalize_ascii by (apply alnum_w_ascii; exact Hc).
        destruct (Z.eqb_spec idx (i + 1)); [apply Z.eqb_neq in E; lia|]. rewrite <- app_assoc. reflexivity.
    + rewrite IH by (try assumption; lia).
      replace (idx + 1 =? i + 1) with (idx =? i); [reflexivity|].
      destruct (Z.eqb_spec idx i); destruct (Z.eqb_spec (idx + 1) (i + 1)); try reflexivity; lia.
Qed.

Lemma camel_render_words cs :
  camel_render true cs =
  match filter nonempty cs with [] => [] | w :: ws => lower_w w ++ concat (map cap_w ws) end.
Proof.
  assert (Hf : forall cs, camel_render false cs = concat (map cap_w (filter nonempty cs))).
  { induction cs0 as [|c rest IH]; [reflexivity|]. cbn [camel_render filter].
    destruct (nonempty c); [cbn [map concat]; rewrite IH; reflexivity|exact IH]. }
  induction cs as [|c rest IH]; [reflexivity|]. cbn [camel_render filter].
  destruct (nonempty c); [rewrite Hf; reflexivity|exact IH].
Qed.

(* ------------------------------------------------------------------ *)
(* D. the chunks are the words                                         *)

Lemma split_sp_cons s : exists h r, split_sp s = h :: r.
Proof.
  induction s as [|c t [h [r IH]]]; [eexists _, _; reflexivity|].
  cbn [split_sp]. destruct (c =? 32); [eexists _, _; reflexivity|]. rewrite IH. eexists _, _; reflexivity.
Qed.

Lemma split_na_cons s : exists h r, split_na s = h :: r.
Proof.
  induction s as [|c t [h [r IH]]]; [eexists _, _; reflexivity|].
  cbn [split_na]. destruct (is_alnum c); [|eexists _, _; reflexivity]. rewrite IH. eexists _, _; reflexivity.
Qed.

(* every separator byte replaced by a space, one for one *)
Definition norm (t : list Z) : list Z := map (fun c => if is_sep c then 32 else c) t.

Lemma is_sep_sepc c : is_sep c = is_sepc c.
Proof. reflexivity. Qed.

Lemma split_sp_norm t :
  Forall (fun c => word_char c = true) t -> split_sp (norm t) = split_na t.
Proof.
  induction 1 as [|c t Hc Ht IH]; [reflexivity|].
  cbn [norm map split_sp split_na]. fold (norm t). rewrite IH.
  unfold word_char in Hc. rewrite is_sep_sepc.
  destruct (is_alnum c) eqn:Ea.
  - assert (is_sepc c = false) by (unfold is_alnum, is_upper, is_lower, is_digit, is_sepc in *; lia).
    rewrite H. destruct (Z.eqb_spec c 32); [unfold is_alnum, is_upper, is_lower, is_digit in Ea; lia|].
    reflexivity.
  - destruct (is_sepc c) eqn:Es; [reflexivity|].
    destruct (Z.eqb_spec c 32); [reflexivity|]. cbn in Hc. lia.
Qed.

(* collapsing runs of separators only removes empty chunks *)
Lemma replace_seps_chunks t :
  (forall h1 r1 h2 r2, split_sp (replace_seps false t) = h1 :: r1 -> split_sp (norm t) = h2 :: r2 ->
                       h1 = h2 /\ filter nonempty r1 = filter nonempty r2)
  /\ filter nonempty (split_sp (replace_seps true t)) = filter nonempty (split_sp (norm t)).
Proof.
  induction t as [|c t [IHA IHB]].
  - split; [|reflexivity]. cbn. intros h1 r1 h2 r2 E1 E2. injection E1 as <- <-. injection E2 as <- <-. tauto.
  - assert (IHA' : filter nonempty (split_sp (replace_seps false t)) = filter nonempty (split_sp (norm t))).
    { destruct (split_sp_cons (replace_seps false t)) as (h1 & r1 & E1).
      destruct (split_sp_cons (norm t)) as (h2 & r2 & E2).
      destruct (IHA _ _ _ _ E1 E2) as [-> Hr]. rewrite E1, E2. cbn [filter]. rewrite Hr. reflexivity. }
    cbn [replace_seps norm map]. fold (norm t). destruct (is_sep c) eqn:Es.
    + split.
      * cbn [split_sp]. rewrite Z.eqb_refl. intros h1 r1 h2 r2 E1 E2.
        injection E1 as <- <-. injection E2 as <- <-. split; [reflexivity|exact IHB].
      * cbn [split_sp]. rewrite Z.eqb_refl. cbn [filter nonempty]. exact IHB.
    + cbn [split_sp]. destruct (Z.eqb_spec c 32).
      * split; [|cbn [filter nonempty]; exact IHA'].
        intros h1 r1 h2 r2 E1 E2. injection E1 as <- <-. injection E2 as <- <-. split; [reflexivity|exact IHA'].
      * destruct (split_sp_cons (replace_seps false t)) as (h1' & r1' & E1').
        destruct (split_sp_cons (norm t)) as (h2' & r2' & E2').
        destruct (IHA _ _ _ _ E1' E2') as [-> Hr]. rewrite E1', E2'. split.
        -- intros h1 r1 h2 r2 E1 E2. injection E1 as <- <-. injection E2 as <- <-. split; [reflexivity|exact Hr].
        -- cbn [filter nonempty]. rewrite Hr. reflexivity.
Qed.

Lemma chunks_words t :
  Forall (fun c => word_char c = true) t ->
  filter nonempty (split_sp (replace_seps false t)) = words t.
Proof.
  intros H. unfold words. rewrite <- split_sp_norm by exact H.
  destruct (replace_seps_chunks t) as [HA _].
  destruct (split_sp_cons (replace_seps false t)) as (h1 & r1 & E1).
  destruct (split_sp_cons (norm t)) as (h2 & r2 & E2).
  destruct (HA _ _ _ _ E1 E2) as [-> Hr]. rewrite E1, E2. cbn [filter]. rewrite Hr. reflexivity.
Qed.

(* TrimSpace on the word domain strips the spaces at both ends *)
Fixpoint strip_l (s : list Z) : list Z :=
  match s with
  | c :: t => if c =? 32 then strip_l t else s
  | [] => []
  end.

Lemma space_head_word c t : word_char c = true -> space_head (c :: t) = if c =? 32 then 1%nat else O.
Proof.
  intros H. apply word_char_ascii in H as Ha. unfold space_head, is_ascii_space, is_space2, is_space3.
  destruct (Z.eqb_spec c 32) as [->|Hn]; [reflexivity|].
  assert (E1 : (9 <=? c) && (c <=? 13) = false).
  { unfold word_char, is_alnum, is_upper, is_lower, is_digit, is_sepc in H. lia. }
  rewrite E1. cbn [orb]. destruct t as [|b t']; [reflexivity|].
  destruct (Z.eqb_spec c 194); [lia|]. cbn [andb].
  destruct t' as [|c2 t'']; [reflexivity|].
  destruct (Z.eqb_spec c 225); [lia|]. destruct (Z.eqb_spec c 226); [lia|]. destruct (Z.eqb_spec c 227); [lia|].
  reflexivity.
Qed.

Lemma space_last_word c t : word_char c = true -> space_last (c :: t) = if c =? 32 then 1%nat else O.
Proof.
  intros H. apply word_char_ascii in H as Ha. unfold space_last, is_ascii_space, is_space2, is_space3.
  destruct (Z.eqb_spec c 32) as [->|Hn]; [reflexivity|].
  assert (E1 : (9 <=? c) && (c <=? 13) = false).
  { unfold word_char, is_alnum, is_upper, is_lower, is_digit, is_sepc in H. lia. }
  rewrite E1. cbn [orb]. destruct t as [|b t']; [reflexivity|].
  destruct (Z.eqb_spec c 133); [lia|]. destruct (Z.eqb_spec c 160); [lia|]. rewrite andb_false_r.
  destruct t' as [|a t'']; [reflexivity|].
  destruct (Z.eqb_spec c 128); [lia|]. destruct (Z.eqb_spec c 159); [lia|].
  destruct (Z.eqb_spec c 168); [lia|]. destruct (Z.eqb_spec c 169); [lia|]. destruct (Z.eqb_spec c 175); [lia|].
  destruct (Z.leb_spec 128 c); [lia|]. cbn [andb orb]. rewrite !andb_false_r. reflexivity.
Qed.

Lemma trim_aux_word w s :
  (forall c t, word_char c = true -> w (c :: t) = if c =? 32 then 1%nat else O) ->
  Forall (fun c => word_char c = true) s -> trim_aux w 0 s = strip_l s.
Proof.
  intros Hw. induction 1 as [|c t Hc Ht IH]; [reflexivity|].
  cbn [trim_aux strip_l]. rewrite Hw by exact Hc. destruct (c =? 32); [exact IH|reflexivity].
Qed.

Lemma strip_l_sub s : Forall (fun c => word_char c = true) s -> Forall (fun c => word_char c = true) (strip_l s).
Proof.
  induction 1 as [|c t Hc Ht IH]; [constructor|]. cbn [strip_l]. destruct (c =? 32); [exact IH|].
  constructor; assumption.
Qed.

Lemma trim_space_word s :
  Forall (fun c => word_char c = true) s ->
  trim_space s = rev (strip_l (rev (strip_l s))).
Proof.
  intros H. unfold trim_space, trim_left, trim_right, rev'. rewrite <- !rev_alt.
  rewrite (trim_aux_word space_head s space_head_word H).
  rewrite (trim_aux_word space_last (rev (strip_l s)) space_last_word); [reflexivity|].
  apply Forall_rev. apply strip_l_sub. exact H.
Qed.

(* stripping spaces at the ends does not change the words *)
Lemma strip_l_spaces s : exists k, s = repeat 32 k ++ strip_l s.
Proof.
  induction s as [|c t [k IH]]; [exists O; reflexivity|].
  cbn [strip_l]. destruct (Z.eqb_spec c 32) as [->|Hn].
  - exists (S k). cbn [repeat app]. rewrite <- IH. reflexivity.
  - exists O. reflexivity.
Qed.

Lemma split_na_spaces_l k s : split_na (repeat 32 k ++ s) = repeat [] k ++ split_na s.
Proof. induction k as [|k IH]; [reflexivity|]. cbn [repeat app split_na]. rewrite IH. reflexivity. Qed.

Lemma split_na_spaces_r s k : split_na (s ++ repeat 32 k) = split_na s ++ repeat [] k.
Proof.
  induction s as [|c t IH].
  - cbn [app]. induction k as [|k IHk]; [reflexivity|].
    cbn [repeat split_na]. change (is_alnum 32) with false. cbn iota. rewrite IHk. reflexivity.
  - cbn [app split_na]. rewrite IH. destruct (is_alnum c); [|reflexivity].
    destruct (split_na_cons t) as (h & r & E). rewrite E. reflexivity.
Qed.

Lemma filter_nonempty_repeat k : filter nonempty (repeat (@nil Z) k) = [].
Proof. induction k; [reflexivity|exact IHk]. Qed.

Lemma words_trim s :
  Forall (fun c => word_char c = true) s -> words (trim_space s) = words s.
Proof.
  intros H. rewrite trim_space_word by exact H.
  destruct (strip_l_spaces s) as [k1 E1].
  destruct (strip_l_spaces (rev (strip_l s))) as [k2 E2].
  set (u := strip_l (rev (strip_l s))) in *.
  assert (E3 : strip_l s = rev u ++ repeat 32 k2).
  { rewrite <- (rev_involutive (strip_l s)), E2, rev_app_distr. f_equal.
    clear. induction k2 as [|k IH]; [reflexivity|]. cbn [repeat rev]. rewrite IH. symmetry. apply repeat_cons. }
  transitivity (words (repeat 32 k1 ++ strip_l s)); [|rewrite <- E1; reflexivity].
  rewrite E3. unfold words.
  rewrite split_na_spaces_l, split_na_spaces_r, !filter_app, !filter_nonempty_repeat, app_nil_r. reflexivity.
Qed.

Lemma trim_space_word_chars s :
  Forall (fun c => word_char c = true) s -> Forall (fun c => word_char c = true) (trim_space s).
Proof.
  intros H. rewrite trim_space_word by exact H.
  apply Forall_rev, strip_l_sub, Forall_rev, strip_l_sub. exact H.
Qed.

(* D, assembled *)
Lemma chunks_of_input s :
  word_dom s = true ->
  filter nonempty (split_sp (replace_seps false (trim_space s))) = words s.
Proof.
  intros H. apply word_dom_forall in H.
  rewrite chunks_words by (apply trim_space_word_chars; exact H). apply words_trim. exact H.
Qed.

Lemma split_na_alnum s : Forall alnum_w (split_na s).
Proof.
  induction s as [|c t IH]; [repeat constructor|].
  cbn [split_na]. destruct (is_alnum c) eqn:E.
  - destruct (split_na t) as [|h r]; [repeat constructor; exact E|].
    inversion IH; subst. constructor; [constructor; assumption|assumption].
  - constructor; [constructor|exact IH].
Qed.

Lemma words_alnum s : Forall alnum_w (words s).
Proof.
  unfold words. pose proof (split_na_alnum s) as H. rewrite Forall_forall in *.
  intros w Hw. apply filter_In in Hw. apply H. tauto.
Qed.

Lemma chunks_alnum s :
  word_dom s = true -> Forall alnum_w (split_sp (replace_seps false (trim_space s))).
Proof.
  intros H. pose proof (chunks_of_input s H) as E. pose proof (words_alnum s) as Hw.
  rewrite Forall_forall in *. intros c Hc. destruct (nonempty c) eqn:En.
  - apply Hw. rewrite <- E. apply filter_In. tauto.
  - destruct c; [constructor|discriminate].
Qed.

(* ------------------------------------------------------------------ *)
(* C + D: the models on the word domain, in terms of the chunk list     *)

Theorem camel_case_words s :
  word_dom s = true -> camel_case to_lower to_upper s = camel_ref s.
Proof.
  intros H. unfold camel_case, camel_ref.
  rewrite camel_loop_render by (try lia; apply chunks_alnum; exact H).
  cbn [app]. rewrite Z.eqb_refl, camel_render_words, chunks_of_input by exact H. reflexivity.
Qed.

Lemma split_with_delim_render s d :
  word_dom s = true ->
  split_with_delim to_lower s d = Ok (render d (split_sp (replace_seps false (trim_space s)))).
Proof.
  intros H. unfold split_with_delim.
  rewrite sw_loop_render by (try lia; apply chunks_alnum; exact H). reflexivity.
Qed.

End Case.

(* ------------------------------------------------------------------ *)
(* E. normal form of the output and the clauses of the property        *)

(* pieces joined by the delimiter, possibly one trailing delimiter *)
Definition nf (d : list Z) (ps : list (list Z)) (tr : bool) : list Z :=
  join d ps ++ (if tr then d else []).

Definition all_empty (cs : list (list Z)) : bool := forallb (fun c => negb (nonempty c)) cs.

(* a trailing delimiter is written iff some chunk is non-empty and the last chunk is empty *)
Fixpoint trail (cs : list (list Z)) : bool :=
  match cs with
  | [] => false
  | c :: rest =>
      if nonempty c
      then match rest with
           | [] => false
           | _ => if all_empty rest then true else trail rest
           end
      else trail rest
  end.

Lemma join_app d l1 l2 :
  l1 <> [] -> l2 <> [] -> join d (l1 ++ l2) = join d l1 ++ d ++ join d l2.
Proof.
  intros H1 H2. induction l1 as [|x l IH]; [congruence|]. destruct l as [|y l].
  - cbn [app]. rewrite join_cons by exact H2. reflexivity.
  - change ((x :: y :: l) ++ l2) with (x :: ((y :: l) ++ l2)).
    rewrite join_cons by discriminate. rewrite IH by discriminate.
    rewrite (join_cons d x (y :: l)) by discriminate. rewrite <- !app_assoc. reflexivity.
Qed.

Lemma all_empty_filter cs : all_empty cs = true -> filter nonempty cs = [] /\ trail cs = false.
Proof.
  induction cs as [|c rest IH]; [tauto|]. cbn [all_empty forallb filter trail]. fold (all_empty rest).
  intros H. apply andb_prop in H as [H1 H2]. destruct (nonempty c); [discriminate|]. apply IH. exact H2.
Qed.

Lemma not_all_empty_filter cs : all_empty cs = false -> filter nonempty cs <> [].
Proof.
  induction cs as [|c rest IH]; [discriminate|]. cbn [all_empty forallb filter]. fold (all_empty rest).
  destruct (nonempty c); [discriminate|]. cbn [negb andb]. exact IH.
Qed.

Lemma flat_map_segs_nonnil ws : ws <> [] -> Forall (fun w => w <> []) ws -> flat_map segs ws <> [].
Proof.
  destruct ws as [|w ws]; [congruence|]. intros _ H. apply Forall_cons_iff in H as [Hw _].
  cbn [flat_map]. intros E. apply app_eq_nil in E as [E _]. exact (segs_nonnil w Hw E).
Qed.

Lemma filter_nonempty_all cs : Forall (fun w : list Z => w <> []) (filter nonempty cs).
Proof.
  rewrite Forall_forall. intros w Hw. apply filter_In in Hw as [_ Hw]. destruct w; [discriminate|discriminate].
Qed.

Lemma render_nf d cs : render d cs = nf d (flat_map segs (filter nonempty cs)) (trail cs).
Proof.
  unfold nf. induction cs as [|c rest IH]; [reflexivity|].
  cbn [render filter trail]. destruct (nonempty c) eqn:En.
  - assert (Hc : c <> []) by (destruct c; [discriminate|discriminate]).
    cbn [flat_map]. destruct rest as [|c1 rest1].
    + cbn [filter flat_map render]. rewrite !app_nil_r. reflexivity.
    + destruct (all_empty (c1 :: rest1)) eqn:Ea.
      * destruct (all_empty_filter _ Ea) as [Ef Et]. rewrite IH, Ef, Et. cbn [flat_map join app].
        rewrite !app_nil_r. reflexivity.
      * rewrite IH. rewrite join_app.
        -- rewrite <- !app_assoc. reflexivity.
        -- apply segs_nonnil. exact Hc.
        -- apply flat_map_segs_nonnil; [apply not_all_empty_filter; exact Ea|apply filter_nonempty_all].
  - cbn [app]. exact IH.
Qed.

(* pieces: non-empty, lower-case letters and digits only *)
Definition lowdig (c : Z) : bool := is_lower c || is_digit c.
Definition piece_ok (p : list Z) : Prop := p <> [] /\ Forall (fun c => lowdig c = true) p.

Lemma lower_b_lowdig c : is_alnum c = true -> lowdig (lower_b c) = true.
Proof. unfold is_alnum, lowdig, lower_b, is_upper, is_lower, is_digit. intros H. destruct ((65 <=? c) && (c <=? 90)) eqn:E; lia. Qed.

Lemma segs_ok w : alnum_w w -> Forall piece_ok (segs w).
Proof.
  induction 1 as [|a t Ha Ht IH]; [constructor|].
  cbn [segs]. destruct t as [|b t'].
  - repeat constructor; [discriminate|apply lower_b_lowdig; exact Ha].
  - destruct (is_lower a && is_upper b).
    + constructor; [|exact IH]. split; [discriminate|]. repeat constructor. apply lower_b_lowdig; exact Ha.
    + destruct (segs (b :: t')) as [|h r]; [repeat constructor; [discriminate|apply lower_b_lowdig; exact Ha]|].
      apply Forall_cons_iff in IH as [[Hh1 Hh2] Hr]. constructor; [|exact Hr].
      split; [discriminate|]. constructor; [apply lower_b_lowdig; exact Ha|exact Hh2].
Qed.

Lemma segs_concat w : concat (segs w) = lower_w w.
Proof.
  induction w as [|a t IH]; [reflexivity|]. cbn [segs]. destruct t as [|b t']; [reflexivity|].
  destruct (is_lower a && is_upper b).
  - cbn [concat app]. rewrite IH. reflexivity.
  - destruct (segs (b :: t')) as [|h r] eqn:E.
    + exfalso. exact (segs_nonnil (b :: t') ltac:(discriminate) E).
    + cbn [concat] in *. unfold lower_w in *.
      change (map lower_b (a :: b :: t')) with (lower_b a :: map lower_b (b :: t')). rewrite <- IH. reflexivity.
Qed.

Lemma flat_map_segs_ok ws : Forall alnum_w ws -> Forall piece_ok (flat_map segs ws).
Proof.
  induction 1 as [|w ws Hw _ IH]; [constructor|]. cbn [flat_map]. apply Forall_app. split; [apply segs_ok; exact Hw|exact IH].
Qed.

Lemma flat_map_segs_concat ws : concat (flat_map segs ws) = lower_w (concat ws).
Proof.
  induction ws as [|w ws IH]; [reflexivity|]. cbn [flat_map concat]. rewrite concat_app, IH, segs_concat.
  unfold lower_w. rewrite map_app. reflexivity.
Qed.

(* a piece of lower-case letters and digits is its own single segment *)
Lemma segs_piece p : piece_ok p -> segs p = [p].
Proof.
  intros [Hne H]. induction H as [|a t Ha Ht IH]; [congruence|].
  assert (La : lower_b a = a).
  { unfold lowdig, lower_b, is_upper, is_lower, is_digit in *. destruct ((65 <=? a) && (a <=? 90)) eqn:E; [lia|reflexivity]. }
  cbn [segs]. destruct t as [|b t']; [rewrite La; reflexivity|].
  assert (Ub : is_upper b = false).
  { apply Forall_cons_iff in Ht as [Hb _]. unfold lowdig, is_upper, is_lower, is_digit in *. lia. }
  rewrite Ub, andb_false_r. rewrite IH by discriminate. rewrite La. reflexivity.
Qed.

Lemma flat_map_segs_pieces ps : Forall piece_ok ps -> flat_map segs ps = ps.
Proof.
  induction 1 as [|p ps Hp _ IH]; [reflexivity|]. cbn [flat_map]. rewrite segs_piece by exact Hp. rewrite IH. reflexivity.
Qed.

Section NF.
Variable dc : Z.
Hypothesis Hdc : is_sepc dc = true.
Let d := [dc].

Lemma lowdig_facts c : lowdig c = true ->
  is_alnum c = true /\ is_upper c = false /\ is_sep c = false /\ (c =? 32) = false /\ lower_b c = c /\ c <> dc.
Proof.
  intros H. unfold is_sepc in Hdc. unfold lowdig, is_alnum, lower_b, is_upper, is_lower, is_digit, is_sep in *.
  repeat split; try lia. destruct ((65 <=? c) && (c <=? 90)) eqn:E; [lia|reflexivity].
Qed.

Lemma dc_facts : is_alnum dc = false /\ is_upper dc = false /\ word_char dc = true /\ (dc =? 32) = false /\ is_sep dc = true.
Proof.
  unfold is_sepc in Hdc. unfold word_char, is_alnum, is_upper, is_lower, is_digit, is_sep, is_sepc. repeat split; lia.
Qed.

Lemma join_d_cons p ps : join d (p :: ps) = p ++ match ps with [] => [] | _ => dc :: join d ps end.
Proof. destruct ps; [cbn; rewrite app_nil_r; reflexivity|reflexivity]. Qed.

(* every byte of the normal form is a letter/digit of a piece or the delimiter *)
Lemma nf_chars ps tr :
  Forall piece_ok ps -> Forall (fun c => lowdig c = true \/ c = dc) (nf d ps tr).
Proof.
  intros H. unfold nf. apply Forall_app. split.
  - induction H as [|p ps [_ Hp] _ IH]; [constructor|]. rewrite join_d_cons. apply Forall_app. split.
    + eapply Forall_impl; [|exact Hp]. intros c Hc. left. exact Hc.
    + destruct ps; [constructor|]. constructor; [right; reflexivity|exact IH].
  - destruct tr; [repeat constructor; right; reflexivity|constructor].
Qed.

Lemma nf_filter_alnum ps tr :
  Forall piece_ok ps -> filter is_alnum (nf d ps tr) = concat ps.
Proof.
  intros H. unfold nf. rewrite filter_app.
  assert (Ht : filter is_alnum (if tr then d else []) = []).
  { destruct tr; [|reflexivity]. cbn. destruct dc_facts as [-> _]. reflexivity. }
  rewrite Ht, app_nil_r.
  induction H as [|p ps [_ Hp] _ IH]; [reflexivity|]. rewrite join_d_cons, filter_app. cbn [concat]. f_equal.
  - clear IH. induction Hp as [|c t Hc _ IHp]; [reflexivity|]. cbn [filter].
    destruct (lowdig_facts c Hc) as [-> _]. rewrite IHp. reflexivity.
  - destruct ps; [reflexivity|]. cbn [filter]. destruct dc_facts as [-> _]. exact IH.
Qed.

(* the normal form is a fixed point of the pipeline.  First the chunks of a normal form: *)
Lemma replace_seps_piece p y b :
  Forall (fun c => lowdig c = true) p -> p <> [] ->
  replace_seps b (p ++ y) = p ++ replace_seps false y.
Proof.
  intros H Hne. revert b. induction H as [|c t Hc Ht IH]; [congruence|]. intros b.
  cbn [app replace_seps]. destruct (lowdig_facts c Hc) as (_ & _ & -> & _). f_equal.
  destruct t as [|c' t']; [reflexivity|]. apply IH. discriminate.
Qed.

Lemma split_sp_piece p y :
  Forall (fun c => lowdig c = true) p -> split_sp (p ++ 32 :: y) = p :: split_sp y.
Proof.
  induction 1 as [|c t Hc Ht IH]; [reflexivity|].
  cbn [app split_sp]. destruct (lowdig_facts c Hc) as (_ & _ & _ & -> & _). rewrite IH. reflexivity.
Qed.

Lemma split_sp_piece_end p : Forall (fun c => lowdig c = true) p -> split_sp p = [p].
Proof.
  induction 1 as [|c t Hc Ht IH]; [reflexivity|].
  cbn [split_sp]. destruct (lowdig_facts c Hc) as (_ & _ & _ & -> & _). rewrite IH. reflexivity.
Qed.

Lemma nf_chunks ps tr :
  Forall piece_ok ps -> ps <> [] ->
  forall b, split_sp (replace_seps b (nf d ps tr)) = ps ++ (if tr then [@nil Z] else []).
Proof.
  intros H. induction H as [|p ps [Hne Hp] Hps IH]; [congruence|]. intros _ b.
  unfold nf in *. rewrite join_d_cons, <- app_assoc. rewrite replace_seps_piece by assumption.
  destruct ps as [|p' ps'].
  - cbn [app]. destruct tr.
    + unfold d. cbn [replace_seps]. destruct dc_facts as (_ & _ & _ & _ & ->).
      rewrite split_sp_piece by exact Hp. reflexivity.
    + cbn [replace_seps]. rewrite app_nil_r. apply split_sp_piece_end. exact Hp.
  - cbn [app replace_seps]. destruct dc_facts as (_ & _ & _ & _ & ->).
    rewrite split_sp_piece by exact Hp. cbn [app]. f_equal.
    apply (IH ltac:(discriminate) true).
Qed.

Lemma trail_pieces ps (tr : bool) :
  Forall piece_ok ps -> ps <> [] -> trail (ps ++ (if tr then [@nil Z] else [])) = tr.
Proof.
  intros H. induction H as [|p ps [Hne Hp] Hps IH]; [congruence|]. intros _.
  assert (En : nonempty p = true) by (destruct p; [congruence|reflexivity]).
  cbn [app trail]. rewrite En. destruct ps as [|p' ps'].
  - destruct tr; reflexivity.
  - assert (En' : nonempty p' = true).
    { apply Forall_cons_iff in Hps as [[Hne' _] _]. destruct p'; [congruence|reflexivity]. }
    cbn [app all_empty forallb]. rewrite En'. cbn [negb andb]. apply IH. discriminate.
Qed.

Lemma filter_nonempty_pieces ps (tr : bool) :
  Forall piece_ok ps -> filter nonempty (ps ++ (if tr then [@nil Z] else [])) = ps.
Proof.
  intros H. rewrite filter_app. assert (Et : filter nonempty (if tr then [@nil Z] else []) = []) by (destruct tr; reflexivity).
  rewrite Et, app_nil_r. induction H as [|p ps [Hne _] _ IH]; [reflexivity|].
  cbn [filter]. destruct p; [congruence|]. cbn [nonempty]. rewrite IH. reflexivity.
Qed.

Lemma strip_l_nospace x : Forall (fun c => (c =? 32) = false) x -> strip_l x = x.
Proof. intros H. destruct H as [|c t Hc _]; [reflexivity|]. cbn [strip_l]. rewrite Hc. reflexivity. Qed.

Lemma nf_word_dom ps tr : Forall piece_ok ps -> word_dom (nf d ps tr) = true.
Proof.
  intros H. apply word_dom_forall. eapply Forall_impl; [|apply nf_chars; exact H].
  intros c [Hc| ->].
  - destruct (lowdig_facts c Hc) as [Ha _]. unfold word_char. rewrite Ha. reflexivity.
  - destruct dc_facts as (_ & _ & Hw & _). exact Hw.
Qed.

Lemma nf_nospace ps tr : Forall piece_ok ps -> Forall (fun c => (c =? 32) = false) (nf d ps tr).
Proof.
  intros H. eapply Forall_impl; [|apply nf_chars; exact H].
  intros c [Hc| ->].
  - destruct (lowdig_facts c Hc) as (_ & _ & _ & E & _). exact E.
  - destruct dc_facts as (_ & _ & _ & E & _). exact E.
Qed.

Lemma trim_space_nf ps tr : Forall piece_ok ps -> trim_space (nf d ps tr) = nf d ps tr.
Proof.
  intros H. rewrite trim_space_word by (apply word_dom_forall, nf_word_dom; exact H).
  rewrite (strip_l_nospace (nf d ps tr)) by (apply nf_nospace; exact H).
  rewrite strip_l_nospace by (apply Forall_rev, nf_nospace; exact H). apply rev_involutive.
Qed.

(* the pipeline's chunk list, rendered again, is the normal form itself *)
Lemma render_nf_fix ps tr :
  Forall piece_ok ps -> (ps = [] -> tr = false) ->
  render d (split_sp (replace_seps false (trim_space (nf d ps tr)))) = nf d ps tr.
Proof.
  intros H Htr. rewrite trim_space_nf by exact H. destruct ps as [|p ps'].
  - rewrite (Htr eq_refl). reflexivity.
  - rewrite nf_chunks by (try assumption; discriminate). rewrite render_nf.
    rewrite filter_nonempty_pieces, trail_pieces by (try assumption; discriminate).
    rewrite flat_map_segs_pieces by exact H. reflexivity.
Qed.

End NF.

Lemma trail_needs_word cs : filter nonempty cs = [] -> trail cs = false.
Proof.
  induction cs as [|c rest IH]; [reflexivity|]. cbn [filter trail]. destruct (nonempty c); [discriminate|exact IH].
Qed.

(* replacing the delimiter of a normal form *)
Lemma nf_subst ps tr :
  Forall piece_ok ps ->
  nf [45] ps tr = map (fun c => if c =? 95 then 45 else c) (nf [95] ps tr).
Proof.
  intros H. unfold nf. rewrite map_app. f_equal; [|destruct tr; reflexivity].
  induction H as [|p ps [_ Hp] _ IH]; [reflexivity|].
  rewrite (join_d_cons 45), (join_d_cons 95), map_app. f_equal.
  - clear IH. induction Hp as [|c t Hc _ IHp]; [reflexivity|]. cbn [map]. rewrite <- IHp. f_equal.
    destruct (Z.eqb_spec c 95); [|reflexivity]. subst c. discriminate.
  - destruct ps; [reflexivity|]. cbn [map]. rewrite Z.eqb_refl. f_equal. exact IH.
Qed.

Lemma concat_filter_nonempty (l : list (list Z)) : concat (filter nonempty l) = concat l.
Proof.
  induction l as [|x l IH]; [reflexivity|]. cbn [filter concat]. destruct x; cbn [nonempty]; [exact IH|].
  cbn [concat]. rewrite IH. reflexivity.
Qed.

Lemma concat_split_na s : concat (split_na s) = filter is_alnum s.
Proof.
  induction s as [|c t IH]; [reflexivity|]. cbn [split_na filter]. destruct (is_alnum c).
  - destruct (split_na_cons t) as (h & r & E). rewrite E in *. cbn [concat app] in *. rewrite IH. reflexivity.
  - cbn [concat app]. exact IH.
Qed.

Lemma concat_words s : concat (words s) = filter is_alnum s.
Proof. unfold words. rewrite concat_filter_nonempty. apply concat_split_na. Qed.

Lemma lower_b_idem c : lower_b (lower_b c) = lower_b c.
Proof.
  unfold lower_b, is_upper. destruct ((65 <=? c) && (c <=? 90)) eqn:E; [|rewrite E; reflexivity].
  destruct ((65 <=? c + 32) && (c + 32 <=? 90)) eqn:E2; [lia|reflexivity].
Qed.

Lemma lower_upper_b c : lower_b (upper_b c) = lower_b c.
Proof.
  unfold lower_b, upper_b, is_upper, is_lower.
  destruct ((97 <=? c) && (c <=? 122)) eqn:E1; [|reflexivity].
  destruct ((65 <=? c - 32) && (c - 32 <=? 90)) eqn:E2; destruct ((65 <=? c) && (c <=? 90)) eqn:E3; lia.
Qed.

Section Clauses.
Variables to_lower to_upper : Z -> Z.
Hypothesis HL : forall c, 0 <= c < 128 -> to_lower c = lower_b c.
Hypothesis HU : forall c, 0 <= c < 128 -> to_upper c = upper_b c.

(* Snake/Kebab on the word domain, in normal form over the pieces of the words *)
Theorem split_with_delim_nf s dc :
  word_dom s = true ->
  exists tr, split_with_delim to_lower s [dc] = Ok (nf [dc] (flat_map segs (words s)) tr)
             /\ (flat_map segs (words s) = [] -> tr = false)
             /\ Forall piece_ok (flat_map segs (words s)).
Proof.
  intros H. rewrite (split_with_delim_render to_lower HL s [dc] H), render_nf, (chunks_of_input s H).
  eexists. split; [reflexivity|]. split.
  - intros E. apply trail_needs_word. rewrite (chunks_of_input s H).
    destruct (words s) as [|w ws] eqn:Ew; [reflexivity|]. exfalso.
    pose proof (flat_map_segs_nonnil (w :: ws) ltac:(discriminate)) as Hn. apply Hn; [|exact E].
    rewrite <- Ew. unfold words. apply filter_nonempty_all.
  - apply flat_map_segs_ok, words_alnum.
Qed.

Theorem delim_idempotent s dc o :
  is_sepc dc = true -> word_dom s = true ->
  split_with_delim to_lower s [dc] = Ok o ->
  word_dom o = true /\ split_with_delim to_lower o [dc] = Ok o.
Proof.
  intros Hdc H Ho. destruct (split_with_delim_nf s dc H) as (tr & E & Htr & Hps).
  rewrite E in Ho. injection Ho as <-. split; [apply nf_word_dom; assumption|].
  rewrite (split_with_delim_render to_lower HL _ [dc]) by (apply nf_word_dom; assumption).
  rewrite render_nf_fix by assumption. reflexivity.
Qed.

Theorem kebab_is_snake_with_dash s o :
  word_dom s = true -> snake_case to_lower s = Ok o ->
  kebab_case to_lower s = Ok (map (fun c => if c =? 95 then 45 else c) o).
Proof.
  intros H Ho. unfold snake_case, kebab_case in *.
  rewrite (split_with_delim_render to_lower HL s [45] H).
  rewrite (split_with_delim_render to_lower HL s [95] H) in Ho. injection Ho as <-.
  rewrite !render_nf. rewrite nf_subst; [reflexivity|].
  rewrite (chunks_of_input s H). apply flat_map_segs_ok, words_alnum.
Qed.

(* the three single-call clauses for Snake/Kebab *)
Theorem delim_clauses_hold s dc :
  is_sepc dc = true -> word_dom s = true ->
  exists o, split_with_delim to_lower s [dc] = Ok o /\
    map lower_b (filter is_alnum o) = map lower_b (filter is_alnum s) /\
    Forall (fun c => is_alnum c = true \/ c = dc) o /\
    Forall (fun c => is_upper c = false) o.
Proof.
  intros Hdc H. destruct (split_with_delim_nf s dc H) as (tr & E & Htr & Hps).
  eexists. split; [exact E|]. split; [|split].
  - rewrite (nf_filter_alnum dc Hdc) by exact Hps. rewrite flat_map_segs_concat, concat_words.
    unfold lower_w. rewrite map_map. apply map_ext. intros c. apply lower_b_idem.
  - eapply Forall_impl; [|apply nf_chars; exact Hps]. intros c [Hc| ->]; [left|right; reflexivity].
    destruct (lowdig_facts dc Hdc c Hc) as [Ha _]. exact Ha.
  - eapply Forall_impl; [|apply nf_chars; exact Hps]. intros c [Hc| ->].
    + destruct (lowdig_facts dc Hdc c Hc) as (_ & Hu & _). exact Hu.
    + destruct (dc_facts dc Hdc) as (_ & Hu & _). exact Hu.
Qed.

End Clauses.

(* ---------- CamelCase clauses, from the reference ---------- *)

Lemma is_upper_lower_b c : is_upper (lower_b c) = false.
Proof.
  unfold lower_b, is_upper. destruct ((65 <=? c) && (c <=? 90)) eqn:E; [|exact E].
  destruct ((65 <=? c + 32) && (c + 32 <=? 90)) eqn:E2; [lia|reflexivity].
Qed.

Lemma is_alnum_lower_b c : is_alnum c = true -> is_alnum (lower_b c) = true.
Proof. unfold is_alnum, lower_b, is_upper, is_lower, is_digit. intros H. destruct ((65 <=? c) && (c <=? 90)) eqn:E; lia. Qed.

Lemma is_alnum_upper_b c : is_alnum c = true -> is_alnum (upper_b c) = true.
Proof. unfold is_alnum, upper_b, is_upper, is_lower, is_digit. intros H. destruct ((97 <=? c) && (c <=? 122)) eqn:E; lia. Qed.

Lemma lower_w_alnum w : alnum_w w -> alnum_w (lower_w w).
Proof. intros H. induction H; constructor; [apply is_alnum_lower_b; assumption|assumption]. Qed.

Lemma cap_w_alnum w : alnum_w w -> alnum_w (cap_w w).
Proof.
  intros H. destruct H as [|c t Hc Ht]; [constructor|]. cbn [cap_w].
  constructor; [apply is_alnum_upper_b; exact Hc|apply lower_w_alnum; exact Ht].
Qed.

Lemma camel_ref_alnum s : alnum_w (camel_ref s).
Proof.
  unfold camel_ref. pose proof (words_alnum s) as H. destruct (words s) as [|w ws]; [constructor|].
  apply Forall_cons_iff in H as [Hw Hws]. apply Forall_app. split; [apply lower_w_alnum; exact Hw|].
  induction Hws as [|x l Hx _ IH]; [constructor|]. cbn [map concat]. apply Forall_app. split; [apply cap_w_alnum; exact Hx|exact IH].
Qed.

Lemma filter_alnum_all w : alnum_w w -> filter is_alnum w = w.
Proof. induction 1 as [|c t Hc _ IH]; [reflexivity|]. cbn [filter]. rewrite Hc, IH. reflexivity. Qed.

Lemma map_lower_cap_w w : map lower_b (cap_w w) = map lower_b w.
Proof.
  destruct w as [|c t]; [reflexivity|]. cbn [cap_w map]. rewrite lower_upper_b. f_equal.
  rewrite map_map. apply map_ext. intros x. apply lower_b_idem.
Qed.

Lemma camel_ref_keeps s :
  map lower_b (filter is_alnum (camel_ref s)) = map lower_b (filter is_alnum s).
Proof.
  rewrite filter_alnum_all by apply camel_ref_alnum. rewrite <- concat_words. unfold camel_ref.
  destruct (words s) as [|w ws]; [reflexivity|]. cbn [concat]. rewrite !map_app. f_equal.
  - unfold lower_w. rewrite map_map. apply map_ext. intros x. apply lower_b_idem.
  - induction ws as [|x l IH]; [reflexivity|]. cbn [map concat]. rewrite !map_app, IH, map_lower_cap_w. reflexivity.
Qed.

Definition mask_of (w : list Z) : list bool :=
  match w with [] => [] | _ :: t => true :: map (fun _ => false) t end.
Definition up_ok (c : Z) (m : bool) : bool := implb (is_upper c) m.

Lemma forallb2_app {A B} (f : A -> B -> bool) a1 m1 a2 m2 :
  forallb2 f a1 m1 = true -> forallb2 f a2 m2 = true -> forallb2 f (a1 ++ a2) (m1 ++ m2) = true.
Proof.
  revert m1. induction a1 as [|x a1 IH]; intros [|y m1] H1 H2; cbn in *; try discriminate; [exact H2|].
  apply andb_prop in H1 as [Hx H1]. rewrite Hx. cbn. apply IH; assumption.
Qed.

Lemma mask_lower_tail t : forallb2 up_ok (map lower_b t) (map (fun _ => false) t) = true.
Proof.
  induction t as [|c t IH]; [reflexivity|]. cbn. unfold up_ok at 1. rewrite is_upper_lower_b. exact IH.
Qed.

Lemma mask_lower w : forallb2 up_ok (lower_w w) (mask_of w) = true.
Proof.
  destruct w as [|c t]; [reflexivity|]. cbn. unfold up_ok at 1. rewrite is_upper_lower_b. apply mask_lower_tail.
Qed.

Lemma mask_cap w : forallb2 up_ok (cap_w w) (mask_of w) = true.
Proof.
  destruct w as [|c t]; [reflexivity|]. cbn. unfold up_ok at 1. rewrite implb_true_r. apply mask_lower_tail.
Qed.

(* every upper-case letter of the CamelCase reference sits on a word initial *)
Lemma camel_ref_mask s :
  forallb2 (fun c m => implb (is_upper c) m) (camel_ref s) (initial_mask (words s)) = true.
Proof.
  change (forallb2 up_ok (camel_ref s) (flat_map mask_of (words s)) = true).
  unfold camel_ref. destruct (words s) as [|w ws]; [reflexivity|]. cbn [flat_map].
  apply forallb2_app; [apply mask_lower|].
  induction ws as [|x l IH]; [reflexivity|]. cbn [map concat flat_map]. apply forallb2_app; [apply mask_cap|exact IH].
Qed.

Lemma camel_clauses_ref s : camel_clauses s (camel_ref s) = true.
Proof.
  unfold camel_clauses, keeps_alnum. rewrite camel_ref_keeps, zlist_eqb_refl, camel_ref_mask.
  rewrite (proj2 (forallb_forall is_alnum (camel_ref s))); [reflexivity|].
  pose proof (camel_ref_alnum s) as H. unfold alnum_w in H. rewrite Forall_forall in H. exact H.
Qed.
