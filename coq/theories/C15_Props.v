(* C15_Props.v — property C15 "String helpers cut, pad, wrap and re-case without
   losing or inventing text", stated over the model of C15_Model.v (string.go
   after the three repairs of fixes/builder-c15 and the Substr repair of
   fixes/deepen-c15 = /repo 6d6c881).  Only statements here; each is
   closed by [exact] of a lemma of Utf8.v / C15_Proofs.v / C15_ProofsCase.v and
   followed by Print Assumptions.

   Strings are lists of bytes; [encode]/[decode] are Go's string([]rune) and
   []rune(string) (Utf8.v).  [to_lower]/[to_upper] stand for unicode.ToLower /
   unicode.ToUpper: every theorem that mentions them holds for EVERY pair of
   functions (rune-wise clauses) or for every pair that maps ASCII as Unicode
   does (case styles on the ASCII word domain). *)

From Gogu Require Import Base Utf8 C15_Model C15_Spec C15_Proofs C15_ProofsCase.
Local Open Scope Z_scope.

(* ================= Substr ================= *)

(* [substr_go] is Substr on Go's 64-bit ints (the wrap-around of every +, - and
   unary - written in); [int64 x] says x is such an int; a Go string has at most
   math.MaxInt bytes.  [substr_ref] is the PHP rule over the integers
   (C15_Spec: negative offset/length count from the end, a non-negative length
   is clipped at the end of the string, a selection not inside the string is
   empty). *)

(* Substr returns exactly the byte range of the rule — for ALL byte strings and
   EVERY int offset and length, math.MaxInt and math.MinInt included *)
Theorem C15_substr_spec : forall s off len,
  int64 off -> int64 len -> blen s <= maxint ->
  substr_go s off len = Ok (substr_ref s off len).
Proof. exact substr_go_ok. Qed.
Print Assumptions C15_substr_spec.

(* ... and in particular the slice expression at its end never panics *)
Theorem C15_substr_never_panics : forall s off len,
  int64 off -> int64 len -> blen s <= maxint -> substr_go s off len <> Panic.
Proof. exact substr_go_never_panics. Qed.
Print Assumptions C15_substr_never_panics.

(* non-vacuity, the three sign combinations and the ends of the int range: "a-é1" (5 bytes) *)
Example C15_substr_examples :
  let s := [97; 45; 195; 169; 49] in
  substr_go s (-4) (-1) = Ok [45; 195; 169] /\          (* 4th from the end up to, not including, the last *)
  substr_go s 1 2 = Ok [45; 195] /\                     (* a byte range may cut a rune *)
  substr_go s (-2) 9 = Ok [169; 49] /\                  (* the length is clipped at the end *)
  substr_go s 1 maxint = Ok [45; 195; 169; 49] /\       (* "from 1 to the end" *)
  substr_go s (-1) maxint = Ok [49] /\ substr_go s minint 1 = Ok [] /\ substr_go s 0 minint = Ok [] /\
  substr_go s 6 1 = Ok [] /\ substr_go s (-6) 1 = Ok [] /\ substr_go s 3 (-3) = Ok [].   (* outside: empty *)
Proof. vm_compute. repeat split. Qed.

(* the same statements in unbounded integer arithmetic ([substr]) are the rule
   for all integers; the calls splitStringWithDelimiter makes (offset, length
   >= 0, offset + length <= len(str) + 2) are ints, so for them the 64-bit
   function IS the unbounded one — which is what the case-style model uses *)
Theorem C15_substr_unbounded_arith : forall s off len, substr s off len = Ok (substr_ref s off len).
Proof. exact substr_ok. Qed.
Print Assumptions C15_substr_unbounded_arith.

Theorem C15_substr_internal_calls : forall s off len,
  blen s + 2 <= maxint -> 0 <= off -> 0 <= len -> off + len <= blen s + 2 ->
  substr_go s off len = substr s off len.
Proof. exact substr_go_internal. Qed.
Print Assumptions C15_substr_internal_calls.

(* ---- witnesses about the code SHIPPED BEFORE /repo 6d6c881 only ([substr_go_unrepaired]:
   end = offset + length, then clipped) — not about the code under test.  The sum wrapped when
   the start was inside the string and start + length exceeded math.MaxInt:
   Substr("abc", 1, math.MaxInt) was "" where the rule selects "bc" ---- *)
Theorem C15_substr_unrepaired_refuted : exists s off len,
  int64 off /\ int64 len /\ blen s <= maxint /\ substr_go_unrepaired s off len <> Ok (substr_ref s off len).
Proof.
  exists [97; 98; 99], 1, maxint. repeat split; try (vm_compute; congruence).
Qed.
Print Assumptions C15_substr_unrepaired_refuted.

(* whenever it happened the result was "" and the rule's selection was not empty;
   everywhere else the shipped code already was the rule *)
Theorem C15_substr_unrepaired_overflow_loses_text : forall s off len,
  int64 off -> int64 len -> blen s <= maxint ->
  substr_go_unrepaired s off len = Ok (if substr_overflows s off len then [] else substr_ref s off len)
  /\ (substr_overflows s off len = true -> substr_ref s off len <> []).
Proof.
  intros s off len Ho Hl Hn. split; [apply substr_go_unrepaired_exact; assumption|].
  intros Hv. exact (proj2 (substr_go_unrepaired_overflow_loses s off len Ho Hl Hn Hv)).
Qed.
Print Assumptions C15_substr_unrepaired_overflow_loses_text.

(* what "the byte range [a,b)" means: the string is pre ++ range ++ post with |pre| = a, |range| = b-a *)
Theorem C15_byte_range_meaning : forall s a b,
  0 <= a <= b -> b <= slen s ->
  exists pre post, s = pre ++ byte_range s a b ++ post /\ slen pre = a /\ slen (byte_range s a b) = b - a.
Proof. exact byte_range_split. Qed.
Print Assumptions C15_byte_range_meaning.

(* ================= SplitAtIndex ================= *)

(* always two parts whose concatenation is the input (no panic); for an index
   inside the string the first part has index+1 bytes *)
Theorem C15_split_at_index_two_parts_concat : forall s i,
  exists a b, split_at_index s i = Ok [a; b] /\ a ++ b = s /\ (0 <= i < blen s -> blen a = i + 1).
Proof. exact split_at_index_two_parts. Qed.
Print Assumptions C15_split_at_index_two_parts_concat.

(* ================= Pad, PadLeft, PadRight ================= *)

(* non-empty token: unchanged when long enough; otherwise exactly [size] bytes,
   the input at the right end, the padding a prefix of token^k *)
Theorem C15_pad_left_spec : forall s size tok,
  tok <> [] ->
  (size <= blen s -> pad_left s size tok = Ok s) /\
  (blen s < size -> exists p, pad_left s size tok = Ok (p ++ s) /\ blen (p ++ s) = size /\ rep_prefix p tok).
Proof. exact pad_left_spec. Qed.
Print Assumptions C15_pad_left_spec.

Theorem C15_pad_right_spec : forall s size tok,
  tok <> [] ->
  (size <= blen s -> pad_right s size tok = Ok s) /\
  (blen s < size -> exists p, pad_right s size tok = Ok (s ++ p) /\ blen (s ++ p) = size /\ rep_prefix p tok).
Proof. exact pad_right_spec. Qed.
Print Assumptions C15_pad_right_spec.

(* Pad: floor((size-len)/2) bytes on the left, ceil on the right *)
Theorem C15_pad_spec : forall s size tok,
  tok <> [] ->
  (size <= blen s -> pad s size tok = Ok s) /\
  (blen s < size -> exists l r, pad s size tok = Ok (l ++ s ++ r) /\ blen (l ++ s ++ r) = size /\
                                blen l = (size - blen s) / 2 /\ blen r = (size - blen s + 1) / 2 /\
                                rep_prefix l tok /\ rep_prefix r tok).
Proof. exact pad_spec. Qed.
Print Assumptions C15_pad_spec.

Theorem C15_pad_never_panics : forall s size tok,
  tok <> [] -> pad s size tok <> Panic /\ pad_left s size tok <> Panic /\ pad_right s size tok <> Panic.
Proof. exact pad_never_panics. Qed.
Print Assumptions C15_pad_never_panics.

(* the decision used by the property checker (C15_Wire.pad_holds) is the clause *)
Theorem C15_rep_prefix_decision : forall p tok, tok <> [] -> (rep_prefixb p tok = true <-> rep_prefix p tok).
Proof. exact rep_prefixb_iff. Qed.
Print Assumptions C15_rep_prefix_decision.

(* non-vacuity: Pad "abc" 8 "_-" = "_-abc_-_" (the case of TestString_Pad); a multi-byte
   token is cut at the byte: Pad "a" 6 "é" = C3 A9 | a | C3 A9 C3  (2 left, 3 right) *)
Example C15_pad_multibyte_example : pad [97] 6 [195; 169] = Ok [195; 169; 97; 195; 169; 195].
Proof. vm_compute. reflexivity. Qed.

Example C15_pad_example : pad [97; 98; 99] 8 [95; 45] = Ok [95; 45; 97; 98; 99; 95; 45; 95].
Proof. vm_compute. reflexivity. Qed.

(* the hypothesis [tok <> []] cannot be dropped: with the empty token and
   size > len the Go code panics (slice beyond the empty repeated token) — the
   promised result does not exist, the property excludes this input *)
Theorem C15_pad_empty_token_panics : forall s size,
  blen s < size ->
  pad_left s size [] = Panic /\ pad_right s size [] = Panic /\ pad s size [] = Panic.
Proof. exact pad_empty_token_panics. Qed.
Print Assumptions C15_pad_empty_token_panics.

(* ================= Wrap / Unwrap ================= *)

Theorem C15_unwrap_wrap : forall s t, unwrap (wrap s t) t = Ok s.
Proof. exact unwrap_wrap. Qed.
Print Assumptions C15_unwrap_wrap.

(* "wrapped by t": starts AND ends with t, with room for both ([wrapped s t] is
   [exists m, s = t ++ m ++ t]); anything else is returned unchanged *)
Theorem C15_unwrap_unwrapped_unchanged : forall s t, ~ wrapped s t -> unwrap s t = Ok s.
Proof. exact unwrap_unwrapped_unchanged. Qed.
Print Assumptions C15_unwrap_unwrapped_unchanged.

Theorem C15_unwrap_wrapped_middle : forall s t m, s = t ++ m ++ t -> unwrap s t = Ok m.
Proof. exact unwrap_wrapped. Qed.
Print Assumptions C15_unwrap_wrapped_middle.

(* both at once, as the function the property checker compares with: [unwrap_ref] strips
   exactly when [wrappedb] — starts with t, ends with t, length >= 2|t| — and that decision
   is [wrapped] *)
Theorem C15_unwrap_spec : forall s t, unwrap s t = Ok (unwrap_ref s t).
Proof. exact unwrap_spec. Qed.
Print Assumptions C15_unwrap_spec.

Theorem C15_wrapped_decision : forall s t, wrappedb s t = true <-> wrapped s t.
Proof. exact wrappedb_iff. Qed.
Print Assumptions C15_wrapped_decision.

(* self-overlapping token: "aaa" starts and ends with "aa" but is not wrapped by it; "aaaa" is *)
Example C15_unwrap_overlap_example :
  ~ wrapped [97; 97; 97] [97; 97] /\ unwrap [97; 97; 97] [97; 97] = Ok [97; 97; 97]
  /\ unwrap [97; 97; 97; 97] [97; 97] = Ok [].
Proof.
  split; [|vm_compute; split; reflexivity].
  intros W. apply wrappedb_iff in W. vm_compute in W. discriminate.
Qed.

Theorem C15_unwrap_never_panics : forall s t, unwrap s t <> Panic.
Proof. exact unwrap_never_panics. Qed.
Print Assumptions C15_unwrap_never_panics.

(* non-vacuity of [~ wrapped]: "ab" is not wrapped by "a", "abaXY" neither (the two §7 witnesses) *)
Example C15_not_wrapped_example : ~ wrapped [97; 98] [97] /\ ~ wrapped [97; 98; 97; 88; 89] [97].
Proof.
  split; intros [m H].
  - destruct m as [|x [|y m]]; cbn in H; discriminate.
  - destruct m as [|x1 [|x2 [|x3 [|x4 [|x5 m]]]]]; cbn in H; discriminate.
Qed.

(* ================= UTF-8, WrapAllRune, ReverseStr ================= *)

Theorem C15_utf8_roundtrip : forall rs, Forall valid_rune rs -> decode (encode rs) = rs.
Proof. exact decode_encode. Qed.
Print Assumptions C15_utf8_roundtrip.

(* WrapAllRune wraps every rune *)
Theorem C15_wrap_all_rune_spec : forall rs t,
  Forall valid_rune rs ->
  wrap_all_rune (encode rs) t = concat (map (fun r => t ++ encode_rune r ++ t) rs).
Proof. exact wrap_all_rune_spec. Qed.
Print Assumptions C15_wrap_all_rune_spec.

(* ReverseStr reverses runes (the two-index swap loop, with the fuel it is given, is [rev]) *)
Theorem C15_reverse_str_runes : forall rs, Forall valid_rune rs -> reverse_str (encode rs) = encode (rev rs).
Proof. exact reverse_str_runes. Qed.
Print Assumptions C15_reverse_str_runes.

(* on arbitrary bytes (invalid UTF-8 included) it reverses what the range loop sees *)
Theorem C15_reverse_str_bytes : forall s, reverse_str s = encode (rev (decode s)).
Proof. exact reverse_str_decode. Qed.
Print Assumptions C15_reverse_str_bytes.

(* Invalid UTF-8 is outside the clause ("wraps every rune", "reverses runes") but not
   outside the model: Go's range loop / []rune(s) yield U+FFFD for every byte that does not
   start a well-formed sequence, and both functions then act on those runes.  So on ANY byte
   string they are the clause applied to the sanitised string [encode (decode s)] *)
Theorem C15_wrap_all_rune_bytes : forall s t,
  bytes s ->
  wrap_all_rune s t = concat (map (fun r => t ++ encode_rune r ++ t) (decode s))
  /\ Forall valid_rune (decode s)
  /\ wrap_all_rune s t = wrap_all_rune (encode (decode s)) t.
Proof. exact wrap_all_rune_bytes. Qed.
Print Assumptions C15_wrap_all_rune_bytes.

Theorem C15_reverse_str_sanitised : forall s,
  bytes s -> reverse_str s = encode (rev (decode s)) /\ reverse_str s = reverse_str (encode (decode s)).
Proof. exact reverse_str_bytes. Qed.
Print Assumptions C15_reverse_str_sanitised.

(* "\xff a é": the stray byte becomes U+FFFD (EF BF BD) *)
Example C15_invalid_utf8_example :
  bytes [255; 97; 195; 169] /\ decode [255; 97; 195; 169] = [65533; 97; 233]
  /\ reverse_str [255; 97; 195; 169] = [195; 169; 97; 239; 191; 189]
  /\ wrap_all_rune [255; 97] [45] = [45; 239; 191; 189; 45; 45; 97; 45].
Proof. split; [repeat constructor; lia|vm_compute; repeat split]. Qed.

(* ================= ToLower / ToUpper / Capitalize ================= *)

(* rune by rune the case mapping of package unicode (any functions to_lower/to_upper) *)
Theorem C15_to_lower_map : forall (to_lower : Z -> Z) rs,
  Forall valid_rune rs -> to_lower_str to_lower (encode rs) = encode (map to_lower rs).
Proof. exact to_lower_runes. Qed.
Print Assumptions C15_to_lower_map.

Theorem C15_to_upper_map : forall (to_upper : Z -> Z) rs,
  Forall valid_rune rs -> to_upper_str to_upper (encode rs) = encode (map to_upper rs).
Proof. exact to_upper_runes. Qed.
Print Assumptions C15_to_upper_map.

Theorem C15_capitalize_map : forall (to_lower to_upper : Z -> Z) r rs,
  Forall valid_rune (r :: rs) ->
  capitalize to_lower to_upper (encode (r :: rs)) = encode (to_upper r :: map to_lower rs).
Proof. exact capitalize_runes. Qed.
Print Assumptions C15_capitalize_map.

(* on ANY byte string: the first rune the range loop sees is upper-cased, the others lower-cased *)
Theorem C15_capitalize_bytes : forall (to_lower to_upper : Z -> Z) s,
  capitalize to_lower to_upper s =
  match decode s with [] => [] | r :: rs => encode (to_upper r :: map to_lower rs) end.
Proof. exact capitalize_decode. Qed.
Print Assumptions C15_capitalize_bytes.

(* the executable oracle on letters outside ASCII, alone: é -> É, Ö -> ö, ſ -> S (2 bytes to 1),
   Ⱥ -> ⱥ (2 bytes to 3), and a string without any ASCII letter is still mapped *)
Example C15_case_map_non_ascii_example :
  to_upper_str tbl_upper [195; 169] = [195; 137] /\ to_lower_str tbl_lower [195; 150] = [195; 182]
  /\ to_upper_str tbl_upper [197; 191] = [83] /\ to_lower_str tbl_lower [200; 186] = [226; 177; 165]
  /\ capitalize tbl_lower tbl_upper [195; 182; 195; 150] = [195; 150; 195; 182].
Proof. vm_compute. repeat split. Qed.

(* ================= CamelCase / SnakeCase / KebabCase ================= *)

(* Domain: [word_dom s = true] — every byte is an ASCII letter, a digit, a
   space, '-', '_' or '&'.  Oracle: any to_lower/to_upper that agree with
   Unicode on ASCII ([lower_b]/[upper_b]). *)
Definition ascii_case (to_lower to_upper : Z -> Z) : Prop :=
  (forall c, 0 <= c < 128 -> to_lower c = lower_b c) /\ (forall c, 0 <= c < 128 -> to_upper c = upper_b c).

(* non-vacuity: the executable table is such an oracle, and the domain is inhabited
   by " Foo_barBaz-&9 " *)
Example C15_table_is_ascii_case : ascii_case tbl_lower tbl_upper.
Proof.
  split; intros c H; unfold tbl_lower, tbl_upper, lower_b, upper_b, is_upper, is_lower;
    (destruct (Z.ltb_spec c 256) as [_|H256]; [|lia]).
  - destruct ((65 <=? c) && (c <=? 90)) eqn:E.
    + rewrite orb_true_l. reflexivity.
    + destruct ((192 <=? c) && (c <=? 222) && negb (c =? 215)) eqn:E2; [lia|reflexivity].
  - destruct ((97 <=? c) && (c <=? 122)) eqn:E.
    + rewrite orb_true_l. reflexivity.
    + destruct ((224 <=? c) && (c <=? 254) && negb (c =? 247)) eqn:E2; [lia|].
      cbn [orb]. destruct (Z.eqb_spec c 181); [lia|]. destruct (Z.eqb_spec c 255); [lia|]. reflexivity.
Qed.
Example C15_word_dom_example :
  word_dom [32; 70; 111; 111; 95; 98; 97; 114; 66; 97; 122; 45; 38; 57; 32] = true
  /\ snake_case tbl_lower [32; 70; 111; 111; 95; 98; 97; 114; 66; 97; 122; 45; 38; 57; 32]
     = Ok [102; 111; 111; 95; 98; 97; 114; 95; 98; 97; 122; 95; 57]          (* foo_bar_baz_9 *)
  /\ camel_case tbl_lower tbl_upper [32; 70; 111; 111; 95; 98; 97; 114; 66; 97; 122; 45; 38; 57; 32]
     = [102; 111; 111; 66; 97; 114; 98; 97; 122; 57].                        (* fooBarbaz9 *)
Proof. vm_compute. repeat split. Qed.

(* CamelCase, completely: the first word lower-cased, every other word
   capitalised (first letter upper, rest lower), nothing else *)
Theorem C15_camel_case_words : forall to_lower to_upper s,
  ascii_case to_lower to_upper -> word_dom s = true ->
  camel_case to_lower to_upper s =
  match words s with [] => [] | w :: ws => lower_w w ++ concat (map cap_w ws) end.
Proof. intros tl tu s [HL HU] H. exact (camel_case_words tl tu HL HU s H). Qed.
Print Assumptions C15_camel_case_words.

(* Snake/KebabCase, up to the trailing-delimiter quirk: the lower-cased pieces
   of the words (a word is cut before an upper-case letter that follows a
   lower-case letter) joined by the delimiter, plus possibly one trailing delimiter *)
Theorem C15_delim_case_pieces : forall to_lower to_upper s dc,
  ascii_case to_lower to_upper -> word_dom s = true ->
  exists tr : bool,
    split_with_delim to_lower s [dc]
    = Ok (join [dc] (flat_map segs (words s)) ++ (if tr then [dc] else []))
    /\ (flat_map segs (words s) = [] -> tr = false).
Proof.
  intros tl tu s dc [HL HU] H. destruct (split_with_delim_nf tl HL s dc H) as (tr & E & Htr & _).
  exists tr. split; [exact E|exact Htr].
Qed.
Print Assumptions C15_delim_case_pieces.

(* (1) every letter and digit kept, in order, modulo case *)
Theorem C15_letters_digits_preserved : forall to_lower to_upper s,
  ascii_case to_lower to_upper -> word_dom s = true ->
  exists sn ke,
    snake_case to_lower s = Ok sn /\ kebab_case to_lower s = Ok ke /\
    map lower_b (filter is_alnum (camel_case to_lower to_upper s)) = map lower_b (filter is_alnum s) /\
    map lower_b (filter is_alnum sn) = map lower_b (filter is_alnum s) /\
    map lower_b (filter is_alnum ke) = map lower_b (filter is_alnum s).
Proof.
  intros tl tu s [HL HU] H.
  destruct (delim_clauses_hold tl HL s 95 eq_refl H) as (sn & E1 & K1 & _).
  destruct (delim_clauses_hold tl HL s 45 eq_refl H) as (ke & E2 & K2 & _).
  exists sn, ke. repeat split; try assumption.
  rewrite (camel_case_words tl tu HL HU s H). apply camel_ref_keeps.
Qed.
Print Assumptions C15_letters_digits_preserved.

(* (2) no separator other than the style's own: CamelCase none, Snake '_', Kebab '-' *)
Theorem C15_only_own_separator : forall to_lower to_upper s,
  ascii_case to_lower to_upper -> word_dom s = true ->
  exists sn ke,
    snake_case to_lower s = Ok sn /\ kebab_case to_lower s = Ok ke /\
    Forall (fun c => is_alnum c = true) (camel_case to_lower to_upper s) /\
    Forall (fun c => is_alnum c = true \/ c = 95) sn /\
    Forall (fun c => is_alnum c = true \/ c = 45) ke.
Proof.
  intros tl tu s [HL HU] H.
  destruct (delim_clauses_hold tl HL s 95 eq_refl H) as (sn & E1 & _ & K1 & _).
  destruct (delim_clauses_hold tl HL s 45 eq_refl H) as (ke & E2 & _ & K2 & _).
  exists sn, ke. repeat split; try assumption.
  rewrite (camel_case_words tl tu HL HU s H). apply camel_ref_alnum.
Qed.
Print Assumptions C15_only_own_separator.

(* (3) lower-case, except CamelCase's word initials: Snake/Kebab contain no
   upper-case letter; every upper-case letter of CamelCase stands at the
   position of a word initial ([initial_mask]: the output has exactly the
   letters and digits of the words, position by position) *)
Theorem C15_lower_except_camel_initials : forall to_lower to_upper s,
  ascii_case to_lower to_upper -> word_dom s = true ->
  exists sn ke,
    snake_case to_lower s = Ok sn /\ kebab_case to_lower s = Ok ke /\
    Forall (fun c => is_upper c = false) sn /\
    Forall (fun c => is_upper c = false) ke /\
    forallb2 (fun c m => implb (is_upper c) m) (camel_case to_lower to_upper s) (initial_mask (words s)) = true.
Proof.
  intros tl tu s [HL HU] H.
  destruct (delim_clauses_hold tl HL s 95 eq_refl H) as (sn & E1 & _ & _ & K1).
  destruct (delim_clauses_hold tl HL s 45 eq_refl H) as (ke & E2 & _ & _ & K2).
  exists sn, ke. repeat split; try assumption.
  rewrite (camel_case_words tl tu HL HU s H). apply camel_ref_mask.
Qed.
Print Assumptions C15_lower_except_camel_initials.

(* (4) Snake and Kebab are idempotent (their output is again in the domain) *)
Theorem C15_snake_idempotent : forall to_lower to_upper s o,
  ascii_case to_lower to_upper -> word_dom s = true ->
  snake_case to_lower s = Ok o -> word_dom o = true /\ snake_case to_lower o = Ok o.
Proof. intros tl tu s o [HL HU] H Ho. exact (delim_idempotent tl HL s 95 o eq_refl H Ho). Qed.
Print Assumptions C15_snake_idempotent.

Theorem C15_kebab_idempotent : forall to_lower to_upper s o,
  ascii_case to_lower to_upper -> word_dom s = true ->
  kebab_case to_lower s = Ok o -> word_dom o = true /\ kebab_case to_lower o = Ok o.
Proof. intros tl tu s o [HL HU] H Ho. exact (delim_idempotent tl HL s 45 o eq_refl H Ho). Qed.
Print Assumptions C15_kebab_idempotent.

(* (5) Kebab is Snake with '-' for '_' *)
Theorem C15_kebab_is_snake_with_dash : forall to_lower to_upper s o,
  ascii_case to_lower to_upper -> word_dom s = true ->
  snake_case to_lower s = Ok o ->
  kebab_case to_lower s = Ok (map (fun c => if c =? 95 then 45 else c) o).
Proof. intros tl tu s o [HL HU] H Ho. exact (kebab_is_snake_with_dash tl HL s o H Ho). Qed.
Print Assumptions C15_kebab_is_snake_with_dash.
