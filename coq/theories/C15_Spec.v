(* C15_Spec.v — the specification side of C15: small reference definitions that
   can be read in a minute and do not mention the implementation's mechanism.
   The theorems of C15_Props.v relate C15_Model.v to these; the property
   checker [c15_holds] (C15_Wire.v) judges observations against these.
   No proofs in this file. *)

From Gogu Require Import Base Utf8.
Local Open Scope Z_scope.

Definition slen (s : list Z) : Z := Z.of_nat (length s).

(* the bytes at offsets [a, b) *)
Definition byte_range (s : list Z) (a b : Z) : list Z :=
  firstn (Z.to_nat (b - a)) (skipn (Z.to_nat a) s).

(* ---- Substr: the PHP rule as a byte range ----
   a negative offset counts from the end; a negative length is an end position
   counted from the end; a non-negative length is clipped at the end of the
   string; a selection that is not inside the string is empty. *)
Definition substr_start (n off : Z) : Z := if off <? 0 then n + off else off.
Definition substr_stop (n off len : Z) : Z :=
  if len <? 0 then n + len else Z.min n (substr_start n off + len).
Definition substr_ref (s : list Z) (off len : Z) : list Z :=
  let n := slen s in
  let a := substr_start n off in
  let b := substr_stop n off len in
  if (0 <=? a) && (a <=? b) && (b <=? n) then byte_range s a b else [].

(* where the code SHIPPED before /repo 6d6c881 departed from the rule: a start
   inside the string and start + length above math.MaxInt (the sum wrapped) *)
Definition substr_overflows (s : list Z) (off len : Z) : bool :=
  let n := slen s in
  let a := substr_start n off in
  (0 <=? len) && (0 <=? a) && (a <? n) && (9223372036854775807 <? a + len).

(* ---- Pad*: the padding is a prefix of token^k ---- *)
Definition rep (tok : list Z) (k : nat) : list Z := concat (repeat tok k).
Definition rep_prefix (p tok : list Z) : Prop := exists k rest, rep tok k = p ++ rest.
(* decision for a non-empty token: token^|p| is long enough *)
Definition rep_prefixb (p tok : list Z) : bool :=
  zlist_eqb p (firstn (length p) (rep tok (length p))).

(* ---- Wrap / Unwrap ---- *)
Definition wrapped (s t : list Z) : Prop := exists m, s = t ++ m ++ t.
Fixpoint prefixb (p s : list Z) : bool :=
  match p, s with
  | [], _ => true
  | a :: p', b :: s' => (a =? b) && prefixb p' s'
  | _ :: _, [] => false
  end.
Definition wrappedb (s t : list Z) : bool :=
  (2 * slen t <=? slen s) && prefixb t s && prefixb (rev t) (rev s).
(* what Unwrap must return: the middle of a wrapped string, anything else unchanged *)
Definition unwrap_ref (s t : list Z) : list Z :=
  if wrappedb s t then byte_range s (slen t) (slen s - slen t) else s.

(* ---- ASCII classes, case styles ---- *)
Definition is_upper (c : Z) : bool := (65 <=? c) && (c <=? 90).
Definition is_lower (c : Z) : bool := (97 <=? c) && (c <=? 122).
Definition is_digit (c : Z) : bool := (48 <=? c) && (c <=? 57).
Definition is_alnum (c : Z) : bool := is_upper c || is_lower c || is_digit c.
Definition lower_b (c : Z) : Z := if is_upper c then c + 32 else c.
Definition upper_b (c : Z) : Z := if is_lower c then c - 32 else c.
Definition is_sepc (c : Z) : bool := (c =? 45) || (c =? 95) || (c =? 38).   (* - _ & *)

(* the ASCII word domain of the property: letters, digits, space, '-', '_', '&' *)
Definition word_char (c : Z) : bool := is_alnum c || (c =? 32) || is_sepc c.
Definition word_dom (s : list Z) : bool := forallb word_char s.

(* the words: maximal runs of letters and digits *)
Fixpoint split_na (s : list Z) : list (list Z) :=
  match s with
  | [] => [[]]
  | c :: t =>
      if is_alnum c
      then match split_na t with h :: r => (c :: h) :: r | [] => [[c]] end
      else [] :: split_na t
  end.
Definition nonempty (w : list Z) : bool := match w with [] => false | _ => true end.
Definition words (s : list Z) : list (list Z) := filter nonempty (split_na s).

Definition lower_w (w : list Z) : list Z := map lower_b w.
Definition cap_w (w : list Z) : list Z :=
  match w with [] => [] | c :: t => upper_b c :: map lower_b t end.

(* CamelCase on the word domain: first word lower-case, the others capitalised *)
Definition camel_ref (s : list Z) : list Z :=
  match words s with
  | [] => []
  | w :: ws => lower_w w ++ concat (map cap_w ws)
  end.

(* a word cut before every upper-case letter that follows a lower-case letter,
   each piece lower-cased: "fooBarBAZ1x" -> foo, bar, baz1x (as a list of
   non-empty pieces) *)
Fixpoint segs (w : list Z) : list (list Z) :=
  match w with
  | [] => []
  | a :: t =>
      match t with
      | [] => [[lower_b a]]
      | b :: _ =>
          if is_lower a && is_upper b then [lower_b a] :: segs t
          else match segs t with
               | h :: r => (lower_b a :: h) :: r
               | [] => [[lower_b a]]
               end
      end
  end.

Fixpoint join (d : list Z) (l : list (list Z)) : list Z :=
  match l with
  | [] => []
  | [x] => x
  | x :: l' => x ++ d ++ join d l'
  end.

(* does the string, spaces at its end ignored, end with '-', '_' or '&' ? *)
Fixpoint last_nonspace (s : list Z) : option Z :=
  match s with
  | [] => None
  | c :: t =>
      match last_nonspace t with
      | Some x => Some x
      | None => if c =? 32 then None else Some c
      end
  end.
Definition ends_with_sep (s : list Z) : bool :=
  match last_nonspace s with Some c => is_sepc c | None => false end.

(* Snake/KebabCase on the word domain: all pieces of all words joined by the
   delimiter; the implementation's quirk — a trailing delimiter when the input
   (spaces trimmed) ends with a separator character — is part of the reference
   because it is what the code does and the property does not forbid it *)
Definition delim_ref (d : list Z) (s : list Z) : list Z :=
  let ps := flat_map segs (words s) in
  match ps with
  | [] => []
  | _ => if ends_with_sep s then join d ps ++ d else join d ps
  end.

(* positions of word initials in the concatenation of the words *)
Definition initial_mask (ws : list (list Z)) : list bool :=
  flat_map (fun w => match w with [] => [] | _ :: t => true :: map (fun _ => false) t end) ws.

Fixpoint forallb2 {A B} (f : A -> B -> bool) (l : list A) (m : list B) : bool :=
  match l, m with
  | [], [] => true
  | a :: l', b :: m' => f a b && forallb2 f l' m'
  | _, _ => false
  end.

(* the three single-observation clauses of the property, as a decision *)
Definition keeps_alnum (s out : list Z) : bool :=
  zlist_eqb (map lower_b (filter is_alnum out)) (map lower_b (filter is_alnum s)).
Definition camel_clauses (s out : list Z) : bool :=
  keeps_alnum s out && forallb is_alnum out
  && forallb2 (fun c m => implb (is_upper c) m) out (initial_mask (words s)).
Definition delim_clauses (dc : Z) (s out : list Z) : bool :=
  keeps_alnum s out && forallb (fun c => is_alnum c || (c =? dc)) out
  && forallb (fun c => negb (is_upper c)) out.
