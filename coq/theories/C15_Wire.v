(* C15_Wire.v — wire glue for C15 (no proofs; exercised by the correspondence).

   input  = fn :: enc_zs s ++ args        (table in harness/c15.go, kept in step)
      1 Substr s off len            2 SplitAtIndex s idx
      3 Pad s size tok              4 PadLeft s size tok        5 PadRight s size tok
      6 Wrap s tok                  7 Unwrap s tok              8 WrapAllRune s tok
      9 ReverseStr s               10 ToLower s                11 ToUpper s
     12 Capitalize s               13 CamelCase s              14 SnakeCase s
     15 KebabCase s                16 for i, r := range s      17 string([]rune(s))  (s = runes)
     18 Unwrap(Wrap(s,tok),tok)    19 Snake, Snake∘Snake, Kebab, Kebab∘Kebab of s
     20 unicode.ToLower(r)         21 unicode.ToUpper(r)        (s = [r]; check of the oracle table)
   the hand models of the library functions, compared with the Go library itself
   (nothing of gogu runs: these validate the trusted scanners, not the code):
     22 regexp "[-_&]+" ReplaceAllString(s, " ")        23 regexp "[a-zö][A-ZÖ]+" FindAllStringIndex(s, -1)
     24 strings.TrimSpace(s)       25 strings.Split(s, " ")    26 strings.Index(s, t), strings.LastIndex(s, t)
   output = enc_res of the returned string(s); a recovered panic is [2].

   [c15_agree]: observation = model, EXCEPT for Pad/PadLeft/PadRight with the
   empty token and size > len(s): the shipped code panics there (theorem
   C15_pad_empty_token_panics), the property excludes the input, and any other
   outcome (a maintainer returning the string unchanged, say) is accepted.

   [c15_holds] judges an observation against C15_Spec.v (the property), not
   against the model; where the property fixes the result uniquely and the
   reference IS that result (Wrap, WrapAllRune, the rune-level functions with
   the table oracle, decode/encode) it coincides with [c15_agree]. *)

From Gogu Require Import Base Utf8 C15_Model C15_Spec.
Local Open Scope Z_scope.

Definition enc_rb (r : res (list Z)) : list Z := enc_res enc_zs r.
Definition enc_pairs (l : list (Z * Z)) : list Z :=
  Z.of_nat (length l) :: flat_map (fun p => [fst p; snd p]) l.

Definition rd_rb : reader (res (list Z)) := fun w =>
  match w with
  | 0 :: w' => match rd_zs w' with Some (l, w'') => Some (Ok l, w'') | None => None end
  | 1 :: k :: w' => Some (Err k, w')
  | 2 :: w' => Some (Panic, w')
  | _ => None
  end.

Definition snake := snake_case tbl_lower.
Definition kebab := kebab_case tbl_lower.

(* Pad* asked for more than 2^24 bytes of padding: not evaluated (the model would build the
   repeated token as a list; the real code would allocate it) and never generated *)
Definition pad_too_big (s : list Z) (size : Z) : bool := 16777216 <? size - slen s.

Definition c15_run (w : list Z) : list Z :=
  match w with
  | fn :: a =>
      match rd_zs a with
      | Some (s, a1) =>
          let with_tok (f : list Z -> list Z) :=
            match rd_zs a1 with Some (t, []) => f t | _ => wire_error end in
          let with_size_tok (f : Z -> list Z -> list Z) :=
            match a1 with
            | size :: a2 => match rd_zs a2 with Some (t, []) => f size t | _ => wire_error end
            | [] => wire_error
            end in
          let nullary (r : list Z) := match a1 with [] => r | _ => wire_error end in
          match fn with
          | 1 => match a1 with [off; len] => enc_rb (substr_go s off len) | _ => wire_error end
          | 2 => match a1 with [idx] => enc_res enc_zss (split_at_index s idx) | _ => wire_error end
          | 3 => with_size_tok (fun size t => if pad_too_big s size then [3] else enc_rb (pad s size t))
          | 4 => with_size_tok (fun size t => if pad_too_big s size then [3] else enc_rb (pad_left s size t))
          | 5 => with_size_tok (fun size t => if pad_too_big s size then [3] else enc_rb (pad_right s size t))
          | 6 => with_tok (fun t => enc_rb (Ok (wrap s t)))
          | 7 => with_tok (fun t => enc_rb (unwrap s t))
          | 8 => with_tok (fun t => enc_rb (Ok (wrap_all_rune s t)))
          | 9 => nullary (enc_rb (Ok (reverse_str s)))
          | 10 => nullary (enc_rb (Ok (to_lower_str tbl_lower s)))
          | 11 => nullary (enc_rb (Ok (to_upper_str tbl_upper s)))
          | 12 => nullary (enc_rb (Ok (capitalize tbl_lower tbl_upper s)))
          | 13 => nullary (enc_rb (Ok (camel_case tbl_lower tbl_upper s)))
          | 14 => nullary (enc_rb (snake s))
          | 15 => nullary (enc_rb (kebab s))
          | 16 => nullary (enc_pairs (range_loop s))
          | 17 => nullary (enc_rb (Ok (encode s)))
          | 18 => with_tok (fun t => enc_rb (unwrap (wrap s t) t))
          | 19 => nullary (enc_rb (snake s) ++ enc_rb (bind (snake s) snake)
                           ++ enc_rb (kebab s) ++ enc_rb (bind (kebab s) kebab))
          | 20 => match s, a1 with [r], [] => [tbl_lower r] | _, _ => wire_error end
          | 21 => match s, a1 with [r], [] => [tbl_upper r] | _, _ => wire_error end
          | 22 => nullary (enc_rb (Ok (replace_seps false s)))
          | 23 => nullary (enc_pairs (find_all_lu 0 0 s))
          | 24 => nullary (enc_rb (Ok (trim_space s)))
          | 25 => nullary (enc_res enc_zss (Ok (split_sp s)))
          | 26 => with_tok (fun t => [index s t; last_index s t])
          | _ => wire_error
          end
      | None => wire_error
      end
  | [] => wire_error
  end.

(* Pad* with the empty token and size > len(s), or with a giant size: outside the property *)
Definition pad_outside (w : list Z) : bool :=
  match w with
  | fn :: a =>
      if (fn =? 3) || (fn =? 4) || (fn =? 5) then
        match rd_zs a with
        | Some (s, size :: a2) =>
            pad_too_big s size ||
            match rd_zs a2 with Some ([], []) => slen s <? size | _ => false end
        | _ => false
        end
      else false
  | [] => false
  end.

Definition c15_agree (w obs : list Z) : bool := pad_outside w || zlist_eqb obs (c15_run w).

(* ---------- the property, decided on one observation ---------- *)

Definition is_ok (obs : list Z) (expected : list Z) : bool := zlist_eqb obs (enc_rb (Ok expected)).

(* Pad*: unchanged when long enough; otherwise exactly [size] bytes, the input
   at its position, every padding a prefix of token^k *)
Definition pad_holds (mode : Z) (s : list Z) (size : Z) (t obs : list Z) : bool :=
  match t with
  | [] => true                              (* empty token: outside the property *)
  | _ =>
      if pad_too_big s size then true       (* never generated; see [pad_too_big] *)
      else if size <=? slen s then is_ok obs s
      else
        match rd_rb obs with
        | Some (Ok out, []) =>
            let d := Z.to_nat (size - slen s) in
            let nl := match mode with 4 => d | 5 => O | _ => Nat.div d 2 end in
            let l := firstn nl out in
            let m := firstn (length s) (skipn nl out) in
            let r := skipn (nl + length s) out in
            (slen out =? size) && zlist_eqb m s && rep_prefixb l t && rep_prefixb r t
        | _ => false
        end
  end.

Definition subst_delim (c : Z) : Z := if c =? 95 then 45 else c.

Definition c15_holds (w obs : list Z) : bool :=
  match w with
  | fn :: a =>
      match rd_zs a with
      | Some (s, a1) =>
          match fn with
          | 1 => match a1 with [off; len] => is_ok obs (substr_ref s off len) | _ => false end
          | 2 => match obs with
                 | 0 :: o' => match rd_zss o' with
                              | Some ([p; q], []) => zlist_eqb (p ++ q) s
                              | _ => false
                              end
                 | _ => false
                 end
          | 3 | 4 | 5 =>
              match a1 with
              | size :: a2 => match rd_zs a2 with Some (t, []) => pad_holds fn s size t obs | _ => false end
              | [] => false
              end
          | 7 => match rd_zs a1 with Some (t, []) => is_ok obs (unwrap_ref s t) | _ => false end
          | 9 => is_ok obs (encode (rev (decode s)))
          | 10 => is_ok obs (encode (map tbl_lower (decode s)))
          | 11 => is_ok obs (encode (map tbl_upper (decode s)))
          | 12 => is_ok obs (match decode s with
                             | [] => []
                             | r :: rs => encode (tbl_upper r :: map tbl_lower rs)
                             end)
          | 13 => if word_dom s
                  then match rd_rb obs with Some (Ok out, []) => camel_clauses s out | _ => false end
                  else true
          | 14 => if word_dom s
                  then match rd_rb obs with Some (Ok out, []) => delim_clauses 95 s out | _ => false end
                  else true
          | 15 => if word_dom s
                  then match rd_rb obs with Some (Ok out, []) => delim_clauses 45 s out | _ => false end
                  else true
          | 18 => is_ok obs s
          | 19 => if word_dom s
                  then match rd_rb obs with
                       | Some (Ok s1, o1) =>
                           match rd_rb o1 with
                           | Some (Ok s2, o2) =>
                               match rd_rb o2 with
                               | Some (Ok k1, o3) =>
                                   match rd_rb o3 with
                                   | Some (Ok k2, []) =>
                                       zlist_eqb s2 s1 && zlist_eqb k2 k1 && zlist_eqb k1 (map subst_delim s1)
                                   | _ => false
                                   end
                               | _ => false
                               end
                           | _ => false
                           end
                       | _ => false
                       end
                  else true
          | _ => zlist_eqb obs (c15_run w)        (* 6 8 16 17 20..26: the reference is the result *)
          end
      | None => false
      end
  | [] => false
  end.
