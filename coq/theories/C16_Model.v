(* C16_Model.v — EVERY exported helper of slice.go / filter.go / find.go / math.go /
   range.go / shuffle.go / map.go that takes a slice or a map (and the two
   in-place heap functions) re-expressed over the object memory of SliceMem.v,
   statement by statement after the Go code: `make`, index read/write,
   re-slice, `append`, `copy`, map make / lookup / store / delete / range.
   No proofs here.

   Conventions
   * Local Go maps that never escape (`keys := make(map[T]bool)`, keyCount,
     kvMap, the result of mapByIndex whose values are slices) are Gallina
     association lists; maps of type map[K]V that are arguments or results live
     in the memory (SliceMem: make_map / m_store / m_delete / m_lookup /
     m_entries).
   * ARGUMENTS that are slices of slices or of maps (`params ...[]T`,
     `slices ...[]T`, `mapSlice []map[K]V`, `collection []map[K]map[K]V`) live
     in the memory too: such a slice is a [slice] descriptor whose cells hold
     CODES of its elements, and a function [tbl] (code -> slice descriptor /
     map id) says which element a code stands for; the helpers read the cells
     (`params[j]`) and never write them, which is part of the frame theorem.
     A map[K]map[K]V is a map object whose values are codes of the inner maps.
     The `any` argument of Flatten / Union is an [anyv]; a nested []any is again
     a slice of codes in the memory (decoded by [atbl]), so the cells of every
     sub-list on the way are covered by the frame theorem too.
     RESULTS of type [][]T / [2][]T / []map[K]V are Gallina lists of
     descriptors: their header arrays are allocated by the call and nothing
     else can reach them.  The nil slice and the literal `[]T{}` are [empty_slice] (no
     array is allocated for them, as in Go).
   * Callbacks are Gallina functions: they are pure (the assumption "callbacks
     do not write to the arguments" of the property's setting).
   * An early `return` / `break` inside a loop is a sticky state of [for_each]:
     once set, the remaining iterations do nothing (in particular no reads).
   * What Go leaves open is a parameter: [slack] (spare capacity after a
     reallocating append), the random numbers of Shuffle, the iteration order
     of a map (= the stored order of its entries).  No theorem depends on them. *)

From Gogu Require Import Base C14_Model SliceMem.
Local Open Scope nat_scope.
Local Open Scope mem_scope.

Definition empty_slice : slice := mkSlice 0 0 0 0.

Fixpoint memz (x : Z) (l : list Z) : bool :=
  match l with [] => false | v :: l' => if (v =? x)%Z then true else memz x l' end.

(* s[i] with a Go int index: a negative index panics *)
Definition rdz (s : slice) (i : Z) : M Z := if (i <? 0)%Z then fail else rd s (Z.to_nat i).

(* outer[j] of a slice of slices / of maps: the cell holds a code, [tbl] decodes it *)
Definition rd_elem {A} (tbl : Z -> A) (outer : slice) (j : nat) : M A := c <- rd outer j ;; ret (tbl c).

(* a value of type `any` as Flatten / Union look at it.  A []any is a slice in the
   memory whose cells hold CODES of its elements; [atbl] (code -> anyv) decodes them *)
Inductive anyv :=
| AItem (v : Z)              (* a T *)
| ASlice (s : slice)         (* a []T *)
| AList (l : slice)          (* a []any: a slice of codes *)
| ABad.                      (* a value of another type (or nil): "flattening error" *)

Section Helpers.
  Variable slack : nat -> nat -> nat.
  Notation app := (append slack).

  (* ================= helpers that return a scalar (read only) ================= *)

  (* Sum: var acc T; for _, v := range slice { acc += v } *)
  Definition sum_go (s : slice) : M Z :=
    for_each (seq 0 (s_len s)) (fun i acc => v <- rd s i ;; ret (acc + v)%Z) 0%Z.

  (* SumBy: acc += fn(v) *)
  Definition sum_by_go (fn : Z -> Z) (s : slice) : M Z :=
    for_each (seq 0 (s_len s)) (fun i acc => v <- rd s i ;; ret (acc + fn v)%Z) 0%Z.

  (* Mean: for i { result += slice[i] }; return result / T(len(slice))  — integer division by zero panics *)
  Definition mean_go (s : slice) : M Z :=
    result <- for_each (seq 0 (s_len s)) (fun i acc => v <- rd s i ;; ret (acc + v)%Z) 0%Z ;;
    if s_len s =? 0 then fail else ret (Z.quot result (Z.of_nat (s_len s))).

  (* the common shape `for k, v := range s { if cond(v) { return k } }; return -1` *)
  Definition first_index (idxs : list nat) (cond : Z -> bool) (s : slice) : M Z :=
    r <- for_each idxs
           (fun k (r : option Z) =>
              match r with
              | Some _ => ret r
              | None => v <- rd s k ;; if cond v then ret (Some (Z.of_nat k)) else ret None
              end) None ;;
    ret (match r with Some k => k | None => (-1)%Z end).

  (* IndexOf / LastIndexOf / FindIndex / FindLastIndex *)
  Definition index_of_go (s : slice) (val : Z) : M Z := first_index (seq 0 (s_len s)) (fun v => (v =? val)%Z) s.
  Definition last_index_of_go (s : slice) (val : Z) : M Z := first_index (rev (seq 0 (s_len s))) (fun v => (v =? val)%Z) s.
  Definition find_index_go (fn : Z -> bool) (s : slice) : M Z := first_index (seq 0 (s_len s)) fn s.
  Definition find_last_index_go (fn : Z -> bool) (s : slice) : M Z := first_index (rev (seq 0 (s_len s))) fn s.

  (* ForEach / ForEachRight: fn(v) for every element (the callback is pure) *)
  Definition for_each_go (s : slice) : M unit :=
    for_each (seq 0 (s_len s)) (fun i (_ : unit) => v <- rd s i ;; ret tt) tt.
  Definition for_each_right_go (s : slice) : M unit :=
    for_each (rev (seq 0 (s_len s))) (fun i (_ : unit) => v <- rd s i ;; ret tt) tt.

  (* Reduce: actual := initVal; for _, v := range slice { actual = fn(v, actual) } *)
  Definition reduce_go (fn : Z -> Z -> Z) (init : Z) (s : slice) : M Z :=
    for_each (seq 0 (s_len s)) (fun i actual => v <- rd s i ;; ret (fn v actual)) init.

  (* the common shape `for _, v := range s { if cond(v) { return hit } }; return miss` *)
  Definition scan_bool (cond : Z -> bool) (hit miss : bool) (s : slice) : M bool :=
    r <- for_each (seq 0 (s_len s))
           (fun i (r : option bool) =>
              match r with
              | Some _ => ret r
              | None => v <- rd s i ;; if cond v then ret (Some hit) else ret None
              end) None ;;
    ret (match r with Some b => b | None => miss end).

  (* Every: if !fn(v) { return false } ... true;  Some: if fn(v) { return true } ... false;  Contains *)
  Definition every_go (fn : Z -> bool) (s : slice) : M bool := scan_bool (fun v => negb (fn v)) false true s.
  Definition some_go (fn : Z -> bool) (s : slice) : M bool := scan_bool fn true false s.
  Definition contains_go (s : slice) (value : Z) : M bool := scan_bool (fun v => (v =? value)%Z) true false s.

  (* FindMin / FindMax / FindMinBy / FindMaxBy:
       var min T; if len(s) > 0 { min = s[0] }; for i { if less(s[i], min) { min = s[i] } } *)
  Definition find_ext (less : Z -> Z -> bool) (s : slice) : M Z :=
    m0 <- (if 0 <? s_len s then rd s 0 else ret 0%Z) ;;
    for_each (seq 0 (s_len s)) (fun i mn => v <- rd s i ;; if less v mn then ret v else ret mn) m0.
  Definition find_min_go (s : slice) : M Z := find_ext Z.ltb s.
  Definition find_max_go (s : slice) : M Z := find_ext Z.gtb s.
  Definition find_min_by_go (fn : Z -> Z) (s : slice) : M Z := find_ext (fun a b => (fn a <? fn b)%Z) s.
  Definition find_max_by_go (fn : Z -> Z) (s : slice) : M Z := find_ext (fun a b => (fn a >? fn b)%Z) s.

  (* Min / Max (math.go, variadic): if len(values) == 0 { return zero }; acc = values[0]; for v { if v < acc { acc = v } } *)
  Definition min_max_go (less : Z -> Z -> bool) (values : slice) : M Z :=
    if s_len values =? 0 then ret 0%Z
    else acc <- rd values 0 ;;
         for_each (seq 0 (s_len values)) (fun i acc => v <- rd values i ;; if less v acc then ret v else ret acc) acc.

  (* Nth (find.go:168), result [value; 1 if an error is returned] *)
  Definition nth_go (s : slice) (nth : Z) : M (list Z) :=
    let mx := Z.of_nat (s_len s) in
    if (((0 <=? nth) && (mx - 1 <? nth)) || ((nth <? 0) && (mx - Z.abs nth <? 0)))%Z%bool then ret [0; 1]%Z
    else if ((0 <=? Z.abs nth) && (Z.abs nth <=? mx) && (0 <=? nth))%Z%bool
         then v <- rdz s nth ;; ret [v; 0%Z]
         else v <- rdz s (mx - Z.abs nth) ;; ret [v; 0%Z].

  (* ================= filter.go ================= *)

  (* Filter: res := make([]T, 0); for _, v := range slice { if fn(v) { res = append(res, v) } } *)
  Definition filter_go (fn : Z -> bool) (s : slice) : M slice :=
    res <- make_slice 0 0 ;;
    for_each (seq 0 (s_len s))
      (fun i res => v <- rd s i ;; if fn v then app res [v] else ret res) res.

  (* a mutant kept for the self-test of the theorems: Filter building on slice[:0] *)
  Definition filter_on_arg (fn : Z -> bool) (s : slice) : M slice :=
    res <- reslice s 0 0 ;;
    for_each (seq 0 (s_len s))
      (fun i res => v <- rd s i ;; if fn v then app res [v] else ret res) res.

  (* Reject (in place):
       for i := 0; i < len(slice); i++ {
         if fn(slice[i]) { slice = append(slice[:i], slice[i+1:]...); i-- } }
     (the `i--` and the loop's `i++` cancel) *)
  Fixpoint reject_loop (fuel : nat) (fn : Z -> bool) (sl : slice) (i : nat) : M slice :=
    if i <? s_len sl then
      match fuel with
      | O => fail
      | S f =>
          v <- rd sl i ;;
          if fn v then
            hd <- reslice sl 0 i ;;
            tl <- reslice sl (i + 1) (s_len sl) ;;
            vs <- values tl ;;
            sl' <- app hd vs ;;
            reject_loop f fn sl' i
          else reject_loop f fn sl (i + 1)
      end
    else ret sl.
  Definition reject_go (fn : Z -> bool) (s : slice) : M slice :=
    reject_loop (s_len s) fn s 0.

  (* ================= slice.go ================= *)

  (* Map: result := make([]T2, len(slice)); for idx, v := range slice { result[idx] = fn(v) } *)
  Definition map_go (fn : Z -> Z) (s : slice) : M slice :=
    result <- make_slice (s_len s) (s_len s) ;;
    for_each (seq 0 (s_len s))
      (fun idx (_ : unit) => v <- rd s idx ;; wr result idx (fn v)) tt ;;;
    ret result.

  (* Reverse (in place): for i, j := 0, len(sl)-1; i < j; i, j = i+1, j-1 { sl[i], sl[j] = sl[j], sl[i] } *)
  Fixpoint reverse_loop (fuel : nat) (s : slice) (i j : nat) : M unit :=
    if i <? j then
      match fuel with
      | O => fail
      | S f => swap s i j ;;; reverse_loop f s (i + 1) (j - 1)
      end
    else ret tt.
  Definition reverse_go (s : slice) : M slice :=
    reverse_loop (s_len s) s 0 (s_len s - 1) ;;; ret s.

  (* Unique: keys := map; result := []T{}; for v { if !keys[v] { keys[v] = true; result = append(result, v) } } *)
  Definition unique_go (s : slice) : M slice :=
    st <- for_each (seq 0 (s_len s))
            (fun i (st : list Z * slice) =>
               let (keys, result) := st in
               v <- rd s i ;;
               if memz v keys then ret st
               else result' <- app result [v] ;; ret (v :: keys, result'))
            ([], empty_slice) ;;
    ret (snd st).

  (* UniqueBy *)
  Definition unique_by_go (fn : Z -> Z) (s : slice) : M slice :=
    st <- for_each (seq 0 (s_len s))
            (fun i (st : list Z * slice) =>
               let (keys, result) := st in
               v <- rd s i ;;
               if memz (fn v) keys then ret st
               else result' <- app result [v] ;; ret (fn v :: keys, result'))
            ([], empty_slice) ;;
    ret (snd st).

  (* Partition: var result [2][]T (two nil slices); append to one or the other *)
  Definition partition_go (fn : Z -> bool) (s : slice) : M (list slice) :=
    st <- for_each (seq 0 (s_len s))
            (fun i (st : slice * slice) =>
               let (r0, r1) := st in
               v <- rd s i ;;
               if fn v then r0' <- app r0 [v] ;; ret (r0', r1)
               else r1' <- app r1 [v] ;; ret (r0, r1'))
            (empty_slice, empty_slice) ;;
    ret [fst st; snd st].

  (* Duplicate: keyCount := map; result := make([]T, 0, len(slice));
       for v { keyCount[v] = 1 or ++ };  for k, v := range keyCount { if v > 1 { result = append(result, k) } } *)
  Definition duplicate_go (s : slice) : M slice :=
    result <- make_slice 0 (s_len s) ;;
    keyCount <- for_each (seq 0 (s_len s))
                  (fun i (kc : amap) =>
                     v <- rd s i ;;
                     match lookup kc v with
                     | None => ret (map_set kc v 1%Z)
                     | Some c => ret (map_set kc v (c + 1)%Z)
                     end) [] ;;
    for_each keyCount (fun kv result => if (1 <? snd kv)%Z then app result [fst kv] else ret result) result.

  (* DuplicateWithIndex: var count int; kvMap := map[T][]int; result := map[T]int
       for idx, v { if new { kvMap[v] = make([]int, 2); count = 1; kvMap[v][0] = idx; kvMap[v][1] = count }
                    else { count++; kvMap[v][1] = count } }          (ONE counter for all keys, as in the Go code)
       for k, v := range kvMap { if v[1] > 1 { result[k] = v[0] } } *)
  Definition duplicate_with_index_go (s : slice) : M nat :=
    result <- make_map ;;
    st <- for_each (seq 0 (s_len s))
            (fun idx (st : Z * amapV slice) =>
               let (count, kvMap) := st in
               v <- rd s idx ;;
               match lookup kvMap v with
               | None =>
                   e <- make_slice 2 2 ;;
                   wr e 0 (Z.of_nat idx) ;;; wr e 1 1%Z ;;;
                   ret (1%Z, map_set kvMap v e)
               | Some e => wr e 1 (count + 1)%Z ;;; ret ((count + 1)%Z, kvMap)
               end) (0%Z, []) ;;
    for_each (snd st)
      (fun kv (_ : unit) =>
         c <- rd (snd kv) 1 ;;
         if (1 <? c)%Z then i0 <- rd (snd kv) 0 ;; m_store result (fst kv) i0 else ret tt) tt ;;;
    ret result.

  (* Merge, AFTER the repair (fixes/builder-c14c16):
       merged := make([]T, 0, len(s)); merged = append(merged, s...)
       for i { merged = append(merged, params[i]...) }; return merged *)
  Definition merge_go (s : slice) (tbl : Z -> slice) (params : slice) : M slice :=
    merged <- make_slice 0 (s_len s) ;;
    vs <- values s ;;
    merged <- app merged vs ;;
    for_each (seq 0 (s_len params))
      (fun i merged => pi <- rd_elem tbl params i ;; ps <- values pi ;; app merged ps) merged.

  (* Merge as found (slice.go:236): the last statement appends ONTO THE ARGUMENT *)
  Definition merge_asfound (s : slice) (params : list slice) : M slice :=
    merged <- make_slice 0 (s_len s) ;;
    merged <- for_each (seq 0 (length params))
                (fun i merged => ps <- values (nth i params empty_slice) ;; app merged ps) merged ;;
    ms <- values merged ;;
    app s ms.

  (* baseFlatten(acc, slice): T -> append(acc, v); []T -> append(acc, v...);
     []any -> for _, sv := range v { acc, err = baseFlatten(acc, sv); if err != nil { return nil, err } }; default -> nil, err.
     None = (nil, error).  The recursion follows the nesting of the argument: [fuel] bounds its depth (a []any
     that contains itself overflows the Go stack) and every theorem holds for every fuel. *)
  Fixpoint base_flatten (fuel : nat) (atbl : Z -> anyv) (acc : slice) (x : anyv) : M (option slice) :=
    match x with
    | AItem v => r <- app acc [v] ;; ret (Some r)
    | ASlice s => vs <- values s ;; r <- app acc vs ;; ret (Some r)
    | AList l =>
        match fuel with
        | O => fail
        | S f =>
            for_each (seq 0 (s_len l))
              (fun i (st : option slice) =>
                 match st with
                 | None => ret None                                  (* `return nil, err`: nothing more is read *)
                 | Some acc => c <- rd l i ;; base_flatten f atbl acc (atbl c)
                 end) (Some acc)
        end
    | ABad => ret None
    end.
  Definition or_nil (r : option slice) : slice := match r with Some s => s | None => empty_slice end.
  (* Flatten: baseFlatten([]T{}, slice) *)
  Definition flatten_go (fuel : nat) (atbl : Z -> anyv) (x : anyv) : M slice :=
    r <- base_flatten fuel atbl empty_slice x ;; ret (or_nil r).
  (* Union: flatten, err := baseFlatten([]T{}, slice); if err != nil { return nil, err }; return Unique(flatten), nil *)
  Definition union_go (fuel : nat) (atbl : Z -> anyv) (x : anyv) : M slice :=
    r <- base_flatten fuel atbl empty_slice x ;;
    match r with None => ret empty_slice | Some fl => unique_go fl end.

  (* a mutant kept for the self-test of the theorems (the seeded change C16-6): baseFlatten detaches the element
     it visits (`v[i] = nil`, the code [nilc]) and puts it back afterwards (`v[i] = sv`) — but the early return
     on an error skips the put-back: a FAILING call leaves nil in the caller's []any *)
  Fixpoint base_flatten_detaching (nilc : Z) (fuel : nat) (atbl : Z -> anyv) (acc : slice) (x : anyv) : M (option slice) :=
    match x with
    | AItem v => r <- app acc [v] ;; ret (Some r)
    | ASlice s => vs <- values s ;; r <- app acc vs ;; ret (Some r)
    | AList l =>
        match fuel with
        | O => fail
        | S f =>
            for_each (seq 0 (s_len l))
              (fun i (st : option slice) =>
                 match st with
                 | None => ret None
                 | Some acc =>
                     c <- rd l i ;;
                     wr l i nilc ;;;
                     r <- base_flatten_detaching nilc f atbl acc (atbl c) ;;
                     match r with
                     | None => ret None
                     | Some acc' => wr l i c ;;; ret (Some acc')
                     end
                 end) (Some acc)
        end
    | ABad => ret None
    end.

  (* Intersection(params...): panics without parameters (params[0]);
       result := []T{}; for i < len(params[0]) { item := params[0][i]; if Contains(result, item) { continue }
                                                for j = 1; j < len(params); j++ { if !Contains(params[j], item) { break } }
                                                if j == len(params) { result = append(result, item) } }
     [has item pj] is the membership test: Intersection `Contains(params[j], item)`,
     IntersectionBy (after the repair da55b7e) `fn(v) == fn(item)` for some v of params[j] *)
  Definition intersection_with (has : Z -> list Z -> bool) (tbl : Z -> slice) (params : slice) : M slice :=
    p0 <- rd_elem tbl params 0 ;;
    for_each (seq 0 (s_len p0))
      (fun i result =>
         item <- rd p0 i ;;
         rs <- values result ;;
         if memz item rs then ret result
         else
           all <- for_each (seq 1 (s_len params - 1))
                    (fun j (ok : bool) =>
                       if ok then pj <- rd_elem tbl params j ;; vs <- values pj ;; ret (has item vs)
                       else ret false) true ;;
           if all then app result [item] else ret result)
      empty_slice.
  Definition intersection_go := intersection_with memz.
  Definition intersection_by_go (fn : Z -> Z) :=
    intersection_with (fun item vs => existsb (fun v => (fn v =? fn item)%Z) vs).

  (* a mutant kept for the self-test of the theorems (after the seeded change C16-3): an Intersection that
     re-orders its VARIADIC parameter list before probing — it writes into the caller's [][]T *)
  Definition intersection_reordering (tbl : Z -> slice) (params : slice) : M slice :=
    (if 2 <? s_len params then swap params 1 2 else ret tt) ;;;
    intersection_go tbl params.

  (* Without: keys := map; uni := make([]T1, 0, len(slice));
     loop: for v { for val := range values { if v == val { continue loop } }; if !keys[v] {...append} } *)
  Definition without_go (s vals : slice) : M slice :=
    uni <- make_slice 0 (s_len s) ;;
    st <- for_each (seq 0 (s_len s))
            (fun i (st : list Z * slice) =>
               let (keys, uni) := st in
               v <- rd s i ;;
               vs <- values vals ;;
               if memz v vs then ret st
               else if memz v keys then ret st
               else uni' <- app uni [v] ;; ret (v :: keys, uni'))
            ([], uni) ;;
    ret (snd st).

  (* Difference: the same loop with `unique := []T{}` *)
  Definition difference_go (s1 s2 : slice) : M slice :=
    st <- for_each (seq 0 (s_len s1))
            (fun i (st : list Z * slice) =>
               let (keys, unique) := st in
               v <- rd s1 i ;;
               vs <- values s2 ;;
               if memz v vs then ret st
               else if memz v keys then ret st
               else unique' <- app unique [v] ;; ret (v :: keys, unique'))
            ([], empty_slice) ;;
    ret (snd st).

  (* DifferenceBy: `if fn(v) == fn(val) { continue loop }` *)
  Definition difference_by_go (fn : Z -> Z) (s1 s2 : slice) : M slice :=
    st <- for_each (seq 0 (s_len s1))
            (fun i (st : list Z * slice) =>
               let (keys, unique) := st in
               v <- rd s1 i ;;
               vs <- values s2 ;;
               if existsb (fun val => (fn v =? fn val)%Z) vs then ret st
               else if memz v keys then ret st
               else unique' <- app unique [v] ;; ret (v :: keys, unique'))
            ([], empty_slice) ;;
    ret (snd st).

  (* Chunk (views): panics when size <= 0;
       for i { if i%size == 0 { if i+size < len { append(result, slice[i:i+size]) } else { append(result, slice[i:]) } } } *)
  Definition chunk_go (s : slice) (size : Z) : M (list slice) :=
    if (size <=? 0)%Z then fail
    else
      let sz := Z.to_nat size in
      for_each (seq 0 (s_len s))
        (fun i (result : list slice) =>
           if i mod sz =? 0 then
             if i + sz <? s_len s
             then c <- reslice s i (i + sz) ;; ret (result ++ [c])
             else c <- reslice s i (s_len s) ;; ret (result ++ [c])
           else ret result) [].

  (* Drop (view), after the repair 0f1558a:
       if n > 0 && n < len(slice) { return slice[n:] }
       if n <= 0 && n > -len(slice) { return slice[:len(slice)+n] }
       return []T{} *)
  Definition drop_go (s : slice) (n : Z) : M slice :=
    if ((0 <? n) && (n <? Z.of_nat (s_len s)))%Z%bool then reslice s (Z.to_nat n) (s_len s)
    else if ((n <=? 0) && (- Z.of_nat (s_len s) <? n))%Z%bool then reslice s 0 (Z.to_nat (Z.of_nat (s_len s) + n))
    else ret empty_slice.

  (* DropWhile: result := make([]T, 0, len(slice)); for v { if !fn(v) { append } } *)
  Definition drop_while_go (fn : Z -> bool) (s : slice) : M slice :=
    result <- make_slice 0 (s_len s) ;;
    for_each (seq 0 (s_len s))
      (fun i result => v <- rd s i ;; if fn v then ret result else app result [v]) result.

  (* DropRightWhile: the same from the back *)
  Definition drop_right_while_go (fn : Z -> bool) (s : slice) : M slice :=
    result <- make_slice 0 (s_len s) ;;
    for_each (rev (seq 0 (s_len s)))
      (fun i result => v <- rd s i ;; if fn v then ret result else app result [v]) result.

  (* mapByIndex(origSlice, mapSlice): result := map[T1][]T2 (local: its values are slices)
       for idx, v := range mapSlice { if new { result[v] = make([]T2, 0, len(mapSlice)) }
                                      result[v] = append(result[v], origSlice[idx]) } *)
  Definition map_by_index_go (orig mapSlice : slice) : M (amapV slice) :=
    for_each (seq 0 (s_len mapSlice))
      (fun idx (result : amapV slice) =>
         v <- rd mapSlice idx ;;
         cur <- match lookup result v with
                | None => make_slice 0 (s_len mapSlice)
                | Some e => ret e
                end ;;
         o <- rd orig idx ;;
         e' <- app cur [o] ;;
         ret (map_set result v e')) [].
  (* GroupBy: mapByIndex(slice, Map(slice, fn)) *)
  Definition group_by_go (fn : Z -> Z) (s : slice) : M (amapV slice) :=
    ms <- map_go fn s ;; map_by_index_go s ms.

  (* Zip / Unzip: result := make([][]T, len(slices)); sliceLen := len(slices[0]) (0 without parameters);
       panic unless sliceLen == len(slices); for idx, sl { panic unless len(sl) == sliceLen; result[idx] = make([]T, len(sl)) }
       for x < sliceLen { for i < len(slices) { result[i][x] = slices[x][i] } }      (Unzip: result[x][i] = slices[i][x]) *)
  Definition zip_alloc (tbl : Z -> slice) (slices : slice) : M (list slice) :=
    sliceLen <- (if 0 <? s_len slices then s0 <- rd_elem tbl slices 0 ;; ret (s_len s0) else ret 0) ;;
    if negb (sliceLen =? s_len slices) then fail
    else for_each (seq 0 (s_len slices))
           (fun idx (acc : list slice) =>
              sl <- rd_elem tbl slices idx ;;
              if negb (sliceLen =? s_len sl) then fail
              else r <- make_slice (s_len sl) (s_len sl) ;; ret (acc ++ [r])) [].
  Definition zip_go (tbl : Z -> slice) (slices : slice) : M (list slice) :=
    result <- zip_alloc tbl slices ;;
    for_each (seq 0 (s_len slices))
      (fun x (_ : unit) =>
         for_each (seq 0 (s_len slices))
           (fun i (_ : unit) => sx <- rd_elem tbl slices x ;; v <- rd sx i ;; wr (nth i result empty_slice) x v) tt) tt ;;;
    ret result.
  Definition unzip_go (tbl : Z -> slice) (slices : slice) : M (list slice) :=
    result <- zip_alloc tbl slices ;;
    for_each (seq 0 (s_len slices))
      (fun x (_ : unit) =>
         for_each (seq 0 (s_len slices))
           (fun i (_ : unit) => si <- rd_elem tbl slices i ;; v <- rd si x ;; wr (nth x result empty_slice) i v) tt) tt ;;;
    ret result.

  (* ToSlice(args...): slice := make([]T, 0, len(args)); slice = append(slice, args...) *)
  Definition to_slice_go (args : slice) : M slice :=
    sl <- make_slice 0 (s_len args) ;;
    vs <- values args ;;
    app sl vs.

  (* ================= shuffle.go ================= *)

  (* Shuffle: dst := make([]T, len(src)); copy(dst, src);
       for i := len(src)-1; i >= 0; i-- { j := rand.Int() % (i+1); swap(&dst[i], &dst[j]) }
     [rnd] = the numbers rand.Int() returns, in order *)
  Definition shuffle_go (rnd : list nat) (src : slice) : M slice :=
    dst <- make_slice (s_len src) (s_len src) ;;
    vs <- values src ;;
    copy_go dst vs ;;;
    for_each (rev (seq 0 (s_len src)))
      (fun i (k : nat) => swap dst i (nth k rnd 0 mod (i + 1)) ;;; ret (S k)) 0 ;;;
    ret dst.

  (* ================= find.go ================= *)

  (* FindAll: m := make(map[int]T, len(s)); for k, v := range s { if fn(v) { m[k] = v } } *)
  Definition find_all_go (fn : Z -> bool) (s : slice) : M nat :=
    m <- make_map ;;
    for_each (seq 0 (s_len s))
      (fun k (_ : unit) => v <- rd s k ;; if fn v then m_store m (Z.of_nat k) v else ret tt) tt ;;;
    ret m.

  (* ================= range.go ================= *)

  (* for i := start; i < end; i += step { result = append(result, i); if i+step < i { break } }
     (N(NumToString(i)) = i on int; the break, added by the repair 07bbafa, guards against wrap-around of the
      element type — on Z it fires only for a negative step) *)
  Fixpoint range_up (fuel : nat) (i step e : Z) (acc : slice) : M slice :=
    if (i <? e)%Z then
      match fuel with
      | O => fail
      | S f => acc' <- app acc [i] ;;
               if (i + step <? i)%Z then ret acc' else range_up f (i + step)%Z step e acc'
      end
    else ret acc.
  (* for i := start; end < i; i -= Abs(step) { result = append(result, i); if i-Abs(step) > i { break } } *)
  Fixpoint range_down (fuel : nat) (i astep e : Z) (acc : slice) : M slice :=
    if (e <? i)%Z then
      match fuel with
      | O => fail
      | S f => acc' <- app acc [i] ;;
               if (i - astep >? i)%Z then ret acc' else range_down f (i - astep)%Z astep e acc'
      end
    else ret acc.

  (* Range(args...): None = (nil, error).  var result []T (nil); > 3 arguments: error;
       1: end;  2: start, end (step 1);  3: start, step, end with the three error tests;  0: everything zero.
     The loops run at most |end - start| times when step >= 1 (the fuel; a step <= 0 never enters the
     first loop, and the second uses Abs(step) >= 1 or does not start). *)
  Definition range_go (args : slice) : M (option slice) :=
    let n := s_len args in
    if 3 <? n then ret None
    else
      cfg <- (match n with
              | 1 => e <- rd args 0 ;; ret (Some (0, 1, e)%Z)
              | 2 => a <- rd args 0 ;; e <- rd args 1 ;; ret (Some (a, 1, e)%Z)
              | 3 => a <- rd args 0 ;; st <- rd args 1 ;; e <- rd args 2 ;;
                     if ((e <? a) && (0 <? e))%Z%bool then ret None
                     else if (st =? 0)%Z then ret None
                     else if ((st <? 0) && (a <? e))%Z%bool then ret None
                     else ret (Some (a, st, e))
              | _ => ret (Some (0, 0, 0)%Z)
              end) ;;
      match cfg with
      | None => ret None
      | Some (start, step, e) =>
          let fuel := S (Z.to_nat (Z.abs (e - start))) in
          if (0 <? e)%Z
          then r <- range_up fuel start step e empty_slice ;; ret (Some r)
          else r <- range_down fuel start (Z.abs step) e empty_slice ;; ret (Some r)
      end.

  (* RangeRight: ran, err := Range(params...); if err != nil { return nil, err }; return Reverse(ran), nil *)
  Definition range_right_go (args : slice) : M (option slice) :=
    r <- range_go args ;;
    match r with
    | None => ret None
    | Some ran => rr <- reverse_go ran ;; ret (Some rr)
    end.

  (* ================= map.go (and the map helpers of filter.go / find.go) ================= *)

  (* Keys: keys := make([]K, len(m)); idx := 0; for k := range m { keys[idx] = k; idx++ } *)
  Definition keys_mem (id : nat) : M slice :=
    es <- m_entries id ;;
    keys <- make_slice (length es) (length es) ;;
    for_each es (fun kv (idx : nat) => wr keys idx (fst kv) ;;; ret (S idx)) 0 ;;;
    ret keys.
  (* Values *)
  Definition values_mem (id : nat) : M slice :=
    es <- m_entries id ;;
    vals <- make_slice (length es) (length es) ;;
    for_each es (fun kv (idx : nat) => wr vals idx (snd kv) ;;; ret (S idx)) 0 ;;;
    ret vals.
  (* MapCollection: result := make([]V, len(m)); for _, v := range m { result[idx] = fn(v); idx++ } *)
  Definition map_collection_mem (fn : Z -> Z) (id : nat) : M slice :=
    es <- m_entries id ;;
    result <- make_slice (length es) (length es) ;;
    for_each es (fun kv (idx : nat) => wr result idx (fn (snd kv)) ;;; ret (S idx)) 0 ;;;
    ret result.

  (* MapValues: newMap := map[K]R{}; for k, v := range m { newMap[k] = fn(v) } *)
  Definition map_values_mem (fn : Z -> Z) (id : nat) : M nat :=
    newMap <- make_map ;;
    es <- m_entries id ;;
    for_each es (fun kv (_ : unit) => m_store newMap (fst kv) (fn (snd kv))) tt ;;;
    ret newMap.
  (* MapKeys: newMap[fn(k, v)] = v *)
  Definition map_keys_mem (fn : Z -> Z -> Z) (id : nat) : M nat :=
    newMap <- make_map ;;
    es <- m_entries id ;;
    for_each es (fun kv (_ : unit) => m_store newMap (fn (fst kv) (snd kv)) (snd kv)) tt ;;;
    ret newMap.

  (* MapEvery / MapSome / MapContains: read-only scans of the entries *)
  Definition map_scan (cond : Z -> bool) (hit miss : bool) (id : nat) : M bool :=
    es <- m_entries id ;;
    ret (if existsb (fun kv => cond (snd kv)) es then hit else miss).
  Definition map_every_mem (fn : Z -> bool) (id : nat) : M bool := map_scan (fun v => negb (fn v)) false true id.
  Definition map_some_mem (fn : Z -> bool) (id : nat) : M bool := map_scan fn true false id.
  Definition map_contains_mem (id : nat) (value : Z) : M bool := map_scan (fun v => (v =? value)%Z) true false id.

  (* MapUnique: result := make(map[K]V, len(m)); ref := make(map[V]bool, len(m))   (ref: local)
       for k, v := range m { if _, ok := ref[v]; !ok { ref[v] = true; result[k] = v } } *)
  Definition map_unique_mem (id : nat) : M nat :=
    result <- make_map ;;
    es <- m_entries id ;;
    for_each es
      (fun kv (ref : list Z) =>
         if memz (snd kv) ref then ret ref
         else m_store result (fst kv) (snd kv) ;;; ret (snd kv :: ref)) [] ;;;
    ret result.

  (* sort.Slice(keys, <) on a slice the helper has just made: rewrites the cells of that slice *)
  Definition sort_in_place (s : slice) : M unit := vs <- values s ;; copy_go s (sort_z vs).

  (* Find: result := make(map[K]V); keys := make([]K, len(m)); fill; sort.Slice(keys, <);
       for _, k := range keys { if fn(m[k]) { result[k] = m[k]; break } } *)
  Definition find_mem (fn : Z -> bool) (id : nat) : M nat :=
    result <- make_map ;;
    es <- m_entries id ;;
    keys <- make_slice (length es) (length es) ;;
    for_each es (fun kv (i : nat) => wr keys i (fst kv) ;;; ret (S i)) 0 ;;;
    sort_in_place keys ;;;
    for_each (seq 0 (s_len keys))
      (fun i (done : bool) =>
         if done then ret true
         else k <- rd keys i ;;
              ov <- m_lookup id k ;;
              let v := match ov with Some v => v | None => 0%Z end in
              if fn v then m_store result k v ;;; ret true else ret false) false ;;;
    ret result.

  (* FindKey: var result K; for k, v := range m { if fn(v) { result = k; break } } *)
  Definition find_key_mem (fn : Z -> bool) (id : nat) : M Z :=
    es <- m_entries id ;;
    ret (match find (fun kv => fn (snd kv)) es with Some kv => fst kv | None => 0%Z end).

  (* FindByKey: result := make(map[K]V); for k, v := range m { if fn(k) { result[k] = v; break } } *)
  Definition find_by_key_mem (fn : Z -> bool) (id : nat) : M nat :=
    result <- make_map ;;
    es <- m_entries id ;;
    match find (fun kv => fn (fst kv)) es with
    | Some kv => m_store result (fst kv) (snd kv)
    | None => ret tt
    end ;;;
    ret result.

  (* Invert: inverted := map[V]K{}; keys := Keys(m); for i { inverted[m[keys[i]]] = keys[i] } *)
  Definition invert_mem (id : nat) : M nat :=
    inverted <- make_map ;;
    keys <- keys_mem id ;;
    for_each (seq 0 (s_len keys))
      (fun i (_ : unit) =>
         k <- rd keys i ;;
         ov <- m_lookup id k ;;
         m_store inverted (match ov with Some v => v | None => 0%Z end) k) tt ;;;
    ret inverted.

  (* Pluck: result := []V{}; for _, m := range mapSlice { mapped := FindByKey(m, k == key);
                                                          if _, ok := mapped[key]; ok { result = append(result, mapped[key]) } } *)
  Definition pluck_mem (mtbl : Z -> nat) (ms : slice) (key : Z) : M slice :=
    for_each (seq 0 (s_len ms))
      (fun i result =>
         id <- rd_elem mtbl ms i ;;
         mapped <- find_by_key_mem (fun k => (k =? key)%Z) id ;;
         ov <- m_lookup mapped key ;;
         match ov with Some v => app result [v] | None => ret result end) empty_slice.

  (* FindMinByKey / FindMaxByKey (find.go:78,138): result [value; 1 if an error is returned]
       if len(mapSlice) == 0 { return zero, nil }; if _, ok := mapSlice[0][key]; !ok { return zero, err }
       min = mapSlice[0][key]; for _, m := range mapSlice { mapped := FindByKey(m, k == key);
                                                           if ok && mapped[key] < min { min = mapped[key] } } *)
  Definition find_ext_by_key_mem (less : Z -> Z -> bool) (mtbl : Z -> nat) (ms : slice) (key : Z) : M (list Z) :=
    if s_len ms =? 0 then ret [0; 0]%Z
    else
      id0 <- rd_elem mtbl ms 0 ;;
      o0 <- m_lookup id0 key ;;
      match o0 with
      | None => ret [0; 1]%Z
      | Some v0 =>
          mn <- for_each (seq 0 (s_len ms))
                  (fun i mn =>
                     id <- rd_elem mtbl ms i ;;
                     mapped <- find_by_key_mem (fun k => (k =? key)%Z) id ;;
                     ov <- m_lookup mapped key ;;
                     match ov with Some v => if less v mn then ret v else ret mn | None => ret mn end) v0 ;;
          ret [mn; 0%Z]
      end.

  (* Pick(collection, keys...): result := make(map[K]V); if len(keys) == 0 { return result, err }
       for k := range collection { if Contains(keys, k) { result[k] = collection[k] } }.   None = error *)
  Definition pick_mem (coll : nat) (keys : slice) : M (option nat) :=
    result <- make_map ;;
    if s_len keys =? 0 then ret None
    else
      es <- m_entries coll ;;
      for_each es
        (fun kv (_ : unit) =>
           c <- contains_go keys (fst kv) ;;
           if c then ov <- m_lookup coll (fst kv) ;; m_store result (fst kv) (match ov with Some v => v | None => 0%Z end)
           else ret tt) tt ;;;
      ret (Some result).

  (* a mutant kept for the self-test of the theorems (the seeded change C16-2): Pick takes every key it
     finds out of its VARIADIC keys slice by swap-remove — it writes into the caller's slice:
       if idx := IndexOf(keys, k); idx >= 0 { result[k] = collection[k]; keys[idx] = keys[len(keys)-1];
                                              keys = keys[:len(keys)-1]; if len(keys) == 0 { break } } *)
  Definition pick_swap_remove (coll : nat) (keys : slice) : M (option nat) :=
    result <- make_map ;;
    if s_len keys =? 0 then ret None
    else
      es <- m_entries coll ;;
      for_each es
        (fun kv (keys : slice) =>
           if s_len keys =? 0 then ret keys
           else
             idx <- index_of_go keys (fst kv) ;;
             if (idx <? 0)%Z then ret keys
             else
               ov <- m_lookup coll (fst kv) ;;
               m_store result (fst kv) (match ov with Some v => v | None => 0%Z end) ;;;
               last <- rd keys (s_len keys - 1) ;;
               wr keys (Z.to_nat idx) last ;;;
               reslice keys 0 (s_len keys - 1)) keys ;;;
      ret (Some result).

  (* PickBy: result := make(map[K]V); for k, v := range collection { if fn(k, v) { result[k] = collection[k] } } *)
  Definition pick_by_mem (fn : Z -> Z -> bool) (coll : nat) : M nat :=
    result <- make_map ;;
    es <- m_entries coll ;;
    for_each es
      (fun kv (_ : unit) =>
         if fn (fst kv) (snd kv)
         then ov <- m_lookup coll (fst kv) ;; m_store result (fst kv) (match ov with Some v => v | None => 0%Z end)
         else ret tt) tt ;;;
    ret result.

  (* Omit (in place on the map): for k := range collection { if Contains(keys, k) { delete(collection, k) } }; return collection *)
  Definition omit_mem (coll : nat) (keys : slice) : M nat :=
    es <- m_entries coll ;;
    for_each es
      (fun kv (_ : unit) => c <- contains_go keys (fst kv) ;; if c then m_delete coll (fst kv) else ret tt) tt ;;;
    ret coll.

  (* OmitBy (in place on the map) *)
  Definition omit_by_mem (fn : Z -> Z -> bool) (coll : nat) : M nat :=
    es <- m_entries coll ;;
    for_each es (fun kv (_ : unit) => if fn (fst kv) (snd kv) then m_delete coll (fst kv) else ret tt) tt ;;;
    ret coll.

  (* PartitionMap: var result [2][]map[K]V; for _, m := range mapSlice { for k, v := range m {
       m[k] = v; if fn(m) { result[0] = append(result[0], m); break } else { result[1] = append(result[1], m); break } } }
     — it WRITES the entry it has just read into each non-empty argument map and returns references to them *)
  Definition partition_map_mem (fn : amap -> bool) (mtbl : Z -> nat) (ms : slice) : M (list nat * list nat) :=
    for_each (seq 0 (s_len ms))
      (fun i (st : list nat * list nat) =>
         let (r0, r1) := st in
         id <- rd_elem mtbl ms i ;;
         es <- m_entries id ;;
         match es with
         | [] => ret st
         | (k, v) :: _ =>
             m_store id k v ;;;
             cur <- m_entries id ;;
             if fn cur then ret (r0 ++ [id], r1) else ret (r0, r1 ++ [id])
         end) ([], []).

  (* SliceToMap: result := make(map[K]T); panic unless len(s1) == len(s2); for i { result[s1[i]] = s2[i] } *)
  Definition slice_to_map_go (s1 s2 : slice) : M nat :=
    result <- make_map ;;
    if negb (s_len s1 =? s_len s2) then fail
    else
      for_each (seq 0 (s_len s1))
        (fun i (_ : unit) => k <- rd s1 i ;; v <- rd s2 i ;; m_store result k v) tt ;;;
      ret result.

  (* FilterMap: filtered := map[K]V{}; for k, v := range m { if fn(v) { filtered[k] = v } } *)
  Definition filter_map_mem (fn : Z -> bool) (id : nat) : M nat :=
    filtered <- make_map ;;
    es <- m_entries id ;;
    for_each es (fun kv (_ : unit) => if fn (snd kv) then m_store filtered (fst kv) (snd kv) else ret tt) tt ;;;
    ret filtered.

  (* FilterMapCollection (after the repair 59d33be): filtered := []map[K]V{};
       for _, item := range collection { for _, v := range item { if fn(v) { filtered = append(filtered, item); break } } }
     — read only; the result refers to the ARGUMENT maps *)
  Definition filter_map_collection_mem (fn : Z -> bool) (mtbl : Z -> nat) (ms : slice) : M (list nat) :=
    for_each (seq 0 (s_len ms))
      (fun i (filtered : list nat) =>
         id <- rd_elem mtbl ms i ;;
         es <- m_entries id ;;
         if existsb (fun kv => fn (snd kv)) es then ret (filtered ++ [id]) else ret filtered) [].

  (* Filter2DMapCollection (after the repair fb48a27): the items are maps of maps (objects whose values are
     codes of the inner maps, decoded by [mtbl]; the items themselves are decoded by [otbl]); the callback
     sees an inner map; the result refers to the ARGUMENT items *)
  Definition filter_2d_mem (fn : amap -> bool) (otbl mtbl : Z -> nat) (coll : slice) : M (list nat) :=
    for_each (seq 0 (s_len coll))
      (fun i (filtered : list nat) =>
         item <- rd_elem otbl coll i ;;
         es <- m_entries item ;;
         hit <- for_each es
                  (fun e (hit : bool) => if hit then ret true else inner <- m_entries (mtbl (snd e)) ;; ret (fn inner)) false ;;
         if hit then ret (filtered ++ [item]) else ret filtered) [].

  (* ================= heap/heap.go, heap/heapsort.go (in place) ================= *)

  Variable comp : Z -> Z -> bool.

  (* FromSlice's two nested loops as a step function; the inner loop overwrites
     the outer loop variable (`i = current`), as in the Go code.
       inner = false : at the outer loop test (i >= 0)
       inner = true  : at the top of the inner `for {` with the current i
     How many steps the two loops take together is not obvious because of that
     overwriting: the loop runs under [big_fuel] (2^40 steps). *)
  Definition from_slice_step (data : slice) (st : bool * Z) : M ((bool * Z) + unit) :=
    let (inner, i) := st in
    if inner then
      let l := (2 * i + 1)%Z in
      let r := (2 * i + 2)%Z in
      if ((Z.of_nat (s_len data) <=? l) || (l <? 0))%Z then ret (inl (false, (i - 1)%Z))
      else
        dl <- rd data (Z.to_nat l) ;;
        current <- (if (r <? Z.of_nat (s_len data))%Z
                    then dr <- rd data (Z.to_nat r) ;; ret (if comp dr dl then r else l)
                    else ret l) ;;
        dc <- rd data (Z.to_nat current) ;;
        di <- rd data (Z.to_nat i) ;;
        if negb (comp dc di) then ret (inl (false, (i - 1)%Z))
        else swap data (Z.to_nat i) (Z.to_nat current) ;;; ret (inl (true, current))
    else
      if (0 <=? i)%Z then ret (inl (true, i)) else ret (inr tt).
  Definition from_slice_go (data : slice) : M slice :=
    run_loop big_fuel (from_slice_step data) (false, (Z.of_nat (s_len data) / 2 - 1)%Z) ;;;
    ret data.

  (* moveDown(n, i) — recursive in Go, fuel = depth bound *)
  Fixpoint move_down (fuel : nat) (data : slice) (n i : nat) : M unit :=
    match fuel with
    | O => fail
    | S f =>
        let left := 2 * i + 1 in
        let right := 2 * i + 2 in
        di <- rd data i ;;
        c1 <- (if left <? n then dl <- rd data left ;; ret (if comp dl di then left else i) else ret i) ;;
        dc1 <- rd data c1 ;;
        c2 <- (if right <? n then dr <- rd data right ;; ret (if comp dr dc1 then right else c1) else ret c1) ;;
        if c2 =? i then ret tt
        else swap data i c2 ;;; move_down f data n c2
    end.

  (* Sort: heap := FromSlice(data); for i := size-1; i > 0; i-- { swap(data,0,i); moveDown(i,0) };
     return heap.GetValues()  — a copy since the GetValues repair (C01) *)
  Definition sort_go (data : slice) : M slice :=
    from_slice_go data ;;;
    for_each (rev (seq 1 (s_len data - 1)))
      (fun i (_ : unit) => swap data 0 i ;;; move_down (S (s_len data)) data i 0) tt ;;;
    (* GetValues: values := make([]T, len(h.data)); copy(values, h.data) *)
    vals <- make_slice (s_len data) (s_len data) ;;
    vs <- values data ;;
    copy_go vals vs ;;;
    ret vals.
End Helpers.

(* ------------------------------------------------------------------ *)
(* One call of a helper, as data: what the wire glue runs and what the
   theorems of C16_Props quantify over.                                  *)

Inductive hcall :=
(* --- build their result in fresh storage --- *)
| HMerge (s : slice) (tbl : Z -> slice) (params : slice)
| HFilter (fn : Z -> bool) (s : slice)
| HMap (fn : Z -> Z) (s : slice)
| HUnique (s : slice)
| HUniqueBy (fn : Z -> Z) (s : slice)
| HPartition (fn : Z -> bool) (s : slice)
| HDuplicate (s : slice)
| HDuplicateWithIndex (s : slice)
| HFlatten (fuel : nat) (atbl : Z -> anyv) (x : anyv)
| HUnion (fuel : nat) (atbl : Z -> anyv) (x : anyv)
| HIntersection (tbl : Z -> slice) (params : slice)
| HIntersectionBy (fn : Z -> Z) (tbl : Z -> slice) (params : slice)
| HWithout (s vals : slice)
| HDifference (s1 s2 : slice)
| HDifferenceBy (fn : Z -> Z) (s1 s2 : slice)
| HDropWhile (fn : Z -> bool) (s : slice)
| HDropRightWhile (fn : Z -> bool) (s : slice)
| HGroupBy (fn : Z -> Z) (s : slice)
| HZip (tbl : Z -> slice) (slices : slice)
| HUnzip (tbl : Z -> slice) (slices : slice)
| HToSlice (args : slice)
| HShuffle (rnd : list nat) (s : slice)
| HFindAll (fn : Z -> bool) (s : slice)
| HRange (args : slice)
| HRangeRight (args : slice)
| HSliceToMap (s1 s2 : slice)
| HKeys (id : nat)
| HValues (id : nat)
| HMapCollection (fn : Z -> Z) (id : nat)
| HMapValues (fn : Z -> Z) (id : nat)
| HMapKeys (fn : Z -> Z -> Z) (id : nat)
| HMapUnique (id : nat)
| HFind (fn : Z -> bool) (id : nat)
| HFindByKey (fn : Z -> bool) (id : nat)
| HInvert (id : nat)
| HPluck (mtbl : Z -> nat) (ms : slice) (key : Z)
| HPick (coll : nat) (keys : slice)
| HPickBy (fn : Z -> Z -> bool) (coll : nat)
| HFilterMap (fn : Z -> bool) (id : nat)
(* --- return a scalar (read only) --- *)
| HSum (s : slice) | HSumBy (fn : Z -> Z) (s : slice) | HMean (s : slice)
| HIndexOf (s : slice) (v : Z) | HLastIndexOf (s : slice) (v : Z)
| HForEach (s : slice) | HForEachRight (s : slice)
| HReduce (fn : Z -> Z -> Z) (init : Z) (s : slice)
| HEvery (fn : Z -> bool) (s : slice) | HSome (fn : Z -> bool) (s : slice) | HContains (s : slice) (v : Z)
| HFindIndex (fn : Z -> bool) (s : slice) | HFindLastIndex (fn : Z -> bool) (s : slice)
| HFindMin (s : slice) | HFindMinBy (fn : Z -> Z) (s : slice)
| HFindMax (s : slice) | HFindMaxBy (fn : Z -> Z) (s : slice)
| HNth (s : slice) (n : Z) | HMin (s : slice) | HMax (s : slice)
| HMapEvery (fn : Z -> bool) (id : nat) | HMapSome (fn : Z -> bool) (id : nat) | HMapContains (id : nat) (v : Z)
| HFindKey (fn : Z -> bool) (id : nat)
| HFindMinByKey (mtbl : Z -> nat) (ms : slice) (key : Z) | HFindMaxByKey (mtbl : Z -> nat) (ms : slice) (key : Z)
(* --- views: re-slice the argument / return references to the argument maps, never write --- *)
| HDrop (s : slice) (n : Z)
| HChunk (s : slice) (size : Z)
| HFilterMapCollection (fn : Z -> bool) (mtbl : Z -> nat) (ms : slice)
| HFilter2D (fn : amap -> bool) (otbl mtbl : Z -> nat) (coll : slice)
(* --- in place on a slice --- *)
| HReject (fn : Z -> bool) (s : slice)
| HReverse (s : slice)
| HFromSlice (comp : Z -> Z -> bool) (s : slice)  (* the heap's data IS s *)
| HSort (comp : Z -> Z -> bool) (s : slice)       (* returns a copy *)
(* --- in place on a map / write to the argument maps --- *)
| HOmit (coll : nat) (keys : slice)
| HOmitBy (fn : Z -> Z -> bool) (coll : nat)
| HPartitionMap (fn : amap -> bool) (mtbl : Z -> nat) (ms : slice).

(* what a call returns: slices (with a constant prefix: the key of a GroupBy
   group), maps by id, plain values *)
Inductive rref :=
| RS (pre : list Z) (s : slice)
| RM (id : nat)
| RV (v : list Z).

Definition rs (s : slice) : rref := RS [] s.
Definition zb (b : bool) : Z := if b then 1%Z else 0%Z.

Definition one {A} (f : A -> rref) (c : M A) : M (list rref) := r <- c ;; ret [f r].
Definition scalar (c : M Z) : M (list rref) := one (fun v => RV [v]) c.
Definition scalar_b (c : M bool) : M (list rref) := one (fun b => RV [zb b]) c.

Definition run_call (slack : nat -> nat -> nat) (c : hcall) : M (list rref) :=
  match c with
  | HMerge s tbl params => one rs (merge_go slack s tbl params)
  | HFilter fn s => one rs (filter_go slack fn s)
  | HMap fn s => one rs (map_go fn s)
  | HUnique s => one rs (unique_go slack s)
  | HUniqueBy fn s => one rs (unique_by_go slack fn s)
  | HPartition fn s => r <- partition_go slack fn s ;; ret (map rs r)
  | HDuplicate s => one rs (duplicate_go slack s)
  | HDuplicateWithIndex s => one RM (duplicate_with_index_go s)
  | HFlatten fuel atbl x => one rs (flatten_go slack fuel atbl x)
  | HUnion fuel atbl x => one rs (union_go slack fuel atbl x)
  | HIntersection tbl params => one rs (intersection_go slack tbl params)
  | HIntersectionBy fn tbl params => one rs (intersection_by_go slack fn tbl params)
  | HWithout s vals => one rs (without_go slack s vals)
  | HDifference s1 s2 => one rs (difference_go slack s1 s2)
  | HDifferenceBy fn s1 s2 => one rs (difference_by_go slack fn s1 s2)
  | HDropWhile fn s => one rs (drop_while_go slack fn s)
  | HDropRightWhile fn s => one rs (drop_right_while_go slack fn s)
  | HGroupBy fn s => r <- group_by_go slack fn s ;; ret (map (fun kv => RS [fst kv] (snd kv)) r)
  | HZip tbl slices => r <- zip_go tbl slices ;; ret (map rs r)
  | HUnzip tbl slices => r <- unzip_go tbl slices ;; ret (map rs r)
  | HToSlice args => one rs (to_slice_go slack args)
  | HShuffle rnd s => one rs (shuffle_go rnd s)
  | HFindAll fn s => one RM (find_all_go fn s)
  | HRange args => one (fun r => rs (or_nil r)) (range_go slack args)
  | HRangeRight args => one (fun r => rs (or_nil r)) (range_right_go slack args)
  | HSliceToMap s1 s2 => one RM (slice_to_map_go s1 s2)
  | HKeys id => one rs (keys_mem id)
  | HValues id => one rs (values_mem id)
  | HMapCollection fn id => one rs (map_collection_mem fn id)
  | HMapValues fn id => one RM (map_values_mem fn id)
  | HMapKeys fn id => one RM (map_keys_mem fn id)
  | HMapUnique id => one RM (map_unique_mem id)
  | HFind fn id => one RM (find_mem fn id)
  | HFindByKey fn id => one RM (find_by_key_mem fn id)
  | HInvert id => one RM (invert_mem id)
  | HPluck mtbl ms key => one rs (pluck_mem slack mtbl ms key)
  | HPick coll keys => r <- pick_mem coll keys ;; ret (match r with Some id => [RM id] | None => [] end)
  | HPickBy fn coll => one RM (pick_by_mem fn coll)
  | HFilterMap fn id => one RM (filter_map_mem fn id)
  | HSum s => scalar (sum_go s)
  | HSumBy fn s => scalar (sum_by_go fn s)
  | HMean s => scalar (mean_go s)
  | HIndexOf s v => scalar (index_of_go s v)
  | HLastIndexOf s v => scalar (last_index_of_go s v)
  | HForEach s => r <- for_each_go s ;; ret []
  | HForEachRight s => r <- for_each_right_go s ;; ret []
  | HReduce fn init s => scalar (reduce_go fn init s)
  | HEvery fn s => scalar_b (every_go fn s)
  | HSome fn s => scalar_b (some_go fn s)
  | HContains s v => scalar_b (contains_go s v)
  | HFindIndex fn s => scalar (find_index_go fn s)
  | HFindLastIndex fn s => scalar (find_last_index_go fn s)
  | HFindMin s => scalar (find_min_go s)
  | HFindMinBy fn s => scalar (find_min_by_go fn s)
  | HFindMax s => scalar (find_max_go s)
  | HFindMaxBy fn s => scalar (find_max_by_go fn s)
  | HNth s n => one RV (nth_go s n)
  | HMin s => scalar (min_max_go Z.ltb s)
  | HMax s => scalar (min_max_go Z.gtb s)
  | HMapEvery fn id => scalar_b (map_every_mem fn id)
  | HMapSome fn id => scalar_b (map_some_mem fn id)
  | HMapContains id v => scalar_b (map_contains_mem id v)
  | HFindKey fn id => scalar (find_key_mem fn id)
  | HFindMinByKey mtbl ms key => one RV (find_ext_by_key_mem Z.ltb mtbl ms key)
  | HFindMaxByKey mtbl ms key => one RV (find_ext_by_key_mem Z.gtb mtbl ms key)
  | HDrop s n => one rs (drop_go s n)
  | HChunk s size => r <- chunk_go s size ;; ret (map rs r)
  | HFilterMapCollection fn mtbl ms => r <- filter_map_collection_mem fn mtbl ms ;; ret (map RM r)
  | HFilter2D fn otbl mtbl coll => r <- filter_2d_mem fn otbl mtbl coll ;; ret (map RM r)
  | HReject fn s => one rs (reject_go slack fn s)
  | HReverse s => one rs (reverse_go s)
  | HFromSlice comp s => one rs (from_slice_go comp s)
  | HSort comp s => one rs (sort_go comp s)
  | HOmit coll keys => one RM (omit_mem coll keys)
  | HOmitBy fn coll => one RM (omit_by_mem fn coll)
  | HPartitionMap fn mtbl ms => r <- partition_map_mem fn mtbl ms ;; ret (map RM (fst r ++ snd r))
  end.

(* what a reference shows in a memory *)
Definition read_ref (m : mem) (r : rref) : list Z :=
  match r with
  | RS pre s => pre ++ read_all m s
  | RM id => arr_of m id
  | RV v => v
  end.

(* ---- the classes of the property's statement ---- *)

Definition image {A} (tbl : Z -> A) (x : A) : Prop := exists c, x = tbl c.

Inductive ckind :=
| KFresh                             (* builds what it returns in storage of its own, or returns a plain value *)
| KInPlaceS (s : slice)              (* may write inside the window of the slice argument s *)
| KInPlaceM (W : nat -> Prop)        (* may store into / delete from the argument maps W *)
| KViewS (s : slice)                 (* re-slices the argument s, never writes *)
| KViewM (W : nat -> Prop).          (* returns references to the argument maps W, never writes *)

Definition kind_of (c : hcall) : ckind :=
  match c with
  | HReject _ s | HReverse s | HFromSlice _ s | HSort _ s => KInPlaceS s
  | HOmit coll _ | HOmitBy _ coll => KInPlaceM (eq coll)
  | HPartitionMap _ mtbl _ => KInPlaceM (image mtbl)
  | HDrop s _ | HChunk s _ => KViewS s
  | HFilterMapCollection _ mtbl _ => KViewM (image mtbl)
  | HFilter2D _ otbl _ _ => KViewM (image otbl)
  | _ => KFresh
  end.

(* the call is not one of the seven in-place helpers *)
Definition not_in_place (c : hcall) : Prop :=
  match kind_of c with KInPlaceS _ | KInPlaceM _ => False | _ => True end.
