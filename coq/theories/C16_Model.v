(* C16_Model.v — the slice helpers of slice.go / filter.go (and the two in-place
   heap functions) re-expressed over the array memory of SliceMem.v, statement
   by statement after the Go code: `make`, index read/write, re-slice, `append`.
   Plus a tiny map memory for the helpers that write to a map argument
   (Omit, OmitBy, PartitionMap) and one representative of the read-only map
   builders.  No proofs here.

   Local Go maps used as sets (`keys := make(map[T]bool)`) never escape and are
   modelled by a Gallina list.  Slices of slices ([][]T results of Chunk,
   Partition; variadic `params ...[]T`) are Gallina lists of slice descriptors:
   their header arrays have a different element type than the data arrays and
   cannot alias them.  The nil slice and the zero-length literal `[]T{}` are
   [empty_slice] (no array is allocated for them, as in Go). *)

From Gogu Require Import Base SliceMem C14_Model.
Local Open Scope nat_scope.
Local Open Scope mem_scope.

Definition empty_slice : slice := mkSlice 0 0 0 0.

Fixpoint memz (x : Z) (l : list Z) : bool :=
  match l with [] => false | v :: l' => if (v =? x)%Z then true else memz x l' end.

Section Helpers.
  Variable slack : nat -> nat -> nat.
  Notation app := (append slack).

  (* ---------------- filter.go ---------------- *)

  (* Filter: res := make([]T, 0); for _, v := range slice { if fn(v) { res = append(res, v) } } *)
  Definition filter_go (fn : Z -> bool) (s : slice) : M slice :=
    res <- make_slice 0 0 ;;
    for_each (seq 0 (s_len s))
      (fun i res => v <- rd s i ;; if fn v then app res [v] else ret res) res.

  (* a mutant kept for the self-test of the theorems: Filter building on slice[:0] *)
  Definition filter_on_arg (fn : Z -> bool) (s : slice) : M slice :=
    res <- reslice s 0 0 ;;
    for_each (seq 0 (s_len s))
      (fun i res => v <- rd s i ;; if fn v then app res [v] else ret res) res.

  (* Reject (in place):
       for i := 0; i < len(slice); i++ {
         if fn(slice[i]) { slice = append(slice[:i], slice[i+1:]...); i-- } }
     (the `i--` and the loop's `i++` cancel) *)
  Fixpoint reject_loop (fuel : nat) (fn : Z -> bool) (sl : slice) (i : nat) : M slice :=
    if i <? s_len sl then
      match fuel with
      | O => fail
      | S f =>
          v <- rd sl i ;;
          if fn v then
            hd <- reslice sl 0 i ;;
            tl <- reslice sl (i + 1) (s_len sl) ;;
            vs <- values tl ;;
            sl' <- app hd vs ;;
            reject_loop f fn sl' i
          else reject_loop f fn sl (i + 1)
      end
    else ret sl.
  Definition reject_go (fn : Z -> bool) (s : slice) : M slice :=
    reject_loop (s_len s) fn s 0.

  (* ---------------- slice.go ---------------- *)

  (* Map: result := make([]T2, len(slice)); for idx, v := range slice { result[idx] = fn(v) } *)
  Definition map_go (fn : Z -> Z) (s : slice) : M slice :=
    result <- make_slice (s_len s) (s_len s) ;;
    for_each (seq 0 (s_len s))
      (fun idx (_ : unit) => v <- rd s idx ;; wr result idx (fn v)) tt ;;;
    ret result.

  (* Reverse (in place): for i, j := 0, len(sl)-1; i < j; i, j = i+1, j-1 { sl[i], sl[j] = sl[j], sl[i] } *)
  Fixpoint reverse_loop (fuel : nat) (s : slice) (i j : nat) : M unit :=
    if i <? j then
      match fuel with
      | O => fail
      | S f => swap s i j ;;; reverse_loop f s (i + 1) (j - 1)
      end
    else ret tt.
  Definition reverse_go (s : slice) : M slice :=
    reverse_loop (s_len s) s 0 (s_len s - 1) ;;; ret s.

  (* Unique: keys := map; result := []T{}; for v { if !keys[v] { keys[v] = true; result = append(result, v) } } *)
  Definition unique_go (s : slice) : M slice :=
    st <- for_each (seq 0 (s_len s))
            (fun i (st : list Z * slice) =>
               let (keys, result) := st in
               v <- rd s i ;;
               if memz v keys then ret st
               else result' <- app result [v] ;; ret (v :: keys, result'))
            ([], empty_slice) ;;
    ret (snd st).

  (* UniqueBy *)
  Definition unique_by_go (fn : Z -> Z) (s : slice) : M slice :=
    st <- for_each (seq 0 (s_len s))
            (fun i (st : list Z * slice) =>
               let (keys, result) := st in
               v <- rd s i ;;
               if memz (fn v) keys then ret st
               else result' <- app result [v] ;; ret (fn v :: keys, result'))
            ([], empty_slice) ;;
    ret (snd st).

  (* Partition: var result [2][]T (two nil slices); append to one or the other *)
  Definition partition_go (fn : Z -> bool) (s : slice) : M (list slice) :=
    st <- for_each (seq 0 (s_len s))
            (fun i (st : slice * slice) =>
               let (r0, r1) := st in
               v <- rd s i ;;
               if fn v then r0' <- app r0 [v] ;; ret (r0', r1)
               else r1' <- app r1 [v] ;; ret (r0, r1'))
            (empty_slice, empty_slice) ;;
    ret [fst st; snd st].

  (* Merge, AFTER the repair (fixes/builder-c14c16):
       merged := make([]T, 0, len(s)); merged = append(merged, s...)
       for i { merged = append(merged, params[i]...) }; return merged *)
  Definition merge_go (s : slice) (params : list slice) : M slice :=
    merged <- make_slice 0 (s_len s) ;;
    vs <- values s ;;
    merged <- app merged vs ;;
    for_each (seq 0 (length params))
      (fun i merged => ps <- values (nth i params empty_slice) ;; app merged ps) merged.

  (* Merge as found (slice.go:236): the last statement appends ONTO THE ARGUMENT *)
  Definition merge_asfound (s : slice) (params : list slice) : M slice :=
    merged <- make_slice 0 (s_len s) ;;
    merged <- for_each (seq 0 (length params))
                (fun i merged => ps <- values (nth i params empty_slice) ;; app merged ps) merged ;;
    ms <- values merged ;;
    app s ms.

  (* Intersection(params...): panics without parameters (params[0]) *)
  Definition intersection_go (params : list slice) : M slice :=
    match params with
    | [] => fail
    | p0 :: rest =>
        for_each (seq 0 (s_len p0))
          (fun i result =>
             item <- rd p0 i ;;
             rs <- values result ;;
             if memz item rs then ret result
             else
               all <- for_each (seq 0 (length rest))
                        (fun j (ok : bool) =>
                           if ok then pj <- values (nth j rest empty_slice) ;; ret (memz item pj)
                           else ret false) true ;;
               if all then app result [item] else ret result)
          empty_slice
    end.

  (* Without: keys := map; uni := make([]T1, 0, len(slice));
     loop: for v { for val := range values { if v == val { continue loop } }; if !keys[v] {...append} } *)
  Definition without_go (s vals : slice) : M slice :=
    uni <- make_slice 0 (s_len s) ;;
    st <- for_each (seq 0 (s_len s))
            (fun i (st : list Z * slice) =>
               let (keys, uni) := st in
               v <- rd s i ;;
               vs <- values vals ;;
               if memz v vs then ret st
               else if memz v keys then ret st
               else uni' <- app uni [v] ;; ret (v :: keys, uni'))
            ([], uni) ;;
    ret (snd st).

  (* Difference: the same loop with `unique := []T{}` *)
  Definition difference_go (s1 s2 : slice) : M slice :=
    st <- for_each (seq 0 (s_len s1))
            (fun i (st : list Z * slice) =>
               let (keys, unique) := st in
               v <- rd s1 i ;;
               vs <- values s2 ;;
               if memz v vs then ret st
               else if memz v keys then ret st
               else unique' <- app unique [v] ;; ret (v :: keys, unique'))
            ([], empty_slice) ;;
    ret (snd st).

  (* Chunk (views): panics when size <= 0;
       for i { if i%size == 0 { if i+size < len { append(result, slice[i:i+size]) } else { append(result, slice[i:]) } } } *)
  Definition chunk_go (s : slice) (size : Z) : M (list slice) :=
    if (size <=? 0)%Z then fail
    else
      let sz := Z.to_nat size in
      for_each (seq 0 (s_len s))
        (fun i (result : list slice) =>
           if i mod sz =? 0 then
             if i + sz <? s_len s
             then c <- reslice s i (i + sz) ;; ret (result ++ [c])
             else c <- reslice s i (s_len s) ;; ret (result ++ [c])
           else ret result) [].

  (* Drop (view): if Abs(n) < len { if n > 0 { slice[n:] } else { slice[:len-Abs(n)] } }; []T{} otherwise *)
  Definition drop_go (s : slice) (n : Z) : M slice :=
    if (Z.abs n <? Z.of_nat (s_len s))%Z then
      if (0 <? n)%Z then reslice s (Z.to_nat n) (s_len s)
      else reslice s 0 (s_len s - Z.to_nat (Z.abs n))
    else ret empty_slice.

  (* DropWhile: result := make([]T, 0, len(slice)); for v { if !fn(v) { append } } *)
  Definition drop_while_go (fn : Z -> bool) (s : slice) : M slice :=
    result <- make_slice 0 (s_len s) ;;
    for_each (seq 0 (s_len s))
      (fun i result => v <- rd s i ;; if fn v then ret result else app result [v]) result.

  (* DropRightWhile: the same from the back *)
  Definition drop_right_while_go (fn : Z -> bool) (s : slice) : M slice :=
    result <- make_slice 0 (s_len s) ;;
    for_each (rev (seq 0 (s_len s)))
      (fun i result => v <- rd s i ;; if fn v then ret result else app result [v]) result.

  (* ToSlice(args...): slice := make([]T, 0, len(args)); slice = append(slice, args...) *)
  Definition to_slice_go (args : slice) : M slice :=
    sl <- make_slice 0 (s_len args) ;;
    vs <- values args ;;
    app sl vs.

  (* ---------------- heap/heap.go, heap/heapsort.go (in place) ---------------- *)

  Variable comp : Z -> Z -> bool.

  (* FromSlice's two nested loops, driven by fuel; the inner loop overwrites
     the outer loop variable (`i = current`), as in the Go code.
       inner = false : at the outer loop test (i >= 0)
       inner = true  : at the top of the inner `for {` with the current i *)
  Fixpoint from_slice_loop (fuel : nat) (data : slice) (inner : bool) (i : Z) : M unit :=
    match fuel with
    | O => fail
    | S f =>
        if inner then
          let l := (2 * i + 1)%Z in
          let r := (2 * i + 2)%Z in
          if ((Z.of_nat (s_len data) <=? l) || (l <? 0))%Z then from_slice_loop f data false (i - 1)
          else
            dl <- rd data (Z.to_nat l) ;;
            current <- (if (r <? Z.of_nat (s_len data))%Z
                        then dr <- rd data (Z.to_nat r) ;; ret (if comp dr dl then r else l)
                        else ret l) ;;
            dc <- rd data (Z.to_nat current) ;;
            di <- rd data (Z.to_nat i) ;;
            if negb (comp dc di) then from_slice_loop f data false (i - 1)
            else swap data (Z.to_nat i) (Z.to_nat current) ;;; from_slice_loop f data true current
        else
          if (0 <=? i)%Z then from_slice_loop f data true i else ret tt
    end.
  Definition heap_fuel (n : nat) : nat := (n + 2) * (n + 2) * (n + 2).
  Definition from_slice_go (data : slice) : M slice :=
    from_slice_loop (heap_fuel (s_len data)) data false (Z.of_nat (s_len data) / 2 - 1) ;;;
    ret data.

  (* moveDown(n, i) — recursive in Go, fuel = depth bound *)
  Fixpoint move_down (fuel : nat) (data : slice) (n i : nat) : M unit :=
    match fuel with
    | O => fail
    | S f =>
        let left := 2 * i + 1 in
        let right := 2 * i + 2 in
        di <- rd data i ;;
        c1 <- (if left <? n then dl <- rd data left ;; ret (if comp dl di then left else i) else ret i) ;;
        dc1 <- rd data c1 ;;
        c2 <- (if right <? n then dr <- rd data right ;; ret (if comp dr dc1 then right else c1) else ret c1) ;;
        if c2 =? i then ret tt
        else swap data i c2 ;;; move_down f data n c2
    end.

  (* Sort: heap := FromSlice(data); for i := size-1; i > 0; i-- { swap(data,0,i); moveDown(i,0) };
     return heap.GetValues()  — a copy since the GetValues repair (C01) *)
  Definition sort_go (data : slice) : M slice :=
    from_slice_go data ;;;
    for_each (rev (seq 1 (s_len data - 1)))
      (fun i (_ : unit) => swap data 0 i ;;; move_down (S (s_len data)) data i 0) tt ;;;
    (* GetValues: values := make([]T, len(h.data)); copy(values, h.data) *)
    vals <- make_slice (s_len data) (s_len data) ;;
    vs <- values data ;;
    copy_go vals vs ;;;
    ret vals.
End Helpers.

(* ------------------------------------------------------------------ *)
(* One call of a helper, as data: what the wire glue runs and what the
   theorems of C16_Props quantify over.                                  *)

Inductive hcall :=
| HMerge (s : slice) (params : list slice)
| HFilter (fn : Z -> bool) (s : slice)
| HMap (fn : Z -> Z) (s : slice)
| HUnique (s : slice)
| HUniqueBy (fn : Z -> Z) (s : slice)
| HPartition (fn : Z -> bool) (s : slice)
| HIntersection (params : list slice)
| HWithout (s vals : slice)
| HDifference (s1 s2 : slice)
| HDropWhile (fn : Z -> bool) (s : slice)
| HDropRightWhile (fn : Z -> bool) (s : slice)
| HToSlice (args : slice)
| HDrop (s : slice) (n : Z)                       (* view *)
| HChunk (s : slice) (size : Z)                   (* views *)
| HReject (fn : Z -> bool) (s : slice)            (* in place *)
| HReverse (s : slice)                            (* in place *)
| HFromSlice (comp : Z -> Z -> bool) (s : slice)  (* in place; the heap's data IS s *)
| HSort (comp : Z -> Z -> bool) (s : slice).      (* in place; returns a copy *)

Definition one {A} (c : M A) : M (list A) := r <- c ;; ret [r].

Definition run_call (slack : nat -> nat -> nat) (c : hcall) : M (list slice) :=
  match c with
  | HMerge s params => one (merge_go slack s params)
  | HFilter fn s => one (filter_go slack fn s)
  | HMap fn s => one (map_go fn s)
  | HUnique s => one (unique_go slack s)
  | HUniqueBy fn s => one (unique_by_go slack fn s)
  | HPartition fn s => partition_go slack fn s
  | HIntersection params => one (intersection_go slack params)
  | HWithout s vals => one (without_go slack s vals)
  | HDifference s1 s2 => one (difference_go slack s1 s2)
  | HDropWhile fn s => one (drop_while_go slack fn s)
  | HDropRightWhile fn s => one (drop_right_while_go slack fn s)
  | HToSlice args => one (to_slice_go slack args)
  | HDrop s n => one (drop_go s n)
  | HChunk s size => chunk_go s size
  | HReject fn s => one (reject_go slack fn s)
  | HReverse s => one (reverse_go s)
  | HFromSlice comp s => one (from_slice_go comp s)
  | HSort comp s => one (sort_go comp s)
  end.

(* the argument an in-place helper may modify *)
Definition in_place_arg (c : hcall) : option slice :=
  match c with
  | HReject _ s | HReverse s | HFromSlice _ s | HSort _ s => Some s
  | _ => None
  end.

(* the argument a view-returning helper re-slices *)
Definition view_arg (c : hcall) : option slice :=
  match c with
  | HDrop s _ | HChunk s _ => Some s
  | _ => None
  end.

(* ------------------------------------------------------------------ *)
(* Map memory: maps by id                                               *)

Definition mmem := list amap.
Definition mm_get (mm : mmem) (id : nat) : amap := nth id mm [].
Definition mm_put (mm : mmem) (id : nat) (m : amap) : mmem := set_nth mm id m.

(* Omit (map.go:237): for k := range collection { if Contains(keys, k) { delete(collection, k) } }; return collection *)
Definition omit_mm (id : nat) (ks : list Z) (mm : mmem) : nat * mmem :=
  (id, fold_left (fun mm kv =>
                    if contains ks (fst kv) then mm_put mm id (map_delete (mm_get mm id) (fst kv)) else mm)
                 (mm_get mm id) mm).

(* OmitBy *)
Definition omit_by_mm (id : nat) (fn : Z -> Z -> bool) (mm : mmem) : nat * mmem :=
  (id, fold_left (fun mm kv =>
                    if fn (fst kv) (snd kv) then mm_put mm id (map_delete (mm_get mm id) (fst kv)) else mm)
                 (mm_get mm id) mm).

(* PartitionMap (map.go:260): writes m[k] = v (what is already there) into each
   non-empty argument map and returns two slices of references to them *)
Definition partition_map_mm (fn : amap -> bool) (ids : list nat) (mm : mmem) : (list nat * list nat) * mmem :=
  fold_left (fun (st : (list nat * list nat) * mmem) id =>
               let '(r0, r1, mm) := st in
               match mm_get mm id with
               | [] => st
               | (k, v) :: _ =>
                   let mm' := mm_put mm id (map_set (mm_get mm id) k v) in
                   if fn (mm_get mm' id) then (r0 ++ [id], r1, mm') else (r0, r1 ++ [id], mm')
               end) ids (([], []), mm).

(* the read-only builders allocate their result: Pick / FilterMap / MapValues as representatives *)
Definition pick_mm (id : nat) (ks : list Z) (mm : mmem) : res nat * mmem :=
  match pick (mm_get mm id) ks with
  | Ok r => (Ok (length mm), mm ++ [r])
  | Err e => (Err e, mm ++ [[]])        (* Pick allocates its (empty) result before it checks the keys *)
  | Panic => (Panic, mm)
  end.
Definition filter_map_mm (id : nat) (fn : Z -> bool) (mm : mmem) : nat * mmem :=
  (length mm, mm ++ [filter_map fn (mm_get mm id)]).
Definition map_values_mm (id : nat) (fn : Z -> Z) (mm : mmem) : nat * mmem :=
  (length mm, mm ++ [map_values fn (mm_get mm id)]).
