(* C16_ModelF.v — the helpers of C16_Model.v whose Go code uses an OPERATION OF THE
   ELEMENT TYPE (==, <, >, +=, the zero value, `/ T(len)`), transcribed a second
   time, generic in those operations.  No proofs here.

   Why.  C16_Model.v fixes the element type to Go `int`: `v == val` is [Z.eqb],
   `s[i] < min` is [Z.ltb], `acc += v` is [Z.add], `var min T` is 0 and Mean's
   division panics on an empty slice.  At float64 none of this is so: NaN is not
   == to itself (a map never finds an entry filed under it, `keys[NaN]` is never
   ok), every comparison with NaN is false, +0 == -0 although they are different
   values, 0/0 is NaN and does not panic.  A change that touches its argument only
   when such a value is present (seeded change C16-9: FindMin / FindMax "leave NaN
   out" through the in-place Reject) is invisible at int.

   How.  The memory stays what it is (SliceMem.v: cells hold integers): a cell now
   holds the CODE of an element, and the operations of the element type are a record
   [eops] of functions on codes about which NOTHING is assumed — the theorems of
   C16_PropsF.v are for every [eops], so for every element type whatever its ==
   and < do (not reflexive, not total, not even symmetric).  Two instances:
     [z_ops]  : Go int — every generic helper is then, by computation, the helper of
                C16_Model.v ([C16F_conservative] in C16_PropsF.v);
     [fl_ops] : float64 on a closed set of values (the integers |z| <= 2^53, -0,
                +Inf, -Inf, NaN) — the instance the correspondence check runs against
                the real functions at []float64 (C16_Wire.v, harness/c16float.go).
   Helpers whose code does not look inside an element (Filter, Reject, Map, Reverse,
   Merge, Drop, Chunk, Partition, Zip, heap.FromSlice(comp) ...) are already generic
   in C16_Model.v — their callbacks are arbitrary functions on cells — and enter the
   calls of this file unchanged, through [FOld]. *)

From Gogu Require Import Base C14_Model SliceMem C16_Model.
Local Open Scope nat_scope.
Local Open Scope mem_scope.

Record eops := mkOps {
  e_eq : Z -> Z -> bool;          (* a == b *)
  e_lt : Z -> Z -> bool;          (* a < b *)
  e_gt : Z -> Z -> bool;          (* a > b *)
  e_add : Z -> Z -> Z;            (* a + b *)
  e_zero : Z;                     (* var x T *)
  e_mean : Z -> nat -> option Z   (* result / T(len): None = the division panics *)
}.

(* Go int *)
Definition z_ops : eops :=
  mkOps Z.eqb Z.ltb Z.gtb Z.add 0%Z
        (fun result n => if n =? 0 then None else Some (Z.quot result (Z.of_nat n))).

Section MapOpsG.
  Context {V : Type}.
  Variable eq : Z -> Z -> bool.
  (* v, ok := m[k] / m[k] = v for a LOCAL map keyed by elements: a key that is not == to itself is never
     found and every assignment under it adds an entry; an assignment to an existing entry rewrites the
     stored key (Go does so for float keys: +0 / -0) *)
  Fixpoint g_lookup (m : amapV V) (k : Z) : option V :=
    match m with
    | [] => None
    | (k', v) :: m' => if eq k' k then Some v else g_lookup m' k
    end.
  Fixpoint g_map_set (m : amapV V) (k : Z) (v : V) : amapV V :=
    match m with
    | [] => [(k, v)]
    | (k', v') :: m' => if eq k' k then (k, v) :: m' else (k', v') :: g_map_set m' k v
    end.
End MapOpsG.

(* m[k] = v on a map object of the memory whose keys are elements *)
Definition gm_store (eq : Z -> Z -> bool) (id : nat) (k v : Z) : M unit :=
  fun m => (Some tt, put_map m id (g_map_set eq (map_of m id) k v)).

Section HelpersF.
  Variable slack : nat -> nat -> nat.
  Variable E : eops.
  Notation app := (append slack).

  (* `_, ok := keys[x]` for a local map[T]bool, kept as the list of its keys *)
  Fixpoint g_memz (x : Z) (l : list Z) : bool :=
    match l with [] => false | v :: l' => if e_eq E v x then true else g_memz x l' end.

  (* Sum: var acc T; for _, v := range slice { acc += v } *)
  Definition g_sum (s : slice) : M Z :=
    for_each (seq 0 (s_len s)) (fun i acc => v <- rd s i ;; ret (e_add E acc v)) (e_zero E).
  (* SumBy: acc += fn(v) *)
  Definition g_sum_by (fn : Z -> Z) (s : slice) : M Z :=
    for_each (seq 0 (s_len s)) (fun i acc => v <- rd s i ;; ret (e_add E acc (fn v))) (e_zero E).
  (* Mean: for i { result += slice[i] }; return result / T(len(slice)) *)
  Definition g_mean (s : slice) : M Z :=
    result <- for_each (seq 0 (s_len s)) (fun i acc => v <- rd s i ;; ret (e_add E acc v)) (e_zero E) ;;
    match e_mean E result (s_len s) with None => fail | Some r => ret r end.

  (* IndexOf / LastIndexOf / Contains: `if v == val` *)
  Definition g_index_of (s : slice) (val : Z) : M Z := first_index (seq 0 (s_len s)) (fun v => e_eq E v val) s.
  Definition g_last_index_of (s : slice) (val : Z) : M Z := first_index (rev (seq 0 (s_len s))) (fun v => e_eq E v val) s.
  Definition g_contains (s : slice) (value : Z) : M bool := scan_bool (fun v => e_eq E v value) true false s.

  (* FindMin / FindMax / FindMinBy / FindMaxBy:
       var min T; if len(s) > 0 { min = s[0] }; for i { if less(s[i], min) { min = s[i] } } *)
  Definition g_find_ext (less : Z -> Z -> bool) (s : slice) : M Z :=
    m0 <- (if 0 <? s_len s then rd s 0 else ret (e_zero E)) ;;
    for_each (seq 0 (s_len s)) (fun i mn => v <- rd s i ;; if less v mn then ret v else ret mn) m0.
  Definition g_find_min (s : slice) : M Z := g_find_ext (e_lt E) s.
  Definition g_find_max (s : slice) : M Z := g_find_ext (e_gt E) s.
  Definition g_find_min_by (fn : Z -> Z) (s : slice) : M Z := g_find_ext (fun a b => e_lt E (fn a) (fn b)) s.
  Definition g_find_max_by (fn : Z -> Z) (s : slice) : M Z := g_find_ext (fun a b => e_gt E (fn a) (fn b)) s.

  (* Min / Max (variadic): if len(values) == 0 { return zero }; acc = values[0]; for v { if v < acc { acc = v } } *)
  Definition g_min_max (less : Z -> Z -> bool) (values : slice) : M Z :=
    if s_len values =? 0 then ret (e_zero E)
    else acc <- rd values 0 ;;
         for_each (seq 0 (s_len values)) (fun i acc => v <- rd values i ;; if less v acc then ret v else ret acc) acc.

  (* Unique: keys := map[T]bool; result := []T{}; for v { if _, ok := keys[v]; !ok { keys[v] = true; append } } *)
  Definition g_unique (s : slice) : M slice :=
    st <- for_each (seq 0 (s_len s))
            (fun i (st : list Z * slice) =>
               let (keys, result) := st in
               v <- rd s i ;;
               if g_memz v keys then ret st
               else result' <- app result [v] ;; ret (v :: keys, result'))
            ([], empty_slice) ;;
    ret (snd st).
  Definition g_unique_by (fn : Z -> Z) (s : slice) : M slice :=
    st <- for_each (seq 0 (s_len s))
            (fun i (st : list Z * slice) =>
               let (keys, result) := st in
               v <- rd s i ;;
               if g_memz (fn v) keys then ret st
               else result' <- app result [v] ;; ret (fn v :: keys, result'))
            ([], empty_slice) ;;
    ret (snd st).

  (* Duplicate: keyCount := map[T]int; result := make([]T, 0, len(slice)); count; range over keyCount *)
  Definition g_duplicate (s : slice) : M slice :=
    result <- make_slice 0 (s_len s) ;;
    keyCount <- for_each (seq 0 (s_len s))
                  (fun i (kc : amap) =>
                     v <- rd s i ;;
                     match g_lookup (e_eq E) kc v with
                     | None => ret (g_map_set (e_eq E) kc v 1%Z)
                     | Some c => ret (g_map_set (e_eq E) kc v (c + 1)%Z)
                     end) [] ;;
    for_each keyCount (fun kv result => if (1 <? snd kv)%Z then app result [fst kv] else ret result) result.

  (* DuplicateWithIndex (one shared counter, as in the Go code); the result map is keyed by elements *)
  Definition g_duplicate_with_index (s : slice) : M nat :=
    result <- make_map ;;
    st <- for_each (seq 0 (s_len s))
            (fun idx (st : Z * amapV slice) =>
               let (count, kvMap) := st in
               v <- rd s idx ;;
               match g_lookup (e_eq E) kvMap v with
               | None =>
                   e <- make_slice 2 2 ;;
                   wr e 0 (Z.of_nat idx) ;;; wr e 1 1%Z ;;;
                   ret (1%Z, g_map_set (e_eq E) kvMap v e)
               | Some e => wr e 1 (count + 1)%Z ;;; ret ((count + 1)%Z, kvMap)
               end) (0%Z, []) ;;
    for_each (snd st)
      (fun kv (_ : unit) =>
         c <- rd (snd kv) 1 ;;
         if (1 <? c)%Z then i0 <- rd (snd kv) 0 ;; gm_store (e_eq E) result (fst kv) i0 else ret tt) tt ;;;
    ret result.

  (* Union: baseFlatten, then Unique *)
  Definition g_union (fuel : nat) (atbl : Z -> anyv) (x : anyv) : M slice :=
    r <- base_flatten slack fuel atbl empty_slice x ;;
    match r with None => ret empty_slice | Some fl => g_unique fl end.

  (* Intersection / IntersectionBy: `Contains(result, item)`, then [has item params[j]] for every j >= 1 *)
  Definition g_intersection_with (has : Z -> list Z -> bool) (tbl : Z -> slice) (params : slice) : M slice :=
    p0 <- rd_elem tbl params 0 ;;
    for_each (seq 0 (s_len p0))
      (fun i result =>
         item <- rd p0 i ;;
         rs <- values result ;;
         if g_memz item rs then ret result
         else
           all <- for_each (seq 1 (s_len params - 1))
                    (fun j (ok : bool) =>
                       if ok then pj <- rd_elem tbl params j ;; vs <- values pj ;; ret (has item vs)
                       else ret false) true ;;
           if all then app result [item] else ret result)
      empty_slice.
  Definition g_intersection := g_intersection_with g_memz.
  Definition g_intersection_by (fn : Z -> Z) :=
    g_intersection_with (fun item vs => existsb (fun v => e_eq E (fn v) (fn item)) vs).

  (* Without / Difference / DifferenceBy *)
  Definition g_without (s vals : slice) : M slice :=
    uni <- make_slice 0 (s_len s) ;;
    st <- for_each (seq 0 (s_len s))
            (fun i (st : list Z * slice) =>
               let (keys, uni) := st in
               v <- rd s i ;;
               vs <- values vals ;;
               if g_memz v vs then ret st
               else if g_memz v keys then ret st
               else uni' <- app uni [v] ;; ret (v :: keys, uni'))
            ([], uni) ;;
    ret (snd st).
  Definition g_difference (s1 s2 : slice) : M slice :=
    st <- for_each (seq 0 (s_len s1))
            (fun i (st : list Z * slice) =>
               let (keys, unique) := st in
               v <- rd s1 i ;;
               vs <- values s2 ;;
               if g_memz v vs then ret st
               else if g_memz v keys then ret st
               else unique' <- app unique [v] ;; ret (v :: keys, unique'))
            ([], empty_slice) ;;
    ret (snd st).
  Definition g_difference_by (fn : Z -> Z) (s1 s2 : slice) : M slice :=
    st <- for_each (seq 0 (s_len s1))
            (fun i (st : list Z * slice) =>
               let (keys, unique) := st in
               v <- rd s1 i ;;
               vs <- values s2 ;;
               if existsb (fun val => e_eq E (fn v) (fn val)) vs then ret st
               else if g_memz v keys then ret st
               else unique' <- app unique [v] ;; ret (v :: keys, unique'))
            ([], empty_slice) ;;
    ret (snd st).

  (* a mutant kept for the self-test of the theorems (the seeded change C16-9): FindMin / FindMax first
     "leave out the values that are not equal to themselves" — through Reject, which works IN PLACE *)
  Definition find_ext_rejecting (less : Z -> Z -> bool) (s : slice) : M Z :=
    s' <- reject_go slack (fun v => negb (e_eq E v v)) s ;; g_find_ext less s'.
End HelpersF.

(* ------------------------------------------------------------------ *)
(* one call, as data *)

Inductive fcall :=
| FOld (c : hcall)      (* a helper that does not look inside an element (or whose tests are callbacks) *)
| FSum (s : slice) | FSumBy (fn : Z -> Z) (s : slice) | FMean (s : slice)
| FIndexOf (s : slice) (v : Z) | FLastIndexOf (s : slice) (v : Z) | FContains (s : slice) (v : Z)
| FFindMin (s : slice) | FFindMinBy (fn : Z -> Z) (s : slice)
| FFindMax (s : slice) | FFindMaxBy (fn : Z -> Z) (s : slice)
| FMin (s : slice) | FMax (s : slice)
| FUnique (s : slice) | FUniqueBy (fn : Z -> Z) (s : slice)
| FDuplicate (s : slice) | FDuplicateWithIndex (s : slice)
| FUnion (fuel : nat) (atbl : Z -> anyv) (x : anyv)
| FIntersection (tbl : Z -> slice) (params : slice)
| FIntersectionBy (fn : Z -> Z) (tbl : Z -> slice) (params : slice)
| FWithout (s vals : slice) | FDifference (s1 s2 : slice) | FDifferenceBy (fn : Z -> Z) (s1 s2 : slice).

Definition run_fcall (slack : nat -> nat -> nat) (E : eops) (c : fcall) : M (list rref) :=
  match c with
  | FOld c => run_call slack c
  | FSum s => scalar (g_sum E s)
  | FSumBy fn s => scalar (g_sum_by E fn s)
  | FMean s => scalar (g_mean E s)
  | FIndexOf s v => scalar (g_index_of E s v)
  | FLastIndexOf s v => scalar (g_last_index_of E s v)
  | FContains s v => scalar_b (g_contains E s v)
  | FFindMin s => scalar (g_find_min E s)
  | FFindMinBy fn s => scalar (g_find_min_by E fn s)
  | FFindMax s => scalar (g_find_max E s)
  | FFindMaxBy fn s => scalar (g_find_max_by E fn s)
  | FMin s => scalar (g_min_max E (e_lt E) s)
  | FMax s => scalar (g_min_max E (e_gt E) s)
  | FUnique s => one rs (g_unique slack E s)
  | FUniqueBy fn s => one rs (g_unique_by slack E fn s)
  | FDuplicate s => one rs (g_duplicate slack E s)
  | FDuplicateWithIndex s => one RM (g_duplicate_with_index E s)
  | FUnion fuel atbl x => one rs (g_union slack E fuel atbl x)
  | FIntersection tbl params => one rs (g_intersection slack E tbl params)
  | FIntersectionBy fn tbl params => one rs (g_intersection_by slack E fn tbl params)
  | FWithout s vals => one rs (g_without slack E s vals)
  | FDifference s1 s2 => one rs (g_difference slack E s1 s2)
  | FDifferenceBy fn s1 s2 => one rs (g_difference_by slack E fn s1 s2)
  end.

(* the class of a call: the generic helpers all build what they return in storage of their own *)
Definition fkind_of (c : fcall) : ckind :=
  match c with FOld c => kind_of c | _ => KFresh end.
Definition f_not_in_place (c : fcall) : Prop :=
  match fkind_of c with KInPlaceS _ | KInPlaceM _ => False | _ => True end.

(* the int helper a generic call is at [z_ops] *)
Definition old_of (c : fcall) : hcall :=
  match c with
  | FOld c => c
  | FSum s => HSum s | FSumBy fn s => HSumBy fn s | FMean s => HMean s
  | FIndexOf s v => HIndexOf s v | FLastIndexOf s v => HLastIndexOf s v | FContains s v => HContains s v
  | FFindMin s => HFindMin s | FFindMinBy fn s => HFindMinBy fn s
  | FFindMax s => HFindMax s | FFindMaxBy fn s => HFindMaxBy fn s
  | FMin s => HMin s | FMax s => HMax s
  | FUnique s => HUnique s | FUniqueBy fn s => HUniqueBy fn s
  | FDuplicate s => HDuplicate s | FDuplicateWithIndex s => HDuplicateWithIndex s
  | FUnion fuel atbl x => HUnion fuel atbl x
  | FIntersection tbl params => HIntersection tbl params
  | FIntersectionBy fn tbl params => HIntersectionBy fn tbl params
  | FWithout s vals => HWithout s vals | FDifference s1 s2 => HDifference s1 s2
  | FDifferenceBy fn s1 s2 => HDifferenceBy fn s1 s2
  end.

(* ------------------------------------------------------------------ *)
(* the executable float64 instance: a closed set of float64 values as codes.
     an integer z, |z| <= 2^53   the float64 z        (0 = +0)
     [c_nzero] = 2^59            -0
     [c_nan]   = 2^60            NaN (every NaN: payloads are not told apart)
     [c_pinf]  = 2^61, [c_ninf] = -2^61   +Inf, -Inf
     [c_frac]  = 2^58            "a value that is not in the set" (a Mean that is not an integer):
                                 only ever a RESULT, never stored in a slice
   Sums of such values are such values (exactly, below 2^53). *)

Local Open Scope Z_scope.
Definition c_frac : Z := 288230376151711744.
Definition c_nzero : Z := 576460752303423488.
Definition c_nan : Z := 1152921504606846976.
Definition c_pinf : Z := 2305843009213693952.
Definition c_ninf : Z := -2305843009213693952.

Definition fl_isnan (c : Z) : bool := c =? c_nan.
Definition fl_isinf (c : Z) : bool := (c =? c_pinf) || (c =? c_ninf).
(* the position of a value that is not NaN in the order: -0 and +0 share theirs *)
Definition fl_key (c : Z) : Z := if c =? c_nzero then 0 else c.
Definition fl_eq (a b : Z) : bool := negb (fl_isnan a) && negb (fl_isnan b) && (fl_key a =? fl_key b).
Definition fl_lt (a b : Z) : bool := negb (fl_isnan a) && negb (fl_isnan b) && (fl_key a <? fl_key b).
Definition fl_gt (a b : Z) : bool := fl_lt b a.
Definition fl_le (a b : Z) : bool := fl_lt a b || fl_eq a b.
Definition fl_add (a b : Z) : Z :=
  if fl_isnan a || fl_isnan b then c_nan
  else if fl_isinf a then (if fl_isinf b && negb (a =? b) then c_nan else a)
  else if fl_isinf b then b
  else if (a =? c_nzero) && (b =? c_nzero) then c_nzero
  else fl_key a + fl_key b.
Definition fl_neg (a : Z) : Z :=
  if fl_isnan a then c_nan else if a =? c_nzero then 0 else if a =? 0 then c_nzero else - a.
(* result / float64(n) *)
Definition fl_mean (result : Z) (n : nat) : option Z :=
  Some (if fl_isnan result then c_nan
        else if Nat.eqb n 0 then (if fl_isinf result then result else c_nan)
        else if fl_isinf result then result
        else if result =? c_nzero then c_nzero
        else if Z.rem result (Z.of_nat n) =? 0 then Z.quot result (Z.of_nat n) else c_frac).

Definition fl_ops : eops := mkOps fl_eq fl_lt fl_gt fl_add 0 fl_mean.

(* gogu.Abs / Clamp / InRange at float64, used as callbacks by the float programs:
     Abs: if x < 0 { return -x }; return x
     Clamp: if num <= min { return min } else if num >= max { return max }; return num
     InRange: num >= lo && num <= up *)
Definition fl_abs (x : Z) : Z := if fl_lt x 0 then fl_neg x else x.
Definition fl_clamp (lo hi x : Z) : Z := if fl_le x lo then lo else if fl_le hi x then hi else x.
Definition fl_in_range (lo up x : Z) : bool := fl_le lo x && fl_le x up.
