(* C16_Proofs.v — lemmas for C16: a small "who may write where" logic over the
   memory monad of SliceMem.v, and its application to every helper of
   C16_Model.v.  The statements of the property are in C16_Props.v. *)
From Gogu Require Import Base SliceMem C14_Model C14_Proofs C16_Model.
Local Open Scope nat_scope.
Local Open Scope mem_scope.

(* ------------------------------------------------------------------ *)
(* lists and arrays                                                     *)

Lemma set_nth_length {A} (l : list A) i x : length (set_nth l i x) = length l.
Proof. revert i; induction l as [|h t IH]; intros [|i]; cbn; auto. Qed.

Lemma nth_set_nth_other {A} (l : list A) i j x d : j <> i -> nth j (set_nth l i x) d = nth j l d.
Proof.
  revert i j; induction l as [|h t IH]; intros [|i] [|j] H; cbn; auto; try congruence.
Qed.

Lemma nth_set_nth_same {A} (l : list A) i x d : i < length l -> nth i (set_nth l i x) d = x.
Proof. revert i; induction l as [|h t IH]; intros [|i] H; cbn in *; try lia; auto. apply IH. lia. Qed.

Lemma set_nth_oob {A} (l : list A) i x : length l <= i -> set_nth l i x = l.
Proof. revert i; induction l as [|h t IH]; intros [|i] H; cbn in *; try lia; auto. f_equal. apply IH. lia. Qed.

Lemma nth_firstn_lt {A} (l : list A) : forall k i d, i < k -> nth i (firstn k l) d = nth i l d.
Proof.
  induction l as [|h t IH]; intros [|k] [|i] d H; cbn; try lia; auto. apply IH. lia.
Qed.

Lemma write_cell_length m id i v : length (write_cell m id i v) = length m.
Proof. unfold write_cell. apply set_nth_length. Qed.

Lemma arr_of_write_cell_other m id i v id' : id' <> id -> arr_of (write_cell m id i v) id' = arr_of m id'.
Proof. intros H. unfold write_cell, arr_of. now apply nth_set_nth_other. Qed.

Lemma arr_of_write_cell_same m id i v : arr_of (write_cell m id i v) id = set_nth (arr_of m id) i v.
Proof.
  unfold write_cell, arr_of. destruct (Nat.lt_ge_cases id (length m)) as [H|H].
  - now apply nth_set_nth_same.
  - rewrite set_nth_oob by exact H. rewrite (nth_overflow m) by exact H. now destruct i.
Qed.

Lemma write_cell_arr_length m id i v id' : length (arr_of (write_cell m id i v) id') = length (arr_of m id').
Proof.
  destruct (Nat.eq_dec id' id) as [->|H].
  - now rewrite arr_of_write_cell_same, set_nth_length.
  - now rewrite arr_of_write_cell_other.
Qed.

Lemma cell_write_cell_other m id i v id' i' : (id', i') <> (id, i) -> cell (write_cell m id i v) id' i' = cell m id' i'.
Proof.
  intros H. unfold cell. destruct (Nat.eq_dec id' id) as [->|Hid].
  - rewrite arr_of_write_cell_same. apply nth_set_nth_other. congruence.
  - now rewrite arr_of_write_cell_other.
Qed.

Lemma arr_of_app_old (m ext : mem) id : id < length m -> arr_of (m ++ ext) id = arr_of m id.
Proof. intros H. unfold arr_of. now apply app_nth1. Qed.

(* ------------------------------------------------------------------ *)
(* "m' differs from m at most in the cells P of the arrays below n"    *)

Definition same_outside (P : nat -> nat -> Prop) (n : nat) (m m' : mem) : Prop :=
  n <= length m /\ length m <= length m' /\
  forall id, id < n ->
    length (arr_of m' id) = length (arr_of m id) /\
    forall i, ~ P id i -> cell m' id i = cell m id i.

Lemma same_outside_refl P n m : n <= length m -> same_outside P n m m.
Proof. intros H. repeat split; auto. Qed.

Lemma same_outside_trans P n m1 m2 m3 :
  same_outside P n m1 m2 -> same_outside P n m2 m3 -> same_outside P n m1 m3.
Proof.
  intros (H1 & H2 & H3) (H4 & H5 & H6). split; [exact H1|]. split; [lia|].
  intros id Hid. destruct (H3 id Hid) as [L1 C1]. destruct (H6 id Hid) as [L2 C2].
  split; [congruence|]. intros i Hi. rewrite C2, C1; auto.
Qed.

Lemma same_outside_write_cell P n m id i v :
  n <= length m -> (n <= id \/ P id i) -> same_outside P n m (write_cell m id i v).
Proof.
  intros Hn Hw. split; [exact Hn|]. split; [rewrite write_cell_length; lia|].
  intros id' Hid'. split; [apply write_cell_arr_length|].
  intros i' Hi'. apply cell_write_cell_other. intros Heq. injection Heq as -> ->.
  destruct Hw; [lia|tauto].
Qed.

Lemma same_outside_write_from (P : nat -> nat -> Prop) n id (vs : list Z) : forall (m : mem) i,
  n <= length m -> (n <= id \/ forall j, j < length vs -> P id (i + j)) ->
  same_outside P n m (write_from m id i vs).
Proof.
  induction vs as [|v vs IH]; intros m i Hn Hw; cbn.
  - now apply same_outside_refl.
  - apply (same_outside_trans P n m (write_cell m id i v)).
    + apply same_outside_write_cell; [exact Hn|].
      destruct Hw as [Hw|Hw]; [now left|right]. specialize (Hw 0). rewrite Nat.add_0_r in Hw. apply Hw. cbn. lia.
    + apply IH; [rewrite write_cell_length; exact Hn|].
      destruct Hw as [Hw|Hw]; [now left|right]. intros j Hj.
      replace (S i + j) with (i + S j) by lia. apply Hw. cbn. lia.
Qed.

Lemma same_outside_alloc P n m a : n <= length m -> same_outside P n m (m ++ [a]).
Proof.
  intros Hn. split; [exact Hn|]. split; [rewrite app_length; lia|].
  intros id Hid. unfold cell. rewrite arr_of_app_old by lia. auto.
Qed.

(* with nothing writable, the old memory is a prefix of the new one *)
Definition frame (m m' : mem) : Prop := exists ext, m' = m ++ ext.

Lemma same_outside_frame m m' : same_outside (fun _ _ => False) (length m) m m' -> frame m m'.
Proof.
  intros (_ & Hlen & H). exists (skipn (length m) m').
  rewrite <- (firstn_skipn (length m) m') at 1. f_equal.
  apply nth_ext with (d := []) (d' := []).
  - rewrite firstn_length. lia.
  - intros id Hid. rewrite firstn_length in Hid.
    assert (Hid' : id < length m) by lia.
    rewrite nth_firstn_lt by exact Hid'.
    destruct (H id Hid') as [L C].
    apply nth_ext with (d := 0%Z) (d' := 0%Z); [exact L|].
    intros i _. apply C. tauto.
Qed.

Lemma frame_read_all m m' s : frame m m' -> s_arr s < length m -> read_all m' s = read_all m s.
Proof. intros [ext ->] H. unfold read_all. now rewrite arr_of_app_old. Qed.

(* ------------------------------------------------------------------ *)
(* the logic: a computation, started in a memory with at least n arrays, only
   writes cells P of the first n arrays (and whatever it likes in arrays it
   allocates itself); its result satisfies Q *)

Definition safe {A} (P : nat -> nat -> Prop) (n : nat) (c : M A) (Q : A -> Prop) : Prop :=
  forall m a m', n <= length m -> c m = Some (a, m') -> same_outside P n m m' /\ Q a.

Lemma safe_ret {A} P n (a : A) (Q : A -> Prop) : Q a -> safe P n (ret a) Q.
Proof. intros HQ m a' m' Hn H. injection H as <- <-. split; [now apply same_outside_refl|exact HQ]. Qed.

Lemma safe_fail {A} P n (Q : A -> Prop) : safe P n fail Q.
Proof. intros m a m' _ H. discriminate. Qed.

Lemma safe_bind {A B} P n (c : M A) (k : A -> M B) (Q : A -> Prop) (R : B -> Prop) :
  safe P n c Q -> (forall a, Q a -> safe P n (k a) R) -> safe P n (bind c k) R.
Proof.
  intros Hc Hk m b m'' Hn H. unfold bind in H. destruct (c m) as [[a m']|] eqn:Ec; [|discriminate].
  destruct (Hc m a m' Hn Ec) as [S1 HQ].
  assert (Hn' : n <= length m') by (destruct S1 as (_ & ? & _); lia).
  destruct (Hk a HQ m' b m'' Hn' H) as [S2 HR].
  split; [eapply same_outside_trans; eassumption|exact HR].
Qed.

Lemma safe_weaken {A} P n (c : M A) (Q Q' : A -> Prop) :
  safe P n c Q -> (forall a, Q a -> Q' a) -> safe P n c Q'.
Proof. intros H HQ m a m' Hn E. destruct (H m a m' Hn E). auto. Qed.

Lemma safe_for_each {S} P n (idxs : list nat) (body : nat -> S -> M S) (Q : S -> Prop) :
  (forall i st, Q st -> safe P n (body i st) Q) -> forall st, Q st -> safe P n (for_each idxs body st) Q.
Proof.
  intros Hb. induction idxs as [|i idxs IH]; intros st HQ; cbn.
  - now apply safe_ret.
  - eapply safe_bind; [now apply Hb|]. intros st' HQ'. now apply IH.
Qed.

(* the computation does not touch the memory at all *)
Definition pure_on {A} (c : M A) (Q : A -> Prop) : Prop :=
  forall m a m', c m = Some (a, m') -> m' = m /\ Q a.

Lemma pure_safe {A} P n (c : M A) Q : pure_on c Q -> safe P n c Q.
Proof. intros H m a m' Hn E. destruct (H m a m' E) as [-> HQ]. split; [now apply same_outside_refl|exact HQ]. Qed.

Lemma pure_ret {A} (a : A) (Q : A -> Prop) : Q a -> pure_on (ret a) Q.
Proof. intros HQ m a' m' H. injection H as <- <-. auto. Qed.
Lemma pure_fail {A} (Q : A -> Prop) : pure_on (@fail A) Q.
Proof. intros m a m' H. discriminate. Qed.
Lemma pure_bind {A B} (c : M A) (k : A -> M B) (Q : A -> Prop) (R : B -> Prop) :
  pure_on c Q -> (forall a, Q a -> pure_on (k a) R) -> pure_on (bind c k) R.
Proof.
  intros Hc Hk m b m'' H. unfold bind in H. destruct (c m) as [[a m']|] eqn:Ec; [|discriminate].
  destruct (Hc m a m' Ec) as [-> HQ]. now apply (Hk a HQ).
Qed.
Lemma pure_for_each {S} (idxs : list nat) (body : nat -> S -> M S) (Q : S -> Prop) :
  (forall i st, Q st -> pure_on (body i st) Q) -> forall st, Q st -> pure_on (for_each idxs body st) Q.
Proof.
  intros Hb. induction idxs as [|i idxs IH]; intros st HQ; cbn.
  - now apply pure_ret.
  - eapply pure_bind; [now apply Hb|]. intros st' HQ'. now apply IH.
Qed.

Lemma pure_rd s i : pure_on (rd s i) (fun _ => True).
Proof. intros m a m' H. unfold rd in H. destruct (i <? s_len s); [|discriminate]. injection H as <- <-. auto. Qed.

Lemma pure_values s : pure_on (values s) (fun vs => length vs <= s_len s).
Proof.
  intros m a m' H. unfold values in H. injection H as <- <-. split; [reflexivity|].
  unfold read_all. rewrite firstn_length. lia.
Qed.

Lemma pure_reslice s lo hi :
  pure_on (reslice s lo hi)
          (fun r => s_arr r = s_arr s /\ s_off r = s_off s + lo /\ s_len r = hi - lo /\
                    s_cap r = s_cap s - lo /\ lo <= hi /\ hi <= s_cap s).
Proof.
  intros m a m' H. unfold reslice in H.
  destruct ((lo <=? hi) && (hi <=? s_cap s)) eqn:E; [|discriminate].
  injection H as <- <-. apply andb_prop in E as [E1 E2].
  apply Nat.leb_le in E1. apply Nat.leb_le in E2. cbn. auto 10.
Qed.

(* ---------- the primitives that write ---------- *)

(* a slice through which no pre-existing array can be written: it lives in an
   array allocated since, or it is empty without capacity (nil, []T{}) *)
Definition okS (n : nat) (s : slice) : Prop := n <= s_arr s \/ (s_len s = 0 /\ s_cap s = 0).

(* a slice all of whose cells [0,len) may be written *)
Definition inP (P : nat -> nat -> Prop) (s : slice) : Prop :=
  forall i, i < s_len s -> P (s_arr s) (s_off s + i).

Lemma safe_alloc P n a : safe P n (alloc a) (fun id => n <= id).
Proof.
  intros m id m' Hn H. unfold alloc in H. injection H as <- <-.
  split; [now apply same_outside_alloc|exact Hn].
Qed.

Lemma safe_make_slice P n len cap :
  safe P n (make_slice len cap) (fun s => n <= s_arr s /\ s_len s = len /\ s_cap s = cap /\ s_off s = 0).
Proof.
  unfold make_slice. destruct (len <=? cap); [|apply safe_fail].
  eapply safe_bind; [apply safe_alloc|]. intros id Hid. apply safe_ret. cbn. auto.
Qed.

Lemma safe_wr P n s i v : okS n s \/ inP P s -> safe P n (wr s i v) (fun _ => True).
Proof.
  intros Hs m a m' Hn H. unfold wr in H. destruct (Nat.ltb_spec i (s_len s)) as [Hi|Hi]; [|discriminate].
  injection H as <- <-. split; [|exact I].
  apply same_outside_write_cell; [exact Hn|].
  destruct Hs as [[Hs|[Hs _]]|Hs]; [now left|lia|right; now apply Hs].
Qed.

Lemma safe_swap P n s i j : okS n s \/ inP P s -> safe P n (swap s i j) (fun _ => True).
Proof.
  intros Hs. unfold swap.
  eapply safe_bind; [apply pure_safe, pure_rd|]. intros a _.
  eapply safe_bind; [apply pure_safe, pure_rd|]. intros b _.
  eapply safe_bind; [now apply safe_wr|]. intros _ _. now apply safe_wr.
Qed.

Lemma safe_copy_go P n dst vs : okS n dst \/ inP P dst -> safe P n (copy_go dst vs) (fun _ => True).
Proof.
  intros Hs m a m' Hn H. unfold copy_go in H. injection H as <- <-. split; [|exact I].
  apply same_outside_write_from; [exact Hn|].
  destruct Hs as [[Hs|[Hs _]]|Hs].
  - now left.
  - right. intros j Hj. rewrite firstn_length in Hj. lia.
  - right. intros j Hj. rewrite firstn_length in Hj. apply Hs. lia.
Qed.

(* append: either it stays in the array of s (then the cells right behind the
   window must be writable) or the result is a new array *)
Lemma safe_append (P : nat -> nat -> Prop) n slack s (vs : list Z) :
  (okS n s \/ (s_len s + length vs <= s_cap s -> forall j, j < length vs -> P (s_arr s) (s_off s + s_len s + j))) ->
  safe P n (append slack s vs)
       (fun r => s_len r = s_len s + length vs /\
                 ((s_arr r = s_arr s /\ s_off r = s_off s /\ s_cap r = s_cap s /\ s_len s + length vs <= s_cap s)
                  \/ n <= s_arr r)).
Proof.
  intros Hs m r m' Hn H. unfold append in H.
  destruct (Nat.leb_spec (s_len s + length vs) (s_cap s)) as [Hfit|Hfit]; injection H as <- <-.
  - split; [|cbn; split; [reflexivity|left; auto]].
    apply same_outside_write_from; [exact Hn|].
    destruct Hs as [[Hs|[Hl Hc]]|Hs]; [now left| |right; now apply Hs].
    right. intros j Hj. lia.
  - split; [now apply same_outside_alloc|]. cbn. auto.
Qed.

(* appending to a slice that cannot reach old arrays yields another such slice *)
Lemma safe_append_ok (P : nat -> nat -> Prop) n slack s (vs : list Z) : okS n s -> safe P n (append slack s vs) (okS n).
Proof.
  intros Hs. eapply safe_weaken; [apply safe_append; now left|].
  intros r [Hlen [[Ha [Ho [Hc Hfit]]]|Hfresh]]; [|now left].
  destruct Hs as [Hs|[Hl Hc0]]; [left; lia|]. right. lia.
Qed.

Lemma okS_empty n : okS n empty_slice.
Proof. right. auto. Qed.

(* ------------------------------------------------------------------ *)
(* the helpers that build their result in fresh storage                  *)

Section Fresh.
  Variable slack : nat -> nat -> nat.
  Variable P : nat -> nat -> Prop.
  Variable n : nat.

  Ltac rd_step := eapply safe_bind; [apply pure_safe; first [apply pure_rd | apply pure_values]|]; intros ? _.

  Lemma filter_go_safe fn s : safe P n (filter_go slack fn s) (okS n).
  Proof.
    unfold filter_go. eapply safe_bind; [apply safe_make_slice|]. intros res (Hres & _).
    apply safe_for_each; [|now left]. intros i st Hst. rd_step.
    destruct (fn _); [now apply safe_append_ok|now apply safe_ret].
  Qed.

  Lemma map_go_safe fn s : safe P n (map_go fn s) (okS n).
  Proof.
    unfold map_go. eapply safe_bind; [apply safe_make_slice|]. intros res (Hres & _).
    eapply safe_bind.
    - apply (safe_for_each P n _ _ (fun _ => True)); [|exact I]. intros i st _. rd_step.
      apply safe_wr. left. now left.
    - intros _ _. apply safe_ret. now left.
  Qed.

  Lemma unique_by_go_safe fn s : safe P n (unique_by_go slack fn s) (okS n).
  Proof.
    unfold unique_by_go. eapply safe_bind.
    - apply (safe_for_each P n _ _ (fun st : list Z * slice => okS n (snd st))); [|apply okS_empty].
      intros i [keys result] Hst. cbn in Hst. rd_step.
      destruct (memz _ keys); [now apply safe_ret|].
      eapply safe_bind; [now apply safe_append_ok|]. intros r Hr. now apply safe_ret.
    - intros st Hst. now apply safe_ret.
  Qed.

  Lemma unique_go_safe s : safe P n (unique_go slack s) (okS n).
  Proof.
    unfold unique_go. eapply safe_bind.
    - apply (safe_for_each P n _ _ (fun st : list Z * slice => okS n (snd st))); [|apply okS_empty].
      intros i [keys result] Hst. cbn in Hst. rd_step.
      destruct (memz _ keys); [now apply safe_ret|].
      eapply safe_bind; [now apply safe_append_ok|]. intros r Hr. now apply safe_ret.
    - intros st Hst. now apply safe_ret.
  Qed.

  Lemma partition_go_safe fn s : safe P n (partition_go slack fn s) (Forall (okS n)).
  Proof.
    unfold partition_go. eapply safe_bind.
    - apply (safe_for_each P n _ _ (fun st : slice * slice => okS n (fst st) /\ okS n (snd st)));
        [|split; apply okS_empty].
      intros i [r0 r1] [H0 H1]. cbn in H0, H1. rd_step.
      destruct (fn _).
      + eapply safe_bind; [now apply safe_append_ok|]. intros r Hr. now apply safe_ret.
      + eapply safe_bind; [now apply safe_append_ok|]. intros r Hr. now apply safe_ret.
    - intros [r0 r1] [H0 H1]. apply safe_ret. cbn. auto.
  Qed.

  Lemma merge_go_safe s params : safe P n (merge_go slack s params) (okS n).
  Proof.
    unfold merge_go. eapply safe_bind; [apply safe_make_slice|]. intros merged (Hm & _).
    rd_step. eapply safe_bind; [apply safe_append_ok; now left|]. intros merged' Hm'.
    apply safe_for_each; [|exact Hm']. intros i st Hst. rd_step. now apply safe_append_ok.
  Qed.

  Lemma intersection_go_safe params : safe P n (intersection_go slack params) (okS n).
  Proof.
    unfold intersection_go. destruct params as [|p0 rest]; [apply safe_fail|].
    apply safe_for_each; [|apply okS_empty]. intros i result Hres. rd_step. rd_step.
    destruct (memz _ _); [now apply safe_ret|].
    eapply safe_bind.
    - apply (safe_for_each P n _ _ (fun _ : bool => True)); [|exact I].
      intros j ok _. destruct ok; [|now apply safe_ret]. rd_step. now apply safe_ret.
    - intros all _. destruct all; [now apply safe_append_ok|now apply safe_ret].
  Qed.

  Lemma without_go_safe s vals : safe P n (without_go slack s vals) (okS n).
  Proof.
    unfold without_go. eapply safe_bind; [apply safe_make_slice|]. intros uni (Hu & _).
    eapply safe_bind.
    - apply (safe_for_each P n _ _ (fun st : list Z * slice => okS n (snd st))); [|now left].
      intros i [keys u] Hst. cbn in Hst. rd_step. rd_step.
      destruct (memz _ _); [now apply safe_ret|]. destruct (memz _ keys); [now apply safe_ret|].
      eapply safe_bind; [now apply safe_append_ok|]. intros r Hr. now apply safe_ret.
    - intros st Hst. now apply safe_ret.
  Qed.

  Lemma difference_go_safe s1 s2 : safe P n (difference_go slack s1 s2) (okS n).
  Proof.
    unfold difference_go. eapply safe_bind.
    - apply (safe_for_each P n _ _ (fun st : list Z * slice => okS n (snd st))); [|apply okS_empty].
      intros i [keys u] Hst. cbn in Hst. rd_step. rd_step.
      destruct (memz _ _); [now apply safe_ret|]. destruct (memz _ keys); [now apply safe_ret|].
      eapply safe_bind; [now apply safe_append_ok|]. intros r Hr. now apply safe_ret.
    - intros st Hst. now apply safe_ret.
  Qed.

  Lemma drop_while_go_safe fn s : safe P n (drop_while_go slack fn s) (okS n).
  Proof.
    unfold drop_while_go. eapply safe_bind; [apply safe_make_slice|]. intros res (Hres & _).
    apply safe_for_each; [|now left]. intros i st Hst. rd_step.
    destruct (fn _); [now apply safe_ret|now apply safe_append_ok].
  Qed.

  Lemma drop_right_while_go_safe fn s : safe P n (drop_right_while_go slack fn s) (okS n).
  Proof.
    unfold drop_right_while_go. eapply safe_bind; [apply safe_make_slice|]. intros res (Hres & _).
    apply safe_for_each; [|now left]. intros i st Hst. rd_step.
    destruct (fn _); [now apply safe_ret|now apply safe_append_ok].
  Qed.

  Lemma to_slice_go_safe args : safe P n (to_slice_go slack args) (okS n).
  Proof.
    unfold to_slice_go. eapply safe_bind; [apply safe_make_slice|]. intros sl (Hs & _).
    rd_step. apply safe_append_ok. now left.
  Qed.
End Fresh.

(* ------------------------------------------------------------------ *)
(* the views: Drop and Chunk do not write at all                         *)

(* r shows a part of what s shows *)
Definition within (s r : slice) : Prop :=
  s_arr r = s_arr s /\ s_off s <= s_off r /\ s_off r + s_len r <= s_off s + s_len s.

Lemma drop_go_pure s z : pure_on (drop_go s z) (fun r => within s r \/ r = empty_slice).
Proof.
  unfold drop_go. destruct (Z.abs z <? Z.of_nat (s_len s))%Z eqn:E; [|apply pure_ret; now right].
  apply Z.ltb_lt in E.
  destruct (0 <? z)%Z eqn:E0.
  - intros m r m' H. destruct (pure_reslice _ _ _ m r m' H) as [-> (Ha & Ho & Hl & _ & Hle & _)].
    split; [reflexivity|]. left. unfold within. lia.
  - intros m r m' H. destruct (pure_reslice _ _ _ m r m' H) as [-> (Ha & Ho & Hl & _ & Hle & _)].
    split; [reflexivity|]. left. unfold within. lia.
Qed.

Lemma chunk_go_pure s size : pure_on (chunk_go s size) (Forall (within s)).
Proof.
  unfold chunk_go. destruct (size <=? 0)%Z; [apply pure_fail|].
  apply pure_for_each; [|constructor]. intros i result Hres.
  destruct (i mod Z.to_nat size =? 0); [|now apply pure_ret].
  destruct (Nat.ltb_spec (i + Z.to_nat size) (s_len s)) as [Hlt|Hge].
  - eapply pure_bind; [apply pure_reslice|]. intros c (Ha & Ho & Hl & _ & Hle & _).
    apply pure_ret. apply Forall_app. split; [exact Hres|]. constructor; [|constructor]. unfold within. lia.
  - eapply pure_bind; [apply pure_reslice|]. intros c (Ha & Ho & Hl & _ & Hle & _).
    apply pure_ret. apply Forall_app. split; [exact Hres|]. constructor; [|constructor]. unfold within. lia.
Qed.

(* ------------------------------------------------------------------ *)
(* the in-place helpers: writes stay inside the window of the argument   *)

(* the cells s shows: array (s_arr s), positions [off, off+len) *)
Definition win (s : slice) (id i : nat) : Prop := id = s_arr s /\ s_off s <= i < s_off s + s_len s.

Lemma inP_win s : inP (win s) s.
Proof. intros i Hi. unfold win. lia. Qed.

Lemma reverse_loop_safe n s fuel : forall i j, safe (win s) n (reverse_loop fuel s i j) (fun _ => True).
Proof.
  induction fuel as [|f IH]; intros i j; cbn [reverse_loop].
  - destruct (i <? j); [apply safe_fail|now apply safe_ret].
  - destruct (i <? j); [|now apply safe_ret].
    eapply safe_bind; [apply safe_swap; right; apply inP_win|]. intros _ _. apply IH.
Qed.

Lemma reverse_go_safe n s : safe (win s) n (reverse_go s) (fun r => r = s).
Proof.
  unfold reverse_go. eapply safe_bind; [apply reverse_loop_safe|]. intros _ _. now apply safe_ret.
Qed.

(* Reject: the loop variable `slice` stays a prefix window of the argument (or,
   for a descriptor whose cap is smaller than its len-1, moves to a new array) *)
Definition prefix_of (n : nat) (s sl : slice) : Prop :=
  (s_arr sl = s_arr s /\ s_off sl = s_off s /\ s_len sl <= s_len s) \/ n <= s_arr sl.

Lemma reject_loop_safe slack n fn s fuel : forall sl i,
  prefix_of n s sl -> safe (win s) n (reject_loop slack fuel fn sl i) (prefix_of n s).
Proof.
  induction fuel as [|f IH]; intros sl i Hsl; cbn [reject_loop].
  - destruct (i <? s_len sl); [apply safe_fail|now apply safe_ret].
  - destruct (Nat.ltb_spec i (s_len sl)) as [Hi|Hi]; [|now apply safe_ret].
    eapply safe_bind; [apply pure_safe, pure_rd|]. intros v _.
    destruct (fn v); [|now apply IH].
    eapply safe_bind; [apply pure_safe, pure_reslice|]. intros hd (Ha & Ho & Hl & Hc & _ & _).
    eapply safe_bind; [apply pure_safe, pure_reslice|]. intros tl (Hta & Hto & Htl & _ & _ & _).
    eapply safe_bind; [apply pure_safe, pure_values|]. intros vs Hvs. cbn beta in Hvs.
    eapply safe_bind.
    + apply safe_append. destruct Hsl as [(Hsa & Hso & Hsl)|Hfresh].
      * right. intros _ j Hj. unfold win. lia.
      * left. left. lia.
    + intros sl' (Hlen' & Hwhere). apply IH.
      destruct Hwhere as [(Ha' & Ho' & _ & _)|Hfresh']; [|now right].
      destruct Hsl as [(Hsa & Hso & Hsl)|Hfresh]; [left; lia|right; lia].
Qed.

Lemma reject_go_safe slack n fn s : safe (win s) n (reject_go slack fn s) (prefix_of n s).
Proof. unfold reject_go. apply reject_loop_safe. left. auto. Qed.

(* heap.FromSlice / heap.Sort: every write is a swap inside data *)
Lemma from_slice_loop_safe n comp data fuel : forall inner i,
  safe (win data) n (from_slice_loop comp fuel data inner i) (fun _ => True).
Proof.
  induction fuel as [|f IH]; intros inner i; cbn [from_slice_loop]; [apply safe_fail|].
  destruct inner.
  - destruct (_ || _)%bool; [apply IH|].
    eapply safe_bind; [apply pure_safe, pure_rd|]. intros dl _.
    eapply safe_bind with (Q := fun _ => True).
    + destruct (_ <? _)%Z; [|now apply safe_ret].
      eapply safe_bind; [apply pure_safe, pure_rd|]. intros dr _. now apply safe_ret.
    + intros current _.
      eapply safe_bind; [apply pure_safe, pure_rd|]. intros dc _.
      eapply safe_bind; [apply pure_safe, pure_rd|]. intros di _.
      destruct (negb _); [apply IH|].
      eapply safe_bind; [apply safe_swap; right; apply inP_win|]. intros _ _. apply IH.
  - destruct (0 <=? i)%Z; [apply IH|now apply safe_ret].
Qed.

Lemma from_slice_go_safe n comp data : safe (win data) n (from_slice_go comp data) (fun r => r = data).
Proof.
  unfold from_slice_go. eapply safe_bind; [apply from_slice_loop_safe|]. intros _ _. now apply safe_ret.
Qed.

Lemma move_down_safe n comp data fuel : forall k i,
  safe (win data) n (move_down comp fuel data k i) (fun _ => True).
Proof.
  induction fuel as [|f IH]; intros k i; cbn [move_down]; [apply safe_fail|].
  eapply safe_bind; [apply pure_safe, pure_rd|]. intros di _.
  eapply safe_bind with (Q := fun _ => True).
  - destruct (_ <? _); [|now apply safe_ret].
    eapply safe_bind; [apply pure_safe, pure_rd|]. intros dl _. now apply safe_ret.
  - intros c1 _. eapply safe_bind; [apply pure_safe, pure_rd|]. intros dc1 _.
    eapply safe_bind with (Q := fun _ => True).
    + destruct (_ <? _); [|now apply safe_ret].
      eapply safe_bind; [apply pure_safe, pure_rd|]. intros dr _. now apply safe_ret.
    + intros c2 _. destruct (c2 =? i); [now apply safe_ret|].
      eapply safe_bind; [apply safe_swap; right; apply inP_win|]. intros _ _. apply IH.
Qed.

Lemma sort_go_safe n comp data : safe (win data) n (sort_go comp data) (fun r => n <= s_arr r).
Proof.
  unfold sort_go. eapply safe_bind; [apply from_slice_go_safe|]. intros _ _.
  eapply safe_bind.
  - apply (safe_for_each (win data) n _ _ (fun _ : unit => True)); [|exact I].
    intros i st _. eapply safe_bind; [apply safe_swap; right; apply inP_win|]. intros _ _.
    apply move_down_safe.
  - intros _ _. eapply safe_bind; [apply safe_make_slice|]. intros vals (Hv & _).
    eapply safe_bind; [apply pure_safe, pure_values|]. intros vs _.
    eapply safe_bind; [apply safe_copy_go; left; now left|]. intros _ _.
    now apply safe_ret.
Qed.

(* ------------------------------------------------------------------ *)
(* one call, whichever helper it is                                      *)

Lemma safe_one {A} P n (c : M A) (Q : A -> Prop) : safe P n c Q -> safe P n (one c) (Forall Q).
Proof.
  intros H. unfold one. eapply safe_bind; [exact H|]. intros r Hr. apply safe_ret. now constructor.
Qed.

Lemma pure_one {A} (c : M A) (Q : A -> Prop) : pure_on c Q -> pure_on (one c) (Forall Q).
Proof.
  intros H. unfold one. eapply pure_bind; [exact H|]. intros r Hr. apply pure_ret. now constructor.
Qed.

Lemma run_call_fresh_safe slack P n c :
  in_place_arg c = None -> view_arg c = None -> safe P n (run_call slack c) (Forall (okS n)).
Proof.
  intros Hip Hv. destruct c; cbn in Hip, Hv; try discriminate; cbn [run_call].
  - apply safe_one, merge_go_safe.
  - apply safe_one, filter_go_safe.
  - apply safe_one, map_go_safe.
  - apply safe_one, unique_go_safe.
  - apply safe_one, unique_by_go_safe.
  - apply partition_go_safe.
  - apply safe_one, intersection_go_safe.
  - apply safe_one, without_go_safe.
  - apply safe_one, difference_go_safe.
  - apply safe_one, drop_while_go_safe.
  - apply safe_one, drop_right_while_go_safe.
  - apply safe_one, to_slice_go_safe.
Qed.

Lemma run_call_view_pure slack c s :
  view_arg c = Some s -> pure_on (run_call slack c) (Forall (fun r => within s r \/ r = empty_slice)).
Proof.
  intros Hv. destruct c; cbn in Hv; try discriminate; injection Hv as ->; cbn [run_call].
  - apply pure_one, drop_go_pure.
  - intros m rs m' H. destruct (chunk_go_pure _ _ m rs m' H) as [-> HF]. split; [reflexivity|].
    eapply Forall_impl; [|exact HF]. intros r Hr. now left.
Qed.

Lemma run_call_in_place_safe slack n c s :
  in_place_arg c = Some s -> safe (win s) n (run_call slack c) (Forall (prefix_of n s)).
Proof.
  intros Hip. destruct c; cbn in Hip; try discriminate; injection Hip as ->; cbn [run_call].
  - apply safe_one, reject_go_safe.
  - apply safe_one. eapply safe_weaken; [apply reverse_go_safe|]. intros r ->. left. auto.
  - apply safe_one. eapply safe_weaken; [apply from_slice_go_safe|]. intros r ->. left. auto.
  - apply safe_one. eapply safe_weaken; [apply sort_go_safe|]. intros r Hr. now right.
Qed.

(* ------------------------------------------------------------------ *)
(* consequences used by the statements                                   *)

Lemma frame_arr_of m m' id : frame m m' -> id < length m -> arr_of m' id = arr_of m id.
Proof. intros [ext ->] H. now apply arr_of_app_old. Qed.

Lemma read_all_same_array m m' s : arr_of m' (s_arr s) = arr_of m (s_arr s) -> read_all m' s = read_all m s.
Proof. intros H. unfold read_all. now rewrite H. Qed.

Lemma read_all_empty m s : s_len s = 0 -> read_all m s = [].
Proof. intros H. unfold read_all. now rewrite H. Qed.

Lemma set_nth_same {A} (l : list A) i d : set_nth l i (nth i l d) = l.
Proof. revert i; induction l as [|h t IH]; intros [|i]; cbn; auto. now rewrite IH. Qed.


(* an in-place call leaves every OTHER array, and the rest of its own, alone *)
Lemma same_outside_win_other_array s m m' id :
  same_outside (win s) (length m) m m' -> id < length m -> id <> s_arr s -> arr_of m' id = arr_of m id.
Proof.
  intros (_ & _ & H) Hid Hne. destruct (H id Hid) as [L C].
  apply nth_ext with (d := 0%Z) (d' := 0%Z); [exact L|].
  intros i _. apply C. unfold win. tauto.
Qed.

Lemma same_outside_no_new P m m' : same_outside P (length m) m m' -> length m <= length m'.
Proof. now intros (_ & H & _). Qed.

(* ------------------------------------------------------------------ *)
(* map memory                                                           *)

Lemma mm_get_put_same (mm : mmem) id x : id < length mm -> mm_get (mm_put mm id x) id = x.
Proof. intros H. unfold mm_get, mm_put. now apply nth_set_nth_same. Qed.
Lemma mm_get_put_other (mm : mmem) id id' x : id' <> id -> mm_get (mm_put mm id x) id' = mm_get mm id'.
Proof. intros H. unfold mm_get, mm_put. now apply nth_set_nth_other. Qed.
Lemma mm_put_length (mm : mmem) id x : length (mm_put mm id x) = length mm.
Proof. apply set_nth_length. Qed.

(* a loop that only ever puts into map id *)
Definition omit_fold (sel : Z * Z -> bool) (id : nat) (l : amap) (mm : mmem) : mmem :=
  fold_left (fun mm kv => if sel kv then mm_put mm id (map_delete (mm_get mm id) (fst kv)) else mm) l mm.

Lemma omit_mm_loop (sel : Z * Z -> bool) id (l : amap) : forall mm, id < length mm ->
  length (omit_fold sel id l mm) = length mm /\
  (forall id', id' <> id -> mm_get (omit_fold sel id l mm) id' = mm_get mm id') /\
  mm_get (omit_fold sel id l mm) id
  = fold_left (fun coll kv => if sel kv then map_delete coll (fst kv) else coll) l (mm_get mm id).
Proof.
  induction l as [|kv l IH]; intros mm Hid; [cbn; auto|].
  change (omit_fold sel id (kv :: l) mm)
    with (omit_fold sel id l (if sel kv then mm_put mm id (map_delete (mm_get mm id) (fst kv)) else mm)).
  cbn [fold_left].
  destruct (sel kv).
  - assert (Hid' : id < length (mm_put mm id (map_delete (mm_get mm id) (fst kv))))
      by now rewrite mm_put_length.
    destruct (IH _ Hid') as (L & O & S).
    split; [now rewrite L, mm_put_length|]. split.
    + intros id' Hne. rewrite O by exact Hne. now apply mm_get_put_other.
    + rewrite S. now rewrite mm_get_put_same.
  - now apply IH.
Qed.

(* PartitionMap's `m[k] = v` writes what is already there: the map memory is unchanged *)
Lemma mm_put_get_same (mm : mmem) id : mm_put mm id (mm_get mm id) = mm.
Proof. unfold mm_put, mm_get. apply set_nth_same. Qed.

Definition nonempty_ids (mm : mmem) (ids : list nat) : list nat :=
  filter (fun id => negb (is_empty (mm_get mm id))) ids.

Lemma partition_map_mm_loop (fn : amap -> bool) (mm : mmem) (ids : list nat) : forall r0 r1,
  fold_left (fun (st : (list nat * list nat) * mmem) id =>
               let '(r0, r1, mm) := st in
               match mm_get mm id with
               | [] => st
               | (k, v) :: _ =>
                   let mm' := mm_put mm id (map_set (mm_get mm id) k v) in
                   if fn (mm_get mm' id) then (r0 ++ [id], r1, mm') else (r0, r1 ++ [id], mm')
               end) ids ((r0, r1), mm)
  = ((r0 ++ filter (fun id => fn (mm_get mm id)) (nonempty_ids mm ids),
      r1 ++ filter (fun id => negb (fn (mm_get mm id))) (nonempty_ids mm ids)), mm).
Proof.
  induction ids as [|id ids IH]; intros r0 r1; cbn; [now rewrite !app_nil_r|].
  destruct (mm_get mm id) as [|[k v] rest] eqn:E; cbn; [apply IH|].
  rewrite Z.eqb_refl. rewrite <- E, mm_put_get_same.
  destruct (fn (mm_get mm id)) eqn:Ef; cbn; rewrite IH; now rewrite <- app_assoc.
Qed.
