(* C16_Proofs.v — lemmas for C16: a small "who may write where" logic over the
   memory monad of SliceMem.v, and its application to every helper of
   C16_Model.v.  The statements of the property are in C16_Props.v. *)
From Gogu Require Import Base C14_Model SliceMem C16_Model.
Local Open Scope nat_scope.
Local Open Scope mem_scope.

(* ------------------------------------------------------------------ *)
(* lists and arrays                                                     *)

Lemma set_nth_length {A} (l : list A) i x : length (set_nth l i x) = length l.
Proof. revert i; induction l as [|h t IH]; intros [|i]; cbn; auto. Qed.

Lemma nth_set_nth_other {A} (l : list A) i j x d : j <> i -> nth j (set_nth l i x) d = nth j l d.
Proof.
  revert i j; induction l as [|h t IH]; intros [|i] [|j] H; cbn; auto; try congruence.
Qed.

Lemma nth_set_nth_same {A} (l : list A) i x d : i < length l -> nth i (set_nth l i x) d = x.
Proof. revert i; induction l as [|h t IH]; intros [|i] H; cbn in *; try lia; auto. apply IH. lia. Qed.

Lemma set_nth_oob {A} (l : list A) i x : length l <= i -> set_nth l i x = l.
Proof. revert i; induction l as [|h t IH]; intros [|i] H; cbn in *; try lia; auto. f_equal. apply IH. lia. Qed.

Lemma nth_firstn_lt {A} (l : list A) : forall k i d, i < k -> nth i (firstn k l) d = nth i l d.
Proof.
  induction l as [|h t IH]; intros [|k] [|i] d H; cbn; try lia; auto. apply IH. lia.
Qed.

Lemma write_cell_length m id i v : length (write_cell m id i v) = length m.
Proof. unfold write_cell. apply set_nth_length. Qed.

Lemma arr_of_write_cell_other m id i v id' : id' <> id -> arr_of (write_cell m id i v) id' = arr_of m id'.
Proof. intros H. unfold write_cell, arr_of. now apply nth_set_nth_other. Qed.

Lemma arr_of_write_cell_same m id i v : arr_of (write_cell m id i v) id = set_nth (arr_of m id) i v.
Proof.
  unfold write_cell, arr_of. destruct (Nat.lt_ge_cases id (length m)) as [H|H].
  - now apply nth_set_nth_same.
  - rewrite set_nth_oob by exact H. rewrite (nth_overflow m) by exact H. now destruct i.
Qed.

Lemma write_cell_arr_length m id i v id' : length (arr_of (write_cell m id i v) id') = length (arr_of m id').
Proof.
  destruct (Nat.eq_dec id' id) as [->|H].
  - now rewrite arr_of_write_cell_same, set_nth_length.
  - now rewrite arr_of_write_cell_other.
Qed.

Lemma cell_write_cell_other m id i v id' i' : (id', i') <> (id, i) -> cell (write_cell m id i v) id' i' = cell m id' i'.
Proof.
  intros H. unfold cell. destruct (Nat.eq_dec id' id) as [->|Hid].
  - rewrite arr_of_write_cell_same. apply nth_set_nth_other. congruence.
  - now rewrite arr_of_write_cell_other.
Qed.

Lemma arr_of_app_old (m ext : mem) id : id < length m -> arr_of (m ++ ext) id = arr_of m id.
Proof. intros H. unfold arr_of. now apply app_nth1. Qed.


Lemma arr_of_set_nth_other (m : mem) id x id' : id' <> id -> arr_of (set_nth m id x) id' = arr_of m id'.
Proof. intros H. unfold arr_of. now apply nth_set_nth_other. Qed.

Lemma arr_of_set_nth_same (m : mem) id x : id < length m -> arr_of (set_nth m id x) id = x.
Proof. intros H. unfold arr_of. now apply nth_set_nth_same. Qed.

(* ------------------------------------------------------------------ *)
(* "m' differs from m at most in the cells P of the objects below n and
   in the objects W below n (maps that may be stored into)"             *)

Definition same_outside (P : nat -> nat -> Prop) (W : nat -> Prop) (n : nat) (m m' : mem) : Prop :=
  n <= length m /\ length m <= length m' /\
  forall id, id < n -> ~ W id ->
    length (arr_of m' id) = length (arr_of m id) /\
    forall i, ~ P id i -> cell m' id i = cell m id i.

Definition noP : nat -> nat -> Prop := fun _ _ => False.
Definition noW : nat -> Prop := fun _ => False.

Lemma same_outside_refl P W n m : n <= length m -> same_outside P W n m m.
Proof. intros H. repeat split; auto. Qed.

Lemma same_outside_trans P W n m1 m2 m3 :
  same_outside P W n m1 m2 -> same_outside P W n m2 m3 -> same_outside P W n m1 m3.
Proof.
  intros (H1 & H2 & H3) (H4 & H5 & H6). split; [exact H1|]. split; [lia|].
  intros id Hid HW. destruct (H3 id Hid HW) as [L1 C1]. destruct (H6 id Hid HW) as [L2 C2].
  split; [congruence|]. intros i Hi. rewrite C2, C1; auto.
Qed.

Lemma same_outside_write_cell P W n m id i v :
  n <= length m -> (n <= id \/ P id i) -> same_outside P W n m (write_cell m id i v).
Proof.
  intros Hn Hw. split; [exact Hn|]. split; [rewrite write_cell_length; lia|].
  intros id' Hid' _. split; [apply write_cell_arr_length|].
  intros i' Hi'. apply cell_write_cell_other. intros Heq. injection Heq as -> ->.
  destruct Hw; [lia|tauto].
Qed.

Lemma splice_length arr i vs : length (splice arr i vs) = length arr.
Proof.
  unfold splice. rewrite !app_length, !firstn_length, skipn_length. lia.
Qed.

Lemma nth_skipn_add {A} (l : list A) : forall k j d, nth j (skipn k l) d = nth (k + j) l d.
Proof.
  induction l as [|h t IH]; intros [|k] j d; cbn; auto. now destruct j.
Qed.

Lemma nth_splice_outside arr i vs j d : j < i \/ i + length vs <= j -> nth j (splice arr i vs) d = nth j arr d.
Proof.
  intros Hj. destruct (Nat.lt_ge_cases j (length arr)) as [Hlt|Hge].
  2:{ rewrite !nth_overflow; auto. now rewrite splice_length. }
  unfold splice. destruct Hj as [Hj|Hj].
  - rewrite app_nth1 by (rewrite firstn_length; lia). now apply nth_firstn_lt.
  - rewrite app_nth2 by (rewrite firstn_length; lia). rewrite firstn_length.
    rewrite app_nth2 by (rewrite firstn_length; lia). rewrite firstn_length.
    rewrite nth_skipn_add. f_equal. lia.
Qed.

Lemma same_outside_write_from (P : nat -> nat -> Prop) W n id (vs : list Z) (m : mem) i :
  n <= length m -> (n <= id \/ forall j, j < length vs -> P id (i + j)) ->
  same_outside P W n m (write_from m id i vs).
Proof.
  intros Hn Hw. unfold write_from. split; [exact Hn|]. split; [rewrite set_nth_length; lia|].
  intros id' Hid' _. destruct (Nat.eq_dec id' id) as [->|Hne].
  - rewrite arr_of_set_nth_same by lia. split; [apply splice_length|].
    intros j HP. unfold cell. rewrite arr_of_set_nth_same by lia. apply nth_splice_outside.
    destruct Hw as [Hw|Hw]; [lia|].
    destruct (Nat.lt_ge_cases j i) as [?|Hji]; [now left|right].
    destruct (Nat.le_gt_cases (i + length vs) j) as [?|Hlt]; [assumption|].
    exfalso. apply HP. replace j with (i + (j - i)) by lia. apply Hw. lia.
  - unfold cell. rewrite arr_of_set_nth_other by exact Hne. auto.
Qed.

Lemma same_outside_alloc P W n m a : n <= length m -> same_outside P W n m (m ++ [a]).
Proof.
  intros Hn. split; [exact Hn|]. split; [rewrite app_length; lia|].
  intros id Hid _. unfold cell. rewrite arr_of_app_old by lia. auto.
Qed.

(* replacing a whole object (a map store / delete) *)
Lemma same_outside_set_obj P (W : nat -> Prop) n (m : mem) id x :
  n <= length m -> (n <= id \/ W id) -> same_outside P W n m (set_nth m id x).
Proof.
  intros Hn Hw. split; [exact Hn|]. split; [rewrite set_nth_length; lia|].
  intros id' Hid' HW'. assert (Hne : id' <> id) by (intros ->; destruct Hw; [lia|tauto]).
  unfold cell. rewrite arr_of_set_nth_other by exact Hne. auto.
Qed.

(* with nothing writable, the old memory is a prefix of the new one *)
Definition frame (m m' : mem) : Prop := exists ext, m' = m ++ ext.

Lemma same_outside_frame m m' : same_outside noP noW (length m) m m' -> frame m m'.
Proof.
  intros (_ & Hlen & H). exists (skipn (length m) m').
  rewrite <- (firstn_skipn (length m) m') at 1. f_equal.
  apply nth_ext with (d := []) (d' := []).
  - rewrite firstn_length. lia.
  - intros id Hid. rewrite firstn_length in Hid.
    assert (Hid' : id < length m) by lia.
    rewrite nth_firstn_lt by exact Hid'.
    destruct (H id Hid') as [L C]; [unfold noW; tauto|].
    apply nth_ext with (d := 0%Z) (d' := 0%Z); [exact L|].
    intros i _. apply C. unfold noP. tauto.
Qed.

Lemma frame_read_all m m' s : frame m m' -> s_arr s < length m -> read_all m' s = read_all m s.
Proof. intros [ext ->] H. unfold read_all. now rewrite arr_of_app_old. Qed.

(* ------------------------------------------------------------------ *)
(* the logic: a computation, started in a memory with at least n objects, only
   writes cells P and objects W among the first n (and whatever it likes in
   objects it allocates itself); its result satisfies Q *)

Definition safe {A} (P : nat -> nat -> Prop) (W : nat -> Prop) (n : nat) (c : M A) (Q : A -> Prop) : Prop :=
  forall m o m', n <= length m -> c m = (o, m') -> same_outside P W n m m' /\ (forall a, o = Some a -> Q a).

Lemma safe_ret {A} P W n (a : A) (Q : A -> Prop) : Q a -> safe P W n (ret a) Q.
Proof.
  intros HQ m o m' Hn H. injection H as <- <-. split; [now apply same_outside_refl|].
  intros a' E. injection E as <-. exact HQ.
Qed.

Lemma safe_fail {A} P W n (Q : A -> Prop) : safe P W n fail Q.
Proof. intros m o m' Hn H. injection H as <- <-. split; [now apply same_outside_refl|discriminate]. Qed.

Lemma safe_bind {A B} P W n (c : M A) (k : A -> M B) (Q : A -> Prop) (R : B -> Prop) :
  safe P W n c Q -> (forall a, Q a -> safe P W n (k a) R) -> safe P W n (bind c k) R.
Proof.
  intros Hc Hk m o m'' Hn H. unfold bind in H. destruct (c m) as [[a|] m'] eqn:Ec.
  - destruct (Hc m (Some a) m' Hn Ec) as [S1 HQ].
    assert (Hn' : n <= length m') by (destruct S1 as (_ & ? & _); lia).
    destruct (Hk a (HQ a eq_refl) m' o m'' Hn' H) as [S2 HR].
    split; [eapply same_outside_trans; eassumption|exact HR].
  - injection H as <- <-. destruct (Hc m None m' Hn Ec) as [S1 _]. split; [exact S1|discriminate].
Qed.

Lemma safe_weaken {A} P W n (c : M A) (Q Q' : A -> Prop) :
  safe P W n c Q -> (forall a, Q a -> Q' a) -> safe P W n c Q'.
Proof. intros H HQ m o m' Hn E. destruct (H m o m' Hn E) as [S F]. split; [exact S|]. intros a Ea. auto. Qed.

Lemma safe_for_each {X S} P W n (xs : list X) (body : X -> S -> M S) (Q : S -> Prop) :
  (forall x st, Q st -> safe P W n (body x st) Q) -> forall st, Q st -> safe P W n (for_each xs body st) Q.
Proof.
  intros Hb. induction xs as [|x xs IH]; intros st HQ; cbn.
  - now apply safe_ret.
  - eapply safe_bind; [now apply Hb|]. intros st' HQ'. now apply IH.
Qed.

(* the same with the loop variable known to come from the list *)
Lemma safe_for_each_in {X S} P W n (xs : list X) (body : X -> S -> M S) (Q : S -> Prop) :
  (forall x st, In x xs -> Q st -> safe P W n (body x st) Q) -> forall st, Q st -> safe P W n (for_each xs body st) Q.
Proof.
  induction xs as [|x xs IH]; intros Hb st HQ; cbn.
  - now apply safe_ret.
  - eapply safe_bind; [apply Hb; [now left|exact HQ]|]. intros st' HQ'.
    apply IH; [|exact HQ']. intros y st'' Hy. apply Hb. now right.
Qed.

(* a fuel-driven loop: an invariant of the step function *)
Lemma safe_iter_until {S R} P W n (step : S -> M (S + R)) (I : S -> Prop) (Q : R -> Prop) :
  (forall x, I x -> safe P W n (step x) (fun r => match r with inl x' => I x' | inr d => Q d end)) ->
  forall p x, I x -> safe P W n (iter_until p step x) (fun r => match r with inl x' => I x' | inr d => Q d end).
Proof.
  intros Hs. induction p as [p IH|p IH|]; intros x Hx; cbn [iter_until].
  - eapply safe_bind; [now apply Hs|]. intros [x1|d] H1; [|now apply safe_ret].
    eapply safe_bind; [now apply IH|]. intros [x2|d] H2; [now apply IH|now apply safe_ret].
  - eapply safe_bind; [now apply IH|]. intros [x1|d] H1; [now apply IH|now apply safe_ret].
  - now apply Hs.
Qed.

Lemma safe_run_loop {S R} P W n (step : S -> M (S + R)) (I : S -> Prop) (Q : R -> Prop) p x :
  (forall x, I x -> safe P W n (step x) (fun r => match r with inl x' => I x' | inr d => Q d end)) ->
  I x -> safe P W n (run_loop p step x) Q.
Proof.
  intros Hs Hx. unfold run_loop. eapply safe_bind; [now apply (safe_iter_until P W n step I Q)|].
  intros [x'|d] H; [apply safe_fail|now apply safe_ret].
Qed.

(* the computation does not touch the memory at all *)
Definition pure_on {A} (c : M A) (Q : A -> Prop) : Prop :=
  forall m o m', c m = (o, m') -> m' = m /\ (forall a, o = Some a -> Q a).

Lemma pure_safe {A} P W n (c : M A) Q : pure_on c Q -> safe P W n c Q.
Proof. intros H m o m' Hn E. destruct (H m o m' E) as [-> HQ]. split; [now apply same_outside_refl|exact HQ]. Qed.

Lemma pure_ret {A} (a : A) (Q : A -> Prop) : Q a -> pure_on (ret a) Q.
Proof. intros HQ m o m' H. injection H as <- <-. split; [reflexivity|]. intros a' E. injection E as <-. exact HQ. Qed.
Lemma pure_fail {A} (Q : A -> Prop) : pure_on (@fail A) Q.
Proof. intros m o m' H. injection H as <- <-. split; [reflexivity|discriminate]. Qed.
Lemma pure_bind {A B} (c : M A) (k : A -> M B) (Q : A -> Prop) (R : B -> Prop) :
  pure_on c Q -> (forall a, Q a -> pure_on (k a) R) -> pure_on (bind c k) R.
Proof.
  intros Hc Hk m o m'' H. unfold bind in H. destruct (c m) as [[a|] m'] eqn:Ec.
  - destruct (Hc m (Some a) m' Ec) as [-> HQ]. now apply (Hk a (HQ a eq_refl)).
  - injection H as <- <-. destruct (Hc m None m' Ec) as [-> _]. split; [reflexivity|discriminate].
Qed.
Lemma pure_weaken {A} (c : M A) (Q Q' : A -> Prop) : pure_on c Q -> (forall a, Q a -> Q' a) -> pure_on c Q'.
Proof. intros H HQ m o m' E. destruct (H m o m' E) as [-> F]. split; [reflexivity|]. intros a Ea. auto. Qed.
Lemma pure_for_each {X S} (xs : list X) (body : X -> S -> M S) (Q : S -> Prop) :
  (forall x st, Q st -> pure_on (body x st) Q) -> forall st, Q st -> pure_on (for_each xs body st) Q.
Proof.
  intros Hb. induction xs as [|x xs IH]; intros st HQ; cbn.
  - now apply pure_ret.
  - eapply pure_bind; [now apply Hb|]. intros st' HQ'. now apply IH.
Qed.
Lemma pure_for_each_in {X S} (xs : list X) (body : X -> S -> M S) (Q : S -> Prop) :
  (forall x st, In x xs -> Q st -> pure_on (body x st) Q) -> forall st, Q st -> pure_on (for_each xs body st) Q.
Proof.
  induction xs as [|x xs IH]; intros Hb st HQ; cbn.
  - now apply pure_ret.
  - eapply pure_bind; [apply Hb; [now left|exact HQ]|]. intros st' HQ'.
    apply IH; [|exact HQ']. intros y st'' Hy. apply Hb. now right.
Qed.

Lemma pure_rd s i : pure_on (rd s i) (fun _ => True).
Proof. intros m o m' H. unfold rd in H. destruct (i <? s_len s); injection H as <- <-; auto. Qed.

Lemma pure_values s : pure_on (values s) (fun vs => length vs <= s_len s).
Proof.
  intros m o m' H. unfold values in H. injection H as <- <-. split; [reflexivity|].
  intros a E. injection E as <-. unfold read_all. rewrite firstn_length. lia.
Qed.

Lemma pure_reslice s lo hi :
  pure_on (reslice s lo hi)
          (fun r => s_arr r = s_arr s /\ s_off r = s_off s + lo /\ s_len r = hi - lo /\
                    s_cap r = s_cap s - lo /\ lo <= hi /\ hi <= s_cap s).
Proof.
  unfold reslice. destruct ((lo <=? hi) && (hi <=? s_cap s)) eqn:E; [|apply pure_fail].
  apply pure_ret. apply andb_prop in E as [E1 E2].
  apply Nat.leb_le in E1. apply Nat.leb_le in E2. cbn. auto 10.
Qed.

Lemma pure_entries id : pure_on (m_entries id) (fun _ => True).
Proof. intros m o m' H. unfold m_entries in H. injection H as <- <-. auto. Qed.
Lemma pure_lookup id k : pure_on (m_lookup id k) (fun _ => True).
Proof. intros m o m' H. unfold m_lookup in H. injection H as <- <-. auto. Qed.

(* ---------- read-only computations, solved by one tactic ---------- *)

Definition ro {A} (c : M A) : Prop := pure_on c (fun _ => True).

Lemma ro_ret {A} (a : A) : ro (ret a).
Proof. now apply pure_ret. Qed.
Lemma ro_fail {A} : ro (@fail A).
Proof. apply pure_fail. Qed.
Lemma ro_bind {A B} (c : M A) (k : A -> M B) : ro c -> (forall a, ro (k a)) -> ro (bind c k).
Proof. intros Hc Hk. eapply pure_bind; [exact Hc|]. intros a _. apply Hk. Qed.
Lemma ro_for_each {X S} (xs : list X) (body : X -> S -> M S) st : (forall x st, ro (body x st)) -> ro (for_each xs body st).
Proof. intros Hb. apply pure_for_each; [|exact I]. intros x st' _. apply Hb. Qed.
Lemma ro_rd s i : ro (rd s i).
Proof. apply pure_rd. Qed.
Lemma ro_rdz s i : ro (rdz s i).
Proof. unfold rdz. destruct (i <? 0)%Z; [apply ro_fail|apply ro_rd]. Qed.
Lemma ro_values s : ro (values s).
Proof. eapply pure_weaken; [apply pure_values|auto]. Qed.
Lemma ro_reslice s lo hi : ro (reslice s lo hi).
Proof. eapply pure_weaken; [apply pure_reslice|auto]. Qed.
Lemma ro_entries id : ro (m_entries id).
Proof. apply pure_entries. Qed.
Lemma ro_lookup id k : ro (m_lookup id k).
Proof. apply pure_lookup. Qed.
Lemma ro_rd_elem {A} (tbl : Z -> A) outer j : ro (rd_elem tbl outer j).
Proof. unfold rd_elem. apply ro_bind; [apply ro_rd|]. intros c. apply ro_ret. Qed.
Lemma ro_pure {A} (c : M A) (Q : A -> Prop) : ro c -> (forall m a, c m = (Some a, m) -> Q a) -> pure_on c Q.
Proof.
  intros H HQ m o m' E. destruct (H m o m' E) as [-> _]. split; [reflexivity|]. intros a ->. now apply (HQ m).
Qed.

Ltac ro_tac :=
  repeat first
    [ apply ro_ret | apply ro_fail | apply ro_rd | apply ro_rdz | apply ro_rd_elem | apply ro_values | apply ro_reslice
    | apply ro_entries | apply ro_lookup
    | (apply ro_bind; [|intros ?])
    | (apply ro_for_each; intros ? ?)
    | match goal with |- ro (match ?x with _ => _ end) => destruct x end ].

Lemma safe_ro {A} P W n (c : M A) : ro c -> safe P W n c (fun _ => True).
Proof. apply pure_safe. Qed.

(* ---------- the primitives that write ---------- *)

(* a slice through which no pre-existing array can be written: it lives in an
   array allocated since, or it is empty without capacity (nil, []T{}) *)
Definition okS (n : nat) (s : slice) : Prop := n <= s_arr s \/ (s_len s = 0 /\ s_cap s = 0).

(* a slice all of whose cells [0,len) may be written *)
Definition inP (P : nat -> nat -> Prop) (s : slice) : Prop :=
  forall i, i < s_len s -> P (s_arr s) (s_off s + i).

Lemma safe_alloc P W n a : safe P W n (alloc a) (fun id => n <= id).
Proof.
  intros m o m' Hn H. unfold alloc in H. injection H as <- <-.
  split; [now apply same_outside_alloc|]. intros id E. injection E as <-. exact Hn.
Qed.

Lemma safe_make_map P W n : safe P W n make_map (fun id => n <= id).
Proof. apply safe_alloc. Qed.
Lemma safe_lit_map P W n a : safe P W n (lit_map a) (fun id => n <= id).
Proof. apply safe_alloc. Qed.

Lemma safe_make_slice P W n len cap :
  safe P W n (make_slice len cap) (fun s => n <= s_arr s /\ s_len s = len /\ s_cap s = cap /\ s_off s = 0).
Proof.
  unfold make_slice. destruct (len <=? cap); [|apply safe_fail].
  eapply safe_bind; [apply safe_alloc|]. intros id Hid. apply safe_ret. cbn. auto.
Qed.

Lemma safe_make_slice_ok P W n len cap : safe P W n (make_slice len cap) (okS n).
Proof. eapply safe_weaken; [apply safe_make_slice|]. intros s (H & _). now left. Qed.

Lemma safe_wr P W n s i v : okS n s \/ inP P s -> safe P W n (wr s i v) (fun _ => True).
Proof.
  intros Hs m o m' Hn H. unfold wr in H. destruct (Nat.ltb_spec i (s_len s)) as [Hi|Hi]; injection H as <- <-.
  2:{ split; [now apply same_outside_refl|discriminate]. }
  split; [|auto].
  apply same_outside_write_cell; [exact Hn|].
  destruct Hs as [[Hs|[Hs _]]|Hs]; [now left|lia|right; now apply Hs].
Qed.

Lemma safe_swap P W n s i j : okS n s \/ inP P s -> safe P W n (swap s i j) (fun _ => True).
Proof.
  intros Hs. unfold swap.
  eapply safe_bind; [apply pure_safe, pure_rd|]. intros a _.
  eapply safe_bind; [apply pure_safe, pure_rd|]. intros b _.
  eapply safe_bind; [now apply safe_wr|]. intros _ _. now apply safe_wr.
Qed.

Lemma safe_copy_go P W n dst vs : okS n dst \/ inP P dst -> safe P W n (copy_go dst vs) (fun _ => True).
Proof.
  intros Hs m o m' Hn H. unfold copy_go in H. injection H as <- <-. split; [|auto].
  apply same_outside_write_from; [exact Hn|].
  destruct Hs as [[Hs|[Hs _]]|Hs].
  - now left.
  - right. intros j Hj. rewrite firstn_length in Hj. lia.
  - right. intros j Hj. rewrite firstn_length in Hj. apply Hs. lia.
Qed.

(* append: either it stays in the array of s (then the cells right behind the
   window must be writable) or the result is a new array *)
Lemma safe_append (P : nat -> nat -> Prop) W n slack s (vs : list Z) :
  (okS n s \/ (s_len s + length vs <= s_cap s -> forall j, j < length vs -> P (s_arr s) (s_off s + s_len s + j))) ->
  safe P W n (append slack s vs)
       (fun r => s_len r = s_len s + length vs /\
                 ((s_arr r = s_arr s /\ s_off r = s_off s /\ s_cap r = s_cap s /\ s_len s + length vs <= s_cap s)
                  \/ n <= s_arr r)).
Proof.
  intros Hs m o m' Hn H. unfold append in H.
  destruct (Nat.leb_spec (s_len s + length vs) (s_cap s)) as [Hfit|Hfit]; injection H as <- <-.
  - split; [|intros r E; injection E as <-; cbn; split; [reflexivity|left; auto]].
    apply same_outside_write_from; [exact Hn|].
    destruct Hs as [[Hs|[Hl Hc]]|Hs]; [now left| |right; now apply Hs].
    right. intros j Hj. lia.
  - split; [now apply same_outside_alloc|]. intros r E. injection E as <-. cbn. auto.
Qed.

(* appending to a slice that cannot reach old arrays yields another such slice *)
Lemma safe_append_ok (P : nat -> nat -> Prop) W n slack s (vs : list Z) : okS n s -> safe P W n (append slack s vs) (okS n).
Proof.
  intros Hs. eapply safe_weaken; [apply safe_append; now left|].
  intros r [Hlen [[Ha [Ho [Hc Hfit]]]|Hfresh]]; [|now left].
  destruct Hs as [Hs|[Hl Hc0]]; [left; lia|]. right. lia.
Qed.

Lemma okS_empty n : okS n empty_slice.
Proof. right. auto. Qed.

(* map stores: the map is new, or it is one of the maps W *)
Lemma safe_m_store P (W : nat -> Prop) n id k v : (n <= id \/ W id) -> safe P W n (m_store id k v) (fun _ => True).
Proof.
  intros Hw m o m' Hn H. unfold m_store in H. injection H as <- <-. split; [|auto].
  now apply same_outside_set_obj.
Qed.
Lemma safe_m_delete P (W : nat -> Prop) n id k : (n <= id \/ W id) -> safe P W n (m_delete id k) (fun _ => True).
Proof.
  intros Hw m o m' Hn H. unfold m_delete in H. injection H as <- <-. split; [|auto].
  now apply same_outside_set_obj.
Qed.

(* association lists of fresh slices (kvMap of DuplicateWithIndex, the groups of GroupBy) *)
Lemma lookup_Forall {V} (Q : V -> Prop) (l : amapV V) k e :
  Forall (fun kv => Q (snd kv)) l -> lookup l k = Some e -> Q e.
Proof.
  induction l as [|[k' v'] l IH]; cbn; intros HF H; [discriminate|].
  inversion HF as [|? ? Hv Hl]; subst. destruct (k' =? k)%Z; [injection H as <-; exact Hv|now apply IH].
Qed.
Lemma map_set_Forall {V} (Q : V -> Prop) (l : amapV V) k e :
  Forall (fun kv => Q (snd kv)) l -> Q e -> Forall (fun kv => Q (snd kv)) (map_set l k e).
Proof.
  induction l as [|[k' v'] l IH]; cbn; intros HF He; [now constructor|].
  inversion HF as [|? ? Hv Hl]; subst. destruct (k' =? k)%Z; constructor; auto.
Qed.

(* ---------- one step of a proof: bind with a primitive ---------- *)

Ltac ok_side := first [ assumption | apply okS_empty | (left; assumption) | (left; left; assumption) ].
Ltac prim :=
  first
    [ apply safe_make_slice_ok
    | apply safe_make_map
    | apply safe_lit_map
    | (apply safe_append_ok; ok_side)
    | (apply safe_wr; left; ok_side)
    | (apply safe_swap; left; ok_side)
    | (apply safe_copy_go; left; ok_side)
    | (apply safe_m_store; left; ok_side)
    | (apply safe_m_delete; left; ok_side)
    | (apply safe_ro; solve [ro_tac]) ].
Ltac sbind := eapply safe_bind; [prim|]; intros ? ?.

(* ------------------------------------------------------------------ *)
(* the read-only helpers                                                *)

Lemma first_index_ro idxs cond s : ro (first_index idxs cond s).
Proof. unfold first_index. ro_tac. Qed.
Lemma scan_bool_ro cond hit miss s : ro (scan_bool cond hit miss s).
Proof. unfold scan_bool. ro_tac. Qed.
Lemma contains_go_ro s v : ro (contains_go s v).
Proof. apply scan_bool_ro. Qed.
Lemma find_ext_ro less s : ro (find_ext less s).
Proof. unfold find_ext. ro_tac. Qed.
Lemma min_max_go_ro less s : ro (min_max_go less s).
Proof. unfold min_max_go. ro_tac. Qed.
Lemma nth_go_ro s k : ro (nth_go s k).
Proof. unfold nth_go. ro_tac. Qed.
Lemma sum_go_ro s : ro (sum_go s).
Proof. unfold sum_go. ro_tac. Qed.
Lemma sum_by_go_ro fn s : ro (sum_by_go fn s).
Proof. unfold sum_by_go. ro_tac. Qed.
Lemma mean_go_ro s : ro (mean_go s).
Proof. unfold mean_go. ro_tac. Qed.
Lemma for_each_go_ro s : ro (for_each_go s).
Proof. unfold for_each_go. ro_tac. Qed.
Lemma for_each_right_go_ro s : ro (for_each_right_go s).
Proof. unfold for_each_right_go. ro_tac. Qed.
Lemma reduce_go_ro fn init s : ro (reduce_go fn init s).
Proof. unfold reduce_go. ro_tac. Qed.
Lemma map_scan_ro cond hit miss id : ro (map_scan cond hit miss id).
Proof. unfold map_scan. ro_tac. Qed.
Lemma find_key_mem_ro fn id : ro (find_key_mem fn id).
Proof. unfold find_key_mem. ro_tac. Qed.

(* ------------------------------------------------------------------ *)
(* the helpers that build their result in fresh storage                  *)

Section Fresh.
  Variable slack : nat -> nat -> nat.
  Variable P : nat -> nat -> Prop.
  Variable W : nat -> Prop.
  Variable n : nat.

  Notation okmap := (fun id : nat => n <= id).

  Ltac rd_step := eapply safe_bind; [apply safe_ro; solve [ro_tac]|]; intros ? _.
  Tactic Notation "rd_as" ident(x) := eapply safe_bind; [apply safe_ro; solve [ro_tac]|]; intros x _.

  Lemma filter_go_safe fn s : safe P W n (filter_go slack fn s) (okS n).
  Proof.
    unfold filter_go. sbind. apply safe_for_each; [|assumption]. intros i st Hst. rd_step.
    destruct (fn _); [now apply safe_append_ok|now apply safe_ret].
  Qed.

  Lemma map_go_safe fn s : safe P W n (map_go fn s) (okS n).
  Proof.
    unfold map_go. sbind. eapply safe_bind.
    - apply (safe_for_each P W n _ _ (fun _ => True)); [|exact I]. intros i st _. rd_step.
      apply safe_wr. now left.
    - intros _ _. now apply safe_ret.
  Qed.

  Lemma unique_by_go_safe fn s : safe P W n (unique_by_go slack fn s) (okS n).
  Proof.
    unfold unique_by_go. eapply safe_bind.
    - apply (safe_for_each P W n _ _ (fun st : list Z * slice => okS n (snd st))); [|apply okS_empty].
      intros i [keys result] Hst. cbn in Hst. rd_step.
      destruct (memz _ keys); [now apply safe_ret|]. sbind. now apply safe_ret.
    - intros st Hst. now apply safe_ret.
  Qed.

  Lemma unique_go_safe s : safe P W n (unique_go slack s) (okS n).
  Proof.
    unfold unique_go. eapply safe_bind.
    - apply (safe_for_each P W n _ _ (fun st : list Z * slice => okS n (snd st))); [|apply okS_empty].
      intros i [keys result] Hst. cbn in Hst. rd_step.
      destruct (memz _ keys); [now apply safe_ret|]. sbind. now apply safe_ret.
    - intros st Hst. now apply safe_ret.
  Qed.

  Lemma partition_go_safe fn s : safe P W n (partition_go slack fn s) (Forall (okS n)).
  Proof.
    unfold partition_go. eapply safe_bind.
    - apply (safe_for_each P W n _ _ (fun st : slice * slice => okS n (fst st) /\ okS n (snd st)));
        [|split; apply okS_empty].
      intros i [r0 r1] [H0 H1]. cbn in H0, H1. rd_step.
      destruct (fn _); sbind; now apply safe_ret.
    - intros [r0 r1] [H0 H1]. apply safe_ret. cbn. auto.
  Qed.

  Lemma duplicate_go_safe s : safe P W n (duplicate_go slack s) (okS n).
  Proof.
    unfold duplicate_go. sbind. rd_step.
    apply safe_for_each; [|assumption]. intros kv st Hst.
    destruct (_ <? _)%Z; [now apply safe_append_ok|now apply safe_ret].
  Qed.

  Lemma duplicate_with_index_go_safe s : safe P W n (duplicate_with_index_go s) okmap.
  Proof.
    unfold duplicate_with_index_go. sbind. eapply safe_bind.
    - apply (safe_for_each P W n _ _ (fun st : Z * amapV slice => Forall (fun kv => okS n (snd kv)) (snd st)));
        [|constructor].
      intros idx [count kvMap] Hst. cbn in Hst. rd_step.
      destruct (lookup kvMap _) as [e|] eqn:El.
      + assert (He : okS n e) by (eapply (lookup_Forall (okS n)); eassumption).
        sbind. now apply safe_ret.
      + sbind. sbind. sbind. apply safe_ret. cbn. now apply map_set_Forall.
    - intros [count kvMap] Hst. cbn in Hst. eapply safe_bind.
      + apply (safe_for_each_in P W n _ _ (fun _ : unit => True)); [|exact I].
        intros kv st Hin _. rd_step. destruct (_ <? _)%Z; [|now apply safe_ret]. rd_step.
        apply safe_m_store. now left.
      + intros _ _. now apply safe_ret.
  Qed.

  Lemma merge_go_safe s tbl params : safe P W n (merge_go slack s tbl params) (okS n).
  Proof.
    unfold merge_go. sbind. rd_step. sbind.
    apply safe_for_each; [|assumption]. intros i st Hst. rd_step. rd_step. now apply safe_append_ok.
  Qed.

  Definition ok_opt (r : option slice) : Prop := match r with Some s => okS n s | None => True end.

  Lemma base_flatten_safe fuel atbl : forall x acc, okS n acc -> safe P W n (base_flatten slack fuel atbl acc x) ok_opt.
  Proof.
    induction fuel as [|f IH]; intros x acc Hacc; destruct x as [v|s|l|]; cbn [base_flatten];
      try (sbind; now apply safe_ret); try (rd_step; sbind; now apply safe_ret);
      try (now apply safe_ret); try apply safe_fail.
    apply (safe_for_each P W n _ _ ok_opt); [|exact Hacc]. intros i st Hst.
    destruct st as [acc'|]; [|now apply safe_ret]. rd_as c. now apply IH.
  Qed.

  Lemma flatten_go_safe fuel atbl x : safe P W n (flatten_go slack fuel atbl x) (okS n).
  Proof.
    unfold flatten_go. eapply safe_bind; [apply base_flatten_safe, okS_empty|].
    intros [r|] Hr; apply safe_ret; [exact Hr|apply okS_empty].
  Qed.

  Lemma union_go_safe fuel atbl x : safe P W n (union_go slack fuel atbl x) (okS n).
  Proof.
    unfold union_go. eapply safe_bind; [apply base_flatten_safe, okS_empty|].
    intros [r|] Hr; [apply unique_go_safe|apply safe_ret, okS_empty].
  Qed.

  Lemma intersection_with_safe has tbl params : safe P W n (intersection_with slack has tbl params) (okS n).
  Proof.
    unfold intersection_with. rd_step.
    apply safe_for_each; [|apply okS_empty]. intros i result Hres. rd_step. rd_step.
    destruct (memz _ _); [now apply safe_ret|]. rd_as all.
    destruct all; [now apply safe_append_ok|now apply safe_ret].
  Qed.

  Lemma without_go_safe s vals : safe P W n (without_go slack s vals) (okS n).
  Proof.
    unfold without_go. sbind. eapply safe_bind.
    - apply (safe_for_each P W n _ _ (fun st : list Z * slice => okS n (snd st))); [|assumption].
      intros i [keys u] Hst. cbn in Hst. rd_step. rd_step.
      destruct (memz _ _); [now apply safe_ret|]. destruct (memz _ keys); [now apply safe_ret|].
      sbind. now apply safe_ret.
    - intros st Hst. now apply safe_ret.
  Qed.

  Lemma difference_go_safe s1 s2 : safe P W n (difference_go slack s1 s2) (okS n).
  Proof.
    unfold difference_go. eapply safe_bind.
    - apply (safe_for_each P W n _ _ (fun st : list Z * slice => okS n (snd st))); [|apply okS_empty].
      intros i [keys u] Hst. cbn in Hst. rd_step. rd_step.
      destruct (memz _ _); [now apply safe_ret|]. destruct (memz _ keys); [now apply safe_ret|].
      sbind. now apply safe_ret.
    - intros st Hst. now apply safe_ret.
  Qed.

  Lemma difference_by_go_safe fn s1 s2 : safe P W n (difference_by_go slack fn s1 s2) (okS n).
  Proof.
    unfold difference_by_go. eapply safe_bind.
    - apply (safe_for_each P W n _ _ (fun st : list Z * slice => okS n (snd st))); [|apply okS_empty].
      intros i [keys u] Hst. cbn in Hst. rd_step. rd_step.
      destruct (existsb _ _); [now apply safe_ret|]. destruct (memz _ keys); [now apply safe_ret|].
      sbind. now apply safe_ret.
    - intros st Hst. now apply safe_ret.
  Qed.

  Lemma drop_while_go_safe fn s : safe P W n (drop_while_go slack fn s) (okS n).
  Proof.
    unfold drop_while_go. sbind. apply safe_for_each; [|assumption]. intros i st Hst. rd_step.
    destruct (fn _); [now apply safe_ret|now apply safe_append_ok].
  Qed.

  Lemma drop_right_while_go_safe fn s : safe P W n (drop_right_while_go slack fn s) (okS n).
  Proof.
    unfold drop_right_while_go. sbind. apply safe_for_each; [|assumption]. intros i st Hst. rd_step.
    destruct (fn _); [now apply safe_ret|now apply safe_append_ok].
  Qed.

  Lemma map_by_index_go_safe orig ms : safe P W n (map_by_index_go slack orig ms) (Forall (fun kv => okS n (snd kv))).
  Proof.
    unfold map_by_index_go. apply safe_for_each; [|constructor]. intros idx result Hres. rd_step.
    eapply safe_bind with (Q := okS n).
    - destruct (lookup result _) as [e|] eqn:El; [|apply safe_make_slice_ok].
      apply safe_ret. eapply (lookup_Forall (okS n)); eassumption.
    - intros cur Hcur. rd_step. sbind. apply safe_ret. now apply map_set_Forall.
  Qed.

  Lemma group_by_go_safe fn s : safe P W n (group_by_go slack fn s) (Forall (fun kv => okS n (snd kv))).
  Proof. unfold group_by_go. eapply safe_bind; [apply map_go_safe|]. intros ms _. apply map_by_index_go_safe. Qed.

  Lemma zip_alloc_safe tbl slices : safe P W n (zip_alloc tbl slices) (Forall (okS n)).
  Proof.
    unfold zip_alloc. rd_step. destruct (negb _); [apply safe_fail|].
    apply safe_for_each; [|constructor]. intros idx acc Hacc. rd_step.
    destruct (negb _); [apply safe_fail|]. sbind. apply safe_ret. apply Forall_app. split; [assumption|now constructor].
  Qed.

  Lemma Forall_nth_ok (l : list slice) i : Forall (okS n) l -> okS n (nth i l empty_slice).
  Proof.
    intros H. destruct (Nat.lt_ge_cases i (length l)) as [Hi|Hi].
    - rewrite Forall_forall in H. apply H. now apply nth_In.
    - rewrite nth_overflow by exact Hi. apply okS_empty.
  Qed.

  Lemma zip_go_safe tbl slices : safe P W n (zip_go tbl slices) (Forall (okS n)).
  Proof.
    unfold zip_go. eapply safe_bind; [apply zip_alloc_safe|]. intros result Hres. eapply safe_bind.
    - apply (safe_for_each P W n _ _ (fun _ : unit => True)); [|exact I]. intros x st _.
      apply (safe_for_each P W n _ _ (fun _ : unit => True)); [|exact I]. intros i st' _. rd_step. rd_step.
      apply safe_wr. left. now apply Forall_nth_ok.
    - intros _ _. now apply safe_ret.
  Qed.

  Lemma unzip_go_safe tbl slices : safe P W n (unzip_go tbl slices) (Forall (okS n)).
  Proof.
    unfold unzip_go. eapply safe_bind; [apply zip_alloc_safe|]. intros result Hres. eapply safe_bind.
    - apply (safe_for_each P W n _ _ (fun _ : unit => True)); [|exact I]. intros x st _.
      apply (safe_for_each P W n _ _ (fun _ : unit => True)); [|exact I]. intros i st' _. rd_step. rd_step.
      apply safe_wr. left. now apply Forall_nth_ok.
    - intros _ _. now apply safe_ret.
  Qed.

  Lemma to_slice_go_safe args : safe P W n (to_slice_go slack args) (okS n).
  Proof. unfold to_slice_go. sbind. rd_step. now apply safe_append_ok. Qed.

  Lemma shuffle_go_safe rnd src : safe P W n (shuffle_go rnd src) (okS n).
  Proof.
    unfold shuffle_go. sbind. rd_step. sbind. eapply safe_bind.
    - apply (safe_for_each P W n _ _ (fun _ : nat => True)); [|exact I]. intros i k _. sbind. now apply safe_ret.
    - intros _ _. now apply safe_ret.
  Qed.

  Lemma find_all_go_safe fn s : safe P W n (find_all_go fn s) okmap.
  Proof.
    unfold find_all_go. sbind. eapply safe_bind.
    - apply (safe_for_each P W n _ _ (fun _ : unit => True)); [|exact I]. intros k st _. rd_step.
      destruct (fn _); [|now apply safe_ret]. apply safe_m_store. now left.
    - intros _ _. now apply safe_ret.
  Qed.

  Lemma range_up_safe fuel : forall i step e acc, okS n acc -> safe P W n (range_up slack fuel i step e acc) (okS n).
  Proof.
    induction fuel as [|f IH]; intros i step e acc Hacc; cbn [range_up].
    - destruct (i <? e)%Z; [apply safe_fail|now apply safe_ret].
    - destruct (i <? e)%Z; [|now apply safe_ret]. sbind. destruct (_ <? _)%Z; [now apply safe_ret|now apply IH].
  Qed.
  Lemma range_down_safe fuel : forall i step e acc, okS n acc -> safe P W n (range_down slack fuel i step e acc) (okS n).
  Proof.
    induction fuel as [|f IH]; intros i step e acc Hacc; cbn [range_down].
    - destruct (e <? i)%Z; [apply safe_fail|now apply safe_ret].
    - destruct (e <? i)%Z; [|now apply safe_ret]. sbind. destruct (_ >? _)%Z; [now apply safe_ret|now apply IH].
  Qed.

  Lemma range_go_safe args : safe P W n (range_go slack args) ok_opt.
  Proof.
    unfold range_go. destruct (3 <? s_len args); [now apply safe_ret|]. rd_as cfg.
    destruct cfg as [[[start step] e]|]; [|now apply safe_ret].
    destruct (0 <? e)%Z.
    - eapply safe_bind; [apply range_up_safe, okS_empty|]. intros r Hr. now apply safe_ret.
    - eapply safe_bind; [apply range_down_safe, okS_empty|]. intros r Hr. now apply safe_ret.
  Qed.

  Lemma reverse_loop_safe s fuel : okS n s \/ inP P s -> forall i j, safe P W n (reverse_loop fuel s i j) (fun _ => True).
  Proof.
    intros Hs. induction fuel as [|f IH]; intros i j; cbn [reverse_loop].
    - destruct (i <? j); [apply safe_fail|now apply safe_ret].
    - destruct (i <? j); [|now apply safe_ret].
      eapply safe_bind; [now apply safe_swap|]. intros _ _. apply IH.
  Qed.

  Lemma reverse_go_safe s : okS n s \/ inP P s -> safe P W n (reverse_go s) (fun r => r = s).
  Proof.
    intros Hs. unfold reverse_go. eapply safe_bind; [now apply reverse_loop_safe|]. intros _ _. now apply safe_ret.
  Qed.

  Lemma range_right_go_safe args : safe P W n (range_right_go slack args) ok_opt.
  Proof.
    unfold range_right_go. eapply safe_bind; [apply range_go_safe|]. intros [ran|] Hr; [|now apply safe_ret].
    eapply safe_bind; [apply reverse_go_safe; now left|]. intros rr ->. now apply safe_ret.
  Qed.

  Lemma slice_to_map_go_safe s1 s2 : safe P W n (slice_to_map_go s1 s2) okmap.
  Proof.
    unfold slice_to_map_go. sbind. destruct (negb _); [apply safe_fail|]. eapply safe_bind.
    - apply (safe_for_each P W n _ _ (fun _ : unit => True)); [|exact I]. intros i st _. rd_step. rd_step.
      apply safe_m_store. now left.
    - intros _ _. now apply safe_ret.
  Qed.

  (* --- the map helpers --- *)

  Lemma keys_mem_safe id : safe P W n (keys_mem id) (okS n).
  Proof.
    unfold keys_mem. rd_step. sbind. eapply safe_bind.
    - apply (safe_for_each P W n _ _ (fun _ : nat => True)); [|exact I]. intros kv idx _. sbind. now apply safe_ret.
    - intros _ _. now apply safe_ret.
  Qed.
  Lemma values_mem_safe id : safe P W n (values_mem id) (okS n).
  Proof.
    unfold values_mem. rd_step. sbind. eapply safe_bind.
    - apply (safe_for_each P W n _ _ (fun _ : nat => True)); [|exact I]. intros kv idx _. sbind. now apply safe_ret.
    - intros _ _. now apply safe_ret.
  Qed.
  Lemma map_collection_mem_safe fn id : safe P W n (map_collection_mem fn id) (okS n).
  Proof.
    unfold map_collection_mem. rd_step. sbind. eapply safe_bind.
    - apply (safe_for_each P W n _ _ (fun _ : nat => True)); [|exact I]. intros kv idx _. sbind. now apply safe_ret.
    - intros _ _. now apply safe_ret.
  Qed.

  (* the shape  `r := make(map); es := range m; for es { maybe r[..] = .. }; return r` *)
  Ltac map_builder :=
    sbind; rd_step; eapply safe_bind;
    [ apply (safe_for_each P W n _ _ (fun _ : unit => True)); [|exact I]; intros kv st _
    | intros _ _; now apply safe_ret ].

  Lemma map_values_mem_safe fn id : safe P W n (map_values_mem fn id) okmap.
  Proof. unfold map_values_mem. map_builder. apply safe_m_store. now left. Qed.
  Lemma map_keys_mem_safe fn id : safe P W n (map_keys_mem fn id) okmap.
  Proof. unfold map_keys_mem. map_builder. apply safe_m_store. now left. Qed.
  Lemma filter_map_mem_safe fn id : safe P W n (filter_map_mem fn id) okmap.
  Proof. unfold filter_map_mem. map_builder. destruct (fn _); [apply safe_m_store; now left|now apply safe_ret]. Qed.
  Lemma pick_by_mem_safe fn coll : safe P W n (pick_by_mem fn coll) okmap.
  Proof.
    unfold pick_by_mem. map_builder. destruct (fn _ _); [|now apply safe_ret]. rd_step. apply safe_m_store. now left.
  Qed.

  Lemma map_unique_mem_safe id : safe P W n (map_unique_mem id) okmap.
  Proof.
    unfold map_unique_mem. sbind. rd_step. eapply safe_bind.
    - apply (safe_for_each P W n _ _ (fun _ : list Z => True)); [|exact I]. intros kv ref _.
      destruct (memz _ _); [now apply safe_ret|]. sbind. now apply safe_ret.
    - intros _ _. now apply safe_ret.
  Qed.

  Lemma sort_in_place_safe s : okS n s -> safe P W n (sort_in_place s) (fun _ => True).
  Proof. intros Hs. unfold sort_in_place. rd_step. apply safe_copy_go. now left. Qed.

  Lemma find_mem_safe fn id : safe P W n (find_mem fn id) okmap.
  Proof.
    unfold find_mem. sbind. rd_step. sbind. eapply safe_bind.
    { apply (safe_for_each P W n _ _ (fun _ : nat => True)); [|exact I]. intros kv idx _. sbind. now apply safe_ret. }
    intros _ _. eapply safe_bind; [now apply sort_in_place_safe|]. intros _ _. eapply safe_bind.
    - apply (safe_for_each P W n _ _ (fun _ : bool => True)); [|exact I]. intros i done _.
      destruct done; [now apply safe_ret|]. rd_step. rd_step.
      destruct (fn _); [|now apply safe_ret]. sbind. now apply safe_ret.
    - intros _ _. now apply safe_ret.
  Qed.

  Lemma find_by_key_mem_safe fn id : safe P W n (find_by_key_mem fn id) okmap.
  Proof.
    unfold find_by_key_mem. sbind. rd_step. eapply safe_bind with (Q := fun _ => True).
    - destruct (find _ _); [apply safe_m_store; now left|now apply safe_ret].
    - intros _ _. now apply safe_ret.
  Qed.

  Lemma invert_mem_safe id : safe P W n (invert_mem id) okmap.
  Proof.
    unfold invert_mem. sbind. eapply safe_bind; [apply keys_mem_safe|]. intros keys Hk. eapply safe_bind.
    - apply (safe_for_each P W n _ _ (fun _ : unit => True)); [|exact I]. intros i st _. rd_step. rd_step.
      apply safe_m_store. now left.
    - intros _ _. now apply safe_ret.
  Qed.

  Lemma pluck_mem_safe mtbl ms key : safe P W n (pluck_mem slack mtbl ms key) (okS n).
  Proof.
    unfold pluck_mem. apply safe_for_each; [|apply okS_empty]. intros i result Hres. rd_step.
    eapply safe_bind; [apply find_by_key_mem_safe|]. intros mapped _. rd_as ov.
    destruct ov as [v|]; [now apply safe_append_ok|now apply safe_ret].
  Qed.

  Lemma find_ext_by_key_mem_safe less mtbl ms key : safe P W n (find_ext_by_key_mem less mtbl ms key) (fun _ => True).
  Proof.
    unfold find_ext_by_key_mem. destruct (s_len ms =? 0); [now apply safe_ret|]. rd_step. rd_as o0.
    destruct o0 as [v0|]; [|now apply safe_ret]. eapply safe_bind.
    - apply (safe_for_each P W n _ _ (fun _ : Z => True)); [|exact I]. intros i mn _. rd_step.
      eapply safe_bind; [apply find_by_key_mem_safe|]. intros mapped _. rd_as ov.
      destruct ov as [v|]; [destruct (less _ _)|]; now apply safe_ret.
    - intros mn _. now apply safe_ret.
  Qed.

  Lemma pick_mem_safe coll keys :
    safe P W n (pick_mem coll keys) (fun r => match r with Some id => n <= id | None => True end).
  Proof.
    unfold pick_mem. sbind. destruct (s_len keys =? 0); [now apply safe_ret|]. rd_step. eapply safe_bind.
    - apply (safe_for_each P W n _ _ (fun _ : unit => True)); [|exact I]. intros kv st _.
      eapply safe_bind; [apply safe_ro, contains_go_ro|]. intros c _.
      destruct c; [|now apply safe_ret]. rd_step. apply safe_m_store. now left.
    - intros _ _. now apply safe_ret.
  Qed.
End Fresh.

(* ------------------------------------------------------------------ *)
(* the views: Drop and Chunk do not write at all                         *)

(* r shows a part of what s shows *)
Definition within (s r : slice) : Prop :=
  s_arr r = s_arr s /\ s_off s <= s_off r /\ s_off r + s_len r <= s_off s + s_len s.

Lemma drop_go_pure s z : pure_on (drop_go s z) (fun r => within s r \/ r = empty_slice).
Proof.
  unfold drop_go. destruct ((0 <? z)%Z && (z <? Z.of_nat (s_len s))%Z)%bool eqn:E1.
  - apply andb_prop in E1 as [E1 E2]. apply Z.ltb_lt in E1. apply Z.ltb_lt in E2.
    eapply pure_weaken; [apply pure_reslice|]. intros r (Ha & Ho & Hl & _ & Hle & _). left. unfold within. lia.
  - destruct ((z <=? 0)%Z && (- Z.of_nat (s_len s) <? z)%Z)%bool eqn:E2; [|apply pure_ret; now right].
    apply andb_prop in E2 as [E2 E3]. apply Z.leb_le in E2. apply Z.ltb_lt in E3.
    eapply pure_weaken; [apply pure_reslice|]. intros r (Ha & Ho & Hl & _ & Hle & _). left. unfold within. lia.
Qed.

Lemma chunk_go_pure s size : pure_on (chunk_go s size) (Forall (within s)).
Proof.
  unfold chunk_go. destruct (size <=? 0)%Z; [apply pure_fail|].
  apply pure_for_each; [|constructor]. intros i result Hres.
  destruct (i mod Z.to_nat size =? 0); [|now apply pure_ret].
  destruct (Nat.ltb_spec (i + Z.to_nat size) (s_len s)) as [Hlt|Hge].
  - eapply pure_bind; [apply pure_reslice|]. intros c (Ha & Ho & Hl & _ & Hle & _).
    apply pure_ret. apply Forall_app. split; [exact Hres|]. constructor; [|constructor]. unfold within. lia.
  - eapply pure_bind; [apply pure_reslice|]. intros c (Ha & Ho & Hl & _ & Hle & _).
    apply pure_ret. apply Forall_app. split; [exact Hres|]. constructor; [|constructor]. unfold within. lia.
Qed.

(* FilterMapCollection / Filter2DMapCollection only read; what they return are the argument maps *)
Lemma filter_map_collection_mem_pure fn mtbl ms :
  pure_on (filter_map_collection_mem fn mtbl ms) (Forall (image mtbl)).
Proof.
  unfold filter_map_collection_mem. apply pure_for_each; [|constructor]. intros i filtered Hf.
  unfold rd_elem. eapply pure_bind; [eapply pure_bind; [apply pure_rd|]; intros c _; apply (pure_ret _ (image mtbl)); now exists c|].
  intros id Hid. eapply pure_bind; [apply pure_entries|]. intros es _.
  destruct (existsb _ _); apply pure_ret; [|exact Hf].
  apply Forall_app. split; [exact Hf|]. now constructor.
Qed.

Lemma filter_2d_mem_pure fn otbl mtbl coll : pure_on (filter_2d_mem fn otbl mtbl coll) (Forall (image otbl)).
Proof.
  unfold filter_2d_mem. apply pure_for_each; [|constructor]. intros i filtered Hf.
  unfold rd_elem. eapply pure_bind; [eapply pure_bind; [apply pure_rd|]; intros c _; apply (pure_ret _ (image otbl)); now exists c|].
  intros item Hitem. eapply pure_bind; [apply pure_entries|]. intros es _.
  eapply pure_bind with (Q := fun _ => True).
  - apply pure_for_each; [|exact I]. intros e hit _. destruct hit; [now apply pure_ret|].
    eapply pure_bind; [apply pure_entries|]. intros inner _. now apply pure_ret.
  - intros hit _. destruct hit; apply pure_ret; [|exact Hf].
    apply Forall_app. split; [exact Hf|]. now constructor.
Qed.

(* ------------------------------------------------------------------ *)
(* the in-place helpers: writes stay inside the window of the argument   *)

(* the cells s shows: array (s_arr s), positions [off, off+len) *)
Definition win (s : slice) (id i : nat) : Prop := id = s_arr s /\ s_off s <= i < s_off s + s_len s.

Lemma inP_win s : inP (win s) s.
Proof. intros i Hi. unfold win. lia. Qed.

(* Reject: the loop variable `slice` stays a prefix window of the argument (or,
   for a descriptor whose cap is smaller than its len-1, moves to a new array) *)
Definition prefix_of (n : nat) (s sl : slice) : Prop :=
  (s_arr sl = s_arr s /\ s_off sl = s_off s /\ s_len sl <= s_len s) \/ n <= s_arr sl.

Lemma reject_loop_safe slack W n fn s fuel : forall sl i,
  prefix_of n s sl -> safe (win s) W n (reject_loop slack fuel fn sl i) (prefix_of n s).
Proof.
  induction fuel as [|f IH]; intros sl i Hsl; cbn [reject_loop].
  - destruct (i <? s_len sl); [apply safe_fail|now apply safe_ret].
  - destruct (Nat.ltb_spec i (s_len sl)) as [Hi|Hi]; [|now apply safe_ret].
    eapply safe_bind; [apply pure_safe, pure_rd|]. intros v _.
    destruct (fn v); [|now apply IH].
    eapply safe_bind; [apply pure_safe, pure_reslice|]. intros hd (Ha & Ho & Hl & Hc & _ & _).
    eapply safe_bind; [apply pure_safe, pure_reslice|]. intros tl (Hta & Hto & Htl & _ & _ & _).
    eapply safe_bind; [apply pure_safe, pure_values|]. intros vs Hvs. cbn beta in Hvs.
    eapply safe_bind.
    + apply safe_append. destruct Hsl as [(Hsa & Hso & Hsl)|Hfresh].
      * right. intros _ j Hj. unfold win. lia.
      * left. left. lia.
    + intros sl' (Hlen' & Hwhere). apply IH.
      destruct Hwhere as [(Ha' & Ho' & _ & _)|Hfresh']; [|now right].
      destruct Hsl as [(Hsa & Hso & Hsl)|Hfresh]; [left; lia|right; lia].
Qed.

Lemma reject_go_safe slack W n fn s : safe (win s) W n (reject_go slack fn s) (prefix_of n s).
Proof. unfold reject_go. apply reject_loop_safe. left. auto. Qed.

(* heap.FromSlice / heap.Sort: every write is a swap inside data *)
Lemma from_slice_step_safe W n comp data st :
  safe (win data) W n (from_slice_step comp data st) (fun _ => True).
Proof.
  unfold from_slice_step. destruct st as [inner i]. destruct inner.
  - destruct (_ || _)%bool; [now apply safe_ret|].
    eapply safe_bind; [apply pure_safe, pure_rd|]. intros dl _.
    eapply safe_bind with (Q := fun _ => True).
    + destruct (_ <? _)%Z; [|now apply safe_ret].
      eapply safe_bind; [apply pure_safe, pure_rd|]. intros dr _. now apply safe_ret.
    + intros current _.
      eapply safe_bind; [apply pure_safe, pure_rd|]. intros dc _.
      eapply safe_bind; [apply pure_safe, pure_rd|]. intros di _.
      destruct (negb _); [now apply safe_ret|].
      eapply safe_bind; [apply safe_swap; right; apply inP_win|]. intros _ _. now apply safe_ret.
  - destruct (0 <=? i)%Z; now apply safe_ret.
Qed.

Lemma from_slice_go_safe W n comp data : safe (win data) W n (from_slice_go comp data) (fun r => r = data).
Proof.
  unfold from_slice_go. eapply safe_bind.
  - apply (safe_run_loop (win data) W n _ (fun _ => True) (fun _ => True)); [|exact I].
    intros x _. eapply safe_weaken; [apply from_slice_step_safe|]. intros [x'|d] _; exact I.
  - intros _ _. now apply safe_ret.
Qed.

Lemma move_down_safe W n comp data fuel : forall k i,
  safe (win data) W n (move_down comp fuel data k i) (fun _ => True).
Proof.
  induction fuel as [|f IH]; intros k i; cbn [move_down]; [apply safe_fail|].
  eapply safe_bind; [apply pure_safe, pure_rd|]. intros di _.
  eapply safe_bind with (Q := fun _ => True).
  - destruct (_ <? _); [|now apply safe_ret].
    eapply safe_bind; [apply pure_safe, pure_rd|]. intros dl _. now apply safe_ret.
  - intros c1 _. eapply safe_bind; [apply pure_safe, pure_rd|]. intros dc1 _.
    eapply safe_bind with (Q := fun _ => True).
    + destruct (_ <? _); [|now apply safe_ret].
      eapply safe_bind; [apply pure_safe, pure_rd|]. intros dr _. now apply safe_ret.
    + intros c2 _. destruct (c2 =? i); [now apply safe_ret|].
      eapply safe_bind; [apply safe_swap; right; apply inP_win|]. intros _ _. apply IH.
Qed.

Lemma sort_go_safe W n comp data : safe (win data) W n (sort_go comp data) (fun r => n <= s_arr r).
Proof.
  unfold sort_go. eapply safe_bind; [apply from_slice_go_safe|]. intros _ _.
  eapply safe_bind.
  - apply (safe_for_each (win data) W n _ _ (fun _ : unit => True)); [|exact I].
    intros i st _. eapply safe_bind; [apply safe_swap; right; apply inP_win|]. intros _ _.
    apply move_down_safe.
  - intros _ _. eapply safe_bind; [apply safe_make_slice|]. intros vals (Hv & _).
    eapply safe_bind; [apply pure_safe, pure_values|]. intros vs _.
    eapply safe_bind; [apply safe_copy_go; left; now left|]. intros _ _.
    now apply safe_ret.
Qed.

(* Omit / OmitBy delete from THAT map (the key slice is only read);
   PartitionMap stores into the argument maps *)
Lemma omit_mem_safe P (W : nat -> Prop) n coll keys : W coll -> safe P W n (omit_mem coll keys) (fun r => r = coll).
Proof.
  intros Hw. unfold omit_mem.
  eapply safe_bind; [apply pure_safe, pure_entries|]. intros es _. eapply safe_bind.
  - apply (safe_for_each P W n _ _ (fun _ : unit => True)); [|exact I]. intros kv st _.
    eapply safe_bind; [apply safe_ro, contains_go_ro|]. intros c _.
    destruct c; [apply safe_m_delete; now right|now apply safe_ret].
  - intros _ _. now apply safe_ret.
Qed.

Lemma omit_by_mem_safe P (W : nat -> Prop) n fn coll : W coll -> safe P W n (omit_by_mem fn coll) (fun r => r = coll).
Proof.
  intros Hw. unfold omit_by_mem.
  eapply safe_bind; [apply pure_safe, pure_entries|]. intros es _. eapply safe_bind.
  - apply (safe_for_each P W n _ _ (fun _ : unit => True)); [|exact I]. intros kv st _.
    destruct (fn _ _); [apply safe_m_delete; now right|now apply safe_ret].
  - intros _ _. now apply safe_ret.
Qed.

Lemma partition_map_mem_safe P (W : nat -> Prop) n fn mtbl ms :
  (forall c, W (mtbl c)) ->
  safe P W n (partition_map_mem fn mtbl ms) (fun r => Forall (image mtbl) (fst r ++ snd r)).
Proof.
  intros Hw. unfold partition_map_mem.
  apply safe_for_each; [|constructor]. intros i [r0 r1] Hst. cbn [fst snd] in Hst.
  unfold rd_elem. eapply safe_bind with (Q := image mtbl).
  { eapply safe_bind; [apply pure_safe, pure_rd|]. intros c _. apply safe_ret. now exists c. }
  intros id [c ->].
  eapply safe_bind; [apply pure_safe, pure_entries|]. intros es _.
  destruct es as [|[k v] es']; [now apply safe_ret|].
  eapply safe_bind; [apply safe_m_store; right; apply Hw|]. intros _ _.
  eapply safe_bind; [apply pure_safe, pure_entries|]. intros cur _.
  apply Forall_app in Hst as [H0 H1].
  assert (Hc : image mtbl (mtbl c)) by now exists c.
  destruct (fn cur); apply safe_ret; cbn [fst snd]; rewrite ?Forall_app; repeat split; auto.
Qed.

(* ------------------------------------------------------------------ *)
(* one call, whichever helper it is                                      *)

(* a reference through which nothing that existed before the call can be reached *)
Definition fresh_ref (n : nat) (r : rref) : Prop :=
  match r with RS _ s => okS n s | RM id => n <= id | RV _ => True end.
Definition slice_ref (Q : slice -> Prop) (r : rref) : Prop :=
  match r with RS _ s => Q s | _ => False end.
Definition map_ref (Q : nat -> Prop) (r : rref) : Prop :=
  match r with RM id => Q id | _ => False end.

Lemma safe_one {A} P W n (f : A -> rref) (c : M A) (Q : A -> Prop) (R : rref -> Prop) :
  safe P W n c Q -> (forall a, Q a -> R (f a)) -> safe P W n (one f c) (Forall R).
Proof.
  intros H HR. unfold one. eapply safe_bind; [exact H|]. intros r Hr. apply safe_ret. constructor; auto.
Qed.

Lemma safe_map_refs {A} P W n (f : A -> rref) (c : M (list A)) (Q : A -> Prop) (R : rref -> Prop) :
  safe P W n c (Forall Q) -> (forall a, Q a -> R (f a)) -> safe P W n (r <- c ;; ret (map f r))%mem (Forall R).
Proof.
  intros H HR. eapply safe_bind; [exact H|]. intros r Hr. apply safe_ret.
  rewrite Forall_map. eapply Forall_impl; [|exact Hr]. exact HR.
Qed.

Lemma safe_scalar P W n (c : M Z) : ro c -> safe P W n (scalar c) (Forall (fresh_ref n)).
Proof. intros H. unfold scalar. eapply safe_one; [apply safe_ro, H|]. intros a _. exact I. Qed.
Lemma safe_scalar_b P W n (c : M bool) : ro c -> safe P W n (scalar_b c) (Forall (fresh_ref n)).
Proof. intros H. unfold scalar_b. eapply safe_one; [apply safe_ro, H|]. intros a _. exact I. Qed.

Lemma pure_one {A} (f : A -> rref) (c : M A) (Q : A -> Prop) (R : rref -> Prop) :
  pure_on c Q -> (forall a, Q a -> R (f a)) -> pure_on (one f c) (Forall R).
Proof.
  intros H HR. unfold one. eapply pure_bind; [exact H|]. intros r Hr. apply pure_ret. constructor; auto.
Qed.

Lemma pure_map_refs {A} (f : A -> rref) (c : M (list A)) (Q : A -> Prop) (R : rref -> Prop) :
  pure_on c (Forall Q) -> (forall a, Q a -> R (f a)) -> pure_on (r <- c ;; ret (map f r))%mem (Forall R).
Proof.
  intros H HR. eapply pure_bind; [exact H|]. intros r Hr. apply pure_ret.
  rewrite Forall_map. eapply Forall_impl; [|exact Hr]. exact HR.
Qed.

Lemma run_call_fresh_safe slack P W n c :
  kind_of c = KFresh -> safe P W n (run_call slack c) (Forall (fresh_ref n)).
Proof.
  intros Hk.
  destruct c; cbn in Hk; try discriminate; cbn [run_call];
    first
      [ (* scalars *)
        (apply safe_scalar;
         first [ apply sum_go_ro | apply sum_by_go_ro | apply mean_go_ro | apply first_index_ro | apply reduce_go_ro
               | apply find_ext_ro | apply min_max_go_ro | apply find_key_mem_ro ])
      | (apply safe_scalar_b; first [ apply scan_bool_ro | apply map_scan_ro ])
      | (* one slice *)
        (eapply (safe_one P W n rs _ (okS n));
         [ first [ apply merge_go_safe | apply filter_go_safe | apply map_go_safe | apply unique_go_safe
                 | apply unique_by_go_safe | apply duplicate_go_safe | apply flatten_go_safe | apply union_go_safe
                 | apply intersection_with_safe | apply without_go_safe
                 | apply difference_go_safe | apply difference_by_go_safe | apply drop_while_go_safe
                 | apply drop_right_while_go_safe | apply to_slice_go_safe | apply shuffle_go_safe
                 | apply keys_mem_safe | apply values_mem_safe | apply map_collection_mem_safe | apply pluck_mem_safe ]
         | intros a Ha; exact Ha ])
      | (* one map *)
        (eapply (safe_one P W n RM _ (fun id => n <= id));
         [ first [ apply duplicate_with_index_go_safe | apply find_all_go_safe | apply slice_to_map_go_safe
                 | apply map_values_mem_safe | apply map_keys_mem_safe | apply map_unique_mem_safe | apply find_mem_safe
                 | apply find_by_key_mem_safe | apply invert_mem_safe | apply pick_by_mem_safe | apply filter_map_mem_safe ]
         | intros a Ha; exact Ha ])
      | (* lists of slices *)
        (eapply (safe_map_refs P W n rs _ (okS n));
         [ first [ apply partition_go_safe | apply zip_go_safe | apply unzip_go_safe ] | intros a Ha; exact Ha ])
      | idtac ].
  - (* GroupBy *)
    eapply (safe_map_refs P W n _ _ (fun kv => okS n (snd kv))); [apply group_by_go_safe|]. intros kv Hkv. exact Hkv.
  - (* Range *)
    eapply safe_one; [apply range_go_safe|]. intros [r|] Hr; cbn; [exact Hr|apply okS_empty].
  - (* RangeRight *)
    eapply safe_one; [apply range_right_go_safe|]. intros [r|] Hr; cbn; [exact Hr|apply okS_empty].
  - (* Pick *)
    eapply safe_bind; [apply pick_mem_safe|]. intros [id|] Hr; apply safe_ret; [|constructor].
    constructor; [exact Hr|constructor].
  - (* ForEach *)
    eapply safe_bind; [apply safe_ro, for_each_go_ro|]. intros _ _. apply safe_ret. constructor.
  - (* ForEachRight *)
    eapply safe_bind; [apply safe_ro, for_each_right_go_ro|]. intros _ _. apply safe_ret. constructor.
  - (* Nth *)
    eapply safe_one; [apply safe_ro, nth_go_ro|]. intros a _. exact I.
  - (* FindMinByKey *)
    eapply safe_one; [apply find_ext_by_key_mem_safe|]. intros a _. exact I.
  - (* FindMaxByKey *)
    eapply safe_one; [apply find_ext_by_key_mem_safe|]. intros a _. exact I.
Qed.

Lemma run_call_view_pure slack c s :
  kind_of c = KViewS s -> pure_on (run_call slack c) (Forall (slice_ref (fun r => within s r \/ r = empty_slice))).
Proof.
  intros Hv. destruct c; cbn in Hv; try discriminate; injection Hv as ->; cbn [run_call].
  - eapply pure_one; [apply drop_go_pure|]. intros a Ha. exact Ha.
  - eapply pure_map_refs; [apply chunk_go_pure|]. intros a Ha. cbn. now left.
Qed.

Lemma run_call_view_maps_pure slack c Wm :
  kind_of c = KViewM Wm -> pure_on (run_call slack c) (Forall (map_ref Wm)).
Proof.
  intros Hv. destruct c; cbn in Hv; try discriminate; injection Hv as <-; cbn [run_call].
  - eapply pure_map_refs; [apply filter_map_collection_mem_pure|]. intros a Ha. exact Ha.
  - eapply pure_map_refs; [apply filter_2d_mem_pure|]. intros a Ha. exact Ha.
Qed.

Lemma run_call_in_place_safe slack W n c s :
  kind_of c = KInPlaceS s -> safe (win s) W n (run_call slack c) (Forall (slice_ref (prefix_of n s))).
Proof.
  intros Hip. destruct c; cbn in Hip; try discriminate; injection Hip as ->; cbn [run_call].
  - eapply safe_one; [apply reject_go_safe|]. intros a Ha. exact Ha.
  - eapply safe_one; [apply reverse_go_safe; right; apply inP_win|]. intros r ->. left. auto.
  - eapply safe_one; [apply from_slice_go_safe|]. intros r ->. left. auto.
  - eapply safe_one; [apply sort_go_safe|]. intros r Hr. now right.
Qed.

Lemma run_call_in_place_maps_safe slack P n c Wm :
  kind_of c = KInPlaceM Wm -> safe P Wm n (run_call slack c) (Forall (map_ref Wm)).
Proof.
  intros Hk. destruct c; cbn in Hk; try discriminate; injection Hk as <-; cbn [run_call].
  - eapply safe_one; [now apply omit_mem_safe|]. intros r ->. reflexivity.
  - eapply safe_one; [now apply omit_by_mem_safe|]. intros r ->. reflexivity.
  - eapply safe_bind; [apply partition_map_mem_safe; intros c; now exists c|]. intros r Hr. apply safe_ret.
    rewrite Forall_map. exact Hr.
Qed.

(* ------------------------------------------------------------------ *)
(* consequences used by the statements                                   *)

Lemma frame_arr_of m m' id : frame m m' -> id < length m -> arr_of m' id = arr_of m id.
Proof. intros [ext ->] H. now apply arr_of_app_old. Qed.

Lemma read_all_same_array m m' s : arr_of m' (s_arr s) = arr_of m (s_arr s) -> read_all m' s = read_all m s.
Proof. intros H. unfold read_all. now rewrite H. Qed.

Lemma read_all_empty m s : s_len s = 0 -> read_all m s = [].
Proof. intros H. unfold read_all. now rewrite H. Qed.

Lemma set_nth_same {A} (l : list A) i d : set_nth l i (nth i l d) = l.
Proof. revert i; induction l as [|h t IH]; intros [|i]; cbn; auto. now rewrite IH. Qed.

(* outside the writable cells / objects, whole arrays are unchanged *)
Lemma same_outside_other_array (P : nat -> nat -> Prop) (W : nat -> Prop) m m' id :
  same_outside P W (length m) m m' -> id < length m -> ~ W id -> (forall i, ~ P id i) -> arr_of m' id = arr_of m id.
Proof.
  intros (_ & _ & H) Hid HW HP. destruct (H id Hid HW) as [L C].
  apply nth_ext with (d := 0%Z) (d' := 0%Z); [exact L|].
  intros i _. apply C. apply HP.
Qed.

(* ------------------------------------------------------------------ *)
(* maps in the memory                                                   *)

Lemma unflat_kvflat a : unflat (kvflat a) = a.
Proof.
  induction a as [|[k v] a IH]; [reflexivity|].
  change (kvflat ((k, v) :: a)) with (k :: v :: kvflat a). cbn [unflat]. now rewrite IH.
Qed.

Lemma map_of_put_map m id a : id < length m -> map_of (put_map m id a) id = a.
Proof. intros H. unfold map_of, put_map. rewrite arr_of_set_nth_same by exact H. apply unflat_kvflat. Qed.

Lemma map_of_put_map_other m id a id' : id' <> id -> map_of (put_map m id a) id' = map_of m id'.
Proof. intros H. unfold map_of, put_map. now rewrite arr_of_set_nth_other. Qed.

Lemma put_map_length m id a : length (put_map m id a) = length m.
Proof. apply set_nth_length. Qed.

(* an object that is the flat form of a map *)
Definition is_map (m : mem) (id : nat) : Prop := arr_of m id = kvflat (map_of m id).

Lemma put_map_same m id : is_map m id -> put_map m id (map_of m id) = m.
Proof. intros H. unfold put_map. rewrite <- H. unfold arr_of. apply set_nth_same. Qed.

Lemma map_set_head {V} (k : Z) (v : V) rest : map_set ((k, v) :: rest) k v = (k, v) :: rest.
Proof. cbn. now rewrite Z.eqb_refl. Qed.

Lemma map_delete_incl {V} (a : amapV V) k : incl (map_delete a k) a.
Proof.
  induction a as [|[k' v'] a IH]; cbn; [apply incl_refl|].
  destruct (k' =? k)%Z; [apply incl_tl, incl_refl|]. apply incl_cons; [now left|now apply incl_tl].
Qed.

(* a loop keeps an invariant of the memory that each iteration keeps — whether or not it panics *)
Lemma for_each_inv {X S} (Inv : mem -> Prop) (xs : list X) (body : X -> S -> M S) :
  (forall x st m o m', In x xs -> Inv m -> body x st m = (o, m') -> Inv m') ->
  forall st m o m', Inv m -> for_each xs body st m = (o, m') -> Inv m'.
Proof.
  induction xs as [|x xs IH]; intros Hb st m o m' Hi H; cbn in H.
  - injection H as <- <-. exact Hi.
  - unfold bind in H. destruct (body x st m) as [[st1|] m1] eqn:E.
    + apply (IH (fun y st m o m' Hy => Hb y st m o m' (or_intror Hy)) st1 m1 o m'); [|exact H].
      apply (Hb x st m (Some st1) m1); [now left|exact Hi|exact E].
    + injection H as <- <-. apply (Hb x st m None m1); [now left|exact Hi|exact E].
Qed.

(* Omit / OmitBy: the entries afterwards are entries that were there before *)
Lemma omit_mem_submap coll keys m o m' :
  coll < length m -> omit_mem coll keys m = (o, m') ->
  length m' = length m /\ incl (map_of m' coll) (map_of m coll) /\ (forall r, o = Some r -> r = coll).
Proof.
  intros Hc H. unfold omit_mem, bind in H. cbn [m_entries] in H.
  destruct (for_each _ _ tt m) as [[u|] m1] eqn:E; cbn in H; injection H as <- <-.
  all: apply (for_each_inv (fun m1 => length m1 = length m /\ incl (map_of m1 coll) (map_of m coll)) _ _) in E;
    [destruct E as [HL HI]; split; [exact HL|]; split; [exact HI|]; intros r Er; now (injection Er as <- || discriminate)
    | | split; [reflexivity|apply incl_refl]].
  all: intros kv st mc o mc' _ [HL HI] Hb; unfold bind in Hb;
    destruct (contains_go keys (fst kv) mc) as [[c|] mc2] eqn:Ec;
    destruct (contains_go_ro keys (fst kv) mc _ mc2 Ec) as [-> _];
    [destruct c; cbn in Hb; injection Hb as <- <-; [|now split];
     split; [now rewrite put_map_length|];
     rewrite map_of_put_map by lia; eapply incl_tran; [apply map_delete_incl|exact HI]
    | injection Hb as <- <-; now split].
Qed.

Lemma omit_by_mem_submap fn coll m o m' :
  coll < length m -> omit_by_mem fn coll m = (o, m') ->
  length m' = length m /\ incl (map_of m' coll) (map_of m coll) /\ (forall r, o = Some r -> r = coll).
Proof.
  intros Hc H. unfold omit_by_mem, bind in H. cbn [m_entries] in H.
  destruct (for_each _ _ tt m) as [[u|] m1] eqn:E; cbn in H; injection H as <- <-.
  all: apply (for_each_inv (fun m1 => length m1 = length m /\ incl (map_of m1 coll) (map_of m coll)) _ _) in E;
    [destruct E as [HL HI]; split; [exact HL|]; split; [exact HI|]; intros r Er; now (injection Er as <- || discriminate)
    | | split; [reflexivity|apply incl_refl]].
  all: intros kv st mc o mc' _ [HL HI] Hb;
    destruct (fn _ _); cbn in Hb; injection Hb as <- <-; [|now split];
    split; [now rewrite put_map_length|];
    rewrite map_of_put_map by lia; eapply incl_tran; [apply map_delete_incl|exact HI].
Qed.

(* PartitionMap assigns m[k] = v with the entry it has just read: the memory is unchanged *)
Lemma partition_map_mem_same fn mtbl ms m o m' :
  (forall c, is_map m (mtbl c)) ->
  partition_map_mem fn mtbl ms m = (o, m') -> m' = m.
Proof.
  intros Hmaps H. unfold partition_map_mem in H.
  apply (for_each_inv (fun m1 => m1 = m) _ _) in H; auto.
  intros i [r0 r1] mc o' mc' Hin -> Hb. unfold bind, rd_elem, bind in Hb.
  destruct (rd ms i m) as [[c|] m1] eqn:Er; destruct (pure_rd ms i m _ m1 Er) as [-> _];
    [|now injection Hb as <- <-].
  cbn [ret m_entries] in Hb.
  destruct (map_of m (mtbl c)) as [|[k v] rest] eqn:Em; [cbn in Hb; now injection Hb as <- <-|].
  cbn [m_store] in Hb. rewrite Em, map_set_head, <- Em, put_map_same in Hb by apply Hmaps.
  destruct (fn (map_of m (mtbl c))); cbn in Hb; now injection Hb as <- <-.
Qed.

(* ------------------------------------------------------------------ *)
(* the statements of C16_Props.  A call's outcome is (o, m'): o = Some rs when it returns (an error
   return included), o = None when it panics; m' is the memory afterwards in BOTH cases.          *)

Lemma frame_refl m : frame m m.
Proof. exists []. now rewrite app_nil_r. Qed.

Lemma c16_frame slack c m o m' :
  not_in_place c ->
  run_call slack c m = (o, m') ->
  (exists new_objects, m' = m ++ new_objects) /\
  (forall rs, o = Some rs -> kind_of c = KFresh -> Forall (fresh_ref (length m)) rs).
Proof.
  intros Hnip Hrun. unfold not_in_place in Hnip.
  destruct (kind_of c) as [| | |s|Wm] eqn:Hk; try contradiction.
  - destruct (run_call_fresh_safe slack noP noW (length m) c Hk m o m' (le_n _) Hrun) as [S F].
    split; [now apply same_outside_frame|]. intros rs E _. now apply F.
  - destruct (run_call_view_pure slack c s Hk m o m' Hrun) as [-> _].
    split; [apply frame_refl|]. discriminate.
  - destruct (run_call_view_maps_pure slack c Wm Hk m o m' Hrun) as [-> _].
    split; [apply frame_refl|]. discriminate.
Qed.

Lemma c16_frame_arrays_and_reads slack c m o m' :
  not_in_place c ->
  run_call slack c m = (o, m') ->
  (forall id, id < length m -> arr_of m' id = arr_of m id) /\
  (forall s, s_arr s < length m -> read_all m' s = read_all m s) /\
  (forall id, id < length m -> map_of m' id = map_of m id).
Proof.
  intros Hnip Hrun. destruct (c16_frame slack c m o m' Hnip Hrun) as [Hf _]. split; [|split].
  - intros id Hid. now apply frame_arr_of.
  - intros s Hs. now apply frame_read_all.
  - intros id Hid. unfold map_of. f_equal. now apply frame_arr_of.
Qed.

Lemma c16_in_place_only_that_arg slack c s m o m' :
  kind_of c = KInPlaceS s ->
  run_call slack c m = (o, m') ->
  length m <= length m' /\
  (forall id, id < length m ->
     length (arr_of m' id) = length (arr_of m id) /\
     forall i, ~ (id = s_arr s /\ s_off s <= i < s_off s + s_len s) -> cell m' id i = cell m id i) /\
  (forall rs, o = Some rs ->
     Forall (slice_ref (fun r => (s_arr r = s_arr s /\ s_off r = s_off s /\ s_len r <= s_len s) \/ length m <= s_arr r)) rs).
Proof.
  intros Hip Hrun.
  destruct (run_call_in_place_safe slack noW (length m) c s Hip m o m' (le_n _) Hrun) as [(_ & Hlen & H) F].
  split; [exact Hlen|]. split; [|exact F]. intros id Hid. apply H; [exact Hid|unfold noW; tauto].
Qed.

Lemma c16_in_place_other_arrays_untouched slack c s m o m' id :
  kind_of c = KInPlaceS s ->
  run_call slack c m = (o, m') ->
  id < length m -> id <> s_arr s -> arr_of m' id = arr_of m id.
Proof.
  intros Hip Hrun Hid Hne.
  destruct (run_call_in_place_safe slack noW (length m) c s Hip m o m' (le_n _) Hrun) as [S _].
  apply (same_outside_other_array (win s) noW m m' id S Hid); [unfold noW; tauto|].
  intros i. unfold win. tauto.
Qed.

Lemma c16_in_place_maps_only_those slack c Wm m o m' :
  kind_of c = KInPlaceM Wm ->
  run_call slack c m = (o, m') ->
  length m <= length m' /\
  (forall id, id < length m -> ~ Wm id -> arr_of m' id = arr_of m id) /\
  (forall rs, o = Some rs -> Forall (map_ref Wm) rs).
Proof.
  intros Hk Hrun.
  destruct (run_call_in_place_maps_safe slack noP (length m) c Wm Hk m o m' (le_n _) Hrun) as [S F].
  split; [now destruct S as (_ & ? & _)|]. split; [|exact F].
  intros id Hid Hnot. apply (same_outside_other_array noP _ m m' id S Hid Hnot). intros i. unfold noP. tauto.
Qed.

Lemma c16_omit_only_removes slack coll keys m o m' :
  coll < length m ->
  run_call slack (HOmit coll keys) m = (o, m') ->
  length m' = length m /\ incl (map_of m' coll) (map_of m coll) /\
  (forall id, id <> coll -> arr_of m' id = arr_of m id) /\
  (forall rs, o = Some rs -> rs = [RM coll]).
Proof.
  intros Hc Hrun. assert (Hrun' := Hrun). cbn [run_call] in Hrun. unfold one, bind in Hrun.
  destruct (omit_mem coll keys m) as [o1 m1] eqn:E.
  destruct (omit_mem_submap coll keys m o1 m1 Hc E) as (HL & HI & Hr).
  assert (Hm : m' = m1) by (destruct o1; cbn in Hrun; now injection Hrun as <- <-). subst m1.
  split; [exact HL|]. split; [exact HI|]. split.
  - intros id Hne. destruct (Nat.lt_ge_cases id (length m)) as [Hid|Hid].
    + destruct (c16_in_place_maps_only_those slack (HOmit coll keys) (eq coll) m o m' eq_refl Hrun') as (_ & H & _).
      apply H; [exact Hid|]. intros ->. now apply Hne.
    + unfold arr_of. rewrite !nth_overflow by lia. reflexivity.
  - intros rs ->. destruct o1 as [r|]; cbn in Hrun; [|discriminate]. injection Hrun as <-. now rewrite (Hr r eq_refl).
Qed.

Lemma c16_omit_by_only_removes slack fn coll m o m' :
  coll < length m ->
  run_call slack (HOmitBy fn coll) m = (o, m') ->
  length m' = length m /\ incl (map_of m' coll) (map_of m coll) /\
  (forall id, id <> coll -> arr_of m' id = arr_of m id) /\
  (forall rs, o = Some rs -> rs = [RM coll]).
Proof.
  intros Hc Hrun. assert (Hrun' := Hrun). cbn [run_call] in Hrun. unfold one, bind in Hrun.
  destruct (omit_by_mem fn coll m) as [o1 m1] eqn:E.
  destruct (omit_by_mem_submap fn coll m o1 m1 Hc E) as (HL & HI & Hr).
  assert (Hm : m' = m1) by (destruct o1; cbn in Hrun; now injection Hrun as <- <-). subst m1.
  split; [exact HL|]. split; [exact HI|]. split.
  - intros id Hne. destruct (Nat.lt_ge_cases id (length m)) as [Hid|Hid].
    + destruct (c16_in_place_maps_only_those slack (HOmitBy fn coll) (eq coll) m o m' eq_refl Hrun') as (_ & H & _).
      apply H; [exact Hid|]. intros ->. now apply Hne.
    + unfold arr_of. rewrite !nth_overflow by lia. reflexivity.
  - intros rs ->. destruct o1 as [r|]; cbn in Hrun; [|discriminate]. injection Hrun as <-. now rewrite (Hr r eq_refl).
Qed.

Lemma c16_partition_map_writes_nothing slack fn mtbl ms m o m' :
  (forall c, is_map m (mtbl c)) ->
  run_call slack (HPartitionMap fn mtbl ms) m = (o, m') ->
  m' = m /\ (forall rs, o = Some rs -> Forall (map_ref (image mtbl)) rs).
Proof.
  intros Hmaps Hrun. assert (Hrun' := Hrun). cbn [run_call] in Hrun. unfold bind in Hrun.
  destruct (partition_map_mem fn mtbl ms m) as [o1 m1] eqn:E.
  assert (Hm : m' = m1) by (destruct o1; cbn in Hrun; now injection Hrun as <- <-). subst m1.
  split; [now apply (partition_map_mem_same fn mtbl ms m o1 m')|].
  destruct (c16_in_place_maps_only_those slack (HPartitionMap fn mtbl ms) (image mtbl) m o m' eq_refl Hrun') as (_ & _ & F).
  exact F.
Qed.

(* what a reference shows depends only on the object it names *)
Lemma read_ref_same_object m m' r :
  match r with RS _ s => arr_of m' (s_arr s) = arr_of m (s_arr s) \/ s_len s = 0
             | RM id => arr_of m' id = arr_of m id | RV _ => True end ->
  read_ref m' r = read_ref m r.
Proof.
  destruct r as [pre s|id|v]; cbn; intros H; [|exact H|reflexivity].
  f_equal. destruct H as [H|H]; [now apply read_all_same_array|now rewrite !read_all_empty].
Qed.

Definition names_existing (m : mem) (r : rref) : Prop :=
  match r with RS _ s => s_arr s < length m \/ s_len s = 0 | RM id => id < length m | RV _ => True end.

(* the target of an in-place call existed before c1 ran: it is an argument the two calls can share *)
Definition target_older_than (n0 : nat) (c : hcall) : Prop :=
  match kind_of c with
  | KInPlaceS s => s_arr s < n0
  | KInPlaceM Wm => forall id, Wm id -> id < n0
  | _ => True
  end.

Lemma c16_earlier_results_survive slack c1 c2 m0 rs1 m1 o2 m2 r :
  run_call slack c1 m0 = (Some rs1, m1) ->
  run_call slack c2 m1 = (o2, m2) ->
  kind_of c1 = KFresh -> In r rs1 -> names_existing m1 r ->
  target_older_than (length m0) c2 ->
  read_ref m2 r = read_ref m1 r.
Proof.
  intros H1 H2 Hf Hin Hex Ht.
  destruct (run_call_fresh_safe slack noP noW (length m0) c1 Hf m0 (Some rs1) m1 (le_n _) H1) as [_ F].
  specialize (F rs1 eq_refl). rewrite Forall_forall in F. specialize (F r Hin).
  assert (Hobj : forall id, length m0 <= id -> id < length m1 -> arr_of m2 id = arr_of m1 id).
  { intros id Hge Hlt. unfold target_older_than in Ht.
    destruct (kind_of c2) as [|s|Wm|s|Wm] eqn:Hk2.
    - destruct (c16_frame slack c2 m1 o2 m2 ltac:(unfold not_in_place; now rewrite Hk2) H2) as [Hfr _]. now apply frame_arr_of.
    - apply (c16_in_place_other_arrays_untouched slack c2 s m1 o2 m2 id Hk2 H2 Hlt). lia.
    - destruct (c16_in_place_maps_only_those slack c2 Wm m1 o2 m2 Hk2 H2) as (_ & H & _).
      apply H; [exact Hlt|]. intros HW. specialize (Ht id HW). lia.
    - destruct (c16_frame slack c2 m1 o2 m2 ltac:(unfold not_in_place; now rewrite Hk2) H2) as [Hfr _]. now apply frame_arr_of.
    - destruct (c16_frame slack c2 m1 o2 m2 ltac:(unfold not_in_place; now rewrite Hk2) H2) as [Hfr _]. now apply frame_arr_of. }
  apply read_ref_same_object. destruct r as [pre s|id|v]; cbn in *; [| |exact I].
  - destruct Hex as [Hex|Hl]; [|now right]. destruct F as [Hfresh|[Hl _]]; [|now right]. left. now apply Hobj.
  - now apply Hobj.
Qed.

Lemma c16_arguments_survive slack c m o m' s :
  not_in_place c ->
  run_call slack c m = (o, m') ->
  s_arr s < length m ->
  arr_of m' (s_arr s) = arr_of m (s_arr s) /\ read_all m' s = read_all m s.
Proof.
  intros Hnip Hrun Hs.
  destruct (c16_frame_arrays_and_reads slack c m o m' Hnip Hrun) as (Ha & Hr & _). auto.
Qed.
