(* C16_ProofsF.v — the frame lemmas of C16_Proofs.v for the helpers transcribed generically in the
   operations of the element type (C16_ModelF.v).  The logic ([safe], [pure_on], [ro]) is that of
   C16_Proofs.v; nothing is assumed about the operations [E : eops]. *)

From Gogu Require Import Base C14_Model SliceMem C16_Model C16_Proofs C16_ModelF.
Local Open Scope nat_scope.
Local Open Scope mem_scope.

(* ---------- the read-only generic helpers ---------- *)

Lemma g_sum_ro E s : ro (g_sum E s).
Proof. unfold g_sum. ro_tac. Qed.
Lemma g_sum_by_ro E fn s : ro (g_sum_by E fn s).
Proof. unfold g_sum_by. ro_tac. Qed.
Lemma g_mean_ro E s : ro (g_mean E s).
Proof. unfold g_mean. ro_tac. Qed.
Lemma g_find_ext_ro E less s : ro (g_find_ext E less s).
Proof. unfold g_find_ext. ro_tac. Qed.
Lemma g_min_max_ro E less s : ro (g_min_max E less s).
Proof. unfold g_min_max. ro_tac. Qed.

(* ---------- stores into a map keyed by elements ---------- *)

Lemma safe_gm_store eq P (W : nat -> Prop) n id k v : (n <= id \/ W id) -> safe P W n (gm_store eq id k v) (fun _ => True).
Proof.
  intros Hw m o m' Hn H. unfold gm_store in H. injection H as <- <-. split; [|auto].
  now apply same_outside_set_obj.
Qed.

Lemma g_lookup_Forall {V} eq (Q : V -> Prop) (l : amapV V) k e :
  Forall (fun kv => Q (snd kv)) l -> g_lookup eq l k = Some e -> Q e.
Proof.
  induction l as [|[k' v'] l IH]; cbn; intros HF H; [discriminate|].
  inversion HF as [|? ? Hv Hl]; subst. destruct (eq k' k); [injection H as <-; exact Hv|now apply IH].
Qed.
Lemma g_map_set_Forall {V} eq (Q : V -> Prop) (l : amapV V) k e :
  Forall (fun kv => Q (snd kv)) l -> Q e -> Forall (fun kv => Q (snd kv)) (g_map_set eq l k e).
Proof.
  induction l as [|[k' v'] l IH]; cbn; intros HF He; [now constructor|].
  inversion HF as [|? ? Hv Hl]; subst. destruct (eq k' k); constructor; auto.
Qed.

(* ---------- the generic helpers that build their result in fresh storage ---------- *)

Section FreshF.
  Variable slack : nat -> nat -> nat.
  Variable E : eops.
  Variable P : nat -> nat -> Prop.
  Variable W : nat -> Prop.
  Variable n : nat.

  Notation okmap := (fun id : nat => n <= id).

  Ltac rd_step := eapply safe_bind; [apply safe_ro; solve [ro_tac]|]; intros ? _.
  Tactic Notation "rd_as" ident(x) := eapply safe_bind; [apply safe_ro; solve [ro_tac]|]; intros x _.

  Lemma g_unique_safe s : safe P W n (g_unique slack E s) (okS n).
  Proof.
    unfold g_unique. eapply safe_bind.
    - apply (safe_for_each P W n _ _ (fun st : list Z * slice => okS n (snd st))); [|apply okS_empty].
      intros i [keys result] Hst. cbn in Hst. rd_step.
      destruct (g_memz E _ keys); [now apply safe_ret|]. sbind. now apply safe_ret.
    - intros st Hst. now apply safe_ret.
  Qed.

  Lemma g_unique_by_safe fn s : safe P W n (g_unique_by slack E fn s) (okS n).
  Proof.
    unfold g_unique_by. eapply safe_bind.
    - apply (safe_for_each P W n _ _ (fun st : list Z * slice => okS n (snd st))); [|apply okS_empty].
      intros i [keys result] Hst. cbn in Hst. rd_step.
      destruct (g_memz E _ keys); [now apply safe_ret|]. sbind. now apply safe_ret.
    - intros st Hst. now apply safe_ret.
  Qed.

  Lemma g_duplicate_safe s : safe P W n (g_duplicate slack E s) (okS n).
  Proof.
    unfold g_duplicate. sbind. rd_step.
    apply safe_for_each; [|assumption]. intros kv st Hst.
    destruct (_ <? _)%Z; [now apply safe_append_ok|now apply safe_ret].
  Qed.

  Lemma g_duplicate_with_index_safe s : safe P W n (g_duplicate_with_index E s) okmap.
  Proof.
    unfold g_duplicate_with_index. sbind. eapply safe_bind.
    - apply (safe_for_each P W n _ _ (fun st : Z * amapV slice => Forall (fun kv => okS n (snd kv)) (snd st)));
        [|constructor].
      intros idx [count kvMap] Hst. cbn in Hst. rd_step.
      destruct (g_lookup _ kvMap _) as [e|] eqn:El.
      + assert (He : okS n e) by (eapply (g_lookup_Forall _ (okS n)); eassumption).
        sbind. now apply safe_ret.
      + sbind. sbind. sbind. apply safe_ret. cbn. now apply g_map_set_Forall.
    - intros [count kvMap] Hst. cbn in Hst. eapply safe_bind.
      + apply (safe_for_each_in P W n _ _ (fun _ : unit => True)); [|exact I].
        intros kv st Hin _. rd_step. destruct (_ <? _)%Z; [|now apply safe_ret]. rd_step.
        apply safe_gm_store. now left.
      + intros _ _. now apply safe_ret.
  Qed.

  Lemma g_union_safe fuel atbl x : safe P W n (g_union slack E fuel atbl x) (okS n).
  Proof.
    unfold g_union. eapply safe_bind; [apply base_flatten_safe, okS_empty|].
    intros [r|] Hr; [apply g_unique_safe|apply safe_ret, okS_empty].
  Qed.

  Lemma g_intersection_with_safe has tbl params : safe P W n (g_intersection_with slack E has tbl params) (okS n).
  Proof.
    unfold g_intersection_with. rd_step.
    apply safe_for_each; [|apply okS_empty]. intros i result Hres. rd_step. rd_step.
    destruct (g_memz E _ _); [now apply safe_ret|]. rd_as all.
    destruct all; [now apply safe_append_ok|now apply safe_ret].
  Qed.

  Lemma g_without_safe s vals : safe P W n (g_without slack E s vals) (okS n).
  Proof.
    unfold g_without. sbind. eapply safe_bind.
    - apply (safe_for_each P W n _ _ (fun st : list Z * slice => okS n (snd st))); [|assumption].
      intros i [keys u] Hst. cbn in Hst. rd_step. rd_step.
      destruct (g_memz E _ _); [now apply safe_ret|]. destruct (g_memz E _ keys); [now apply safe_ret|].
      sbind. now apply safe_ret.
    - intros st Hst. now apply safe_ret.
  Qed.

  Lemma g_difference_safe s1 s2 : safe P W n (g_difference slack E s1 s2) (okS n).
  Proof.
    unfold g_difference. eapply safe_bind.
    - apply (safe_for_each P W n _ _ (fun st : list Z * slice => okS n (snd st))); [|apply okS_empty].
      intros i [keys u] Hst. cbn in Hst. rd_step. rd_step.
      destruct (g_memz E _ _); [now apply safe_ret|]. destruct (g_memz E _ keys); [now apply safe_ret|].
      sbind. now apply safe_ret.
    - intros st Hst. now apply safe_ret.
  Qed.

  Lemma g_difference_by_safe fn s1 s2 : safe P W n (g_difference_by slack E fn s1 s2) (okS n).
  Proof.
    unfold g_difference_by. eapply safe_bind.
    - apply (safe_for_each P W n _ _ (fun st : list Z * slice => okS n (snd st))); [|apply okS_empty].
      intros i [keys u] Hst. cbn in Hst. rd_step. rd_step.
      destruct (existsb _ _); [now apply safe_ret|]. destruct (g_memz E _ keys); [now apply safe_ret|].
      sbind. now apply safe_ret.
    - intros st Hst. now apply safe_ret.
  Qed.
End FreshF.

(* ---------- one call, whichever helper it is ---------- *)

Lemma run_fcall_fresh_safe slack E P W n c :
  fkind_of c = KFresh -> safe P W n (run_fcall slack E c) (Forall (fresh_ref n)).
Proof.
  intros Hk.
  destruct c; cbn [fkind_of] in Hk; cbn [run_fcall];
    first
      [ now apply run_call_fresh_safe
      | (apply safe_scalar;
         first [ apply g_sum_ro | apply g_sum_by_ro | apply g_mean_ro | apply first_index_ro
               | apply g_find_ext_ro | apply g_min_max_ro ])
      | (apply safe_scalar_b; apply scan_bool_ro)
      | (eapply (safe_one P W n rs _ (okS n));
         [ first [ apply g_unique_safe | apply g_unique_by_safe | apply g_duplicate_safe | apply g_union_safe
                 | apply g_intersection_with_safe | apply g_without_safe | apply g_difference_safe
                 | apply g_difference_by_safe ]
         | intros a Ha; exact Ha ])
      | (eapply (safe_one P W n RM _ (fun id => n <= id));
         [ apply g_duplicate_with_index_safe | intros a Ha; exact Ha ]) ].
Qed.

Lemma run_fcall_view_pure slack E c s :
  fkind_of c = KViewS s -> pure_on (run_fcall slack E c) (Forall (slice_ref (fun r => within s r \/ r = empty_slice))).
Proof. intros Hv. destruct c; cbn [fkind_of] in Hv; try discriminate. cbn [run_fcall]. now apply run_call_view_pure. Qed.

Lemma run_fcall_view_maps_pure slack E c Wm :
  fkind_of c = KViewM Wm -> pure_on (run_fcall slack E c) (Forall (map_ref Wm)).
Proof. intros Hv. destruct c; cbn [fkind_of] in Hv; try discriminate. cbn [run_fcall]. now apply run_call_view_maps_pure. Qed.

Lemma run_fcall_in_place_safe slack E W n c s :
  fkind_of c = KInPlaceS s -> safe (win s) W n (run_fcall slack E c) (Forall (slice_ref (prefix_of n s))).
Proof. intros Hv. destruct c; cbn [fkind_of] in Hv; try discriminate. cbn [run_fcall]. now apply run_call_in_place_safe. Qed.

Lemma run_fcall_in_place_maps_safe slack E P n c Wm :
  fkind_of c = KInPlaceM Wm -> safe P Wm n (run_fcall slack E c) (Forall (map_ref Wm)).
Proof. intros Hv. destruct c; cbn [fkind_of] in Hv; try discriminate. cbn [run_fcall]. now apply run_call_in_place_maps_safe. Qed.

(* ---------- the statements of C16_PropsF ---------- *)

Lemma c16f_frame slack E c m o m' :
  f_not_in_place c ->
  run_fcall slack E c m = (o, m') ->
  (exists new_objects, m' = m ++ new_objects) /\
  (forall rs, o = Some rs -> fkind_of c = KFresh -> Forall (fresh_ref (length m)) rs).
Proof.
  intros Hnip Hrun. unfold f_not_in_place in Hnip.
  destruct (fkind_of c) as [| | |s|Wm] eqn:Hk; try contradiction.
  - destruct (run_fcall_fresh_safe slack E noP noW (length m) c Hk m o m' (le_n _) Hrun) as [S F].
    split; [now apply same_outside_frame|]. intros rs Eo _. now apply F.
  - destruct (run_fcall_view_pure slack E c s Hk m o m' Hrun) as [-> _].
    split; [apply frame_refl|]. discriminate.
  - destruct (run_fcall_view_maps_pure slack E c Wm Hk m o m' Hrun) as [-> _].
    split; [apply frame_refl|]. discriminate.
Qed.

Lemma c16f_frame_arrays_and_reads slack E c m o m' :
  f_not_in_place c ->
  run_fcall slack E c m = (o, m') ->
  (forall id, id < length m -> arr_of m' id = arr_of m id) /\
  (forall s, s_arr s < length m -> read_all m' s = read_all m s) /\
  (forall id, id < length m -> map_of m' id = map_of m id).
Proof.
  intros Hnip Hrun. destruct (c16f_frame slack E c m o m' Hnip Hrun) as [Hf _]. split; [|split].
  - intros id Hid. now apply frame_arr_of.
  - intros s Hs. now apply frame_read_all.
  - intros id Hid. unfold map_of. f_equal. now apply frame_arr_of.
Qed.

Lemma c16f_in_place_only_that_arg slack E c s m o m' :
  fkind_of c = KInPlaceS s ->
  run_fcall slack E c m = (o, m') ->
  length m <= length m' /\
  (forall id, id < length m ->
     length (arr_of m' id) = length (arr_of m id) /\
     forall i, ~ (id = s_arr s /\ s_off s <= i < s_off s + s_len s) -> cell m' id i = cell m id i) /\
  (forall rs, o = Some rs ->
     Forall (slice_ref (fun r => (s_arr r = s_arr s /\ s_off r = s_off s /\ s_len r <= s_len s) \/ length m <= s_arr r)) rs).
Proof.
  intros Hip Hrun.
  destruct (run_fcall_in_place_safe slack E noW (length m) c s Hip m o m' (le_n _) Hrun) as [(_ & Hlen & H) F].
  split; [exact Hlen|]. split; [|exact F]. intros id Hid. apply H; [exact Hid|unfold noW; tauto].
Qed.

Lemma c16f_in_place_other_arrays_untouched slack E c s m o m' id :
  fkind_of c = KInPlaceS s ->
  run_fcall slack E c m = (o, m') ->
  id < length m -> id <> s_arr s -> arr_of m' id = arr_of m id.
Proof.
  intros Hip Hrun Hid Hne.
  destruct (run_fcall_in_place_safe slack E noW (length m) c s Hip m o m' (le_n _) Hrun) as [S _].
  apply (same_outside_other_array (win s) noW m m' id S Hid); [unfold noW; tauto|].
  intros i. unfold win. tauto.
Qed.

Lemma c16f_in_place_maps_only_those slack E c Wm m o m' :
  fkind_of c = KInPlaceM Wm ->
  run_fcall slack E c m = (o, m') ->
  length m <= length m' /\
  (forall id, id < length m -> ~ Wm id -> arr_of m' id = arr_of m id) /\
  (forall rs, o = Some rs -> Forall (map_ref Wm) rs).
Proof.
  intros Hk Hrun.
  destruct (run_fcall_in_place_maps_safe slack E noP (length m) c Wm Hk m o m' (le_n _) Hrun) as [S F].
  split; [now destruct S as (_ & ? & _)|]. split; [|exact F].
  intros id Hid Hnot. apply (same_outside_other_array noP _ m m' id S Hid Hnot). intros i. unfold noP. tauto.
Qed.

Definition f_target_older_than (n0 : nat) (c : fcall) : Prop :=
  match fkind_of c with
  | KInPlaceS s => s_arr s < n0
  | KInPlaceM Wm => forall id, Wm id -> id < n0
  | _ => True
  end.

Lemma c16f_earlier_results_survive slack E c1 c2 m0 rs1 m1 o2 m2 r :
  run_fcall slack E c1 m0 = (Some rs1, m1) ->
  run_fcall slack E c2 m1 = (o2, m2) ->
  fkind_of c1 = KFresh -> In r rs1 -> names_existing m1 r ->
  f_target_older_than (length m0) c2 ->
  read_ref m2 r = read_ref m1 r.
Proof.
  intros H1 H2 Hf Hin Hex Ht.
  destruct (run_fcall_fresh_safe slack E noP noW (length m0) c1 Hf m0 (Some rs1) m1 (le_n _) H1) as [_ F].
  specialize (F rs1 eq_refl). rewrite Forall_forall in F. specialize (F r Hin).
  assert (Hobj : forall id, length m0 <= id -> id < length m1 -> arr_of m2 id = arr_of m1 id).
  { intros id Hge Hlt. unfold f_target_older_than in Ht.
    destruct (fkind_of c2) as [|s|Wm|s|Wm] eqn:Hk2.
    - destruct (c16f_frame slack E c2 m1 o2 m2 ltac:(unfold f_not_in_place; now rewrite Hk2) H2) as [Hfr _]. now apply frame_arr_of.
    - apply (c16f_in_place_other_arrays_untouched slack E c2 s m1 o2 m2 id Hk2 H2 Hlt). lia.
    - destruct (c16f_in_place_maps_only_those slack E c2 Wm m1 o2 m2 Hk2 H2) as (_ & H & _).
      apply H; [exact Hlt|]. intros HW. specialize (Ht id HW). lia.
    - destruct (c16f_frame slack E c2 m1 o2 m2 ltac:(unfold f_not_in_place; now rewrite Hk2) H2) as [Hfr _]. now apply frame_arr_of.
    - destruct (c16f_frame slack E c2 m1 o2 m2 ltac:(unfold f_not_in_place; now rewrite Hk2) H2) as [Hfr _]. now apply frame_arr_of. }
  apply read_ref_same_object. destruct r as [pre s|id|v]; cbn in *; [| |exact I].
  - destruct Hex as [Hex|Hl]; [|now right]. destruct F as [Hfresh|[Hl _]]; [|now right]. left. now apply Hobj.
  - now apply Hobj.
Qed.

Lemma c16f_arguments_survive slack E c m o m' s :
  f_not_in_place c ->
  run_fcall slack E c m = (o, m') ->
  s_arr s < length m ->
  arr_of m' (s_arr s) = arr_of m (s_arr s) /\ read_all m' s = read_all m s.
Proof.
  intros Hnip Hrun Hs.
  destruct (c16f_frame_arrays_and_reads slack E c m o m' Hnip Hrun) as (Ha & Hr & _). auto.
Qed.

(* ---------- conservativity: at Go int the generic transcription IS the one of C16_Model.v ---------- *)

Lemma c16f_conservative slack c : run_fcall slack z_ops c = run_call slack (old_of c).
Proof.
  destruct c; try reflexivity.
  (* Mean: `match (if len = 0 then None else Some q) with ...` against `if len = 0 then fail else ret q` *)
  cbn [run_fcall old_of run_call]. unfold g_mean, mean_go. cbn [e_mean e_add e_zero z_ops].
  destruct (s_len s =? 0); reflexivity.
Qed.

Lemma old_of_kind c : kind_of (old_of c) = fkind_of c.
Proof. destruct c; reflexivity. Qed.

(* ---------- why the seeded change C16-9 is invisible at int: when == is reflexive, the in-place Reject of
   "the values that are not equal to themselves" rejects nothing, writes nothing and returns its argument ---------- *)

Lemma reject_nothing slack fn : (forall v, fn v = false) ->
  forall fuel sl i m, s_len sl <= fuel + i -> reject_loop slack fuel fn sl i m = (Some sl, m).
Proof.
  intros Hfn. induction fuel as [|f IH]; intros sl i m Hle; cbn [reject_loop].
  - destruct (Nat.ltb_spec i (s_len sl)); [lia|reflexivity].
  - destruct (Nat.ltb_spec i (s_len sl)) as [Hi|Hi]; [|reflexivity].
    unfold bind at 1. unfold rd. destruct (Nat.ltb_spec i (s_len sl)); [|lia].
    rewrite Hfn. apply IH. lia.
Qed.

Lemma find_ext_rejecting_invisible slack E less s m :
  (forall v, e_eq E v v = true) ->
  find_ext_rejecting slack E less s m = g_find_ext E less s m.
Proof.
  intros Hrefl. unfold find_ext_rejecting, reject_go, bind at 1.
  rewrite (reject_nothing slack _ (fun v => f_equal negb (Hrefl v))) by lia. reflexivity.
Qed.
