(* C16_Props.v — property C16 over the array memory of SliceMem.v and the
   helper transcriptions of C16_Model.v.

   A call is a value [c : hcall] (18 helpers, see C16_Model); [run_call slack c]
   runs it in a memory [m] (list of arrays) and yields result slices and the
   memory afterwards, or [None] when Go would panic.  [slack] — how much spare
   capacity a reallocating append leaves — is universally quantified: nothing
   depends on the runtime's growth policy.  No validity assumption is made on
   the argument descriptors either: the statements hold for every descriptor,
   including slices with spare capacity, offsets, overlapping arguments and
   the same slice passed twice.

   Breadth (stated honestly): these theorems cover the helpers that are
   re-expressed over the memory — Merge (repaired), Filter, Map, Unique,
   UniqueBy, Partition, Intersection, Without, Difference, DropWhile,
   DropRightWhile, ToSlice, Drop, Chunk, Reject, Reverse, heap.FromSlice,
   heap.Sort; Omit, OmitBy, PartitionMap and three representative map builders
   over the map memory.  The other exported helpers are covered by the sentinel
   harness only (harness_only in the evidence). *)

From Gogu Require Import Base SliceMem C14_Model C14_Proofs C16_Model C16_Proofs.
Local Open Scope nat_scope.

(* ---- frame: a helper that is not in-place changes no array that existed
   before the call — the old memory is a prefix of the new one.  This is both
   clauses of the property at once: the arguments (complete backing arrays,
   including the capacity region beyond len) are unchanged, and so is every
   earlier result, since it lives in an array that already exists.  Its own
   results live in arrays allocated by the call (or are empty without
   capacity), except for the views. ---- *)
Theorem C16_frame : forall slack c m rs m',
  in_place_arg c = None ->
  run_call slack c m = Some (rs, m') ->
  (exists new_arrays, m' = m ++ new_arrays) /\
  (view_arg c = None ->
   Forall (fun r => length m <= s_arr r \/ (s_len r = 0 /\ s_cap r = 0)) rs).
Proof.
  intros slack c m rs m' Hip Hrun.
  destruct (view_arg c) as [s|] eqn:Hv.
  - destruct (run_call_view_pure slack c s Hv m rs m' Hrun) as [-> _].
    split; [exists []; now rewrite app_nil_r|discriminate].
  - destruct (run_call_fresh_safe slack (fun _ _ => False) (length m) c Hip Hv m rs m' (le_n _) Hrun) as [S F].
    split; [now apply same_outside_frame|]. intros _. exact F.
Qed.
Print Assumptions C16_frame.

(* the same, array by array and slice by slice *)
Theorem C16_frame_arrays_and_reads : forall slack c m rs m',
  in_place_arg c = None ->
  run_call slack c m = Some (rs, m') ->
  (forall id, id < length m -> arr_of m' id = arr_of m id) /\
  (forall s, s_arr s < length m -> read_all m' s = read_all m s).
Proof.
  intros slack c m rs m' Hip Hrun.
  destruct (C16_frame slack c m rs m' Hip Hrun) as [Hf _]. split.
  - intros id Hid. now apply frame_arr_of.
  - intros s Hs. now apply frame_read_all.
Qed.
Print Assumptions C16_frame_arrays_and_reads.

(* ---- views: Drop and Chunk do not write at all, and what they return shows a
   part of what the argument shows (or is the empty literal) ---- *)
Theorem C16_views_never_write : forall slack c s m rs m',
  view_arg c = Some s ->
  run_call slack c m = Some (rs, m') ->
  m' = m /\
  Forall (fun r => (s_arr r = s_arr s /\ s_off s <= s_off r /\ s_off r + s_len r <= s_off s + s_len s)
                   \/ r = empty_slice) rs.
Proof. intros slack c s m rs m' Hv Hrun. exact (run_call_view_pure slack c s Hv m rs m' Hrun). Qed.
Print Assumptions C16_views_never_write.

(* ---- in place: Reject, Reverse, heap.FromSlice, heap.Sort change nothing but
   cells inside the window [off, off+len) of the array of THAT argument: no new
   length for any array, no other array, not the cells before the window, not
   the capacity region behind it.  What they return is a prefix window of the
   argument or (Sort's copy) lives in a new array. ---- *)
Theorem C16_in_place_only_that_arg : forall slack c s m rs m',
  in_place_arg c = Some s ->
  run_call slack c m = Some (rs, m') ->
  length m <= length m' /\
  (forall id, id < length m ->
     length (arr_of m' id) = length (arr_of m id) /\
     forall i, ~ (id = s_arr s /\ s_off s <= i < s_off s + s_len s) -> cell m' id i = cell m id i) /\
  Forall (fun r => (s_arr r = s_arr s /\ s_off r = s_off s /\ s_len r <= s_len s) \/ length m <= s_arr r) rs.
Proof.
  intros slack c s m rs m' Hip Hrun.
  destruct (run_call_in_place_safe slack (length m) c s Hip m rs m' (le_n _) Hrun) as [(_ & Hlen & H) F].
  split; [exact Hlen|]. split; [exact H|exact F].
Qed.
Print Assumptions C16_in_place_only_that_arg.

Theorem C16_in_place_other_arrays_untouched : forall slack c s m rs m' id,
  in_place_arg c = Some s ->
  run_call slack c m = Some (rs, m') ->
  id < length m -> id <> s_arr s -> arr_of m' id = arr_of m id.
Proof.
  intros slack c s m rs m' id Hip Hrun Hid Hne.
  destruct (run_call_in_place_safe slack (length m) c s Hip m rs m' (le_n _) Hrun) as [S _].
  now apply (same_outside_win_other_array s).
Qed.
Print Assumptions C16_in_place_other_arrays_untouched.

(* ---- a result, once returned, is not altered by a later call on the same
   arguments.  c1 runs in m0, c2 afterwards; r is a result of c1 that is not a
   view.  (a) if c2 is not in-place, r reads the same — as does every slice
   that existed, views included; (b) if c2 is in-place on an argument s that
   existed before c1, r still reads the same: it lives in a newer array. ---- *)
(* side condition: r names an array that exists when c1 returns (or is empty) —
   true of every slice a helper returns; without it a made-up descriptor could
   name an array that c2 is about to allocate *)
Theorem C16_earlier_results_survive : forall slack c1 c2 m0 rs1 m1 rs2 m2 r,
  run_call slack c1 m0 = Some (rs1, m1) ->
  run_call slack c2 m1 = Some (rs2, m2) ->
  in_place_arg c1 = None -> view_arg c1 = None -> In r rs1 ->
  s_arr r < length m1 \/ s_len r = 0 ->
  (in_place_arg c2 = None \/ exists s, in_place_arg c2 = Some s /\ s_arr s < length m0) ->
  read_all m2 r = read_all m1 r.
Proof.
  intros slack c1 c2 m0 rs1 m1 rs2 m2 r H1 H2 Hip1 Hv1 Hin Hex Hc2.
  destruct Hex as [Hex|Hl]; [|now rewrite !read_all_empty].
  destruct (C16_frame slack c1 m0 rs1 m1 Hip1 H1) as [_ HF].
  specialize (HF Hv1). rewrite Forall_forall in HF. specialize (HF r Hin).
  destruct HF as [Hfresh|[Hl _]]; [|now rewrite !read_all_empty].
  apply read_all_same_array.
  destruct Hc2 as [Hip2|(s & Hip2 & Hs)].
  - destruct (C16_frame slack c2 _ rs2 m2 Hip2 H2) as [Hf _]. now apply frame_arr_of.
  - apply (C16_in_place_other_arrays_untouched slack c2 s _ rs2 m2); auto. lia.
Qed.
Print Assumptions C16_earlier_results_survive.

(* arguments (and views of them) after a later non-in-place call: the complete
   backing array is the same, so is everything any slice into it shows *)
Theorem C16_arguments_survive : forall slack c m rs m' s,
  in_place_arg c = None ->
  run_call slack c m = Some (rs, m') ->
  s_arr s < length m ->
  arr_of m' (s_arr s) = arr_of m (s_arr s) /\ read_all m' s = read_all m s.
Proof.
  intros slack c m rs m' s Hip Hrun Hs.
  destruct (C16_frame_arrays_and_reads slack c m rs m' Hip Hrun) as [Ha Hr]. auto.
Qed.
Print Assumptions C16_arguments_survive.

(* ---- the code as found (DESIGN §7 #30): Merge appended onto its first
   argument.  s = array0[0:2] with capacity 4; Merge(s,[1]) returns [5,6,1];
   after Merge(s,[2]) the SAME result reads [5,6,2], and the spare capacity of
   s has been overwritten. ---- *)
Theorem C16_merge_asfound_refuted :
  exists (m0 : mem) (s p1 p2 : slice) r1 m1 r2 m2,
    merge_asfound go_slack s [p1] m0 = Some (r1, m1) /\
    merge_asfound go_slack s [p2] m1 = Some (r2, m2) /\
    read_all m1 r1 = [5; 6; 1]%Z /\ read_all m2 r1 = [5; 6; 2]%Z /\
    arr_of m1 0 <> arr_of m0 0.
Proof.
  exists [[5; 6; -1; -2]%Z; [1%Z]; [2%Z]], (mkSlice 0 0 2 4), (mkSlice 1 0 1 1), (mkSlice 2 0 1 1).
  vm_compute. do 4 eexists. repeat split; try reflexivity. discriminate.
Qed.
Print Assumptions C16_merge_asfound_refuted.

(* the repaired Merge on the same input: both results stand, s keeps its spare capacity *)
Example C16_merge_repaired_example :
  exists r1 m1 r2 m2,
    run_call go_slack (HMerge (mkSlice 0 0 2 4) [mkSlice 1 0 1 1]) [[5; 6; -1; -2]%Z; [1%Z]; [2%Z]] = Some ([r1], m1) /\
    run_call go_slack (HMerge (mkSlice 0 0 2 4) [mkSlice 2 0 1 1]) m1 = Some ([r2], m2) /\
    read_all m1 r1 = [5; 6; 1]%Z /\ read_all m2 r1 = [5; 6; 1]%Z /\ read_all m2 r2 = [5; 6; 2]%Z /\
    arr_of m2 0 = [5; 6; -1; -2]%Z.
Proof. vm_compute. do 4 eexists. repeat split; reflexivity. Qed.

(* the theorems discriminate: a Filter that builds on slice[:0] (DESIGN §10
   mutant) overwrites its argument, so it does not satisfy [C16_frame] *)
Theorem C16_filter_on_arg_refuted :
  exists (m : mem) (s : slice) r m',
    filter_on_arg go_slack (fun x => Z.even x) s m = Some (r, m') /\ arr_of m' 0 <> arr_of m 0.
Proof.
  exists [[1; 2; 3; 4]%Z], (mkSlice 0 0 4 4). vm_compute. do 2 eexists. split; [reflexivity|discriminate].
Qed.
Print Assumptions C16_filter_on_arg_refuted.

(* non-vacuity: the calls do return on ordinary arguments (an in-place one, a
   view, and a builder, on a slice with offset 1 and spare capacity 2) *)
Example C16_calls_return :
  let m := [[-1; 3; 1; 2; -2; -3]%Z] in let s := mkSlice 0 1 3 5 in
  (exists rs m', run_call go_slack (HSort Z.ltb s) m = Some (rs, m') /\ arr_of m' 0 = [-1; 3; 2; 1; -2; -3]%Z) /\
  (exists rs, run_call go_slack (HChunk s 2) m = Some (rs, m) /\ map (read_all m) rs = [[3; 1]; [2]]%Z) /\
  (exists r m', run_call go_slack (HReject Z.even s) m = Some ([r], m') /\ read_all m' r = [3; 1]%Z
                /\ arr_of m' 0 = [-1; 3; 1; 2; -2; -3]%Z) /\
  (exists r m', run_call go_slack (HUnique (mkSlice 0 0 6 6)) m = Some ([r], m') /\ read_all m' r = [-1; 3; 1; 2; -2; -3]%Z).
Proof. vm_compute. repeat split; repeat eexists. Qed.

(* ------------------------------------------------------------------ *)
(* map memory                                                           *)

(* Omit / OmitBy: only the argument map changes — to exactly the map C14
   describes — and it is the argument map that is returned *)
Theorem C16_omit_only_that_map : forall id ks mm, id < length mm ->
  let '(r, mm') := omit_mm id ks mm in
  r = id /\ length mm' = length mm /\
  (forall id', id' <> id -> mm_get mm' id' = mm_get mm id') /\
  mm_get mm' id = omit (mm_get mm id) ks.
Proof.
  intros id ks mm Hid. unfold omit_mm.
  destruct (omit_mm_loop (key_in ks) id (mm_get mm id) mm Hid) as (L & O & S).
  split; [reflexivity|]. split; [exact L|]. split; [exact O|exact S].
Qed.
Print Assumptions C16_omit_only_that_map.

Theorem C16_omit_by_only_that_map : forall id fn mm, id < length mm ->
  let '(r, mm') := omit_by_mm id fn mm in
  r = id /\ length mm' = length mm /\
  (forall id', id' <> id -> mm_get mm' id' = mm_get mm id') /\
  mm_get mm' id = omit_by fn (mm_get mm id).
Proof.
  intros id fn mm Hid. unfold omit_by_mm.
  destruct (omit_mm_loop (kv_ok fn) id (mm_get mm id) mm Hid) as (L & O & S).
  split; [reflexivity|]. split; [exact L|]. split; [exact O|exact S].
Qed.
Print Assumptions C16_omit_by_only_that_map.

(* PartitionMap assigns m[k] = v with the entry it has just read: the map
   memory is unchanged, and the non-empty maps are routed by reference *)
Theorem C16_partition_map_writes_nothing : forall fn ids mm,
  partition_map_mm fn ids mm =
  ((filter (fun id => fn (mm_get mm id)) (nonempty_ids mm ids),
    filter (fun id => negb (fn (mm_get mm id))) (nonempty_ids mm ids)), mm).
Proof. intros fn ids mm. unfold partition_map_mm. now rewrite partition_map_mm_loop. Qed.
Print Assumptions C16_partition_map_writes_nothing.

(* the read-only builders (Pick, FilterMap, MapValues as representatives)
   allocate their result and leave every existing map alone *)
Theorem C16_map_builders_frame : forall id ks pfn vfn mm,
  (exists new, snd (pick_mm id ks mm) = mm ++ new) /\
  snd (filter_map_mm id pfn mm) = mm ++ [filter_map pfn (mm_get mm id)] /\
  snd (map_values_mm id vfn mm) = mm ++ [map_values vfn (mm_get mm id)].
Proof.
  intros id ks pfn vfn mm. split; [|split; reflexivity].
  unfold pick_mm. destruct (pick (mm_get mm id) ks); cbn; eauto. exists []. now rewrite app_nil_r.
Qed.
Print Assumptions C16_map_builders_frame.
