(* C16_Props.v — property C16 over the object memory of SliceMem.v (arrays and
   maps) and the helper transcriptions of C16_Model.v.

   A call is a value [c : hcall]: one constructor per exported helper of
   slice.go, filter.go, find.go, math.go, range.go, shuffle.go and map.go that
   takes a slice or a map, plus heap.FromSlice and heap.Sort (76 constructors,
   listed in notes/C16.md).  [run_call slack c] runs it in a memory [m] (a list
   of objects: arrays and maps) and yields an outcome (o, m'): o = Some rs — the
   references it returns (a Go error return is such an answer) — or o = None when
   Go would panic, and in BOTH cases the memory m' afterwards.  Every theorem
   below that speaks about the arguments quantifies over o: the arguments are
   as stated whatever the call returns, error and panic included.  What Go leaves open is
   universally quantified: [slack] (the spare capacity a reallocating append
   leaves), the random numbers of Shuffle (an argument of HShuffle), the
   iteration order of maps (the stored order of the entries of the memory m).
   No validity assumption is made on the descriptors: the statements hold for
   every slice descriptor and map id, including slices with spare capacity,
   offsets, overlapping arguments and the same argument passed twice.
   Arguments of type [][]T / []map[K]V / []any (at every nesting depth) are
   slices in the memory as well (cells = codes of the elements, decoded by a
   function [tbl] / [atbl] that is universally quantified too), so "unchanged"
   covers the order of their elements, their spare capacity and every cell of
   a nested []any.  Callbacks are Gallina functions, i.e. pure.

   The classes of the property's statement are a function [kind_of] of the call:
     KInPlaceS s   Reject, Reverse, heap.FromSlice, heap.Sort          (s: the slice argument)
     KInPlaceM W   Omit, OmitBy (W = that map); PartitionMap (W = its argument maps: it stores the
                   entry it has just read — theorem 4c shows that this changes nothing)
     KViewS s      Drop, Chunk                                          (re-slice the argument)
     KViewM W      FilterMapCollection, Filter2DMapCollection           (return the argument maps)
     KFresh        all the others (65 constructors)
   [not_in_place c] = the kind is not one of the first two.

   Strings are immutable in Go (language guarantee): the string helpers cannot
   disturb an argument or an earlier result and are not modelled. *)

From Gogu Require Import Base C14_Model SliceMem C16_Model C16_Proofs.
Local Open Scope nat_scope.

(* ---- 1. frame: a helper that is not in-place changes no object that existed
   before the call — the old memory is a prefix of the new one.  This is both
   clauses of the property at once: the arguments (complete backing arrays,
   including the capacity region beyond len; complete maps; the cells of a
   [][]T or []map argument) are unchanged, and so is every earlier result,
   since it lives in an object that already exists.  What it returns lives in
   objects allocated by the call (or is empty without capacity, or a plain
   value), except for the views. ---- *)
Theorem C16_frame : forall slack c m o m',
  not_in_place c ->
  run_call slack c m = (o, m') ->
  (exists new_objects, m' = m ++ new_objects) /\
  (forall rs, o = Some rs -> kind_of c = KFresh -> Forall (fresh_ref (length m)) rs).
Proof. exact c16_frame. Qed.
Print Assumptions C16_frame.

(* the same, object by object and slice by slice *)
Theorem C16_frame_arrays_and_reads : forall slack c m o m',
  not_in_place c ->
  run_call slack c m = (o, m') ->
  (forall id, id < length m -> arr_of m' id = arr_of m id) /\
  (forall s, s_arr s < length m -> read_all m' s = read_all m s) /\
  (forall id, id < length m -> map_of m' id = map_of m id).
Proof. exact c16_frame_arrays_and_reads. Qed.
Print Assumptions C16_frame_arrays_and_reads.

(* ---- 2. views: Drop and Chunk do not write at all, and what they return shows
   a part of what the argument shows (or is the empty literal);
   FilterMapCollection / Filter2DMapCollection do not write and return (some of)
   the argument maps ---- *)
Theorem C16_views_never_write : forall slack c s m o m',
  kind_of c = KViewS s ->
  run_call slack c m = (o, m') ->
  m' = m /\
  (forall rs, o = Some rs ->
     Forall (slice_ref (fun r => (s_arr r = s_arr s /\ s_off s <= s_off r /\ s_off r + s_len r <= s_off s + s_len s)
                                 \/ r = empty_slice)) rs).
Proof. intros slack c s m o m' Hv Hrun. exact (run_call_view_pure slack c s Hv m o m' Hrun). Qed.
Print Assumptions C16_views_never_write.

Theorem C16_map_views_never_write : forall slack c W m o m',
  kind_of c = KViewM W ->
  run_call slack c m = (o, m') ->
  m' = m /\ (forall rs, o = Some rs -> Forall (map_ref W) rs).
Proof. intros slack c W m o m' Hv Hrun. exact (run_call_view_maps_pure slack c W Hv m o m' Hrun). Qed.
Print Assumptions C16_map_views_never_write.

(* ---- 3. in place on a slice: Reject, Reverse, heap.FromSlice, heap.Sort change
   nothing but cells inside the window [off, off+len) of the array of THAT
   argument: no new length for any object, no other object, not the cells
   before the window, not the capacity region behind it.  What they return is a
   prefix window of the argument or (Sort's copy) lives in a new array. ---- *)
Theorem C16_in_place_only_that_arg : forall slack c s m o m',
  kind_of c = KInPlaceS s ->
  run_call slack c m = (o, m') ->
  length m <= length m' /\
  (forall id, id < length m ->
     length (arr_of m' id) = length (arr_of m id) /\
     forall i, ~ (id = s_arr s /\ s_off s <= i < s_off s + s_len s) -> cell m' id i = cell m id i) /\
  (forall rs, o = Some rs ->
     Forall (slice_ref (fun r => (s_arr r = s_arr s /\ s_off r = s_off s /\ s_len r <= s_len s) \/ length m <= s_arr r)) rs).
Proof. exact c16_in_place_only_that_arg. Qed.
Print Assumptions C16_in_place_only_that_arg.

Theorem C16_in_place_other_arrays_untouched : forall slack c s m o m' id,
  kind_of c = KInPlaceS s ->
  run_call slack c m = (o, m') ->
  id < length m -> id <> s_arr s -> arr_of m' id = arr_of m id.
Proof. exact c16_in_place_other_arrays_untouched. Qed.
Print Assumptions C16_in_place_other_arrays_untouched.

(* ---- 4. in place on a map: Omit, OmitBy (and PartitionMap) leave every object
   other than their argument maps alone — in particular the key slice of Omit
   and the []map argument of PartitionMap — and return those maps ---- *)
Theorem C16_in_place_maps_only_those : forall slack c W m o m',
  kind_of c = KInPlaceM W ->
  run_call slack c m = (o, m') ->
  length m <= length m' /\
  (forall id, id < length m -> ~ W id -> arr_of m' id = arr_of m id) /\
  (forall rs, o = Some rs -> Forall (map_ref W) rs).
Proof. exact c16_in_place_maps_only_those. Qed.
Print Assumptions C16_in_place_maps_only_those.

(* 4b. Omit / OmitBy return the argument map, only ever remove entries from it,
   and change no other object at all *)
Theorem C16_omit_only_removes : forall slack coll keys m o m',
  coll < length m ->
  run_call slack (HOmit coll keys) m = (o, m') ->
  length m' = length m /\ incl (map_of m' coll) (map_of m coll) /\
  (forall id, id <> coll -> arr_of m' id = arr_of m id) /\
  (forall rs, o = Some rs -> rs = [RM coll]).
Proof. exact c16_omit_only_removes. Qed.
Print Assumptions C16_omit_only_removes.

Theorem C16_omit_by_only_removes : forall slack fn coll m o m',
  coll < length m ->
  run_call slack (HOmitBy fn coll) m = (o, m') ->
  length m' = length m /\ incl (map_of m' coll) (map_of m coll) /\
  (forall id, id <> coll -> arr_of m' id = arr_of m id) /\
  (forall rs, o = Some rs -> rs = [RM coll]).
Proof. exact c16_omit_by_only_removes. Qed.
Print Assumptions C16_omit_by_only_removes.

(* 4c. PartitionMap assigns m[k] = v with the entry it has just read: when the
   codes of its argument stand for maps the memory is unchanged, and the maps
   are routed by reference *)
Theorem C16_partition_map_writes_nothing : forall slack fn mtbl ms m o m',
  (forall c, is_map m (mtbl c)) ->
  run_call slack (HPartitionMap fn mtbl ms) m = (o, m') ->
  m' = m /\ (forall rs, o = Some rs -> Forall (map_ref (image mtbl)) rs).
Proof. exact c16_partition_map_writes_nothing. Qed.
Print Assumptions C16_partition_map_writes_nothing.

(* ---- 5. a result, once returned, is not altered by a later call on the same
   arguments.  c1 builds its result in fresh storage and runs in m0, c2 (ANY
   helper, returning, failing or panicking) afterwards; if c2 is in-place, its target existed before c1 (it is
   an argument the two calls can share: [target_older_than]).  Then every
   result r of c1 reads the same after c2.  (Views of an argument — results of
   Drop, Chunk, Reject, Reverse, FromSlice, the map collections — follow the
   argument, by 2-4.) ---- *)
(* side condition [names_existing]: r names an object that exists when c1
   returns (or is empty) — true of every reference a helper returns; without it
   a made-up descriptor could name an object that c2 is about to allocate *)
Theorem C16_earlier_results_survive : forall slack c1 c2 m0 rs1 m1 o2 m2 r,
  run_call slack c1 m0 = (Some rs1, m1) ->
  run_call slack c2 m1 = (o2, m2) ->
  kind_of c1 = KFresh -> In r rs1 -> names_existing m1 r ->
  target_older_than (length m0) c2 ->
  read_ref m2 r = read_ref m1 r.
Proof. exact c16_earlier_results_survive. Qed.
Print Assumptions C16_earlier_results_survive.

(* arguments (and views of them) after a later non-in-place call: the complete
   backing array is the same, so is everything any slice into it shows *)
Theorem C16_arguments_survive : forall slack c m o m' s,
  not_in_place c ->
  run_call slack c m = (o, m') ->
  s_arr s < length m ->
  arr_of m' (s_arr s) = arr_of m (s_arr s) /\ read_all m' s = read_all m s.
Proof. exact c16_arguments_survive. Qed.
Print Assumptions C16_arguments_survive.

(* ---- the code as found (DESIGN §7 #30): Merge appended onto its first
   argument.  s = array0[0:2] with capacity 4; Merge(s,[1]) returns [5,6,1];
   after Merge(s,[2]) the SAME result reads [5,6,2], and the spare capacity of
   s has been overwritten.  (About the unrepaired code only; the repair is
   commit 05f8f46 and [merge_go] is the repaired function.) ---- *)
Theorem C16_merge_asfound_refuted :
  exists (m0 : mem) (s p1 p2 : slice) r1 m1 r2 m2,
    merge_asfound go_slack s [p1] m0 = (Some r1, m1) /\
    merge_asfound go_slack s [p2] m1 = (Some r2, m2) /\
    read_all m1 r1 = [5; 6; 1]%Z /\ read_all m2 r1 = [5; 6; 2]%Z /\
    arr_of m1 0 <> arr_of m0 0.
Proof.
  exists [[5; 6; -1; -2]%Z; [1%Z]; [2%Z]], (mkSlice 0 0 2 4), (mkSlice 1 0 1 1), (mkSlice 2 0 1 1).
  vm_compute. do 4 eexists. repeat split; try reflexivity. discriminate.
Qed.
Print Assumptions C16_merge_asfound_refuted.

(* the repaired Merge on the same input: both results stand, s keeps its spare capacity *)
Example C16_merge_repaired_example :
  exists r1 m1 r2 m2,
    (* objects 1, 2: the parameters [1] and [2]; object 3: the two one-element parameter lists, as codes *)
    let tbl := fun c : Z => mkSlice (Z.to_nat c) 0 1 1 in
    run_call go_slack (HMerge (mkSlice 0 0 2 4) tbl (mkSlice 3 0 1 1)) [[5; 6; -1; -2]%Z; [1%Z]; [2%Z]; [1; 2]%Z] = (Some [rs r1], m1) /\
    run_call go_slack (HMerge (mkSlice 0 0 2 4) tbl (mkSlice 3 1 1 1)) m1 = (Some [rs r2], m2) /\
    read_all m1 r1 = [5; 6; 1]%Z /\ read_all m2 r1 = [5; 6; 1]%Z /\ read_all m2 r2 = [5; 6; 2]%Z /\
    arr_of m2 0 = [5; 6; -1; -2]%Z.
Proof. vm_compute. do 4 eexists. repeat split; reflexivity. Qed.

(* the theorems discriminate (1): a Filter that builds on slice[:0] (DESIGN §10
   mutant) overwrites its argument, so it does not satisfy [C16_frame] *)
Theorem C16_filter_on_arg_refuted :
  exists (m : mem) (s : slice) r m',
    filter_on_arg go_slack (fun x => Z.even x) s m = (Some r, m') /\ arr_of m' 0 <> arr_of m 0.
Proof.
  exists [[1; 2; 3; 4]%Z], (mkSlice 0 0 4 4). vm_compute. do 2 eexists. split; [reflexivity|discriminate].
Qed.
Print Assumptions C16_filter_on_arg_refuted.

(* the theorems discriminate (2): the seeded change C16-2 — a Pick that
   swap-removes the keys it finds from its variadic key slice — changes the key
   array (object 1 below: keys = [0; 9] with sentinels around; map 0 = {0: 5}),
   whereas the transcription of the real Pick leaves it alone *)
Theorem C16_pick_swap_remove_refuted :
  exists (m : mem) (keys : slice) r m',
    pick_swap_remove 0 keys m = (Some r, m') /\ arr_of m' 1 <> arr_of m 1 /\
    exists rs m'', run_call go_slack (HPick 0 keys) m = (Some rs, m'') /\ arr_of m'' 1 = arr_of m 1.
Proof.
  exists [[0; 5]%Z; [-1; 0; 9; -2]%Z], (mkSlice 1 1 2 3). vm_compute. do 2 eexists.
  split; [reflexivity|]. split; [discriminate|]. do 2 eexists. split; reflexivity.
Qed.
Print Assumptions C16_pick_swap_remove_refuted.

(* the theorems discriminate (3): after the seeded change C16-3 — an Intersection
   that re-orders its variadic parameter list (object 3: the codes 0 1 2 of the
   slices in objects 0 1 2) — the caller's [][]T is changed; the transcription
   of the real Intersection leaves it alone *)
Theorem C16_intersection_reordering_refuted :
  let tbl := fun c : Z => mkSlice (Z.to_nat c) 0 2 2 in
  exists (m : mem) (params : slice) r m',
    intersection_reordering go_slack tbl params m = (Some r, m') /\ arr_of m' 3 <> arr_of m 3 /\
    exists rs m'', run_call go_slack (HIntersection tbl params) m = (Some rs, m'') /\ arr_of m'' 3 = arr_of m 3
                   /\ map (read_ref m'') rs = [[2]]%Z.
Proof.
  exists [[1; 2]%Z; [2; 3]%Z; [2; 1]%Z; [0; 1; 2]%Z], (mkSlice 3 0 3 3). vm_compute. do 2 eexists.
  split; [reflexivity|]. split; [discriminate|]. do 2 eexists. repeat split; reflexivity.
Qed.
Print Assumptions C16_intersection_reordering_refuted.

(* the theorems discriminate (4): the seeded change C16-6 — a baseFlatten that detaches each []any element
   while it visits it and puts it back afterwards, except on the error path.  Object 1 is the caller's
   []any{s, "x"} (codes 0 = the slice in object 0, 9 = a value of another type, 8 = nil): the FAILING call
   leaves nil where the bad element was; the transcription of the real Flatten fails too and leaves the
   caller's []any alone (an instance of C16_frame with an error outcome) *)
Theorem C16_flatten_detaching_refuted :
  let atbl := fun c : Z => if (c =? 0)%Z then ASlice (mkSlice 0 0 2 2) else ABad in
  exists (m : mem) (l : slice) m',
    base_flatten_detaching go_slack 8 5 atbl empty_slice (AList l) m = (Some None, m') /\ arr_of m' 1 <> arr_of m 1 /\
    exists m'', run_call go_slack (HFlatten 5 atbl (AList l)) m = (Some [rs empty_slice], m'') /\ arr_of m'' 1 = arr_of m 1.
Proof.
  exists [[1; 2]%Z; [0; 9]%Z], (mkSlice 1 0 2 2). vm_compute. eexists.
  split; [reflexivity|]. split; [discriminate|]. eexists. split; reflexivity.
Qed.
Print Assumptions C16_flatten_detaching_refuted.

(* non-vacuity of the failure outcomes: calls that PANIC (o = None) or return an error do occur, and the
   memory afterwards is what the theorems say — Zip on ragged input panics after it has allocated one
   result row (the arguments, objects 0-2, are untouched); SliceToMap on unequal lengths panics; Mean of an
   empty slice panics; Nth out of range and Range with a zero step return errors *)
Example C16_failing_calls :
  let m := [[1; 2]%Z; [3%Z]; [0; 1]%Z] in
  let tbl := fun c : Z => if (c =? 0)%Z then mkSlice 0 0 2 2 else mkSlice 1 0 1 1 in
  (exists m', run_call go_slack (HZip tbl (mkSlice 2 0 2 2)) m = (None, m') /\ firstn 3 m' = m /\ length m' = 4) /\
  run_call go_slack (HSliceToMap (mkSlice 0 0 2 2) (mkSlice 1 0 1 1)) m = (None, m ++ [[]]) /\
  run_call go_slack (HMean (mkSlice 0 0 0 2)) m = (None, m) /\
  run_call go_slack (HNth (mkSlice 0 0 2 2) 5) m = (Some [RV [0; 1]%Z], m) /\
  run_call go_slack (HRange (mkSlice 2 0 3 3)) [[1; 2]%Z; [3%Z]; [0; 0; 5]%Z] = (Some [rs empty_slice], [[1; 2]%Z; [3%Z]; [0; 0; 5]%Z]).
Proof. vm_compute. repeat split. eexists. repeat split. Qed.

(* non-vacuity: the calls do return on ordinary arguments — an in-place one, a
   view, builders, a scalar, map helpers with a key slice inside a backing
   array (object 0: a slice with offset 1 and spare capacity 2; object 1: the
   map {1: 7, 3: 8}) *)
Example C16_calls_return :
  let m := [[-1; 3; 1; 2; -2; -3]%Z; [1; 7; 3; 8]%Z] in let s := mkSlice 0 1 3 5 in
  (exists rs m', run_call go_slack (HSort Z.ltb s) m = (Some rs, m') /\ arr_of m' 0 = [-1; 3; 2; 1; -2; -3]%Z) /\
  (exists rs, run_call go_slack (HChunk s 2) m = (Some rs, m) /\ map (read_ref m) rs = [[3; 1]; [2]]%Z) /\
  (exists r m', run_call go_slack (HReject Z.even s) m = (Some [r], m') /\ read_ref m' r = [3; 1]%Z
                /\ arr_of m' 0 = [-1; 3; 1; 2; -2; -3]%Z) /\
  (exists r m', run_call go_slack (HUnique (mkSlice 0 0 6 6)) m = (Some [r], m') /\ read_ref m' r = [-1; 3; 1; 2; -2; -3]%Z) /\
  (exists rs m', run_call go_slack (HGroupBy (fun v => Z.rem v 2) s) m = (Some rs, m')
                 /\ map (read_ref m') rs = [[1; 3; 1]; [0; 2]]%Z /\ firstn 2 m' = m) /\
  (exists m', run_call go_slack (HSum s) m = (Some [RV [6%Z]], m') /\ m' = m) /\
  (exists r m', run_call go_slack (HPick 1 s) m = (Some [r], m') /\ read_ref m' r = [1; 7; 3; 8]%Z /\ firstn 2 m' = m) /\
  (exists m', run_call go_slack (HOmit 1 s) m = (Some [RM 1], m') /\ m' = [[-1; 3; 1; 2; -2; -3]%Z; []]) /\
  (exists rs m', run_call go_slack (HShuffle [2; 0; 0] s) m = (Some rs, m') /\ map (read_ref m') rs = [[1; 3; 2]]%Z
                 /\ firstn 2 m' = m) /\
  (* a []map argument: the slice s[0:2] = [3; 1] read as codes, every code standing for map 1 *)
  (exists rs m', run_call go_slack (HPartitionMap (fun a => (2 <=? Z.of_nat (length a))%Z) (fun _ => 1) (mkSlice 0 1 2 2)) m = (Some rs, m')
                 /\ rs = [RM 1; RM 1] /\ m' = m /\ is_map m 1).
Proof. vm_compute. repeat split; repeat eexists. Qed.
