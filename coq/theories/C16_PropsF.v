(* C16_PropsF.v — property C16 for element types whose operations are NOT those of Go int
   (float64: NaN != NaN, every comparison with NaN false, +0 == -0, 0/0 = NaN without a panic).

   C16_Props.v states the property about transcriptions in which `==`, `<`, `>`, `+=`, the zero value
   and Mean's division are those of int.  C16_ModelF.v transcribes the 22 helpers whose Go code uses
   such an operation a second time, generic in a record [E : eops] of these operations on the CODES
   held by the memory cells; every other helper enters unchanged ([FOld c]: its tests are callbacks,
   already arbitrary functions in C16_Props.v).  [run_fcall slack E c] is one call, [fkind_of c] its
   class.  NOTHING is assumed about [E]: every theorem below is for every == (reflexive or not,
   symmetric or not), every <, >, +, zero value and division — hence for float64 with NaN, -0, +-Inf
   ([fl_ops], the instance the correspondence check runs against the real functions at []float64),
   for float32, for strings, for int ([z_ops]).  Statements only; the proofs are in C16_ProofsF.v. *)

From Gogu Require Import Base C14_Model SliceMem C16_Model C16_Proofs C16_ModelF C16_ProofsF.
Local Open Scope nat_scope.

(* ---- 0. conservativity: at Go int the generic transcription IS the transcription of C16_Model.v, call by
   call, so C16_Props.v and this file are about the same code ---- *)
Theorem C16F_conservative : forall slack c,
  run_fcall slack z_ops c = run_call slack (old_of c) /\ kind_of (old_of c) = fkind_of c.
Proof. intros slack c. split; [apply c16f_conservative|apply old_of_kind]. Qed.

(* ---- 1. frame (clause "every helper that returns a new slice, map or string leaves all of its arguments
   observably unchanged"): whatever the element type's operations do, a helper that is not in-place
   changes no object that existed before the call, whatever it returns (return, error, panic) ---- *)
Theorem C16F_frame : forall slack E c m o m',
  f_not_in_place c ->
  run_fcall slack E c m = (o, m') ->
  (exists new_objects, m' = m ++ new_objects) /\
  (forall rs, o = Some rs -> fkind_of c = KFresh -> Forall (fresh_ref (length m)) rs).
Proof. exact c16f_frame. Qed.

Theorem C16F_frame_arrays_and_reads : forall slack E c m o m',
  f_not_in_place c ->
  run_fcall slack E c m = (o, m') ->
  (forall id, id < length m -> arr_of m' id = arr_of m id) /\
  (forall s, s_arr s < length m -> read_all m' s = read_all m s) /\
  (forall id, id < length m -> map_of m' id = map_of m id).
Proof. exact c16f_frame_arrays_and_reads. Qed.

Theorem C16F_arguments_survive : forall slack E c m o m' s,
  f_not_in_place c ->
  run_fcall slack E c m = (o, m') ->
  s_arr s < length m ->
  arr_of m' (s_arr s) = arr_of m (s_arr s) /\ read_all m' s = read_all m s.
Proof. exact c16f_arguments_survive. Qed.

(* ---- 2. views ---- *)
Theorem C16F_views_never_write : forall slack E c s m o m',
  fkind_of c = KViewS s ->
  run_fcall slack E c m = (o, m') ->
  m' = m /\
  (forall rs, o = Some rs ->
     Forall (slice_ref (fun r => (s_arr r = s_arr s /\ s_off s <= s_off r /\ s_off r + s_len r <= s_off s + s_len s)
                                 \/ r = empty_slice)) rs).
Proof. intros slack E c s m o m' Hv Hrun. exact (run_fcall_view_pure slack E c s Hv m o m' Hrun). Qed.

Theorem C16F_map_views_never_write : forall slack E c W m o m',
  fkind_of c = KViewM W ->
  run_fcall slack E c m = (o, m') ->
  m' = m /\ (forall rs, o = Some rs -> Forall (map_ref W) rs).
Proof. intros slack E c W m o m' Hv Hrun. exact (run_fcall_view_maps_pure slack E c W Hv m o m' Hrun). Qed.

(* ---- 3./4. "the only helpers that modify an argument are the ones whose contract is in-place, and they
   touch that one argument only": the in-place calls are the [FOld] ones of C16_Props.v — none of the
   helpers that look inside an element is among them ([fkind_of] = KFresh for all 22) ---- *)
Theorem C16F_generic_helpers_are_fresh : forall c,
  match c with FOld _ => True | _ => fkind_of c = KFresh end.
Proof. intros c. destruct c; exact I || reflexivity. Qed.

Theorem C16F_in_place_only_that_arg : forall slack E c s m o m',
  fkind_of c = KInPlaceS s ->
  run_fcall slack E c m = (o, m') ->
  length m <= length m' /\
  (forall id, id < length m ->
     length (arr_of m' id) = length (arr_of m id) /\
     forall i, ~ (id = s_arr s /\ s_off s <= i < s_off s + s_len s) -> cell m' id i = cell m id i) /\
  (forall rs, o = Some rs ->
     Forall (slice_ref (fun r => (s_arr r = s_arr s /\ s_off r = s_off s /\ s_len r <= s_len s) \/ length m <= s_arr r)) rs).
Proof. exact c16f_in_place_only_that_arg. Qed.

Theorem C16F_in_place_other_arrays_untouched : forall slack E c s m o m' id,
  fkind_of c = KInPlaceS s ->
  run_fcall slack E c m = (o, m') ->
  id < length m -> id <> s_arr s -> arr_of m' id = arr_of m id.
Proof. exact c16f_in_place_other_arrays_untouched. Qed.

Theorem C16F_in_place_maps_only_those : forall slack E c W m o m',
  fkind_of c = KInPlaceM W ->
  run_fcall slack E c m = (o, m') ->
  length m <= length m' /\
  (forall id, id < length m -> ~ W id -> arr_of m' id = arr_of m id) /\
  (forall rs, o = Some rs -> Forall (map_ref W) rs).
Proof. exact c16f_in_place_maps_only_those. Qed.

(* ---- 5. "a result it has returned is never altered by a later call to any helper on the same arguments" ---- *)
Theorem C16F_earlier_results_survive : forall slack E c1 c2 m0 rs1 m1 o2 m2 r,
  run_fcall slack E c1 m0 = (Some rs1, m1) ->
  run_fcall slack E c2 m1 = (o2, m2) ->
  fkind_of c1 = KFresh -> In r rs1 -> names_existing m1 r ->
  f_target_older_than (length m0) c2 ->
  read_ref m2 r = read_ref m1 r.
Proof. exact c16f_earlier_results_survive. Qed.

(* ---- the theorems discriminate: the seeded change C16-9.  FindMin / FindMax first "leave out the values that
   are not equal to themselves" through Reject, which works in place ([find_ext_rejecting]).
   (a) for every element type whose == is reflexive (int, string) the change is invisible: same answer, same
       memory, for every slice and memory — which is why no int program could show it;
   (b) at float64 it writes into the caller's slice as soon as a NaN is not the last element:
       s = array0[1:4] = [NaN 1 2] between sentinels becomes [1 2 2], whereas the transcription of the real
       FindMin answers NaN and leaves the array alone (an instance of C16F_frame). ---- *)
Theorem C16F_rejecting_invisible_when_eq_reflexive : forall slack E less s m,
  (forall v, e_eq E v v = true) ->
  find_ext_rejecting slack E less s m = g_find_ext E less s m.
Proof. exact find_ext_rejecting_invisible. Qed.

Theorem C16F_find_min_rejecting_refuted :
  exists (m : mem) (s : slice) m',
    find_ext_rejecting go_slack fl_ops fl_lt s m = (Some 1%Z, m') /\
    arr_of m 0 = [-1000; c_nan; 1; 2; -1004; -1005]%Z /\ arr_of m' 0 = [-1000; 1; 2; 2; -1004; -1005]%Z /\
    run_fcall go_slack fl_ops (FFindMin s) m = (Some [RV [c_nan]], m).
Proof.
  exists [[-1000; c_nan; 1; 2; -1004; -1005]%Z], (mkSlice 0 1 3 5). vm_compute. eexists. repeat split; reflexivity.
Qed.

(* One `Print Assumptions` walks the whole closure of the memory logic (0.45 s each): the 13 theorems above are
   checked for axioms in three groups, each group a tuple of the theorems themselves. *)
Definition C16F_frame_theorems :=
  (C16F_conservative, C16F_frame, C16F_frame_arrays_and_reads, C16F_arguments_survive, C16F_views_never_write,
   C16F_map_views_never_write).
Print Assumptions C16F_frame_theorems.
Definition C16F_in_place_and_results_theorems :=
  (C16F_generic_helpers_are_fresh, C16F_in_place_only_that_arg, C16F_in_place_other_arrays_untouched,
   C16F_in_place_maps_only_those, C16F_earlier_results_survive).
Print Assumptions C16F_in_place_and_results_theorems.
Definition C16F_discrimination_theorems :=
  (C16F_rejecting_invisible_when_eq_reflexive, C16F_find_min_rejecting_refuted).
Print Assumptions C16F_discrimination_theorems.

(* ---- the float64 instance is not the int instance: the facts the extension is about ---- *)
Example C16F_float_values :
  fl_eq c_nan c_nan = false /\ fl_lt c_nan 1 = false /\ fl_gt c_nan 1 = false /\ fl_lt 1 c_nan = false /\
  fl_eq 0 c_nzero = true /\ fl_lt c_nzero 0 = false /\ fl_lt c_ninf c_pinf = true /\
  fl_add c_pinf c_ninf = c_nan /\ fl_add c_nzero c_nzero = c_nzero /\ fl_add c_nzero 0 = 0%Z /\ fl_add 1 (-1) = 0%Z /\
  fl_mean 0 0 = Some c_nan /\ fl_abs c_nzero = c_nzero /\ fl_abs c_ninf = c_pinf /\
  fl_clamp (-1) 1 c_nan = c_nan /\ fl_in_range 0 1 c_nan = false.
Proof. vm_compute. repeat split. Qed.

(* non-vacuity: the generic calls do return on slices holding NaN, -0 and Inf (object 0: s = [NaN 1 -0 NaN +0 +Inf]
   between sentinels with spare capacity 2; object 1: t = [+0 NaN]), the memory afterwards is the old one plus
   new objects, and the answers are float64's: FindMin / FindMax / Min / Sum answer NaN (a leading NaN is never
   replaced, a NaN poisons the sum), Contains / IndexOf never find NaN, Unique keeps both NaNs and one of the
   zeros (the first: -0), Duplicate reports the zero under its LAST spelling (+0), Difference(s, t) drops both
   zeros and keeps both NaNs, Mean of nothing is NaN (at int it panics), Reject(v != v) compacts s in place. *)
Example C16F_calls_return :
  let m := [[-1000; c_nan; 1; c_nzero; c_nan; 0; c_pinf; -1007; -1008]%Z; [0; c_nan]%Z] in
  let s := mkSlice 0 1 6 8 in let t := mkSlice 1 0 2 2 in
  let R := run_fcall go_slack fl_ops in
  R (FFindMin s) m = (Some [RV [c_nan]], m) /\ R (FFindMax s) m = (Some [RV [c_nan]], m) /\
  R (FFindMin t) m = (Some [RV [0%Z]], m) /\
  R (FMin s) m = (Some [RV [c_nan]], m) /\ R (FSum s) m = (Some [RV [c_nan]], m) /\
  R (FContains s c_nan) m = (Some [RV [0%Z]], m) /\ R (FIndexOf s c_nan) m = (Some [RV [(-1)%Z]], m) /\
  R (FIndexOf s 0%Z) m = (Some [RV [2%Z]], m) /\
  (exists r m', R (FUnique s) m = (Some [r], m') /\ read_ref m' r = [c_nan; 1; c_nzero; c_nan; c_pinf]%Z /\ firstn 2 m' = m) /\
  (exists r m', R (FDuplicate s) m = (Some [r], m') /\ read_ref m' r = [0]%Z /\ firstn 2 m' = m) /\
  (exists r m', R (FDifference s t) m = (Some [r], m') /\ read_ref m' r = [c_nan; 1; c_nan; c_pinf]%Z /\ firstn 2 m' = m) /\
  R (FMean (mkSlice 0 1 0 8)) m = (Some [RV [c_nan]], m) /\
  run_call go_slack (HMean (mkSlice 0 1 0 8)) m = (None, m) /\
  (exists r m', R (FOld (HReject (fun v => negb (fl_eq v v)) s)) m = (Some [r], m') /\
                read_ref m' r = [1; c_nzero; 0; c_pinf]%Z /\
                arr_of m' 0 = [-1000; 1; c_nzero; 0; c_pinf; c_pinf; c_pinf; -1007; -1008]%Z).
Proof. vm_compute. repeat split; repeat eexists. Qed.
