(* C16_Wire.v — wire glue for C16 (no proofs; exercised by the correspondence).

   A case is a short PROGRAM: an initial memory and 1..3 helper calls that all
   receive the same argument values.

   kind 0 (slices):  0 :: pre :: spare :: enc_zs es ++ tpre :: tspare :: enc_zs et ++ [fn;x;y]*
       array 0 = pre sentinels ++ es ++ spare sentinels,  s = array0[pre : pre+n : pre+n+spare]
       array 1 likewise for t.  Every call receives the SAME slice values s, t.
   kind 1 (maps):    1 :: enc_zs m0 ++ enc_zs m1 ++ enc_zs ks ++ [fn;c;a]*
       map 0 = m0, map 1 = m1; list-of-maps helpers receive [map0; map1; map0].

   observation, per call k:  status (0 ok | 2 panic) ; enc_zss R_k (when ok: the
       result, every slice/map of it as one list) ; enc_zs B0 ; enc_zs B1 (the
       complete backing arrays incl. sentinels / both maps sorted by key,
       after the call) ; then enc_zss R_j re-read for every earlier call j < k.

   The memory-level model (C16_Model) computes all of this for the helpers it
   covers.  For the helpers covered by the harness only, the VALUE of the result
   is taken from the observation (an oracle, [oracle_of]) and the model's claim
   is the frame alone: such a call allocates its result and touches nothing
   else.  Which helpers are which is the table in notes/C16.md.

   c16_agree = the observation is exactly the model's (given the oracle values)
   c16_holds = the property on this observation, judged WITHOUT the model:
       a call that is not in-place leaves both backing arrays as they were;
       an in-place call changes at most s[0:len] of array 0 (Omit/OmitBy: may
       only remove entries of map 0); and every earlier result re-reads
       unchanged, except a VIEW of the argument (Drop, Chunk, the in-place
       helpers' own return values, collections of references to the argument
       maps) after an in-place call. *)

From Gogu Require Import Base SliceMem C14_Model C14_Wire C16_Model.
Local Open Scope Z_scope.

Definition sent (id i : nat) : Z := - (1000 * (Z.of_nat id + 1) + Z.of_nat i).
Definition backing (id pre : nat) (es : list Z) (spare : nat) : list Z :=
  map (sent id) (seq 0 pre) ++ es ++ map (sent id) (seq (pre + length es) spare).

Definition slack0 := go_slack.

(* ---------- kind 0: which helper is what ---------- *)

Definition ip0 (fn : Z) : bool := match fn with 5 | 6 | 19 | 20 => true | _ => false end.
Definition view0 (fn : Z) : bool := match fn with 5 | 6 | 7 | 8 | 19 => true | _ => false end.
Definition modelled0 (fn : Z) : bool := (1 <=? fn) && (fn <=? 22).

Definition cmp_of (x : Z) : Z -> Z -> bool := match x with 0 => Z.ltb | _ => Z.gtb end.

(* allocate the oracle's lists as fresh arrays *)
Fixpoint alloc_lists (ls : list (list Z)) : M (list slice) :=
  match ls with
  | [] => ret []
  | l :: ls' =>
      bind (alloc l) (fun id =>
      bind (alloc_lists ls') (fun rest =>
      ret (mkSlice id 0 (length l) (length l) :: rest)))
  end.

(* wire code -> helper call *)
Definition hcall_of (fn x y : Z) (s t : slice) (lit : slice) : option hcall :=
  match fn with
  | 1 => Some (HMerge s [t])
  | 2 => Some (HMerge s [lit])            (* lit = the literal []int{x}, allocated by the caller *)
  | 3 => Some (HMerge s [s])
  | 4 => Some (HFilter (vpred x y) s)
  | 5 => Some (HReject (vpred x y) s)
  | 6 => Some (HReverse s)
  | 7 => Some (HDrop s x)
  | 8 => Some (HChunk s x)
  | 9 => Some (HMap (vfun x) s)
  | 10 => Some (HUnique s)
  | 11 => Some (HWithout s t)
  | 12 => Some (HDropWhile (vpred x y) s)
  | 13 => Some (HDropRightWhile (vpred x y) s)
  | 14 => Some (HPartition (vpred x y) s)
  | 15 => Some (HDifference s t)
  | 16 => Some (HIntersection [s; t])
  | 17 => Some (HToSlice s)
  | 18 => Some (HUniqueBy (vfun x) s)
  | 19 => Some (HFromSlice (cmp_of x) s)
  | 20 => Some (HSort (cmp_of x) s)
  | 21 => Some (HMerge t [s])
  | 22 => Some (HDifference t s)
  | _ => None
  end.

Definition call0 (fn x y : Z) (s t : slice) (oracle : Z * list (list Z)) : M (list slice) :=
  if fn =? 2 then
    bind (alloc [x]) (fun id =>
      match hcall_of fn x y s t (mkSlice id 0 1 1) with
      | Some c => run_call slack0 c
      | None => fail
      end)
  else
    match hcall_of fn x y s t empty_slice with
    | Some c => run_call slack0 c
    | None =>
        (* harness-only helper: the frame is the whole claim; whether it
           panicked and what it returned is taken from the observation *)
        if fst oracle =? 2 then fail else alloc_lists (snd oracle)
    end.

(* ---------- observation records ---------- *)

Record orec := mkRec { r_status : Z; r_res : list (list Z); r_b0 : list Z; r_b1 : list Z; r_re : list (list (list Z)) }.

Fixpoint parse_recs (ncalls k : nat) (obs : list Z) : option (list orec) :=
  match ncalls with
  | O => match obs with [] => Some [] | _ => None end
  | S n' =>
      match obs with
      | st :: o1 =>
          let rres := if st =? 0 then rd_zss o1 else Some ([], o1) in
          match rres with
          | Some (R, o2) =>
              match rd_zs o2 with
              | Some (b0, o3) =>
                  match rd_zs o3 with
                  | Some (b1, o4) =>
                      match rd_n rd_zss k o4 with
                      | Some (re, o5) =>
                          match parse_recs n' (S k) o5 with
                          | Some rest => Some (mkRec st R b0 b1 re :: rest)
                          | None => None
                          end
                      | None => None
                      end
                  | None => None
                  end
              | None => None
              end
          | None => None
          end
      | [] => None
      end
  end.

Definition enc_rec (r : orec) : list Z :=
  r_status r :: (if r_status r =? 0 then enc_zss (r_res r) else [])
  ++ enc_zs (r_b0 r) ++ enc_zs (r_b1 r) ++ flat_map enc_zss (r_re r).

(* ---------- decoded programs ---------- *)

Record prog0 := mkP0 { p_pre : nat; p_spare : nat; p_es : list Z; p_tpre : nat; p_tspare : nat; p_et : list Z;
                       p_calls : list (list Z) }.

Definition calls_ok (cs : list (list Z)) : bool :=
  forallb (fun c => Nat.eqb (length c) 3) cs && (Nat.leb (length cs) 4).

Definition small (x : Z) : option nat := if (0 <=? x) && (x <=? 64) then Some (Z.to_nat x) else None.

Definition decode0 (w : list Z) : option prog0 :=
  match w with
  | pre :: spare :: w1 =>
      match small pre, small spare, rd_zs w1 with
      | Some pre, Some spare, Some (es, tpre :: tspare :: w2) =>
          match small tpre, small tspare, rd_zs w2 with
          | Some tpre, Some tspare, Some (et, w3) =>
              let cs := chunks 3 w3 in
              if calls_ok cs then Some (mkP0 pre spare es tpre tspare et cs) else None
          | _, _, _ => None
          end
      | _, _, _ => None
      end
  | _ => None
  end.

(* run the calls; [oracles] = the observed result of each call, used only for
   the harness-only helpers *)
Fixpoint run0 (s t : slice) (calls : list (list Z)) (oracles : list (Z * list (list Z)))
              (m : mem) (prev : list (list slice)) : list orec :=
  match calls with
  | [] => []
  | c :: calls' =>
      let fn := zget c 0 in
      let oracle := hd (0, []) oracles in
      let '(st, R, m') :=
          match call0 fn (zget c 1) (zget c 2) s t oracle m with
          | Some (R, m') => (0, R, m')
          | None => (2, [], m)
          end in
      mkRec st (map (read_all m') R) (arr_of m' 0%nat) (arr_of m' 1%nat)
            (map (fun Rj => map (read_all m') Rj) prev)
      :: run0 s t calls' (tl oracles) m' (prev ++ [R])
  end.

Definition recs0 (p : prog0) (oracles : list (Z * list (list Z))) : list orec :=
  let n := length (p_es p) in let tn := length (p_et p) in
  let m0 : mem := [backing 0 (p_pre p) (p_es p) (p_spare p); backing 1 (p_tpre p) (p_et p) (p_tspare p)] in
  run0 (mkSlice 0 (p_pre p) n (n + p_spare p)) (mkSlice 1 (p_tpre p) tn (tn + p_tspare p))
       (p_calls p) oracles m0 [].

(* ---------- kind 1: map programs ---------- *)

Definition ip1 (fn : Z) : bool := match fn with 6 | 7 => true | _ => false end.
Definition view1 (fn : Z) : bool := match fn with 6 | 7 | 20 | 21 | 22 => true | _ => false end.

Inductive mres :=
| RMaps (ids : list nat)               (* maps, by reference *)
| RConst (ls : list (list Z)).         (* plain values *)

Definition read_mres (mm : mmem) (r : mres) : list (list Z) :=
  match r with
  | RMaps ids => map (fun id => flat (sort_kv (mm_get mm id))) ids
  | RConst ls => ls
  end.

Record prog1 := mkP1 { q_m0 : amap; q_m1 : amap; q_ks : list Z; q_calls : list (list Z) }.

Definition decode1 (w : list Z) : option prog1 :=
  match rd_map w with
  | Some (m0, w1) =>
      match rd_map w1 with
      | Some (m1, w2) =>
          match rd_zs w2 with
          | Some (ks, w3) =>
              let cs := chunks 3 w3 in
              if calls_ok cs then Some (mkP1 m0 m1 ks cs) else None
          | None => None
          end
      | None => None
      end
  | None => None
  end.

Definition coll_ids : list nat := [0; 1; 0]%nat.
(* the two-dimensional collection handed to Filter2DMapCollection:
   [ {0: map0, 1: map1}, {2: map1} ]  (inner maps by reference) *)
Definition coll2_ids : list (list (Z * nat)) := [[(0, 0%nat); (1, 1%nat)]; [(2, 1%nat)]].

Definition call1 (fn c a : Z) (ks : list Z) (oracle : Z * list (list Z)) (mm : mmem) : option (mres * mmem) :=
  match fn with
  | 3 => match pick_mm 0 ks mm with
         | (Ok id, mm') => Some (RMaps [id], mm')
         | (_, mm') => Some (RConst [], mm')
         end
  | 5 => let (id, mm') := filter_map_mm 0 (vpred c a) mm in Some (RMaps [id], mm')
  | 6 => let (id, mm') := omit_mm 0 ks mm in Some (RMaps [id], mm')
  | 7 => let (id, mm') := omit_by_mm 0 (kvpred c a) mm in Some (RMaps [id], mm')
  | 8 => let (id, mm') := map_values_mm 0 (vfun c) mm in Some (RMaps [id], mm')
  | 20 => Some (RMaps (filter (fun id => inner_hit (vpred c a) (mm_get mm id)) coll_ids), mm)
  | 21 => Some (RMaps (flat_map (fun item => map snd item)
                         (filter (fun item => inner_hit (mpred c a) (map (fun e => (fst e, mm_get mm (snd e))) item))
                                 coll2_ids)), mm)
  | 22 => let '(r0, r1, mm') := partition_map_mm (mpred c a) coll_ids mm in
          Some (RMaps (r0 ++ r1), mm')
  | _ => (* harness-only: allocates its result, touches nothing *)
      if fst oracle =? 2 then None else Some (RConst (snd oracle), mm)
  end.

Fixpoint run1 (ks : list Z) (calls : list (list Z)) (oracles : list (Z * list (list Z)))
              (mm : mmem) (prev : list mres) : list orec :=
  match calls with
  | [] => []
  | c :: calls' =>
      let fn := zget c 0 in
      let oracle := hd (0, []) oracles in
      let '(st, R, mm') :=
          match call1 fn (zget c 1) (zget c 2) ks oracle mm with
          | Some (R, mm') => (0, R, mm')
          | None => (2, RConst [], mm)
          end in
      mkRec st (read_mres mm' R) (flat (sort_kv (mm_get mm' 0%nat))) (flat (sort_kv (mm_get mm' 1%nat)))
            (map (read_mres mm') prev)
      :: run1 ks calls' (tl oracles) mm' (prev ++ [R])
  end.

Definition recs1 (p : prog1) (oracles : list (Z * list (list Z))) : list orec :=
  run1 (q_ks p) (q_calls p) oracles [q_m0 p; q_m1 p] [].

(* ---------- run / agree ---------- *)

Definition oracle_of (ncalls : nat) (obs : list Z) : list (Z * list (list Z)) :=
  match parse_recs ncalls 0 obs with
  | Some rs => map (fun r => (r_status r, r_res r)) rs
  | None => []
  end.

Definition run_with (w : list Z) (oracle_src : list Z) : list Z :=
  match w with
  | 0 :: w' => match decode0 w' with
               | Some p => flat_map enc_rec (recs0 p (oracle_of (length (p_calls p)) oracle_src))
               | None => wire_error
               end
  | 1 :: w' => match decode1 w' with
               | Some p => flat_map enc_rec (recs1 p (oracle_of (length (q_calls p)) oracle_src))
               | None => wire_error
               end
  | _ => wire_error
  end.

Definition c16_run (w : list Z) : list Z := run_with w [].
Definition c16_agree (w obs : list Z) : bool := zlist_eqb obs (run_with w obs).

(* ---------- the property on one observation ---------- *)

Definition zss_eqb (a b : list (list Z)) : bool := zlist_eqb (enc_zss a) (enc_zss b).

(* equal outside the window [lo, lo+n) *)
Definition eq_outside (lo n : nat) (a b : list Z) : bool :=
  Nat.eqb (length a) (length b)
  && zlist_eqb (firstn lo a) (firstn lo b)
  && zlist_eqb (skipn (lo + n) a) (skipn (lo + n) b).

(* every entry of the new map is an entry of the old one (flat k v lists) *)
Definition submap (new old : list Z) : bool :=
  forallb (fun kv => mem_kv kv (pairs_of old)) (pairs_of new).

Fixpoint check_re (inplace : bool) (view : Z -> bool) (fns : list Z) (prevR now : list (list (list Z))) : bool :=
  match fns, prevR, now with
  | [], [], [] => true
  | f :: fns', p :: prevR', r :: now' =>
      ((inplace && view f) || zss_eqb p r) && check_re inplace view fns' prevR' now'
  | _, _, _ => false
  end.

Fixpoint check_recs (ip view : Z -> bool) (b0_inplace_ok : list Z -> list Z -> bool)
                    (calls : list (list Z)) (recs : list orec)
                    (fns_done : list Z) (prevR : list (list (list Z))) (b0 b1 : list Z) : bool :=
  match calls, recs with
  | [], [] => true
  | c :: calls', r :: recs' =>
      let fn := zget c 0 in
      let inpl := ip fn in
      (if inpl then b0_inplace_ok b0 (r_b0 r) else zlist_eqb b0 (r_b0 r))
      && zlist_eqb b1 (r_b1 r)
      && check_re inpl view fns_done prevR (r_re r)
      && check_recs ip view b0_inplace_ok calls' recs' (fns_done ++ [fn]) (r_re r ++ [r_res r]) (r_b0 r) (r_b1 r)
  | _, _ => false
  end.

Definition c16_holds (w obs : list Z) : bool :=
  match w with
  | 0 :: w' =>
      match decode0 w' with
      | Some p =>
          match parse_recs (length (p_calls p)) 0 obs with
          | Some recs =>
              check_recs ip0 view0 (eq_outside (p_pre p) (length (p_es p))) (p_calls p) recs [] []
                         (backing 0 (p_pre p) (p_es p) (p_spare p)) (backing 1 (p_tpre p) (p_et p) (p_tspare p))
          | None => false
          end
      | None => false
      end
  | 1 :: w' =>
      match decode1 w' with
      | Some p =>
          match parse_recs (length (q_calls p)) 0 obs with
          | Some recs =>
              check_recs ip1 view1 (fun old new => submap new old) (q_calls p) recs [] []
                         (flat (sort_kv (q_m0 p))) (flat (sort_kv (q_m1 p)))
          | None => false
          end
      | None => false
      end
  | _ => false
  end.
