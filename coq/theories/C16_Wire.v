(* C16_Wire.v — wire glue for C16 (no proofs; exercised by the correspondence).

   A case is a short PROGRAM: an initial memory and 1..4 helper calls that all
   receive the same argument values.

     pre :: spare :: enc_zs es ++ tpre :: tspare :: enc_zs et ++ enc_zs m0 ++ enc_zs m1
         ++ enc_zs L ++ enc_zs C ++ a :: [fn;x;y]*

       object 0 = pre sentinels ++ es ++ spare sentinels,  s = object0[pre : pre+n : pre+n+spare]
       object 1 likewise for t;  object 2 = map0, object 3 = map1 (flat k v k v ...);
       object 4 = 99 :: L ++ [99]: the caller's [][]int `lists` = object4[1 : 1+|L| : 2+|L|], cells are
                  codes: 0 = s, 1 = t, c >= 2 = t[:(7c) mod (len t + 1)], 99 = a sentinel slice (object 9);
       object 5 = 99 :: C ++ [99]: the caller's []map `coll` likewise, codes 0 = map0, 1 = map1, 99 = a
                  sentinel map (object 10);
       objects 6, 7 = the maps of maps {0: map0, 1: map1} and {2: map1} (values = codes);
       object 8 = [99; 0; 1; 99]: the caller's []map[int]map[int]int `coll2` = object8[1:3:3];
       objects 12-14 = the caller's nested []any `anys` number a (0: well typed; 1-9: a value of another
                  type at depth 1, 2, 3 x first / middle / last position, see [any_lists]): cells are codes,
                  0 = s, 1 = t, 5 = the int 5, 9 = a string, 1000+100*id+len = the []any in object id.
       Every call receives the SAME s, t, map0, map1, lists, coll, coll2, anys.
       A call that panics keeps what it has written until then (status 2, no result); all objects are
       recorded after EVERY call, whatever its outcome.
       The call codes are the table [call_of] below (mirrored in harness/c16.go).
       a >= 100 (a - 100 = the number of the nested []any): a FLOAT program — s and t are []float64, every cell
       and value is the code of a float64 ([fl_ops] in C16_ModelF.v), the calls are those of [fcall_of]
       (codes 200-256, mirrored in harness/c16float.go); same observation, same agreement, same judgement.

   observation, per call k:  status (0 ok | 2 panic) ; enc_zss R_k (when ok: what the
       call returned, every slice/map of it as one list; maps sorted by key) ;
       enc_zs B0 ; enc_zs B1 (the complete backing arrays incl. sentinels) ;
       enc_zs M0 ; enc_zs M1 (both maps sorted by key) ; enc_zs of what every cell of the complete
       outer arrays 4, 5 and 8 and of the caller's []any shows (length and elements of each slice / entries of each map),
       all after the call ;
       then enc_zss R_j re-read for every earlier call j < k.

   Every helper is run through its memory-level transcription (C16_Model).
   Where Go leaves the VALUE of a result open — the order in which a map is
   iterated (FindKey, FindByKey, MapUnique, Invert, MapKeys) or random numbers
   (Shuffle) — the model keeps the status and the memory effects of its
   transcription and takes the value of that one result from the observation
   ([value_free]); Keys/Values/MapCollection/Duplicate are compared sorted.

   c16_agree = the observation is exactly the model's
   c16_holds = the property on this observation, judged WITHOUT the model:
       a call that is not in-place leaves both backing arrays and both maps as
       they were; an in-place call changes at most the window [pre, pre+len) of
       ITS array (Omit/OmitBy: may only remove entries of ITS map); and every
       earlier result re-reads unchanged, except a VIEW of the in-place call's
       target (Drop, Chunk, the in-place helpers' own return values,
       collections of references to the argument maps). *)

From Gogu Require Import Base C14_Model C14_Wire SliceMem C16_Model C16_ModelF.
Local Open Scope Z_scope.

Definition sent (id i : nat) : Z := - (1000 * (Z.of_nat id + 1) + Z.of_nat i).
Definition backing (id pre : nat) (es : list Z) (spare : nat) : list Z :=
  map (sent id) (seq 0 pre) ++ es ++ map (sent id) (seq (pre + length es) spare).

Definition slack0 := go_slack.

Definition cmp_of (x : Z) : Z -> Z -> bool := match x with 0 => Z.ltb | _ => Z.gtb end.

(* map ids of the two argument maps and the collections built from them *)
Definition id_m0 : nat := 2.
Definition id_m1 : nat := 3.
Definition id_L : nat := 4.
Definition id_C : nat := 5.
Definition id_C2 : nat := 8.
Definition sent_code : Z := 99.

(* what the codes in the cells of the outer arrays stand for *)
Definition tbl_of (s t : slice) (c : Z) : slice :=
  if c =? 0 then s else if c =? 1 then t
  else if c =? sent_code then mkSlice 9 0 1 1
  else mkSlice (s_arr t) (s_off t) (Z.to_nat (Z.modulo (7 * c) (Z.of_nat (s_len t) + 1))) (s_cap t).
Definition mtbl_of (c : Z) : nat := if c =? 0 then id_m0 else if c =? 1 then id_m1 else 10%nat.
Definition otbl_of (c : Z) : nat := if c =? 0 then 6%nat else if c =? 1 then 7%nat else 11%nat.

(* the cells of a []any *)
Definition sub_code (id len : nat) : Z := 1000 + 100 * Z.of_nat id + Z.of_nat len.
Definition atbl_of (s t : slice) (c : Z) : anyv :=
  if c =? 0 then ASlice s else if c =? 1 then ASlice t else if c =? 5 then AItem 5
  else if 1000 <=? c then let len := Z.to_nat (Z.modulo (c - 1000) 100) in
                          AList (mkSlice (Z.to_nat (Z.div (c - 1000) 100)) 0 len len)
  else ABad.                                   (* 9: a string, 8: nil, 99: the sentinel *)
Definition id_A : nat := 12.
(* the caller's nested []any number a: the cells of the root list and of the two possible sub-lists *)
Definition any_lists (a : Z) : list Z * list Z * list Z :=
  let sub3 := sub_code 13 3 in
  match a with
  | 0 => ([0; sub_code 13 2; 1], [1; 5], [])
  | 1 => ([9; 0; 1], [], [])
  | 2 => ([0; 9; 1], [], [])
  | 3 => ([0; 1; 9], [], [])
  | 4 => ([0; sub3; 1], [9; 1; 5], [])
  | 5 => ([0; sub3; 1], [1; 9; 5], [])
  | 6 => ([0; sub3; 1], [1; 5; 9], [])
  | 7 => ([0; sub3], [1; sub_code 14 3; 5], [9; 5; 0])
  | 8 => ([0; sub3], [1; sub_code 14 3; 5], [5; 9; 0])
  | _ => ([0; sub3], [1; sub_code 14 3; 5], [5; 0; 9])
  end.
Definition any_root (a : Z) : slice :=
  let n := length (fst (fst (any_lists a))) in mkSlice id_A 1 n (n + 1).
Definition flat_fuel : nat := 10.

(* ---------- the call table ---------- *)

(* a call written with explicit arguments `Merge(s, t)`: Go builds the variadic slice afresh *)
Definition with_args (codes : list Z) (k : slice -> M (list rref)) : M (list rref) :=
  match codes with
  | [] => k empty_slice
  | _ => bind (alloc codes) (fun id => k (mkSlice id 0 (length codes) (length codes)))
  end.

(* lists[x:y] / the whole coll / coll2 *)
Definition sub_lists (nL : nat) (x y : Z) (k : slice -> M (list rref)) : M (list rref) :=
  if (x <? 0) || (y <? 0) then fail
  else bind (reslice (mkSlice id_L 1 nL (nL + 1)) (Z.to_nat x) (Z.to_nat y)) k.

Definition call_of (nL nC : nat) (a : Z) (fn x y : Z) (s t : slice) : M (list rref) :=
  let R := run_call slack0 in
  let tbl := tbl_of s t in
  let CS := mkSlice id_C 1 nC (nC + 1) in
  let C2S := mkSlice id_C2 1 2 2 in
  let atbl := atbl_of s t in
  let any_arg := AList (any_root a) in            (* the caller's nested []any *)
  let p := vpred x y in
  let f := vfun x in
  match fn with
  | 1 => with_args [1] (fun ps => R (HMerge s tbl ps))
  | 2 => bind (alloc [x]) (fun id =>                                       (* the literal []int{x} *)
         with_args [5] (fun ps => R (HMerge s (fun _ => mkSlice id 0 1 1) ps)))
  | 3 => with_args [0] (fun ps => R (HMerge s tbl ps))
  | 4 => R (HFilter p s)
  | 5 => R (HReject p s)
  | 6 => R (HReverse s)
  | 7 => R (HDrop s x)
  | 8 => R (HChunk s x)
  | 9 => R (HMap f s)
  | 10 => R (HUnique s)
  | 11 => R (HWithout s t)
  | 12 => R (HDropWhile p s)
  | 13 => R (HDropRightWhile p s)
  | 14 => R (HPartition p s)
  | 15 => R (HDifference s t)
  | 16 => with_args [0; 1] (fun ps => R (HIntersection tbl ps))
  | 17 => R (HToSlice s)
  | 18 => R (HUniqueBy f s)
  | 19 => R (HFromSlice (cmp_of x) s)
  | 20 => R (HSort (cmp_of x) s)
  | 21 => with_args [0] (fun ps => R (HMerge t tbl ps))
  | 22 => R (HDifference t s)
  | 23 => R (HShuffle [] s)
  | 24 => R (HDuplicate s)
  | 25 => R (HDuplicateWithIndex s)
  | 26 => bind (alloc [1; 5]) (fun i1 =>                                      (* Flatten([]any{s, []any{t, 5}}) *)
          bind (alloc [0; sub_code i1 2]) (fun i2 => R (HFlatten flat_fuel atbl (AList (mkSlice i2 0 2 2)))))
  | 27 => bind (alloc [0; 1]) (fun i => R (HUnion flat_fuel atbl (AList (mkSlice i 0 2 2))))
  | 28 => with_args [0; 1] (fun ps => R (HIntersectionBy f tbl ps))
  | 29 => R (HDifferenceBy f s t)
  | 30 => R (HGroupBy f s)
  | 31 => with_args [0; 1] (fun ps => R (HZip tbl ps))
  | 32 => with_args [0; 1] (fun ps => R (HUnzip tbl ps))
  | 33 => R (HFindAll p s)
  | 34 => R (HRange s)
  | 35 => R (HRangeRight s)
  | 36 => R (HSliceToMap s t)
  | 37 => R (HWithout t s)
  | 38 => with_args [1; 0] (fun ps => R (HIntersectionBy f tbl ps))
  | 39 => R (HDifferenceBy f t s)
  | 40 => R (HReverse t)
  | 41 => R (HReject p t)
  | 42 => with_args [1; 0] (fun ps => R (HIntersection tbl ps))
  | 43 => with_args [0; 0] (fun ps => R (HZip tbl ps))
  | 44 => bind (alloc [0; 9]) (fun i => R (HFlatten flat_fuel atbl (AList (mkSlice i 0 2 2))))
  | 45 => with_args [] (fun ps => R (HMerge s tbl ps))
  | 46 => with_args [0; 0] (fun ps => R (HUnzip tbl ps))
  | 47 => with_args (repeat 1 (Z.to_nat x)) (fun ps => R (HMerge s tbl ps))
  | 48 => with_args (0 :: repeat 1 (Z.to_nat x)) (fun ps => R (HIntersection tbl ps))
  | 49 => with_args (repeat 0 (Z.to_nat x)) (fun ps => R (HZip tbl ps))
  | 50 => R (HSum s)
  | 51 => R (HSumBy f s)
  | 52 => R (HMean s)
  | 53 => R (HIndexOf s y)
  | 54 => R (HLastIndexOf s y)
  | 55 => R (HForEach s)
  | 56 => R (HForEachRight s)
  | 57 => R (HReduce Z.add 0 s)
  | 58 => R (HEvery p s)
  | 59 => R (HSome p s)
  | 60 => R (HContains s y)
  | 61 => R (HFindIndex p s)
  | 62 => R (HFindLastIndex p s)
  | 63 => R (HFindMin s)
  | 64 => R (HFindMinBy f s)
  | 65 => R (HFindMax s)
  | 66 => R (HFindMaxBy f s)
  | 67 => R (HNth s y)
  | 68 => R (HMin s)
  | 69 => R (HMax s)
  | 70 => sub_lists nL x y (fun ps => R (HMerge s tbl ps))                 (* the spread form: Merge(s, lists[x:y]...) *)
  | 71 => sub_lists nL x y (fun ps => R (HIntersection tbl ps))
  | 72 => sub_lists nL x y (fun ps => R (HIntersectionBy (vfun 4) tbl ps))
  | 73 => sub_lists nL x y (fun ps => R (HZip tbl ps))
  | 74 => sub_lists nL x y (fun ps => R (HUnzip tbl ps))
  | 75 => R (HFlatten flat_fuel atbl any_arg)                               (* Flatten[int](anys) *)
  | 76 => R (HUnion flat_fuel atbl any_arg)
  | 101 => R (HKeys id_m0)
  | 102 => R (HValues id_m0)
  | 103 => R (HPick id_m0 s)
  | 104 => R (HPickBy (kvpred x y) id_m0)
  | 105 => R (HFilterMap p id_m0)
  | 106 => R (HOmit id_m0 s)
  | 107 => R (HOmitBy (kvpred x y) id_m0)
  | 108 => R (HMapValues f id_m0)
  | 109 => R (HMapKeys (kfun x) id_m0)
  | 110 => R (HInvert id_m0)
  | 111 => R (HFind p id_m0)
  | 112 => R (HFindKey p id_m0)
  | 113 => R (HFindByKey p id_m0)
  | 114 => R (HPluck mtbl_of CS y)
  | 115 => R (HMapUnique id_m0)
  | 116 => R (HMapEvery p id_m0)
  | 117 => R (HMapSome p id_m0)
  | 118 => R (HMapContains id_m0 y)
  | 119 => R (HSliceToMap s s)
  | 120 => R (HFilterMapCollection p mtbl_of CS)
  | 121 => R (HFilter2D (mpred x y) otbl_of mtbl_of C2S)
  | 122 => R (HPartitionMap (mpred x y) mtbl_of CS)
  | 123 => R (HMapCollection f id_m0)
  | 124 => R (HFindMinByKey mtbl_of CS y)
  | 125 => R (HFindMaxByKey mtbl_of CS y)
  | 126 => R (HPick id_m1 t)
  | 127 => R (HOmit id_m1 t)
  | _ => ret []                      (* not a call: the harness does nothing either *)
  end.

(* ---------- float programs (a >= 100 on the wire): s and t are []float64 ----------

   The cells of s, t (and every value on the wire) are CODES of float64 values ([fl_ops] in C16_ModelF.v:
   an integer = that float64, 2^59 = -0, 2^60 = NaN, +-2^61 = +-Inf); the sentinels are the floats
   -1000, -1001, ...; `lists` is the caller's [][]float64 and `anys` a nested []any over []float64 / float64.
   Only the calls of this table exist in a float program (and none of them in an int program). *)

(* callbacks on float64 *)
Definition fpred (c a : Z) : Z -> bool :=
  match c with
  | 0 => fun v => negb (fl_eq v v)          (* v != v *)
  | 1 => fun v => fl_lt v a
  | 2 => fun v => fl_eq v a
  | 3 => fun v => fl_gt v a
  | 4 => fun _ => true
  | 5 => fl_in_range 0 a                     (* gogu.InRange(v, 0, a) *)
  | _ => fun _ => false
  end.
Definition ffun (c : Z) : Z -> Z :=
  match c with
  | 1 => fl_neg                              (* -v *)
  | 2 => fun v => fl_add v 1
  | 3 => fun _ => c_nan
  | 4 => fl_abs                              (* gogu.Abs *)
  | 5 => fl_clamp (-1) 1                     (* gogu.Clamp(v, -1, 1) *)
  | _ => fun v => v
  end.
Definition fcmp_of (x : Z) : Z -> Z -> bool := match x with 0 => fl_lt | _ => fl_gt end.

Definition fcall_of (nL nC : nat) (a : Z) (fn x y : Z) (s t : slice) : M (list rref) :=
  let R := run_fcall slack0 fl_ops in
  let O c := run_fcall slack0 fl_ops (FOld c) in
  let tbl := tbl_of s t in
  let atbl := atbl_of s t in
  let p := fpred x y in
  let f := ffun x in
  match fn with
  | 200 => R (FSum s)
  | 201 => R (FSumBy f s)
  | 202 => R (FMean s)
  | 203 => R (FIndexOf s y)
  | 204 => R (FLastIndexOf s y)
  | 205 => R (FContains s y)
  | 206 => R (FFindMin s)
  | 207 => R (FFindMinBy f s)
  | 208 => R (FFindMax s)
  | 209 => R (FFindMaxBy f s)
  | 210 => R (FMin s)
  | 211 => R (FMax s)
  | 212 => R (FUnique s)
  | 213 => R (FUniqueBy f s)
  | 214 => R (FDuplicate s)
  | 215 => R (FDuplicateWithIndex s)
  | 216 => bind (alloc [0; 1]) (fun i => R (FUnion flat_fuel atbl (AList (mkSlice i 0 2 2))))
  | 217 => with_args [0; 1] (fun ps => R (FIntersection tbl ps))
  | 218 => with_args [0; 1] (fun ps => R (FIntersectionBy f tbl ps))
  | 219 => R (FWithout s t)
  | 220 => R (FDifference s t)
  | 221 => R (FDifferenceBy f s t)
  | 222 => with_args [1; 0] (fun ps => R (FIntersection tbl ps))
  | 223 => R (FDifference t s)
  | 224 => R (FWithout t s)
  | 225 => R (FFindMin t)
  | 226 => R (FFindMax t)
  | 230 => O (HFilter p s)
  | 231 => O (HReject p s)
  | 232 => O (HReverse s)
  | 233 => O (HDrop s x)
  | 234 => O (HChunk s x)
  | 235 => O (HMap f s)
  | 236 => with_args [1] (fun ps => O (HMerge s tbl ps))
  | 237 => O (HPartition p s)
  | 238 => O (HFromSlice (fcmp_of x) s)
  | 239 => O (HSort (fcmp_of x) s)
  | 240 => O (HReduce fl_add 0 s)
  | 241 => O (HEvery p s)
  | 242 => O (HSome p s)
  | 243 => O (HFindIndex p s)
  | 244 => O (HFindLastIndex p s)
  | 245 => O (HDropWhile p s)
  | 246 => O (HDropRightWhile p s)
  | 247 => O (HReject p t)
  | 248 => O (HReverse t)
  | 249 => O (HFindAll p s)
  | 250 => O (HToSlice s)
  | 251 => O (HNth s y)
  | 252 => sub_lists nL x y (fun ps => O (HMerge s tbl ps))
  | 253 => O (HFlatten flat_fuel atbl (AList (any_root a)))
  | 254 => R (FUnion flat_fuel atbl (AList (any_root a)))
  | 255 => sub_lists nL x y (fun ps => R (FIntersection tbl ps))
  | 256 => O (HShuffle [] s)
  | _ => ret []
  end.


(* the object an in-place call may change: 0/1 = backing array of s/t (inside the window), 2/3 = map0/map1 (removals) *)
Definition ip_target (fn : Z) : option nat :=
  match fn with
  | 5 | 6 | 19 | 20 | 231 | 232 | 238 | 239 => Some 0%nat
  | 40 | 41 | 247 | 248 => Some 1%nat
  | 106 | 107 => Some 2%nat
  | 127 => Some 3%nat
  | _ => None
  end.

(* does what call fn returned refer to object k (so that it follows an in-place change of k)? *)
Definition views (fn : Z) (k : nat) : bool :=
  match fn, k with
  | (5 | 6 | 7 | 8 | 19 | 231 | 232 | 233 | 234 | 238), 0%nat => true
  | (40 | 41 | 247 | 248), 1%nat => true
  | (106 | 107), 2%nat => true
  | 127, 3%nat => true
  | (120 | 122), (2%nat | 3%nat) => true
  | _, _ => false
  end.

(* Go leaves the value of the result open: it is taken from the observation *)
Definition value_free (fn : Z) : bool :=
  match fn with 23 | 109 | 110 | 112 | 113 | 115 | 256 => true | _ => false end.
(* the result is compared sorted (the harness sorts it: map iteration order) *)
Definition value_sorted (fn : Z) : bool :=
  match fn with 24 | 101 | 102 | 123 | 214 => true | _ => false end.

(* ---------- reading references ---------- *)

Definition wire_read (m : mem) (r : rref) : list Z :=
  match r with
  | RS pre s => pre ++ read_all m s
  | RM id => kvflat (sort_kv (map_of m id))
  | RV v => v
  end.

(* GroupBy: the groups in the order of their keys *)
Fixpoint insert_ref (r : rref) (l : list rref) : list rref :=
  match l with
  | [] => [r]
  | r' :: l' =>
      match r, r' with
      | RS (k :: _) _, RS (k' :: _) _ => if k <=? k' then r :: l else r' :: insert_ref r l'
      | _, _ => r :: l
      end
  end.
Definition canon_refs (fn : Z) (rs : list rref) : list rref :=
  if fn =? 30 then fold_right insert_ref [] rs else rs.

Definition read_result (fn : Z) (m : mem) (rs : list rref) : list (list Z) :=
  map (fun r => if value_sorted fn then sort_z (wire_read m r) else wire_read m r) rs.

(* ---------- observation records ---------- *)

Record orec := mkRec { r_status : Z; r_res : list (list Z); r_bs : list (list Z); r_re : list (list (list Z)) }.

Definition n_bs : nat := 8.
Definition rd_bs (w : list Z) : option (list (list Z) * list Z) := rd_n rd_zs n_bs w.

Fixpoint parse_recs (ncalls k : nat) (obs : list Z) : option (list orec) :=
  match ncalls with
  | O => match obs with [] => Some [] | _ => None end
  | S n' =>
      match obs with
      | st :: o1 =>
          let rres := if st =? 0 then rd_zss o1 else Some ([], o1) in
          match rres with
          | Some (R, o2) =>
              match rd_bs o2 with
              | Some (bs, o4) =>
                  match rd_n rd_zss k o4 with
                  | Some (re, o5) =>
                      match parse_recs n' (S k) o5 with
                      | Some rest => Some (mkRec st R bs re :: rest)
                      | None => None
                      end
                  | None => None
                  end
              | None => None
              end
          | None => None
          end
      | [] => None
      end
  end.

Definition enc_rec (r : orec) : list Z :=
  r_status r :: (if r_status r =? 0 then enc_zss (r_res r) else [])
  ++ flat_map enc_zs (r_bs r) ++ flat_map enc_zss (r_re r).

(* ---------- decoded programs ---------- *)

Record prog := mkP { p_pre : nat; p_spare : nat; p_es : list Z; p_tpre : nat; p_tspare : nat; p_et : list Z;
                     p_m0 : amap; p_m1 : amap; p_L : list Z; p_C : list Z; p_A : Z; p_calls : list (list Z);
                     p_F : bool (* a float program: s, t are []float64, cells are float codes *) }.

Definition calls_ok (cs : list (list Z)) : bool :=
  forallb (fun c => Nat.eqb (length c) 3) cs && (Nat.leb (length cs) 4).

Definition small (x : Z) : option nat := if (0 <=? x) && (x <=? 100000) then Some (Z.to_nat x) else None.

(* a Go map built from a flat list (a later entry overwrites an earlier one), in key order *)
Definition canon_map (l : list Z) : amap :=
  sort_kv (fold_left (fun a kv => map_set a (fst kv) (snd kv)) (pairs_of l) []).

Definition decode (w : list Z) : option prog :=
  match w with
  | pre :: spare :: w1 =>
      match small pre, small spare, rd_zs w1 with
      | Some pre, Some spare, Some (es, tpre :: tspare :: w2) =>
          match small tpre, small tspare, rd_zs w2 with
          | Some tpre, Some tspare, Some (et, w3) =>
              match rd_zs w3 with
              | Some (l0, w4) =>
                  match rd_zs w4 with
                  | Some (l1, w5) =>
                      match rd_zs w5 with
                      | Some (lL, w6) =>
                          match rd_zs w6 with
                          | Some (lC, a :: w7) =>
                              let cs := chunks 3 w7 in
                              if calls_ok cs && forallb (fun c => (0 <=? c) && (c <? sent_code)) lL
                                 && forallb (fun c => (0 <=? c) && (c <=? 1)) lC
                                 && (((0 <=? a) && (a <=? 9)) || ((100 <=? a) && (a <=? 109)))
                              then Some (mkP pre spare es tpre tspare et (canon_map l0) (canon_map l1) lL lC
                                             (if 100 <=? a then a - 100 else a) cs (100 <=? a)) else None
                          | Some (_, []) => None
                          | None => None
                          end
                      | None => None
                      end
                  | None => None
                  end
              | None => None
              end
          | _, _, _ => None
          end
      | _, _, _ => None
      end
  | _ => None
  end.

(* what the cells of the outer arrays show: every slice with its length, every map with its entries *)
Definition show_map (m : mem) (id : nat) : list Z := enc_zs (kvflat (sort_kv (map_of m id))).
Definition print_L (s t : slice) (m : mem) : list Z :=
  flat_map (fun c => enc_zs (read_all m (tbl_of s t c))) (arr_of m id_L).
Definition print_C (m : mem) : list Z := flat_map (fun c => show_map m (mtbl_of c)) (arr_of m id_C).
Definition print_C2 (m : mem) : list Z :=
  flat_map (fun c => let o := sort_kv (map_of m (otbl_of c)) in
                     Z.of_nat (length o) :: flat_map (fun kc => fst kc :: show_map m (mtbl_of (snd kc))) o)
           (arr_of m id_C2).

(* what the caller's []any shows, cell by cell and recursively (the root with its sentinel cells):
   1 len elems = a []int, 2 v = an int, 3 n cells = a []any, 8 = nil, 9 = a value of another type *)
Fixpoint print_cells (fuel : nat) (s t : slice) (m : mem) (codes : list Z) : list Z :=
  flat_map (fun c =>
              match atbl_of s t c with
              | ASlice x => 1 :: enc_zs (read_all m x)
              | AItem v => [2; v]
              | AList l => match fuel with
                           | O => [7]
                           | S f => 3 :: Z.of_nat (s_len l) :: print_cells f s t m (read_all m l)
                           end
              | ABad => if c =? 8 then [8] else [9]
              end) codes.
Definition print_A (s t : slice) (m : mem) : list Z := print_cells 4 s t m (arr_of m id_A).

Definition backings (s t : slice) (m : mem) : list (list Z) :=
  [arr_of m 0%nat; arr_of m 1%nat; kvflat (sort_kv (map_of m id_m0)); kvflat (sort_kv (map_of m id_m1));
   print_L s t m; print_C m; print_C2 m; print_A s t m].

(* the memory a program starts in, given the contents of the four primary objects *)
Definition world (b0 b1 m0 m1 : list Z) (L C : list Z) (a : Z) : mem :=
  let '(root, sub1, sub2) := any_lists a in
  [b0; b1; m0; m1; sent_code :: L ++ [sent_code]; sent_code :: C ++ [sent_code];
   [0; 0; 1; 1]; [2; 1]; [sent_code; 0; 1; sent_code]; [-4242]; [-1; -1]; [];
   sent_code :: root ++ [sent_code]; sub1; sub2].

(* run the calls; [oracles] = the observed (status, result) of each call, used only for [value_free] results *)
Fixpoint run_calls (isf : bool) (nL nC : nat) (a : Z) (s t : slice) (calls : list (list Z)) (oracles : list (Z * list (list Z)))
                   (m : mem) (prev : list (Z * list rref)) : list orec :=
  match calls with
  | [] => []
  | c :: calls' =>
      let fn := zget c 0 in
      let oracle := hd (0, []) oracles in
      let '(st, R, m') :=
          match (if isf then fcall_of else call_of) nL nC a fn (zget c 1) (zget c 2) s t m with
          | (Some R, m') => (0, (if value_free fn then map RV (snd oracle) else canon_refs fn R), m')
          | (None, m') => (2, [], m')          (* a panic: what was written before it stays written *)
          end in
      mkRec st (read_result fn m' R) (backings s t m')
            (map (fun fr => read_result (fst fr) m' (snd fr)) prev)
      :: run_calls isf nL nC a s t calls' (tl oracles) m' (prev ++ [(fn, R)])
  end.

Definition slice_s (p : prog) : slice := mkSlice 0 (p_pre p) (length (p_es p)) (length (p_es p) + p_spare p).
Definition slice_t (p : prog) : slice := mkSlice 1 (p_tpre p) (length (p_et p)) (length (p_et p) + p_tspare p).

Definition recs (p : prog) (oracles : list (Z * list (list Z))) : list orec :=
  let m0 : mem := world (backing 0 (p_pre p) (p_es p) (p_spare p)) (backing 1 (p_tpre p) (p_et p) (p_tspare p))
                        (kvflat (p_m0 p)) (kvflat (p_m1 p)) (p_L p) (p_C p) (p_A p) in
  run_calls (p_F p) (length (p_L p)) (length (p_C p)) (p_A p) (slice_s p) (slice_t p) (p_calls p) oracles m0 [].

(* ---------- run / agree ---------- *)

Definition zss_eqb (a b : list (list Z)) : bool := zlist_eqb (enc_zss a) (enc_zss b).


Definition oracle_of (ncalls : nat) (obs : list Z) : list (Z * list (list Z)) :=
  match parse_recs ncalls 0 obs with
  | Some rs => map (fun r => (r_status r, r_res r)) rs
  | None => []
  end.

Definition run_with (w : list Z) (oracle_src : list Z) : list Z :=
  match decode w with
  | Some p => flat_map enc_rec (recs p (oracle_of (length (p_calls p)) oracle_src))
  | None => wire_error
  end.

Definition c16_run (w : list Z) : list Z := run_with w [].

(* agreement, record by record.  One thing is left open: once an in-place call on
   object k has run, the re-reads of EARLIER results that are views of k (Drop,
   Chunk, Reject's own return value, references to the argument maps) are not
   compared with the model — whether such a result shares storage with the
   argument or is a copy is not part of the property (a Chunk that copies must
   stay green; [c16_holds] still requires every such result to be stable under
   all later calls that are not in-place on k).  Everything else — status,
   result, all four objects, all other re-reads — must be exactly the model's. *)
Fixpoint zip_taint (tg : option nat) (fns : list Z) (taint : list bool) : list bool :=
  match fns, taint with
  | f :: fns', b :: taint' => (b || match tg with Some k => views f k | None => false end) :: zip_taint tg fns' taint'
  | _, _ => []
  end.

Fixpoint re_agree (taint : list bool) (a b : list (list (list Z))) : bool :=
  match taint, a, b with
  | [], [], [] => true
  | tn :: taint', x :: a', y :: b' => (tn || zss_eqb x y) && re_agree taint' a' b'
  | _, _, _ => false
  end.

Fixpoint recs_agree (calls : list (list Z)) (fns_done : list Z) (taint : list bool) (model obs : list orec) : bool :=
  match calls, model, obs with
  | [], [], [] => true
  | c :: calls', a :: model', b :: obs' =>
      let fn := zget c 0 in
      let taint' := zip_taint (ip_target fn) fns_done taint in
      (r_status a =? r_status b) && zss_eqb (r_res a) (r_res b) && zss_eqb (r_bs a) (r_bs b)
      && re_agree taint' (r_re a) (r_re b)
      && recs_agree calls' (fns_done ++ [fn]) (taint' ++ [false]) model' obs'
  | _, _, _ => false
  end.

Definition c16_agree (w obs : list Z) : bool :=
  match decode w with
  | Some p =>
      match parse_recs (length (p_calls p)) 0 obs with
      | Some orecs => recs_agree (p_calls p) [] [] (recs p (map (fun r => (r_status r, r_res r)) orecs)) orecs
      | None => false
      end
  | None => zlist_eqb obs wire_error
  end.

(* ---------- the property on one observation ---------- *)


(* equal outside the window [lo, lo+n) *)
Definition eq_outside (lo n : nat) (a b : list Z) : bool :=
  Nat.eqb (length a) (length b)
  && zlist_eqb (firstn lo a) (firstn lo b)
  && zlist_eqb (skipn (lo + n) a) (skipn (lo + n) b).

(* every entry of the new map is an entry of the old one (flat k v lists) *)
Definition submap (new old : list Z) : bool :=
  forallb (fun kv => mem_kv kv (pairs_of old)) (pairs_of new).

(* what an in-place call may do to object k *)
Definition inplace_ok (p : prog) (k : nat) (old new : list Z) : bool :=
  match k with
  | 0%nat => eq_outside (p_pre p) (length (p_es p)) old new
  | 1%nat => eq_outside (p_tpre p) (length (p_et p)) old new
  | _ => submap new old
  end.

(* the outer arrays must show, cell by cell, what their (unchanged) codes stand for in the record's OWN
   primary objects: the order, number and identity of their elements is as the caller left them *)
Definition outer_ok (p : prog) (bs : list (list Z)) : bool :=
  match bs with
  | [b0; b1; m0; m1; pL; pC; pC2; pA] =>
      let w := world b0 b1 m0 m1 (p_L p) (p_C p) (p_A p) in
      zlist_eqb pL (print_L (slice_s p) (slice_t p) w) && zlist_eqb pC (print_C w) && zlist_eqb pC2 (print_C2 w)
      && zlist_eqb pA (print_A (slice_s p) (slice_t p) w)
  | _ => false
  end.

Fixpoint check_bs (p : prog) (tg : option nat) (k : nat) (old new : list (list Z)) : bool :=
  match old, new with
  | [], [] => true
  | o :: old', b :: new' =>
      (match tg with
       | Some j => if Nat.eqb j k then inplace_ok p k o b else zlist_eqb o b
       | None => zlist_eqb o b
       end) && check_bs p tg (S k) old' new'
  | _, _ => false
  end.

Fixpoint check_re (tg : option nat) (fns : list Z) (prevR now : list (list (list Z))) : bool :=
  match fns, prevR, now with
  | [], [], [] => true
  | f :: fns', pr :: prevR', r :: now' =>
      ((match tg with Some k => views f k | None => false end) || zss_eqb pr r) && check_re tg fns' prevR' now'
  | _, _, _ => false
  end.

Fixpoint check_recs (p : prog) (calls : list (list Z)) (rcs : list orec)
                    (fns_done : list Z) (prevR : list (list (list Z))) (bs : list (list Z)) : bool :=
  match calls, rcs with
  | [], [] => true
  | c :: calls', r :: rcs' =>
      let fn := zget c 0 in
      let tg := ip_target fn in
      outer_ok p (r_bs r)
      && check_bs p tg 0 (firstn 4 bs) (firstn 4 (r_bs r))
      && check_re tg fns_done prevR (r_re r)
      && check_recs p calls' rcs' (fns_done ++ [fn]) (r_re r ++ [r_res r]) (r_bs r)
  | _, _ => false
  end.

Definition c16_holds (w obs : list Z) : bool :=
  match decode w with
  | Some p =>
      match parse_recs (length (p_calls p)) 0 obs with
      | Some rcs =>
          check_recs p (p_calls p) rcs [] []
                     [backing 0 (p_pre p) (p_es p) (p_spare p); backing 1 (p_tpre p) (p_et p) (p_tspare p);
                      kvflat (p_m0 p); kvflat (p_m1 p)]
      | None => false
      end
  | None => false
  end.
