(* C17_Model.v — Memoizer.Memoize as a small-step system.

   Transcribed from /repo/memoize.go:

     func (m Memoizer[T, V]) Memoize(key T, fn func() ( *cache.Item[V], error)) ( *cache.Item[V], error) {
       item, _ := m.Cache.Get(key)                         -- step LStart   (one clock read)
       if item != nil { return item, nil }
       data, err, _ := m.group.Do(string(key), func() (any, error) {     -- step LEnter
         item, err := fn()                                  -- the execution: thread state Leading
         if err == nil { m.Cache.SetDefault(key, item.Val()) }           -- step LFnEnd (two clock reads)
         return item, err
       })                                                   -- step LDone (leader) / LWake (joiner)
       return data.( *cache.Item[V]), err
     }

   from the part of /repo/cache/cache.go it uses (Get; SetDefault = Set with
   the cache's default expiry: refuses when a live entry exists, otherwise
   stores with deadline now + default), and from singleflight.Group.Do
   (golang.org/x/sync@v0.1.0, MODELLED, not verified):

     g.mu.Lock(); if c, ok := g.m[key]; ok { c.dups++; g.mu.Unlock(); c.wg.Wait(); return c.val, c.err }
     c := new(call); c.wg.Add(1); g.m[key] = c; g.mu.Unlock()
     g.doCall(c, key, fn)      -- c.val, c.err = fn();  then under g.mu: c.wg.Done(); delete(g.m, key)
     return c.val, c.err

   A thread is ONE call of Memoize (thread ids are call ids).  A singleflight
   call object is identified by the thread that created it (its leader).  Every
   step is one critical section of the code (cache mutex / group mutex), so the
   interleavings of the model are the interleavings of the code at that grain;
   SetDefault's liveness test and store are one step: cache.Set holds the write
   lock across both (repair 8bf6dc1 in /repo), and in any case only the owner of
   a key's call writes that key (C17_Proofs2.owner_unique, cache_write_step).

   Time: each clock read is an oracle value carried by the label.  An entry
   (v, e) is EXPIRED for a reader whose clock read is [now] iff e > 0 and
   now > e  (cache.go: `item.expiration > 0 && now > item.expiration`); e = 0
   (default expiry 0) and e = -1 (NoExpiration) never expire.

   Ghost components (they never influence a transition): the logical time
   [s_time] (number of steps taken), the stamps s_started / s_began / s_endat / s_doneat,
   the source of a cache entry and of a returned result.
   No proofs in this file. *)

From Gogu Require Import Base.
Local Open Scope Z_scope.

Definition key := Z.
Definition tid := nat.

Inductive result := RVal (v : Z) | RErr (e : Z).

Inductive tstate :=
| Idle                                   (* Memoize not yet called *)
| Looked (k : key)                       (* cache miss seen, group.Do not yet entered *)
| Leading (k : key)                      (* created the call, fn is executing *)
| Finishing (k : key) (r : result)       (* fn returned r (stored on success); wg.Done/delete pending *)
| Joined (k : key) (l : tid)             (* found the call led by l in g.m; in c.wg.Wait() *)
| Ret (k : key) (r : result) (src : tid) (cached : bool).
                                         (* returned r; ghost: the execution it came from, and
                                            whether it was served by the cache *)

Record state := mkState {
  s_def : Z;                                  (* default expiry given to NewMemoizer, ns *)
  s_cache : key -> option (Z * Z * tid);      (* value, deadline; ghost: execution that stored it *)
  s_group : key -> option tid;                (* g.m: the in-flight call of a key, by leader *)
  s_done : tid -> option result;              (* c.val/c.err of the call led by tid, once wg.Done *)
  s_thr : tid -> tstate;
  s_calls : key -> nat;                       (* number of invocations of fn per key *)
  (* ghost stamps *)
  s_time : nat;
  s_started : tid -> nat;                     (* when the thread called Memoize *)
  s_began : tid -> nat;                       (* when the execution led by tid began *)
  s_endat : tid -> nat;                       (* when fn returned in the execution led by tid *)
  s_doneat : tid -> option nat;               (* when it was removed from the group *)
  s_res : tid -> option result                (* what fn returned in the execution led by tid *)
}.

Definition init (def : Z) : state :=
  mkState def (fun _ => None) (fun _ => None) (fun _ => None) (fun _ => Idle) (fun _ => 0%nat)
          0 (fun _ => 0%nat) (fun _ => 0%nat) (fun _ => 0%nat) (fun _ => None) (fun _ => None).

Definition updZ {A} (f : Z -> A) (k : Z) (a : A) : Z -> A := fun x => if x =? k then a else f x.
Definition updN {A} (f : nat -> A) (t : nat) (a : A) : nat -> A := fun x => if Nat.eqb x t then a else f x.

(* cache.go Get *)
Definition live (now e : Z) : bool := negb ((0 <? e) && (e <? now)).

Definition cache_get (s : state) (k : key) (now : Z) : option (Z * tid) :=
  match s_cache s k with
  | Some (v, e, l) => if live now e then Some (v, l) else None
  | None => None
  end.

(* cache.go add: the deadline for duration DefaultExpiration *)
Definition deadline (def now : Z) : Z :=
  if 0 <? def then now + def else if def <? 0 then -1 else 0.

Inductive label :=
| LStart (t : tid) (k : key) (now : Z)
| LEnter (t : tid)
| LFnEnd (t : tid) (r : result) (now1 now2 : Z)
| LDone (t : tid)
| LWake (t : tid).

Definition tick (s : state) : nat := S (s_time s).

(* [None]: the label is not enabled in s *)
Definition step (s : state) (a : label) : option state :=
  match a with
  | LStart t k now =>
      match s_thr s t with
      | Idle =>
          let thr' :=
              match cache_get s k now with
              | Some (v, l) => Ret k (RVal v) l true
              | None => Looked k
              end in
          Some (mkState (s_def s) (s_cache s) (s_group s) (s_done s) (updN (s_thr s) t thr') (s_calls s)
                        (tick s) (updN (s_started s) t (s_time s)) (s_began s) (s_endat s) (s_doneat s) (s_res s))
      | _ => None
      end
  | LEnter t =>
      match s_thr s t with
      | Looked k =>
          match s_group s k with
          | Some l =>
              Some (mkState (s_def s) (s_cache s) (s_group s) (s_done s) (updN (s_thr s) t (Joined k l))
                            (s_calls s) (tick s) (s_started s) (s_began s) (s_endat s) (s_doneat s) (s_res s))
          | None =>
              Some (mkState (s_def s) (s_cache s) (updZ (s_group s) k (Some t)) (s_done s)
                            (updN (s_thr s) t (Leading k)) (updZ (s_calls s) k (S (s_calls s k)))
                            (tick s) (s_started s) (updN (s_began s) t (s_time s)) (s_endat s) (s_doneat s) (s_res s))
          end
      | _ => None
      end
  | LFnEnd t r now1 now2 =>
      match s_thr s t with
      | Leading k =>
          let cache' :=
              match r with
              | RVal v =>
                  (* SetDefault -> Set: Get(key) at now1; a live entry makes Set fail (error dropped);
                     otherwise add stores with deadline computed from the read now2 *)
                  match cache_get s k now1 with
                  | Some _ => s_cache s
                  | None => updZ (s_cache s) k (Some (v, deadline (s_def s) now2, t))
                  end
              | RErr _ => s_cache s
              end in
          Some (mkState (s_def s) cache' (s_group s) (s_done s) (updN (s_thr s) t (Finishing k r))
                        (s_calls s) (tick s) (s_started s) (s_began s)
                        (updN (s_endat s) t (s_time s)) (s_doneat s) (updN (s_res s) t (Some r)))
      | _ => None
      end
  | LDone t =>
      match s_thr s t with
      | Finishing k r =>
          Some (mkState (s_def s) (s_cache s) (updZ (s_group s) k None) (updN (s_done s) t (Some r))
                        (updN (s_thr s) t (Ret k r t false)) (s_calls s)
                        (tick s) (s_started s) (s_began s) (s_endat s) (updN (s_doneat s) t (Some (s_time s))) (s_res s))
      | _ => None
      end
  | LWake t =>
      match s_thr s t with
      | Joined k l =>
          match s_done s l with
          | Some r =>
              Some (mkState (s_def s) (s_cache s) (s_group s) (s_done s)
                            (updN (s_thr s) t (Ret k r l false)) (s_calls s)
                            (tick s) (s_started s) (s_began s) (s_endat s) (s_doneat s) (s_res s))
          | None => None
          end
      | _ => None
      end
  end.

(* a schedule: any sequence of labels; [None] as soon as one is not enabled *)
Fixpoint run (s : state) (tr : list label) : option state :=
  match tr with
  | [] => Some s
  | a :: tr' =>
      match step s a with
      | Some s' => run s' tr'
      | None => None
      end
  end.

(* the thread a label belongs to, the key it concerns in state s, its clock reads *)
Definition label_tid (a : label) : tid :=
  match a with
  | LStart t _ _ | LEnter t | LFnEnd t _ _ _ | LDone t | LWake t => t
  end.

Definition thr_key (ts : tstate) : option key :=
  match ts with
  | Idle => None
  | Looked k | Leading k | Finishing k _ | Joined k _ | Ret k _ _ _ => Some k
  end.

Definition label_key (s : state) (a : label) : option key :=
  match a with
  | LStart _ k _ => Some k
  | _ => thr_key (s_thr s (label_tid a))
  end.

Definition label_nows (a : label) : list Z :=
  match a with
  | LStart _ _ now => [now]
  | LFnEnd _ _ n1 n2 => [n1; n2]
  | _ => []
  end.

(* ------------------------------------------------------------------------
   Executable macro-steps for the controlled correspondence: the harness
   performs an action and lets the implementation run to quiescence.
   ------------------------------------------------------------------------ *)

Definition ostep (s : state) (a : label) : state :=
  match step s a with Some s' => s' | None => s end.

(* start caller t on key k: Memoize runs until it returns (cache hit) or blocks
   (inside fn as leader, or in wg.Wait as joiner) *)
Definition act_start (s : state) (t : tid) (k : key) (now : Z) : state :=
  ostep (ostep s (LStart t k now)) (LEnter t).

(* the running execution of key k (if any) returns r; its leader and all its
   joiners (threads below [n]) run until they have returned *)
Fixpoint wake_all (s : state) (n : nat) : state :=
  match n with
  | O => s
  | S n' => ostep (wake_all s n') (LWake n')
  end.

Definition act_finish (s : state) (n : nat) (k : key) (r : result) (now : Z) : state :=
  match s_group s k with
  | Some l =>
      match s_thr s l with
      | Leading _ => wake_all (ostep (ostep s (LFnEnd l r now now)) (LDone l)) n
      | _ => s
      end
  | None => s
  end.

(* ------------------------------------------------------------------------
   Monitor for free-running executions of the implementation.

   The harness logs, under one mutex (so the log order is consistent with real
   time), four kinds of events per caller c of key k:
     EStart c k      just before c calls Memoize(k, fn_c)
     EBegin c k      fn_c has been entered (c is executing the function)
     EEnd c k r      fn_c is about to return r
     ERet c k r      Memoize has returned r to c
   and at the end  EFinal k (Some v | None): Cache.Get(k).
   Every execution produces a result that identifies it (the harness makes the
   values / error numbers unique per caller), entries do not expire during the
   run (1 h).  The monitor accepts a log iff
     - no EBegin for a key while another execution of that key is running,
     - every ERet c k r matches an execution of k that has ended with r and
       that either had not yet been returned by its leader when c started
       (it overlapped c's call) or is the first successful execution of k
       (the cached one: it preceded or overlapped); errors only the former,
     - a caller that started after a successful leader of its key had returned
       never executes the function and returns the first successful value,
     - a caller that executed the function returns its own result,
     - the final cache content of k is the first successful value, if any.
   ------------------------------------------------------------------------ *)

Inductive event :=
| EStart (c : nat) (k : key)
| EBegin (c : nat) (k : key)
| EEnd (c : nat) (k : key) (r : result)
| ERet (c : nat) (k : key) (r : result)
| EFinal (k : key) (v : option Z).

Definition result_eqb (a b : result) : bool :=
  match a, b with
  | RVal x, RVal y => x =? y
  | RErr x, RErr y => x =? y
  | _, _ => false
  end.

Record caller_info := mkCI {
  ci_key : key;
  ci_late : bool;              (* started after a successful leader of its key had returned *)
  ci_retd : list nat;          (* leaders that had already returned when it started *)
  ci_ran : bool;               (* has executed fn *)
  ci_returned : bool
}.

Record mon := mkMon {
  mo_callers : list (nat * caller_info);
  mo_running : list (key * nat);                (* executions in progress: key, leader *)
  mo_ended : list (key * nat * result);         (* executions that have ended *)
  mo_first : list (key * Z);                    (* first successful value per key *)
  mo_cachedkeys : list key;                     (* keys one of whose successful leaders has returned *)
  mo_retleaders : list nat                      (* leaders that have returned *)
}.

Definition mon0 : mon := mkMon [] [] [] [] [] [].

Fixpoint lookupN {A} (l : list (nat * A)) (c : nat) : option A :=
  match l with
  | [] => None
  | (c', a) :: l' => if Nat.eqb c c' then Some a else lookupN l' c
  end.
Fixpoint lookupK {A} (l : list (key * A)) (k : key) : option A :=
  match l with
  | [] => None
  | (k', a) :: l' => if k =? k' then Some a else lookupK l' k
  end.
Definition memZ (k : Z) (l : list Z) : bool := existsb (Z.eqb k) l.
Definition memN (c : nat) (l : list nat) : bool := existsb (Nat.eqb c) l.
Fixpoint setN {A} (l : list (nat * A)) (c : nat) (a : A) : list (nat * A) :=
  match l with
  | [] => [(c, a)]
  | (c', a') :: l' => if Nat.eqb c c' then (c, a) :: l' else (c', a') :: setN l' c a
  end.

(* [None] = the log is rejected at this event *)
Definition mon_step (m : mon) (e : event) : option mon :=
  match e with
  | EStart c k =>
      match lookupN (mo_callers m) c with
      | Some _ => None
      | None =>
          Some (mkMon ((c, mkCI k (memZ k (mo_cachedkeys m)) (mo_retleaders m) false false) :: mo_callers m)
                      (mo_running m) (mo_ended m) (mo_first m) (mo_cachedkeys m) (mo_retleaders m))
      end
  | EBegin c k =>
      match lookupN (mo_callers m) c with
      | Some ci =>
          if (ci_key ci =? k) && negb (ci_late ci) && negb (ci_ran ci) && negb (ci_returned ci)
             && negb (existsb (fun kc => fst kc =? k) (mo_running m))
          then Some (mkMon (setN (mo_callers m) c (mkCI k (ci_late ci) (ci_retd ci) true false))
                           ((k, c) :: mo_running m) (mo_ended m) (mo_first m) (mo_cachedkeys m) (mo_retleaders m))
          else None
      | None => None
      end
  | EEnd c k r =>
      if existsb (fun kc => (fst kc =? k) && Nat.eqb (snd kc) c) (mo_running m)
      then Some (mkMon (mo_callers m)
                       (filter (fun kc => negb ((fst kc =? k) && Nat.eqb (snd kc) c)) (mo_running m))
                       ((k, c, r) :: mo_ended m)
                       (match r, lookupK (mo_first m) k with
                        | RVal v, None => (k, v) :: mo_first m
                        | _, _ => mo_first m
                        end)
                       (mo_cachedkeys m) (mo_retleaders m))
      else None
  | ERet c k r =>
      match lookupN (mo_callers m) c with
      | Some ci =>
          let is_first := match r, lookupK (mo_first m) k with
                          | RVal v, Some v1 => v =? v1
                          | _, _ => false
                          end in
          let from_flight :=
              existsb (fun x => match x with (k', l, r') =>
                         (k' =? k) && result_eqb r' r && negb (memN l (ci_retd ci)) end) (mo_ended m) in
          let own := existsb (fun x => match x with (k', l, r') =>
                         (k' =? k) && result_eqb r' r && Nat.eqb l c end) (mo_ended m) in
          if (ci_key ci =? k) && negb (ci_returned ci)
             && (if ci_ran ci then own else true)
             && (if ci_late ci then is_first else (from_flight || is_first))
          then Some (mkMon (setN (mo_callers m) c (mkCI k (ci_late ci) (ci_retd ci) (ci_ran ci) true))
                           (mo_running m) (mo_ended m) (mo_first m)
                           (match r with
                            | RVal _ => if ci_ran ci then k :: mo_cachedkeys m else mo_cachedkeys m
                            | RErr _ => mo_cachedkeys m
                            end)
                           (if ci_ran ci then c :: mo_retleaders m else mo_retleaders m))
          else None
      | None => None
      end
  | EFinal k v =>
      match v, lookupK (mo_first m) k with
      | Some x, Some y => if x =? y then Some m else None
      | None, None => Some m
      | _, _ => None
      end
  end.

Fixpoint mon_run (m : mon) (es : list event) : option mon :=
  match es with
  | [] => Some m
  | e :: es' =>
      match mon_step m e with
      | Some m' => mon_run m' es'
      | None => None
      end
  end.

(* accepted: every event passes, nothing is left running, everybody returned *)
Definition mon_accepts (ncallers : nat) (es : list event) : bool :=
  match mon_run mon0 es with
  | Some m =>
      match mo_running m with [] => true | _ => false end
      && Nat.eqb (length (mo_callers m)) ncallers
      && forallb (fun ci => ci_returned (snd ci)) (mo_callers m)
  | None => false
  end.
