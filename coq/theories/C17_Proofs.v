(* C17_Proofs.v — lemmas for C17: invariants of the small-step model of Memoize
   over ALL schedules (arbitrary label sequences, any number of threads/keys,
   any clock values). *)
From Gogu Require Import Base C17_Model.
Local Open Scope Z_scope.

(* ------------------------------------------------------------ reachability *)

Definition reachable (s : state) : Prop := exists def tr, run (init def) tr = Some s.

Lemma run_app : forall tr1 tr2 s, run s (tr1 ++ tr2) =
  match run s tr1 with Some s1 => run s1 tr2 | None => None end.
Proof.
  induction tr1 as [|a tr1 IH]; intros tr2 s; cbn; [reflexivity|].
  destruct (step s a); [apply IH|reflexivity].
Qed.

Lemma reachable_step : forall s a s', reachable s -> step s a = Some s' -> reachable s'.
Proof.
  intros s a s' (def & tr & H) Hs. exists def, (tr ++ [a]). rewrite run_app, H. cbn. now rewrite Hs.
Qed.

Lemma reachable_run : forall tr s s', reachable s -> run s tr = Some s' -> reachable s'.
Proof.
  induction tr as [|a tr IH]; intros s s' Hr H; cbn in H.
  - now inversion H; subst.
  - destruct (step s a) as [s1|] eqn:E; [|discriminate]. eapply IH; [|exact H]. eapply reachable_step; eauto.
Qed.

(* an invariant of init preserved by every step holds in every reachable state *)
Lemma reachable_ind : forall (P : state -> Prop),
  (forall def, P (init def)) ->
  (forall s a s', P s -> step s a = Some s' -> P s') ->
  forall s, reachable s -> P s.
Proof.
  intros P H0 Hstep s (def & tr & H).
  assert (G : forall tr s0, P s0 -> run s0 tr = Some s -> P s).
  { clear tr H. induction tr as [|a tr IH]; intros s0 P0 H; cbn in H.
    - now inversion H; subst.
    - destruct (step s0 a) as [s1|] eqn:E; [|discriminate]. eapply IH; [|exact H]. eapply Hstep; eauto. }
  eapply G; [apply H0|exact H].
Qed.

(* --------------------------------------------------------------- tactics *)

(* case analysis of one step: one goal per transition of the model *)
Ltac step_cases H :=
  match type of H with
  | step ?s ?a = Some ?s' =>
      destruct a as [t k now | t | t r now1 now2 | t | t]; cbn [step] in H;
      [ destruct (s_thr s t) eqn:Et; try discriminate H
      | destruct (s_thr s t) as [ | k | | | | ] eqn:Et; try discriminate H;
        destruct (s_group s k) as [l|] eqn:Eg
      | destruct (s_thr s t) as [ | | k | | | ] eqn:Et; try discriminate H; destruct r as [?|?]
      | destruct (s_thr s t) as [ | | | k r | | ] eqn:Et; try discriminate H
      | destruct (s_thr s t) as [ | | | | k l | ] eqn:Et; try discriminate H;
        destruct (s_done s l) as [r|] eqn:Ed; try discriminate H ];
      inversion H; subst s'; clear H; cbn [s_def s_cache s_group s_done s_thr s_calls s_time s_started s_began s_endat s_doneat s_res] in *
  end.

Ltac upd :=
  unfold updN, updZ in *;
  repeat match goal with
  | H : context [Nat.eqb ?a ?b] |- _ => destruct (Nat.eqb_spec a b); subst
  | |- context [Nat.eqb ?a ?b] => destruct (Nat.eqb_spec a b); subst
  | H : context [Z.eqb ?a ?b] |- _ => destruct (Z.eqb_spec a b); subst
  | |- context [Z.eqb ?a ?b] => destruct (Z.eqb_spec a b); subst
  end.

(* ------------------------------------------------------------ the invariant *)

(* t owns the in-flight call of key k: it is executing fn, or fn has returned
   and the call has not yet been removed from the group *)
Definition owner (s : state) (t : tid) (k : key) : Prop :=
  s_thr s t = Leading k \/ exists r, s_thr s t = Finishing k r.

(* l has created a call (an execution of fn) for key k, now or in the past *)
Definition led (s : state) (l : tid) (k : key) : Prop :=
  s_thr s l = Leading k \/ (exists r, s_thr s l = Finishing k r) \/ (exists r, s_thr s l = Ret k r l false).

Record Inv (s : state) : Prop := mkInv {
  (* the group map and the thread states agree *)
  inv_group_owner : forall k l, s_group s k = Some l -> owner s l k;
  inv_owner_group : forall t k, owner s t k -> s_group s k = Some t;
  (* what fn returned is recorded exactly for the threads that executed it to the end *)
  inv_res : forall t r, s_res s t = Some r ->
      (exists k, s_thr s t = Finishing k r) \/ (exists k, s_thr s t = Ret k r t false);
  (* a published call result / a removal stamp: the leader has returned *)
  inv_done : forall l r, s_done s l = Some r -> exists k, s_thr s l = Ret k r l false;
  inv_doneat : forall l d, s_doneat s l = Some d -> exists k r, s_thr s l = Ret k r l false;
  (* stamps are in the past and ordered *)
  inv_started : forall t, s_thr s t <> Idle -> (s_started s t < s_time s)%nat;
  inv_leading : forall t k, s_thr s t = Leading k -> (s_started s t < s_began s t < s_time s)%nat;
  inv_finishing : forall t k r, s_thr s t = Finishing k r ->
      s_res s t = Some r /\ (s_started s t < s_began s t < s_endat s t)%nat /\ (s_endat s t < s_time s)%nat;
  (* a joiner waits for a call of its own key, led by another thread, that had
     not been removed from the group when the joiner started *)
  inv_joined : forall t k l, s_thr s t = Joined k l ->
      l <> t /\ led s l k /\ (s_began s l < s_time s)%nat /\
      forall d, s_doneat s l = Some d -> (s_started s t < d)%nat;
  (* the cache holds only successful results of executions of that key *)
  inv_cache : forall k v e l, s_cache s k = Some (v, e, l) ->
      s_res s l = Some (RVal v) /\ thr_key (s_thr s l) = Some k;
  (* provenance of every returned result *)
  inv_ret : forall t k r src cached, s_thr s t = Ret k r src cached ->
      s_res s src = Some r /\ thr_key (s_thr s src) = Some k /\
      (s_began s src < s_endat s src < s_time s)%nat /\
      (cached = true -> src <> t /\ (exists v, r = RVal v) /\ (s_endat s src < s_started s t)%nat) /\
      (cached = false -> s_done s src = Some r /\
          exists d, s_doneat s src = Some d /\ (s_endat s src < d < s_time s)%nat /\
                    (s_started s t < d)%nat /\ (src = t -> (s_started s t < s_began s t)%nat))
}.

Lemma inv_init : forall def, Inv (init def).
Proof.
  intros def. constructor; unfold owner, led; cbn; intros; try discriminate; try lia; try congruence.
  destruct H as [H|[r H]]; discriminate.
Qed.

Lemma inv_leading_group : forall s, Inv s -> forall t k, s_thr s t = Leading k -> s_group s k = Some t.
Proof. intros s HI t k H. apply (inv_owner_group _ HI). now left. Qed.

Lemma inv_finishing_group : forall s, Inv s -> forall t k r, s_thr s t = Finishing k r -> s_group s k = Some t.
Proof. intros s HI t k r H. apply (inv_owner_group _ HI). right. eauto. Qed.

Lemma inv_started_of : forall s, Inv s -> forall t x, s_thr s t = x -> x <> Idle -> (s_started s t < s_time s)%nat.
Proof. intros s HI t x H Hx. apply (inv_started _ HI). congruence. Qed.

(* --- automation: saturate the context with the consequences of Inv s --- *)

Definition Mark (P : Prop) : Prop := P.

Ltac learn H :=
  let T := type of H in
  lazymatch goal with
  | _ : Mark T |- _ => fail
  | _ => let N := fresh "Lm" in let N2 := fresh "Lf" in
         pose proof (H : Mark T) as N; pose proof H as N2
  end.

Ltac sat1 HI :=
  match goal with
  | H : s_thr _ _ = Ret _ _ _ _ |- _ => learn (inv_ret _ HI _ _ _ _ _ H)
  | H : s_thr _ _ = Joined _ _ |- _ => learn (inv_joined _ HI _ _ _ H)
  | H : s_thr _ _ = Finishing _ _ |- _ => learn (inv_finishing _ HI _ _ _ H)
  | H : s_thr _ _ = Leading _ |- _ => learn (inv_leading _ HI _ _ H)
  | H : s_thr _ _ = Leading _ |- _ => learn (inv_leading_group _ HI _ _ H)
  | H : s_thr _ _ = Finishing _ _ |- _ => learn (inv_finishing_group _ HI _ _ _ H)
  | H : s_cache _ _ = Some (_, _, _) |- _ => learn (inv_cache _ HI _ _ _ _ H)
  | H : s_res _ _ = Some _ |- _ => learn (inv_res _ HI _ _ H)
  | H : s_done _ _ = Some _ |- _ => learn (inv_done _ HI _ _ H)
  | H : s_doneat _ _ = Some _ |- _ => learn (inv_doneat _ HI _ _ H)
  | H : s_group _ _ = Some _ |- _ => learn (inv_group_owner _ HI _ _ H)
  | H : s_thr _ _ <> Idle |- _ => learn (inv_started _ HI _ H)
  | H : s_thr _ _ = ?x |- _ =>
      lazymatch x with Idle => fail | _ => learn (inv_started_of _ HI _ _ H ltac:(discriminate)) end
  end.

Lemma cache_get_some : forall s k now v l, cache_get s k now = Some (v, l) ->
  exists e, s_cache s k = Some (v, e, l) /\ live now e = true.
Proof.
  unfold cache_get. intros s k now v l H. destruct (s_cache s k) as [[[v0 e0] l0]|]; [|discriminate].
  destruct (live now e0) eqn:E; [|discriminate]. inversion H; subst. eauto.
Qed.

Lemma cache_get_none : forall s k now, cache_get s k now = None ->
  s_cache s k = None \/ exists v e l, s_cache s k = Some (v, e, l) /\ live now e = false.
Proof.
  unfold cache_get. intros s k now H. destruct (s_cache s k) as [[[v0 e0] l0]|]; [|now left].
  destruct (live now e0) eqn:E; [discriminate|]. right. eauto.
Qed.

Ltac cg := repeat match goal with
  | H : context [match cache_get ?s ?k ?n with Some _ => _ | None => _ end] |- _ =>
      destruct (cache_get s k n) as [[? ?]|] eqn:?
  | |- context [match cache_get ?s ?k ?n with Some _ => _ | None => _ end] =>
      destruct (cache_get s k n) as [[? ?]|] eqn:?
  end.

Ltac break1 :=
  match goal with
  | H : owner _ _ _ |- _ => unfold owner in H
  | H : led _ _ _ |- _ => unfold led in H
  | H : cache_get _ _ _ = Some _ |- _ => apply cache_get_some in H
  | H : _ /\ _ |- _ => destruct H
  | H : exists _, _ |- _ => destruct H
  | H : _ \/ _ |- _ => destruct H
  | H : true = true -> _ |- _ => specialize (H eq_refl)
  | H : false = false -> _ |- _ => specialize (H eq_refl)
  | H : true = false -> _ |- _ => clear H
  | H : false = true -> _ |- _ => clear H
  | H : Some _ = Some _ |- _ => inversion H; subst; clear H
  | H : Some _ = None |- _ => discriminate H
  | H : None = Some _ |- _ => discriminate H
  | H : ?a = ?b |- _ =>
      lazymatch type of a with tstate => idtac end;
      lazymatch a with s_thr _ _ => fail | _ => idtac end;
      lazymatch b with s_thr _ _ => fail | _ => idtac end;
      first [ discriminate H | progress (inversion H; subst; clear H) ]
  | H : thr_key ?x = Some _, E : ?x = _ |- _ => rewrite E in H; cbn [thr_key] in H
  | H : ?x = ?a, H' : ?x = ?b |- _ =>
      lazymatch x with s_thr _ _ => idtac end;
      first [ rewrite H in H'; discriminate H'
            | progress (rewrite H in H'; inversion H'; subst; clear H') ]
  end.

Ltac sat HI := unfold owner, led in *; repeat first [ break1 | sat1 HI ].

Ltac rwthr := repeat match goal with E : s_thr ?s ?t = _ |- context [s_thr ?s ?t] => rewrite E end.
Ltac fin0 := subst; unfold tick in *; rwthr; cbn [thr_key] in *; repeat split; intros; eauto; try congruence; try lia.
Ltac fin := fin0; try solve [left; fin0 | right; fin0 | right; left; fin0 | right; right; fin0 | eexists; fin0 | eexists; eexists; fin0].

(* one goal per clause and transition: unfold, split on the transition, saturate with Inv s *)
Ltac go HI H :=
  unfold owner, led in *; step_cases H; cg; upd; sat HI; repeat split; intros; sat HI; fin.

(* clause 1: the invariant is preserved by every step of every thread *)
Lemma inv_step : forall s a s', Inv s -> step s a = Some s' -> Inv s'.
Proof.
  intros s a s' HI H. constructor.
  - intros kk ll Hg. go HI H.
  - intros tt kk Ho. go HI H.
  - intros tt rr Hr. go HI H.
  - intros ll rr Hd. go HI H.
  - intros ll dd Hd. go HI H.
  - intros tt Hn. go HI H.
  - intros tt kk Hl. go HI H.
  - intros tt kk rr Hf. go HI H.
  - intros tt kk ll Hj. go HI H.
  - intros kk vv ee ll Hc. go HI H.
  - intros tt kk rr src cc Hr. destruct cc; go HI H.
Qed.

Lemma inv_reachable : forall s, reachable s -> Inv s.
Proof. apply reachable_ind; [apply inv_init|]. intros s a s' HI H. eapply inv_step; eauto. Qed.

Lemma inv_run : forall tr s s', Inv s -> run s tr = Some s' -> Inv s'.
Proof.
  induction tr as [|a tr IH]; intros s s' HI H; cbn in H.
  - now inversion H; subst.
  - destruct (step s a) as [s1|] eqn:E; [|discriminate]. eapply IH; [|exact H]. eapply inv_step; eauto.
Qed.

(* thread keys never change *)
Lemma step_thr_key : forall s a s' t k,
  step s a = Some s' -> thr_key (s_thr s t) = Some k -> thr_key (s_thr s' t) = Some k.
Proof.
  intros s a s' t0 k0 H Hk. step_cases H; upd; try assumption;
    try (rewrite Et in Hk; cbn in Hk; try discriminate; inversion Hk; subst; reflexivity).
Qed.

Lemma run_thr_key : forall tr s s' t k,
  run s tr = Some s' -> thr_key (s_thr s t) = Some k -> thr_key (s_thr s' t) = Some k.
Proof.
  induction tr as [|a tr IH]; intros s s' t k H Hk; cbn in H.
  - now inversion H; subst.
  - destruct (step s a) as [s1|] eqn:E; [|discriminate]. eapply IH; [exact H|]. eapply step_thr_key; eauto.
Qed.

(* every enabled step advances the logical clock by one *)
Lemma step_time : forall s a s', step s a = Some s' -> s_time s' = S (s_time s).
Proof. intros s a s' H. step_cases H; reflexivity. Qed.
