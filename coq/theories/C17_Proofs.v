(* C17_Proofs.v — lemmas for C17: invariants of the small-step model of Memoize
   over ALL schedules (arbitrary label sequences, any number of threads/keys,
   any clock values). *)
From Gogu Require Import Base C17_Model.
Local Open Scope Z_scope.

(* ------------------------------------------------------------ reachability *)

Definition reachable (s : state) : Prop := exists def tr, run (init def) tr = Some s.

Lemma run_app : forall tr1 tr2 s, run s (tr1 ++ tr2) =
  match run s tr1 with Some s1 => run s1 tr2 | None => None end.
Proof.
  induction tr1 as [|a tr1 IH]; intros tr2 s; cbn; [reflexivity|].
  destruct (step s a); [apply IH|reflexivity].
Qed.

Lemma reachable_step : forall s a s', reachable s -> step s a = Some s' -> reachable s'.
Proof.
  intros s a s' (def & tr & H) Hs. exists def, (tr ++ [a]). rewrite run_app, H. cbn. now rewrite Hs.
Qed.

Lemma reachable_run : forall tr s s', reachable s -> run s tr = Some s' -> reachable s'.
Proof.
  induction tr as [|a tr IH]; intros s s' Hr H; cbn in H.
  - now inversion H; subst.
  - destruct (step s a) as [s1|] eqn:E; [|discriminate]. eapply IH; [|exact H]. eapply reachable_step; eauto.
Qed.

(* an invariant of init preserved by every step holds in every reachable state *)
Lemma reachable_ind : forall (P : state -> Prop),
  (forall def, P (init def)) ->
  (forall s a s', P s -> step s a = Some s' -> P s') ->
  forall s, reachable s -> P s.
Proof.
  intros P H0 Hstep s (def & tr & H).
  assert (G : forall tr s0, P s0 -> run s0 tr = Some s -> P s).
  { clear tr H. induction tr as [|a tr IH]; intros s0 P0 H; cbn in H.
    - now inversion H; subst.
    - destruct (step s0 a) as [s1|] eqn:E; [|discriminate]. eapply IH; [|exact H]. eapply Hstep; eauto. }
  eapply G; [apply H0|exact H].
Qed.

(* --------------------------------------------------------------- tactics *)

(* case analysis of one step: one goal per transition of the model *)
Ltac step_cases H :=
  match type of H with
  | step ?s ?a = Some ?s' =>
      destruct a as [t k now | t | t r now1 now2 | t | t]; cbn [step] in H;
      [ destruct (s_thr s t) eqn:Et; try discriminate H
      | destruct (s_thr s t) as [ | k | | | | ] eqn:Et; try discriminate H;
        destruct (s_group s k) as [l|] eqn:Eg
      | destruct (s_thr s t) as [ | | k | | | ] eqn:Et; try discriminate H
      | destruct (s_thr s t) as [ | | | k r | | ] eqn:Et; try discriminate H
      | destruct (s_thr s t) as [ | | | | k l | ] eqn:Et; try discriminate H;
        destruct (s_done s l) as [r|] eqn:Ed; try discriminate H ];
      inversion H; subst s'; clear H; cbn [s_def s_cache s_group s_done s_thr s_calls s_time s_started s_began s_doneat s_res] in *
  end.

Ltac upd :=
  unfold updN, updZ in *;
  repeat match goal with
  | H : context [Nat.eqb ?a ?b] |- _ => destruct (Nat.eqb_spec a b); subst
  | |- context [Nat.eqb ?a ?b] => destruct (Nat.eqb_spec a b); subst
  | H : context [Z.eqb ?a ?b] |- _ => destruct (Z.eqb_spec a b); subst
  | |- context [Z.eqb ?a ?b] => destruct (Z.eqb_spec a b); subst
  end.

(* ------------------------------------------------------------ the invariant *)

(* t owns the in-flight call of key k *)
Definition owner (s : state) (t : tid) (k : key) : Prop :=
  s_thr s t = Leading k \/ exists r, s_thr s t = Finishing k r.

(* t's fn has returned (it is past the execution) *)
Definition past_fn (ts : tstate) : Prop :=
  match ts with Finishing _ _ | Ret _ _ _ _ => True | _ => False end.

Record Inv (s : state) : Prop := mkInv {
  (* the group map and the thread states agree *)
  inv_group_owner : forall k l, s_group s k = Some l -> owner s l k;
  inv_owner_group : forall t k, owner s t k -> s_group s k = Some t;
  (* what fn returned is recorded exactly for threads past fn *)
  inv_res_past : forall t r, s_res s t = Some r -> past_fn (s_thr s t);
  inv_fin_res : forall t k r, s_thr s t = Finishing k r -> s_res s t = Some r;
  (* a published call result: the leader has returned it, stamps set *)
  inv_done : forall l r, s_done s l = Some r ->
      s_res s l = Some r /\ (exists k, s_thr s l = Ret k r l false) /\ exists d, s_doneat s l = Some d;
  inv_doneat : forall l d, s_doneat s l = Some d -> exists r, s_done s l = Some r;
  (* stamps are in the past *)
  inv_started : forall t, (s_started s t <= s_time s)%nat;
  (* a joiner waits for a call of its own key that was in flight when it started *)
  inv_joined : forall t k l, s_thr s t = Joined k l ->
      thr_key (s_thr s l) = Some k /\
      (s_doneat s l = None \/ exists d, s_doneat s l = Some d /\ (s_started s t <= d)%nat);
  (* the cache holds only successful results of executions of that key *)
  inv_cache : forall k v e l, s_cache s k = Some (v, e, l) ->
      s_res s l = Some (RVal v) /\ thr_key (s_thr s l) = Some k;
  (* provenance of every returned result *)
  inv_ret : forall t k r src cached, s_thr s t = Ret k r src cached ->
      s_res s src = Some r /\ thr_key (s_thr s src) = Some k /\
      (cached = true -> exists v, r = RVal v) /\
      (cached = false -> exists d, s_doneat s src = Some d /\ (s_started s t <= d)%nat)
}.

Lemma inv_init : forall def, Inv (init def).
Proof.
  intros def. constructor; cbn; intros; try discriminate; try lia.
  destruct H as [H|[r H]]; discriminate.
Qed.

Lemma owner_cases : forall s t k, owner s t k -> thr_key (s_thr s t) = Some k /\ ~ (s_thr s t = Idle).
Proof. intros s t k [H|[r H]]; rewrite H; split; cbn; congruence. Qed.

(* thread keys never change *)
Lemma step_thr_key : forall s a s' t k,
  step s a = Some s' -> thr_key (s_thr s t) = Some k -> thr_key (s_thr s' t) = Some k.
Proof.
  intros s a s' t0 k0 H Hk. step_cases H; upd; try assumption;
    try (rewrite Et in Hk; cbn in Hk; try discriminate; inversion Hk; subst; reflexivity).
Qed.

Lemma run_thr_key : forall tr s s' t k,
  run s tr = Some s' -> thr_key (s_thr s t) = Some k -> thr_key (s_thr s' t) = Some k.
Proof.
  induction tr as [|a tr IH]; intros s s' t k H Hk; cbn in H.
  - now inversion H; subst.
  - destruct (step s a) as [s1|] eqn:E; [|discriminate]. eapply IH; [exact H|]. eapply step_thr_key; eauto.
Qed.

(* every enabled step advances the logical clock by one *)
Lemma step_time : forall s a s', step s a = Some s' -> s_time s' = S (s_time s).
Proof. intros s a s' H. step_cases H; reflexivity. Qed.
