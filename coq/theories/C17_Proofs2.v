(* C17_Proofs2.v — the clauses of C17 derived from the invariant of C17_Proofs.v
   (all statements are about arbitrary schedules: any label sequence from
   [init def], any number of threads and keys, any clock oracle). *)
From Gogu Require Import Base C17_Model C17_Proofs.
Local Open Scope Z_scope.

(* ------------------------------------------------ clause 2: mutual exclusion *)

Lemma owner_unique : forall s, Inv s -> forall t1 t2 k, owner s t1 k -> owner s t2 k -> t1 = t2.
Proof.
  intros s HI t1 t2 k H1 H2.
  apply (inv_owner_group _ HI) in H1. apply (inv_owner_group _ HI) in H2. congruence.
Qed.

Lemma executing_unique : forall s, reachable s -> forall t1 t2 k,
  s_thr s t1 = Leading k -> s_thr s t2 = Leading k -> t1 = t2.
Proof.
  intros s Hr t1 t2 k H1 H2. apply (owner_unique s (inv_reachable _ Hr) t1 t2 k); now left.
Qed.

(* the group entry of a key is exactly its owner *)
Lemma group_iff_owner : forall s, Inv s -> forall t k, s_group s k = Some t <-> owner s t k.
Proof. intros s HI t k. split; [apply (inv_group_owner _ HI)|apply (inv_owner_group _ HI)]. Qed.

(* s_calls counts the executions: it moves exactly when a thread becomes
   Leading, by one, and only when nobody owns the key *)
Lemma calls_step : forall s a s' k, Inv s -> step s a = Some s' ->
  (s_calls s' k = s_calls s k /\ forall t, s_thr s' t = Leading k -> s_thr s t = Leading k) \/
  (exists t, a = LEnter t /\ s_thr s t = Looked k /\ s_thr s' t = Leading k /\
             s_calls s' k = S (s_calls s k) /\ (forall t', ~ owner s t' k) /\
             forall t', t' <> t -> s_thr s' t' = s_thr s t').
Proof.
  intros s a s' kk HI H. step_cases H; cg; upd;
    try (left; split; [reflexivity|intros tt Ht; upd; sat HI; fin]; fail).
  right. exists t. repeat split; auto; upd; try congruence.

  - intros t' Ho. apply (inv_owner_group _ HI) in Ho. congruence.
  - intros t' Hn. upd; congruence.
Qed.

(* ------------------------------------------------ stamps are written once *)

Lemma stamps_stable : forall s a s', Inv s -> step s a = Some s' ->
  (forall t, s_thr s t <> Idle -> s_started s' t = s_started s t) /\
  (forall l k, led s l k -> s_began s' l = s_began s l /\ led s' l k) /\
  (forall l r, s_res s l = Some r -> s_res s' l = Some r /\ s_endat s' l = s_endat s l) /\
  (forall l d, s_doneat s l = Some d -> s_doneat s' l = Some d) /\
  (forall l r, s_done s l = Some r -> s_done s' l = Some r) /\
  (forall t k r src c, s_thr s t = Ret k r src c -> s_thr s' t = Ret k r src c).
Proof.
  intros s a s' HI H. split; [|split; [|split; [|split; [|split]]]].
  - intros tt Hn. go HI H.
  - intros ll kk Hl. go HI H.
  - intros ll rr Hl. go HI H.
  - intros ll dd Hl. go HI H.
  - intros ll rr Hl. go HI H.
  - intros tt kk rr src cc Hl. go HI H.
Qed.

(* ------------------------------------------------ clause 3: provenance *)

(* l has executed fn for key k to the end and fn returned r *)
Definition executed (s : state) (l : tid) (k : key) (r : result) : Prop :=
  s_thr s l = Finishing k r \/ s_thr s l = Ret k r l false.

Lemma res_executed : forall s, Inv s -> forall l k r,
  (s_res s l = Some r /\ thr_key (s_thr s l) = Some k) <-> executed s l k r.
Proof.
  intros s HI l k r. unfold executed. split.
  - intros [H1 H2]. sat HI; fin.
  - intros [H|H]; sat HI; fin.
Qed.

(* Every returned result was produced by an execution of fn for the same key
   (led by [src]); a result that did not come from the cache comes from a call
   that was still in the group when the caller started (so the in-flight period
   [s_began src, d] of the execution meets the caller's call, which started
   before d and returned after it); a cached result comes from an execution
   whose fn had returned before the caller started (it preceded the call). *)
Lemma ret_provenance : forall s, reachable s -> forall t k r src cached,
  s_thr s t = Ret k r src cached ->
  s_res s src = Some r /\ executed s src k r /\
  (s_began s src < s_endat s src < s_time s)%nat /\
  (cached = false ->
     s_done s src = Some r /\
     exists d, s_doneat s src = Some d /\ (s_endat s src < d < s_time s)%nat /\
               (s_started s t < d)%nat /\
               (src = t -> (s_started s t < s_began s t)%nat)) /\
  (cached = true ->
     src <> t /\ (exists v, r = RVal v) /\ (s_endat s src < s_started s t)%nat).
Proof.
  intros s Hr t k r src cached H. pose proof (inv_reachable _ Hr) as HI.
  destruct (inv_ret _ HI _ _ _ _ _ H) as (A & B & C & D & E).
  split; [exact A|]. split; [apply (res_executed _ HI); auto|]. auto.
Qed.

(* the step at which a result is returned: a non-cached result is returned at
   or after the removal of its call from the group (the caller's call covers
   the instant d), a cached one in the caller's very first step *)
Lemma return_step : forall s a s' t k r src cached, reachable s -> step s a = Some s' ->
  s_thr s' t = Ret k r src cached -> s_thr s t <> Ret k r src cached ->
  label_tid a = t /\
  (cached = false -> exists d, s_doneat s' src = Some d /\ (s_started s t < d <= s_time s)%nat) /\
  (cached = true -> exists now v e, a = LStart t k now /\ r = RVal v /\
                    s_cache s k = Some (v, e, src) /\ live now e = true /\
                    s_calls s' = s_calls s /\ s_started s' t = s_time s).
Proof.
  intros s a s' tt kk rr src cc Hr H Hret Hn. pose proof (inv_reachable _ Hr) as HI.
  destruct cc; go HI H; try (repeat eexists; eauto; fail).
Qed.

(* ------------------------------------------------ clause 4: same execution, same result *)

Lemma same_src_same_result : forall s, reachable s -> forall t1 t2 k1 k2 r1 r2 src c1 c2,
  s_thr s t1 = Ret k1 r1 src c1 -> s_thr s t2 = Ret k2 r2 src c2 -> r1 = r2 /\ k1 = k2.
Proof.
  intros s Hr t1 t2 k1 k2 r1 r2 src c1 c2 H1 H2. pose proof (inv_reachable _ Hr) as HI.
  destruct (inv_ret _ HI _ _ _ _ _ H1) as (A1 & B1 & _).
  destruct (inv_ret _ HI _ _ _ _ _ H2) as (A2 & B2 & _). split; congruence.
Qed.

(* a waiting joiner will get exactly what its leader's fn returned *)
Lemma joiner_gets_leader_result : forall s a s' t k l, reachable s ->
  s_thr s t = Joined k l -> step s a = Some s' -> label_tid a = t ->
  exists r, a = LWake t /\ s_thr s' t = Ret k r l false /\ s_res s l = Some r /\ s_thr s l = Ret k r l false.
Proof.
  intros s a s' tt kk ll Hr Hj H Ht. pose proof (inv_reachable _ Hr) as HI.
  step_cases H; cbn [label_tid] in Ht; subst; try congruence.
  rewrite Et in Hj. inversion Hj; subst. exists r. upd; [|congruence]. sat HI; fin.
Qed.

(* ------------------------------------------------ clause 5: the cached value is served *)

(* one step: a caller whose lookup finds a live entry returns it at once; no
   component of the state other than the caller's thread state and ghost
   stamps changes (in particular fn is not invoked: s_calls is unchanged) *)
Lemma cached_hit_step : forall s t k now v e l,
  s_thr s t = Idle -> s_cache s k = Some (v, e, l) -> live now e = true ->
  exists s', step s (LStart t k now) = Some s' /\
             s_thr s' t = Ret k (RVal v) l true /\
             s_calls s' = s_calls s /\ s_cache s' = s_cache s /\ s_group s' = s_group s /\
             s_done s' = s_done s /\ s_res s' = s_res s /\
             forall t', t' <> t -> s_thr s' t' = s_thr s t'.
Proof.
  intros s t k now v e l Ht Hc Hl. cbn [step]. rewrite Ht. unfold cache_get. rewrite Hc, Hl.
  eexists. split; [reflexivity|]. cbn. repeat split; intros; upd; try reflexivity; congruence.
Qed.

(* the clock reads that are compared with a deadline *)
Definition label_gets (a : label) : list Z :=
  match a with
  | LStart _ _ now => [now]
  | LFnEnd _ _ now1 _ => [now1]
  | _ => []
  end.

(* along the schedule tr from s, every clock read of a step that concerns key
   k and is compared with a deadline finds the deadline e not yet passed *)
Fixpoint reads_live (k : key) (e : Z) (s : state) (tr : list label) : Prop :=
  match tr with
  | [] => True
  | a :: tr' =>
      (label_key s a = Some k -> Forall (fun now => live now e = true) (label_gets a)) /\
      match step s a with
      | Some s1 => reads_live k e s1 tr'
      | None => True
      end
  end.

(* what the suffix preserves *)
Record Served (k : key) (v e : Z) (l : tid) (s0 s : state) : Prop := mkServed {
  sv_cache : s_cache s k = Some (v, e, l);
  sv_new : forall t, s_thr s0 t = Idle ->
      s_thr s t = Idle \/ (exists k', thr_key (s_thr s t) = Some k' /\ k' <> k) \/
      s_thr s t = Ret k (RVal v) l true;
  sv_looked : forall t, s_thr s t = Looked k -> s_thr s0 t = Looked k;
  sv_owner : forall t, owner s t k -> s_thr s0 t = Looked k \/ owner s0 t k;
  sv_calls : (forall t, s_thr s0 t <> Looked k) -> s_calls s k = s_calls s0 k
}.

Lemma served_refl : forall k v e l s, s_cache s k = Some (v, e, l) -> Served k v e l s s.
Proof.
  intros. constructor; auto.
Qed.

Lemma served_step : forall k v e l s0 s a s',
  Served k v e l s0 s -> step s a = Some s' ->
  (label_key s a = Some k -> Forall (fun now => live now e = true) (label_gets a)) ->
  Served k v e l s0 s'.
Proof.
  intros kk vv ee ll s0 s a s' [Hc Hn Hl Ho Hcalls] H Hlive.
  assert (CG : forall now, live now ee = true -> cache_get s kk now = Some (vv, ll)).
  { intros now L. unfold cache_get. now rewrite Hc, L. }
  constructor.
  - (* cache *)
    unfold label_key, label_gets in Hlive.
    step_cases H; cbn [label_tid] in Hlive; try assumption.
    destruct (Z.eq_dec k kk) as [->|Hk].
    + rewrite Et in Hlive. cbn in Hlive. specialize (Hlive eq_refl).
      inversion Hlive; subst. rewrite (CG _ H1). assumption.
    + destruct (cache_get s k now1); [assumption|]. unfold updZ.
      destruct (Z.eqb_spec kk k); [congruence|assumption].
  - (* threads that start in the suffix *)
    intros tt Htt. specialize (Hn tt Htt). unfold label_key, label_gets in Hlive.
    step_cases H; cbn [label_tid] in Hlive; upd; try assumption;
      try (rewrite Et in Hn; destruct Hn as [Hn|[(k' & Hn & Hk)|Hn]]; cbn in Hn; try discriminate;
           inversion Hn; subst; right; left; eexists; cbn; split; [reflexivity|assumption]; fail).
    destruct (Z.eq_dec k kk) as [->|Hk].
    + specialize (Hlive eq_refl). inversion Hlive; subst. rewrite (CG _ H1). right. right. reflexivity.
    + right. left. exists k. split; [|assumption]. destruct (cache_get s k now) as [[? ?]|]; reflexivity.
  - (* no new miss on k *)
    intros tt Htt. apply Hl. unfold label_key, label_gets in Hlive.
    step_cases H; cbn [label_tid] in Hlive; upd; try assumption; try discriminate.
    destruct (Z.eq_dec k kk) as [->|Hk].
    + specialize (Hlive eq_refl). inversion Hlive; subst. rewrite (CG _ H1) in Htt. discriminate.
    + destruct (cache_get s k now) as [[? ?]|]; [discriminate|]. inversion Htt; congruence.
  - (* owners come from old misses *)
    intros tt Htt. unfold owner in *.
    step_cases H; cg; upd; try (apply Ho; assumption);
      try (destruct Htt as [Htt|[r' Htt]]; try discriminate; 
           inversion Htt; subst; first [ left; apply Hl; assumption | apply Ho; left; assumption]; fail).
  - (* no new execution when nobody had missed before *)
    intros Hno. rewrite <- (Hcalls Hno).
    step_cases H; upd; try reflexivity.
    exfalso. apply (Hno t). apply Hl. assumption.
Qed.


Lemma served_run : forall k v e l s0 tr s s',
  Served k v e l s0 s -> run s tr = Some s' -> reads_live k e s tr -> Served k v e l s0 s'.
Proof.
  intros k v e l s0 tr. induction tr as [|a tr IH]; intros s s' HS H HL; cbn in H.
  - now inversion H; subst.
  - destruct HL as [HL1 HL2]. destruct (step s a) as [s1|] eqn:E; [|discriminate].
    eapply IH; [|exact H|exact HL2]. eapply served_step; eauto.
Qed.

(* whole-history form: once a successful value is in the cache, along any
   continuation in which the clock reads concerning k do not pass its deadline,
   the entry stays, every call that starts in the continuation returns that
   value from the cache (it never executes fn), the only threads that execute
   fn for k are those that had missed the cache before the store, and if there
   is none, fn is not invoked for k at all *)
Lemma cached_value_served : forall s k v e l tr s',
  s_cache s k = Some (v, e, l) -> run s tr = Some s' -> reads_live k e s tr ->
  s_cache s' k = Some (v, e, l) /\
  (forall t, s_thr s t = Idle -> thr_key (s_thr s' t) = Some k -> s_thr s' t = Ret k (RVal v) l true) /\
  (forall t, owner s' t k -> s_thr s t = Looked k \/ owner s t k) /\
  ((forall t, s_thr s t <> Looked k) -> s_calls s' k = s_calls s k).
Proof.
  intros s k v e l tr s' Hc H HL.
  destruct (served_run k v e l s tr s s' (served_refl _ _ _ _ _ Hc) H HL) as [A B C D E].
  repeat split; auto.
  intros t Ht Hk. destruct (B t Ht) as [B1|[(k' & B1 & B2)|B1]]; auto.
  - rewrite B1 in Hk. discriminate.
  - congruence.
Qed.

(* ------------------------------------------------ clause 6: errors are never cached *)

(* whatever is in the cache of k is the successful result of an execution of fn for k *)
Lemma cache_holds_successes : forall s, reachable s -> forall k v e l,
  s_cache s k = Some (v, e, l) -> s_res s l = Some (RVal v) /\ executed s l k (RVal v).
Proof.
  intros s Hr k v e l H. pose proof (inv_reachable _ Hr) as HI.
  destruct (inv_cache _ HI _ _ _ _ H) as [A B]. split; [exact A|]. apply (res_executed _ HI). auto.
Qed.

(* an execution that ends with an error leaves the whole cache as it was, and
   the error is what the leader will return *)
Lemma error_not_stored : forall s t x now1 now2 s',
  step s (LFnEnd t (RErr x) now1 now2) = Some s' ->
  s_cache s' = s_cache s /\ exists k, s_thr s t = Leading k /\ s_thr s' t = Finishing k (RErr x).
Proof.
  intros s t x now1 now2 s' H. cbn [step] in H. destruct (s_thr s t) eqn:Et; try discriminate.
  inversion H; subst; cbn. split; [reflexivity|]. eexists. split; [reflexivity|]. upd; congruence.
Qed.

(* the only step that writes the cache entry of k is the end of a successful
   execution of k by its leader, when the lookup of SetDefault misses *)
Lemma cache_write_step : forall s a s' k, step s a = Some s' -> s_cache s' k <> s_cache s k ->
  exists t v now1 now2, a = LFnEnd t (RVal v) now1 now2 /\ s_thr s t = Leading k /\
    cache_get s k now1 = None /\ s_cache s' k = Some (v, deadline (s_def s) now2, t).
Proof.
  intros s a s' kk H Hne. step_cases H; try congruence.
  destruct (cache_get s k now1) as [[? ?]|] eqn:E; [congruence|].
  unfold updZ in *. destruct (Z.eqb_spec kk k); [subst|congruence].
  do 4 eexists. repeat split; eauto.
Qed.

(* an error result is delivered to the leader and to every joiner *)
Lemma error_returned : forall s, reachable s -> forall t k x src c,
  s_thr s t = Ret k (RErr x) src c -> c = false /\ s_res s src = Some (RErr x).
Proof.
  intros s Hr t k x src c H. pose proof (inv_reachable _ Hr) as HI.
  destruct (inv_ret _ HI _ _ _ _ _ H) as (A & _ & _ & D & _). split; [|exact A].
  destruct c; [|reflexivity]. destruct (D eq_refl) as (_ & (v & Hv) & _). discriminate.
Qed.

(* ------------------------------------------------ clause 7: key independence *)

(* every enabled label concerns exactly one key *)
Lemma enabled_has_key : forall s a s', step s a = Some s' -> exists k, label_key s a = Some k.
Proof.
  intros s a s' H. unfold label_key. step_cases H; cbn [label_tid]; try rewrite Et; cbn; eauto.
Qed.

(* frame: a step that concerns key k leaves the cache, the group and the
   invocation count of every other key, and the state of every other thread *)
Lemma frame_other_keys : forall s a s' k, step s a = Some s' -> label_key s a = Some k ->
  forall k', k' <> k ->
    s_cache s' k' = s_cache s k' /\ s_group s' k' = s_group s k' /\ s_calls s' k' = s_calls s k'.
Proof.
  intros s a s' kk H Hk k' Hne. unfold label_key in Hk.
  step_cases H; cbn [label_tid] in Hk; try rewrite Et in Hk; cbn in Hk; inversion Hk; subst;
    cg; upd; repeat split; congruence.
Qed.

Lemma frame_other_threads : forall s a s', step s a = Some s' ->
  forall t', t' <> label_tid a ->
    s_thr s' t' = s_thr s t' /\ s_res s' t' = s_res s t' /\ s_done s' t' = s_done s t'.
Proof.
  intros s a s' H t' Hne. step_cases H; cbn [label_tid] in Hne; upd; repeat split; congruence.
Qed.

(* the observable (non-ghost-stamp) part of two states coincides *)
Record sim (s1 s2 : state) : Prop := mkSim {
  sim_def : s_def s1 = s_def s2;
  sim_cache : forall k, s_cache s1 k = s_cache s2 k;
  sim_group : forall k, s_group s1 k = s_group s2 k;
  sim_done : forall t, s_done s1 t = s_done s2 t;
  sim_thr : forall t, s_thr s1 t = s_thr s2 t;
  sim_calls : forall k, s_calls s1 k = s_calls s2 k;
  sim_res : forall t, s_res s1 t = s_res s2 t;
  sim_time : s_time s1 = s_time s2
}.

Ltac step_cases2 H :=
  match type of H with
  | step ?s ?a = Some ?s' =>
      destruct a as [t2 k2 nowb | t2 | t2 r2 nowb1 nowb2 | t2 | t2]; cbn [step] in H;
      [ destruct (s_thr s t2) eqn:Et2; try discriminate H
      | destruct (s_thr s t2) as [ | k2 | | | | ] eqn:Et2; try discriminate H;
        destruct (s_group s k2) as [l2|] eqn:Eg2
      | destruct (s_thr s t2) as [ | | k2 | | | ] eqn:Et2; try discriminate H; destruct r2 as [?|?]
      | destruct (s_thr s t2) as [ | | | k2 r2 | | ] eqn:Et2; try discriminate H
      | destruct (s_thr s t2) as [ | | | | k2 l2 | ] eqn:Et2; try discriminate H;
        destruct (s_done s l2) as [r2|] eqn:Ed2; try discriminate H ];
      inversion H; subst s'; clear H
  end.

Ltac simp_step := cbn [step s_def s_cache s_group s_done s_thr s_calls s_time s_started s_began s_endat s_doneat s_res].

Lemma updN_same : forall A (f : nat -> A) t a, updN f t a t = a.
Proof. intros. unfold updN. now rewrite Nat.eqb_refl. Qed.
Lemma updN_other : forall A (f : nat -> A) t a t', t' <> t -> updN f t a t' = f t'.
Proof. intros. unfold updN. destruct (Nat.eqb_spec t' t); congruence. Qed.
Lemma updZ_same : forall A (f : Z -> A) k a, updZ f k a k = a.
Proof. intros. unfold updZ. now rewrite Z.eqb_refl. Qed.
Lemma updZ_other : forall A (f : Z -> A) k a k', k' <> k -> updZ f k a k' = f k'.
Proof. intros. unfold updZ. destruct (Z.eqb_spec k' k); congruence. Qed.

Ltac neq HI := first [ congruence | intro; subst; sat HI; fin ].
Ltac rw1 :=
  match goal with
  | E : s_thr ?s ?t = _ |- context [s_thr ?s ?t] => rewrite E
  | E : s_group ?s ?t = _ |- context [s_group ?s ?t] => rewrite E
  | E : s_done ?s ?t = _ |- context [s_done ?s ?t] => rewrite E
  end.
Ltac crunch HI := repeat first
  [ progress simp_step
  | progress unfold cache_get
  | rewrite updN_same | rewrite updZ_same
  | rewrite updN_other by neq HI
  | rewrite updZ_other by neq HI
  | rw1 ].

(* two enabled steps of different threads that concern different keys: neither
   disables the other and the two orders lead to the same state up to the ghost
   stamps *)
Lemma diamond : forall s a b sa sb, Inv s ->
  step s a = Some sa -> step s b = Some sb ->
  label_tid a <> label_tid b -> label_key s a <> label_key s b ->
  exists sab sba, step sa b = Some sab /\ step sb a = Some sba /\ sim sab sba.
Proof.
  intros s a b sa sb HI Ha Hb Ht Hk. unfold label_key in Hk.
  step_cases Ha; cg; step_cases2 Hb; cg; cbn [label_tid] in Ht, Hk;
  try rewrite Et in Hk; try rewrite Et2 in Hk; cbn [thr_key] in Hk.
  all: eexists; eexists; split; [|split]; [crunch HI; try reflexivity | crunch HI; try reflexivity| ].
  all: constructor; intros; unfold cache_get in *; crunch HI;
       repeat match goal with E : match s_cache _ _ with Some _ => _ | None => _ end = _ |- _ => rewrite E end;
       unfold tick; simp_step; upd; try reflexivity; try congruence.
Qed.

(* ------------------------------------------------ clause 2 in time: executions of one key never overlap *)

(* the in-flight periods [s_began l, s_doneat l] of two executions of one key are disjoint *)
Definition Excl (s : state) : Prop :=
  forall l1 l2 k, l1 <> l2 -> led s l1 k -> led s l2 k ->
    (exists d, s_doneat s l1 = Some d /\ (d < s_began s l2)%nat) \/
    (exists d, s_doneat s l2 = Some d /\ (d < s_began s l1)%nat).

Lemma led_back : forall s a s' l k, Inv s -> step s a = Some s' -> led s' l k ->
  led s l k \/ (s_thr s l = Looked k /\ a = LEnter l /\ s_group s k = None /\ s_began s' l = s_time s).
Proof.
  intros s a s' ll kk HI H Hl. unfold led in *. step_cases H; cg; upd; sat HI; fin.
Qed.

(* a thread that has led k and is not its owner has been removed from the group in the past *)
Lemma led_not_owner : forall s l k, Inv s -> led s l k -> s_group s k = None ->
  exists d, s_doneat s l = Some d /\ (d < s_time s)%nat.
Proof.
  intros s l k HI Hl Hg. unfold led in Hl. sat HI; fin.
Qed.

Lemma doneat_mono : forall s a s' l d, Inv s -> step s a = Some s' -> s_doneat s l = Some d -> s_doneat s' l = Some d.
Proof. intros s a s' l d HI H Hd. destruct (stamps_stable s a s' HI H) as (_ & _ & _ & A & _). auto. Qed.

Lemma began_stable : forall s a s' l k, Inv s -> step s a = Some s' -> led s l k -> s_began s' l = s_began s l.
Proof. intros s a s' l k HI H Hd. destruct (stamps_stable s a s' HI H) as (_ & A & _). apply (A l k Hd). Qed.

Lemma excl_step : forall s a s', Inv s -> Excl s -> step s a = Some s' -> Excl s'.
Proof.
  intros s a s' HI HE H l1 l2 k Hne H1 H2.
  destruct (led_back _ _ _ _ _ HI H H1) as [B1|(B1 & Ba1 & Bg1 & Bb1)];
  destruct (led_back _ _ _ _ _ HI H H2) as [B2|(B2 & Ba2 & Bg2 & Bb2)].
  - destruct (HE l1 l2 k Hne B1 B2) as [(d & D1 & D2)|(d & D1 & D2)]; [left|right]; exists d;
      (split; [eapply doneat_mono; eauto|erewrite began_stable; eauto]).
  - left. destruct (led_not_owner _ _ _ HI B1 Bg2) as (d & D1 & D2). exists d.
    split; [eapply doneat_mono; eauto|lia].
  - right. destruct (led_not_owner _ _ _ HI B2 Bg1) as (d & D1 & D2). exists d.
    split; [eapply doneat_mono; eauto|lia].
  - congruence.
Qed.

Lemma excl_init : forall def, Excl (init def).
Proof. intros def l1 l2 k _ [H|[[r H]|[r H]]]; discriminate. Qed.

Lemma excl_reachable : forall s, reachable s -> Excl s.
Proof.
  intros s Hr.
  enough (G : Inv s /\ Excl s) by apply G.
  revert s Hr. apply reachable_ind.
  - intros def. split; [apply inv_init|apply excl_init].
  - intros s a s' [HI HE] H. split; [eapply inv_step; eauto|eapply excl_step; eauto].
Qed.
