(* C17_Proofs3.v — further clause lemmas for C17: who can be blocked (clause 7),
   and the quantitative form of clause 5. *)
From Gogu Require Import Base C17_Model C17_Proofs C17_Proofs2.
Local Open Scope Z_scope.

(* who can move: every thread that has not returned has an enabled step, except a
   joiner whose call is still owned -- by a thread of the SAME key, which itself
   is never blocked (its next steps LFnEnd / LDone are always enabled) *)
Lemma progress : forall s, reachable s -> forall t,
  match s_thr s t with
  | Idle => forall k now, step s (LStart t k now) <> None
  | Looked _ => step s (LEnter t) <> None
  | Leading _ => forall r now1 now2, step s (LFnEnd t r now1 now2) <> None
  | Finishing _ _ => step s (LDone t) <> None
  | Joined k l => step s (LWake t) <> None \/ (owner s l k /\ s_group s k = Some l)
  | Ret _ _ _ _ => True
  end.
Proof.
  intros s Hr t. pose proof (inv_reachable _ Hr) as HI.
  destruct (s_thr s t) as [|k|k|k r|k l|k r src c] eqn:Et; [ | | | | |exact I];
    try (intros; cbn [step]; rewrite Et; try destruct (s_group s k); discriminate).
  cbn [step]. rewrite Et.
  destruct (s_done s l) as [r|] eqn:Ed; [left; discriminate|right].
    assert (Ho : owner s l k).
    { destruct (inv_joined _ HI _ _ _ Et) as (_ & Hl & _). unfold led, owner in *.
      destruct Hl as [Hl|[Hl|[r Hl]]]; auto.
      destruct (inv_ret _ HI _ _ _ _ _ Hl) as (_ & _ & _ & _ & E). destruct (E eq_refl) as [E1 _]. congruence. }
    split; [exact Ho|apply (inv_owner_group _ HI); exact Ho].
Qed.

(* quantitative form of clause 5: the executions of fn for k in the continuation
   are at most the callers that had missed the cache before *)
Definition lookedb (k : key) (ts : tstate) : bool :=
  match ts with Looked k' => k' =? k | _ => false end.

Definition nlooked (s : state) (k : key) (L : list tid) : nat :=
  length (filter (fun t => lookedb k (s_thr s t)) L).

Lemma lookedb_true : forall k ts, lookedb k ts = true <-> ts = Looked k.
Proof.
  intros k ts. destruct ts; cbn; split; intros H; try discriminate; try congruence.
  - apply Z.eqb_eq in H. congruence.
  - inversion H; subst. apply Z.eqb_refl.
Qed.

Lemma filter_len_ext : forall (f g : tid -> bool) L, (forall x, In x L -> f x = g x) ->
  length (filter f L) = length (filter g L).
Proof.
  intros f g L. induction L as [|x L IH]; intros H; cbn; [reflexivity|].
  rewrite (H x (or_introl eq_refl)). destruct (g x); cbn; rewrite IH; auto; intros y Hy; apply H; now right.
Qed.

Lemma filter_len_drop : forall (f g : tid -> bool) t L, NoDup L -> In t L ->
  f t = true -> g t = false -> (forall x, x <> t -> g x = f x) ->
  S (length (filter g L)) = length (filter f L).
Proof.
  intros f g t L. induction L as [|x L IH]; intros Hnd Hin Hf Hg Hext; [destruct Hin|].
  inversion Hnd as [|x' L' Hx HL]; subst. cbn. destruct Hin as [->|Hin].
  - rewrite Hf, Hg. cbn. f_equal. apply filter_len_ext. intros y Hy. apply Hext. intros ->. contradiction.
  - assert (x <> t) by (intros ->; contradiction). rewrite (Hext x H).
    destruct (f x); cbn; rewrite <- (IH HL Hin Hf Hg Hext); reflexivity.
Qed.

Lemma no_new_miss : forall k v e l s a s', s_cache s k = Some (v, e, l) -> step s a = Some s' ->
  (label_key s a = Some k -> Forall (fun now => live now e = true) (label_gets a)) ->
  forall t, s_thr s' t = Looked k -> s_thr s t = Looked k.
Proof.
  intros kk vv ee ll s a s' Hc H Hlive tt Htt.
  assert (CG : forall now, live now ee = true -> cache_get s kk now = Some (vv, ll)).
  { intros now L. unfold cache_get. now rewrite Hc, L. }
  unfold label_key, label_gets in Hlive.
  step_cases H; cbn [label_tid] in Hlive; upd; try assumption; try discriminate.
  destruct (Z.eq_dec k kk) as [->|Hk].
  + specialize (Hlive eq_refl). inversion Hlive; subst. rewrite (CG _ H1) in Htt. discriminate.
  + destruct (cache_get s k now) as [[? ?]|]; [discriminate|]. inversion Htt; congruence.
Qed.

Lemma calls_step0 : forall s a s' k, step s a = Some s' ->
  s_calls s' k = s_calls s k \/
  (s_thr s (label_tid a) = Looked k /\ s_thr s' (label_tid a) = Leading k /\ s_calls s' k = S (s_calls s k)).
Proof.
  intros s a s' kk H. step_cases H; cbn [label_tid]; upd; auto; try congruence.
Qed.

Lemma count_step : forall k v e l s a s' L, s_cache s k = Some (v, e, l) -> step s a = Some s' ->
  (label_key s a = Some k -> Forall (fun now => live now e = true) (label_gets a)) ->
  NoDup L -> (forall t, s_thr s t = Looked k -> In t L) ->
  (s_calls s' k + nlooked s' k L <= s_calls s k + nlooked s k L)%nat.
Proof.
  intros k v e l s a s' L Hc H Hlive Hnd HL. unfold nlooked.
  pose proof (frame_other_threads s a s' H) as Hfr.
  pose proof (no_new_miss k v e l s a s' Hc H Hlive (label_tid a)) as Hnm.
  set (t := label_tid a) in *.
  set (f := fun x => lookedb k (s_thr s x)). set (g := fun x => lookedb k (s_thr s' x)).
  assert (Hext : forall x, x <> t -> g x = f x).
  { intros x Hx. unfold f, g. destruct (Hfr x Hx) as [E _]. now rewrite E. }
  destruct (f t) eqn:Ef; destruct (g t) eqn:Eg.
  - assert (length (filter g L) = length (filter f L)).
    { apply filter_len_ext. intros x _. destruct (Nat.eq_dec x t) as [->|Hx]; [congruence|auto]. }
    destruct (calls_step0 s a s' k H) as [E|(E1 & E2 & E3)]; [lia|].
    unfold g in Eg. fold t in E2. rewrite E2 in Eg. discriminate.
  - assert (Hin : In t L) by (apply HL; apply lookedb_true; exact Ef).
    pose proof (filter_len_drop f g t L Hnd Hin Ef Eg Hext).
    destruct (calls_step0 s a s' k H) as [E|(E1 & E2 & E3)]; lia.
  - exfalso. unfold g in Eg. apply lookedb_true in Eg. apply Hnm in Eg.
    unfold f in Ef. rewrite Eg in Ef. cbn in Ef. rewrite Z.eqb_refl in Ef. discriminate.
  - assert (length (filter g L) = length (filter f L)).
    { apply filter_len_ext. intros x _. destruct (Nat.eq_dec x t) as [->|Hx]; [congruence|auto]. }
    destruct (calls_step0 s a s' k H) as [E|(E1 & E2 & E3)]; [lia|].
    unfold f in Ef. fold t in E1. rewrite E1 in Ef. cbn in Ef. rewrite Z.eqb_refl in Ef. discriminate.
Qed.

Lemma count_run : forall k v e l L tr s s', s_cache s k = Some (v, e, l) ->
  run s tr = Some s' -> reads_live k e s tr ->
  NoDup L -> (forall t, s_thr s t = Looked k -> In t L) ->
  (s_calls s' k + nlooked s' k L <= s_calls s k + nlooked s k L)%nat.
Proof.
  intros k v e l L tr. induction tr as [|a tr IH]; intros s s' Hc H HLv Hnd HL; cbn in H.
  - inversion H; subst. lia.
  - destruct HLv as [HL1 HL2]. destruct (step s a) as [s1|] eqn:E; [|discriminate].
    pose proof (count_step k v e l s a s1 L Hc E HL1 Hnd HL) as C1.
    pose proof (served_step k v e l s s a s1 (served_refl _ _ _ _ _ Hc) E HL1) as [Sc _ Sl _ _].
    pose proof (IH s1 s' Sc H HL2 Hnd (fun t Ht => HL t (Sl t Ht))) as C2. lia.
Qed.

Lemma filter_len_le : forall (f : tid -> bool) L, (length (filter f L) <= length L)%nat.
Proof. intros f L. induction L as [|x L IH]; cbn; [lia|]. destruct (f x); cbn; lia. Qed.

Lemma executions_after_store_bounded : forall s k v e l tr s' L,
  s_cache s k = Some (v, e, l) -> run s tr = Some s' -> reads_live k e s tr ->
  NoDup L -> (forall t, s_thr s t = Looked k -> In t L) ->
  (s_calls s' k + nlooked s' k L <= s_calls s k + nlooked s k L)%nat /\
  (s_calls s' k <= s_calls s k + length L)%nat.
Proof.
  intros s k v e l tr s' L Hc H HLv Hnd HL.
  pose proof (count_run k v e l L tr s s' Hc H HLv Hnd HL) as C. split; [exact C|].
  assert (nlooked s k L <= length L)%nat by (unfold nlooked; apply filter_len_le). lia.
Qed.
