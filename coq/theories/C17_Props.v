(* C17_Props.v — property C17 stated over the small-step model of C17_Model.v. *)
From Gogu Require Import Base C17_Model C17_Proofs.
Local Open Scope Z_scope.

Theorem C17_step_time : forall s a s', step s a = Some s' -> s_time s' = S (s_time s).
Proof. exact step_time. Qed.
Print Assumptions C17_step_time.
