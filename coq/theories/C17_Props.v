(* C17_Props.v — property C17 stated over the small-step model of C17_Model.v.

   "For any number of goroutines calling Memoize with the same key, at no instant are two
    executions of the supplied function for that key in progress; every caller receives the
    value (or error) produced by an execution that overlapped or preceded its call, and
    callers that joined the same execution receive the same value.  Once a successful value
    is cached and until it expires, Memoize returns it without invoking the function; an
    error result is returned to the callers and is not cached.  Different keys do not block
    or contaminate each other."

   All theorems quantify over EVERY schedule of the model: [reachable s] means
   [exists def tr, run (init def) tr = Some s] for an arbitrary label sequence tr (any
   number of threads = calls of Memoize, any keys, any results of fn, any clock readings).
   Vocabulary (C17_Proofs / C17_Proofs2):
     owner s t k       t is executing fn for k (Leading k) or fn has returned and the call is
                       not yet removed from the singleflight group (Finishing k _)
     led s l k         l created a call for k (is owner, or has returned as a leader)
     executed s l k r  l ran fn for k to the end and fn returned r
     Ret k r src c     the call returned r; ghost: the execution src it came from, c = served
                       by the cache
     s_started t, s_began l, s_endat l, s_doneat l   logical time (step number) of: the call of
                       Memoize by t / fn entered by leader l / fn returned / call removed from
                       the group.  Stamps are write-once (C17_stamps_stable). *)
From Gogu Require Import Base C17_Model C17_Proofs C17_Proofs2 C17_Proofs3.
Local Open Scope Z_scope.

(* ---- clause 1: the invariant *)

Theorem C17_inv_step : forall s a s', Inv s -> step s a = Some s' -> Inv s'.
Proof. exact inv_step. Qed.
Print Assumptions C17_inv_step.

Theorem C17_invariant : forall s, reachable s -> Inv s.
Proof. exact inv_reachable. Qed.
Print Assumptions C17_invariant.

Theorem C17_stamps_stable : forall s a s', Inv s -> step s a = Some s' ->
  (forall t, s_thr s t <> Idle -> s_started s' t = s_started s t) /\
  (forall l k, led s l k -> s_began s' l = s_began s l /\ led s' l k) /\
  (forall l r, s_res s l = Some r -> s_res s' l = Some r /\ s_endat s' l = s_endat s l) /\
  (forall l d, s_doneat s l = Some d -> s_doneat s' l = Some d) /\
  (forall l r, s_done s l = Some r -> s_done s' l = Some r) /\
  (forall t k r src c, s_thr s t = Ret k r src c -> s_thr s' t = Ret k r src c).
Proof. exact stamps_stable. Qed.
Print Assumptions C17_stamps_stable.

(* ---- clause 2: at no instant two executions of fn for one key *)

Theorem C17_one_owner_per_key : forall s, reachable s -> forall t1 t2 k,
  (s_thr s t1 = Leading k \/ exists r, s_thr s t1 = Finishing k r) ->
  (s_thr s t2 = Leading k \/ exists r, s_thr s t2 = Finishing k r) -> t1 = t2.
Proof. intros s Hr. exact (owner_unique s (inv_reachable s Hr)). Qed.
Print Assumptions C17_one_owner_per_key.

Theorem C17_one_execution_per_key : forall s, reachable s -> forall t1 t2 k,
  s_thr s t1 = Leading k -> s_thr s t2 = Leading k -> t1 = t2.
Proof. exact executing_unique. Qed.
Print Assumptions C17_one_execution_per_key.

(* the invocation counter moves exactly when a thread enters fn, by one, and only when no
   thread owns the key *)
Theorem C17_new_execution_only_when_none : forall s a s' k, Inv s -> step s a = Some s' ->
  (s_calls s' k = s_calls s k /\ forall t, s_thr s' t = Leading k -> s_thr s t = Leading k) \/
  (exists t, a = LEnter t /\ s_thr s t = Looked k /\ s_thr s' t = Leading k /\
             s_calls s' k = S (s_calls s k) /\ (forall t', ~ owner s t' k) /\
             forall t', t' <> t -> s_thr s' t' = s_thr s t').
Proof. exact calls_step. Qed.
Print Assumptions C17_new_execution_only_when_none.

(* in logical time: the in-flight periods of two executions of one key are disjoint *)
Theorem C17_executions_disjoint_in_time : forall s, reachable s ->
  forall l1 l2 k, l1 <> l2 -> led s l1 k -> led s l2 k ->
    (exists d, s_doneat s l1 = Some d /\ (d < s_began s l2)%nat) \/
    (exists d, s_doneat s l2 = Some d /\ (d < s_began s l1)%nat).
Proof. exact excl_reachable. Qed.
Print Assumptions C17_executions_disjoint_in_time.

(* ---- clause 3: every result comes from an execution that overlapped or preceded the call *)

Theorem C17_result_from_overlapping_or_preceding_execution :
  forall s, reachable s -> forall t k r src cached,
  s_thr s t = Ret k r src cached ->
  s_res s src = Some r /\ executed s src k r /\
  (s_began s src < s_endat s src < s_time s)%nat /\
  (cached = false ->
     s_done s src = Some r /\
     exists d, s_doneat s src = Some d /\ (s_endat s src < d < s_time s)%nat /\
               (s_started s t < d)%nat /\
               (src = t -> (s_started s t < s_began s t)%nat)) /\
  (cached = true ->
     src <> t /\ (exists v, r = RVal v) /\ (s_endat s src < s_started s t)%nat).
Proof. exact ret_provenance. Qed.
Print Assumptions C17_result_from_overlapping_or_preceding_execution.

Theorem C17_return_step : forall s a s' t k r src cached, reachable s -> step s a = Some s' ->
  s_thr s' t = Ret k r src cached -> s_thr s t <> Ret k r src cached ->
  label_tid a = t /\
  (cached = false -> exists d, s_doneat s' src = Some d /\ (s_started s t < d <= s_time s)%nat) /\
  (cached = true -> exists now v e, a = LStart t k now /\ r = RVal v /\
                    s_cache s k = Some (v, e, src) /\ live now e = true /\
                    s_calls s' = s_calls s /\ s_started s' t = s_time s).
Proof. exact return_step. Qed.
Print Assumptions C17_return_step.

(* ---- clause 4: callers served by the same execution receive the same result *)

Theorem C17_joiners_same_value : forall s, reachable s -> forall t1 t2 k1 k2 r1 r2 src c1 c2,
  s_thr s t1 = Ret k1 r1 src c1 -> s_thr s t2 = Ret k2 r2 src c2 -> r1 = r2 /\ k1 = k2.
Proof. exact same_src_same_result. Qed.
Print Assumptions C17_joiners_same_value.

Theorem C17_joiner_gets_leader_result : forall s a s' t k l, reachable s ->
  s_thr s t = Joined k l -> step s a = Some s' -> label_tid a = t ->
  exists r, a = LWake t /\ s_thr s' t = Ret k r l false /\ s_res s l = Some r /\
            s_thr s l = Ret k r l false.
Proof. exact joiner_gets_leader_result. Qed.
Print Assumptions C17_joiner_gets_leader_result.

(* ---- clause 5: a live cached value is served without invoking fn *)

Theorem C17_cached_hit_step : forall s t k now v e l,
  s_thr s t = Idle -> s_cache s k = Some (v, e, l) -> live now e = true ->
  exists s', step s (LStart t k now) = Some s' /\
             s_thr s' t = Ret k (RVal v) l true /\
             s_calls s' = s_calls s /\ s_cache s' = s_cache s /\ s_group s' = s_group s /\
             s_done s' = s_done s /\ s_res s' = s_res s /\
             forall t', t' <> t -> s_thr s' t' = s_thr s t'.
Proof. exact cached_hit_step. Qed.
Print Assumptions C17_cached_hit_step.

(* from ANY state whose cache holds (v, e) for k, along ANY continuation tr in which the
   clock readings that are compared with a deadline by steps concerning k do not pass e
   ([reads_live]): the entry stays; every call that starts in the continuation on k
   returns v from the cache; whoever executes fn for k had already missed the cache
   before (was [Looked k]) or was already executing; and if no caller is between its
   cache miss and group.Do, fn is not invoked for k at all. *)
Theorem C17_cached_value_served_without_call : forall s k v e l tr s',
  s_cache s k = Some (v, e, l) -> run s tr = Some s' -> reads_live k e s tr ->
  s_cache s' k = Some (v, e, l) /\
  (forall t, s_thr s t = Idle -> thr_key (s_thr s' t) = Some k ->
             s_thr s' t = Ret k (RVal v) l true) /\
  (forall t, owner s' t k -> s_thr s t = Looked k \/ owner s t k) /\
  ((forall t, s_thr s t <> Looked k) -> s_calls s' k = s_calls s k).
Proof. exact cached_value_served. Qed.
Print Assumptions C17_cached_value_served_without_call.

(* quantitative form: with L any duplicate-free list containing the callers that are between
   their cache miss and group.Do at s ([Looked k]), the invocations of fn for k in the
   continuation plus the callers of L still in that window never exceed those at s; hence at
   most [length L] new invocations *)
Theorem C17_executions_after_store_bounded : forall s k v e l tr s' L,
  s_cache s k = Some (v, e, l) -> run s tr = Some s' -> reads_live k e s tr ->
  NoDup L -> (forall t, s_thr s t = Looked k -> In t L) ->
  (s_calls s' k + nlooked s' k L <= s_calls s k + nlooked s k L)%nat /\
  (s_calls s' k <= s_calls s k + length L)%nat.
Proof. exact executions_after_store_bounded. Qed.
Print Assumptions C17_executions_after_store_bounded.

(* ---- clause 6: an error is returned to the callers and never cached *)

Theorem C17_cache_holds_only_successes : forall s, reachable s -> forall k v e l,
  s_cache s k = Some (v, e, l) -> s_res s l = Some (RVal v) /\ executed s l k (RVal v).
Proof. exact cache_holds_successes. Qed.
Print Assumptions C17_cache_holds_only_successes.

Theorem C17_errors_not_cached : forall s t x now1 now2 s',
  step s (LFnEnd t (RErr x) now1 now2) = Some s' ->
  s_cache s' = s_cache s /\ exists k, s_thr s t = Leading k /\ s_thr s' t = Finishing k (RErr x).
Proof. exact error_not_stored. Qed.
Print Assumptions C17_errors_not_cached.

Theorem C17_cache_written_only_by_successful_leader : forall s a s' k,
  step s a = Some s' -> s_cache s' k <> s_cache s k ->
  exists t v now1 now2, a = LFnEnd t (RVal v) now1 now2 /\ s_thr s t = Leading k /\
    cache_get s k now1 = None /\ s_cache s' k = Some (v, deadline (s_def s) now2, t).
Proof. exact cache_write_step. Qed.
Print Assumptions C17_cache_written_only_by_successful_leader.

Theorem C17_error_returned_uncached : forall s, reachable s -> forall t k x src c,
  s_thr s t = Ret k (RErr x) src c -> c = false /\ s_res s src = Some (RErr x).
Proof. exact error_returned. Qed.
Print Assumptions C17_error_returned_uncached.

(* ---- clause 7: different keys do not block or contaminate each other *)

Theorem C17_enabled_label_has_key : forall s a s', step s a = Some s' ->
  exists k, label_key s a = Some k.
Proof. exact enabled_has_key. Qed.
Print Assumptions C17_enabled_label_has_key.

Theorem C17_keys_independent_frame : forall s a s' k, step s a = Some s' -> label_key s a = Some k ->
  forall k', k' <> k ->
    s_cache s' k' = s_cache s k' /\ s_group s' k' = s_group s k' /\ s_calls s' k' = s_calls s k'.
Proof. exact frame_other_keys. Qed.
Print Assumptions C17_keys_independent_frame.

Theorem C17_threads_frame : forall s a s', step s a = Some s' ->
  forall t', t' <> label_tid a ->
    s_thr s' t' = s_thr s t' /\ s_res s' t' = s_res s t' /\ s_done s' t' = s_done s t'.
Proof. exact frame_other_threads. Qed.
Print Assumptions C17_threads_frame.

(* two enabled steps of different threads on different keys: neither disables the other (no
   blocking across keys) and both orders give the same state up to the ghost stamps *)
Theorem C17_keys_independent_commute : forall s a b sa sb, Inv s ->
  step s a = Some sa -> step s b = Some sb ->
  label_tid a <> label_tid b -> label_key s a <> label_key s b ->
  exists sab sba, step sa b = Some sab /\ step sb a = Some sba /\ sim sab sba.
Proof. exact diamond. Qed.
Print Assumptions C17_keys_independent_commute.

(* who can be blocked: every call that has not returned has an enabled step, except a joiner
   whose call is still owned -- by a thread of the SAME key, and an owner is never blocked *)
Theorem C17_only_own_key_blocks : forall s, reachable s -> forall t,
  match s_thr s t with
  | Idle => forall k now, step s (LStart t k now) <> None
  | Looked _ => step s (LEnter t) <> None
  | Leading _ => forall r now1 now2, step s (LFnEnd t r now1 now2) <> None
  | Finishing _ _ => step s (LDone t) <> None
  | Joined k l => step s (LWake t) <> None \/ (owner s l k /\ s_group s k = Some l)
  | Ret _ _ _ _ => True
  end.
Proof. exact progress. Qed.
Print Assumptions C17_only_own_key_blocks.

(* ---- non-vacuity: concrete schedules evaluated by the kernel *)

Definition c0 : tid := 0%nat.  Definition c1 : tid := 1%nat.
Definition c2 : tid := 2%nat.  Definition c3 : tid := 3%nat.

(* default expiry 1000; callers 0 and 1 on key 7: 0 leads, 1 joins the same execution, fn
   returns 42, both get it from execution 0 (not cached); caller 2 then hits the cache *)
Definition ex_tr : list label :=
  [LStart c0 7 100; LEnter c0; LStart c1 7 101; LEnter c1; LFnEnd c0 (RVal 42) 102 103;
   LDone c0; LWake c1; LStart c2 7 104].

Definition ex_view (s : state) :=
  (s_thr s c0, s_thr s c1, s_thr s c2, s_calls s 7, s_cache s 7, s_group s 7).

Example C17_ex_join_then_cached_hit :
  option_map ex_view (run (init 1000) ex_tr) =
  Some (Ret 7 (RVal 42) c0 false, Ret 7 (RVal 42) c0 false, Ret 7 (RVal 42) c0 true,
        1%nat, Some (42, 1103, c0), None).
Proof. vm_compute. reflexivity. Qed.

(* the state in the middle of that schedule has an owner and a joiner (hypotheses of the
   clause-2 and clause-4 theorems) *)
Example C17_ex_midway :
  option_map (fun s => (s_thr s c0, s_thr s c1, s_group s 7, s_calls s 7))
             (run (init 1000) (firstn 4 ex_tr)) =
  Some (Leading 7, Joined 7 c0, Some c0, 1%nat).
Proof. vm_compute. reflexivity. Qed.

(* hypotheses of C17_cached_value_served_without_call: after the store (6 steps) the cache
   holds (42, 1103); the continuation "caller 2 starts at clock 104, caller 3 at 1103" reads
   live clocks; a read at 1104 would not be live, and then fn runs again *)
Example C17_ex_served_hyps :
  match run (init 1000) (firstn 6 ex_tr) with
  | Some s => s_cache s 7 = Some (42, 1103, c0) /\
              reads_live 7 1103 s [LWake c1; LStart c2 7 104; LStart c3 7 1103]
  | None => False
  end.
Proof. vm_compute. repeat split; try discriminate; repeat constructor. Qed.

Example C17_ex_expired_entry_recomputed :
  option_map (fun s => (s_thr s c3, s_calls s 7))
             (run (init 1000) (ex_tr ++ [LStart c3 7 1104; LEnter c3])) =
  Some (Leading 7, 2%nat).
Proof. vm_compute. reflexivity. Qed.

(* an error is delivered to leader and joiner and leaves the cache empty; the next caller
   executes fn again *)
Example C17_ex_error_not_cached :
  option_map (fun s => (s_thr s c0, s_thr s c1, s_thr s c2, s_cache s 7, s_calls s 7))
             (run (init 1000)
                  [LStart c0 7 100; LEnter c0; LStart c1 7 101; LEnter c1; LFnEnd c0 (RErr 5) 102 103;
                   LDone c0; LWake c1; LStart c2 7 104; LEnter c2]) =
  Some (Ret 7 (RErr 5) c0 false, Ret 7 (RErr 5) c0 false, Leading 7, None, 2%nat).
Proof. vm_compute. reflexivity. Qed.

(* hypotheses of C17_keys_independent_commute: in the state after [LStart c0 7; LEnter c0;
   LStart c1 8] the labels LFnEnd c0 (key 7) and LEnter c1 (key 8) are both enabled, belong to
   different threads and concern different keys *)
Example C17_ex_commute_hyps :
  match run (init 1000) [LStart c0 7 100; LEnter c0; LStart c1 8 100] with
  | Some s => step s (LFnEnd c0 (RVal 1) 101 101) <> None /\ step s (LEnter c1) <> None /\
              label_key s (LFnEnd c0 (RVal 1) 101 101) = Some 7 /\ label_key s (LEnter c1) = Some 8
  | None => False
  end.
Proof. vm_compute. repeat split; discriminate. Qed.

(* the stale-miss race that the hypothesis [s_thr s t = Idle] of clause 5 excludes is real in
   the model (and in the code): a caller that missed the cache BEFORE the store and enters
   group.Do after the call was removed executes fn a second time *)
Example C17_ex_stale_miss_recomputes :
  option_map (fun s => (s_thr s c1, s_calls s 7, s_cache s 7))
             (run (init 1000)
                  [LStart c0 7 100; LStart c1 7 100; LEnter c0; LFnEnd c0 (RVal 42) 102 103; LDone c0;
                   LEnter c1]) =
  Some (Leading 7, 2%nat, Some (42, 1103, c0)).
Proof. vm_compute. reflexivity. Qed.

(* hypotheses of C17_executions_after_store_bounded in that race: after the store, caller 1
   is the only one in the window, L = [c1]; the bound 1 + 1 is attained *)
Example C17_ex_bound_hyps :
  match run (init 1000) [LStart c0 7 100; LStart c1 7 100; LEnter c0; LFnEnd c0 (RVal 42) 102 103] with
  | Some s => s_cache s 7 = Some (42, 1103, c0) /\ s_thr s c1 = Looked 7 /\ s_calls s 7 = 1%nat /\
              nlooked s 7 [c1] = 1%nat /\ reads_live 7 1103 s [LDone c0; LEnter c1]
  | None => False
  end.
Proof. vm_compute. repeat split; try discriminate; repeat constructor. Qed.

(* ---- the monitor of the free-running streams on the stale-miss window (not a soundness proof:
   two kernel-evaluated logs).  Callers 0 and 1 on key 1; 1 leads, stores 1001 and returns; 0 had
   started before that, misses, executes fn again (its SetDefault is refused) and returns ITS OWN
   value 1000: accepted.  The same log in which caller 0 instead returns an error that no
   execution produced (what a Memoize that forwards SetDefault's refusal does): rejected. *)
Definition ex_log_benign : list event :=
  [EStart c0 1; EStart c1 1; EBegin c1 1; EEnd c1 1 (RVal 1001); ERet c1 1 (RVal 1001);
   EBegin c0 1; EEnd c0 1 (RVal 1000); ERet c0 1 (RVal 1000); EFinal 1 (Some 1001)].

Definition ex_log_foreign_error : list event :=
  [EStart c0 1; EStart c1 1; EBegin c1 1; EEnd c1 1 (RVal 1001); ERet c1 1 (RVal 1001);
   EBegin c0 1; EEnd c0 1 (RVal 1000); ERet c0 1 (RErr (-1)); EFinal 1 (Some 1001)].

Example C17_ex_monitor_stale_miss :
  mon_accepts 2 ex_log_benign = true /\ mon_accepts 2 ex_log_foreign_error = false.
Proof. vm_compute. split; reflexivity. Qed.

