(* C17_Wire.v — wire glue for C17 (no proofs; exercised by the correspondence).

   input (mirror of harness/c17.go):

   1 def  actions…     CONTROLLED run on NewMemoizer(def ns, 0).  An action is 4 words [kind; key; val; clk]:
                         kind 0  start a new caller (callers are numbered 0,1,… in start order) on key
                         kind 1  the running execution of key returns the value val
                         kind 2  the running execution of key returns error number val
                         (kinds 1/2 on a key with no running execution do nothing)
                         clk 1 = before the action the harness lets more than every pending deadline pass
                                 (sleep > 2*def); clk 0 = no deadline passes since the previous action
                                 (the harness discards the case when it cannot guarantee that)
                       The model's clock is  epoch * 10^15 ns,  epoch = number of clk-1 actions so far.
                       observation = after EVERY action, at quiescence, the snapshot
                         [ncallers] ++ per caller [code; val] ++ per key 1..3 [in flight; invocations; cached; value]
                         code 1 executing fn, 2 waiting in singleflight, 3 returned value val, 4 returned error val,
                              5 none of these (never at quiescence)

   2 ncallers nkeys …  FREE-RUNNING jittered run ("monitored, not model-compared"): the model cannot predict the
                       schedule; the observation is the event log, 5 words per event [type; caller; key; outcome; value]
                         type 1 EStart, 2 EBegin, 3 EEnd, 4 ERet, 5 EFinal (outcome = present?)   outcome 0 value, 1 error
                       judged by the monitor mon_accepts of C17_Model.v; c17_run answers [] and agree = holds = monitor.
                       input words after nkeys: lat_us, then per caller [key; delay_us; outcome]; they only steer the
                       harness (lat_us > 0 sleep in fn, 0 one yield, < 0 return at once; delay_us < 0 = busy-wait of
                       -delay_us iterations: the "tightrace" stream) and are not read by the monitor. *)

From Gogu Require Import Base C17_Model.
Local Open Scope Z_scope.

Definition big : Z := 1000000000000000.

Definition code_of (ts : tstate) : list Z :=
  match ts with
  | Leading _ => [1; 0]
  | Joined _ _ => [2; 0]
  | Ret _ (RVal v) _ _ => [3; v]
  | Ret _ (RErr e) _ _ => [4; e]
  | _ => [5; 0]
  end.

Definition inflight (s : state) (k : key) : Z :=
  match s_group s k with
  | Some l => match s_thr s l with Leading _ => 1 | _ => 0 end
  | None => 0
  end.

Definition snap (s : state) (n : nat) (now : Z) : list Z :=
  Z.of_nat n :: flat_map (fun t => code_of (s_thr s t)) (seq 0 n)
  ++ flat_map (fun k => [inflight s k; Z.of_nat (s_calls s k)]
                        ++ match cache_get s k now with Some (v, _) => [1; v] | None => [0; 0] end)
              [1; 2; 3].

Fixpoint controlled (acts : list (list Z)) (s : state) (n : nat) (epoch : Z) : list Z :=
  match acts with
  | [] => []
  | a :: acts' =>
      let kind := zget a 0 in
      let k := zget a 1 in
      let v := zget a 2 in
      let epoch' := if zget a 3 =? 0 then epoch else epoch + 1 in
      let now := epoch' * big in
      let '(s', n') :=
          match kind with
          | 0 => (act_start s n k now, S n)
          | 1 => (act_finish s n k (RVal v) now, n)
          | 2 => (act_finish s n k (RErr v) now, n)
          | _ => (s, n)
          end in
      snap s' n' now ++ controlled acts' s' n' epoch'
  end.

Definition ev_of (e : list Z) : option event :=
  let c := Z.to_nat (zget e 1) in
  let k := zget e 2 in
  let r := if zget e 3 =? 0 then RVal (zget e 4) else RErr (zget e 4) in
  match zget e 0 with
  | 1 => Some (EStart c k)
  | 2 => Some (EBegin c k)
  | 3 => Some (EEnd c k r)
  | 4 => Some (ERet c k r)
  | 5 => Some (EFinal k (if zget e 3 =? 0 then None else Some (zget e 4)))
  | _ => None
  end.

Fixpoint evs_of (es : list (list Z)) : option (list event) :=
  match es with
  | [] => Some []
  | e :: es' =>
      match ev_of e, evs_of es' with
      | Some x, Some xs => Some (x :: xs)
      | _, _ => None
      end
  end.

Definition well_formed_actions (w : list Z) : bool := (length w mod 4 =? 0)%nat.

Definition c17_run (w : list Z) : list Z :=
  match w with
  | 1 :: def :: acts =>
      if well_formed_actions acts then controlled (chunks 4 acts) (init def) 0 0 else wire_error
  | 2 :: _ => []
  | _ => wire_error
  end.

Definition monitored (w obs : list Z) : bool :=
  match w with
  | 2 :: nc :: _ =>
      if ((length obs mod 5 =? 0)%nat && (0 <=? nc))
      then match evs_of (chunks 5 obs) with
           | Some es => mon_accepts (Z.to_nat nc) es
           | None => false
           end
      else false
  | _ => false
  end.

Definition c17_agree (w obs : list Z) : bool :=
  match w with
  | 2 :: _ => monitored w obs
  | _ => zlist_eqb obs (c17_run w)
  end.

(* Controlled runs: the small-step model IS the reference machine of the
   theorems (C17_Props proves every clause of the property about all its
   schedules, in particular about the quiescent ones replayed here) and the
   snapshot is determined uniquely by the action list, so the property holds on
   an observation iff it is the model's.  Free runs: the monitor. *)
Definition c17_holds (w obs : list Z) : bool := c17_agree w obs.
