(* C18_Model.v — After, Before, Once, RType.Retry, RType.RetryWithDelay.
   Transcribed statement by statement from /repo/func.go (with the repairs
   bc2009d: Once calls the callback once, stores that value and returns it;
   ddacf7d: After and Before stop decrementing their counter at the smallest
   value of its type), and the part of /repo/cache/cache.go that Before/Once use
   (Get, Set, add on the single hard-coded key "func", Delete, Flush).

   Conventions (DESIGN §3):
   * The caller's counter *n has a signed integer type V of some width
     (constraints.Signed): the model takes the smallest value [lo] of that type
     as a parameter (int / int64: min64; int8: -128) and the arithmetic the code
     performs on the counter — m := *n - 1 — WRAPS within the type ([wrapT]).
     Every other int of the code (attempt of Retry, bounded by n) cannot
     overflow and is a plain Z.  The result type T of the callbacks is Z.
   * The callback is a stream: its k-th invocation (k = 0, 1, ...) returns
     [fn k].  Every wrapper threads the invocation counter [k], so the model
     says how many results were consumed and by which call.
   * time.Now() is an oracle [clk : nat -> Z] (UnixNano of the i-th clock read
     of the history); the state carries the number of reads made so far
     ([tick]).  The code reads the clock only where written below.
   No proofs in this file. *)

From Gogu Require Import Base.
Local Open Scope Z_scope.

(* --------------------------------------------- Go signed-integer arithmetic *)

(* a signed type with smallest value lo (< 0) has the values lo .. -lo-1;
   arithmetic on it wraps around *)
Definition is_int (lo n : Z) : Prop := lo <= n <= - lo - 1.
Definition wrapT (lo z : Z) : Z := (z - lo) mod (2 * - lo) + lo.
Definition min64 : Z := -9223372036854775808.   (* math.MinInt *)
Definition max64 : Z := 9223372036854775807.    (* math.MaxInt *)
Definition min8 : Z := -128.                    (* math.MinInt8 *)

(* func dec(n *V) { if m := *n - 1; m < *n { *n = m } }      (repair ddacf7d)
   the counter is decremented unless it already holds the smallest value of
   its type (there *n - 1 wraps to the largest value, which is not < *n) *)
Definition dec (lo n : Z) : Z :=
  let m := wrapT lo (n - 1) in if m <? n then m else n.

(* the code as shipped before ddacf7d:  *n--   (wraps at the smallest value) *)
Definition dec_orig (lo n : Z) : Z := wrapT lo (n - 1).

(* ------------------------------------------------------------------ After *)

(* func After(n *V, fn func()) { if *n < 1 { fn() }; dec(n) }
   returns (number of invocations made by this call, new *n);
   [d] is the decrement: [dec lo] for the code as it is, [dec_orig lo] for the
   code as shipped (used only by the ..._unrepaired_refuted witnesses) *)
Definition after_call_with (d : Z -> Z) (n : Z) : nat * Z :=
  ((if n <? 1 then 1%nat else 0%nat), d n).

(* m consecutive calls on one counter: per-call invocation counts, final *n *)
Fixpoint after_calls_with (d : Z -> Z) (m : nat) (n : Z) : list nat * Z :=
  match m with
  | O => ([], n)
  | S m' =>
      let '(r, n1) := after_call_with d n in
      let '(rs, nf) := after_calls_with d m' n1 in
      (r :: rs, nf)
  end.

Definition after_call (lo : Z) : Z -> nat * Z := after_call_with (dec lo).
Definition after_calls (lo : Z) : nat -> Z -> list nat * Z := after_calls_with (dec lo).
Definition after_calls_orig (lo : Z) : nat -> Z -> list nat * Z := after_calls_with (dec_orig lo).

(* ------------------------------------------------- the cache, key "func" *)

(* cache.Cache as Before/Once see it: the default expiry given to cache.New and
   the entry under "func" (value, expiration); expiration > 0 is a UnixNano
   deadline, 0 and -1 (NoExpiration) never expire. *)
Record cache := mkCache { c_def : Z; c_slot : option (Z * Z) }.

Definition cache_new (def : Z) : cache := mkCache def None.

Section WithClock.
Variable clk : nat -> Z.

(* Get: if item.expiration > 0 { now := time.Now(); if now > exp { return nil, err } }
   returns (memo: None = nil, tick') *)
Definition c_get (c : cache) (t : nat) : option Z * nat :=
  match c_slot c with
  | Some (v, e) =>
      if 0 <? e
      then (if e <? clk t then (None, S t) else (Some v, S t))
      else (Some v, t)
  | None => (None, t)
  end.

(* add(key, val, d): d == 0 -> d = c.expTime; d > 0 -> exp = now + d;
   d < 0 -> exp = -1; then a Get whose outcome cannot be (item != nil && err
   != nil) — it only reads the clock; then the store.  (The empty-string
   refusal concerns T = string only.) *)
Definition c_add (c : cache) (v d : Z) (t : nat) : cache * nat :=
  let d1 := if d =? 0 then c_def c else d in
  let '(e, t1) := if 0 <? d1 then (clk t + d1, S t) else if d1 <? 0 then (-1, t) else (0, t) in
  let '(_, t2) := c_get c t1 in
  (mkCache (c_def c) (Some (v, e)), t2).

(* Set: item, err := Get(key); if item != nil && err == nil { return error }; add.
   Both callers drop the error. *)
Definition c_set (c : cache) (v d : Z) (t : nat) : cache * nat :=
  let '(memo, t1) := c_get c t in
  match memo with
  | Some _ => (c, t1)
  | None => c_add c v d t1
  end.

(* Delete("func") — used by the mixed histories only (Flush: c_flush below) *)
Definition c_delete (c : cache) : cache := mkCache (c_def c) None.

(* memo.Val(): the zero value on a nil item *)
Definition val_of (memo : option Z) : Z := match memo with Some v => v | None => 0 end.

(* ----------------------------------------------------------------- Before *)

(* the mutable world of one history: cache, clock reads so far, callback
   invocations so far *)
Record world := mkWorld { w_cache : cache; w_tick : nat; w_k : nat }.

(* the result of one wrapper call: invocations made by this call, value returned *)
Definition outcome := (nat * Z)%type.

Variable fn : nat -> Z.

(* dec(n); if *n > 0 { return fn() }
   if *n == 0 { c.Set("func", fn(), DefaultExpiration) }
   memo, _ = c.Get("func"); return memo.Val()
   ([d] is the decrement, as for After) *)
Definition before_call_with (d : Z -> Z) (n : Z) (w : world) : outcome * Z * world :=
  let n1 := d n in
  if 0 <? n1 then
    ((1%nat, fn (w_k w)), n1, mkWorld (w_cache w) (w_tick w) (S (w_k w)))
  else
    let '(ran, c1, t1, k1) :=
        if n1 =? 0 then
          let v := fn (w_k w) in
          let '(c1, t1) := c_set (w_cache w) v 0 (w_tick w) in
          (1%nat, c1, t1, S (w_k w))
        else (0%nat, w_cache w, w_tick w, w_k w) in
    let '(memo, t2) := c_get c1 t1 in
    ((ran, val_of memo), n1, mkWorld c1 t2 k1).

(* ------------------------------------------------------------------- Once *)

(* REPAIRED code (fixes/builder-c18c17/0001):
     memo, _ := c.Get("func")
     if memo == nil { val := fn(); c.Set("func", val, DefaultExpiration); return val }
     memo, _ = c.Get("func"); return memo.Val() *)
Definition once_call (w : world) : outcome * world :=
  let '(memo, t1) := c_get (w_cache w) (w_tick w) in
  match memo with
  | None =>
      let v := fn (w_k w) in
      let '(c1, t2) := c_set (w_cache w) v 0 t1 in
      ((1%nat, v), mkWorld c1 t2 (S (w_k w)))
  | Some _ =>
      let '(memo2, t2) := c_get (w_cache w) t1 in
      ((0%nat, val_of memo2), mkWorld (w_cache w) t2 (w_k w))
  end.

(* the code as found (defect #9):  c.Set("func", fn(), …); return fn()  *)
Definition once_call_orig (w : world) : outcome * world :=
  let '(memo, t1) := c_get (w_cache w) (w_tick w) in
  match memo with
  | None =>
      let v := fn (w_k w) in
      let '(c1, t2) := c_set (w_cache w) v 0 t1 in
      ((2%nat, fn (S (w_k w))), mkWorld c1 t2 (S (S (w_k w))))
  | Some _ =>
      let '(memo2, t2) := c_get (w_cache w) t1 in
      ((0%nat, val_of memo2), mkWorld (w_cache w) t2 (w_k w))
  end.

(* ---------------------------------------------------------- call histories *)

(* m consecutive Before calls on one counter and one cache *)
Fixpoint before_calls_with (d : Z -> Z) (m : nat) (n : Z) (w : world) : list outcome * Z * world :=
  match m with
  | O => ([], n, w)
  | S m' =>
      let '(o, n1, w1) := before_call_with d n w in
      let '(os, nf, wf) := before_calls_with d m' n1 w1 in
      (o :: os, nf, wf)
  end.

Fixpoint once_calls (m : nat) (w : world) : list outcome * world :=
  match m with
  | O => ([], w)
  | S m' =>
      let '(o, w1) := once_call w in
      let '(os, wf) := once_calls m' w1 in
      (o :: os, wf)
  end.

End WithClock.

Definition before_call (lo : Z) (clk fn : nat -> Z) := before_call_with clk fn (dec lo).
Definition before_calls (lo : Z) (clk fn : nat -> Z) := before_calls_with clk fn (dec lo).
Definition before_calls_orig (lo : Z) (clk fn : nat -> Z) := before_calls_with clk fn (dec_orig lo).

(* mixed histories: two Before counters A and B, Once, Delete("func"),
   Flush() and time.Sleep(d), all on ONE cache (the wrappers share the
   hard-coded key).  Sleeping does not touch the cache: it moves every later
   reading of the clock forward by d — the state carries the total time slept
   ([m_skew]) and the operations read the clock [fun i => clk i + m_skew]. *)
Inductive mop := MBeforeA | MBeforeB | MOnce | MDelete | MFlush | MSleep (d : Z).

Record mstate := mkM { m_a : Z; m_b : Z; m_skew : Z; m_w : world }.

(* Flush: c.items = make(map[K]*Item[V]) — on the one key, the same as Delete *)
Definition c_flush (c : cache) : cache := mkCache (c_def c) None.

Definition mstep (lo : Z) (clk fn : nat -> Z) (s : mstate) (o : mop) : outcome * mstate :=
  let now := fun i : nat => clk i + m_skew s in
  let with_cache c := mkM (m_a s) (m_b s) (m_skew s) (mkWorld c (w_tick (m_w s)) (w_k (m_w s))) in
  match o with
  | MBeforeA => let '(r, n1, w1) := before_call lo now fn (m_a s) (m_w s) in (r, mkM n1 (m_b s) (m_skew s) w1)
  | MBeforeB => let '(r, n1, w1) := before_call lo now fn (m_b s) (m_w s) in (r, mkM (m_a s) n1 (m_skew s) w1)
  | MOnce => let '(r, w1) := once_call now fn (m_w s) in (r, mkM (m_a s) (m_b s) (m_skew s) w1)
  | MDelete => ((0%nat, 0), with_cache (c_delete (w_cache (m_w s))))
  | MFlush => ((0%nat, 0), with_cache (c_flush (w_cache (m_w s))))
  | MSleep d => ((0%nat, 0), mkM (m_a s) (m_b s) (m_skew s + Z.max 0 d) (m_w s))
  end.

Fixpoint mrun (lo : Z) (clk fn : nat -> Z) (ops : list mop) (s : mstate) : list outcome * mstate :=
  match ops with
  | [] => ([], s)
  | o :: ops' =>
      let '(r, s1) := mstep lo clk fn s o in
      let '(rs, sf) := mrun lo clk fn ops' s1 in
      (r :: rs, sf)
  end.


Definition world0 (def : Z) : world := mkWorld (cache_new def) 0 0.

(* ------------------------------------------------------------------ Retry *)

(* The callback of Retry: its k-th invocation succeeds iff [ok k]; when it
   fails it returns an error identified by [errid k] (distinct per invocation,
   so that "the last error" is observable).  Error codes of the result:
   0 = nil, -1 = the "number of attempts should be positive" error of Retry,
   k+1 = the error returned by invocation k. *)
Definition errid (k : nat) : Z := Z.of_nat k + 1.
Definition err_arg : Z := -1.

Record retry_result := mkRetry { r_attempts : Z; r_err : Z; r_calls : nat }.

(* for attempt < n { if err = fn(v.Input); err == nil { return attempt, nil }; attempt++ }
   return attempt, err
   [None] = out of fuel (excluded by C18_Proofs.retry_fuel_suffices) *)
Fixpoint retry_loop (fuel : nat) (n : Z) (ok : nat -> bool) (attempt err : Z) (k : nat)
  : option retry_result :=
  match fuel with
  | O => None
  | S f =>
      if attempt <? n then
        if ok k then Some (mkRetry attempt 0 (S k))
        else retry_loop f n ok (attempt + 1) (errid k) (S k)
      else Some (mkRetry attempt err k)
  end.

Definition retry_fuel (n : Z) : nat := S (Z.to_nat n).

(* if n < 0 { return attempt, fmt.Errorf(...) } ; loop *)
Definition retry_with (fuel : nat) (n : Z) (ok : nat -> bool) : option retry_result :=
  if n <? 0 then Some (mkRetry 0 err_arg 0)
  else retry_loop fuel n ok 0 0 0.

Definition retry (n : Z) (ok : nat -> bool) : option retry_result := retry_with (retry_fuel n) n ok.

(* RetryWithDelay.  Clock oracles, one value per event of iteration j:
     t_inv j  : the time.Since(start) read handed to the j-th invocation
     t_arm j  : the instant time.After(delay) is called after the j-th failure
     t_fire j : the instant the receive from that channel completes
   t_start is the first read (start := time.Now()), t_end the read of the
   returned time.Since(start).  The model returns the counts of Retry plus the
   elapsed durations handed to the callback and the returned duration. *)
Record timed_result := mkTimed {
  d_res : retry_result;
  d_elapsed : list Z;          (* the durations handed to the callback, in invocation order *)
  d_waits : list (Z * Z);      (* the waits performed: (armed at, delivered at), in order *)
  d_total : Z                  (* the returned duration *)
}.

Section Timed.
Variables (t_start : Z) (t_inv t_arm t_fire : nat -> Z) (t_end : Z).

(* start := time.Now()
   for attempt < n { err = fn(time.Since(start), v.Input)
                     if err == nil { return time.Since(start), attempt, nil }
                     <-time.After(delay); attempt++ }
   return time.Since(start), attempt, err
   (there is NO n < 0 test here: a negative n skips the loop) *)
Fixpoint retry_delay_loop (fuel : nat) (n : Z) (ok : nat -> bool) (attempt err : Z) (k : nat)
         (elapsed : list Z) (waits : list (Z * Z)) : option timed_result :=
  match fuel with
  | O => None
  | S f =>
      if attempt <? n then
        let el := elapsed ++ [t_inv k - t_start] in
        if ok k then Some (mkTimed (mkRetry attempt 0 (S k)) el waits (t_end - t_start))
        else (* <-time.After(delay): armed at t_arm k, received at t_fire k *)
          retry_delay_loop f n ok (attempt + 1) (errid k) (S k) el (waits ++ [(t_arm k, t_fire k)])
      else Some (mkTimed (mkRetry attempt err k) elapsed waits (t_end - t_start))
  end.

Definition retry_delay (n : Z) (ok : nat -> bool) : option timed_result :=
  retry_delay_loop (retry_fuel n) n ok 0 0 0 [] [].

End Timed.

(* ------------------------------------------------------------------------
   Specification: the closed forms the property states.  Used by c18_holds
   (C18_Wire.v) and as the right-hand sides of the theorems (C18_Props.v).
   ------------------------------------------------------------------------ *)

(* After(n): call i (0-based) runs the callback iff the first n calls are over *)
Definition after_spec_runs (n : Z) (m : nat) : list nat :=
  map (fun i => if n <=? Z.of_nat i then 1%nat else 0%nat) (seq 0 m).

(* Before(n) on a fresh cache whose entry lives: call i runs the callback (its
   i-th invocation) iff i < n; later calls return the result of the last run,
   i.e. of invocation n-1; for n <= 0 nothing ever runs and the zero value is
   returned *)
Definition before_spec_out (fn : nat -> Z) (n : Z) (i : nat) : outcome :=
  if Z.of_nat i <? n then (1%nat, fn i)
  else (0%nat, if 1 <=? n then fn (Z.to_nat (n - 1)) else 0).
Definition before_spec (fn : nat -> Z) (n : Z) (m : nat) : list outcome :=
  map (before_spec_out fn n) (seq 0 m).

(* Once on a fresh cache whose entry lives: the first call runs the callback,
   every call returns that first result *)
Definition once_spec_out (fn : nat -> Z) (i : nat) : outcome :=
  ((if Nat.eqb i 0 then 1%nat else 0%nat), fn 0%nat).
Definition once_spec (fn : nat -> Z) (m : nat) : list outcome :=
  map (once_spec_out fn) (seq 0 m).

(* index of the first success among invocations 0 .. b-1, if any *)
Fixpoint first_ok_from (ok : nat -> bool) (k b : nat) : option nat :=
  match b with
  | O => None
  | S b' => if ok k then Some k else first_ok_from ok (S k) b'
  end.
Definition first_ok (ok : nat -> bool) (b : nat) : option nat := first_ok_from ok 0 b.

(* Retry(n): stop at the first success or after n failures *)
Definition retry_spec (argcheck : bool) (n : Z) (ok : nat -> bool) : retry_result :=
  if n <? 0 then mkRetry 0 (if argcheck then err_arg else 0) 0
  else match first_ok ok (Z.to_nat n) with
       | Some f => mkRetry (Z.of_nat f) 0 (S f)
       | None => mkRetry n (if n =? 0 then 0 else errid (Z.to_nat n - 1)) (Z.to_nat n)
       end.

(* Histories on ONE shared cache (Before on two counters, Once, Delete, Flush,
   Sleep): the reference machine.  It has no clock and no deadlines: the cache
   is an abstract memo cell that is either empty or holds a value; whoever
   finds it empty and wants to store, stores (cache.Set refuses to overwrite a
   live entry, so the first writer wins); Delete and Flush empty it; so does a
   sleep longer than a positive default expiry (sleeps that do not outlast the
   expiry are outside the scope of this machine, see C18_shared_cache_refines_
   memo_cell).  The invocation clauses of the property are visible directly:
   Before runs iff its own counter is >= 1, whatever the cell holds; Once runs
   iff the cell is empty.  Its counters are mathematical integers (x - 1); the
   code's counters are those clamped at the smallest value of the type. *)
Record sstate := mkS { s_a : Z; s_b : Z; s_memo : option Z; s_k : nat }.

Definition s_before (fn : nat -> Z) (x : Z) (memo : option Z) (k : nat)
  : outcome * Z * option Z * nat :=
  if 1 <? x then ((1%nat, fn k), x - 1, memo, S k)
  else if x =? 1 then
    let memo' := match memo with Some _ => memo | None => Some (fn k) end in
    ((1%nat, val_of memo'), x - 1, memo', S k)
  else ((0%nat, val_of memo), x - 1, memo, k).

Definition s_once (fn : nat -> Z) (memo : option Z) (k : nat) : outcome * option Z * nat :=
  match memo with
  | Some v => ((0%nat, v), memo, k)
  | None => ((1%nat, fn k), Some (fn k), S k)
  end.

Definition sstep (def : Z) (fn : nat -> Z) (s : sstate) (o : mop) : outcome * sstate :=
  match o with
  | MBeforeA =>
      let '(r, a1, memo1, k1) := s_before fn (s_a s) (s_memo s) (s_k s) in (r, mkS a1 (s_b s) memo1 k1)
  | MBeforeB =>
      let '(r, b1, memo1, k1) := s_before fn (s_b s) (s_memo s) (s_k s) in (r, mkS (s_a s) b1 memo1 k1)
  | MOnce =>
      let '(r, memo1, k1) := s_once fn (s_memo s) (s_k s) in (r, mkS (s_a s) (s_b s) memo1 k1)
  | MDelete | MFlush => ((0%nat, 0), mkS (s_a s) (s_b s) None (s_k s))
  | MSleep d =>
      ((0%nat, 0), mkS (s_a s) (s_b s) (if (0 <? def) && (def <? d) then None else s_memo s) (s_k s))
  end.

Fixpoint srun (def : Z) (fn : nat -> Z) (ops : list mop) (s : sstate) : list outcome * sstate :=
  match ops with
  | [] => ([], s)
  | o :: ops' =>
      let '(r, s1) := sstep def fn s o in
      let '(rs, sf) := srun def fn ops' s1 in
      (r :: rs, sf)
  end.
