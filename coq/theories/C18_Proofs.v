(* C18_Proofs.v — lemmas for C18 (After, Before, Once, Retry, RetryWithDelay). *)
From Gogu Require Import Base C18_Model.
Local Open Scope Z_scope.

Ltac zbool := repeat match goal with
  | H : (_ <? _) = true |- _ => apply Z.ltb_lt in H
  | H : (_ <? _) = false |- _ => apply Z.ltb_ge in H
  | H : (_ <=? _) = true |- _ => apply Z.leb_le in H
  | H : (_ <=? _) = false |- _ => apply Z.leb_gt in H
  | H : (_ =? _) = true |- _ => apply Z.eqb_eq in H
  | H : (_ =? _) = false |- _ => apply Z.eqb_neq in H
  end.


(* ==================================================== ideal-arithmetic twins
   The model decrements the caller's counter as the code does: within its
   signed type, not below the smallest value [lo] of that type (dec).  The
   proofs first treat the same definitions with the mathematical decrement
   (n - 1) — the twins below, which exist only in this file — and then
   transfer to the model by a simulation: the model's counter is the twin's
   counter clamped at lo (Z.max lo), and since lo < 0 every test the code makes
   on the counter (< 1, > 0, == 0) comes out the same (the *_sim lemmas). *)

Definition after_call_z (n : Z) : nat * Z :=
  ((if n <? 1 then 1%nat else 0%nat), n - 1).

Fixpoint after_calls_z (m : nat) (n : Z) : list nat * Z :=
  match m with
  | O => ([], n)
  | S m' =>
      let '(r, n1) := after_call_z n in
      let '(rs, nf) := after_calls_z m' n1 in
      (r :: rs, nf)
  end.

Definition before_call_z (clk fn : nat -> Z) (n : Z) (w : world) : outcome * Z * world :=
  let n1 := n - 1 in
  if 0 <? n1 then
    ((1%nat, fn (w_k w)), n1, mkWorld (w_cache w) (w_tick w) (S (w_k w)))
  else
    let '(ran, c1, t1, k1) :=
        if n1 =? 0 then
          let v := fn (w_k w) in
          let '(c1, t1) := c_set clk (w_cache w) v 0 (w_tick w) in
          (1%nat, c1, t1, S (w_k w))
        else (0%nat, w_cache w, w_tick w, w_k w) in
    let '(memo, t2) := c_get clk c1 t1 in
    ((ran, val_of memo), n1, mkWorld c1 t2 k1).

Fixpoint before_calls_z (clk fn : nat -> Z) (m : nat) (n : Z) (w : world) : list outcome * Z * world :=
  match m with
  | O => ([], n, w)
  | S m' =>
      let '(o, n1, w1) := before_call_z clk fn n w in
      let '(os, nf, wf) := before_calls_z clk fn m' n1 w1 in
      (o :: os, nf, wf)
  end.

Definition mstep_z (clk fn : nat -> Z) (s : mstate) (o : mop) : outcome * mstate :=
  let now := fun i : nat => clk i + m_skew s in
  let with_cache c := mkM (m_a s) (m_b s) (m_skew s) (mkWorld c (w_tick (m_w s)) (w_k (m_w s))) in
  match o with
  | MBeforeA => let '(r, n1, w1) := before_call_z now fn (m_a s) (m_w s) in (r, mkM n1 (m_b s) (m_skew s) w1)
  | MBeforeB => let '(r, n1, w1) := before_call_z now fn (m_b s) (m_w s) in (r, mkM (m_a s) n1 (m_skew s) w1)
  | MOnce => let '(r, w1) := once_call now fn (m_w s) in (r, mkM (m_a s) (m_b s) (m_skew s) w1)
  | MDelete => ((0%nat, 0), with_cache (c_delete (w_cache (m_w s))))
  | MFlush => ((0%nat, 0), with_cache (c_flush (w_cache (m_w s))))
  | MSleep d => ((0%nat, 0), mkM (m_a s) (m_b s) (m_skew s + Z.max 0 d) (m_w s))
  end.

Fixpoint mrun_z (clk fn : nat -> Z) (ops : list mop) (s : mstate) : list outcome * mstate :=
  match ops with
  | [] => ([], s)
  | o :: ops' =>
      let '(r, s1) := mstep_z clk fn s o in
      let '(rs, sf) := mrun_z clk fn ops' s1 in
      (r :: rs, sf)
  end.

(* ------------------------------------------------------ the decrement [dec] *)

Lemma wrapT_small : forall lo z, lo < 0 -> is_int lo z -> wrapT lo z = z.
Proof.
  intros lo z Hlo H. unfold wrapT, is_int in *. rewrite Z.mod_small by lia. lia.
Qed.

Lemma wrapT_below : forall lo, lo < 0 -> wrapT lo (lo - 1) = - lo - 1.
Proof.
  intros lo Hlo. unfold wrapT.
  replace (lo - 1 - lo) with ((2 * - lo - 1) + (-1) * (2 * - lo)) by lia.
  rewrite Z.mod_add by lia. rewrite Z.mod_small by lia. lia.
Qed.

(* dec is the saturating decrement on the values of the type *)
Lemma dec_saturates : forall lo n, lo < 0 -> is_int lo n ->
  dec lo n = if n =? lo then n else n - 1.
Proof.
  intros lo n Hlo Hn. unfold dec. cbv zeta. destruct (n =? lo) eqn:E; zbool.
  - subst n. rewrite wrapT_below by exact Hlo.
    replace (- lo - 1 <? lo) with false by (symmetry; apply Z.ltb_ge; lia). reflexivity.
  - unfold is_int in Hn. rewrite wrapT_small by (unfold is_int; lia).
    replace (n - 1 <? n) with true by (symmetry; apply Z.ltb_lt; lia). reflexivity.
Qed.

(* ... i.e. the mathematical decrement, clamped at lo *)
Lemma dec_max : forall lo z, lo < 0 -> z <= - lo - 1 ->
  dec lo (Z.max lo z) = Z.max lo (z - 1).
Proof.
  intros lo z Hlo Hz. rewrite dec_saturates by (unfold is_int; lia).
  destruct (Z.max lo z =? lo) eqn:E; zbool; lia.
Qed.

Lemma dec_orig_min : dec_orig min64 min64 = max64 /\ dec_orig min8 min8 = 127.
Proof. vm_compute. split; reflexivity. Qed.

(* ================================================================== After *)

Lemma after_calls_final : forall m n, snd (after_calls_z m n) = n - Z.of_nat m.
Proof.
  induction m as [|m IH]; intros n.
  - cbn. lia.
  - cbn [after_calls_z]. unfold after_call_z.
    destruct (after_calls_z m (n - 1)) as [rs nf] eqn:E.
    specialize (IH (n - 1)). rewrite E in IH. cbn in *. lia.
Qed.

Lemma after_calls_runs : forall m n, fst (after_calls_z m n) = after_spec_runs n m.
Proof.
  induction m as [|m IH]; intros n.
  - reflexivity.
  - cbn [after_calls_z]. unfold after_call_z.
    destruct (after_calls_z m (n - 1)) as [rs nf] eqn:E.
    specialize (IH (n - 1)). rewrite E in IH. cbn [fst] in *.
    unfold after_spec_runs in *. cbn [seq map]. rewrite <- seq_shift, map_map.
    f_equal.
    + destruct (n <? 1) eqn:A, (n <=? Z.of_nat 0) eqn:B; try reflexivity; zbool; cbn in *; lia.
    + rewrite IH. apply map_ext. intros i.
      destruct (n - 1 <=? Z.of_nat i) eqn:A, (n <=? Z.of_nat (S i)) eqn:B; try reflexivity; zbool; lia.
Qed.

Lemma after_spec_runs_nth : forall n m i, (i < m)%nat ->
  nth i (after_spec_runs n m) 0%nat = if n <=? Z.of_nat i then 1%nat else 0%nat.
Proof.
  intros n m i Hi. unfold after_spec_runs.
  set (f := fun j : nat => if n <=? Z.of_nat j then 1%nat else 0%nat).
  change (nth i (map f (seq 0 m)) 0%nat = f i).
  rewrite nth_indep with (d' := f 0%nat) by (rewrite map_length, seq_length; exact Hi).
  rewrite map_nth, seq_nth by exact Hi. reflexivity.
Qed.

Lemma after_spec_runs_total : forall m n,
  Z.of_nat (list_sum (after_spec_runs n m)) = Z.max 0 (Z.of_nat m - Z.max 0 n).
Proof.
  intros m n. rewrite <- after_calls_runs. revert n.
  induction m as [|m IH]; intros n.
  - cbn. lia.
  - cbn [after_calls_z]. unfold after_call_z.
    destruct (after_calls_z m (n - 1)) as [rs nf] eqn:E.
    specialize (IH (n - 1)). rewrite E in IH. cbn [fst] in *.
    match goal with |- context [list_sum (?r :: ?l)] => change (list_sum (r :: l)) with (r + list_sum l)%nat end.
    rewrite Nat2Z.inj_add, IH.
    destruct (n <? 1) eqn:A; zbool; lia.
Qed.

(* ================================================================== Retry *)

Lemma first_ok_from_some : forall ok b k f,
  first_ok_from ok k b = Some f ->
  (k <= f < k + b)%nat /\ ok f = true /\ forall j, (k <= j < f)%nat -> ok j = false.
Proof.
  induction b as [|b IH]; intros k f H; cbn in H; [discriminate|].
  destruct (ok k) eqn:E.
  - inversion H; subst. repeat split; try lia; auto.
  - apply IH in H as (H1 & H2 & H3). repeat split; try lia; auto.
    intros j Hj. destruct (Nat.eq_dec j k) as [->|]; [exact E|apply H3; lia].
Qed.

Lemma first_ok_from_none : forall ok b k,
  first_ok_from ok k b = None -> forall j, (k <= j < k + b)%nat -> ok j = false.
Proof.
  induction b as [|b IH]; intros k H j Hj; [lia|].
  cbn in H. destruct (ok k) eqn:E; [discriminate|].
  destruct (Nat.eq_dec j k) as [->|]; [exact E|apply (IH (S k) H); lia].
Qed.

Lemma first_ok_from_complete_some : forall ok b k f,
  (k <= f < k + b)%nat -> ok f = true -> (forall j, (k <= j < f)%nat -> ok j = false) ->
  first_ok_from ok k b = Some f.
Proof.
  induction b as [|b IH]; intros k f Hf Hok Hmin; [lia|].
  cbn. destruct (Nat.eq_dec f k) as [->|Hne].
  - now rewrite Hok.
  - rewrite (Hmin k) by lia. apply IH; try lia; auto. intros j Hj. apply Hmin. lia.
Qed.

Lemma first_ok_from_complete_none : forall ok b k,
  (forall j, (k <= j < k + b)%nat -> ok j = false) -> first_ok_from ok k b = None.
Proof.
  induction b as [|b IH]; intros k H; [reflexivity|].
  cbn. rewrite (H k) by lia. apply IH. intros j Hj. apply H. lia.
Qed.

(* the loop, from any iteration k in which attempt = k failures have happened *)
Definition retry_tail (n : Z) (ok : nat -> bool) (k : nat) : retry_result :=
  match first_ok_from ok k (Z.to_nat n - k) with
  | Some f => mkRetry (Z.of_nat f) 0 (S f)
  | None => mkRetry n (if n =? 0 then 0 else errid (Z.to_nat n - 1)) (Z.to_nat n)
  end.

Lemma retry_tail_step : forall n ok k, (k < Z.to_nat n)%nat ->
  retry_tail n ok k = if ok k then mkRetry (Z.of_nat k) 0 (S k) else retry_tail n ok (S k).
Proof.
  intros n ok k Hk. unfold retry_tail.
  replace (Z.to_nat n - k)%nat with (S (Z.to_nat n - S k)) by lia. cbn [first_ok_from].
  destruct (ok k); reflexivity.
Qed.

Lemma retry_tail_end : forall n ok k, (Z.to_nat n <= k)%nat ->
  retry_tail n ok k = mkRetry n (if n =? 0 then 0 else errid (Z.to_nat n - 1)) (Z.to_nat n).
Proof.
  intros n ok k Hk. unfold retry_tail.
  replace (Z.to_nat n - k)%nat with 0%nat by lia. reflexivity.
Qed.

Lemma retry_loop_spec : forall b fuel n ok k err,
  0 <= n -> (k <= Z.to_nat n)%nat -> b = (Z.to_nat n - k)%nat -> (b < fuel)%nat ->
  err = (if Nat.eqb k 0 then 0 else errid (k - 1)) ->
  retry_loop fuel n ok (Z.of_nat k) err k = Some (retry_tail n ok k).
Proof.
  induction b as [|b IH]; intros fuel n ok k err Hn Hk Hb Hf Herr.
  - destruct fuel as [|fuel]; [lia|]. cbn [retry_loop].
    assert (Hkn : Z.of_nat k = n) by lia.
    replace (Z.of_nat k <? n) with false by (symmetry; apply Z.ltb_ge; lia).
    unfold retry_tail. rewrite <- Hb. cbn [first_ok_from].
    f_equal. rewrite Herr, Hkn.
    assert (Hk' : k = Z.to_nat n) by lia. rewrite <- Hk'.
    destruct k as [|k]; cbn [Nat.eqb].
    + replace n with 0 by lia. reflexivity.
    + replace (n =? 0) with false by (symmetry; apply Z.eqb_neq; lia). reflexivity.
  - destruct fuel as [|fuel]; [lia|]. cbn [retry_loop].
    replace (Z.of_nat k <? n) with true by (symmetry; apply Z.ltb_lt; lia).
    unfold retry_tail. rewrite <- Hb. cbn [first_ok_from].
    destruct (ok k) eqn:E; [reflexivity|].
    replace (Z.of_nat k + 1) with (Z.of_nat (S k)) by lia.
    rewrite (IH fuel n ok (S k) (errid k)); try lia.
    + unfold retry_tail. replace (Z.to_nat n - S k)%nat with b by lia. reflexivity.
    + cbn [Nat.eqb]. replace (S k - 1)%nat with k by lia. reflexivity.
Qed.

Lemma retry_eq_spec : forall n ok, retry n ok = Some (retry_spec true n ok).
Proof.
  intros n ok. unfold retry, retry_with, retry_spec.
  destruct (n <? 0) eqn:E; [reflexivity|]. apply Z.ltb_ge in E.
  pose proof (retry_loop_spec (Z.to_nat n) (retry_fuel n) n ok 0%nat 0 E) as H.
  change (Z.of_nat 0) with 0 in H. rewrite H; try (unfold retry_fuel; lia); auto.
  unfold retry_tail, first_ok. rewrite Nat.sub_0_r. reflexivity.
Qed.

(* the closed form, clause by clause *)
Lemma retry_spec_negative : forall c n ok, n < 0 ->
  retry_spec c n ok = mkRetry 0 (if c then err_arg else 0) 0.
Proof. intros c n ok H. unfold retry_spec. now replace (n <? 0) with true by (symmetry; apply Z.ltb_lt; lia). Qed.

Lemma retry_spec_success : forall c n ok f,
  (Z.of_nat f < n) -> ok f = true -> (forall j, (j < f)%nat -> ok j = false) ->
  retry_spec c n ok = mkRetry (Z.of_nat f) 0 (S f).
Proof.
  intros c n ok f Hf Hok Hmin. unfold retry_spec.
  replace (n <? 0) with false by (symmetry; apply Z.ltb_ge; lia).
  unfold first_ok. rewrite (first_ok_from_complete_some ok (Z.to_nat n) 0 f); auto; try lia.
  intros j Hj. apply Hmin. lia.
Qed.

Lemma retry_spec_exhausted : forall c n ok,
  0 <= n -> (forall j, Z.of_nat j < n -> ok j = false) ->
  retry_spec c n ok = mkRetry n (if n =? 0 then 0 else errid (Z.to_nat n - 1)) (Z.to_nat n).
Proof.
  intros c n ok Hn Hall. unfold retry_spec.
  replace (n <? 0) with false by (symmetry; apply Z.ltb_ge; lia).
  unfold first_ok. rewrite first_ok_from_complete_none; auto.
  intros j Hj. apply Hall. lia.
Qed.

Lemma retry_spec_calls_bound : forall c n ok,
  Z.of_nat (r_calls (retry_spec c n ok)) <= Z.max 0 n.
Proof.
  intros c n ok. unfold retry_spec. destruct (n <? 0) eqn:E; cbn; [lia|].
  apply Z.ltb_ge in E. unfold first_ok.
  destruct (first_ok_from ok 0 (Z.to_nat n)) as [f|] eqn:F; cbn [r_calls].
  - apply first_ok_from_some in F. lia.
  - lia.
Qed.

(* invocations = min n (index of first success + 1); failed attempts reported = invocations that failed *)
Lemma retry_spec_counts : forall c n ok,
  0 <= n ->
  let r := retry_spec c n ok in
  (forall j, (j < r_calls r)%nat -> (S j < r_calls r)%nat -> ok j = false) /\
  ((r_err r = 0 /\ (r_calls r > 0)%nat /\ ok (r_calls r - 1)%nat = true /\ r_attempts r = Z.of_nat (r_calls r) - 1)
   \/ (Z.of_nat (r_calls r) = n /\ r_attempts r = n /\ (forall j, (j < r_calls r)%nat -> ok j = false))).
Proof.
  intros c n ok Hn r. subst r. unfold retry_spec.
  replace (n <? 0) with false by (symmetry; apply Z.ltb_ge; lia).
  unfold first_ok. destruct (first_ok_from ok 0 (Z.to_nat n)) as [f|] eqn:F; cbn [r_calls r_err r_attempts].
  - apply first_ok_from_some in F as (F1 & F2 & F3). split.
    + intros j Hj1 Hj2. apply F3. lia.
    + left. replace (S f - 1)%nat with f by lia. repeat split; auto; lia.
  - pose proof (first_ok_from_none _ _ _ F) as Hall. split.
    + intros j Hj _. apply Hall. lia.
    + right. repeat split; try lia. intros j Hj. apply Hall. lia.
Qed.

(* ========================================================= RetryWithDelay *)

Section TimedProofs.
Variables (t_start : Z) (t_inv t_arm t_fire : nat -> Z) (t_end : Z).

(* the list of invocation instants / waits the loop has produced up to iteration k *)
Definition elapsed_upto (k : nat) : list Z := map (fun j => t_inv j - t_start) (seq 0 k).
Definition waits_upto (k : nat) : list (Z * Z) := map (fun j => (t_arm j, t_fire j)) (seq 0 k).

Lemma elapsed_upto_S k : elapsed_upto (S k) = elapsed_upto k ++ [t_inv k - t_start].
Proof. unfold elapsed_upto. rewrite seq_S, map_app. reflexivity. Qed.
Lemma waits_upto_S k : waits_upto (S k) = waits_upto k ++ [(t_arm k, t_fire k)].
Proof. unfold waits_upto. rewrite seq_S, map_app. reflexivity. Qed.

(* the timed result that goes with the counts r: one elapsed value per invocation, one wait per failure *)
Definition timed_of (r : retry_result) : timed_result :=
  mkTimed r (elapsed_upto (r_calls r))
          (waits_upto (if r_err r =? 0 then (r_calls r - 1)%nat else r_calls r))
          (t_end - t_start).

Lemma retry_delay_loop_spec : forall b fuel n ok k err,
  0 <= n -> (k <= Z.to_nat n)%nat -> b = (Z.to_nat n - k)%nat -> (b < fuel)%nat ->
  err = (if Nat.eqb k 0 then 0 else errid (k - 1)) ->
  retry_delay_loop t_start t_inv t_arm t_fire t_end fuel n ok (Z.of_nat k) err k (elapsed_upto k) (waits_upto k)
  = Some (timed_of (retry_tail n ok k)).
Proof.
  induction b as [|b IH]; intros fuel n ok k err Hn Hk Hb Hf Herr.
  - destruct fuel as [|fuel]; [lia|]. cbn [retry_delay_loop].
    assert (Hkn : Z.of_nat k = n) by lia.
    replace (Z.of_nat k <? n) with false by (symmetry; apply Z.ltb_ge; lia).
    rewrite retry_tail_end by lia. unfold timed_of. cbn [r_calls r_err].
    assert (Hk' : k = Z.to_nat n) by lia. rewrite <- Hk'.
    rewrite Herr, Hkn.
    destruct k as [|k]; cbn [Nat.eqb].
    + replace n with 0 by lia. reflexivity.
    + replace (n =? 0) with false by (symmetry; apply Z.eqb_neq; lia).
      replace (errid (S k - 1) =? 0) with false by (symmetry; apply Z.eqb_neq; unfold errid; lia).
      reflexivity.
  - destruct fuel as [|fuel]; [lia|]. cbn [retry_delay_loop].
    replace (Z.of_nat k <? n) with true by (symmetry; apply Z.ltb_lt; lia).
    rewrite retry_tail_step by lia.
    destruct (ok k) eqn:E.
    + unfold timed_of. cbn [r_calls r_err]. rewrite Z.eqb_refl, elapsed_upto_S.
      replace (S k - 1)%nat with k by lia. reflexivity.
    + replace (Z.of_nat k + 1) with (Z.of_nat (S k)) by lia.
      rewrite <- elapsed_upto_S, <- waits_upto_S.
      apply (IH fuel n ok (S k) (errid k)); try lia.
      cbn [Nat.eqb]. replace (S k - 1)%nat with k by lia. reflexivity.
Qed.

(* the loop for n < 0 is skipped: RetryWithDelay has no argument check *)
Lemma retry_delay_negative : forall n ok, n < 0 ->
  retry_delay t_start t_inv t_arm t_fire t_end n ok
  = Some (mkTimed (mkRetry 0 0 0) [] [] (t_end - t_start)).
Proof.
  intros n ok Hn. unfold retry_delay, retry_fuel. cbn [retry_delay_loop].
  replace (0 <? n) with false by (symmetry; apply Z.ltb_ge; lia). reflexivity.
Qed.

Lemma retry_delay_eq_spec : forall n ok,
  retry_delay t_start t_inv t_arm t_fire t_end n ok = Some (timed_of (retry_spec false n ok)).
Proof.
  intros n ok. destruct (Z.ltb_spec n 0) as [Hneg|Hn].
  - rewrite retry_delay_negative by exact Hneg. rewrite retry_spec_negative by exact Hneg. reflexivity.
  - unfold retry_delay.
    pose proof (retry_delay_loop_spec (Z.to_nat n) (retry_fuel n) n ok 0%nat 0 Hn) as H.
    change (Z.of_nat 0) with 0 in H. change (elapsed_upto 0) with (@nil Z) in H.
    change (waits_upto 0) with (@nil (Z * Z)) in H.
    rewrite H; try (unfold retry_fuel; lia); auto.
    unfold retry_spec. replace (n <? 0) with false by (symmetry; apply Z.ltb_ge; lia).
    unfold retry_tail, first_ok. rewrite Nat.sub_0_r. reflexivity.
Qed.

(* the runtime laws: program order of the clock reads and "a timer never fires early" *)
Variable d : Z.
Hypothesis inv_before_arm : forall j, t_inv j <= t_arm j.
Hypothesis timer_law : forall j, t_arm j + d <= t_fire j.
Hypothesis fire_before_next : forall j, t_fire j <= t_inv (S j).

Lemma gap_one : forall j, t_inv j + d <= t_inv (S j).
Proof. intros j. specialize (inv_before_arm j). specialize (timer_law j). specialize (fire_before_next j). lia. Qed.

Lemma gap_many : forall i j, (i <= j)%nat -> 0 <= d -> t_inv i + Z.of_nat (j - i) * d <= t_inv j.
Proof.
  intros i j Hij Hd. induction j as [|j IH].
  - replace i with 0%nat by lia. cbn. lia.
  - destruct (Nat.eq_dec i (S j)) as [->|Hne].
    + rewrite Nat.sub_diag. cbn. lia.
    + assert (Hle : (i <= j)%nat) by lia. specialize (IH Hle). pose proof (gap_one j).
      replace (S j - i)%nat with (S (j - i)) by lia. rewrite Nat2Z.inj_succ. lia.
Qed.

End TimedProofs.

(* ======================================================== cache, key "func" *)

Section CacheProofs.
Variable clk : nat -> Z.

(* the entry of c (if any) is alive at every clock read of the history *)
Definition entry_lives (c : cache) : Prop :=
  match c_slot c with
  | Some (_, e) => e <= 0 \/ forall i, clk i <= e
  | None => True
  end.

Lemma c_get_none : forall c t, c_slot c = None -> c_get clk c t = (None, t).
Proof. intros c t H. unfold c_get. now rewrite H. Qed.

Lemma c_get_live : forall c t v e, c_slot c = Some (v, e) -> (e <= 0 \/ forall i, clk i <= e) ->
  fst (c_get clk c t) = Some v.
Proof.
  intros c t v e H L. unfold c_get. rewrite H.
  destruct (0 <? e) eqn:A; [|reflexivity].
  destruct L as [L|L]; [lia|].
  replace (e <? clk t) with false by (symmetry; apply Z.ltb_ge; apply L). reflexivity.
Qed.

Lemma c_get_cases : forall c t,
  (fst (c_get clk c t) = None) \/ (exists v e, c_slot c = Some (v, e) /\ fst (c_get clk c t) = Some v).
Proof.
  intros c t. unfold c_get. destruct (c_slot c) as [[v e]|]; [|now left].
  destruct (0 <? e); [destruct (e <? clk t)|]; cbn; eauto.
Qed.

Lemma c_get_tick_mono : forall c t, (t <= snd (c_get clk c t))%nat.
Proof.
  intros c t. unfold c_get. destruct (c_slot c) as [[v e]|]; cbn; [|lia].
  destruct (0 <? e); [destruct (e <? clk t)|]; cbn; lia.
Qed.

Definition expiry_of (def now : Z) : Z :=
  if 0 <? def then now + def else if def <? 0 then -1 else 0.

(* Set on a cache without entry: stores, deadline from the read at tick t *)
Lemma c_set_empty : forall c v t, c_slot c = None ->
  c_set clk c v 0 t =
  (mkCache (c_def c) (Some (v, expiry_of (c_def c) (clk t))), if 0 <? c_def c then S t else t).
Proof.
  intros c v t H. unfold c_set. rewrite (c_get_none c t H). unfold c_add. cbn [Z.eqb].
  unfold expiry_of.
  destruct (0 <? c_def c) eqn:A.
  - rewrite (c_get_none c (S t) H). reflexivity.
  - destruct (c_def c <? 0); rewrite (c_get_none c t H); reflexivity.
Qed.

(* Set when Get misses at tick t under a monotone clock: the value is stored *)
Lemma c_set_miss_stores : forall c v t,
  (forall i j, (i <= j)%nat -> clk i <= clk j) ->
  fst (c_get clk c t) = None ->
  exists e, c_slot (fst (c_set clk c v 0 t)) = Some (v, e).
Proof.
  intros c v t Hmono Hmiss. unfold c_set.
  destruct (c_get clk c t) as [memo t1] eqn:G. cbn in Hmiss. subst memo.
  unfold c_add. cbn [Z.eqb].
  destruct (if 0 <? c_def c then (clk t1 + c_def c, S t1) else if c_def c <? 0 then (-1, t1) else (0, t1)) as [e t2].
  destruct (c_get clk c t2) as [m t3]. cbn. eauto.
Qed.

(* Set when a live entry exists: refused, nothing changes *)
Lemma c_set_live_refused : forall c v t x e, c_slot c = Some (x, e) -> (e <= 0 \/ forall i, clk i <= e) ->
  fst (c_set clk c v 0 t) = c.
Proof.
  intros c v t x e H L. unfold c_set.
  pose proof (c_get_live c t x e H L) as G.
  destruct (c_get clk c t) as [memo t1]. cbn in G. subst memo. reflexivity.
Qed.

(* ================================================================= Before *)

Variable fn : nat -> Z.

(* phase 1: counter still above 1 — run, return the fresh result, leave the cache alone *)
Lemma before_call_counting : forall n w, 1 < n ->
  before_call_z clk fn n w = ((1%nat, fn (w_k w)), n - 1, mkWorld (w_cache w) (w_tick w) (S (w_k w))).
Proof.
  intros n w Hn. unfold before_call_z.
  replace (0 <? n - 1) with true by (symmetry; apply Z.ltb_lt; lia). reflexivity.
Qed.

(* phase 3: counter at or below 0 — no run, the memo *)
Lemma before_call_spent : forall n w, n <= 0 ->
  before_call_z clk fn n w =
  ((0%nat, val_of (fst (c_get clk (w_cache w) (w_tick w)))), n - 1,
   mkWorld (w_cache w) (snd (c_get clk (w_cache w) (w_tick w))) (w_k w)).
Proof.
  intros n w Hn. unfold before_call_z.
  replace (0 <? n - 1) with false by (symmetry; apply Z.ltb_ge; lia).
  replace (n - 1 =? 0) with false by (symmetry; apply Z.eqb_neq; lia).
  destruct (c_get clk (w_cache w) (w_tick w)) as [memo t2]. reflexivity.
Qed.

(* phase 2: the n-th call — run, store, return the memo *)
Lemma before_call_last : forall w,
  before_call_z clk fn 1 w =
  let '(c1, t1) := c_set clk (w_cache w) (fn (w_k w)) 0 (w_tick w) in
  ((1%nat, val_of (fst (c_get clk c1 t1))), 0, mkWorld c1 (snd (c_get clk c1 t1)) (S (w_k w))).
Proof.
  intros w. unfold before_call_z. cbn [Z.sub Z.ltb Z.eqb Z.compare Z.add Z.opp Z.pos_sub].
  destruct (c_set clk (w_cache w) (fn (w_k w)) 0 (w_tick w)) as [c1 t1].
  destruct (c_get clk c1 t1) as [memo t2]. reflexivity.
Qed.

(* after the store (or with n <= 0 from the beginning): every call returns the memo *)
Lemma before_calls_spent : forall m n w memo,
  n <= 0 ->
  (forall t, fst (c_get clk (w_cache w) t) = memo) ->
  let '(os, nf, wf) := before_calls_z clk fn m n w in
  os = repeat (0%nat, val_of memo) m /\ nf = n - Z.of_nat m /\ w_k wf = w_k w /\ w_cache wf = w_cache w.
Proof.
  induction m as [|m IH]; intros n w memo Hn Hget.
  - cbn. repeat split; lia.
  - cbn [before_calls_z]. rewrite before_call_spent by exact Hn.
    specialize (IH (n - 1) (mkWorld (w_cache w) (snd (c_get clk (w_cache w) (w_tick w))) (w_k w)) memo).
    destruct (before_calls_z clk fn m (n - 1) _) as [[os nf] wf].
    destruct IH as (I1 & I2 & I3 & I4); [lia|exact Hget|].
    cbn [w_k w_cache] in *. rewrite Hget, I1. repeat split; auto; lia.
Qed.

Lemma before_spec_spent : forall f n m, n <= 0 -> before_spec f n m = repeat (0%nat, 0) m.
Proof.
  intros f n m Hn. unfold before_spec.
  assert (H : forall i, before_spec_out f n i = (0%nat, 0)).
  { intros i. unfold before_spec_out.
    replace (Z.of_nat i <? n) with false by (symmetry; apply Z.ltb_ge; lia).
    replace (1 <=? n) with false by (symmetry; apply Z.leb_gt; lia). reflexivity. }
  assert (G : forall s, map (before_spec_out f n) (seq s m) = repeat (0%nat, 0) m).
  { induction m as [|m IH]; intros s; cbn [seq map repeat]; [reflexivity|]. now rewrite H, IH. }
  apply G.
Qed.

(* shifting the callback stream *)
Definition shift (f : nat -> Z) (d : nat) : nat -> Z := fun j => f (d + j)%nat.

Lemma before_spec_cons : forall f n m, 1 < n ->
  before_spec f n (S m) = (1%nat, f 0%nat) :: before_spec (shift f 1) (n - 1) m.
Proof.
  intros f n m Hn. unfold before_spec. cbn [seq map]. f_equal.
  - unfold before_spec_out. replace (Z.of_nat 0 <? n) with true by (symmetry; apply Z.ltb_lt; lia). reflexivity.
  - rewrite <- seq_shift, map_map. apply map_ext. intros i. unfold before_spec_out, shift.
    replace (1 <=? n) with true by (symmetry; apply Z.leb_le; lia).
    replace (1 <=? n - 1) with true by (symmetry; apply Z.leb_le; lia).
    destruct (Z.of_nat (S i) <? n) eqn:A, (Z.of_nat i <? n - 1) eqn:B; zbool; try lia.
    + reflexivity.
    + f_equal. f_equal. lia.
Qed.

Lemma before_spec_one : forall f m,
  before_spec f 1 (S m) = (1%nat, f 0%nat) :: repeat (0%nat, f 0%nat) m.
Proof.
  intros f m. unfold before_spec. cbn [seq map]. f_equal.
  assert (G : forall s, (1 <= s)%nat -> map (before_spec_out f 1) (seq s m) = repeat (0%nat, f 0%nat) m).
  { induction m as [|m IH]; intros s Hs; cbn [seq map repeat]; [reflexivity|].
    rewrite IH by lia. f_equal. unfold before_spec_out.
    replace (Z.of_nat s <? 1) with false by (symmetry; apply Z.ltb_ge; lia). reflexivity. }
  apply G. lia.
Qed.

Definition expiry_ok (def t0 : Z) : Prop := def <= 0 \/ forall i, clk i <= t0 + def.

Lemma expiry_of_lives : forall def now, expiry_ok def now ->
  expiry_of def now <= 0 \/ forall i, clk i <= expiry_of def now.
Proof.
  intros def now H. unfold expiry_of.
  destruct (0 <? def) eqn:A; zbool.
  - destruct H as [H|H]; [lia|right; exact H].
  - destruct (def <? 0); left; lia.
Qed.

(* Before(n) on a cache without entry whose (future) entry lives: the closed form *)
Lemma before_calls_fresh : forall m n w f,
  c_slot (w_cache w) = None ->
  expiry_ok (c_def (w_cache w)) (clk (w_tick w)) ->
  (forall j, f j = fn (w_k w + j)%nat) ->
  let '(os, nf, wf) := before_calls_z clk fn m n w in
  os = before_spec f n m /\ nf = n - Z.of_nat m /\
  Z.of_nat (w_k wf) = Z.of_nat (w_k w) + Z.min (Z.of_nat m) (Z.max 0 n).
Proof.
  induction m as [|m IH]; intros n w f Hslot Hlive Hf.
  - cbn. repeat split; lia.
  - destruct (Z_lt_le_dec 1 n) as [Hbig|Hsmall].
    + (* counting phase *)
      cbn [before_calls_z]. rewrite before_call_counting by exact Hbig.
      specialize (IH (n - 1) (mkWorld (w_cache w) (w_tick w) (S (w_k w))) (shift f 1)).
      destruct (before_calls_z clk fn m (n - 1) _) as [[os nf] wf].
      destruct IH as (I1 & I2 & I3); auto.
      { intros j. unfold shift. cbn [w_k]. rewrite Hf. f_equal. lia. }
      cbn [w_k] in I3. rewrite before_spec_cons by exact Hbig.
      rewrite I1, Hf, Nat.add_0_r. repeat split; auto; lia.
    + destruct (Z.eq_dec n 1) as [->|Hne].
      * (* the n-th call stores; the rest is served from the cache *)
        cbn [before_calls_z]. rewrite before_call_last.
        rewrite (c_set_empty (w_cache w) (fn (w_k w)) (w_tick w) Hslot).
        set (c1 := mkCache (c_def (w_cache w)) (Some (fn (w_k w), expiry_of (c_def (w_cache w)) (clk (w_tick w))))).
        set (t1 := if 0 <? c_def (w_cache w) then S (w_tick w) else w_tick w).
        assert (Hget : forall t, fst (c_get clk c1 t) = Some (fn (w_k w))).
        { intros t. apply (c_get_live c1 t (fn (w_k w)) (expiry_of (c_def (w_cache w)) (clk (w_tick w)))); [reflexivity|].
          apply expiry_of_lives. exact Hlive. }
        pose proof (before_calls_spent m 0 (mkWorld c1 (snd (c_get clk c1 t1)) (S (w_k w))) (Some (fn (w_k w)))) as Sp.
        destruct (before_calls_z clk fn m 0 _) as [[os nf] wf].
        destruct Sp as (S1 & S2 & S3 & S4); [lia|exact Hget|].
        cbn [w_k] in S3. rewrite Hget. cbn [val_of] in *.
        rewrite before_spec_one, S1, Hf, Nat.add_0_r. repeat split; auto; lia.
      * (* n <= 0: nothing ever runs, the zero value *)
        pose proof (before_calls_spent (S m) n w None) as Sp.
        destruct (before_calls_z clk fn (S m) n w) as [[os nf] wf].
        destruct Sp as (S1 & S2 & S3 & S4); [lia| |].
        { intros t. rewrite (c_get_none (w_cache w) t Hslot). reflexivity. }
        rewrite before_spec_spent by lia. cbn [val_of] in S1. repeat split; auto; lia.
Qed.

(* ================================================================== Once *)

Lemma once_call_miss : forall w, fst (c_get clk (w_cache w) (w_tick w)) = None ->
  once_call clk fn w =
  let t1 := snd (c_get clk (w_cache w) (w_tick w)) in
  let '(c1, t2) := c_set clk (w_cache w) (fn (w_k w)) 0 t1 in
  ((1%nat, fn (w_k w)), mkWorld c1 t2 (S (w_k w))).
Proof.
  intros w H. unfold once_call.
  destruct (c_get clk (w_cache w) (w_tick w)) as [memo t1]. cbn in H. subst memo. reflexivity.
Qed.

Lemma once_call_hit : forall w v, fst (c_get clk (w_cache w) (w_tick w)) = Some v ->
  once_call clk fn w =
  let t1 := snd (c_get clk (w_cache w) (w_tick w)) in
  ((0%nat, val_of (fst (c_get clk (w_cache w) t1))),
   mkWorld (w_cache w) (snd (c_get clk (w_cache w) t1)) (w_k w)).
Proof.
  intros w v H. unfold once_call.
  destruct (c_get clk (w_cache w) (w_tick w)) as [memo t1]. cbn in H. subst memo. cbn zeta. cbn [snd].
  destruct (c_get clk (w_cache w) t1) as [memo2 t2]. reflexivity.
Qed.

(* while the entry lives every call is served from it *)
Lemma once_calls_hit : forall m w v,
  (forall t, fst (c_get clk (w_cache w) t) = Some v) ->
  let '(os, wf) := once_calls clk fn m w in
  os = repeat (0%nat, v) m /\ w_k wf = w_k w /\ w_cache wf = w_cache w.
Proof.
  induction m as [|m IH]; intros w v Hget.
  - cbn. auto.
  - cbn [once_calls]. rewrite (once_call_hit w v (Hget _)). cbv beta iota zeta.
    match goal with |- context [once_calls clk fn m ?W] => set (w1 := W) end.
    specialize (IH w1 v).
    destruct (once_calls clk fn m w1) as [os wf].
    destruct IH as (I1 & I2 & I3); [exact Hget|].
    subst w1. cbn [w_k w_cache] in *. rewrite Hget, I1. cbn [val_of repeat]. auto.
Qed.

Lemma once_spec_S : forall f m, once_spec f (S m) = (1%nat, f 0%nat) :: repeat (0%nat, f 0%nat) m.
Proof.
  intros f m. unfold once_spec. cbn [seq map]. f_equal.
  assert (G : forall s, (1 <= s)%nat -> map (once_spec_out f) (seq s m) = repeat (0%nat, f 0%nat) m).
  { induction m as [|m IH]; intros s Hs; cbn [seq map repeat]; [reflexivity|].
    rewrite IH by lia. f_equal. unfold once_spec_out. destruct s; [lia|reflexivity]. }
  apply G. lia.
Qed.

Lemma once_calls_fresh : forall m w,
  c_slot (w_cache w) = None ->
  expiry_ok (c_def (w_cache w)) (clk (w_tick w)) ->
  let '(os, wf) := once_calls clk fn m w in
  os = once_spec (shift fn (w_k w)) m /\
  w_k wf = (w_k w + (if Nat.eqb m 0 then 0 else 1))%nat /\
  (m <> 0%nat -> forall t, fst (c_get clk (w_cache wf) t) = Some (fn (w_k w))).
Proof.
  intros m w Hslot Hlive. destruct m as [|m].
  - cbn. repeat split; try lia; try congruence.
  - cbn [once_calls]. rewrite once_call_miss by (rewrite (c_get_none _ _ Hslot); reflexivity).
    rewrite (c_get_none _ _ Hslot). cbn [snd]. cbv beta iota zeta.
    rewrite (c_set_empty (w_cache w) (fn (w_k w)) (w_tick w) Hslot).
    set (c1 := mkCache (c_def (w_cache w)) (Some (fn (w_k w), expiry_of (c_def (w_cache w)) (clk (w_tick w))))).
    set (t1 := if 0 <? c_def (w_cache w) then S (w_tick w) else w_tick w).
    assert (Hget : forall t, fst (c_get clk c1 t) = Some (fn (w_k w))).
    { intros t. apply (c_get_live c1 t (fn (w_k w)) (expiry_of (c_def (w_cache w)) (clk (w_tick w)))); [reflexivity|].
      apply expiry_of_lives. exact Hlive. }
    pose proof (once_calls_hit m (mkWorld c1 t1 (S (w_k w))) (fn (w_k w)) Hget) as Sp.
    destruct (once_calls clk fn m _) as [os wf].
    destruct Sp as (S1 & S2 & S3). cbn [w_k w_cache] in *.
    rewrite once_spec_S, S1. unfold shift. rewrite Nat.add_0_r. cbn [Nat.eqb].
    repeat split; auto; try lia. intros _ t. rewrite S3. apply Hget.
Qed.

(* one call of Once in ANY state, under a monotone clock *)
Lemma once_call_any : forall w,
  (forall i j, (i <= j)%nat -> clk i <= clk j) ->
  let '((ran, ret), w') := once_call clk fn w in
  match fst (c_get clk (w_cache w) (w_tick w)) with
  | None => ran = 1%nat /\ ret = fn (w_k w) /\ w_k w' = S (w_k w) /\
            exists e, c_slot (w_cache w') = Some (fn (w_k w), e)
  | Some v => ran = 0%nat /\ w_k w' = w_k w /\ w_cache w' = w_cache w /\ (ret = v \/ ret = 0)
  end.
Proof.
  intros w Hmono.
  destruct (fst (c_get clk (w_cache w) (w_tick w))) as [v|] eqn:G.
  - rewrite (once_call_hit w v G). cbn zeta. cbn [w_k w_cache]. repeat split; auto.
    destruct (c_get_cases (w_cache w) (snd (c_get clk (w_cache w) (w_tick w)))) as [N|(v' & e' & Hs & Hg)].
    + rewrite N. right. reflexivity.
    + rewrite Hg. left. cbn [val_of].
      destruct (c_get_cases (w_cache w) (w_tick w)) as [N|(v2 & e2 & Hs2 & Hg2)]; congruence.
  - rewrite (once_call_miss w G). cbn zeta.
    assert (G1 : fst (c_get clk (w_cache w) (snd (c_get clk (w_cache w) (w_tick w)))) = None).
    { revert G. unfold c_get. destruct (c_slot (w_cache w)) as [[v e]|]; [|reflexivity].
      destruct (0 <? e) eqn:A; [|discriminate].
      destruct (e <? clk (w_tick w)) eqn:B; [|discriminate]. intros _. cbn [snd].
      zbool. pose proof (Hmono (w_tick w) (S (w_tick w)) (Nat.le_succ_diag_r _)).
      replace (e <? clk (S (w_tick w))) with true by (symmetry; apply Z.ltb_lt; lia). reflexivity. }
    pose proof (c_set_miss_stores (w_cache w) (fn (w_k w)) (snd (c_get clk (w_cache w) (w_tick w))) Hmono G1) as (e & He).
    destruct (c_set clk (w_cache w) (fn (w_k w)) 0 _) as [c1 t2]. cbn [fst w_k w_cache] in *.
    repeat split; auto. exists e. exact He.
Qed.

(* one call of Before in ANY state *)
Lemma before_call_any : forall n w,
  let '((ran, ret), n', w') := before_call_z clk fn n w in
  n' = n - 1 /\
  (1 <= n -> ran = 1%nat /\ w_k w' = S (w_k w)) /\
  (n <= 0 -> ran = 0%nat /\ w_k w' = w_k w /\ w_cache w' = w_cache w) /\
  (1 < n -> ret = fn (w_k w) /\ w_cache w' = w_cache w).
Proof.
  intros n w.
  destruct (Z_lt_le_dec 1 n) as [Hbig|Hsmall].
  - rewrite before_call_counting by exact Hbig. cbn [w_k w_cache]. repeat split; auto; lia.
  - destruct (Z.eq_dec n 1) as [->|Hne].
    + rewrite before_call_last.
      destruct (c_set clk (w_cache w) (fn (w_k w)) 0 (w_tick w)) as [c1 t1]. cbn [w_k].
      repeat split; auto; lia.
    + rewrite before_call_spent by lia. cbn [w_k w_cache]. repeat split; auto; lia.
Qed.

End CacheProofs.

(* the code as found: the first call of Once consumes two results and returns the second,
   while the first is the one cached *)
Lemma once_orig_twice :
  let fn := fun k : nat => Z.of_nat k + 10 in
  let '((ran, ret), w') := once_call_orig (fun _ => 0) fn (world0 0) in
  ran = 2%nat /\ ret = 11 /\ c_slot (w_cache w') = Some (10, 0).
Proof. vm_compute. repeat split. Qed.

(* ============================================ Before: run counts in ANY state *)

Section BeforeAnyState.
Variables clk fn : nat -> Z.

Lemma before_call_ran : forall n w,
  let '((ran, ret), n', w') := before_call_z clk fn n w in
  ran = (if 1 <=? n then 1%nat else 0%nat) /\ n' = n - 1 /\
  w_k w' = (w_k w + (if (1 <=? n)%Z then 1 else 0))%nat.
Proof.
  intros n w. pose proof (before_call_any clk fn n w) as H.
  destruct (before_call_z clk fn n w) as [[[ran ret] n'] w'].
  destruct H as (H1 & H2 & H3 & _).
  destruct (1 <=? n) eqn:A; zbool.
  - destruct (H2 A) as (-> & ->). repeat split; auto; lia.
  - destruct H3 as (-> & -> & _); [lia|]. repeat split; auto; lia.
Qed.

(* m calls from ANY world (any cache content, any deadline) under ANY clock:
   the invocation pattern depends on the counter alone *)
Lemma before_calls_runs_any : forall m n w,
  let '(os, nf, wf) := before_calls_z clk fn m n w in
  map fst os = map (fun i => if Z.of_nat i <? n then 1%nat else 0%nat) (seq 0 m) /\
  nf = n - Z.of_nat m /\
  Z.of_nat (w_k wf) = Z.of_nat (w_k w) + Z.min (Z.of_nat m) (Z.max 0 n).
Proof.
  induction m as [|m IH]; intros n w.
  - cbn. repeat split; lia.
  - cbn [before_calls_z]. pose proof (before_call_ran n w) as H.
    destruct (before_call_z clk fn n w) as [[[ran ret] n'] w'].
    destruct H as (Hran & Hn & Hk). subst n'.
    specialize (IH (n - 1) w').
    destruct (before_calls_z clk fn m (n - 1) w') as [[os nf] wf].
    destruct IH as (I1 & I2 & I3).
    cbn [map fst seq]. rewrite <- seq_shift, map_map, I1. split; [|split].
    + f_equal.
      * rewrite Hran. destruct (1 <=? n) eqn:A, (Z.of_nat 0 <? n) eqn:B; zbool; try reflexivity; lia.
      * apply map_ext. intros i.
        destruct (Z.of_nat i <? n - 1) eqn:A, (Z.of_nat (S i) <? n) eqn:B; zbool; try reflexivity; lia.
    + lia.
    + rewrite I3, Hk. destruct (1 <=? n) eqn:A; zbool; lia.
Qed.

End BeforeAnyState.

(* ================================ mixed histories: Before counts by its counter *)

Definition is_before_a (o : mop) : bool := match o with MBeforeA => true | _ => false end.
Definition is_before_b (o : mop) : bool := match o with MBeforeB => true | _ => false end.

Lemma mstep_counters : forall clk fn s o,
  m_a (snd (mstep_z clk fn s o)) = m_a s - (if is_before_a o then 1 else 0) /\
  m_b (snd (mstep_z clk fn s o)) = m_b s - (if is_before_b o then 1 else 0).
Proof.
  intros clk fn s o. destruct o; cbn [mstep_z is_before_a is_before_b].
  - pose proof (before_call_ran (fun i => clk i + m_skew s) fn (m_a s) (m_w s)) as H.
    destruct (before_call_z _ fn (m_a s) (m_w s)) as [[[ran ret] n'] w']. cbn. lia.
  - pose proof (before_call_ran (fun i => clk i + m_skew s) fn (m_b s) (m_w s)) as H.
    destruct (before_call_z _ fn (m_b s) (m_w s)) as [[[ran ret] n'] w']. cbn. lia.
  - destruct (once_call _ fn (m_w s)) as [r w1]. cbn. lia.
  - cbn. lia.
  - cbn. lia.
  - cbn. lia.
Qed.

Lemma mrun_counters : forall clk fn ops s,
  m_a (snd (mrun_z clk fn ops s)) = m_a s - Z.of_nat (length (filter is_before_a ops)) /\
  m_b (snd (mrun_z clk fn ops s)) = m_b s - Z.of_nat (length (filter is_before_b ops)).
Proof.
  intros clk fn ops. induction ops as [|o ops IH]; intros s.
  - cbn. lia.
  - cbn [mrun_z]. pose proof (mstep_counters clk fn s o) as (Ha & Hb).
    destruct (mstep_z clk fn s o) as [r s1]. cbn [snd] in Ha, Hb.
    specialize (IH s1). destruct (mrun_z clk fn ops s1) as [rs sf]. cbn [snd] in *.
    cbn [filter]. destruct (is_before_a o), (is_before_b o); cbn [length]; lia.
Qed.

Lemma mstep_before_a_ran : forall clk fn s,
  fst (fst (mstep_z clk fn s MBeforeA)) = (if 1 <=? m_a s then 1%nat else 0%nat).
Proof.
  intros clk fn s. cbn [mstep_z].
  pose proof (before_call_ran (fun i => clk i + m_skew s) fn (m_a s) (m_w s)) as H.
  destruct (before_call_z _ fn (m_a s) (m_w s)) as [[[ran ret] n'] w']. cbn. tauto.
Qed.

Lemma mstep_before_b_ran : forall clk fn s,
  fst (fst (mstep_z clk fn s MBeforeB)) = (if 1 <=? m_b s then 1%nat else 0%nat).
Proof.
  intros clk fn s. cbn [mstep_z].
  pose proof (before_call_ran (fun i => clk i + m_skew s) fn (m_b s) (m_w s)) as H.
  destruct (before_call_z _ fn (m_b s) (m_w s)) as [[[ran ret] n'] w']. cbn. tauto.
Qed.

(* ====================== mixed histories refine the memo-cell reference machine *)

Section MemoCell.
Variables (clk fn : nat -> Z) (def : Z).
Hypothesis clk_const : forall i, clk i = clk 0%nat.
Hypothesis clk_nonneg : 0 <= clk 0%nat.

(* what a Get at instant [now] sees *)
Definition live (now : Z) (slot : option (Z * Z)) : option Z :=
  match slot with
  | Some (v, e) => if (0 <? e) && (e <? now) then None else Some v
  | None => None
  end.

(* deadlines stored by a cache with default expiry def, seen at instant now *)
Definition slot_ok (now : Z) (slot : option (Z * Z)) : Prop :=
  match slot with
  | Some (_, e) => (0 < def -> 0 < e <= now + def) /\ (def <= 0 -> e <= 0)
  | None => True
  end.

Lemma c_get_const : forall skew c t,
  fst (c_get (fun i => clk i + skew) c t) = live (clk 0%nat + skew) (c_slot c).
Proof.
  intros skew c t. unfold c_get, live. destruct (c_slot c) as [[v e]|]; [|reflexivity].
  rewrite (clk_const t). destruct (0 <? e); cbn [andb]; [|reflexivity].
  destruct (e <? clk 0%nat + skew); reflexivity.
Qed.

Lemma c_set_const : forall skew c v t, 0 <= skew -> c_def c = def ->
  slot_ok (clk 0%nat + skew) (c_slot c) ->
  let c1 := fst (c_set (fun i => clk i + skew) c v 0 t) in
  c_def c1 = def /\ slot_ok (clk 0%nat + skew) (c_slot c1) /\
  live (clk 0%nat + skew) (c_slot c1) =
    match live (clk 0%nat + skew) (c_slot c) with Some x => Some x | None => Some v end.
Proof.
  intros skew c v t Hskew Hdef Hok. cbv zeta. unfold c_set.
  pose proof (c_get_const skew c t) as G.
  destruct (c_get (fun i => clk i + skew) c t) as [memo t1]. cbn [fst] in G. subst memo.
  destruct (live (clk 0%nat + skew) (c_slot c)) as [x|] eqn:L.
  - cbn [fst]. rewrite L. auto.
  - unfold c_add. cbn [Z.eqb]. rewrite Hdef.
    set (now := clk 0%nat + skew) in *.
    destruct (0 <? def) eqn:A.
    + destruct (c_get (fun i => clk i + skew) c (S t1)) as [m2 t3]. cbn [fst c_def c_slot].
      rewrite (clk_const t1). fold now. zbool. split; [reflexivity|]. split.
      * cbn. split; intros; lia.
      * unfold live. replace (now + def <? now) with false by (symmetry; apply Z.ltb_ge; lia).
        rewrite andb_false_r. reflexivity.
    + destruct (def <? 0) eqn:B; destruct (c_get (fun i => clk i + skew) c t1) as [m2 t3];
        cbn [fst c_def c_slot]; zbool; (split; [reflexivity|]); split; cbn; try (split; intros; lia); reflexivity.
Qed.

Lemma before_call_const : forall skew x w, 0 <= skew -> c_def (w_cache w) = def ->
  slot_ok (clk 0%nat + skew) (c_slot (w_cache w)) ->
  let '(r, x1, w1) := before_call_z (fun i => clk i + skew) fn x w in
  let '(r2, x2, memo2, k2) := s_before fn x (live (clk 0%nat + skew) (c_slot (w_cache w))) (w_k w) in
  r = r2 /\ x1 = x2 /\ w_k w1 = k2 /\ c_def (w_cache w1) = def /\
  slot_ok (clk 0%nat + skew) (c_slot (w_cache w1)) /\
  live (clk 0%nat + skew) (c_slot (w_cache w1)) = memo2.
Proof.
  intros skew x w Hskew Hdef Hok. unfold s_before.
  destruct (1 <? x) eqn:A; zbool.
  - rewrite before_call_counting by lia. cbn [w_k w_cache]. repeat split; auto.
  - destruct (x =? 1) eqn:B; zbool.
    + subst x. rewrite before_call_last.
      pose proof (c_set_const skew (w_cache w) (fn (w_k w)) (w_tick w) Hskew Hdef Hok) as H.
      destruct (c_set (fun i => clk i + skew) (w_cache w) (fn (w_k w)) 0 (w_tick w)) as [c1 t1].
      cbv zeta in H. cbn [fst] in H. destruct H as (H1 & H2 & H3).
      cbn [w_k w_cache]. rewrite c_get_const, H3.
      destruct (live (clk 0%nat + skew) (c_slot (w_cache w))); repeat split; auto.
    + rewrite before_call_spent by lia. cbn [w_k w_cache]. rewrite c_get_const. repeat split; auto.
Qed.

Lemma once_call_const : forall skew w, 0 <= skew -> c_def (w_cache w) = def ->
  slot_ok (clk 0%nat + skew) (c_slot (w_cache w)) ->
  let '(r, w1) := once_call (fun i => clk i + skew) fn w in
  let '(r2, memo2, k2) := s_once fn (live (clk 0%nat + skew) (c_slot (w_cache w))) (w_k w) in
  r = r2 /\ w_k w1 = k2 /\ c_def (w_cache w1) = def /\
  slot_ok (clk 0%nat + skew) (c_slot (w_cache w1)) /\
  live (clk 0%nat + skew) (c_slot (w_cache w1)) = memo2.
Proof.
  intros skew w Hskew Hdef Hok. unfold s_once.
  destruct (live (clk 0%nat + skew) (c_slot (w_cache w))) as [v|] eqn:L.
  - rewrite (once_call_hit _ fn w v) by (rewrite c_get_const; exact L).
    cbv zeta. cbn [w_k w_cache]. rewrite c_get_const, L. cbn [val_of]. repeat split; auto.
  - rewrite (once_call_miss _ fn w) by (rewrite c_get_const; exact L). cbv zeta.
    pose proof (c_set_const skew (w_cache w) (fn (w_k w))
                  (snd (c_get (fun i => clk i + skew) (w_cache w) (w_tick w))) Hskew Hdef Hok) as H.
    destruct (c_set (fun i => clk i + skew) (w_cache w) (fn (w_k w)) 0 _) as [c1 t2].
    cbv zeta in H. cbn [fst] in H. destruct H as (H1 & H2 & H3). rewrite L in H3.
    cbn [w_k w_cache]. repeat split; auto.
Qed.

Definition sim (ms : mstate) (ss : sstate) : Prop :=
  m_a ms = s_a ss /\ m_b ms = s_b ss /\ w_k (m_w ms) = s_k ss /\
  c_def (w_cache (m_w ms)) = def /\ 0 <= m_skew ms /\
  slot_ok (clk 0%nat + m_skew ms) (c_slot (w_cache (m_w ms))) /\
  s_memo ss = live (clk 0%nat + m_skew ms) (c_slot (w_cache (m_w ms))).

Definition long_sleep (o : mop) : Prop := match o with MSleep d => def < d | _ => True end.

Lemma sim_step : forall ms ss o, sim ms ss -> long_sleep o ->
  fst (mstep_z clk fn ms o) = fst (sstep def fn ss o) /\
  sim (snd (mstep_z clk fn ms o)) (snd (sstep def fn ss o)).
Proof.
  intros ms ss o (Ha & Hb & Hk & Hdef & Hskew & Hok & Hmemo) Hlong.
  destruct o; cbn [mstep_z sstep].
  - pose proof (before_call_const (m_skew ms) (m_a ms) (m_w ms) Hskew Hdef Hok) as H.
    rewrite <- Ha, <- Hk, Hmemo.
    destruct (before_call_z _ fn (m_a ms) (m_w ms)) as [[r x1] w1].
    destruct (s_before fn (m_a ms) _ (w_k (m_w ms))) as [[[r2 x2] memo2] k2].
    destruct H as (H1 & H2 & H3 & H4 & H5 & H6). cbn. unfold sim. cbn. repeat split; auto.
  - pose proof (before_call_const (m_skew ms) (m_b ms) (m_w ms) Hskew Hdef Hok) as H.
    rewrite <- Hb, <- Hk, Hmemo.
    destruct (before_call_z _ fn (m_b ms) (m_w ms)) as [[r x1] w1].
    destruct (s_before fn (m_b ms) _ (w_k (m_w ms))) as [[[r2 x2] memo2] k2].
    destruct H as (H1 & H2 & H3 & H4 & H5 & H6). cbn. unfold sim. cbn. repeat split; auto.
  - pose proof (once_call_const (m_skew ms) (m_w ms) Hskew Hdef Hok) as H.
    rewrite <- Hk, Hmemo.
    destruct (once_call _ fn (m_w ms)) as [r w1].
    destruct (s_once fn _ (w_k (m_w ms))) as [[r2 memo2] k2].
    destruct H as (H1 & H2 & H3 & H4 & H5). cbn. unfold sim. cbn. repeat split; auto.
  - cbn. unfold sim. cbn. repeat split; auto.
  - cbn. unfold sim. cbn. repeat split; auto.
  - cbn [fst snd]. split; [reflexivity|]. unfold sim. cbn [m_a m_b m_skew m_w s_a s_b s_k s_memo].
    cbn in Hlong. repeat split; auto; try lia.
    + (* deadlines stay plausible *)
      unfold slot_ok in *. destruct (c_slot (w_cache (m_w ms))) as [[v e]|]; [|exact I].
      destruct Hok as (O1 & O2). split; intros; [specialize (O1 H)|specialize (O2 H)]; lia.
    + (* a sleep longer than a positive expiry kills the entry; otherwise nothing expires *)
      rewrite Hmemo. unfold live, slot_ok in *.
      destruct (c_slot (w_cache (m_w ms))) as [[v e]|]; [|destruct ((0 <? def) && (def <? d)); reflexivity].
      destruct Hok as (O1 & O2).
      destruct (0 <? def) eqn:A; zbool.
      * replace (def <? d) with true by (symmetry; apply Z.ltb_lt; lia). cbn [andb].
        specialize (O1 A).
        replace (0 <? e) with true by (symmetry; apply Z.ltb_lt; lia).
        replace (e <? clk 0%nat + (m_skew ms + Z.max 0 d)) with true by (symmetry; apply Z.ltb_lt; lia).
        reflexivity.
      * cbn [andb]. specialize (O2 A).
        replace (0 <? e) with false by (symmetry; apply Z.ltb_ge; lia). reflexivity.
Qed.

Lemma sim_run : forall ops ms ss, sim ms ss -> Forall long_sleep ops ->
  fst (mrun_z clk fn ops ms) = fst (srun def fn ops ss) /\
  sim (snd (mrun_z clk fn ops ms)) (snd (srun def fn ops ss)).
Proof.
  induction ops as [|o ops IH]; intros ms ss Hsim Hlong.
  - cbn. auto.
  - inversion Hlong as [|? ? Ho Hrest]; subst.
    cbn [mrun_z srun]. pose proof (sim_step ms ss o Hsim Ho) as (S1 & S2).
    destruct (mstep_z clk fn ms o) as [r ms1]. destruct (sstep def fn ss o) as [r2 ss1].
    cbn [fst snd] in S1, S2. specialize (IH ms1 ss1 S2 Hrest).
    destruct (mrun_z clk fn ops ms1) as [rs msf]. destruct (srun def fn ops ss1) as [rs2 ssf].
    cbn [fst snd] in *. destruct IH as (I1 & I2). subst. auto.
Qed.

Lemma sim_init : forall na nb, sim (mkM na nb 0 (world0 def)) (mkS na nb None 0).
Proof. intros. unfold sim, world0, cache_new. cbn. repeat split; auto; lia. Qed.

End MemoCell.

(* ============== RetryWithDelay: the pause of each gap starts after the attempt returned *)

Lemma retry_delay_gap_after_return :
  forall t_start (t_inv t_ret t_arm t_fire : nat -> Z) t_end d n ok,
  (forall j, t_inv j <= t_ret j) ->
  (forall j, t_ret j <= t_arm j) ->
  (forall j, t_arm j + d <= t_fire j) ->
  (forall j, t_fire j <= t_inv (S j)) ->
  exists r, retry_delay t_start t_inv t_arm t_fire t_end n ok = Some r /\
  forall j, (S j < r_calls (d_res r))%nat ->
    nth j (d_waits r) (0, 0) = (t_arm j, t_fire j) /\
    t_ret j + d <= t_inv (S j) /\
    nth j (d_elapsed r) 0 + (t_ret j - t_inv j) + d <= nth (S j) (d_elapsed r) 0.
Proof.
  intros t_start t_inv t_ret t_arm t_fire t_end d n ok H0 H1 H2 H3.
  eexists. split; [apply retry_delay_eq_spec|]. unfold timed_of. cbn [d_elapsed d_res d_waits].
  set (c := r_calls (retry_spec false n ok)).
  intros j Hj. split; [|split].
  - unfold waits_upto. set (f := fun j0 : nat => (t_arm j0, t_fire j0)).
    assert (Hlen : (j < (if (r_err (retry_spec false n ok) =? 0)%Z then c - 1 else c))%nat)
      by (destruct (r_err (retry_spec false n ok) =? 0); lia).
    rewrite nth_indep with (d' := f 0%nat) by (rewrite map_length, seq_length; exact Hlen).
    rewrite map_nth, seq_nth by exact Hlen. reflexivity.
  - specialize (H1 j). specialize (H2 j). specialize (H3 j). lia.
  - unfold elapsed_upto. set (f := fun j0 : nat => t_inv j0 - t_start).
    rewrite !nth_indep with (d := 0) (d' := f 0%nat) by (rewrite map_length, seq_length; lia).
    rewrite !map_nth, !seq_nth by lia. subst f. cbn beta. cbn [Nat.add].
    specialize (H1 j). specialize (H2 j). specialize (H3 j). lia.
Qed.

(* ======================= from the ideal twins to the model: clamping simulation *)

Lemma after_calls_sim : forall lo m z, lo < 0 -> z <= - lo - 1 ->
  after_calls lo m (Z.max lo z) = (fst (after_calls_z m z), Z.max lo (snd (after_calls_z m z))).
Proof.
  intros lo m. induction m as [|m IH]; intros z Hlo Hz; [reflexivity|].
  unfold after_calls in *. cbn [after_calls_with after_calls_z]. unfold after_call_with, after_call_z.
  rewrite dec_max by assumption. rewrite IH by lia.
  destruct (after_calls_z m (z - 1)) as [rs nf]. cbn [fst snd].
  replace (Z.max lo z <? 1) with (z <? 1); [reflexivity|].
  destruct (z <? 1) eqn:A; zbool; symmetry; [apply Z.ltb_lt|apply Z.ltb_ge]; lia.
Qed.

Lemma before_call_sim : forall lo clk fn z w, lo < 0 -> z <= - lo - 1 ->
  before_call lo clk fn (Z.max lo z) w =
  let '(o, z1, w1) := before_call_z clk fn z w in (o, Z.max lo z1, w1).
Proof.
  intros lo clk fn z w Hlo Hz. unfold before_call, before_call_with, before_call_z.
  rewrite dec_max by assumption. cbv zeta.
  replace (0 <? Z.max lo (z - 1)) with (0 <? z - 1)
    by (destruct (0 <? z - 1) eqn:A; zbool; symmetry; [apply Z.ltb_lt|apply Z.ltb_ge]; lia).
  destruct (0 <? z - 1); [reflexivity|].
  replace (Z.max lo (z - 1) =? 0) with (z - 1 =? 0)
    by (destruct (z - 1 =? 0) eqn:A; zbool; symmetry; [apply Z.eqb_eq|apply Z.eqb_neq]; lia).
  destruct (z - 1 =? 0).
  - destruct (c_set clk (w_cache w) (fn (w_k w)) 0 (w_tick w)) as [c1 t1].
    destruct (c_get clk c1 t1) as [memo t2]. reflexivity.
  - destruct (c_get clk (w_cache w) (w_tick w)) as [memo t2]. reflexivity.
Qed.

Lemma before_call_z_counter : forall clk fn n w, snd (fst (before_call_z clk fn n w)) = n - 1.
Proof.
  intros clk fn n w. pose proof (before_call_any clk fn n w) as H.
  destruct (before_call_z clk fn n w) as [[[ran ret] n'] w']. cbn. tauto.
Qed.

Lemma before_calls_sim : forall lo clk fn m z w, lo < 0 -> z <= - lo - 1 ->
  before_calls lo clk fn m (Z.max lo z) w =
  let '(os, zf, wf) := before_calls_z clk fn m z w in (os, Z.max lo zf, wf).
Proof.
  intros lo clk fn m. induction m as [|m IH]; intros z w Hlo Hz; [reflexivity|].
  unfold before_calls in *. cbn [before_calls_with before_calls_z].
  change (before_call_with clk fn (dec lo)) with (before_call lo clk fn).
  rewrite before_call_sim by assumption.
  pose proof (before_call_z_counter clk fn z w) as Hc.
  destruct (before_call_z clk fn z w) as [[o z1] w1]. cbn [fst snd] in Hc. subst z1.
  rewrite IH by lia.
  destruct (before_calls_z clk fn m (z - 1) w1) as [[os zf] wf]. reflexivity.
Qed.

(* a state of the model is the twin's state with both counters clamped *)
Definition clampS (lo : Z) (s : mstate) : mstate :=
  mkM (Z.max lo (m_a s)) (Z.max lo (m_b s)) (m_skew s) (m_w s).

Lemma mstep_sim : forall lo clk fn s o, lo < 0 -> m_a s <= - lo - 1 -> m_b s <= - lo - 1 ->
  mstep lo clk fn (clampS lo s) o = (fst (mstep_z clk fn s o), clampS lo (snd (mstep_z clk fn s o))).
Proof.
  intros lo clk fn s o Hlo Ha Hb. destruct o; cbn [mstep mstep_z clampS m_a m_b m_skew m_w]; try reflexivity.
  - rewrite before_call_sim by assumption.
    destruct (before_call_z _ fn (m_a s) (m_w s)) as [[r z1] w1]. reflexivity.
  - rewrite before_call_sim by assumption.
    destruct (before_call_z _ fn (m_b s) (m_w s)) as [[r z1] w1]. reflexivity.
  - destruct (once_call _ fn (m_w s)) as [r w1]. reflexivity.
Qed.

Lemma mrun_sim : forall lo clk fn ops s, lo < 0 -> m_a s <= - lo - 1 -> m_b s <= - lo - 1 ->
  mrun lo clk fn ops (clampS lo s) = (fst (mrun_z clk fn ops s), clampS lo (snd (mrun_z clk fn ops s))).
Proof.
  intros lo clk fn ops. induction ops as [|o ops IH]; intros s Hlo Ha Hb; [reflexivity|].
  cbn [mrun mrun_z]. rewrite mstep_sim by assumption.
  pose proof (mstep_counters clk fn s o) as (Ca & Cb).
  destruct (mstep_z clk fn s o) as [r s1]. cbn [fst snd] in *.
  rewrite IH; [|exact Hlo| |]; [|destruct (is_before_a o); lia|destruct (is_before_b o); lia].
  destruct (mrun_z clk fn ops s1) as [rs sf]. reflexivity.
Qed.

Lemma clampS_id : forall lo s, lo <= m_a s -> lo <= m_b s -> clampS lo s = s.
Proof.
  intros lo [a b k w] Ha Hb. unfold clampS. cbn [m_a m_b m_skew m_w] in *.
  rewrite !Z.max_r by assumption. reflexivity.
Qed.

(* the code as shipped before ddacf7d wrapped at the smallest value of the type *)
Lemma after_orig_minint_wraps : after_calls_orig min64 3 min64 = ([1%nat; 0%nat; 0%nat], max64 - 2).
Proof. vm_compute. reflexivity. Qed.

Lemma before_orig_minint_wraps :
  fst (fst (before_calls_orig min64 (fun _ => 0) (fun k => 10 + Z.of_nat k) 3 min64 (world0 0)))
  = [(1%nat, 10); (1%nat, 11); (1%nat, 12)].
Proof. vm_compute. reflexivity. Qed.

(* an int8 counter: After(&n) with n = 1 re-armed after 128 further calls *)
Lemma after_orig_int8_rearms :
  list_sum (fst (after_calls_orig min8 600 1)) = 345%nat /\
  list_sum (fst (after_calls min8 600 1)) = 599%nat.
Proof. vm_compute. split; reflexivity. Qed.

(* ====================================== Retry with a huge n: fuel and closed form *)

Lemma retry_loop_more_fuel : forall fuel fuel' n ok a e k r,
  retry_loop fuel n ok a e k = Some r -> (fuel <= fuel')%nat -> retry_loop fuel' n ok a e k = Some r.
Proof.
  induction fuel as [|fuel IH]; intros fuel' n ok a e k r H Hle; [discriminate|].
  destruct fuel' as [|fuel']; [lia|]. cbn [retry_loop] in *.
  destruct (a <? n); [|exact H]. destruct (ok k); [exact H|].
  apply (IH fuel'); [exact H|lia].
Qed.

(* whatever fuel the evaluation was given: if it finished, it finished with the closed form *)
Lemma retry_with_sound : forall fuel n ok r,
  retry_with fuel n ok = Some r -> r = retry_spec true n ok.
Proof.
  intros fuel n ok r H. pose proof (retry_eq_spec n ok) as E. unfold retry, retry_with in *.
  destruct (n <? 0); [congruence|].
  apply (retry_loop_more_fuel _ (Nat.max fuel (retry_fuel n))) in H; [|lia].
  apply (retry_loop_more_fuel _ (Nat.max fuel (retry_fuel n))) in E; [|lia].
  congruence.
Qed.

(* the first success decides, however large n is *)
Lemma retry_first_success : forall c n ok b f,
  first_ok ok b = Some f -> Z.of_nat f < n -> retry_spec c n ok = mkRetry (Z.of_nat f) 0 (S f).
Proof.
  intros c n ok b f H Hf. unfold first_ok in H. apply first_ok_from_some in H as (H1 & H2 & H3).
  apply retry_spec_success; auto. intros j Hj. apply H3. lia.
Qed.

Lemma filter_len_le : forall (A : Type) (f : A -> bool) (l : list A), (length (filter f l) <= length l)%nat.
Proof. intros A f l. induction l as [|x l IH]; cbn; [lia|]. destruct (f x); cbn; lia. Qed.
