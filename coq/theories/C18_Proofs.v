(* C18_Proofs.v — lemmas for C18 (After, Before, Once, Retry, RetryWithDelay). *)
From Gogu Require Import Base C18_Model.
Local Open Scope Z_scope.

Ltac zbool := repeat match goal with
  | H : (_ <? _) = true |- _ => apply Z.ltb_lt in H
  | H : (_ <? _) = false |- _ => apply Z.ltb_ge in H
  | H : (_ <=? _) = true |- _ => apply Z.leb_le in H
  | H : (_ <=? _) = false |- _ => apply Z.leb_gt in H
  | H : (_ =? _) = true |- _ => apply Z.eqb_eq in H
  | H : (_ =? _) = false |- _ => apply Z.eqb_neq in H
  end.

(* ================================================================== After *)

Lemma after_calls_final : forall m n, snd (after_calls m n) = n - Z.of_nat m.
Proof.
  induction m as [|m IH]; intros n.
  - cbn. lia.
  - cbn [after_calls]. unfold after_call.
    destruct (after_calls m (n - 1)) as [rs nf] eqn:E.
    specialize (IH (n - 1)). rewrite E in IH. cbn in *. lia.
Qed.

Lemma after_calls_runs : forall m n, fst (after_calls m n) = after_spec_runs n m.
Proof.
  induction m as [|m IH]; intros n.
  - reflexivity.
  - cbn [after_calls]. unfold after_call.
    destruct (after_calls m (n - 1)) as [rs nf] eqn:E.
    specialize (IH (n - 1)). rewrite E in IH. cbn [fst] in *.
    unfold after_spec_runs in *. cbn [seq map]. rewrite <- seq_shift, map_map.
    f_equal.
    + destruct (n <? 1) eqn:A, (n <=? Z.of_nat 0) eqn:B; try reflexivity; zbool; cbn in *; lia.
    + rewrite IH. apply map_ext. intros i.
      destruct (n - 1 <=? Z.of_nat i) eqn:A, (n <=? Z.of_nat (S i)) eqn:B; try reflexivity; zbool; lia.
Qed.

Lemma after_spec_runs_nth : forall n m i, (i < m)%nat ->
  nth i (after_spec_runs n m) 0%nat = if n <=? Z.of_nat i then 1%nat else 0%nat.
Proof.
  intros n m i Hi. unfold after_spec_runs.
  set (f := fun j : nat => if n <=? Z.of_nat j then 1%nat else 0%nat).
  change (nth i (map f (seq 0 m)) 0%nat = f i).
  rewrite nth_indep with (d' := f 0%nat) by (rewrite map_length, seq_length; exact Hi).
  rewrite map_nth, seq_nth by exact Hi. reflexivity.
Qed.

Lemma after_spec_runs_total : forall m n,
  Z.of_nat (list_sum (after_spec_runs n m)) = Z.max 0 (Z.of_nat m - Z.max 0 n).
Proof.
  intros m n. rewrite <- after_calls_runs. revert n.
  induction m as [|m IH]; intros n.
  - cbn. lia.
  - cbn [after_calls]. unfold after_call.
    destruct (after_calls m (n - 1)) as [rs nf] eqn:E.
    specialize (IH (n - 1)). rewrite E in IH. cbn [fst] in *.
    match goal with |- context [list_sum (?r :: ?l)] => change (list_sum (r :: l)) with (r + list_sum l)%nat end.
    rewrite Nat2Z.inj_add, IH.
    destruct (n <? 1) eqn:A; zbool; lia.
Qed.

(* ================================================================== Retry *)

Lemma first_ok_from_some : forall ok b k f,
  first_ok_from ok k b = Some f ->
  (k <= f < k + b)%nat /\ ok f = true /\ forall j, (k <= j < f)%nat -> ok j = false.
Proof.
  induction b as [|b IH]; intros k f H; cbn in H; [discriminate|].
  destruct (ok k) eqn:E.
  - inversion H; subst. repeat split; try lia; auto.
  - apply IH in H as (H1 & H2 & H3). repeat split; try lia; auto.
    intros j Hj. destruct (Nat.eq_dec j k) as [->|]; [exact E|apply H3; lia].
Qed.

Lemma first_ok_from_none : forall ok b k,
  first_ok_from ok k b = None -> forall j, (k <= j < k + b)%nat -> ok j = false.
Proof.
  induction b as [|b IH]; intros k H j Hj; [lia|].
  cbn in H. destruct (ok k) eqn:E; [discriminate|].
  destruct (Nat.eq_dec j k) as [->|]; [exact E|apply (IH (S k) H); lia].
Qed.

Lemma first_ok_from_complete_some : forall ok b k f,
  (k <= f < k + b)%nat -> ok f = true -> (forall j, (k <= j < f)%nat -> ok j = false) ->
  first_ok_from ok k b = Some f.
Proof.
  induction b as [|b IH]; intros k f Hf Hok Hmin; [lia|].
  cbn. destruct (Nat.eq_dec f k) as [->|Hne].
  - now rewrite Hok.
  - rewrite (Hmin k) by lia. apply IH; try lia; auto. intros j Hj. apply Hmin. lia.
Qed.

Lemma first_ok_from_complete_none : forall ok b k,
  (forall j, (k <= j < k + b)%nat -> ok j = false) -> first_ok_from ok k b = None.
Proof.
  induction b as [|b IH]; intros k H; [reflexivity|].
  cbn. rewrite (H k) by lia. apply IH. intros j Hj. apply H. lia.
Qed.

(* the loop, from any iteration k in which attempt = k failures have happened *)
Definition retry_tail (n : Z) (ok : nat -> bool) (k : nat) : retry_result :=
  match first_ok_from ok k (Z.to_nat n - k) with
  | Some f => mkRetry (Z.of_nat f) 0 (S f)
  | None => mkRetry n (if n =? 0 then 0 else errid (Z.to_nat n - 1)) (Z.to_nat n)
  end.

Lemma retry_tail_step : forall n ok k, (k < Z.to_nat n)%nat ->
  retry_tail n ok k = if ok k then mkRetry (Z.of_nat k) 0 (S k) else retry_tail n ok (S k).
Proof.
  intros n ok k Hk. unfold retry_tail.
  replace (Z.to_nat n - k)%nat with (S (Z.to_nat n - S k)) by lia. cbn [first_ok_from].
  destruct (ok k); reflexivity.
Qed.

Lemma retry_tail_end : forall n ok k, (Z.to_nat n <= k)%nat ->
  retry_tail n ok k = mkRetry n (if n =? 0 then 0 else errid (Z.to_nat n - 1)) (Z.to_nat n).
Proof.
  intros n ok k Hk. unfold retry_tail.
  replace (Z.to_nat n - k)%nat with 0%nat by lia. reflexivity.
Qed.

Lemma retry_loop_spec : forall b fuel n ok k err,
  0 <= n -> (k <= Z.to_nat n)%nat -> b = (Z.to_nat n - k)%nat -> (b < fuel)%nat ->
  err = (if Nat.eqb k 0 then 0 else errid (k - 1)) ->
  retry_loop fuel n ok (Z.of_nat k) err k = Some (retry_tail n ok k).
Proof.
  induction b as [|b IH]; intros fuel n ok k err Hn Hk Hb Hf Herr.
  - destruct fuel as [|fuel]; [lia|]. cbn [retry_loop].
    assert (Hkn : Z.of_nat k = n) by lia.
    replace (Z.of_nat k <? n) with false by (symmetry; apply Z.ltb_ge; lia).
    unfold retry_tail. rewrite <- Hb. cbn [first_ok_from].
    f_equal. rewrite Herr, Hkn.
    assert (Hk' : k = Z.to_nat n) by lia. rewrite <- Hk'.
    destruct k as [|k]; cbn [Nat.eqb].
    + replace n with 0 by lia. reflexivity.
    + replace (n =? 0) with false by (symmetry; apply Z.eqb_neq; lia). reflexivity.
  - destruct fuel as [|fuel]; [lia|]. cbn [retry_loop].
    replace (Z.of_nat k <? n) with true by (symmetry; apply Z.ltb_lt; lia).
    unfold retry_tail. rewrite <- Hb. cbn [first_ok_from].
    destruct (ok k) eqn:E; [reflexivity|].
    replace (Z.of_nat k + 1) with (Z.of_nat (S k)) by lia.
    rewrite (IH fuel n ok (S k) (errid k)); try lia.
    + unfold retry_tail. replace (Z.to_nat n - S k)%nat with b by lia. reflexivity.
    + cbn [Nat.eqb]. replace (S k - 1)%nat with k by lia. reflexivity.
Qed.

Lemma retry_eq_spec : forall n ok, retry n ok = Some (retry_spec true n ok).
Proof.
  intros n ok. unfold retry, retry_spec.
  destruct (n <? 0) eqn:E; [reflexivity|]. apply Z.ltb_ge in E.
  pose proof (retry_loop_spec (Z.to_nat n) (retry_fuel n) n ok 0%nat 0 E) as H.
  change (Z.of_nat 0) with 0 in H. rewrite H; try (unfold retry_fuel; lia); auto.
  unfold retry_tail, first_ok. rewrite Nat.sub_0_r. reflexivity.
Qed.

(* the closed form, clause by clause *)
Lemma retry_spec_negative : forall c n ok, n < 0 ->
  retry_spec c n ok = mkRetry 0 (if c then err_arg else 0) 0.
Proof. intros c n ok H. unfold retry_spec. now replace (n <? 0) with true by (symmetry; apply Z.ltb_lt; lia). Qed.

Lemma retry_spec_success : forall c n ok f,
  (Z.of_nat f < n) -> ok f = true -> (forall j, (j < f)%nat -> ok j = false) ->
  retry_spec c n ok = mkRetry (Z.of_nat f) 0 (S f).
Proof.
  intros c n ok f Hf Hok Hmin. unfold retry_spec.
  replace (n <? 0) with false by (symmetry; apply Z.ltb_ge; lia).
  unfold first_ok. rewrite (first_ok_from_complete_some ok (Z.to_nat n) 0 f); auto; try lia.
  intros j Hj. apply Hmin. lia.
Qed.

Lemma retry_spec_exhausted : forall c n ok,
  0 <= n -> (forall j, Z.of_nat j < n -> ok j = false) ->
  retry_spec c n ok = mkRetry n (if n =? 0 then 0 else errid (Z.to_nat n - 1)) (Z.to_nat n).
Proof.
  intros c n ok Hn Hall. unfold retry_spec.
  replace (n <? 0) with false by (symmetry; apply Z.ltb_ge; lia).
  unfold first_ok. rewrite first_ok_from_complete_none; auto.
  intros j Hj. apply Hall. lia.
Qed.

Lemma retry_spec_calls_bound : forall c n ok,
  Z.of_nat (r_calls (retry_spec c n ok)) <= Z.max 0 n.
Proof.
  intros c n ok. unfold retry_spec. destruct (n <? 0) eqn:E; cbn; [lia|].
  apply Z.ltb_ge in E. unfold first_ok.
  destruct (first_ok_from ok 0 (Z.to_nat n)) as [f|] eqn:F; cbn [r_calls].
  - apply first_ok_from_some in F. lia.
  - lia.
Qed.

(* invocations = min n (index of first success + 1); failed attempts reported = invocations that failed *)
Lemma retry_spec_counts : forall c n ok,
  0 <= n ->
  let r := retry_spec c n ok in
  (forall j, (j < r_calls r)%nat -> (S j < r_calls r)%nat -> ok j = false) /\
  ((r_err r = 0 /\ (r_calls r > 0)%nat /\ ok (r_calls r - 1)%nat = true /\ r_attempts r = Z.of_nat (r_calls r) - 1)
   \/ (Z.of_nat (r_calls r) = n /\ r_attempts r = n /\ (forall j, (j < r_calls r)%nat -> ok j = false))).
Proof.
  intros c n ok Hn r. subst r. unfold retry_spec.
  replace (n <? 0) with false by (symmetry; apply Z.ltb_ge; lia).
  unfold first_ok. destruct (first_ok_from ok 0 (Z.to_nat n)) as [f|] eqn:F; cbn [r_calls r_err r_attempts].
  - apply first_ok_from_some in F as (F1 & F2 & F3). split.
    + intros j Hj1 Hj2. apply F3. lia.
    + left. replace (S f - 1)%nat with f by lia. repeat split; auto; lia.
  - pose proof (first_ok_from_none _ _ _ F) as Hall. split.
    + intros j Hj _. apply Hall. lia.
    + right. repeat split; try lia. intros j Hj. apply Hall. lia.
Qed.

(* ========================================================= RetryWithDelay *)

Section TimedProofs.
Variables (t_start : Z) (t_inv t_arm t_fire : nat -> Z) (t_end : Z).

(* the list of invocation instants / waits the loop has produced up to iteration k *)
Definition elapsed_upto (k : nat) : list Z := map (fun j => t_inv j - t_start) (seq 0 k).
Definition waits_upto (k : nat) : list (Z * Z) := map (fun j => (t_arm j, t_fire j)) (seq 0 k).

Lemma elapsed_upto_S k : elapsed_upto (S k) = elapsed_upto k ++ [t_inv k - t_start].
Proof. unfold elapsed_upto. rewrite seq_S, map_app. reflexivity. Qed.
Lemma waits_upto_S k : waits_upto (S k) = waits_upto k ++ [(t_arm k, t_fire k)].
Proof. unfold waits_upto. rewrite seq_S, map_app. reflexivity. Qed.

(* the timed result that goes with the counts r: one elapsed value per invocation, one wait per failure *)
Definition timed_of (r : retry_result) : timed_result :=
  mkTimed r (elapsed_upto (r_calls r))
          (waits_upto (if r_err r =? 0 then (r_calls r - 1)%nat else r_calls r))
          (t_end - t_start).

Lemma retry_delay_loop_spec : forall b fuel n ok k err,
  0 <= n -> (k <= Z.to_nat n)%nat -> b = (Z.to_nat n - k)%nat -> (b < fuel)%nat ->
  err = (if Nat.eqb k 0 then 0 else errid (k - 1)) ->
  retry_delay_loop t_start t_inv t_arm t_fire t_end fuel n ok (Z.of_nat k) err k (elapsed_upto k) (waits_upto k)
  = Some (timed_of (retry_tail n ok k)).
Proof.
  induction b as [|b IH]; intros fuel n ok k err Hn Hk Hb Hf Herr.
  - destruct fuel as [|fuel]; [lia|]. cbn [retry_delay_loop].
    assert (Hkn : Z.of_nat k = n) by lia.
    replace (Z.of_nat k <? n) with false by (symmetry; apply Z.ltb_ge; lia).
    rewrite retry_tail_end by lia. unfold timed_of. cbn [r_calls r_err].
    assert (Hk' : k = Z.to_nat n) by lia. rewrite <- Hk'.
    rewrite Herr, Hkn.
    destruct k as [|k]; cbn [Nat.eqb].
    + replace n with 0 by lia. reflexivity.
    + replace (n =? 0) with false by (symmetry; apply Z.eqb_neq; lia).
      replace (errid (S k - 1) =? 0) with false by (symmetry; apply Z.eqb_neq; unfold errid; lia).
      reflexivity.
  - destruct fuel as [|fuel]; [lia|]. cbn [retry_delay_loop].
    replace (Z.of_nat k <? n) with true by (symmetry; apply Z.ltb_lt; lia).
    rewrite retry_tail_step by lia.
    destruct (ok k) eqn:E.
    + unfold timed_of. cbn [r_calls r_err]. rewrite Z.eqb_refl, elapsed_upto_S.
      replace (S k - 1)%nat with k by lia. reflexivity.
    + replace (Z.of_nat k + 1) with (Z.of_nat (S k)) by lia.
      rewrite <- elapsed_upto_S, <- waits_upto_S.
      apply (IH fuel n ok (S k) (errid k)); try lia.
      cbn [Nat.eqb]. replace (S k - 1)%nat with k by lia. reflexivity.
Qed.

(* the loop for n < 0 is skipped: RetryWithDelay has no argument check *)
Lemma retry_delay_negative : forall n ok, n < 0 ->
  retry_delay t_start t_inv t_arm t_fire t_end n ok
  = Some (mkTimed (mkRetry 0 0 0) [] [] (t_end - t_start)).
Proof.
  intros n ok Hn. unfold retry_delay, retry_fuel. cbn [retry_delay_loop].
  replace (0 <? n) with false by (symmetry; apply Z.ltb_ge; lia). reflexivity.
Qed.

Lemma retry_delay_eq_spec : forall n ok,
  retry_delay t_start t_inv t_arm t_fire t_end n ok = Some (timed_of (retry_spec false n ok)).
Proof.
  intros n ok. destruct (Z.ltb_spec n 0) as [Hneg|Hn].
  - rewrite retry_delay_negative by exact Hneg. rewrite retry_spec_negative by exact Hneg. reflexivity.
  - unfold retry_delay.
    pose proof (retry_delay_loop_spec (Z.to_nat n) (retry_fuel n) n ok 0%nat 0 Hn) as H.
    change (Z.of_nat 0) with 0 in H. change (elapsed_upto 0) with (@nil Z) in H.
    change (waits_upto 0) with (@nil (Z * Z)) in H.
    rewrite H; try (unfold retry_fuel; lia); auto.
    unfold retry_spec. replace (n <? 0) with false by (symmetry; apply Z.ltb_ge; lia).
    unfold retry_tail, first_ok. rewrite Nat.sub_0_r. reflexivity.
Qed.

(* the runtime laws: program order of the clock reads and "a timer never fires early" *)
Variable d : Z.
Hypothesis inv_before_arm : forall j, t_inv j <= t_arm j.
Hypothesis timer_law : forall j, t_arm j + d <= t_fire j.
Hypothesis fire_before_next : forall j, t_fire j <= t_inv (S j).

Lemma gap_one : forall j, t_inv j + d <= t_inv (S j).
Proof. intros j. specialize (inv_before_arm j). specialize (timer_law j). specialize (fire_before_next j). lia. Qed.

Lemma gap_many : forall i j, (i <= j)%nat -> 0 <= d -> t_inv i + Z.of_nat (j - i) * d <= t_inv j.
Proof.
  intros i j Hij Hd. induction j as [|j IH].
  - replace i with 0%nat by lia. cbn. lia.
  - destruct (Nat.eq_dec i (S j)) as [->|Hne].
    + rewrite Nat.sub_diag. cbn. lia.
    + assert (Hle : (i <= j)%nat) by lia. specialize (IH Hle). pose proof (gap_one j).
      replace (S j - i)%nat with (S (j - i)) by lia. rewrite Nat2Z.inj_succ. lia.
Qed.

End TimedProofs.

(* ======================================================== cache, key "func" *)

Section CacheProofs.
Variable clk : nat -> Z.

(* the entry of c (if any) is alive at every clock read of the history *)
Definition entry_lives (c : cache) : Prop :=
  match c_slot c with
  | Some (_, e) => e <= 0 \/ forall i, clk i <= e
  | None => True
  end.

Lemma c_get_none : forall c t, c_slot c = None -> c_get clk c t = (None, t).
Proof. intros c t H. unfold c_get. now rewrite H. Qed.

Lemma c_get_live : forall c t v e, c_slot c = Some (v, e) -> (e <= 0 \/ forall i, clk i <= e) ->
  fst (c_get clk c t) = Some v.
Proof.
  intros c t v e H L. unfold c_get. rewrite H.
  destruct (0 <? e) eqn:A; [|reflexivity].
  destruct L as [L|L]; [lia|].
  replace (e <? clk t) with false by (symmetry; apply Z.ltb_ge; apply L). reflexivity.
Qed.

Lemma c_get_cases : forall c t,
  (fst (c_get clk c t) = None) \/ (exists v e, c_slot c = Some (v, e) /\ fst (c_get clk c t) = Some v).
Proof.
  intros c t. unfold c_get. destruct (c_slot c) as [[v e]|]; [|now left].
  destruct (0 <? e); [destruct (e <? clk t)|]; cbn; eauto.
Qed.

Lemma c_get_tick_mono : forall c t, (t <= snd (c_get clk c t))%nat.
Proof.
  intros c t. unfold c_get. destruct (c_slot c) as [[v e]|]; cbn; [|lia].
  destruct (0 <? e); [destruct (e <? clk t)|]; cbn; lia.
Qed.

Definition expiry_of (def now : Z) : Z :=
  if 0 <? def then now + def else if def <? 0 then -1 else 0.

(* Set on a cache without entry: stores, deadline from the read at tick t *)
Lemma c_set_empty : forall c v t, c_slot c = None ->
  c_set clk c v 0 t =
  (mkCache (c_def c) (Some (v, expiry_of (c_def c) (clk t))), if 0 <? c_def c then S t else t).
Proof.
  intros c v t H. unfold c_set. rewrite (c_get_none c t H). unfold c_add. cbn [Z.eqb].
  unfold expiry_of.
  destruct (0 <? c_def c) eqn:A.
  - rewrite (c_get_none c (S t) H). reflexivity.
  - destruct (c_def c <? 0); rewrite (c_get_none c t H); reflexivity.
Qed.

(* Set when Get misses at tick t under a monotone clock: the value is stored *)
Lemma c_set_miss_stores : forall c v t,
  (forall i j, (i <= j)%nat -> clk i <= clk j) ->
  fst (c_get clk c t) = None ->
  exists e, c_slot (fst (c_set clk c v 0 t)) = Some (v, e).
Proof.
  intros c v t Hmono Hmiss. unfold c_set.
  destruct (c_get clk c t) as [memo t1] eqn:G. cbn in Hmiss. subst memo.
  unfold c_add. cbn [Z.eqb].
  destruct (if 0 <? c_def c then (clk t1 + c_def c, S t1) else if c_def c <? 0 then (-1, t1) else (0, t1)) as [e t2].
  destruct (c_get clk c t2) as [m t3]. cbn. eauto.
Qed.

(* Set when a live entry exists: refused, nothing changes *)
Lemma c_set_live_refused : forall c v t x e, c_slot c = Some (x, e) -> (e <= 0 \/ forall i, clk i <= e) ->
  fst (c_set clk c v 0 t) = c.
Proof.
  intros c v t x e H L. unfold c_set.
  pose proof (c_get_live c t x e H L) as G.
  destruct (c_get clk c t) as [memo t1]. cbn in G. subst memo. reflexivity.
Qed.

(* ================================================================= Before *)

Variable fn : nat -> Z.

(* phase 1: counter still above 1 — run, return the fresh result, leave the cache alone *)
Lemma before_call_counting : forall n w, 1 < n ->
  before_call clk fn n w = ((1%nat, fn (w_k w)), n - 1, mkWorld (w_cache w) (w_tick w) (S (w_k w))).
Proof.
  intros n w Hn. unfold before_call.
  replace (0 <? n - 1) with true by (symmetry; apply Z.ltb_lt; lia). reflexivity.
Qed.

(* phase 3: counter at or below 0 — no run, the memo *)
Lemma before_call_spent : forall n w, n <= 0 ->
  before_call clk fn n w =
  ((0%nat, val_of (fst (c_get clk (w_cache w) (w_tick w)))), n - 1,
   mkWorld (w_cache w) (snd (c_get clk (w_cache w) (w_tick w))) (w_k w)).
Proof.
  intros n w Hn. unfold before_call.
  replace (0 <? n - 1) with false by (symmetry; apply Z.ltb_ge; lia).
  replace (n - 1 =? 0) with false by (symmetry; apply Z.eqb_neq; lia).
  destruct (c_get clk (w_cache w) (w_tick w)) as [memo t2]. reflexivity.
Qed.

(* phase 2: the n-th call — run, store, return the memo *)
Lemma before_call_last : forall w,
  before_call clk fn 1 w =
  let '(c1, t1) := c_set clk (w_cache w) (fn (w_k w)) 0 (w_tick w) in
  ((1%nat, val_of (fst (c_get clk c1 t1))), 0, mkWorld c1 (snd (c_get clk c1 t1)) (S (w_k w))).
Proof.
  intros w. unfold before_call. cbn [Z.sub Z.ltb Z.eqb Z.compare Z.add Z.opp Z.pos_sub].
  destruct (c_set clk (w_cache w) (fn (w_k w)) 0 (w_tick w)) as [c1 t1].
  destruct (c_get clk c1 t1) as [memo t2]. reflexivity.
Qed.

(* after the store (or with n <= 0 from the beginning): every call returns the memo *)
Lemma before_calls_spent : forall m n w memo,
  n <= 0 ->
  (forall t, fst (c_get clk (w_cache w) t) = memo) ->
  let '(os, nf, wf) := before_calls clk fn m n w in
  os = repeat (0%nat, val_of memo) m /\ nf = n - Z.of_nat m /\ w_k wf = w_k w /\ w_cache wf = w_cache w.
Proof.
  induction m as [|m IH]; intros n w memo Hn Hget.
  - cbn. repeat split; lia.
  - cbn [before_calls]. rewrite before_call_spent by exact Hn.
    specialize (IH (n - 1) (mkWorld (w_cache w) (snd (c_get clk (w_cache w) (w_tick w))) (w_k w)) memo).
    destruct (before_calls clk fn m (n - 1) _) as [[os nf] wf].
    destruct IH as (I1 & I2 & I3 & I4); [lia|exact Hget|].
    cbn [w_k w_cache] in *. rewrite Hget, I1. repeat split; auto; lia.
Qed.

Lemma before_spec_spent : forall f n m, n <= 0 -> before_spec f n m = repeat (0%nat, 0) m.
Proof.
  intros f n m Hn. unfold before_spec.
  assert (H : forall i, before_spec_out f n i = (0%nat, 0)).
  { intros i. unfold before_spec_out.
    replace (Z.of_nat i <? n) with false by (symmetry; apply Z.ltb_ge; lia).
    replace (1 <=? n) with false by (symmetry; apply Z.leb_gt; lia). reflexivity. }
  assert (G : forall s, map (before_spec_out f n) (seq s m) = repeat (0%nat, 0) m).
  { induction m as [|m IH]; intros s; cbn [seq map repeat]; [reflexivity|]. now rewrite H, IH. }
  apply G.
Qed.

(* shifting the callback stream *)
Definition shift (f : nat -> Z) (d : nat) : nat -> Z := fun j => f (d + j)%nat.

Lemma before_spec_cons : forall f n m, 1 < n ->
  before_spec f n (S m) = (1%nat, f 0%nat) :: before_spec (shift f 1) (n - 1) m.
Proof.
  intros f n m Hn. unfold before_spec. cbn [seq map]. f_equal.
  - unfold before_spec_out. replace (Z.of_nat 0 <? n) with true by (symmetry; apply Z.ltb_lt; lia). reflexivity.
  - rewrite <- seq_shift, map_map. apply map_ext. intros i. unfold before_spec_out, shift.
    replace (1 <=? n) with true by (symmetry; apply Z.leb_le; lia).
    replace (1 <=? n - 1) with true by (symmetry; apply Z.leb_le; lia).
    destruct (Z.of_nat (S i) <? n) eqn:A, (Z.of_nat i <? n - 1) eqn:B; zbool; try lia.
    + reflexivity.
    + f_equal. f_equal. lia.
Qed.

Lemma before_spec_one : forall f m,
  before_spec f 1 (S m) = (1%nat, f 0%nat) :: repeat (0%nat, f 0%nat) m.
Proof.
  intros f m. unfold before_spec. cbn [seq map]. f_equal.
  assert (G : forall s, (1 <= s)%nat -> map (before_spec_out f 1) (seq s m) = repeat (0%nat, f 0%nat) m).
  { induction m as [|m IH]; intros s Hs; cbn [seq map repeat]; [reflexivity|].
    rewrite IH by lia. f_equal. unfold before_spec_out.
    replace (Z.of_nat s <? 1) with false by (symmetry; apply Z.ltb_ge; lia). reflexivity. }
  apply G. lia.
Qed.

Definition expiry_ok (def t0 : Z) : Prop := def <= 0 \/ forall i, clk i <= t0 + def.

Lemma expiry_of_lives : forall def now, expiry_ok def now ->
  expiry_of def now <= 0 \/ forall i, clk i <= expiry_of def now.
Proof.
  intros def now H. unfold expiry_of.
  destruct (0 <? def) eqn:A; zbool.
  - destruct H as [H|H]; [lia|right; exact H].
  - destruct (def <? 0); left; lia.
Qed.

(* Before(n) on a cache without entry whose (future) entry lives: the closed form *)
Lemma before_calls_fresh : forall m n w f,
  c_slot (w_cache w) = None ->
  expiry_ok (c_def (w_cache w)) (clk (w_tick w)) ->
  (forall j, f j = fn (w_k w + j)%nat) ->
  let '(os, nf, wf) := before_calls clk fn m n w in
  os = before_spec f n m /\ nf = n - Z.of_nat m /\
  Z.of_nat (w_k wf) = Z.of_nat (w_k w) + Z.min (Z.of_nat m) (Z.max 0 n).
Proof.
  induction m as [|m IH]; intros n w f Hslot Hlive Hf.
  - cbn. repeat split; lia.
  - destruct (Z_lt_le_dec 1 n) as [Hbig|Hsmall].
    + (* counting phase *)
      cbn [before_calls]. rewrite before_call_counting by exact Hbig.
      specialize (IH (n - 1) (mkWorld (w_cache w) (w_tick w) (S (w_k w))) (shift f 1)).
      destruct (before_calls clk fn m (n - 1) _) as [[os nf] wf].
      destruct IH as (I1 & I2 & I3); auto.
      { intros j. unfold shift. cbn [w_k]. rewrite Hf. f_equal. lia. }
      cbn [w_k] in I3. rewrite before_spec_cons by exact Hbig.
      rewrite I1, Hf, Nat.add_0_r. repeat split; auto; lia.
    + destruct (Z.eq_dec n 1) as [->|Hne].
      * (* the n-th call stores; the rest is served from the cache *)
        cbn [before_calls]. rewrite before_call_last.
        rewrite (c_set_empty (w_cache w) (fn (w_k w)) (w_tick w) Hslot).
        set (c1 := mkCache (c_def (w_cache w)) (Some (fn (w_k w), expiry_of (c_def (w_cache w)) (clk (w_tick w))))).
        set (t1 := if 0 <? c_def (w_cache w) then S (w_tick w) else w_tick w).
        assert (Hget : forall t, fst (c_get clk c1 t) = Some (fn (w_k w))).
        { intros t. apply (c_get_live c1 t (fn (w_k w)) (expiry_of (c_def (w_cache w)) (clk (w_tick w)))); [reflexivity|].
          apply expiry_of_lives. exact Hlive. }
        pose proof (before_calls_spent m 0 (mkWorld c1 (snd (c_get clk c1 t1)) (S (w_k w))) (Some (fn (w_k w)))) as Sp.
        destruct (before_calls clk fn m 0 _) as [[os nf] wf].
        destruct Sp as (S1 & S2 & S3 & S4); [lia|exact Hget|].
        cbn [w_k] in S3. rewrite Hget. cbn [val_of] in *.
        rewrite before_spec_one, S1, Hf, Nat.add_0_r. repeat split; auto; lia.
      * (* n <= 0: nothing ever runs, the zero value *)
        pose proof (before_calls_spent (S m) n w None) as Sp.
        destruct (before_calls clk fn (S m) n w) as [[os nf] wf].
        destruct Sp as (S1 & S2 & S3 & S4); [lia| |].
        { intros t. rewrite (c_get_none (w_cache w) t Hslot). reflexivity. }
        rewrite before_spec_spent by lia. cbn [val_of] in S1. repeat split; auto; lia.
Qed.

(* ================================================================== Once *)

Lemma once_call_miss : forall w, fst (c_get clk (w_cache w) (w_tick w)) = None ->
  once_call clk fn w =
  let t1 := snd (c_get clk (w_cache w) (w_tick w)) in
  let '(c1, t2) := c_set clk (w_cache w) (fn (w_k w)) 0 t1 in
  ((1%nat, fn (w_k w)), mkWorld c1 t2 (S (w_k w))).
Proof.
  intros w H. unfold once_call.
  destruct (c_get clk (w_cache w) (w_tick w)) as [memo t1]. cbn in H. subst memo. reflexivity.
Qed.

Lemma once_call_hit : forall w v, fst (c_get clk (w_cache w) (w_tick w)) = Some v ->
  once_call clk fn w =
  let t1 := snd (c_get clk (w_cache w) (w_tick w)) in
  ((0%nat, val_of (fst (c_get clk (w_cache w) t1))),
   mkWorld (w_cache w) (snd (c_get clk (w_cache w) t1)) (w_k w)).
Proof.
  intros w v H. unfold once_call.
  destruct (c_get clk (w_cache w) (w_tick w)) as [memo t1]. cbn in H. subst memo. cbn zeta. cbn [snd].
  destruct (c_get clk (w_cache w) t1) as [memo2 t2]. reflexivity.
Qed.

(* while the entry lives every call is served from it *)
Lemma once_calls_hit : forall m w v,
  (forall t, fst (c_get clk (w_cache w) t) = Some v) ->
  let '(os, wf) := once_calls clk fn m w in
  os = repeat (0%nat, v) m /\ w_k wf = w_k w /\ w_cache wf = w_cache w.
Proof.
  induction m as [|m IH]; intros w v Hget.
  - cbn. auto.
  - cbn [once_calls]. rewrite (once_call_hit w v (Hget _)). cbv beta iota zeta.
    match goal with |- context [once_calls clk fn m ?W] => set (w1 := W) end.
    specialize (IH w1 v).
    destruct (once_calls clk fn m w1) as [os wf].
    destruct IH as (I1 & I2 & I3); [exact Hget|].
    subst w1. cbn [w_k w_cache] in *. rewrite Hget, I1. cbn [val_of repeat]. auto.
Qed.

Lemma once_spec_S : forall f m, once_spec f (S m) = (1%nat, f 0%nat) :: repeat (0%nat, f 0%nat) m.
Proof.
  intros f m. unfold once_spec. cbn [seq map]. f_equal.
  assert (G : forall s, (1 <= s)%nat -> map (once_spec_out f) (seq s m) = repeat (0%nat, f 0%nat) m).
  { induction m as [|m IH]; intros s Hs; cbn [seq map repeat]; [reflexivity|].
    rewrite IH by lia. f_equal. unfold once_spec_out. destruct s; [lia|reflexivity]. }
  apply G. lia.
Qed.

Lemma once_calls_fresh : forall m w,
  c_slot (w_cache w) = None ->
  expiry_ok (c_def (w_cache w)) (clk (w_tick w)) ->
  let '(os, wf) := once_calls clk fn m w in
  os = once_spec (shift fn (w_k w)) m /\
  w_k wf = (w_k w + (if Nat.eqb m 0 then 0 else 1))%nat /\
  (m <> 0%nat -> forall t, fst (c_get clk (w_cache wf) t) = Some (fn (w_k w))).
Proof.
  intros m w Hslot Hlive. destruct m as [|m].
  - cbn. repeat split; try lia; try congruence.
  - cbn [once_calls]. rewrite once_call_miss by (rewrite (c_get_none _ _ Hslot); reflexivity).
    rewrite (c_get_none _ _ Hslot). cbn [snd]. cbv beta iota zeta.
    rewrite (c_set_empty (w_cache w) (fn (w_k w)) (w_tick w) Hslot).
    set (c1 := mkCache (c_def (w_cache w)) (Some (fn (w_k w), expiry_of (c_def (w_cache w)) (clk (w_tick w))))).
    set (t1 := if 0 <? c_def (w_cache w) then S (w_tick w) else w_tick w).
    assert (Hget : forall t, fst (c_get clk c1 t) = Some (fn (w_k w))).
    { intros t. apply (c_get_live c1 t (fn (w_k w)) (expiry_of (c_def (w_cache w)) (clk (w_tick w)))); [reflexivity|].
      apply expiry_of_lives. exact Hlive. }
    pose proof (once_calls_hit m (mkWorld c1 t1 (S (w_k w))) (fn (w_k w)) Hget) as Sp.
    destruct (once_calls clk fn m _) as [os wf].
    destruct Sp as (S1 & S2 & S3). cbn [w_k w_cache] in *.
    rewrite once_spec_S, S1. unfold shift. rewrite Nat.add_0_r. cbn [Nat.eqb].
    repeat split; auto; try lia. intros _ t. rewrite S3. apply Hget.
Qed.

(* one call of Once in ANY state, under a monotone clock *)
Lemma once_call_any : forall w,
  (forall i j, (i <= j)%nat -> clk i <= clk j) ->
  let '((ran, ret), w') := once_call clk fn w in
  match fst (c_get clk (w_cache w) (w_tick w)) with
  | None => ran = 1%nat /\ ret = fn (w_k w) /\ w_k w' = S (w_k w) /\
            exists e, c_slot (w_cache w') = Some (fn (w_k w), e)
  | Some v => ran = 0%nat /\ w_k w' = w_k w /\ w_cache w' = w_cache w /\ (ret = v \/ ret = 0)
  end.
Proof.
  intros w Hmono.
  destruct (fst (c_get clk (w_cache w) (w_tick w))) as [v|] eqn:G.
  - rewrite (once_call_hit w v G). cbn zeta. cbn [w_k w_cache]. repeat split; auto.
    destruct (c_get_cases (w_cache w) (snd (c_get clk (w_cache w) (w_tick w)))) as [N|(v' & e' & Hs & Hg)].
    + rewrite N. right. reflexivity.
    + rewrite Hg. left. cbn [val_of].
      destruct (c_get_cases (w_cache w) (w_tick w)) as [N|(v2 & e2 & Hs2 & Hg2)]; congruence.
  - rewrite (once_call_miss w G). cbn zeta.
    assert (G1 : fst (c_get clk (w_cache w) (snd (c_get clk (w_cache w) (w_tick w)))) = None).
    { revert G. unfold c_get. destruct (c_slot (w_cache w)) as [[v e]|]; [|reflexivity].
      destruct (0 <? e) eqn:A; [|discriminate].
      destruct (e <? clk (w_tick w)) eqn:B; [|discriminate]. intros _. cbn [snd].
      zbool. pose proof (Hmono (w_tick w) (S (w_tick w)) (Nat.le_succ_diag_r _)).
      replace (e <? clk (S (w_tick w))) with true by (symmetry; apply Z.ltb_lt; lia). reflexivity. }
    pose proof (c_set_miss_stores (w_cache w) (fn (w_k w)) (snd (c_get clk (w_cache w) (w_tick w))) Hmono G1) as (e & He).
    destruct (c_set clk (w_cache w) (fn (w_k w)) 0 _) as [c1 t2]. cbn [fst w_k w_cache] in *.
    repeat split; auto. exists e. exact He.
Qed.

(* one call of Before in ANY state *)
Lemma before_call_any : forall n w,
  let '((ran, ret), n', w') := before_call clk fn n w in
  n' = n - 1 /\
  (1 <= n -> ran = 1%nat /\ w_k w' = S (w_k w)) /\
  (n <= 0 -> ran = 0%nat /\ w_k w' = w_k w /\ w_cache w' = w_cache w) /\
  (1 < n -> ret = fn (w_k w) /\ w_cache w' = w_cache w).
Proof.
  intros n w.
  destruct (Z_lt_le_dec 1 n) as [Hbig|Hsmall].
  - rewrite before_call_counting by exact Hbig. cbn [w_k w_cache]. repeat split; auto; lia.
  - destruct (Z.eq_dec n 1) as [->|Hne].
    + rewrite before_call_last.
      destruct (c_set clk (w_cache w) (fn (w_k w)) 0 (w_tick w)) as [c1 t1]. cbn [w_k].
      repeat split; auto; lia.
    + rewrite before_call_spent by lia. cbn [w_k w_cache]. repeat split; auto; lia.
Qed.

End CacheProofs.

(* the code as found: the first call of Once consumes two results and returns the second,
   while the first is the one cached *)
Lemma once_orig_twice :
  let fn := fun k : nat => Z.of_nat k + 10 in
  let '((ran, ret), w') := once_call_orig (fun _ => 0) fn (world0 0) in
  ran = 2%nat /\ ret = 11 /\ c_slot (w_cache w') = Some (10, 0).
Proof. vm_compute. repeat split. Qed.
