(* C18_Props.v — property C18, stated over the model of C18_Model.v.

   "After(n) suppresses the callback for the first n calls and runs it exactly
    once on every later call; Before(n) runs the callback on each of the first
    n calls and never again, later calls returning the result of the last run;
    Once runs the callback a single time for as long as its cache entry lives
    and every call returns that first result.  Retry(n) and RetryWithDelay(n,d)
    call the callback until it succeeds or n calls have failed - never more than
    n times, not at all for n <= 0 - report the number of failed attempts and
    the last error, and RetryWithDelay waits at least d between consecutive
    attempts."

   Only statements here; each is closed by lemmas of C18_Proofs.v and followed
   by Print Assumptions.  Quantification is over ALL n, ALL numbers of calls,
   ALL callback result streams / success patterns and ALL clocks satisfying the
   stated hypotheses.

   The counter *n has a signed integer type with smallest value lo (int:
   lo = min64; int8: lo = min8 ...): the After/Before theorems are stated for
   every such type (forall lo < 0) and EVERY value n of it (is_int lo n — not a
   restriction: these are the values the type has).  The code decrements the
   counter on every call but not below lo (repair ddacf7d), so After(n <= 0)
   runs on every call forever and Before(n <= 0) never runs.  The code as
   shipped wrapped around at lo: the two theorems named _unrepaired_refuted
   are about THAT code only (after_calls_orig / before_calls_orig). *)

From Gogu Require Import Base C18_Model C18_Proofs.
Local Open Scope Z_scope.

(* ------------------------------------------------------------------ After *)

(* m calls of After on a counter of any signed type starting at any value n of
   it: call i (0-based) makes one invocation iff n <= i, none otherwise; the
   counter ends at n - m, or at the smallest value of its type if that is larger *)
Theorem C18_after_spec : forall lo n m, lo < 0 -> is_int lo n ->
  after_calls lo m n = (after_spec_runs n m, Z.max lo (n - Z.of_nat m)).
Proof.
  intros lo n m Hlo (H1 & H2).
  rewrite <- (Z.max_r lo n) at 1 by exact H1. rewrite after_calls_sim by assumption.
  rewrite after_calls_runs, after_calls_final. reflexivity.
Qed.
Print Assumptions C18_after_spec.

Theorem C18_after_which_calls_run : forall lo n m i, lo < 0 -> is_int lo n -> (i < m)%nat ->
  nth i (fst (after_calls lo m n)) 0%nat = if n <=? Z.of_nat i then 1%nat else 0%nat.
Proof.
  intros lo n m i Hlo Hn Hi. rewrite C18_after_spec by assumption. cbn [fst].
  now apply after_spec_runs_nth.
Qed.
Print Assumptions C18_after_which_calls_run.

Theorem C18_after_total_runs : forall lo n m, lo < 0 -> is_int lo n ->
  Z.of_nat (list_sum (fst (after_calls lo m n))) = Z.max 0 (Z.of_nat m - Z.max 0 n).
Proof.
  intros lo n m Hlo Hn. rewrite C18_after_spec by assumption. cbn [fst]. apply after_spec_runs_total.
Qed.
Print Assumptions C18_after_total_runs.

(* non-vacuity at both ends of the int range and across the threshold; and an
   int8 counter: After(&n), n = 1, called 600 times runs 599 times and the
   counter rests at -128 *)
Example C18_after_spec_nonvacuous :
  (min64 < 0 /\ is_int min64 min64 /\ after_calls min64 3 min64 = ([1%nat; 1%nat; 1%nat], min64)) /\
  (is_int min64 max64 /\ fst (after_calls min64 3 max64) = [0%nat; 0%nat; 0%nat]) /\
  fst (after_calls min64 5 2) = [0%nat; 0%nat; 1%nat; 1%nat; 1%nat] /\
  (min8 < 0 /\ is_int min8 1 /\ list_sum (fst (after_calls min8 600 1)) = 599%nat /\
   snd (after_calls min8 600 1) = min8).
Proof. vm_compute. repeat split; congruence. Qed.

(* ONLY about the code as shipped before repair ddacf7d (counter decremented
   with wrap-around): After(&n) with n = math.MinInt ran the callback on the
   first call, the counter became math.MaxInt, and the later calls were
   suppressed; with an int8 counter After(&n), n = 1, called 600 times ran the
   callback 345 times instead of 599 *)
Theorem C18_after_minint_unrepaired_refuted :
  (exists n m, is_int min64 n /\ fst (after_calls_orig min64 m n) <> after_spec_runs n m) /\
  list_sum (fst (after_calls_orig min8 600 1)) = 345%nat.
Proof.
  split.
  - exists min64, 3%nat. split; [vm_compute; split; congruence|].
    rewrite after_orig_minint_wraps. vm_compute. congruence.
  - apply after_orig_int8_rearms.
Qed.
Print Assumptions C18_after_minint_unrepaired_refuted.

(* ----------------------------------------------------------------- Before *)

(* m calls of Before(&n, c, fn) on a fresh cache whose entry, once stored, does
   not expire during the history (default expiry def <= 0, or no clock read
   exceeds the deadline clk 0 + def — the store makes the first clock read):
   call i runs the callback (its i-th invocation) and returns that result iff
   i < n; every later call makes no invocation and returns the result of
   invocation n-1; for n <= 0 nothing runs and the zero value is returned.
   Total invocations: min m (max 0 n). *)
Theorem C18_before_spec : forall lo (clk : nat -> Z) (fn : nat -> Z) def n m,
  lo < 0 -> is_int lo n ->
  (def <= 0 \/ forall i, clk i <= clk 0%nat + def) ->
  let '(os, nf, wf) := before_calls lo clk fn m n (world0 def) in
  os = before_spec fn n m /\ nf = Z.max lo (n - Z.of_nat m) /\
  Z.of_nat (w_k wf) = Z.min (Z.of_nat m) (Z.max 0 n).
Proof.
  intros lo clk fn def n m Hlo (H1 & H2) Hlive.
  replace (before_calls lo clk fn m n (world0 def)) with (before_calls lo clk fn m (Z.max lo n) (world0 def))
    by (rewrite Z.max_r by exact H1; reflexivity).
  rewrite before_calls_sim by assumption.
  pose proof (before_calls_fresh clk fn m n (world0 def) fn eq_refl Hlive (fun j => eq_refl)) as H.
  destruct (before_calls_z clk fn m n (world0 def)) as [[os nf] wf].
  destruct H as (E1 & E2 & E3). cbn [world0 w_k] in E3. subst nf. repeat split; auto; lia.
Qed.
Print Assumptions C18_before_spec.

(* the closed form, spelled out *)
Theorem C18_before_spec_reading : forall fn n m i, (i < m)%nat ->
  nth i (before_spec fn n m) (0%nat, 0) =
  if Z.of_nat i <? n then (1%nat, fn i)
  else (0%nat, if 1 <=? n then fn (Z.to_nat (n - 1)) else 0).
Proof.
  intros fn n m i Hi. unfold before_spec.
  rewrite nth_indep with (d' := before_spec_out fn n 0%nat) by (rewrite map_length, seq_length; exact Hi).
  rewrite map_nth, seq_nth by exact Hi. reflexivity.
Qed.
Print Assumptions C18_before_spec_reading.

(* non-vacuity: a clock that does advance, with a one-hour default expiry *)
Example C18_before_spec_nonvacuous :
  let clk := fun i : nat => 1000 * Z.of_nat (Nat.min i 50) in
  (min64 < 0 /\ is_int min64 2) /\
  (3600000000000 <= 0 \/ forall i, clk i <= clk 0%nat + 3600000000000) /\
  fst (fst (before_calls min64 clk (fun k => 10 + Z.of_nat k) 5 2 (world0 3600000000000)))
  = [(1%nat, 10); (1%nat, 11); (0%nat, 11); (0%nat, 11); (0%nat, 11)].
Proof.
  intros clk. split; [vm_compute; repeat split; congruence|].
  split; [right; intros i; subst clk; cbv beta; lia | vm_compute; reflexivity].
Qed.

(* one call of Before in ANY state of counter, cache and clock: the counter is
   decremented (but not below the smallest value of its type); the callback is
   invoked exactly once iff the counter was >= 1 and not at all otherwise; while
   the counter is above 1 the fresh result is returned and the cache is not
   touched; once the counter is spent the cache is not touched *)
Theorem C18_before_call_any_state : forall lo (clk fn : nat -> Z) n w,
  lo < 0 -> is_int lo n ->
  let '((ran, ret), n', w') := before_call lo clk fn n w in
  n' = Z.max lo (n - 1) /\
  (1 <= n -> ran = 1%nat /\ w_k w' = S (w_k w)) /\
  (n <= 0 -> ran = 0%nat /\ w_k w' = w_k w /\ w_cache w' = w_cache w) /\
  (1 < n -> ret = fn (w_k w) /\ w_cache w' = w_cache w).
Proof.
  intros lo clk fn n w Hlo (H1 & H2).
  replace (before_call lo clk fn n w) with (before_call lo clk fn (Z.max lo n) w)
    by (rewrite Z.max_r by exact H1; reflexivity).
  rewrite before_call_sim by assumption.
  pose proof (before_call_any clk fn n w) as H.
  destruct (before_call_z clk fn n w) as [[[ran ret] n'] w'].
  destruct H as (E & R1 & R2 & R3). subst n'. auto.
Qed.
Print Assumptions C18_before_call_any_state.

(* "never again", at full strength: m calls of Before(&n, c, fn) starting in ANY
   world — any cache content (empty, live, expired, holding a foreign value),
   any default expiry — under ANY clock (not even monotone), on a counter of
   any signed type: call i makes exactly one invocation iff i < n and none
   otherwise.  No hypothesis about the cache is needed: losing the entry
   (flush, expiry) never makes Before run again, and for n <= 0 it never runs
   at all, however many calls are made. *)
Theorem C18_before_runs_any_cache : forall lo (clk fn : nat -> Z) m n w,
  lo < 0 -> is_int lo n ->
  let '(os, nf, wf) := before_calls lo clk fn m n w in
  map fst os = map (fun i => if Z.of_nat i <? n then 1%nat else 0%nat) (seq 0 m) /\
  nf = Z.max lo (n - Z.of_nat m) /\
  Z.of_nat (w_k wf) = Z.of_nat (w_k w) + Z.min (Z.of_nat m) (Z.max 0 n).
Proof.
  intros lo clk fn m n w Hlo (H1 & H2).
  replace (before_calls lo clk fn m n w) with (before_calls lo clk fn m (Z.max lo n) w)
    by (rewrite Z.max_r by exact H1; reflexivity).
  rewrite before_calls_sim by assumption.
  pose proof (before_calls_runs_any clk fn m n w) as H.
  destruct (before_calls_z clk fn m n w) as [[os nf] wf].
  destruct H as (E1 & E2 & E3). subst nf. auto.
Qed.
Print Assumptions C18_before_runs_any_cache.

(* non-vacuity with a hostile cache: default expiry 5, a clock that jumps past
   every deadline; Before(2) called 5 times runs exactly twice although the
   stored entry is already dead at the very next read (later calls return the
   zero value of a nil item); and Before(&n) with n = math.MinInt, resp. with an
   int8 counter at -128, called 3 times never runs and leaves the counter there *)
Example C18_before_runs_any_cache_example :
  let clk := fun i : nat => 100 * Z.of_nat i in
  let fn := fun k : nat => 10 + Z.of_nat k in
  fst (fst (before_calls min64 clk fn 5 2 (world0 5)))
  = [(1%nat, 10); (1%nat, 0); (0%nat, 0); (0%nat, 0); (0%nat, 0)] /\
  fst (before_calls min64 clk fn 3 min64 (world0 5)) = ([(0%nat, 0); (0%nat, 0); (0%nat, 0)], min64) /\
  fst (before_calls min8 clk fn 3 min8 (world0 5)) = ([(0%nat, 0); (0%nat, 0); (0%nat, 0)], min8).
Proof. vm_compute. repeat split; reflexivity. Qed.

(* ONLY about the code as shipped before repair ddacf7d: Before(&n) with
   n = math.MinInt, for which "n <= 0: never" is promised, wrapped to
   math.MaxInt on its first decrement and ran the callback on every call *)
Theorem C18_before_minint_unrepaired_refuted :
  exists n m, is_int min64 n /\ n <= 0 /\
    map fst (fst (fst (before_calls_orig min64 (fun _ => 0) (fun k => 10 + Z.of_nat k) m n (world0 0))))
    <> map (fun i => if Z.of_nat i <? n then 1%nat else 0%nat) (seq 0 m).
Proof.
  exists min64, 3%nat. split; [vm_compute; split; congruence|]. split; [vm_compute; congruence|].
  rewrite before_orig_minint_wraps. vm_compute. congruence.
Qed.
Print Assumptions C18_before_minint_unrepaired_refuted.

(* a spent Before (counter <= 0) in ANY state: no invocation, and the value
   returned is what Get("func") finds at that moment — the memoised value while
   the entry lives, the zero value of T once it is gone (memo.Val() on nil) *)
Theorem C18_before_spent_returns_memo : forall lo (clk fn : nat -> Z) n w,
  lo < 0 -> is_int lo n -> n <= 0 ->
  fst (fst (before_call lo clk fn n w)) = (0%nat, val_of (fst (c_get clk (w_cache w) (w_tick w)))).
Proof.
  intros lo clk fn n w Hlo (H1 & H2) Hn.
  replace (before_call lo clk fn n w) with (before_call lo clk fn (Z.max lo n) w)
    by (rewrite Z.max_r by exact H1; reflexivity).
  rewrite before_call_sim by assumption.
  rewrite before_call_spent by exact Hn. reflexivity.
Qed.
Print Assumptions C18_before_spent_returns_memo.

(* the same inside ANY history on a shared cache: whatever happened before —
   calls through another counter, Once, Delete("func"), Flush(), time passing
   (entries expiring) — the next Before(&A) invokes the callback iff fewer than
   n = (initial *A) calls of Before(&A) have been made so far *)
Theorem C18_before_never_again_any_history : forall lo (clk fn : nat -> Z) ops s,
  lo < 0 -> is_int lo (m_a s) -> is_int lo (m_b s) ->
  let s1 := snd (mrun lo clk fn ops s) in
  let calls := Z.of_nat (length (filter is_before_a ops)) in
  m_a s1 = Z.max lo (m_a s - calls) /\
  fst (fst (mstep lo clk fn s1 MBeforeA)) = (if calls <? m_a s then 1%nat else 0%nat).
Proof.
  intros lo clk fn ops s Hlo (A1 & A2) (B1 & B2). cbv zeta.
  replace (mrun lo clk fn ops s) with (mrun lo clk fn ops (clampS lo s))
    by (rewrite clampS_id by assumption; reflexivity).
  rewrite mrun_sim by assumption. cbn [snd].
  destruct (mrun_counters clk fn ops s) as (Ha & Hb).
  pose proof (filter_len_le _ is_before_a ops) as La.
  pose proof (filter_len_le _ is_before_b ops) as Lb.
  split; [cbn [clampS m_a]; rewrite Ha; reflexivity|].
  rewrite mstep_sim by lia. cbn [fst]. rewrite mstep_before_a_ran, Ha.
  destruct (1 <=? m_a s - Z.of_nat (length (filter is_before_a ops))) eqn:E,
           (Z.of_nat (length (filter is_before_a ops)) <? m_a s) eqn:F;
    try reflexivity;
    repeat match goal with
    | H : (_ <? _) = true |- _ => apply Z.ltb_lt in H
    | H : (_ <? _) = false |- _ => apply Z.ltb_ge in H
    | H : (_ <=? _) = true |- _ => apply Z.leb_le in H
    | H : (_ <=? _) = false |- _ => apply Z.leb_gt in H
    end; lia.
Qed.
Print Assumptions C18_before_never_again_any_history.

(* n <= 0: no call ever runs the callback, in any history, however long *)
Theorem C18_before_nonpositive_never_runs : forall lo (clk fn : nat -> Z) ops s,
  lo < 0 -> is_int lo (m_a s) -> is_int lo (m_b s) -> m_a s <= 0 ->
  fst (fst (mstep lo clk fn (snd (mrun lo clk fn ops s)) MBeforeA)) = 0%nat.
Proof.
  intros lo clk fn ops s Hlo HA HB Hn.
  destruct (C18_before_never_again_any_history lo clk fn ops s Hlo HA HB) as (_ & Hr).
  rewrite Hr.
  replace (Z.of_nat (length (filter is_before_a ops)) <? m_a s) with false
    by (symmetry; apply Z.ltb_ge; lia).
  reflexivity.
Qed.
Print Assumptions C18_before_nonpositive_never_runs.

(* non-vacuity: A = 1 spent, then the entry is flushed, then time passes: the
   later Before(&A) calls do not run (and return the zero value), while Once on
   the same cache does run again *)
Example C18_before_never_again_example :
  fst (mrun min64 (fun _ => 0) (fun k => 10 + Z.of_nat k)
            [MBeforeA; MBeforeA; MFlush; MBeforeA; MOnce; MSleep 6; MBeforeA; MOnce]
            (mkM 1 0 0 (world0 5)))
  = [(1%nat, 10); (0%nat, 10); (0%nat, 0); (0%nat, 0); (1%nat, 11); (0%nat, 0); (0%nat, 0); (1%nat, 12)].
Proof. vm_compute. reflexivity. Qed.

(* ------------------------------------------------------------------- Once *)

(* m calls of Once on a fresh cache whose entry lives: exactly one invocation,
   made by the first call, and EVERY call returns that first result *)
Theorem C18_once_spec : forall (clk fn : nat -> Z) def m,
  (def <= 0 \/ forall i, clk i <= clk 0%nat + def) ->
  let '(os, wf) := once_calls clk fn m (world0 def) in
  os = once_spec fn m /\ w_k wf = Nat.min 1 m.
Proof.
  intros clk fn def m Hlive.
  pose proof (once_calls_fresh clk fn m (world0 def) eq_refl Hlive) as H.
  destruct (once_calls clk fn m (world0 def)) as [os wf].
  destruct H as (H1 & H2 & _). cbn [world0 w_k] in *. split.
  - rewrite H1. unfold once_spec. apply map_ext. intros i. reflexivity.
  - rewrite H2. destruct m; reflexivity.
Qed.
Print Assumptions C18_once_spec.

(* non-vacuity: an advancing clock within a one-hour expiry *)
Example C18_once_spec_nonvacuous :
  let clk := fun i : nat => 1000 * Z.of_nat (Nat.min i 50) in
  (3600000000000 <= 0 \/ forall i, clk i <= clk 0%nat + 3600000000000) /\
  fst (once_calls clk (fun k => 10 + Z.of_nat k) 4 (world0 3600000000000))
  = [(1%nat, 10); (0%nat, 10); (0%nat, 10); (0%nat, 10)].
Proof.
  intros clk. split; [right; intros i; subst clk; cbv beta; lia | vm_compute; reflexivity].
Qed.

Theorem C18_once_spec_reading : forall fn m i, (i < m)%nat ->
  nth i (once_spec fn m) (0%nat, 0) = ((if Nat.eqb i 0 then 1%nat else 0%nat), fn 0%nat).
Proof.
  intros fn m i Hi. unfold once_spec.
  rewrite nth_indep with (d' := once_spec_out fn 0%nat) by (rewrite map_length, seq_length; exact Hi).
  rewrite map_nth, seq_nth by exact Hi. reflexivity.
Qed.
Print Assumptions C18_once_spec_reading.

(* one call of Once in ANY state under a monotone clock ("for as long as its
   cache entry lives"): if Get finds a live entry v the callback is not invoked,
   the cache is unchanged and v is returned (or the zero value, if the entry
   expires between the two Gets the code makes); if not, the callback is invoked
   exactly once, its result is returned AND is what the cache now holds *)
Theorem C18_once_call_any_state : forall (clk fn : nat -> Z) w,
  (forall i j, (i <= j)%nat -> clk i <= clk j) ->
  let '((ran, ret), w') := once_call clk fn w in
  match fst (c_get clk (w_cache w) (w_tick w)) with
  | None => ran = 1%nat /\ ret = fn (w_k w) /\ w_k w' = S (w_k w) /\
            exists e, c_slot (w_cache w') = Some (fn (w_k w), e)
  | Some v => ran = 0%nat /\ w_k w' = w_k w /\ w_cache w' = w_cache w /\ (ret = v \/ ret = 0)
  end.
Proof. exact once_call_any. Qed.
Print Assumptions C18_once_call_any_state.


(* "for as long as its cache entry lives", as a history: from ANY world whose
   entry v is alive at every read (whoever stored it), any number of Once calls
   makes no invocation, returns v every time and leaves the cache alone *)
Theorem C18_once_served_while_entry_lives : forall (clk fn : nat -> Z) m w v,
  (forall t, fst (c_get clk (w_cache w) t) = Some v) ->
  let '(os, wf) := once_calls clk fn m w in
  os = repeat (0%nat, v) m /\ w_k wf = w_k w /\ w_cache wf = w_cache w.
Proof. exact once_calls_hit. Qed.
Print Assumptions C18_once_served_while_entry_lives.

Example C18_once_served_nonvacuous :
  let w := mkWorld (mkCache 5 (Some (7, 1000))) 3 2 in
  let clk := fun i : nat => Z.of_nat (Nat.min i 900) in
  (forall t, fst (c_get clk (w_cache w) t) = Some 7) /\
  fst (once_calls clk (fun k => 10 + Z.of_nat k) 3 w) = [(0%nat, 7); (0%nat, 7); (0%nat, 7)].
Proof.
  cbv zeta. split; [|vm_compute; reflexivity].
  intros t. unfold c_get. cbn [w_cache c_slot]. cbn [Z.ltb Z.compare].
  replace (1000 <? Z.of_nat (Nat.min t 900)) with false by (symmetry; apply Z.ltb_ge; lia). reflexivity.
Qed.

(* non-vacuity of both branches, and re-computation after expiry: default
   expiry 5, clock 0,0,0,0,100,...: first call runs, second is served, third
   (after the deadline) runs again *)
Example C18_once_expiry_example :
  let clk := fun i : nat => if (i <? 3)%nat then 0 else 100 in
  fst (once_calls clk (fun k => 10 + Z.of_nat k) 3 (world0 5))
  = [(1%nat, 10); (0%nat, 10); (1%nat, 11)].
Proof. vm_compute. reflexivity. Qed.

(* the "or the zero value" alternative is real: when the deadline passes between
   the two Gets of one call, that call returns the zero value without running
   the callback (the entry no longer lives, so the property does not speak) *)
Example C18_once_expires_between_gets :
  let clk := fun i : nat => if (i <? 4)%nat then 0 else 100 in
  fst (once_calls clk (fun k => 10 + Z.of_nat k) 3 (world0 5))
  = [(1%nat, 10); (0%nat, 10); (0%nat, 0)].
Proof. vm_compute. reflexivity. Qed.

(* the code as found (DESIGN §7 #9) violates the clause: the first call consumes
   TWO results, returns the second and caches the first *)
Theorem C18_once_original_refuted :
  exists (fn : nat -> Z),
    let '((ran, ret), w') := once_call_orig (fun _ => 0) fn (world0 0) in
    ran = 2%nat /\ c_slot (w_cache w') = Some (fn 0%nat, 0) /\ ret <> fn 0%nat.
Proof.
  exists (fun k : nat => Z.of_nat k + 10). vm_compute. repeat split. discriminate.
Qed.
Print Assumptions C18_once_original_refuted.


(* ------------------------- histories on one shared cache: the memo-cell machine *)

(* Before(&A), Before(&B), Once, Delete("func"), Flush() and time.Sleep in any
   order on ONE fresh cache, under a clock that stands still except for the
   sleeps (calls take no time compared with the expiry) and with every sleep
   outlasting the default expiry: the transcription (deadlines, clock reads,
   Set refusing to overwrite a live entry) behaves exactly as the clock-free
   reference machine [srun] (whose counters are mathematical integers; the
   code's are those clamped at the smallest value of the type) in which the
   cache is a memo cell — per call the
   same number of invocations and the same value, the same final counters, and
   the final Get("func") finds what the cell holds.  In that machine the
   invocation clauses are definitional (C18_memo_cell_reading). *)
Theorem C18_shared_cache_refines_memo_cell : forall lo (clk fn : nat -> Z) def na nb ops,
  lo < 0 -> is_int lo na -> is_int lo nb ->
  (forall i, clk i = clk 0%nat) -> 0 <= clk 0%nat ->
  (forall d, In (MSleep d) ops -> def < d) ->
  let '(outs, mf) := mrun lo clk fn ops (mkM na nb 0 (world0 def)) in
  let '(souts, sf) := srun def fn ops (mkS na nb None 0) in
  outs = souts /\ m_a mf = Z.max lo (s_a sf) /\ m_b mf = Z.max lo (s_b sf) /\ w_k (m_w mf) = s_k sf /\
  fst (c_get (fun i => clk i + m_skew mf) (w_cache (m_w mf)) (w_tick (m_w mf))) = s_memo sf.
Proof.
  intros lo clk fn def na nb ops Hlo (A1 & A2) (B1 & B2) Hc H0 Hsl.
  rewrite <- (clampS_id lo (mkM na nb 0 (world0 def)) A1 B1). rewrite mrun_sim by assumption.
  assert (Hlong : Forall (long_sleep def) ops).
  { apply Forall_forall. intros o Hin. destruct o; cbn; auto. }
  pose proof (sim_run clk fn def Hc H0 ops _ _ (sim_init clk def na nb) Hlong) as (R1 & R2).
  destruct (mrun_z clk fn ops (mkM na nb 0 (world0 def))) as [outs mf].
  destruct (srun def fn ops (mkS na nb None 0)) as [souts sf].
  cbn [fst snd] in R1, R2. destruct R2 as (Ha & Hb & Hk & _ & _ & _ & Hm).
  cbn [clampS m_a m_b m_skew m_w fst snd]. rewrite (c_get_const clk Hc). cbn [fst snd].
  rewrite Ha, Hb. repeat split; auto.
Qed.
Print Assumptions C18_shared_cache_refines_memo_cell.

(* the reference machine, read clause by clause: Before runs the callback iff
   its own counter is >= 1 (whatever the cell holds); a spent Before returns the
   cell (zero value if empty); Once runs iff the cell is empty, and then the
   cell holds its result; otherwise it returns the cell untouched *)
Theorem C18_memo_cell_reading : forall def fn s,
  fst (fst (sstep def fn s MBeforeA)) = (if 1 <=? s_a s then 1%nat else 0%nat) /\
  (s_a s <= 0 -> sstep def fn s MBeforeA = ((0%nat, val_of (s_memo s)), mkS (s_a s - 1) (s_b s) (s_memo s) (s_k s))) /\
  (s_memo s = None ->
     sstep def fn s MOnce = ((1%nat, fn (s_k s)), mkS (s_a s) (s_b s) (Some (fn (s_k s))) (S (s_k s)))) /\
  (forall v, s_memo s = Some v -> sstep def fn s MOnce = ((0%nat, v), s)).
Proof.
  intros def fn s. destruct s as [a b memo k]. cbn [sstep s_a s_b s_memo s_k]. unfold s_before, s_once.
  split; [|split; [|split]].
  - destruct (1 <? a) eqn:A; [|destruct (a =? 1) eqn:B]; cbn;
      destruct (1 <=? a) eqn:C; try reflexivity;
      repeat match goal with
      | H : (_ <? _) = true |- _ => apply Z.ltb_lt in H
      | H : (_ <? _) = false |- _ => apply Z.ltb_ge in H
      | H : (_ <=? _) = true |- _ => apply Z.leb_le in H
      | H : (_ <=? _) = false |- _ => apply Z.leb_gt in H
      | H : (_ =? _) = true |- _ => apply Z.eqb_eq in H
      | H : (_ =? _) = false |- _ => apply Z.eqb_neq in H
      end; lia.
  - intros Ha. replace (1 <? a) with false by (symmetry; apply Z.ltb_ge; lia).
    replace (a =? 1) with false by (symmetry; apply Z.eqb_neq; lia). reflexivity.
  - intros ->. reflexivity.
  - intros v ->. reflexivity.
Qed.
Print Assumptions C18_memo_cell_reading.

(* non-vacuity: a history with every kind of operation, default expiry 5 and a
   sleep of 6: the hypotheses hold and both machines produce this trace (the
   second Once is served, the one after the sleep runs again, B = 1 finds the
   cell occupied and returns the foreign value without storing its own) *)
Example C18_shared_cache_example :
  let ops := [MOnce; MBeforeA; MOnce; MSleep 6; MOnce; MBeforeB; MDelete; MBeforeA; MFlush; MBeforeA] in
  let fn := fun k : nat => 10 + Z.of_nat k in
  (forall d, In (MSleep d) ops -> 5 < d) /\
  (is_int min64 2 /\ is_int min64 1) /\
  fst (mrun min64 (fun _ => 0) fn ops (mkM 2 1 0 (world0 5))) = fst (srun 5 fn ops (mkS 2 1 None 0)) /\
  fst (srun 5 fn ops (mkS 2 1 None 0)) =
    [(1%nat, 10); (1%nat, 11); (0%nat, 10); (0%nat, 0); (1%nat, 12); (1%nat, 12); (0%nat, 0);
     (1%nat, 14); (0%nat, 0); (0%nat, 0)].
Proof.
  cbv zeta. split; [|split; [vm_compute; repeat split; congruence|split; vm_compute; reflexivity]].
  intros d [H|[H|[H|[H|[H|[H|[H|[H|[H|[H|[]]]]]]]]]]]; inversion H; lia.
Qed.

(* ------------------------------------------------------------------ Retry *)

(* the loop terminates within its fuel and equals the closed form *)
Theorem C18_retry_spec : forall n ok, retry n ok = Some (retry_spec true n ok).
Proof. exact retry_eq_spec. Qed.
Print Assumptions C18_retry_spec.

(* clause by clause.  r_calls = invocations made, r_attempts = the int returned,
   r_err = the error returned (0 nil, err_arg Retry's own, errid k = error of invocation k) *)
Theorem C18_retry_clauses : forall n ok,
  exists r, retry n ok = Some r /\
  (* never more than n invocations, none for n <= 0 *)
  Z.of_nat (r_calls r) <= Z.max 0 n /\
  (* n < 0: an error, without calling *)
  (n < 0 -> r = mkRetry 0 err_arg 0) /\
  (* first success at invocation f < n: f+1 invocations, f failed attempts reported, nil *)
  (forall f, Z.of_nat f < n -> ok f = true -> (forall j, (j < f)%nat -> ok j = false) ->
     r = mkRetry (Z.of_nat f) 0 (S f)) /\
  (* no success among the first n invocations: n invocations, n reported, the LAST error *)
  (0 <= n -> (forall j, Z.of_nat j < n -> ok j = false) ->
     r = mkRetry n (if n =? 0 then 0 else errid (Z.to_nat n - 1)) (Z.to_nat n)).
Proof.
  intros n ok. exists (retry_spec true n ok). split; [apply retry_eq_spec|].
  split; [apply retry_spec_calls_bound|]. split; [apply retry_spec_negative|].
  split; [apply retry_spec_success|apply retry_spec_exhausted].
Qed.
Print Assumptions C18_retry_clauses.

(* however large n is (math.MaxInt included): the first success decides, and an
   evaluation of the loop with ANY amount of fuel that finishes, finishes with
   the closed form (the wire evaluates Retry(MaxInt) with fuel for the pattern
   it was given, not with 2^63 units) *)
Theorem C18_retry_first_success_any_n : forall n ok b f,
  first_ok ok b = Some f -> Z.of_nat f < n -> retry n ok = Some (mkRetry (Z.of_nat f) 0 (S f)).
Proof.
  intros n ok b f H Hf. rewrite retry_eq_spec. f_equal. exact (retry_first_success true n ok b f H Hf).
Qed.
Print Assumptions C18_retry_first_success_any_n.

Theorem C18_retry_any_fuel : forall fuel n ok r,
  retry_with fuel n ok = Some r -> retry n ok = Some r.
Proof. intros fuel n ok r H. rewrite retry_eq_spec. f_equal. symmetry. exact (retry_with_sound fuel n ok r H). Qed.
Print Assumptions C18_retry_any_fuel.

Example C18_retry_maxint_example :
  retry_with 5 max64 (fun k => Nat.eqb k 2) = Some (mkRetry 2 0 3).
Proof. vm_compute. reflexivity. Qed.

(* "until it succeeds or n calls have failed": every invocation but the last
   failed; either the last one succeeded (nil error, attempts = invocations - 1)
   or all n failed (attempts = invocations = n) *)
Theorem C18_retry_stops_exactly : forall n ok r,
  0 <= n -> retry n ok = Some r ->
  (forall j, (j < r_calls r)%nat -> (S j < r_calls r)%nat -> ok j = false) /\
  ((r_err r = 0 /\ (r_calls r > 0)%nat /\ ok (r_calls r - 1)%nat = true /\
    r_attempts r = Z.of_nat (r_calls r) - 1)
   \/ (Z.of_nat (r_calls r) = n /\ r_attempts r = n /\ (forall j, (j < r_calls r)%nat -> ok j = false))).
Proof.
  intros n ok r Hn H. rewrite retry_eq_spec in H. inversion H; subst r.
  apply (retry_spec_counts true n ok Hn).
Qed.
Print Assumptions C18_retry_stops_exactly.

(* --------------------------------------------------------- RetryWithDelay *)

(* the same counts (but NO error for n < 0: the loop is just skipped), one
   elapsed-time argument per invocation, one wait per failed invocation *)
Theorem C18_retry_delay_spec : forall t_start t_inv t_arm t_fire t_end n ok,
  exists r, retry_delay t_start t_inv t_arm t_fire t_end n ok = Some r /\
  d_res r = retry_spec false n ok /\
  d_elapsed r = map (fun j => t_inv j - t_start) (seq 0 (r_calls (d_res r))) /\
  d_waits r = map (fun j => (t_arm j, t_fire j))
                  (seq 0 (if r_err (d_res r) =? 0 then (r_calls (d_res r) - 1)%nat else r_calls (d_res r))) /\
  d_total r = t_end - t_start.
Proof.
  intros. eexists. split; [apply retry_delay_eq_spec|]. unfold timed_of. cbn. repeat split.
Qed.
Print Assumptions C18_retry_delay_spec.

(* consecutive attempts are at least d apart, under the runtime laws:
   program order of the clock reads and "time.After(d) never delivers early" *)
Theorem C18_retry_delay_gap : forall t_start (t_inv t_arm t_fire : nat -> Z) t_end d n ok,
  (forall j, t_inv j <= t_arm j) ->          (* invocation j happens before the timer is armed *)
  (forall j, t_arm j + d <= t_fire j) ->     (* TIMER LAW *)
  (forall j, t_fire j <= t_inv (S j)) ->     (* the next invocation happens after the receive *)
  exists r, retry_delay t_start t_inv t_arm t_fire t_end n ok = Some r /\
  length (d_elapsed r) = r_calls (d_res r) /\
  forall j, (S j < r_calls (d_res r))%nat ->
    nth j (d_elapsed r) 0 + d <= nth (S j) (d_elapsed r) 0.
Proof.
  intros t_start t_inv t_arm t_fire t_end d n ok H1 H2 H3.
  eexists. split; [apply retry_delay_eq_spec|]. unfold timed_of. cbn [d_elapsed d_res].
  set (c := r_calls (retry_spec false n ok)). split.
  - unfold elapsed_upto. now rewrite map_length, seq_length.
  - intros j Hj. unfold elapsed_upto.
    set (f := fun j0 : nat => t_inv j0 - t_start).
    rewrite !nth_indep with (d := 0) (d' := f 0%nat) by (rewrite map_length, seq_length; lia).
    rewrite !map_nth, !seq_nth by lia. subst f. cbn beta.
    pose proof (gap_one t_inv t_arm t_fire d H1 H2 H3 j). cbn [Nat.add]. lia.
Qed.
Print Assumptions C18_retry_delay_gap.


(* per gap, whatever the attempts cost: attempt j returns at t_ret j (any time
   after it started — it may itself take longer than d); the pause of THIS gap
   is a wait of its own (the j-th entry of d_waits), armed only after attempt j
   returned and complete before attempt j+1 starts.  Hence between the RETURN of
   an attempt and the START of the next at least d elapses, and consecutive
   starts are at least (duration of the earlier attempt) + d apart. *)
Theorem C18_retry_delay_gap_after_return :
  forall t_start (t_inv t_ret t_arm t_fire : nat -> Z) t_end d n ok,
  (forall j, t_inv j <= t_ret j) ->          (* an attempt returns after it started *)
  (forall j, t_ret j <= t_arm j) ->          (* time.After is called after the attempt returned *)
  (forall j, t_arm j + d <= t_fire j) ->     (* TIMER LAW *)
  (forall j, t_fire j <= t_inv (S j)) ->     (* the next invocation happens after the receive *)
  exists r, retry_delay t_start t_inv t_arm t_fire t_end n ok = Some r /\
  forall j, (S j < r_calls (d_res r))%nat ->
    nth j (d_waits r) (0, 0) = (t_arm j, t_fire j) /\
    t_ret j + d <= t_inv (S j) /\
    nth j (d_elapsed r) 0 + (t_ret j - t_inv j) + d <= nth (S j) (d_elapsed r) 0.
Proof. exact retry_delay_gap_after_return. Qed.
Print Assumptions C18_retry_delay_gap_after_return.

(* non-vacuity with d = 10 and attempts of duration 0, d/2 and 2.5 d *)
Example C18_retry_delay_slow_attempts_nonvacuous :
  let dur := fun j : nat => match j with 0%nat => 0 | 1%nat => 5 | _ => 25 end in
  let t_inv := fun j : nat => 40 * Z.of_nat j in
  let t_ret := fun j : nat => 40 * Z.of_nat j + dur j in
  let t_arm := fun j : nat => 40 * Z.of_nat j + dur j + 1 in
  let t_fire := fun j : nat => 40 * Z.of_nat j + dur j + 12 in
  (forall j, t_inv j <= t_ret j) /\ (forall j, t_ret j <= t_arm j) /\
  (forall j, t_arm j + 10 <= t_fire j) /\ (forall j, t_fire j <= t_inv (S j)) /\
  option_map d_waits (retry_delay 0 t_inv t_arm t_fire 200 4 (fun _ => false))
  = Some [(1, 12); (46, 57); (106, 117); (146, 157)].
Proof.
  cbv zeta. repeat split; try (vm_compute; reflexivity);
    intros j; destruct j as [|[|j]]; cbn [Nat.eqb]; lia.
Qed.

(* non-vacuity of the timer hypotheses, and a run under them *)
Example C18_retry_delay_gap_nonvacuous :
  let t_inv := fun j : nat => 10 * Z.of_nat j in
  let t_arm := fun j : nat => 10 * Z.of_nat j + 1 in
  let t_fire := fun j : nat => 10 * Z.of_nat j + 7 in
  (forall j, t_inv j <= t_arm j) /\ (forall j, t_arm j + 5 <= t_fire j) /\ (forall j, t_fire j <= t_inv (S j)) /\
  option_map d_elapsed (retry_delay 0 t_inv t_arm t_fire 99 4 (fun k => Nat.eqb k 2)) = Some [0; 10; 20].
Proof. cbn zeta. repeat split; intros; try lia. Qed.
