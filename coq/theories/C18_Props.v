(* C18_Props.v — property C18, stated over the model of C18_Model.v.

   "After(n) suppresses the callback for the first n calls and runs it exactly
    once on every later call; Before(n) runs the callback on each of the first
    n calls and never again, later calls returning the result of the last run;
    Once runs the callback a single time for as long as its cache entry lives
    and every call returns that first result.  Retry(n) and RetryWithDelay(n,d)
    call the callback until it succeeds or n calls have failed - never more than
    n times, not at all for n <= 0 - report the number of failed attempts and
    the last error, and RetryWithDelay waits at least d between consecutive
    attempts."

   Only statements here; each is closed by lemmas of C18_Proofs.v and followed
   by Print Assumptions.  Quantification is over ALL n, ALL numbers of calls,
   ALL callback result streams / success patterns and ALL clocks satisfying the
   stated hypotheses. *)

From Gogu Require Import Base C18_Model C18_Proofs.
Local Open Scope Z_scope.

(* ------------------------------------------------------------------ After *)

(* m calls of After on a counter starting at n: call i (0-based) makes one
   invocation iff n <= i, none otherwise; the counter ends at n - m *)
Theorem C18_after_spec : forall n m,
  after_calls m n = (after_spec_runs n m, n - Z.of_nat m).
Proof.
  intros n m. rewrite <- after_calls_runs, <- after_calls_final.
  destruct (after_calls m n); reflexivity.
Qed.
Print Assumptions C18_after_spec.

Theorem C18_after_which_calls_run : forall n m i, (i < m)%nat ->
  nth i (fst (after_calls m n)) 0%nat = if n <=? Z.of_nat i then 1%nat else 0%nat.
Proof. intros n m i Hi. rewrite after_calls_runs. now apply after_spec_runs_nth. Qed.
Print Assumptions C18_after_which_calls_run.

Theorem C18_after_total_runs : forall n m,
  Z.of_nat (list_sum (fst (after_calls m n))) = Z.max 0 (Z.of_nat m - Z.max 0 n).
Proof. intros n m. rewrite after_calls_runs. apply after_spec_runs_total. Qed.
Print Assumptions C18_after_total_runs.

(* ----------------------------------------------------------------- Before *)

(* m calls of Before(&n, c, fn) on a fresh cache whose entry, once stored, does
   not expire during the history (default expiry def <= 0, or no clock read
   exceeds the deadline clk 0 + def — the store makes the first clock read):
   call i runs the callback (its i-th invocation) and returns that result iff
   i < n; every later call makes no invocation and returns the result of
   invocation n-1; for n <= 0 nothing runs and the zero value is returned.
   Total invocations: min m (max 0 n). *)
Theorem C18_before_spec : forall (clk : nat -> Z) (fn : nat -> Z) def n m,
  (def <= 0 \/ forall i, clk i <= clk 0%nat + def) ->
  let '(os, nf, wf) := before_calls clk fn m n (world0 def) in
  os = before_spec fn n m /\ nf = n - Z.of_nat m /\
  Z.of_nat (w_k wf) = Z.min (Z.of_nat m) (Z.max 0 n).
Proof.
  intros clk fn def n m Hlive.
  pose proof (before_calls_fresh clk fn m n (world0 def) fn eq_refl Hlive (fun j => eq_refl)) as H.
  destruct (before_calls clk fn m n (world0 def)) as [[os nf] wf].
  destruct H as (H1 & H2 & H3). cbn [world0 w_k] in H3. repeat split; auto; lia.
Qed.
Print Assumptions C18_before_spec.

(* the closed form, spelled out *)
Theorem C18_before_spec_reading : forall fn n m i, (i < m)%nat ->
  nth i (before_spec fn n m) (0%nat, 0) =
  if Z.of_nat i <? n then (1%nat, fn i)
  else (0%nat, if 1 <=? n then fn (Z.to_nat (n - 1)) else 0).
Proof.
  intros fn n m i Hi. unfold before_spec.
  rewrite nth_indep with (d' := before_spec_out fn n 0%nat) by (rewrite map_length, seq_length; exact Hi).
  rewrite map_nth, seq_nth by exact Hi. reflexivity.
Qed.
Print Assumptions C18_before_spec_reading.

(* non-vacuity: a clock that does advance, with a one-hour default expiry *)
Example C18_before_spec_nonvacuous :
  let clk := fun i : nat => 1000 * Z.of_nat (Nat.min i 50) in
  (3600000000000 <= 0 \/ forall i, clk i <= clk 0%nat + 3600000000000) /\
  fst (fst (before_calls clk (fun k => 10 + Z.of_nat k) 5 2 (world0 3600000000000)))
  = [(1%nat, 10); (1%nat, 11); (0%nat, 11); (0%nat, 11); (0%nat, 11)].
Proof.
  intros clk. split; [right; intros i; subst clk; cbv beta; lia | vm_compute; reflexivity].
Qed.

(* one call of Before in ANY state of counter, cache and clock: it decrements;
   it invokes the callback exactly once iff the counter was >= 1 and not at all
   otherwise; while the counter is above 1 it returns the fresh result and does
   not touch the cache; once the counter is spent it does not touch the cache *)
Theorem C18_before_call_any_state : forall (clk fn : nat -> Z) n w,
  let '((ran, ret), n', w') := before_call clk fn n w in
  n' = n - 1 /\
  (1 <= n -> ran = 1%nat /\ w_k w' = S (w_k w)) /\
  (n <= 0 -> ran = 0%nat /\ w_k w' = w_k w /\ w_cache w' = w_cache w) /\
  (1 < n -> ret = fn (w_k w) /\ w_cache w' = w_cache w).
Proof. exact before_call_any. Qed.
Print Assumptions C18_before_call_any_state.

(* ------------------------------------------------------------------- Once *)

(* m calls of Once on a fresh cache whose entry lives: exactly one invocation,
   made by the first call, and EVERY call returns that first result *)
Theorem C18_once_spec : forall (clk fn : nat -> Z) def m,
  (def <= 0 \/ forall i, clk i <= clk 0%nat + def) ->
  let '(os, wf) := once_calls clk fn m (world0 def) in
  os = once_spec fn m /\ w_k wf = Nat.min 1 m.
Proof.
  intros clk fn def m Hlive.
  pose proof (once_calls_fresh clk fn m (world0 def) eq_refl Hlive) as H.
  destruct (once_calls clk fn m (world0 def)) as [os wf].
  destruct H as (H1 & H2 & _). cbn [world0 w_k] in *. split.
  - rewrite H1. unfold once_spec. apply map_ext. intros i. reflexivity.
  - rewrite H2. destruct m; reflexivity.
Qed.
Print Assumptions C18_once_spec.

Theorem C18_once_spec_reading : forall fn m i, (i < m)%nat ->
  nth i (once_spec fn m) (0%nat, 0) = ((if Nat.eqb i 0 then 1%nat else 0%nat), fn 0%nat).
Proof.
  intros fn m i Hi. unfold once_spec.
  rewrite nth_indep with (d' := once_spec_out fn 0%nat) by (rewrite map_length, seq_length; exact Hi).
  rewrite map_nth, seq_nth by exact Hi. reflexivity.
Qed.
Print Assumptions C18_once_spec_reading.

(* one call of Once in ANY state under a monotone clock ("for as long as its
   cache entry lives"): if Get finds a live entry v the callback is not invoked,
   the cache is unchanged and v is returned (or the zero value, if the entry
   expires between the two Gets the code makes); if not, the callback is invoked
   exactly once, its result is returned AND is what the cache now holds *)
Theorem C18_once_call_any_state : forall (clk fn : nat -> Z) w,
  (forall i j, (i <= j)%nat -> clk i <= clk j) ->
  let '((ran, ret), w') := once_call clk fn w in
  match fst (c_get clk (w_cache w) (w_tick w)) with
  | None => ran = 1%nat /\ ret = fn (w_k w) /\ w_k w' = S (w_k w) /\
            exists e, c_slot (w_cache w') = Some (fn (w_k w), e)
  | Some v => ran = 0%nat /\ w_k w' = w_k w /\ w_cache w' = w_cache w /\ (ret = v \/ ret = 0)
  end.
Proof. exact once_call_any. Qed.
Print Assumptions C18_once_call_any_state.

(* non-vacuity of both branches, and re-computation after expiry: default
   expiry 5, clock 0,0,0,0,100,...: first call runs, second is served, third
   (after the deadline) runs again *)
Example C18_once_expiry_example :
  let clk := fun i : nat => if (i <? 3)%nat then 0 else 100 in
  fst (once_calls clk (fun k => 10 + Z.of_nat k) 3 (world0 5))
  = [(1%nat, 10); (0%nat, 10); (1%nat, 11)].
Proof. vm_compute. reflexivity. Qed.

(* the "or the zero value" alternative is real: when the deadline passes between
   the two Gets of one call, that call returns the zero value without running
   the callback (the entry no longer lives, so the property does not speak) *)
Example C18_once_expires_between_gets :
  let clk := fun i : nat => if (i <? 4)%nat then 0 else 100 in
  fst (once_calls clk (fun k => 10 + Z.of_nat k) 3 (world0 5))
  = [(1%nat, 10); (0%nat, 10); (0%nat, 0)].
Proof. vm_compute. reflexivity. Qed.

(* the code as found (DESIGN §7 #9) violates the clause: the first call consumes
   TWO results, returns the second and caches the first *)
Theorem C18_once_original_refuted :
  exists (fn : nat -> Z),
    let '((ran, ret), w') := once_call_orig (fun _ => 0) fn (world0 0) in
    ran = 2%nat /\ c_slot (w_cache w') = Some (fn 0%nat, 0) /\ ret <> fn 0%nat.
Proof.
  exists (fun k : nat => Z.of_nat k + 10). vm_compute. repeat split. discriminate.
Qed.
Print Assumptions C18_once_original_refuted.

(* ------------------------------------------------------------------ Retry *)

(* the loop terminates within its fuel and equals the closed form *)
Theorem C18_retry_spec : forall n ok, retry n ok = Some (retry_spec true n ok).
Proof. exact retry_eq_spec. Qed.
Print Assumptions C18_retry_spec.

(* clause by clause.  r_calls = invocations made, r_attempts = the int returned,
   r_err = the error returned (0 nil, err_arg Retry's own, errid k = error of invocation k) *)
Theorem C18_retry_clauses : forall n ok,
  exists r, retry n ok = Some r /\
  (* never more than n invocations, none for n <= 0 *)
  Z.of_nat (r_calls r) <= Z.max 0 n /\
  (* n < 0: an error, without calling *)
  (n < 0 -> r = mkRetry 0 err_arg 0) /\
  (* first success at invocation f < n: f+1 invocations, f failed attempts reported, nil *)
  (forall f, Z.of_nat f < n -> ok f = true -> (forall j, (j < f)%nat -> ok j = false) ->
     r = mkRetry (Z.of_nat f) 0 (S f)) /\
  (* no success among the first n invocations: n invocations, n reported, the LAST error *)
  (0 <= n -> (forall j, Z.of_nat j < n -> ok j = false) ->
     r = mkRetry n (if n =? 0 then 0 else errid (Z.to_nat n - 1)) (Z.to_nat n)).
Proof.
  intros n ok. exists (retry_spec true n ok). split; [apply retry_eq_spec|].
  split; [apply retry_spec_calls_bound|]. split; [apply retry_spec_negative|].
  split; [apply retry_spec_success|apply retry_spec_exhausted].
Qed.
Print Assumptions C18_retry_clauses.

(* "until it succeeds or n calls have failed": every invocation but the last
   failed; either the last one succeeded (nil error, attempts = invocations - 1)
   or all n failed (attempts = invocations = n) *)
Theorem C18_retry_stops_exactly : forall n ok r,
  0 <= n -> retry n ok = Some r ->
  (forall j, (j < r_calls r)%nat -> (S j < r_calls r)%nat -> ok j = false) /\
  ((r_err r = 0 /\ (r_calls r > 0)%nat /\ ok (r_calls r - 1)%nat = true /\
    r_attempts r = Z.of_nat (r_calls r) - 1)
   \/ (Z.of_nat (r_calls r) = n /\ r_attempts r = n /\ (forall j, (j < r_calls r)%nat -> ok j = false))).
Proof.
  intros n ok r Hn H. rewrite retry_eq_spec in H. inversion H; subst r.
  apply (retry_spec_counts true n ok Hn).
Qed.
Print Assumptions C18_retry_stops_exactly.

(* --------------------------------------------------------- RetryWithDelay *)

(* the same counts (but NO error for n < 0: the loop is just skipped), one
   elapsed-time argument per invocation, one wait per failed invocation *)
Theorem C18_retry_delay_spec : forall t_start t_inv t_arm t_fire t_end n ok,
  exists r, retry_delay t_start t_inv t_arm t_fire t_end n ok = Some r /\
  d_res r = retry_spec false n ok /\
  d_elapsed r = map (fun j => t_inv j - t_start) (seq 0 (r_calls (d_res r))) /\
  d_waits r = map (fun j => (t_arm j, t_fire j))
                  (seq 0 (if r_err (d_res r) =? 0 then (r_calls (d_res r) - 1)%nat else r_calls (d_res r))) /\
  d_total r = t_end - t_start.
Proof.
  intros. eexists. split; [apply retry_delay_eq_spec|]. unfold timed_of. cbn. repeat split.
Qed.
Print Assumptions C18_retry_delay_spec.

(* consecutive attempts are at least d apart, under the runtime laws:
   program order of the clock reads and "time.After(d) never delivers early" *)
Theorem C18_retry_delay_gap : forall t_start (t_inv t_arm t_fire : nat -> Z) t_end d n ok,
  (forall j, t_inv j <= t_arm j) ->          (* invocation j happens before the timer is armed *)
  (forall j, t_arm j + d <= t_fire j) ->     (* TIMER LAW *)
  (forall j, t_fire j <= t_inv (S j)) ->     (* the next invocation happens after the receive *)
  exists r, retry_delay t_start t_inv t_arm t_fire t_end n ok = Some r /\
  length (d_elapsed r) = r_calls (d_res r) /\
  forall j, (S j < r_calls (d_res r))%nat ->
    nth j (d_elapsed r) 0 + d <= nth (S j) (d_elapsed r) 0.
Proof.
  intros t_start t_inv t_arm t_fire t_end d n ok H1 H2 H3.
  eexists. split; [apply retry_delay_eq_spec|]. unfold timed_of. cbn [d_elapsed d_res].
  set (c := r_calls (retry_spec false n ok)). split.
  - unfold elapsed_upto. now rewrite map_length, seq_length.
  - intros j Hj. unfold elapsed_upto.
    set (f := fun j0 : nat => t_inv j0 - t_start).
    rewrite !nth_indep with (d := 0) (d' := f 0%nat) by (rewrite map_length, seq_length; lia).
    rewrite !map_nth, !seq_nth by lia. subst f. cbn beta.
    pose proof (gap_one t_inv t_arm t_fire d H1 H2 H3 j). cbn [Nat.add]. lia.
Qed.
Print Assumptions C18_retry_delay_gap.

(* non-vacuity of the timer hypotheses, and a run under them *)
Example C18_retry_delay_gap_nonvacuous :
  let t_inv := fun j : nat => 10 * Z.of_nat j in
  let t_arm := fun j : nat => 10 * Z.of_nat j + 1 in
  let t_fire := fun j : nat => 10 * Z.of_nat j + 7 in
  (forall j, t_inv j <= t_arm j) /\ (forall j, t_arm j + 5 <= t_fire j) /\ (forall j, t_fire j <= t_inv (S j)) /\
  option_map d_elapsed (retry_delay 0 t_inv t_arm t_fire 99 4 (fun k => Nat.eqb k 2)) = Some [0; 10; 20].
Proof. cbn zeta. repeat split; intros; try lia. Qed.
