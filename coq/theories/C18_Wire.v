(* C18_Wire.v — wire glue for C18 (no proofs; exercised by the correspondence).

   input (mirror of harness/c18.go):
     1 n m                       After:  m calls on a counter starting at n
     2 def n m  rs               Before: cache.New(def, 0), counter n, m calls, callback results rs (enc_zs)
     3 def m  rs                 Once:   cache.New(def, 0), m calls
     4 n input  pat              Retry(n) with Input = input; pat (enc_zs of 0/1): invocation k succeeds iff pat[k] = 1
     5 n d_ms input  pat         RetryWithDelay(n, d_ms milliseconds)
     6 def nA nB  rs  ops        mixed history on ONE cache: ops (enc_zs) 0 = Before(&A), 1 = Before(&B), 2 = Once,
                                 3 = Delete("func")
   The callback's k-th invocation returns rs[k] (0 beyond the list) / fails
   with error number k+1 unless pat[k] = 1 (fails beyond the list).

   observation:
     1:  enc_zs (invocations made by each call) ++ [final *n]
     2:  outs ++ [final *n] ++ final Get("func") as [present; value]
     3:  outs ++ final Get("func")
     6:  outs ++ [final A; final B] ++ final Get("func")
         outs = number of calls :: per call [invocations made by it; value returned]
     4:  [invocations; attempts returned; error code; every invocation received Input]
     5:  the same ++ [consecutive invocations >= d apart; elapsed arguments consistent; returned duration >= failures*d]
         error code: 0 nil, -1 Retry's own argument error, k+1 the error of invocation k

   def is the default expiry in ns: the harness uses only 0 (entries never
   expire), -1 (NoExpiration) and 3600e9 (one hour — longer than any run), for
   which every clock comparison comes out as under the constant clock used here. *)

From Gogu Require Import Base C18_Model.
Local Open Scope Z_scope.

Definition clk0 : nat -> Z := fun _ => 0.
Definition fn_of (rs : list Z) : nat -> Z := fun k => nth k rs 0.
Definition ok_of (pat : list Z) : nat -> bool := fun k => negb (nth k pat 0 =? 0).

Definition enc_outs (os : list outcome) : list Z :=
  Z.of_nat (length os) :: flat_map (fun o => [Z.of_nat (fst o); snd o]) os.

Definition enc_get (w : world) : list Z :=
  match fst (c_get clk0 (w_cache w) (w_tick w)) with
  | Some v => [1; v]
  | None => [0; 0]
  end.

Definition rd_count (m : Z) : option nat :=
  if (0 <=? m) && (m <=? 100000) then Some (Z.to_nat m) else None.

Definition mop_of (z : Z) : option mop :=
  match z with
  | 0 => Some MBeforeA
  | 1 => Some MBeforeB
  | 2 => Some MOnce
  | 3 => Some MDelete
  | _ => None
  end.

Fixpoint mops_of (l : list Z) : option (list mop) :=
  match l with
  | [] => Some []
  | z :: l' =>
      match mop_of z, mops_of l' with
      | Some o, Some os => Some (o :: os)
      | _, _ => None
      end
  end.

Definition enc_retry (r : retry_result) : list Z :=
  [Z.of_nat (r_calls r); r_attempts r; r_err r; 1].

Definition c18_run (w : list Z) : list Z :=
  match w with
  | [1; n; m] =>
      match rd_count m with
      | Some m =>
          let '(rs, nf) := after_calls m n in
          enc_zs (map Z.of_nat rs) ++ [nf]
      | None => wire_error
      end
  | 2 :: def :: n :: m :: rest =>
      match rd_count m, rd_zs rest with
      | Some m, Some (rs, []) =>
          let '(os, nf, wf) := before_calls clk0 (fn_of rs) m n (world0 def) in
          enc_outs os ++ [nf] ++ enc_get wf
      | _, _ => wire_error
      end
  | 3 :: def :: m :: rest =>
      match rd_count m, rd_zs rest with
      | Some m, Some (rs, []) =>
          let '(os, wf) := once_calls clk0 (fn_of rs) m (world0 def) in
          enc_outs os ++ enc_get wf
      | _, _ => wire_error
      end
  | 4 :: n :: _ :: rest =>
      match rd_zs rest with
      | Some (pat, []) =>
          match retry n (ok_of pat) with
          | Some r => enc_retry r
          | None => wire_error
          end
      | _ => wire_error
      end
  | 5 :: n :: _ :: _ :: rest =>
      match rd_zs rest with
      | Some (pat, []) =>
          match retry_delay 0 (fun _ => 0) (fun _ => 0) (fun _ => 0) 0 n (ok_of pat) with
          | Some r => enc_retry (d_res r) ++ [1; 1; 1]
          | None => wire_error
          end
      | _ => wire_error
      end
  | 6 :: def :: na :: nb :: rest =>
      match rd_zs rest with
      | Some (rs, rest') =>
          match rd_zs rest' with
          | Some (zops, []) =>
              match mops_of zops with
              | Some ops =>
                  let '(os, sf) := mrun clk0 (fn_of rs) ops (mkM na nb (world0 def)) in
                  enc_outs os ++ [m_a sf; m_b sf] ++ enc_get (m_w sf)
              | None => wire_error
              end
          | _ => wire_error
          end
      | None => wire_error
      end
  | _ => wire_error
  end.

Definition c18_agree (w obs : list Z) : bool := zlist_eqb obs (c18_run w).

(* The property checker judges the observation against the closed-form
   specification of C18_Model.v (after_spec_runs, before_spec, once_spec,
   retry_spec), not against the transcription.  C18_Props proves the two equal
   on the whole domain, so on the repaired tree holds = agree; on a defective
   tree they are computed independently.  Mixed histories (6) have no closed
   form in the property text: there the reference is the transcription itself
   (every single call of it is characterised by C18_before_call_any_state /
   C18_once_call_any_state). *)
Definition enc_final (present : bool) (v : Z) : list Z :=
  if present then [1; v] else [0; 0].

Definition c18_spec (w : list Z) : list Z :=
  match w with
  | [1; n; m] =>
      match rd_count m with
      | Some m => enc_zs (map Z.of_nat (after_spec_runs n m)) ++ [n - Z.of_nat m]
      | None => wire_error
      end
  | 2 :: def :: n :: m :: rest =>
      match rd_count m, rd_zs rest with
      | Some m, Some (rs, []) =>
          enc_outs (before_spec (fn_of rs) n m) ++ [n - Z.of_nat m]
          ++ enc_final ((1 <=? n) && (n <=? Z.of_nat m)) (fn_of rs (Z.to_nat (n - 1)))
      | _, _ => wire_error
      end
  | 3 :: def :: m :: rest =>
      match rd_count m, rd_zs rest with
      | Some m, Some (rs, []) =>
          enc_outs (once_spec (fn_of rs) m) ++ enc_final (negb (Nat.eqb m 0)) (fn_of rs 0%nat)
      | _, _ => wire_error
      end
  | 4 :: n :: _ :: rest =>
      match rd_zs rest with
      | Some (pat, []) => enc_retry (retry_spec true n (ok_of pat))
      | _ => wire_error
      end
  | 5 :: n :: _ :: _ :: rest =>
      match rd_zs rest with
      | Some (pat, []) => enc_retry (retry_spec false n (ok_of pat)) ++ [1; 1; 1]
      | _ => wire_error
      end
  | 6 :: _ => c18_run w
  | _ => wire_error
  end.

Definition c18_holds (w obs : list Z) : bool := zlist_eqb obs (c18_spec w).
