(* C18_Wire.v — wire glue for C18 (no proofs; exercised by the correspondence).

   input (mirror of harness/c18.go):
     1 n m                       After:  m calls on a counter starting at n
     2 def n m  rs               Before: cache.New(def, 0), counter n, m calls, callback results rs (enc_zs)
     3 def m  rs                 Once:   cache.New(def, 0), m calls
     4 n input  pat              Retry(n) with Input = input; pat (enc_zs of 0/1): invocation k succeeds iff pat[k] = 1
     5 n d_ms input  pat         RetryWithDelay(n, d_ms milliseconds)
     6 def nA nB  rs  ops        mixed history on ONE cache: ops (enc_zs) 0 = Before(&A), 1 = Before(&B), 2 = Once,
                                 3 = Delete("func"), 4 = Flush(), 5 = sleep until every stored entry has
                                 expired (time.Sleep of more than def; only for def <= 1s)
     7 n d_ms input  pat  durs   RetryWithDelay(n, d_ms ms) with slow attempts: invocation k takes durs[k] * d/2
     8 code off m                After on an EXTREME counter: n = anchor(code) + off, where anchor is
                                 0: 0, 1: math.MaxInt, 2: math.MinInt, 3: 2^31, 4: -2^31, 5: 2^62, 6: -2^62
                                 (introduced when the line protocol carried 63-bit integers only; kept)
     9 def code off m  rs        Before on an extreme counter
     10 code off input  pat      Retry(n) with an extreme n
     11 n m                      After with a counter of type int8 (-128 <= n <= 127)
     12 def n m  rs              Before with a counter of type int8
   The callback's k-th invocation returns rs[k] (0 beyond the list) / fails
   with error number k+1 unless pat[k] = 1 (fails beyond the list).

   observation:
     1:  enc_zs (invocations made by each call) ++ [final *n]
     2:  outs ++ [final *n] ++ final Get("func") as [present; value]
     3:  outs ++ final Get("func")
     6:  outs ++ [final A; final B] ++ final Get("func")
         outs = number of calls :: per call [invocations made by it; value returned]
     8:  as 1, the final counter as [floor(c / 2^32); c mod 2^32]
     9:  as 2, the final counter in the same two words
     11, 12: as 1, 2
     4, 10:  [invocations; attempts returned; error code; every invocation received Input]
     5:  the same ++ [consecutive invocations >= d apart; elapsed arguments consistent;
                      returned duration >= (invocations - 1) * d]
     7:  the same as 4 ++ [every attempt starts >= d after the previous one RETURNED;
                      consecutive starts >= duration of the earlier attempt + d apart;
                      elapsed arguments consistent with that; returned duration >= the sum of all of it]
         (all of these are lower bounds on measured time: 1 = the bound held)
         error code: 0 nil, -1 Retry's own argument error, k+1 the error of invocation k

   def is the default expiry in ns: the harness uses 0 (entries never expire),
   -1 (NoExpiration), 3600e9 (one hour — longer than any run) and, in histories
   with sleeps, 50e6 (50 ms): the clock of the model stands still except for
   the sleeps, which is how the real clock decides every comparison as long as
   the calls between two sleeps take less than def (the harness measures that
   and re-executes the case otherwise) and a sleep lasts longer than def. *)

From Gogu Require Import Base C18_Model.
Local Open Scope Z_scope.

Definition clk0 : nat -> Z := fun _ => 0.
Definition fn_of (rs : list Z) : nat -> Z := fun k => nth k rs 0.
Definition ok_of (pat : list Z) : nat -> bool := fun k => negb (nth k pat 0 =? 0).

Definition enc_outs (os : list outcome) : list Z :=
  Z.of_nat (length os) :: flat_map (fun o => [Z.of_nat (fst o); snd o]) os.

Definition enc_memo (memo : option Z) : list Z :=
  match memo with
  | Some v => [1; v]
  | None => [0; 0]
  end.

Definition enc_get (skew : Z) (w : world) : list Z :=
  enc_memo (fst (c_get (fun i => clk0 i + skew) (w_cache w) (w_tick w))).

Definition rd_count (m : Z) : option nat :=
  if (0 <=? m) && (m <=? 100000) then Some (Z.to_nat m) else None.

Definition mop_of (def z : Z) : option mop :=
  match z with
  | 0 => Some MBeforeA
  | 1 => Some MBeforeB
  | 2 => Some MOnce
  | 3 => Some MDelete
  | 4 => Some MFlush
  | 5 => if def <=? 1000000000 then Some (MSleep (def + 1)) else None
  | _ => None
  end.

Fixpoint mops_of (def : Z) (l : list Z) : option (list mop) :=
  match l with
  | [] => Some []
  | z :: l' =>
      match mop_of def z, mops_of def l' with
      | Some o, Some os => Some (o :: os)
      | _, _ => None
      end
  end.

Definition enc_retry (r : retry_result) : list Z :=
  [Z.of_nat (r_calls r); r_attempts r; r_err r; 1].

Definition anchor (code : Z) : option Z :=
  match code with
  | 0 => Some 0
  | 1 => Some max64
  | 2 => Some min64
  | 3 => Some 2147483648
  | 4 => Some (-2147483648)
  | 5 => Some 4611686018427387904
  | 6 => Some (-4611686018427387904)
  | _ => None
  end.

Definition in8 (n : Z) : bool := (min8 <=? n) && (n <=? 127).

Definition enc_i64 (c : Z) : list Z := [c / 4294967296; c mod 4294967296].

(* Retry with an n that may be 2^63 - 1: the loop is evaluated with fuel for the
   given pattern (C18_retry_any_fuel: if it finishes, that is Retry's result) *)
Definition retry_fuel_pat (pat : list Z) : nat := S (S (length pat)).

Definition c18_run (w : list Z) : list Z :=
  match w with
  | [1; n; m] =>
      match rd_count m with
      | Some m =>
          let '(rs, nf) := after_calls min64 m n in
          enc_zs (map Z.of_nat rs) ++ [nf]
      | None => wire_error
      end
  | 2 :: def :: n :: m :: rest =>
      match rd_count m, rd_zs rest with
      | Some m, Some (rs, []) =>
          let '(os, nf, wf) := before_calls min64 clk0 (fn_of rs) m n (world0 def) in
          enc_outs os ++ [nf] ++ enc_get 0 wf
      | _, _ => wire_error
      end
  | 3 :: def :: m :: rest =>
      match rd_count m, rd_zs rest with
      | Some m, Some (rs, []) =>
          let '(os, wf) := once_calls clk0 (fn_of rs) m (world0 def) in
          enc_outs os ++ enc_get 0 wf
      | _, _ => wire_error
      end
  | 4 :: n :: _ :: rest =>
      match rd_zs rest with
      | Some (pat, []) =>
          match retry n (ok_of pat) with
          | Some r => enc_retry r
          | None => wire_error
          end
      | _ => wire_error
      end
  | 5 :: n :: _ :: _ :: rest =>
      match rd_zs rest with
      | Some (pat, []) =>
          match retry_delay 0 (fun _ => 0) (fun _ => 0) (fun _ => 0) 0 n (ok_of pat) with
          | Some r => enc_retry (d_res r) ++ [1; 1; 1]
          | None => wire_error
          end
      | _ => wire_error
      end
  | 6 :: def :: na :: nb :: rest =>
      match rd_zs rest with
      | Some (rs, rest') =>
          match rd_zs rest' with
          | Some (zops, []) =>
              match mops_of def zops with
              | Some ops =>
                  let '(os, sf) := mrun min64 clk0 (fn_of rs) ops (mkM na nb 0 (world0 def)) in
                  enc_outs os ++ [m_a sf; m_b sf] ++ enc_get (m_skew sf) (m_w sf)
              | None => wire_error
              end
          | _ => wire_error
          end
      | None => wire_error
      end
  | 7 :: n :: _ :: _ :: rest =>
      match rd_zs rest with
      | Some (pat, rest') =>
          match rd_zs rest' with
          | Some (_, []) =>
              match retry_delay 0 (fun _ => 0) (fun _ => 0) (fun _ => 0) 0 n (ok_of pat) with
              | Some r => enc_retry (d_res r) ++ [1; 1; 1; 1]
              | None => wire_error
              end
          | _ => wire_error
          end
      | None => wire_error
      end
  | [8; code; off; m] =>
      match anchor code, rd_count m with
      | Some a, Some m =>
          let '(rs, nf) := after_calls min64 m (a + off) in
          enc_zs (map Z.of_nat rs) ++ enc_i64 nf
      | _, _ => wire_error
      end
  | 9 :: def :: code :: off :: m :: rest =>
      match anchor code, rd_count m, rd_zs rest with
      | Some a, Some m, Some (rs, []) =>
          let '(os, nf, wf) := before_calls min64 clk0 (fn_of rs) m (a + off) (world0 def) in
          enc_outs os ++ enc_i64 nf ++ enc_get 0 wf
      | _, _, _ => wire_error
      end
  | [11; n; m] =>
      match in8 n, rd_count m with
      | true, Some m =>
          let '(rs, nf) := after_calls min8 m n in
          enc_zs (map Z.of_nat rs) ++ [nf]
      | _, _ => wire_error
      end
  | 12 :: def :: n :: m :: rest =>
      match in8 n, rd_count m, rd_zs rest with
      | true, Some m, Some (rs, []) =>
          let '(os, nf, wf) := before_calls min8 clk0 (fn_of rs) m n (world0 def) in
          enc_outs os ++ [nf] ++ enc_get 0 wf
      | _, _, _ => wire_error
      end
  | 10 :: code :: off :: _ :: rest =>
      match anchor code, rd_zs rest with
      | Some a, Some (pat, []) =>
          match retry_with (retry_fuel_pat pat) (a + off) (ok_of pat) with
          | Some r => enc_retry r
          | None => wire_error
          end
      | _, _ => wire_error
      end
  | _ => wire_error
  end.

Definition c18_agree (w obs : list Z) : bool := zlist_eqb obs (c18_run w).

(* The property checker judges the observation against the closed-form
   specification of C18_Model.v (after_spec_runs, before_spec, once_spec,
   retry_spec), not against the transcription.  C18_Props proves the two equal
   on the whole domain, so on the repaired tree holds = agree; on a defective
   tree they are computed independently.  Mixed histories (6) are judged
   against the clock-free memo-cell machine [srun] (C18_Model.v): Before runs
   iff its own counter is >= 1, Once runs iff the cell is empty, Delete / Flush /
   an out-lasting sleep empty the cell; C18_shared_cache_refines_memo_cell
   proves the transcription equal to it on every such history (the wire's
   sleeps are def + 1, so its hypothesis holds).  The timing flags of 5 and 7
   are lower bounds the property demands; the specification says 1. *)
Definition enc_final (present : bool) (v : Z) : list Z :=
  if present then [1; v] else [0; 0].

Definition c18_spec (w : list Z) : list Z :=
  match w with
  | [1; n; m] =>
      match rd_count m with
      | Some m => enc_zs (map Z.of_nat (after_spec_runs n m)) ++ [Z.max min64 (n - Z.of_nat m)]
      | None => wire_error
      end
  | 2 :: def :: n :: m :: rest =>
      match rd_count m, rd_zs rest with
      | Some m, Some (rs, []) =>
          enc_outs (before_spec (fn_of rs) n m) ++ [Z.max min64 (n - Z.of_nat m)]
          ++ enc_final ((1 <=? n) && (n <=? Z.of_nat m)) (fn_of rs (Z.to_nat (n - 1)))
      | _, _ => wire_error
      end
  | 3 :: def :: m :: rest =>
      match rd_count m, rd_zs rest with
      | Some m, Some (rs, []) =>
          enc_outs (once_spec (fn_of rs) m) ++ enc_final (negb (Nat.eqb m 0)) (fn_of rs 0%nat)
      | _, _ => wire_error
      end
  | 4 :: n :: _ :: rest =>
      match rd_zs rest with
      | Some (pat, []) => enc_retry (retry_spec true n (ok_of pat))
      | _ => wire_error
      end
  | 5 :: n :: _ :: _ :: rest =>
      match rd_zs rest with
      | Some (pat, []) => enc_retry (retry_spec false n (ok_of pat)) ++ [1; 1; 1]
      | _ => wire_error
      end
  | 6 :: def :: na :: nb :: rest =>
      match rd_zs rest with
      | Some (rs, rest') =>
          match rd_zs rest' with
          | Some (zops, []) =>
              match mops_of def zops with
              | Some ops =>
                  let '(os, sf) := srun def (fn_of rs) ops (mkS na nb None 0) in
                  enc_outs os ++ [Z.max min64 (s_a sf); Z.max min64 (s_b sf)] ++ enc_memo (s_memo sf)
              | None => wire_error
              end
          | _ => wire_error
          end
      | None => wire_error
      end
  | 7 :: n :: _ :: _ :: rest =>
      match rd_zs rest with
      | Some (pat, rest') =>
          match rd_zs rest' with
          | Some (_, []) => enc_retry (retry_spec false n (ok_of pat)) ++ [1; 1; 1; 1]
          | _ => wire_error
          end
      | None => wire_error
      end
  (* extreme counters: the closed forms — the counter rests at math.MinInt; one
     that wraps around there (the code as shipped before ddacf7d) fails here *)
  | [8; code; off; m] =>
      match anchor code, rd_count m with
      | Some a, Some m =>
          enc_zs (map Z.of_nat (after_spec_runs (a + off) m)) ++ enc_i64 (Z.max min64 (a + off - Z.of_nat m))
      | _, _ => wire_error
      end
  | 9 :: def :: code :: off :: m :: rest =>
      match anchor code, rd_count m, rd_zs rest with
      | Some a, Some m, Some (rs, []) =>
          let n := a + off in
          enc_outs (before_spec (fn_of rs) n m) ++ enc_i64 (Z.max min64 (n - Z.of_nat m))
          ++ (if (1 <=? n) && (n <=? Z.of_nat m) then [1; fn_of rs (Z.to_nat (n - 1))] else [0; 0])
      | _, _, _ => wire_error
      end
  (* a counter of type int8: the same closed forms, the counter rests at -128 *)
  | [11; n; m] =>
      match in8 n, rd_count m with
      | true, Some m => enc_zs (map Z.of_nat (after_spec_runs n m)) ++ [Z.max min8 (n - Z.of_nat m)]
      | _, _ => wire_error
      end
  | 12 :: def :: n :: m :: rest =>
      match in8 n, rd_count m, rd_zs rest with
      | true, Some m, Some (rs, []) =>
          enc_outs (before_spec (fn_of rs) n m) ++ [Z.max min8 (n - Z.of_nat m)]
          ++ (if (1 <=? n) && (n <=? Z.of_nat m) then [1; fn_of rs (Z.to_nat (n - 1))] else [0; 0])
      | _, _, _ => wire_error
      end
  (* the closed form of Retry without counting up to n (C18_retry_first_success_any_n) *)
  | 10 :: code :: off :: _ :: rest =>
      match anchor code, rd_zs rest with
      | Some a, Some (pat, []) =>
          let n := a + off in
          if n <? 0 then enc_retry (mkRetry 0 err_arg 0)
          else match first_ok (ok_of pat) (length pat) with
               | Some f =>
                   if Z.of_nat f <? n then enc_retry (mkRetry (Z.of_nat f) 0 (S f))
                   else enc_retry (retry_spec true n (ok_of pat))
               | None =>
                   if n <=? Z.of_nat (length pat) + 1 then enc_retry (retry_spec true n (ok_of pat))
                   else wire_error
               end
      | _, _ => wire_error
      end
  | _ => wire_error
  end.

Definition c18_holds (w obs : list Z) : bool := zlist_eqb obs (c18_spec w).
