(* C19_Model.v — list/slist.go and list/dlist.go over the node heap of Mem.v.

   The list struct EMBEDS its head node by value, so the list is the node at
   address 0.  Transcription rules (one Go statement = one line):

     x := l.Node        (address of x never taken)    x <- ld m 0          (a local copy)
     x := l.Node        (&x taken / escapes)          a := fresh m; m' := alloc m (copy)
     p := &l.Node                                     the address 0
     l.Node = *p                                      store m 0 (load m p)
     p.next = q                                       upd m p (set_next q)
     for ... { p = p.next }                           a fuel loop; fuel = fuel_of m = S (length m)

   A node returned by value through [return &node] (DList.Shift/Pop) is a fresh
   variable nobody else references: the model returns its CONTENT and does not
   allocate it (handles in C19 come from Find only).

   DList is transcribed from the code AFTER the four repairs of
   fixes/builder-c19 (Unshift, InsertBefore at the head, Delete of the head,
   Shift re-point the [prev] fields of the nodes they copy/move); the code
   before the repairs is kept in [Module Orig] for the refutation witnesses of
   C19_Props.v.  No proofs in this file. *)

From Gogu Require Import Base Mem.
Local Open Scope nat_scope.

Definition new_node (v : Z) : node := mkNode v None None.
Definition zero_node : node := mkNode 0%Z None None.

(* error kinds (0 = nil error) *)
Definition e_ok : Z := 0%Z.
Definition e_nil : Z := 1%Z.       (* "the provided/previous node does not exists" *)
Definition e_notfound : Z := 2%Z.  (* "the node to be deleted does not exists", "requested node does not exists" *)
Definition e_only : Z := 3%Z.      (* "cannot remove the node if there is only one element" *)

(* ====================================================================== *)
(* loops shared by both list types (the Go text is the same in both files) *)
(* ====================================================================== *)

(* for n := &l.Node; n != nil; n = n.next { if n.Value == val { return n } } *)
Fixpoint find_loop (fuel : nat) (m : mem) (n : option addr) (v : Z) : outcome (option addr) :=
  match fuel with
  | O => Hang
  | S f =>
      match n with
      | None => Done None
      | Some a =>
          nd <- ld m a ;;
          if (val nd =? v)%Z then Done (Some a) else find_loop f m (next nd) v
      end
  end.

(* for head.next != nil { head = head.next }       (Append) *)
Fixpoint walk_last (fuel : nat) (m : mem) (head : addr) : outcome addr :=
  match fuel with
  | O => Hang
  | S f =>
      h <- ld m head ;;
      match next h with
      | None => Done head
      | Some b => walk_last f m b
      end
  end.

(* for { fn(l.Value); if head.next == nil { break }; l.Node = *head.next }     (Each; head = &l.Node) *)
Fixpoint each_loop (fuel : nat) (m : mem) (acc : list Z) : outcome (list Z * mem) :=
  match fuel with
  | O => Hang
  | S f =>
      h <- ld m 0 ;;
      let acc' := acc ++ [val h] in
      match next h with
      | None => Done (acc', m)
      | Some b => nb <- ld m b ;; each_loop f (store m 0 nb) acc'
      end
  end.

(* for { if head.next == nil { if head.Value == old { head.Value = new; break }; return err }
         if head.Value == old { head.Value = new; break }; head = head.next }      (Replace) *)
Fixpoint replace_loop (fuel : nat) (m : mem) (head : addr) (oldv newv : Z) : outcome (mem * Z) :=
  match fuel with
  | O => Hang
  | S f =>
      h <- ld m head ;;
      match next h with
      | None =>
          if (val h =? oldv)%Z then Done (store m head (set_val h newv), e_ok)
          else Done (m, e_notfound)
      | Some b =>
          if (val h =? oldv)%Z then Done (store m head (set_val h newv), e_ok)
          else replace_loop f m b oldv newv
      end
  end.

(* tmp := head; for tmp.next.next != nil { tmp = tmp.next }       (Pop, list of >= 2 nodes);
   the DList version also keeps [node = *tmp] for its return value *)
Fixpoint pop_loop (fuel : nat) (m : mem) (tmp : addr) : outcome addr :=
  match fuel with
  | O => Hang
  | S f =>
      t <- ld m tmp ;;
      '(b, nb) <- deref m (next t) ;;        (* tmp.next.next: faults if tmp.next is nil *)
      match next nb with
      | None => Done tmp
      | Some _ => pop_loop f m b
      end
  end.

(* ====================================================================== *)
(* list/slist.go                                                          *)
(* ====================================================================== *)

(* Init: &SList[T]{*newNode(value)} *)
Definition sl_init (v : Z) : mem := [new_node v].

(* Find *)
Definition sl_find (m : mem) (v : Z) : outcome (mem * option addr) :=
  head <- ld m 0 ;;                                   (* head := l.SingleNode          (local copy) *)
  r <- find_loop (fuel_of m) m (Some 0) v ;;          (* the loop; both exits do ...                *)
  Done (store m 0 head, r).                           (* l.SingleNode = head                        *)

(* Unshift *)
Definition sl_unshift (m : mem) (v : Z) : outcome mem :=
  let nn := fresh m in let m1 := alloc m (new_node v) in      (* newNode := newNode(value)      *)
  h <- ld m1 0 ;;
  let fn := fresh m1 in let m2 := alloc m1 h in               (* firstNode := l.SingleNode (&firstNode escapes) *)
  m3 <- upd m2 nn (fun n => set_next n (Some fn)) ;;          (* newNode.next = &firstNode      *)
  n' <- ld m3 nn ;;
  Done (store m3 0 n').                                       (* l.SingleNode = *newNode        *)

(* Append *)
Definition sl_append (m : mem) (v : Z) : outcome mem :=
  let nn := fresh m in let m1 := alloc m (new_node v) in      (* newNode := newNode(value)      *)
  l0 <- ld m1 0 ;;                                            (* head := &l.SingleNode          *)
  let m2 := match next l0 with None => store m1 0 l0 | Some _ => m1 end in   (* if l.next == nil { l.SingleNode = *head } *)
  last <- walk_last (fuel_of m2) m2 0 ;;                      (* for head.next != nil { head = head.next } *)
  m3 <- upd m2 last (fun n => set_next n (Some nn)) ;;        (* head.next = newNode            *)
  upd m3 nn (fun n => set_next n None).                       (* newNode.next = nil             *)

(* InsertAfter *)
Definition sl_insert_after (m : mem) (prv : option addr) (v : Z) : outcome (mem * Z) :=
  match prv with
  | None => Done (m, e_nil)                                   (* if prev == nil { return err }  *)
  | Some p =>
      pn <- ld m p ;;                                         (* prev.Value                     *)
      '(m1, r) <- sl_find m (val pn) ;;
      match r with
      | None => Done (m1, e_notfound)                         (* if !found { return err }       *)
      | Some _ =>
          let nn := fresh m1 in let m2 := alloc m1 (new_node v) in   (* newNode := newNode(value) *)
          pn' <- ld m2 p ;;
          m3 <- upd m2 nn (fun n => set_next n (next pn')) ;; (* newNode.next = prev.next       *)
          m4 <- upd m3 p (fun n => set_next n (Some nn)) ;;   (* prev.next = newNode            *)
          Done (m4, e_ok)
      end
  end.

(* Replace *)
Definition sl_replace (m : mem) (oldv newv : Z) : outcome (mem * Z) :=
  replace_loop (fuel_of m) m 0 oldv newv.

(* Pop *)
Definition sl_pop (m : mem) : outcome mem :=
  h <- ld m 0 ;;                                              (* head := &l.SingleNode          *)
  match next h with
  | None => Done m                                            (* head = nil  (a local)          *)
  | Some _ =>
      tmp <- pop_loop (fuel_of m) m 0 ;;
      upd m tmp (fun n => set_next n None)                    (* tmp.next = nil                 *)
  end.

(* for head.next != nil && head != node { prev = *head; head = head.next }      (Delete) *)
Fixpoint sl_del_loop (fuel : nat) (m : mem) (nd : addr) (pv : node) (head : addr) : outcome (node * addr) :=
  match fuel with
  | O => Hang
  | S f =>
      h <- ld m head ;;
      match next h with
      | None => Done (pv, head)
      | Some b => if head =? nd then Done (pv, head) else sl_del_loop f m nd h b
      end
  end.

(* Delete *)
Definition sl_delete (m : mem) (node : option addr) : outcome (mem * Z) :=
  '(nd, nn) <- deref m node ;;                                (* node.Value: nil faults         *)
  '(m1, r) <- sl_find m (val nn) ;;
  match r with
  | None => Done (m1, e_notfound)
  | Some _ =>
      if 0 =? nd then                                         (* if head == node                *)
        h <- ld m1 0 ;;
        match next h with
        | None => Done (m1, e_only)                           (*   if head.next == nil { return err } *)
        | Some b => nb <- ld m1 b ;; Done (store m1 0 nb, e_ok)   (*   l.SingleNode = *head.next *)
        end
      else
        '(pv, head) <- sl_del_loop (fuel_of m1) m1 nd zero_node 0 ;;   (* prev := SingleNode[T]{}; loop *)
        h <- ld m1 head ;;
        match next h with
        | None => m2 <- sl_pop m1 ;; Done (m2, e_ok)          (* if head.next == nil { l.Pop(); return nil } *)
        | Some b =>
            nb <- ld m1 b ;;                                  (* *head.next                     *)
            '(t, _) <- deref m1 (next pv) ;;                  (* *prev.next = ...               *)
            Done (store m1 t nb, e_ok)
        end
  end.

(* Shift *)
Definition sl_shift (m : mem) : outcome mem :=
  h <- ld m 0 ;;
  match next h with
  | None => Done m
  | Some b => nb <- ld m b ;; Done (store m 0 nb)             (* head = head.next; l.SingleNode = *head *)
  end.

(* Each: returns the values passed to the callback, in call order *)
Definition sl_each (m : mem) : outcome (list Z * mem) :=
  node <- ld m 0 ;;                                           (* node := l.SingleNode (local copy) *)
  '(vs, m1) <- each_loop (fuel_of m) m [] ;;
  Done (vs, store m1 0 node).                                 (* l.SingleNode = node            *)

(* ====================================================================== *)
(* list/dlist.go (after the repairs)                                       *)
(* ====================================================================== *)

Definition dl_init (v : Z) : mem := [new_node v].

(* Find: head := &l.DoubleNode is a POINTER here, so [l.DoubleNode = *head] is a self-assignment *)
Definition dl_find (m : mem) (v : Z) : outcome (mem * option addr) :=
  r <- find_loop (fuel_of m) m (Some 0) v ;;
  h <- ld m 0 ;;
  Done (store m 0 h, r).                                      (* l.DoubleNode = *head           *)

(* Unshift (repaired: the copy's prev and the old second node's prev are re-pointed;
   the dead store [l.prev = newNode] is gone) *)
Definition dl_unshift (m : mem) (v : Z) : outcome mem :=
  let nn := fresh m in let m1 := alloc m (new_node v) in      (* newNode := newDNode(value)     *)
  h <- ld m1 0 ;;
  let hd := fresh m1 in let m2 := alloc m1 h in               (* head := l.DoubleNode (&head escapes) *)
  m3 <- upd m2 nn (fun n => set_next n (Some hd)) ;;          (* newNode.next = &head           *)
  m4 <- upd m3 hd (fun n => set_prev n (Some 0)) ;;           (* head.prev = &l.DoubleNode      *)
  h' <- ld m4 hd ;;
  m5 <- match next h' with                                    (* if head.next != nil { head.next.prev = &head } *)
        | None => Done m4
        | Some b => upd m4 b (fun n => set_prev n (Some hd))
        end ;;
  n' <- ld m5 nn ;;
  Done (store m5 0 n').                                       (* l.DoubleNode = *newNode        *)

(* Append *)
Definition dl_append (m : mem) (v : Z) : outcome mem :=
  let nn := fresh m in let m1 := alloc m (new_node v) in      (* newNode := newDNode(value)     *)
  l0 <- ld m1 0 ;;                                            (* head := &l.DoubleNode          *)
  let m2 := match next l0 with None => store m1 0 l0 | Some _ => m1 end in   (* if l.next == nil { l.DoubleNode = *head } *)
  last <- walk_last (fuel_of m2) m2 0 ;;
  ln <- ld m2 last ;;
  m3 <- upd m2 nn (fun n => set_next n (next ln)) ;;          (* newNode.next = head.next       *)
  m4 <- upd m3 last (fun n => set_next n (Some nn)) ;;        (* head.next = newNode            *)
  upd m4 nn (fun n => set_prev n (Some last)).                (* newNode.prev = head            *)

(* InsertBefore (repaired in the else branch) *)
Definition dl_insert_before (m : mem) (node : option addr) (v : Z) : outcome (mem * Z) :=
  h <- ld m 0 ;;
  let hd := fresh m in let m0 := alloc m h in                 (* head := l.DoubleNode (&head escapes) *)
  match node with
  | None => Done (m0, e_nil)
  | Some nd =>
      ndn <- ld m0 nd ;;
      '(m1, r) <- dl_find m0 (val ndn) ;;
      match r with
      | None => Done (m1, e_notfound)
      | Some _ =>
          let nn := fresh m1 in let m2 := alloc m1 (new_node v) in   (* newNode := newDNode(value) *)
          ndn' <- ld m2 nd ;;
          m3 <- upd m2 nn (fun n => set_prev n (prev ndn')) ;;       (* newNode.prev = node.prev   *)
          m4 <- upd m3 nd (fun n => set_prev n (Some nn)) ;;         (* node.prev = newNode        *)
          m5 <- upd m4 nn (fun n => set_next n (Some nd)) ;;         (* newNode.next = node        *)
          n5 <- ld m5 nn ;;
          match prev n5 with
          | Some p =>                                                (* if newNode.prev != nil     *)
              m6 <- upd m5 p (fun n => set_next n (Some nn)) ;;      (*   newNode.prev.next = newNode *)
              Done (m6, e_ok)
          | None =>
              m6 <- upd m5 nn (fun n => set_next n (Some hd)) ;;     (*   newNode.next = &head     *)
              m7 <- upd m6 hd (fun n => set_prev n (Some 0)) ;;      (*   head.prev = &l.DoubleNode *)
              h7 <- ld m7 hd ;;
              m8 <- match next h7 with                               (*   if head.next != nil { head.next.prev = &head } *)
                    | None => Done m7
                    | Some b => upd m7 b (fun n => set_prev n (Some hd))
                    end ;;
              n8 <- ld m8 nn ;;
              Done (store m8 0 n8, e_ok)                             (*   l.DoubleNode = *newNode  *)
          end
      end
  end.

(* InsertAfter *)
Definition dl_insert_after (m : mem) (node : option addr) (v : Z) : outcome (mem * Z) :=
  match node with
  | None => Done (m, e_nil)
  | Some nd =>
      ndn <- ld m nd ;;
      '(m1, r) <- dl_find m (val ndn) ;;
      match r with
      | None => Done (m1, e_notfound)
      | Some _ =>
          let nn := fresh m1 in let m2 := alloc m1 (new_node v) in   (* newNode := newDNode(value) *)
          ndn' <- ld m2 nd ;;
          m3 <- upd m2 nn (fun n => set_next n (next ndn')) ;;       (* newNode.next = node.next   *)
          m4 <- upd m3 nd (fun n => set_next n (Some nn)) ;;         (* node.next = newNode        *)
          m5 <- upd m4 nn (fun n => set_prev n (Some nd)) ;;         (* newNode.prev = node        *)
          n5 <- ld m5 nn ;;
          match next n5 with
          | Some q => m6 <- upd m5 q (fun n => set_prev n (Some nn)) ;; Done (m6, e_ok)   (* newNode.next.prev = newNode *)
          | None => Done (m5, e_ok)
          end
      end
  end.

(* Replace *)
Definition dl_replace (m : mem) (oldv newv : Z) : outcome (mem * Z) :=
  replace_loop (fuel_of m) m 0 oldv newv.

(* Delete (repaired in the head branch) *)
Definition dl_delete (m : mem) (node : option addr) : outcome (mem * Z) :=
  '(nd, ndn) <- deref m node ;;                                (* node.Value: nil faults        *)
  '(m1, r) <- dl_find m (val ndn) ;;
  match r with
  | None => Done (m1, e_notfound)
  | Some _ =>
      h <- ld m1 0 ;;
      match next h, prev h with
      | None, None => Done (m1, e_only)                        (* if head.next == nil && head.prev == nil *)
      | _, _ =>
          ndn1 <- ld m1 nd ;;
          if (val h =? val ndn1)%Z then                        (* if head.Value == node.Value   *)
            '(_, nb) <- deref m1 (next h) ;;
            let m2 := store m1 0 nb in                         (*   l.DoubleNode = *head.next   *)
            m3 <- upd m2 0 (fun n => set_prev n None) ;;       (*   l.prev = nil                *)
            h3 <- ld m3 0 ;;
            m4 <- match next h3 with                           (*   if l.next != nil { l.next.prev = head } *)
                  | None => Done m3
                  | Some c => upd m3 c (fun n => set_prev n (Some 0))
                  end ;;
            Done (m4, e_ok)
          else
            m2 <- match next ndn1 with                         (* if node.next != nil { node.next.prev = node.prev } *)
                  | None => Done m1
                  | Some c => upd m1 c (fun n => set_prev n (prev ndn1))
                  end ;;
            ndn2 <- ld m2 nd ;;
            m3 <- match prev ndn2 with                         (* if node.prev != nil { node.prev.next = node.next } *)
                  | None => Done m2
                  | Some p => upd m2 p (fun n => set_next n (next ndn2))
                  end ;;
            Done (m3, e_ok)
      end
  end.

(* Shift (repaired in the else branch); returns the content of the returned node *)
Definition dl_shift (m : mem) : outcome (mem * node) :=
  nod <- ld m 0 ;;                                             (* node := l.DoubleNode          *)
  match next nod with
  | None =>
      m1 <- upd m 0 (fun n => set_next n None) ;;              (* head.next = nil               *)
      m2 <- upd m1 0 (fun n => set_prev n None) ;;             (* head.prev = nil               *)
      m3 <- upd m2 0 (fun n => set_val n 0%Z) ;;               (* head.Value = value (zero)     *)
      h <- ld m3 0 ;;
      Done (store m3 0 h, nod)                                 (* l.DoubleNode = *head          *)
  | Some b =>
      nb <- ld m b ;;
      let m1 := store m 0 nb in                                (* head = head.next; l.DoubleNode = *head *)
      m2 <- upd m1 0 (fun n => set_prev n None) ;;             (* l.prev = nil                  *)
      h2 <- ld m2 0 ;;
      m3 <- match next h2 with                                 (* if l.next != nil { l.next.prev = &l.DoubleNode } *)
            | None => Done m2
            | Some c => upd m2 c (fun n => set_prev n (Some 0))
            end ;;
      Done (m3, nod)
  end.

(* the DList Pop loop also copies [node = *tmp] *)
Fixpoint dl_pop_loop (fuel : nat) (m : mem) (tmp : addr) (nod : node) : outcome (addr * node) :=
  match fuel with
  | O => Hang
  | S f =>
      t <- ld m tmp ;;
      '(b, nb) <- deref m (next t) ;;
      match next nb with
      | None => Done (tmp, nod)
      | Some _ => dl_pop_loop f m b nb                         (* tmp = tmp.next; node = *tmp   *)
      end
  end.

(* Pop; returns the content of the returned node (the one BELOW the removed
   node — relied upon by stack.LStack, see C06) *)
Definition dl_pop (m : mem) : outcome (mem * node) :=
  h <- ld m 0 ;;
  match next h with
  | None => Done (m, zero_node)                                (* head = nil; return &DoubleNode{} *)
  | Some _ =>
      '(tmp, nod) <- dl_pop_loop (fuel_of m) m 0 h ;;          (* tmp := head; node = *tmp; loop *)
      m1 <- upd m tmp (fun n => set_next n None) ;;            (* tmp.next = nil                *)
      Done (m1, nod)
  end.

(* First *)
Definition dl_first (m : mem) : outcome Z :=
  head <- ld m 0 ;; Done (val head).

(* for l.DoubleNode.next != nil { l.DoubleNode = *l.DoubleNode.next }      (Last) *)
Fixpoint last_loop (fuel : nat) (m : mem) : outcome mem :=
  match fuel with
  | O => Hang
  | S f =>
      h <- ld m 0 ;;
      match next h with
      | None => Done m
      | Some b => nb <- ld m b ;; last_loop f (store m 0 nb)
      end
  end.

(* Last *)
Definition dl_last (m : mem) : outcome (Z * mem) :=
  head <- ld m 0 ;;                                            (* head := l.DoubleNode (local copy) *)
  m1 <- last_loop (fuel_of m) m ;;
  h <- ld m1 0 ;;                                              (* value = l.DoubleNode.Value    *)
  Done (val h, store m1 0 head).                               (* l.DoubleNode = head           *)

(* Each *)
Definition dl_each (m : mem) : outcome (list Z * mem) :=
  node <- ld m 0 ;;
  '(vs, m1) <- each_loop (fuel_of m) m [] ;;
  Done (vs, store m1 0 node).

(* Clear *)
Definition dl_clear (m : mem) : outcome mem :=
  m1 <- upd m 0 (fun n => set_next n None) ;;
  upd m1 0 (fun n => set_prev n None).

(* ====================================================================== *)
(* list/dlist.go BEFORE the repairs (the four methods that were changed)   *)
(* ====================================================================== *)

Module Orig.

Definition dl_unshift (m : mem) (v : Z) : outcome mem :=
  let nn := fresh m in let m1 := alloc m (new_node v) in      (* newNode := newDNode(value)     *)
  h <- ld m1 0 ;;
  let hd := fresh m1 in let m2 := alloc m1 h in               (* head := l.DoubleNode           *)
  m3 <- upd m2 nn (fun n => set_next n (Some hd)) ;;          (* newNode.next = &head           *)
  m4 <- upd m3 0 (fun n => set_prev n (Some nn)) ;;           (* l.prev = newNode               *)
  n' <- ld m4 nn ;;
  Done (store m4 0 n').                                       (* l.DoubleNode = *newNode        *)

Definition dl_insert_before (m : mem) (node : option addr) (v : Z) : outcome (mem * Z) :=
  h <- ld m 0 ;;
  let hd := fresh m in let m0 := alloc m h in
  match node with
  | None => Done (m0, e_nil)
  | Some nd =>
      ndn <- ld m0 nd ;;
      '(m1, r) <- dl_find m0 (val ndn) ;;
      match r with
      | None => Done (m1, e_notfound)
      | Some _ =>
          let nn := fresh m1 in let m2 := alloc m1 (new_node v) in
          ndn' <- ld m2 nd ;;
          m3 <- upd m2 nn (fun n => set_prev n (prev ndn')) ;;
          m4 <- upd m3 nd (fun n => set_prev n (Some nn)) ;;
          m5 <- upd m4 nn (fun n => set_next n (Some nd)) ;;
          n5 <- ld m5 nn ;;
          match prev n5 with
          | Some p =>
              m6 <- upd m5 p (fun n => set_next n (Some nn)) ;;
              Done (m6, e_ok)
          | None =>
              m6 <- upd m5 nn (fun n => set_next n (Some hd)) ;;
              n6 <- ld m6 nn ;;
              Done (store m6 0 n6, e_ok)
          end
      end
  end.

Definition dl_delete (m : mem) (node : option addr) : outcome (mem * Z) :=
  '(nd, ndn) <- deref m node ;;
  '(m1, r) <- dl_find m (val ndn) ;;
  match r with
  | None => Done (m1, e_notfound)
  | Some _ =>
      h <- ld m1 0 ;;
      match next h, prev h with
      | None, None => Done (m1, e_only)
      | _, _ =>
          ndn1 <- ld m1 nd ;;
          if (val h =? val ndn1)%Z then
            '(_, nb) <- deref m1 (next h) ;;
            Done (store m1 0 nb, e_ok)                         (* l.DoubleNode = *head.next     *)
          else
            m2 <- match next ndn1 with
                  | None => Done m1
                  | Some c => upd m1 c (fun n => set_prev n (prev ndn1))
                  end ;;
            ndn2 <- ld m2 nd ;;
            m3 <- match prev ndn2 with
                  | None => Done m2
                  | Some p => upd m2 p (fun n => set_next n (next ndn2))
                  end ;;
            Done (m3, e_ok)
      end
  end.

Definition dl_shift (m : mem) : outcome (mem * node) :=
  nod <- ld m 0 ;;
  match next nod with
  | None =>
      m1 <- upd m 0 (fun n => set_next n None) ;;
      m2 <- upd m1 0 (fun n => set_prev n None) ;;
      m3 <- upd m2 0 (fun n => set_val n 0%Z) ;;
      h <- ld m3 0 ;;
      Done (store m3 0 h, nod)
  | Some b =>
      nb <- ld m b ;;
      Done (store m 0 nb, nod)                                 (* head = head.next; l.DoubleNode = *head *)
  end.

End Orig.

(* ====================================================================== *)
(* histories: the operations the harness drives, handles by Find           *)
(* ====================================================================== *)

Inductive kind := KS | KD.          (* SList | DList *)

Inductive op :=
| Unshift (v : Z)
| Append (v : Z)
| InsertAfter (a v : Z)     (* n, _ := l.Find(a); l.InsertAfter(n, v)  *)
| InsertBefore (a v : Z)    (* n, _ := l.Find(a); l.InsertBefore(n, v)   (DList) *)
| Replace (a v : Z)
| Delete (a : Z)            (* n, ok := l.Find(a); if ok { l.Delete(n) } *)
| Shift
| Pop
| FindOp (a : Z)
| First                     (* DList *)
| Last                      (* DList *)
| Clear.                    (* DList *)

(* what one call returns, projected *)
Inductive ret :=
| RVoid
| RErr (k : Z)              (* the returned error, 0 = nil *)
| RFound (b : bool)
| RVal (v : Z)
| RSkip                     (* Delete not called: Find found no node *)
| RUnsup.                   (* the list type has no such method: nothing is called *)

(* the four methods that differ between the repaired and the original code *)
Record dl_impl := {
  i_unshift : mem -> Z -> outcome mem;
  i_insert_before : mem -> option addr -> Z -> outcome (mem * Z);
  i_delete : mem -> option addr -> outcome (mem * Z);
  i_shift : mem -> outcome (mem * node)
}.
Definition impl_fixed : dl_impl := Build_dl_impl dl_unshift dl_insert_before dl_delete dl_shift.
Definition impl_orig : dl_impl := Build_dl_impl Orig.dl_unshift Orig.dl_insert_before Orig.dl_delete Orig.dl_shift.

Definition sl_step (m : mem) (o : op) : outcome (mem * ret) :=
  match o with
  | Unshift v => m' <- sl_unshift m v ;; Done (m', RVoid)
  | Append v => m' <- sl_append m v ;; Done (m', RVoid)
  | InsertAfter a v =>
      '(m1, h) <- sl_find m a ;;
      '(m2, e) <- sl_insert_after m1 h v ;; Done (m2, RErr e)
  | Replace a v => '(m', e) <- sl_replace m a v ;; Done (m', RErr e)
  | Delete a =>
      '(m1, h) <- sl_find m a ;;
      match h with
      | None => Done (m1, RSkip)
      | Some _ => '(m2, e) <- sl_delete m1 h ;; Done (m2, RErr e)
      end
  | Shift => m' <- sl_shift m ;; Done (m', RVoid)
  | Pop => m' <- sl_pop m ;; Done (m', RVoid)
  | FindOp a => '(m1, h) <- sl_find m a ;; Done (m1, RFound (match h with Some _ => true | None => false end))
  | InsertBefore _ _ | First | Last | Clear => Done (m, RUnsup)
  end.

Definition dl_step_with (I : dl_impl) (m : mem) (o : op) : outcome (mem * ret) :=
  match o with
  | Unshift v => m' <- i_unshift I m v ;; Done (m', RVoid)
  | Append v => m' <- dl_append m v ;; Done (m', RVoid)
  | InsertAfter a v =>
      '(m1, h) <- dl_find m a ;;
      '(m2, e) <- dl_insert_after m1 h v ;; Done (m2, RErr e)
  | InsertBefore a v =>
      '(m1, h) <- dl_find m a ;;
      '(m2, e) <- i_insert_before I m1 h v ;; Done (m2, RErr e)
  | Replace a v => '(m', e) <- dl_replace m a v ;; Done (m', RErr e)
  | Delete a =>
      '(m1, h) <- dl_find m a ;;
      match h with
      | None => Done (m1, RSkip)
      | Some _ => '(m2, e) <- i_delete I m1 h ;; Done (m2, RErr e)
      end
  | Shift => '(m', _) <- i_shift I m ;; Done (m', RVoid)
  | Pop => '(m', _) <- dl_pop m ;; Done (m', RVoid)
  | FindOp a => '(m1, h) <- dl_find m a ;; Done (m1, RFound (match h with Some _ => true | None => false end))
  | First => v <- dl_first m ;; Done (m, RVal v)
  | Last => '(v, m') <- dl_last m ;; Done (m', RVal v)
  | Clear => m' <- dl_clear m ;; Done (m', RVoid)
  end.

Definition dl_step := dl_step_with impl_fixed.

(* what the harness records after every step *)
Inductive obs :=
| OStep (r : ret) (each : list Z) (fl : option (Z * Z))   (* result; Each sequence; First/Last (DList) *)
| OFault                                                    (* a recovered panic: the case ends *)
| OHang.                                                    (* the hang guard fired: the case ends *)

Definition stop {A} (x : outcome A) : list obs :=
  match x with Done _ => [] | Fault => [OFault] | Hang => [OHang] end.

(* after the call: Each, then (DList) First and Last, on the real list *)
Definition sl_observe (m : mem) : outcome (mem * list Z * option (Z * Z)) :=
  '(vs, m1) <- sl_each m ;; Done (m1, vs, None).

Definition dl_observe (m : mem) : outcome (mem * list Z * option (Z * Z)) :=
  '(vs, m1) <- dl_each m ;;
  f <- dl_first m1 ;;
  '(l, m2) <- dl_last m1 ;;
  Done (m2, vs, Some (f, l)).

Section Run.
  Variable step : mem -> op -> outcome (mem * ret).
  Variable observe : mem -> outcome (mem * list Z * option (Z * Z)).

  Fixpoint run_from (m : mem) (ops : list op) : list obs :=
    match ops with
    | [] => []
    | o :: ops' =>
        match step m o with
        | Done (m1, r) =>
            match observe m1 with
            | Done (m2, vs, fl) => OStep r vs fl :: run_from m2 ops'
            | x => stop x
            end
        | x => stop x
        end
    end.
End Run.

Definition run_model (k : kind) (v : Z) (ops : list op) : list obs :=
  match k with
  | KS => run_from sl_step sl_observe (sl_init v) ops
  | KD => run_from dl_step dl_observe (dl_init v) ops
  end.

Definition run_orig (v : Z) (ops : list op) : list obs :=
  run_from (dl_step_with impl_orig) dl_observe (dl_init v) ops.

(* ====================================================================== *)
(* the specification: a plain non-empty list                               *)
(* ====================================================================== *)

Fixpoint mem_z (a : Z) (xs : list Z) : bool :=
  match xs with [] => false | x :: xs' => (x =? a)%Z || mem_z a xs' end.

(* insert v after / before the first occurrence of a *)
Fixpoint ins_after (a v : Z) (xs : list Z) : list Z :=
  match xs with
  | [] => []
  | x :: xs' => if (x =? a)%Z then x :: v :: xs' else x :: ins_after a v xs'
  end.
Fixpoint ins_before (a v : Z) (xs : list Z) : list Z :=
  match xs with
  | [] => []
  | x :: xs' => if (x =? a)%Z then v :: x :: xs' else x :: ins_before a v xs'
  end.
(* replace / remove the first occurrence of a *)
Fixpoint repl_first (a v : Z) (xs : list Z) : list Z :=
  match xs with
  | [] => []
  | x :: xs' => if (x =? a)%Z then v :: xs' else x :: repl_first a v xs'
  end.
Fixpoint remove_first (a : Z) (xs : list Z) : list Z :=
  match xs with
  | [] => []
  | x :: xs' => if (x =? a)%Z then xs' else x :: remove_first a xs'
  end.

Definition more_than_one (xs : list Z) : bool :=
  match xs with _ :: _ :: _ => true | _ => false end.

Definition err_if (b : bool) : ret := RErr (if b then 1%Z else 0%Z).

(* one step of the reference machine: new sequence and the projected result.
   Errors are projected to "nil / non-nil" ([spec_ret] below does the same to
   the model's kinds).  The two choices the property text leaves open are
   spelled out: Shift/Pop on a single element change nothing, except that
   DList.Shift zeroes the only value (DESIGN §7 "not findings"; queue.LQueue
   relies on the returned node, not on this). *)
Definition spec_step (k : kind) (xs : list Z) (o : op) : list Z * ret :=
  match o with
  | Unshift v => (v :: xs, RVoid)
  | Append v => (xs ++ [v], RVoid)
  | InsertAfter a v => if mem_z a xs then (ins_after a v xs, err_if false) else (xs, err_if true)
  | InsertBefore a v =>
      match k with
      | KS => (xs, RUnsup)
      | KD => if mem_z a xs then (ins_before a v xs, err_if false) else (xs, err_if true)
      end
  | Replace a v => if mem_z a xs then (repl_first a v xs, err_if false) else (xs, err_if true)
  | Delete a =>
      if mem_z a xs then
        if more_than_one xs then (remove_first a xs, err_if false) else (xs, err_if true)
      else (xs, RSkip)
  | Shift =>
      if more_than_one xs then (tl xs, RVoid)
      else match k with KS => (xs, RVoid) | KD => ([0%Z], RVoid) end
  | Pop => if more_than_one xs then (removelast xs, RVoid) else (xs, RVoid)
  | FindOp a => (xs, RFound (mem_z a xs))
  | First => match k with KS => (xs, RUnsup) | KD => (xs, RVal (hd 0%Z xs)) end
  | Last => match k with KS => (xs, RUnsup) | KD => (xs, RVal (last xs 0%Z)) end
  | Clear => match k with KS => (xs, RUnsup) | KD => ([hd 0%Z xs], RVoid) end
  end.

Definition spec_fl (k : kind) (xs : list Z) : option (Z * Z) :=
  match k with KS => None | KD => Some (hd 0%Z xs, last xs 0%Z) end.

Fixpoint run_spec_from (k : kind) (xs : list Z) (ops : list op) : list obs :=
  match ops with
  | [] => []
  | o :: ops' =>
      let '(xs', r) := spec_step k xs o in
      OStep r xs' (spec_fl k xs') :: run_spec_from k xs' ops'
  end.

Definition run_spec (k : kind) (v : Z) (ops : list op) : list obs := run_spec_from k [v] ops.

(* projection of error kinds to nil / non-nil, applied to the model's and the
   implementation's results alike *)
Definition proj_ret (r : ret) : ret :=
  match r with
  | RErr k => err_if (negb (k =? 0)%Z)
  | _ => r
  end.
Definition proj_obs (o : obs) : obs :=
  match o with
  | OStep r vs fl => OStep (proj_ret r) vs fl
  | _ => o
  end.

(* the heap reached at the end of a history (None-like outcomes on a panic/hang),
   and the reference machine's final sequence *)
Section Final.
  Variable step : mem -> op -> outcome (mem * ret).
  Variable observe : mem -> outcome (mem * list Z * option (Z * Z)).

  Fixpoint final_from (m : mem) (ops : list op) : outcome mem :=
    match ops with
    | [] => Done m
    | o :: ops' =>
        '(m1, _) <- step m o ;;
        '(m2, _, _) <- observe m1 ;;
        final_from m2 ops'
    end.
End Final.

Definition final_model (k : kind) (v : Z) (ops : list op) : outcome mem :=
  match k with
  | KS => final_from sl_step sl_observe (sl_init v) ops
  | KD => final_from dl_step dl_observe (dl_init v) ops
  end.

Definition spec_final (k : kind) (v : Z) (ops : list op) : list Z :=
  fold_left (fun xs o => fst (spec_step k xs o)) ops [v].

(* ====================================================================== *)
(* checkpointed histories (the "large" stream of the harness)              *)
(* ====================================================================== *)

(* The same steps, but the list is looked at (Each, then First/Last for DList)
   only where the history says so: after a [QDo] only the call's projected
   result is recorded, a [QLook] records what [observe] sees.  Lists of a
   thousand elements are then affordable: the record is linear in the history
   plus the checkpoints, not quadratic. *)
Inductive qop :=
| QDo (o : op)
| QLook.

Inductive qobs :=
| QRes (r : ret)                                  (* the result of one call *)
| QSeen (each : list Z) (fl : option (Z * Z))     (* a checkpoint: Each sequence; First/Last (DList) *)
| QFault
| QHang.

Definition qstop {A} (x : outcome A) : list qobs :=
  match x with Done _ => [] | Fault => [QFault] | Hang => [QHang] end.

Section RunQ.
  Variable step : mem -> op -> outcome (mem * ret).
  Variable observe : mem -> outcome (mem * list Z * option (Z * Z)).

  Fixpoint runq_from (m : mem) (ops : list qop) : list qobs :=
    match ops with
    | [] => []
    | QDo o :: ops' =>
        match step m o with
        | Done (m1, r) => QRes r :: runq_from m1 ops'
        | x => qstop x
        end
    | QLook :: ops' =>
        match observe m with
        | Done (m1, vs, fl) => QSeen vs fl :: runq_from m1 ops'
        | x => qstop x
        end
    end.
End RunQ.

Definition runq_model (k : kind) (v : Z) (ops : list qop) : list qobs :=
  match k with
  | KS => runq_from sl_step sl_observe (sl_init v) ops
  | KD => runq_from dl_step dl_observe (dl_init v) ops
  end.

Fixpoint runq_spec_from (k : kind) (xs : list Z) (ops : list qop) : list qobs :=
  match ops with
  | [] => []
  | QDo o :: ops' => let '(xs', r) := spec_step k xs o in QRes r :: runq_spec_from k xs' ops'
  | QLook :: ops' => QSeen xs (spec_fl k xs) :: runq_spec_from k xs ops'
  end.

Definition runq_spec (k : kind) (v : Z) (ops : list qop) : list qobs := runq_spec_from k [v] ops.

Definition proj_qobs (o : qobs) : qobs :=
  match o with
  | QRes r => QRes (proj_ret r)
  | _ => o
  end.

(* the operations of a checkpointed history, the looks dropped *)
Fixpoint qops_ops (ops : list qop) : list op :=
  match ops with
  | [] => []
  | QDo o :: ops' => o :: qops_ops ops'
  | QLook :: ops' => qops_ops ops'
  end.
