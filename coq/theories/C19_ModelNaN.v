(* C19_ModelNaN.v — list/slist.go and list/dlist.go over element types whose
   `==` is NOT the identity of values:

     float64                 NaN != NaN (not reflexive); +0 == -0 although they
                             are two different values (math.Signbit tells them apart)
     structs / arrays with   the same, field by field
     float fields
     interfaces (any)        the same for a float held in the interface, and a
                             comparison of two values of the same NON-COMPARABLE
                             dynamic type (slices, maps, funcs) PANICS

   The node heap of Mem.v is kept: a cell's [val : Z] is the CODE of an element
   (which element a code stands for is the harness codec's business, see
   [c19eq] at the end for the codes used on the wire).  Go's `==` on the element
   type is a parameter

        eq : Z -> Z -> option bool          None = the comparison panics

   of which the theorems assume only [go_eq] below (symmetric, transitive; a
   value that some comparison found equal to something is never part of a
   panicking comparison).  NOT assumed: reflexivity (an element with
   [eq a a = Some false] — a NaN — is equal to nothing, itself included) and NOT
   assumed: [eq a b = Some true -> a = b] (+0 and -0).

   Only the statements of the Go code that COMPARE ELEMENTS are transcribed
   again, with the comparison written [cmpv (x) (y)] for the Go expression
   `x == y`, operands in the order of the source text:

        Find          n.Value == val               (slist.go:168, dlist.go:239)
        Replace       head.Value == oldVal         (slist.go:87,93, dlist.go:137,143)
        DList.Delete  head.Value == node.Value     (dlist.go:166)
        InsertAfter / InsertBefore / Delete call l.Find(node.Value)

   Everything else — Unshift, Append, Shift, Pop, Each, First, Last, Clear, the
   pointer comparisons `head == node`, `head.next == nil` — compares no element
   and is SHARED with C19_Model.v: those methods do not depend on [eq] at all
   (C19_PropsNaN.C19_nan_edits_that_compare_nothing).  The text after the
   comparison is kept character for character as in C19_Model.v.  At
   [zeq a b := Some (a =? b)] every definition below EQUALS the one of
   C19_Model.v (C19_nan_conservative).  No proofs in this file. *)

From Gogu Require Import Base Mem C19_Model.
Local Open Scope nat_scope.

(* the `==` of the int instance *)
Definition zeq (a b : Z) : option bool := Some (a =? b)%Z.

(* what is assumed of `==` *)
Definition go_eq (eq : Z -> Z -> option bool) : Prop :=
  (forall a b, eq a b = Some true -> eq b a = Some true) /\
  (forall a b c, eq a b = Some true -> eq b c = Some true -> eq a c = Some true) /\
  (forall a b, eq a b = Some true -> forall x, eq x a <> None).

(* a look-up argument whose comparison with anything is defined *)
Definition safe_arg (eq : Z -> Z -> option bool) (a : Z) : Prop := forall x, eq x a <> None.

Section Generic.
Variable eq : Z -> Z -> option bool.

(* the Go expression  x == y  on two element values *)
Definition cmpv (x y : Z) : outcome bool :=
  match eq x y with Some b => Done b | None => Fault end.

(* for n := &l.Node; n != nil; n = n.next { if n.Value == val { return n } } *)
Fixpoint gfind_loop (fuel : nat) (m : mem) (n : option addr) (v : Z) : outcome (option addr) :=
  match fuel with
  | O => Hang
  | S f =>
      match n with
      | None => Done None
      | Some a =>
          nd <- ld m a ;;
          c <- cmpv (val nd) v ;;
          if c then Done (Some a) else gfind_loop f m (next nd) v
      end
  end.

(* Replace's loop *)
Fixpoint greplace_loop (fuel : nat) (m : mem) (head : addr) (oldv newv : Z) : outcome (mem * Z) :=
  match fuel with
  | O => Hang
  | S f =>
      h <- ld m head ;;
      match next h with
      | None =>
          c <- cmpv (val h) oldv ;;
          if c then Done (store m head (set_val h newv), e_ok)
          else Done (m, e_notfound)
      | Some b =>
          c <- cmpv (val h) oldv ;;
          if c then Done (store m head (set_val h newv), e_ok)
          else greplace_loop f m b oldv newv
      end
  end.

(* ---------- list/slist.go ---------- *)

Definition gsl_find (m : mem) (v : Z) : outcome (mem * option addr) :=
  head <- ld m 0 ;;
  r <- gfind_loop (fuel_of m) m (Some 0) v ;;
  Done (store m 0 head, r).

Definition gsl_insert_after (m : mem) (prv : option addr) (v : Z) : outcome (mem * Z) :=
  match prv with
  | None => Done (m, e_nil)
  | Some p =>
      pn <- ld m p ;;
      '(m1, r) <- gsl_find m (val pn) ;;
      match r with
      | None => Done (m1, e_notfound)
      | Some _ =>
          let nn := fresh m1 in let m2 := alloc m1 (new_node v) in
          pn' <- ld m2 p ;;
          m3 <- upd m2 nn (fun n => set_next n (next pn')) ;;
          m4 <- upd m3 p (fun n => set_next n (Some nn)) ;;
          Done (m4, e_ok)
      end
  end.

Definition gsl_replace (m : mem) (oldv newv : Z) : outcome (mem * Z) :=
  greplace_loop (fuel_of m) m 0 oldv newv.

Definition gsl_delete (m : mem) (node : option addr) : outcome (mem * Z) :=
  '(nd, nn) <- deref m node ;;
  '(m1, r) <- gsl_find m (val nn) ;;
  match r with
  | None => Done (m1, e_notfound)
  | Some _ =>
      if 0 =? nd then
        h <- ld m1 0 ;;
        match next h with
        | None => Done (m1, e_only)
        | Some b => nb <- ld m1 b ;; Done (store m1 0 nb, e_ok)
        end
      else
        '(pv, head) <- sl_del_loop (fuel_of m1) m1 nd zero_node 0 ;;
        h <- ld m1 head ;;
        match next h with
        | None => m2 <- sl_pop m1 ;; Done (m2, e_ok)
        | Some b =>
            nb <- ld m1 b ;;
            '(t, _) <- deref m1 (next pv) ;;
            Done (store m1 t nb, e_ok)
        end
  end.

(* ---------- list/dlist.go ---------- *)

Definition gdl_find (m : mem) (v : Z) : outcome (mem * option addr) :=
  r <- gfind_loop (fuel_of m) m (Some 0) v ;;
  h <- ld m 0 ;;
  Done (store m 0 h, r).

Definition gdl_insert_before (m : mem) (node : option addr) (v : Z) : outcome (mem * Z) :=
  h <- ld m 0 ;;
  let hd := fresh m in let m0 := alloc m h in
  match node with
  | None => Done (m0, e_nil)
  | Some nd =>
      ndn <- ld m0 nd ;;
      '(m1, r) <- gdl_find m0 (val ndn) ;;
      match r with
      | None => Done (m1, e_notfound)
      | Some _ =>
          let nn := fresh m1 in let m2 := alloc m1 (new_node v) in
          ndn' <- ld m2 nd ;;
          m3 <- upd m2 nn (fun n => set_prev n (prev ndn')) ;;
          m4 <- upd m3 nd (fun n => set_prev n (Some nn)) ;;
          m5 <- upd m4 nn (fun n => set_next n (Some nd)) ;;
          n5 <- ld m5 nn ;;
          match prev n5 with
          | Some p =>
              m6 <- upd m5 p (fun n => set_next n (Some nn)) ;;
              Done (m6, e_ok)
          | None =>
              m6 <- upd m5 nn (fun n => set_next n (Some hd)) ;;
              m7 <- upd m6 hd (fun n => set_prev n (Some 0)) ;;
              h7 <- ld m7 hd ;;
              m8 <- match next h7 with
                    | None => Done m7
                    | Some b => upd m7 b (fun n => set_prev n (Some hd))
                    end ;;
              n8 <- ld m8 nn ;;
              Done (store m8 0 n8, e_ok)
          end
      end
  end.

Definition gdl_insert_after (m : mem) (node : option addr) (v : Z) : outcome (mem * Z) :=
  match node with
  | None => Done (m, e_nil)
  | Some nd =>
      ndn <- ld m nd ;;
      '(m1, r) <- gdl_find m (val ndn) ;;
      match r with
      | None => Done (m1, e_notfound)
      | Some _ =>
          let nn := fresh m1 in let m2 := alloc m1 (new_node v) in
          ndn' <- ld m2 nd ;;
          m3 <- upd m2 nn (fun n => set_next n (next ndn')) ;;
          m4 <- upd m3 nd (fun n => set_next n (Some nn)) ;;
          m5 <- upd m4 nn (fun n => set_prev n (Some nd)) ;;
          n5 <- ld m5 nn ;;
          match next n5 with
          | Some q => m6 <- upd m5 q (fun n => set_prev n (Some nn)) ;; Done (m6, e_ok)
          | None => Done (m5, e_ok)
          end
      end
  end.

Definition gdl_replace (m : mem) (oldv newv : Z) : outcome (mem * Z) :=
  greplace_loop (fuel_of m) m 0 oldv newv.

Definition gdl_delete (m : mem) (node : option addr) : outcome (mem * Z) :=
  '(nd, ndn) <- deref m node ;;
  '(m1, r) <- gdl_find m (val ndn) ;;
  match r with
  | None => Done (m1, e_notfound)
  | Some _ =>
      h <- ld m1 0 ;;
      match next h, prev h with
      | None, None => Done (m1, e_only)
      | _, _ =>
          ndn1 <- ld m1 nd ;;
          same <- cmpv (val h) (val ndn1) ;;                   (* if head.Value == node.Value   *)
          if same then
            '(_, nb) <- deref m1 (next h) ;;
            let m2 := store m1 0 nb in
            m3 <- upd m2 0 (fun n => set_prev n None) ;;
            h3 <- ld m3 0 ;;
            m4 <- match next h3 with
                  | None => Done m3
                  | Some c => upd m3 c (fun n => set_prev n (Some 0))
                  end ;;
            Done (m4, e_ok)
          else
            m2 <- match next ndn1 with
                  | None => Done m1
                  | Some c => upd m1 c (fun n => set_prev n (prev ndn1))
                  end ;;
            ndn2 <- ld m2 nd ;;
            m3 <- match prev ndn2 with
                  | None => Done m2
                  | Some p => upd m2 p (fun n => set_next n (next ndn2))
                  end ;;
            Done (m3, e_ok)
      end
  end.

(* ---------- the harness steps (handles by Find, as in C19_Model) ---------- *)

Definition gsl_step (m : mem) (o : op) : outcome (mem * ret) :=
  match o with
  | InsertAfter a v =>
      '(m1, h) <- gsl_find m a ;;
      '(m2, e) <- gsl_insert_after m1 h v ;; Done (m2, RErr e)
  | Replace a v => '(m', e) <- gsl_replace m a v ;; Done (m', RErr e)
  | Delete a =>
      '(m1, h) <- gsl_find m a ;;
      match h with
      | None => Done (m1, RSkip)
      | Some _ => '(m2, e) <- gsl_delete m1 h ;; Done (m2, RErr e)
      end
  | FindOp a => '(m1, h) <- gsl_find m a ;; Done (m1, RFound (match h with Some _ => true | None => false end))
  | _ => sl_step m o                       (* no element is compared *)
  end.

Definition gdl_step (m : mem) (o : op) : outcome (mem * ret) :=
  match o with
  | InsertAfter a v =>
      '(m1, h) <- gdl_find m a ;;
      '(m2, e) <- gdl_insert_after m1 h v ;; Done (m2, RErr e)
  | InsertBefore a v =>
      '(m1, h) <- gdl_find m a ;;
      '(m2, e) <- gdl_insert_before m1 h v ;; Done (m2, RErr e)
  | Replace a v => '(m', e) <- gdl_replace m a v ;; Done (m', RErr e)
  | Delete a =>
      '(m1, h) <- gdl_find m a ;;
      match h with
      | None => Done (m1, RSkip)
      | Some _ => '(m2, e) <- gdl_delete m1 h ;; Done (m2, RErr e)
      end
  | FindOp a => '(m1, h) <- gdl_find m a ;; Done (m1, RFound (match h with Some _ => true | None => false end))
  | _ => dl_step m o                       (* no element is compared *)
  end.

Definition grun_model (k : kind) (v : Z) (ops : list op) : list obs :=
  match k with
  | KS => run_from gsl_step sl_observe (sl_init v) ops
  | KD => run_from gdl_step dl_observe (dl_init v) ops
  end.

Definition grunq_model (k : kind) (v : Z) (ops : list qop) : list qobs :=
  match k with
  | KS => runq_from gsl_step sl_observe (sl_init v) ops
  | KD => runq_from gdl_step dl_observe (dl_init v) ops
  end.

Definition gfinal_model (k : kind) (v : Z) (ops : list op) : outcome mem :=
  match k with
  | KS => final_from gsl_step sl_observe (sl_init v) ops
  | KD => final_from gdl_step dl_observe (dl_init v) ops
  end.

(* ====================================================================== *)
(* the specification: a plain non-empty list of elements, `==` as given    *)
(* ====================================================================== *)

(* looking a value up front to back: the FIRST element x with x == a; the
   comparisons before it were all made (and said no); one that panics ends the
   search *)
Inductive split_res :=
| SPanic                                          (* a comparison on the way panics *)
| SAbsent                                         (* no element is == a *)
| SAt (l : list Z) (y : Z) (r : list Z).          (* xs = l ++ y :: r, y the first element == a *)

Fixpoint gsplit (a : Z) (xs : list Z) : split_res :=
  match xs with
  | [] => SAbsent
  | x :: xs' =>
      match eq x a with
      | None => SPanic
      | Some true => SAt [] x xs'
      | Some false =>
          match gsplit a xs' with
          | SAt l y r => SAt (x :: l) y r
          | s => s
          end
      end
  end.

(* one step of the reference machine; None = the `==` of the language panics
   during the look-up the operation is defined by (only possible for a look-up
   argument of a non-comparable dynamic type).  The operations that look nothing
   up are those of C19_Model.spec_step. *)
Definition gspec_step (k : kind) (xs : list Z) (o : op) : option (list Z * ret) :=
  match o with
  | InsertAfter a v =>
      match gsplit a xs with
      | SPanic => None
      | SAbsent => Some (xs, err_if true)
      | SAt l y r => Some (l ++ y :: v :: r, err_if false)
      end
  | InsertBefore a v =>
      match k with
      | KS => Some (xs, RUnsup)
      | KD =>
          match gsplit a xs with
          | SPanic => None
          | SAbsent => Some (xs, err_if true)
          | SAt l y r => Some (l ++ v :: y :: r, err_if false)
          end
      end
  | Replace a v =>
      match gsplit a xs with
      | SPanic => None
      | SAbsent => Some (xs, err_if true)
      | SAt l y r => Some (l ++ v :: r, err_if false)
      end
  | Delete a =>
      match gsplit a xs with
      | SPanic => None
      | SAbsent => Some (xs, RSkip)
      | SAt l y r => if more_than_one xs then Some (l ++ r, err_if false) else Some (xs, err_if true)
      end
  | FindOp a =>
      match gsplit a xs with
      | SPanic => None
      | SAbsent => Some (xs, RFound false)
      | SAt _ _ _ => Some (xs, RFound true)
      end
  | _ => Some (spec_step k xs o)
  end.

Fixpoint grun_spec_from (k : kind) (xs : list Z) (ops : list op) : list obs :=
  match ops with
  | [] => []
  | o :: ops' =>
      match gspec_step k xs o with
      | None => [OFault]
      | Some (xs', r) => OStep r xs' (spec_fl k xs') :: grun_spec_from k xs' ops'
      end
  end.

Definition grun_spec (k : kind) (v : Z) (ops : list op) : list obs := grun_spec_from k [v] ops.

Fixpoint grunq_spec_from (k : kind) (xs : list Z) (ops : list qop) : list qobs :=
  match ops with
  | [] => []
  | QDo o :: ops' =>
      match gspec_step k xs o with
      | None => [QFault]
      | Some (xs', r) => QRes r :: grunq_spec_from k xs' ops'
      end
  | QLook :: ops' => QSeen xs (spec_fl k xs) :: grunq_spec_from k xs ops'
  end.

Definition grunq_spec (k : kind) (v : Z) (ops : list qop) : list qobs := grunq_spec_from k [v] ops.

(* the sequence after a history (the sequence so far when a look-up panicked) *)
Fixpoint gspec_final_from (k : kind) (xs : list Z) (ops : list op) : option (list Z) :=
  match ops with
  | [] => Some xs
  | o :: ops' =>
      match gspec_step k xs o with
      | None => None
      | Some (xs', _) => gspec_final_from k xs' ops'
      end
  end.

(* every look-up argument of the history can be compared with everything *)
Definition op_arg (o : op) : option Z :=
  match o with
  | InsertAfter a _ | InsertBefore a _ | Replace a _ | Delete a | FindOp a => Some a
  | _ => None
  end.
Definition safe_ops (ops : list op) : Prop :=
  forall o a, In o ops -> op_arg o = Some a -> safe_arg eq a.

End Generic.

(* ====================================================================== *)
(* the `==` of the harness instances on element CODES                      *)
(* ====================================================================== *)

(* Codes (mirror: harness/c19nan.go).  Every other integer n is an ordinary
   value, equal to itself only.
     c_nan    a NaN (float64 NaN; struct{X float64; N int}{NaN, 0}; any(NaN))
     c_nz     -0.0 ({-0.0, 0}): == to code 0, the zero value +0.0 ({0, 0})
     c_u1, c_u2   any([]int{1}), any([]int{2}): the same non-comparable dynamic
              type — comparing two of them (or one with itself) panics
     c_u3     any(map[int]int{}): another non-comparable dynamic type *)
Local Open Scope Z_scope.
Definition c_nan : Z := -1000001.
Definition c_nz : Z := -1000002.
Definition c_u1 : Z := -1000011.
Definition c_u2 : Z := -1000012.
Definition c_u3 : Z := -1000013.

Definition is_slice (a : Z) : bool := (a =? c_u1) || (a =? c_u2).
Definition norm_code (a : Z) : Z := if a =? c_nz then 0 else a.

Definition c19eq (a b : Z) : option bool :=
  if (is_slice a && is_slice b) || ((a =? c_u3) && (b =? c_u3)) then None
  else if (a =? c_nan) || (b =? c_nan) then Some false
  else Some (norm_code a =? norm_code b).
