(* C19_Proofs.v — shared lemmas for C19: the representation predicate, the
   loops both list types share, and the list algebra of the reference machine.
   The per-type operation lemmas are in C19_ProofsSList.v / C19_ProofsDList.v,
   the history theorems in C19_ProofsHist.v. *)

From Gogu Require Import Base Mem C19_Model.
Local Open Scope nat_scope.

Arguments load : simpl never.
Arguments store : simpl never.
Arguments alloc : simpl never.
Arguments fresh : simpl never.

(* ====================================================================== *)
(* representation                                                          *)
(* ====================================================================== *)

Definition hd_opt (p : list addr) (e : option addr) : option addr :=
  match p with [] => e | b :: _ => Some b end.

Definition last_opt (p : list addr) (pv : option addr) : option addr :=
  match p with [] => pv | _ => Some (last p 0) end.

(* [pf] says what a node's prev field holds, given its predecessor in the
   chain: the predecessor itself for DList ([pf_d]); always nil for SList
   ([pf_s]: the field does not exist in Go and stays at its initial value). *)
Definition pf_d : option addr -> option addr := fun pv => pv.
Definition pf_s : option addr -> option addr := fun _ => None.

Section Seg.
Variable pf : option addr -> option addr.

(* the cells at addresses [p] hold the values [xs], each cell's next is the
   following address ([e] after the last), each cell's prev is [pf] of the
   preceding address ([pv] before the first) *)
Fixpoint seg (m : mem) (pv : option addr) (p : list addr) (xs : list Z) (e : option addr) : Prop :=
  match p, xs with
  | [], [] => True
  | a :: p', x :: xs' =>
      load m a = Some (mkNode x (hd_opt p' e) (pf pv)) /\ seg m (Some a) p' xs' e
  | _, _ => False
  end.

(* the list struct at address 0 represents the sequence [xs] through the
   acyclic chain of addresses [p] *)
Definition rep (m : mem) (p : list addr) (xs : list Z) : Prop :=
  hd_error p = Some 0 /\ NoDup p /\ seg m None p xs None.

Definition is_seq (m : mem) (xs : list Z) : Prop := exists p, rep m p xs.

Lemma seg_cons m pv a p x xs e :
  seg m pv (a :: p) (x :: xs) e <->
  load m a = Some (mkNode x (hd_opt p e) (pf pv)) /\ seg m (Some a) p xs e.
Proof. reflexivity. Qed.

Lemma seg_length m pv p xs e : seg m pv p xs e -> length p = length xs.
Proof.
  revert pv xs; induction p as [|a p IH]; intros pv [|x xs] H; cbn in *; try tauto.
  destruct H as [_ H]. f_equal. eauto.
Qed.

Lemma seg_frame m m' pv p xs e :
  (forall a, In a p -> load m' a = load m a) -> seg m pv p xs e -> seg m' pv p xs e.
Proof.
  revert pv xs; induction p as [|a p IH]; intros pv [|x xs] Hf H; cbn in *; try tauto.
  destruct H as [H1 H2]. split.
  - rewrite Hf; auto.
  - apply IH; auto.
Qed.

Lemma seg_lt m pv p xs e a : seg m pv p xs e -> In a p -> a < length m.
Proof.
  revert pv xs; induction p as [|b p IH]; intros pv [|x xs] H Hin; cbn in *; try tauto.
  destruct H as [H1 H2]. destruct Hin as [->|Hin].
  - eapply load_lt; eauto.
  - eauto.
Qed.

Lemma last_cons_ne (b : addr) p d d' : p <> [] -> last (b :: p) d = last p d'.
Proof.
  revert b; induction p as [|c p IH]; intros b H; [congruence|].
  destruct p as [|c' p]; [reflexivity|].
  change (last (b :: c :: c' :: p) d) with (last (c :: c' :: p) d).
  change (last (c :: c' :: p) d') with (last (c' :: p) d').
  rewrite (IH c) by discriminate. reflexivity.
Qed.

Lemma last_opt_cons a p pv : last_opt (a :: p) pv = last_opt p (Some a).
Proof.
  unfold last_opt. destruct p as [|b p]; reflexivity.
Qed.

Lemma seg_app m pv p1 p2 xs1 xs2 e :
  length p1 = length xs1 ->
  (seg m pv (p1 ++ p2) (xs1 ++ xs2) e <->
   seg m pv p1 xs1 (hd_opt p2 e) /\ seg m (last_opt p1 pv) p2 xs2 e).
Proof.
  revert pv xs1; induction p1 as [|a p1 IH]; intros pv [|x xs1] Hl; cbn in Hl; try discriminate.
  - cbn. tauto.
  - injection Hl as Hl. rewrite last_opt_cons.
    cbn [app seg]. rewrite (IH (Some a) xs1 Hl).
    assert (E : hd_opt (p1 ++ p2) e = hd_opt p1 (hd_opt p2 e)) by (destruct p1; reflexivity).
    rewrite E. tauto.
Qed.

Lemma nodup_bounded_length (p : list addr) n :
  NoDup p -> (forall a, In a p -> a < n) -> length p <= n.
Proof.
  intros ND Hb. rewrite <- (seq_length n 0).
  apply NoDup_incl_length; auto.
  intros a Ha. apply in_seq. specialize (Hb a Ha). lia.
Qed.

Lemma seg_fuel m pv p xs e : NoDup p -> seg m pv p xs e -> length p < fuel_of m.
Proof.
  intros ND H. unfold fuel_of.
  assert (length p <= length m); [|lia].
  apply nodup_bounded_length; auto. intros a Ha. eapply seg_lt; eauto.
Qed.

(* ---------- Find ---------- *)

(* the address of the first cell holding v *)
Fixpoint find_addr (v : Z) (p : list addr) (xs : list Z) : option addr :=
  match p, xs with
  | a :: p', x :: xs' => if (x =? v)%Z then Some a else find_addr v p' xs'
  | _, _ => None
  end.

Lemma find_loop_spec m v : forall p xs pv fuel,
  seg m pv p xs None -> length p < fuel ->
  find_loop fuel m (hd_opt p None) v = Done (find_addr v p xs).
Proof.
  induction p as [|a p IH]; intros [|x xs] pv fuel H Hf; cbn in H; try tauto.
  - destruct fuel; [lia|]. reflexivity.
  - destruct H as [H1 H2]. destruct fuel as [|f]; [cbn in Hf; lia|].
    cbn [find_loop hd_opt find_addr]. unfold ld. rewrite H1. cbn [bind val next].
    destruct (x =? v)%Z; [reflexivity|].
    apply IH with (pv := Some a); auto. cbn in Hf. lia.
Qed.

Lemma find_addr_none v p xs :
  length p = length xs -> (find_addr v p xs = None <-> ~ In v xs).
Proof.
  revert xs; induction p as [|a p IH]; intros [|x xs] Hl; cbn in *; try discriminate.
  - tauto.
  - injection Hl as Hl. destruct (x =? v)%Z eqn:E.
    + apply Z.eqb_eq in E. split; [discriminate|]. intros H; exfalso; apply H; auto.
    + apply Z.eqb_neq in E. rewrite (IH xs Hl). tauto.
Qed.

Lemma find_addr_some v p xs a :
  find_addr v p xs = Some a ->
  exists p1 p2 xs1 xs2, p = p1 ++ a :: p2 /\ xs = xs1 ++ v :: xs2 /\
                        length p1 = length xs1 /\ ~ In v xs1.
Proof.
  revert xs; induction p as [|b p IH]; intros [|x xs] H; cbn in H; try discriminate.
  destruct (x =? v)%Z eqn:E.
  - apply Z.eqb_eq in E. injection H as ->. subst x.
    exists [], p, [], xs. cbn. auto.
  - apply Z.eqb_neq in E. destruct (IH xs H) as (p1 & p2 & xs1 & xs2 & -> & -> & Hl & Hn).
    exists (b :: p1), p2, (x :: xs1), xs2. cbn. repeat split; auto.
    intros [Hx|Hx]; auto.
Qed.

(* ---------- Append's walk ---------- *)

Lemma walk_last_spec m : forall p a xs pv fuel,
  seg m pv (a :: p) xs None -> length p < fuel ->
  walk_last fuel m a = Done (last (a :: p) 0).
Proof.
  induction p as [|b p IH]; intros a [|x xs] pv fuel H Hf; cbn in H; try tauto;
    destruct H as [H1 H2]; (destruct fuel as [|f]; [cbn in Hf; lia|]).
  - cbn [walk_last]. unfold ld. rewrite H1. reflexivity.
  - cbn [walk_last]. unfold ld. rewrite H1. cbn [bind next hd_opt].
    rewrite (last_cons_ne a (b :: p) 0 0) by discriminate.
    apply IH with (xs := xs) (pv := Some a); auto. cbn in Hf; lia.
Qed.

(* ---------- Each / Last: the walks that overwrite the head ---------- *)

(* the current heap is the original one with the node at the current chain
   position copied over address 0 *)
Lemma each_loop_spec m : forall p a xs pv na fuel acc,
  0 < length m ->
  load m a = Some na -> seg m pv (a :: p) xs None -> ~ In 0 p -> length p < fuel ->
  exists nl, each_loop fuel (store m 0 na) acc = Done (acc ++ xs, store m 0 nl).
Proof.
  induction p as [|b p IH]; intros a [|x xs] pv na fuel acc H0 Ha H N0 Hf; cbn in H; try tauto;
    destruct H as [H1 H2]; (destruct fuel as [|f]; [cbn in Hf; lia|]);
    rewrite Ha in H1; injection H1 as ->.
  - destruct xs; [|cbn in H2; tauto].
    cbn [each_loop]. unfold ld. rewrite load_store_eq by auto. cbn. eauto.
  - cbn [each_loop]. unfold ld. rewrite load_store_eq by auto. cbn [bind val next hd_opt].
    assert (Hb : b <> 0) by (intros ->; apply N0; cbn; auto).
    rewrite load_store_neq by auto.
    destruct xs as [|y xs]; [cbn in H2; tauto|].
    pose proof H2 as H2'. cbn in H2'. destruct H2' as [Hb1 _].
    rewrite Hb1. cbn [bind]. rewrite store_store.
    destruct (IH b (y :: xs) (Some a) _ f (acc ++ [x]) H0 Hb1 H2) as [nl E].
    + intros Hin; apply N0; cbn; auto.
    + cbn in Hf; lia.
    + exists nl. rewrite E. rewrite <- app_assoc. reflexivity.
Qed.

Lemma last_loop_spec m : forall p a xs pv na fuel,
  0 < length m ->
  load m a = Some na -> seg m pv (a :: p) xs None -> ~ In 0 p -> length p < fuel ->
  exists nl, last_loop fuel (store m 0 na) = Done (store m 0 nl) /\ val nl = last xs 0%Z.
Proof.
  induction p as [|b p IH]; intros a [|x xs] pv na fuel H0 Ha H N0 Hf; cbn in H; try tauto;
    destruct H as [H1 H2]; (destruct fuel as [|f]; [cbn in Hf; lia|]);
    rewrite Ha in H1; injection H1 as ->.
  - destruct xs; [|cbn in H2; tauto].
    cbn [last_loop]. unfold ld. rewrite load_store_eq by auto. cbn. eauto.
  - cbn [last_loop]. unfold ld. rewrite load_store_eq by auto. cbn [bind val next hd_opt].
    assert (Hb : b <> 0) by (intros ->; apply N0; cbn; auto).
    rewrite load_store_neq by auto.
    destruct xs as [|y xs]; [cbn in H2; tauto|].
    pose proof H2 as H2'. cbn in H2'. destruct H2' as [Hb1 _].
    rewrite Hb1. cbn [bind]. rewrite store_store.
    destruct (IH b (y :: xs) (Some a) _ f H0 Hb1 H2) as (nl & E & Hv).
    + intros Hin; apply N0; cbn; auto.
    + cbn in Hf; lia.
    + exists nl. rewrite E. split; auto.
Qed.

(* ---------- Replace ---------- *)

Lemma replace_loop_spec m oldv newv : forall p a xs pv fuel,
  seg m pv (a :: p) xs None -> NoDup (a :: p) -> length p < fuel ->
  exists m', replace_loop fuel m a oldv newv =
             Done (m', if mem_z oldv xs then e_ok else e_notfound) /\
    seg m' pv (a :: p) (repl_first oldv newv xs) None /\
    length m' = length m /\
    (forall c, ~ In c (a :: p) -> load m' c = load m c).
Proof.
  induction p as [|b p IH]; intros a [|x xs] pv fuel H ND Hf; cbn in H; try tauto;
    destruct H as [H1 H2]; (destruct fuel as [|f]; [cbn in Hf; lia|]).
  - destruct xs; [|cbn in H2; tauto].
    cbn [replace_loop]. unfold ld. rewrite H1. cbn [bind val next hd_opt mem_z repl_first].
    destruct (x =? oldv)%Z; cbn [orb].
    + eexists; split; [reflexivity|]. rewrite store_length. split; [|split]; auto.
      * cbn. rewrite load_store_eq by (eapply load_lt; eauto). auto.
      * intros c Hc. rewrite load_store_neq; auto. intros ->; apply Hc; cbn; auto.
    + eexists; split; [reflexivity|]. split; [|split]; cbn; auto.
  - change (seg m (Some a) (b :: p) xs None) in H2.
    cbn [replace_loop]. unfold ld. rewrite H1. cbn [bind val next hd_opt mem_z repl_first].
    inversion ND as [|? ? Hna ND']; subst.
    destruct (x =? oldv)%Z; cbn [orb].
    + eexists; split; [reflexivity|]. rewrite store_length. split; [|split]; auto.
      * apply seg_cons. split.
        -- rewrite load_store_eq by (eapply load_lt; eauto). reflexivity.
        -- apply seg_frame with m; auto. intros c Hc. rewrite load_store_neq; auto.
           intros ->; auto.
      * intros c Hc. rewrite load_store_neq; auto. intros ->; apply Hc; cbn; auto.
    + destruct (IH b xs (Some a) f H2 ND') as (m' & E & S' & L' & F'); [cbn in Hf; lia|].
      exists m'. split; [exact E|]. split; [|split]; auto.
      * destruct xs as [|y xs]; [cbn in H2; tauto|].
        apply seg_cons. split.
        -- rewrite F' by auto. rewrite H1. reflexivity.
        -- exact S'.
      * intros c Hc. apply F'. intros Hin; apply Hc; cbn; auto.
Qed.

(* ---------- Pop's walk ---------- *)

Lemma pop_loop_spec m : forall q a t l xs pv fuel,
  seg m pv (q ++ [t; l]) xs None -> hd_error (q ++ [t; l]) = Some a -> length q < fuel ->
  pop_loop fuel m a = Done t.
Proof.
  induction q as [|c q IH]; intros a t l xs pv fuel H Hh Hf; (destruct fuel as [|f]; [cbn in Hf; lia|]).
  - cbn in Hh. injection Hh as <-.
    destruct xs as [|x [|y [|z xs]]]; cbn in H; try tauto.
    destruct H as [H1 [H2 _]].
    cbn [pop_loop]. unfold ld, deref. rewrite H1. cbn [bind next]. rewrite H2. reflexivity.
  - cbn in Hh. injection Hh as <-.
    destruct xs as [|x xs]; [cbn in H; tauto|].
    cbn [app seg] in H. destruct H as [H1 H2].
    cbn [pop_loop]. unfold ld, deref. rewrite H1. cbn [bind next].
    destruct (q ++ [t; l]) as [|b r] eqn:Er; [destruct q; discriminate|].
    cbn [hd_opt].
    destruct xs as [|y xs]; [cbn in H2; tauto|].
    pose proof H2 as H2'. cbn [seg] in H2'. destruct H2' as [Hb _]. rewrite Hb. cbn [bind next].
    assert (Hr : r <> []).
    { destruct q as [|c' q]; cbn in Er; injection Er as _ <-; [discriminate|].
      destruct q; discriminate. }
    destruct r as [|b' r]; [congruence|]. cbn [hd_opt].
    rewrite <- Er in H2. apply (IH b t l (y :: xs) (Some c) f H2).
    + rewrite Er. reflexivity.
    + cbn in Hf; lia.
Qed.

Lemma dl_pop_loop_spec m : forall q a t l xs pv fuel nod,
  seg m pv (q ++ [t; l]) xs None -> hd_error (q ++ [t; l]) = Some a -> length q < fuel ->
  exists nod', dl_pop_loop fuel m a nod = Done (t, nod').
Proof.
  induction q as [|c q IH]; intros a t l xs pv fuel nod H Hh Hf; (destruct fuel as [|f]; [cbn in Hf; lia|]).
  - cbn in Hh. injection Hh as <-.
    destruct xs as [|x [|y [|z xs]]]; cbn in H; try tauto.
    destruct H as [H1 [H2 _]].
    cbn [dl_pop_loop]. unfold ld, deref. rewrite H1. cbn [bind next]. rewrite H2. cbn. eauto.
  - cbn in Hh. injection Hh as <-.
    destruct xs as [|x xs]; [cbn in H; tauto|].
    cbn [app seg] in H. destruct H as [H1 H2].
    cbn [dl_pop_loop]. unfold ld, deref. rewrite H1. cbn [bind next].
    destruct (q ++ [t; l]) as [|b r] eqn:Er; [destruct q; discriminate|].
    cbn [hd_opt].
    destruct xs as [|y xs]; [cbn in H2; tauto|].
    pose proof H2 as H2'. cbn [seg] in H2'. destruct H2' as [Hb _]. rewrite Hb. cbn [bind next].
    assert (Hr : r <> []).
    { destruct q as [|c' q]; cbn in Er; injection Er as _ <-; [discriminate|].
      destruct q; discriminate. }
    destruct r as [|b' r]; [congruence|]. cbn [hd_opt].
    rewrite <- Er in H2. apply (IH b t l (y :: xs) (Some c) f _ H2).
    + rewrite Er. reflexivity.
    + cbn in Hf; lia.
Qed.

End Seg.

(* ====================================================================== *)
(* list algebra of the reference machine                                   *)
(* ====================================================================== *)

Lemma mem_z_in a xs : mem_z a xs = true <-> In a xs.
Proof.
  induction xs as [|x xs IH]; cbn; [split; [discriminate|tauto]|].
  rewrite orb_true_iff, IH, Z.eqb_eq. tauto.
Qed.

Lemma mem_z_notin a xs : mem_z a xs = false <-> ~ In a xs.
Proof. rewrite <- mem_z_in. destruct (mem_z a xs); split; congruence. Qed.

Lemma mem_z_split a xs1 xs2 : mem_z a (xs1 ++ a :: xs2) = true.
Proof. apply mem_z_in. apply in_or_app. cbn; auto. Qed.

Section FirstOcc.
Variables (a : Z) (xs1 xs2 : list Z).
Hypothesis Hn : ~ In a xs1.

Lemma ins_after_split v : ins_after a v (xs1 ++ a :: xs2) = xs1 ++ a :: v :: xs2.
Proof.
  induction xs1 as [|x l IH]; cbn.
  - now rewrite Z.eqb_refl.
  - destruct (x =? a)%Z eqn:E; [apply Z.eqb_eq in E; exfalso; apply Hn; cbn; auto|].
    f_equal. apply IH. intros H; apply Hn; cbn; auto.
Qed.

Lemma ins_before_split v : ins_before a v (xs1 ++ a :: xs2) = xs1 ++ v :: a :: xs2.
Proof.
  induction xs1 as [|x l IH]; cbn.
  - now rewrite Z.eqb_refl.
  - destruct (x =? a)%Z eqn:E; [apply Z.eqb_eq in E; exfalso; apply Hn; cbn; auto|].
    f_equal. apply IH. intros H; apply Hn; cbn; auto.
Qed.

Lemma repl_first_split v : repl_first a v (xs1 ++ a :: xs2) = xs1 ++ v :: xs2.
Proof.
  induction xs1 as [|x l IH]; cbn.
  - now rewrite Z.eqb_refl.
  - destruct (x =? a)%Z eqn:E; [apply Z.eqb_eq in E; exfalso; apply Hn; cbn; auto|].
    f_equal. apply IH. intros H; apply Hn; cbn; auto.
Qed.

Lemma remove_first_split : remove_first a (xs1 ++ a :: xs2) = xs1 ++ xs2.
Proof.
  induction xs1 as [|x l IH]; cbn.
  - now rewrite Z.eqb_refl.
  - destruct (x =? a)%Z eqn:E; [apply Z.eqb_eq in E; exfalso; apply Hn; cbn; auto|].
    f_equal. apply IH. intros H; apply Hn; cbn; auto.
Qed.
End FirstOcc.

Lemma repl_first_absent a v xs : ~ In a xs -> repl_first a v xs = xs.
Proof.
  induction xs as [|x xs IH]; cbn; auto. intros H.
  destruct (x =? a)%Z eqn:E; [apply Z.eqb_eq in E; exfalso; apply H; auto|].
  f_equal. apply IH. tauto.
Qed.

Lemma in_notin_neq {A} (a b : A) l : In a l -> ~ In b l -> a <> b.
Proof. intros H1 H2 ->. auto. Qed.

Lemma nodup_app_l {A} (l1 l2 : list A) : NoDup (l1 ++ l2) -> NoDup l1.
Proof.
  induction l1 as [|a l1 IH]; cbn; [constructor|].
  intros H. inversion H as [|? ? Hn Hd]; subst. constructor; auto.
  intros Hin. apply Hn. apply in_or_app; auto.
Qed.

Lemma nodup_app_r {A} (l1 l2 : list A) : NoDup (l1 ++ l2) -> NoDup l2.
Proof.
  induction l1 as [|a l1 IH]; cbn; auto.
  intros H. inversion H; subst. auto.
Qed.

Lemma nodup_app_disj {A} (l1 l2 : list A) a : NoDup (l1 ++ l2) -> In a l1 -> In a l2 -> False.
Proof.
  induction l1 as [|b l1 IH]; cbn; [tauto|].
  intros H [->|H1] H2; inversion H as [|? ? Hn Hd]; subst.
  - apply Hn. apply in_or_app; auto.
  - eauto.
Qed.

Lemma nodup_snoc {A} (l : list A) a : NoDup l -> ~ In a l -> NoDup (l ++ [a]).
Proof.
  induction l as [|b l IH]; cbn; intros ND Hn.
  - constructor; auto.
  - inversion ND as [|? ? Hb ND']; subst. constructor.
    + intros Hin. apply in_app_or in Hin. destruct Hin as [Hin|[->|[]]]; auto.
    + apply IH; auto.
Qed.

Lemma nodup_insert {A} (l1 l2 : list A) x :
  NoDup (l1 ++ l2) -> ~ In x (l1 ++ l2) -> NoDup (l1 ++ x :: l2).
Proof.
  induction l1 as [|b l1 IH]; cbn; intros ND Hn.
  - constructor; auto.
  - inversion ND as [|? ? Hb ND']; subst. constructor.
    + intros Hin. apply in_app_or in Hin. destruct Hin as [Hin|[->|Hin]].
      * apply Hb. apply in_or_app; auto.
      * apply Hn; auto.
      * apply Hb. apply in_or_app; auto.
    + apply IH; auto.
Qed.

Lemma hd_error_app_mid {A} (l1 : list A) a r r' :
  hd_error (l1 ++ a :: r) = hd_error (l1 ++ a :: r').
Proof. destruct l1; reflexivity. Qed.

Lemma two_last_split {A} (l : list A) :
  2 <= length l -> exists q t z, l = q ++ [t; z].
Proof.
  induction l as [|a l IH]; cbn; [lia|]. intros H.
  destruct l as [|b l]; [cbn in H; lia|].
  destruct l as [|c l].
  - exists [], a, b. reflexivity.
  - destruct IH as (q & t & z & E); [cbn; lia|].
    exists (a :: q), t, z. rewrite E. reflexivity.
Qed.

Lemma find_addr_in v p xs :
  length p = length xs -> In v xs -> exists b, find_addr v p xs = Some b.
Proof.
  intros Hl Hin. destruct (find_addr v p xs) eqn:E; eauto.
  apply find_addr_none in E; tauto.
Qed.

(* splitting a represented sequence at a cell *)
Lemma rep_split pf m p1 a p2 xs1 y xs2 :
  rep pf m (p1 ++ a :: p2) (xs1 ++ y :: xs2) -> length p1 = length xs1 ->
  seg pf m None p1 xs1 (Some a) /\
  load m a = Some (mkNode y (hd_opt p2 None) (pf (last_opt p1 None))) /\
  seg pf m (Some a) p2 xs2 None /\
  ~ In a p1 /\ ~ In a p2 /\ NoDup p1 /\ NoDup p2 /\
  (forall b, In b p1 -> In b p2 -> False) /\
  (forall b, In b (p1 ++ a :: p2) -> b < length m).
Proof.
  intros (Hh & ND & S) Hl.
  pose proof (fun b => seg_lt _ _ _ _ _ _ b S) as B.
  apply seg_app in S; auto. destruct S as [S1 S2]. apply seg_cons in S2. destruct S2 as [Ha S2].
  cbn [hd_opt] in S1.
  split; [exact S1|]. split; [exact Ha|]. split; [exact S2|].
  pose proof (NoDup_remove_2 _ _ _ ND) as Hn.
  pose proof (NoDup_remove_1 _ _ _ ND) as ND2.
  split; [intros H; apply Hn; apply in_or_app; auto|].
  split; [intros H; apply Hn; apply in_or_app; auto|].
  split; [eapply nodup_app_l; eauto|]. split; [eapply nodup_app_r; eauto|].
  split; [intros b H1 H2; eapply nodup_app_disj; eauto|].
  exact B.
Qed.

(* the last cell of a non-empty segment *)
Lemma seg_last_cell pf m e : forall p a pv xs,
  seg pf m pv (a :: p) xs e ->
  exists la q xs0 xl, last (a :: p) 0 = la /\ a :: p = q ++ [la] /\ xs = xs0 ++ [xl] /\
    length q = length xs0 /\
    seg pf m pv q xs0 (Some la) /\
    load m la = Some (mkNode xl e (pf (last_opt q pv))).
Proof.
  induction p as [|b p IH]; intros a pv [|x xs] H; try (cbn in H; tauto).
  - apply seg_cons in H. destruct H as [H1 H2]. destruct xs; [|cbn in H2; tauto].
    exists a, [], [], x. cbn. repeat split; auto.
  - apply seg_cons in H. destruct H as [H1 H2].
    destruct (IH b (Some a) xs H2) as (la & q & xs0 & xl & El & E & -> & Hl & Sq & Hlast).
    exists la, (a :: q), (x :: xs0), xl.
    split; [rewrite (last_cons_ne a (b :: p) 0 0) by discriminate; exact El|].
    split; [cbn; f_equal; exact E|]. split; [reflexivity|]. split; [cbn; auto|].
    split.
    + apply seg_cons. split; [|exact Sq].
      rewrite H1. f_equal. f_equal.
      destruct q as [|c q]; cbn in E |- *.
      * injection E as E1 E2. destruct p; [cbn; congruence|discriminate].
      * injection E as E1 E2. subst c. reflexivity.
    + rewrite last_opt_cons. exact Hlast.
Qed.

Lemma last_opt_snoc q (a : addr) pv : last_opt (q ++ [a]) pv = Some a.
Proof.
  unfold last_opt. destruct (q ++ [a]) eqn:E; [destruct q; discriminate|].
  rewrite <- E. rewrite last_last. reflexivity.
Qed.
