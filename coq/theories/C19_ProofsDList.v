(* C19_ProofsDList.v — every method of list/dlist.go (after the repairs of
   fixes/builder-c19) refines its sequence meaning on heaps that represent a
   sequence with consistent prev pointers ([rep pf_d]). *)

From Gogu Require Import Base Mem C19_Model C19_Proofs C19_ProofsSList.
Local Open Scope nat_scope.

Ltac cellm :=
  cell;
  repeat match goal with L : length _ = Datatypes.S (length _) |- _ => rewrite L end;
  try reflexivity.

Notation drep := (rep pf_d).
Notation dseg := (seg pf_d).

(* ---------- Find / Each / First / Last ---------- *)

Lemma dl_find_rep m p xs v :
  drep m p xs -> dl_find m v = Done (m, find_addr v p xs).
Proof.
  intros R. destruct (rep_inv _ _ _ _ R) as (p' & x & xs' & -> & -> & H0 & S' & _ & _ & _ & _ & Hfu).
  destruct R as (_ & _ & S).
  unfold dl_find.
  change (Some 0) with (hd_opt (0 :: p') None).
  rewrite (find_loop_spec pf_d m v (0 :: p') (x :: xs') None (fuel_of m) S Hfu).
  cbn [bind]. unfold ld. rewrite H0. cbn [bind]. rewrite store_same by exact H0. reflexivity.
Qed.

Lemma dl_each_rep m p xs : drep m p xs -> dl_each m = Done (xs, m).
Proof. apply (each_rep pf_d). Qed.

Lemma dl_first_rep m p xs : drep m p xs -> dl_first m = Done (hd 0%Z xs).
Proof.
  intros R. destruct (rep_inv _ _ _ _ R) as (p' & x & xs' & -> & -> & H0 & _).
  unfold dl_first, ld. rewrite H0. reflexivity.
Qed.

Lemma dl_last_rep m p xs : drep m p xs -> dl_last m = Done (last xs 0%Z, m).
Proof.
  intros R. destruct (rep_inv _ _ _ _ R) as (p' & x & xs' & -> & -> & H0 & S' & N0 & _ & L0 & _ & Hfu).
  destruct R as (_ & _ & S).
  unfold dl_last, ld. rewrite H0. cbn [bind].
  destruct (last_loop_spec pf_d m p' 0 (x :: xs') None _ (fuel_of m) L0 H0 S N0) as (nl & E & Hv).
  { cbn in Hfu. lia. }
  rewrite store_same in E by exact H0. rewrite E. cbn [bind].
  rewrite load_store_eq by auto. cbn [bind]. rewrite Hv.
  rewrite store_store, store_same by exact H0. reflexivity.
Qed.

(* ---------- Unshift ---------- *)

Lemma dl_unshift_rep m p xs v :
  drep m p xs ->
  exists m' p', dl_unshift m v = Done m' /\ drep m' p' (v :: xs).
Proof.
  intros R. destruct (rep_inv _ _ _ _ R) as (p' & x & xs' & -> & -> & H0 & S' & N0 & ND' & L0 & B & _).
  unfold dl_unshift. cbn zeta.
  assert (NDn : NoDup (0 :: S (length m) :: p')).
  { constructor; [|constructor; auto].
    - intros [E|Hin]; [discriminate|]. auto.
    - intros Hin. apply B in Hin. lia. }
  destruct p' as [|q p'].
  - destruct xs'; [|cbn in S'; tauto]. cbn [hd_opt] in H0. exec.
    eexists. exists [0; S (length m)]. split; [reflexivity|].
    split; [reflexivity|]. split; [exact NDn|].
    apply seg_cons. split; [cell|]. apply seg_cons. split; [cell|]. exact I.
  - destruct xs' as [|y xs']; [cbn in S'; tauto|].
    apply seg_cons in S'. destruct S' as [Hq S''].
    destruct (B q) as [Lq Nq]; [cbn; auto|].
    inversion ND' as [|? ? Nq' ND'']; subst.
    cbn [hd_opt] in H0. exec.
    eexists. exists (0 :: S (length m) :: q :: p'). split; [reflexivity|].
    split; [reflexivity|]. split; [exact NDn|].
    apply seg_cons. split; [cell|]. apply seg_cons. split; [cell|].
    apply seg_cons. split; [cell|].
    apply seg_frame with m; auto. intros a Ha.
    destruct (B a) as [La Na]; [cbn; auto|].
    assert (a <> q) by (intros ->; auto). cell.
Qed.

(* ---------- Append ---------- *)

Lemma dl_append_rep m p xs v :
  drep m p xs ->
  exists m' p', dl_append m v = Done m' /\ drep m' p' (xs ++ [v]).
Proof.
  intros R. destruct (rep_inv _ _ _ _ R) as (p' & x & xs' & -> & -> & H0 & S' & N0 & ND' & L0 & B & Hfu).
  destruct R as (_ & ND & S).
  unfold dl_append. cbn zeta. exec.
  set (m1 := alloc m (new_node v)).
  assert (S1 : dseg m1 None (0 :: p') (x :: xs') None).
  { apply seg_frame with m; auto. intros a Ha. unfold m1.
    rewrite load_alloc_old; auto. exact (seg_lt _ _ _ _ _ _ _ S Ha). }
  assert (E2 : (match hd_opt p' None with
                | None => store m1 0 (mkNode x (hd_opt p' None) (pf_d None))
                | Some _ => m1 end) = m1).
  { destruct (hd_opt p' None); auto. apply store_same. unfold m1. cell. }
  rewrite E2.
  rewrite (walk_last_spec pf_d m1 p' 0 (x :: xs') None (fuel_of m1) S1).
  2:{ unfold fuel_of, m1. rewrite alloc_length. unfold fuel_of in Hfu. cbn in Hfu. lia. }
  cbn [bind].
  destruct (seg_last_cell pf_d m None p' 0 None (x :: xs') S) as (la & q & xs0 & xl & Ela & Eq & Exs & Hl & Sq & Hlast).
  rewrite Ela.
  assert (Hla : la < length m) by exact (load_lt _ _ _ Hlast).
  unfold m1. exec.
  eexists. exists ((0 :: p') ++ [length m]). split; [reflexivity|].
  split; [reflexivity|]. split.
  - rewrite Eq in ND |- *. apply nodup_snoc; auto.
    intros Hin. rewrite <- Eq in Hin. apply (seg_lt _ _ _ _ _ _ _ S) in Hin. lia.
  - rewrite Exs. rewrite Eq. rewrite <- !app_assoc. cbn [app].
    assert (NDq : NoDup (q ++ [la])) by (rewrite <- Eq; exact ND).
    apply seg_app; auto. split.
    + apply seg_frame with m; auto. intros a Ha.
      assert (a < length m) by (eapply seg_lt; eauto).
      assert (a <> la).
      { intros ->. eapply (nodup_app_disj q [la]); eauto. cbn; auto. }
      cell.
    + apply seg_cons. split; [cell|].
      apply seg_cons. split; [cell|]. exact I.
Qed.

(* ---------- InsertAfter ---------- *)

Lemma dl_insert_after_nil m v : dl_insert_after m None v = Done (m, e_nil).
Proof. reflexivity. Qed.

Lemma dl_insert_after_rep m p1 a p2 xs1 y xs2 v :
  drep m (p1 ++ a :: p2) (xs1 ++ y :: xs2) -> length p1 = length xs1 ->
  exists m' p', dl_insert_after m (Some a) v = Done (m', e_ok) /\
                drep m' p' (xs1 ++ y :: v :: xs2).
Proof.
  intros R Hl. pose proof R as (Hh & ND & S).
  destruct (rep_split _ _ _ _ _ _ _ _ R Hl) as (S1 & Ha & S2 & Na1 & Na2 & ND1 & ND2 & Dj & B).
  assert (La : a < length m) by (apply B; apply in_or_app; cbn; auto).
  unfold dl_insert_after. unfold ld at 1. rewrite Ha. cbn [bind val].
  rewrite (dl_find_rep _ _ _ y R).
  destruct (find_addr_in y (p1 ++ a :: p2) (xs1 ++ y :: xs2)) as [b Eb].
  { eapply seg_length; eauto. } { apply in_or_app; cbn; auto. }
  rewrite Eb. cbn [bind]. cbn zeta.
  assert (NDn : NoDup (p1 ++ a :: length m :: p2)).
  { change (p1 ++ a :: length m :: p2) with (p1 ++ [a] ++ length m :: p2).
    rewrite app_assoc. apply nodup_insert; rewrite <- app_assoc; cbn [app]; auto.
    intros Hin. apply B in Hin. lia. }
  assert (F1 : forall m', (forall c, c < length m -> c <> a -> ~ In c p2 -> load m' c = load m c) ->
                          dseg m' None p1 xs1 (Some a)).
  { intros m' Hm'. apply seg_frame with m; auto. intros c Hc. apply Hm'.
    - apply B; apply in_or_app; auto.
    - intros ->; auto.
    - intros Hc2. eapply Dj; eauto. }
  destruct p2 as [|q p2].
  - destruct xs2; [|cbn in S2; tauto]. cbn [hd_opt] in Ha. exec.
    eexists. exists (p1 ++ [a; length m]). split; [reflexivity|].
    split; [rewrite (hd_error_app_mid p1 a _ []); exact Hh|]. split; [exact NDn|].
    apply seg_app; auto. split.
    + apply F1. intros c L1 L2 _. cell.
    + apply seg_cons. split; [cell|]. apply seg_cons. split; [cell|]. exact I.
  - destruct xs2 as [|z xs2]; [cbn in S2; tauto|].
    apply seg_cons in S2. destruct S2 as [Hq S2'].
    assert (Lq : q < length m) by (apply B; apply in_or_app; cbn; auto).
    assert (Nqa : q <> a) by (intros ->; apply Na2; cbn; auto).
    inversion ND2 as [|? ? Nq ND2']; subst.
    cbn [hd_opt] in Ha. exec.
    eexists. exists (p1 ++ a :: length m :: q :: p2). split; [reflexivity|].
    split; [rewrite (hd_error_app_mid p1 a _ (q :: p2)); exact Hh|]. split; [exact NDn|].
    apply seg_app; auto. split.
    + apply F1. intros c L1 L2 L3.
      assert (c <> q) by (intros ->; apply L3; cbn; auto). cell.
    + apply seg_cons. split; [cell|]. apply seg_cons. split; [cell|].
      apply seg_cons. split; [cell|].
      apply seg_frame with m; auto. intros c Hc.
      assert (c < length m) by (apply B; apply in_or_app; cbn; auto).
      assert (c <> a) by (intros ->; apply Na2; cbn; auto).
      assert (c <> q) by (intros ->; auto). cell.
Qed.

(* ---------- InsertBefore ---------- *)

Lemma dl_insert_before_nil m p xs v :
  drep m p xs -> exists m', dl_insert_before m None v = Done (m', e_nil) /\ drep m' p xs.
Proof.
  intros R. destruct (rep_inv _ _ _ _ R) as (p' & x & xs' & -> & -> & H0 & _).
  destruct R as (Hh & ND & S).
  unfold dl_insert_before, ld. rewrite H0. cbn [bind]. cbn zeta.
  eexists. split; [reflexivity|]. split; [exact Hh|]. split; [exact ND|].
  apply seg_frame with m; auto. intros a Ha.
  apply load_alloc_old. exact (seg_lt _ _ _ _ _ _ _ S Ha).
Qed.

Lemma rep_alloc pf m p xs n : rep pf m p xs -> rep pf (alloc m n) p xs.
Proof.
  intros (Hh & ND & S). split; [exact Hh|]. split; [exact ND|].
  apply seg_frame with m; auto. intros a Ha.
  apply load_alloc_old. exact (seg_lt _ _ _ _ _ _ _ S Ha).
Qed.

Lemma dl_insert_before_rep m p1 a p2 xs1 y xs2 v :
  drep m (p1 ++ a :: p2) (xs1 ++ y :: xs2) -> length p1 = length xs1 ->
  exists m' p', dl_insert_before m (Some a) v = Done (m', e_ok) /\
                drep m' p' (xs1 ++ v :: y :: xs2).
Proof.
  intros R Hl.
  destruct (rep_inv _ _ _ _ R) as (p0' & x0 & xs0' & Ep & Ex & H0 & _ & _ & _ & L0 & _ & _).
  unfold dl_insert_before. unfold ld at 1. rewrite H0. cbn [bind]. cbn zeta.
  set (h0 := mkNode x0 (hd_opt p0' None) (pf_d None)) in *.
  pose proof (rep_alloc _ _ _ _ h0 R) as R0.
  set (m0 := alloc m h0) in *.
  assert (Lm0 : length m0 = S (length m)) by (unfold m0; apply alloc_length).
  assert (Hhd : load m0 (fresh m) = Some h0) by (unfold m0; apply load_alloc_new).
  pose proof R0 as (Hh & ND & S).
  destruct (rep_split _ _ _ _ _ _ _ _ R0 Hl) as (S1 & Ha & S2 & Na1 & Na2 & ND1 & ND2 & Dj & B0).
  assert (B : forall b, In b (p1 ++ a :: p2) -> b < length m).
  { intros b Hb. destruct R as (_ & _ & SR). exact (seg_lt _ _ _ _ _ _ _ SR Hb). }
  assert (La : a < length m) by (apply B; apply in_or_app; cbn; auto).
  unfold fresh at 1. fold m0.
  unfold ld at 1. rewrite Ha. cbn [bind val].
  rewrite (dl_find_rep _ _ _ y R0).
  destruct (find_addr_in y (p1 ++ a :: p2) (xs1 ++ y :: xs2)) as [b Eb].
  { eapply seg_length; eauto. } { apply in_or_app; cbn; auto. }
  rewrite Eb. cbn [bind]. cbn zeta.
  destruct p1 as [|c1 p1].
  - (* at the head: the else branch *)
    destruct xs1; [|discriminate]. cbn [app] in *. injection Hh as ->.
    cbn [last_opt] in Ha. unfold pf_d in Ha.
    rewrite Ep in R. destruct R as (_ & _ & SR). rewrite Ex in SR. cbn [app] in Ep, Ex.
    injection Ep as <-. injection Ex as <- <-.
    assert (NDn : NoDup (0 :: length m :: p2)).
    { constructor; [|constructor; auto].
      - intros [E|Hin]; [lia|]. auto.
      - intros Hin. assert (length m < length m); [|lia]. apply B; cbn; auto. }
    destruct p2 as [|q p2].
    + destruct xs2; [|cbn in S2; tauto]. cbn [hd_opt] in *. unfold h0 in *. exec.
      eexists. exists [0; length m]. split; [reflexivity|].
      split; [reflexivity|]. split; [exact NDn|].
      apply seg_cons. split; [cell|]. apply seg_cons. split; [cell|]. exact I.
    + destruct xs2 as [|z xs2]; [cbn in S2; tauto|].
      apply seg_cons in S2. destruct S2 as [Hq S2'].
      assert (Lq : q < length m) by (apply B; cbn; auto).
      assert (Nq0 : q <> 0) by (intros ->; apply Na2; cbn; auto).
      inversion ND2 as [|? ? Nq ND2']; subst.
      cbn [hd_opt] in *. unfold h0 in *. exec.
      eexists. exists (0 :: length m :: q :: p2). split; [reflexivity|].
      split; [reflexivity|]. split; [exact NDn|].
      apply seg_cons. split; [cell|]. apply seg_cons. split; [cell|].
      apply seg_cons. split; [cell|].
      apply seg_frame with m0; auto. intros c Hc.
      assert (c < length m) by (apply B; cbn; auto).
      assert (c <> 0) by (intros ->; apply Na2; cbn; auto).
      assert (c <> q) by (intros ->; auto). cell.
  - (* further along: the predecessor is re-linked *)
    destruct xs1 as [|x1 xs1]; [discriminate|].
    destruct (seg_last_cell pf_d m0 (Some a) p1 c1 None (x1 :: xs1) S1)
      as (c & q & xq & xc & _ & Eq & Exq & Hlq & Sq & Hc).
    assert (Elo : last_opt (c1 :: p1) None = Some c) by (rewrite Eq; apply last_opt_snoc).
    rewrite Elo in Ha. unfold pf_d in Ha.
    assert (Lc : c < length m) by (apply B; apply in_or_app; left; rewrite Eq; apply in_or_app; cbn; auto).
    assert (Nca : c <> a) by (intros ->; apply Na1; rewrite Eq; apply in_or_app; cbn; auto).
    assert (Ncq : ~ In c q).
    { intros Hin. rewrite Eq in ND1. eapply (nodup_app_disj q [c]); eauto. cbn; auto. }
    exec.
    eexists. exists ((c1 :: p1) ++ Datatypes.S (length m) :: a :: p2). split; [reflexivity|].
    split; [exact Hh|]. split.
    { apply nodup_insert; auto. intros Hin. apply B in Hin. lia. }
    rewrite Exq, Eq. rewrite <- !app_assoc. cbn [app].
    apply seg_app; auto. split.
    + apply seg_frame with m0; auto. intros d Hd.
      assert (d < length m) by (apply B; apply in_or_app; left; rewrite Eq; apply in_or_app; auto).
      assert (d <> c) by (intros ->; auto).
      assert (d <> a) by (intros ->; apply Na1; rewrite Eq; apply in_or_app; auto). cellm.
    + apply seg_cons. split; [cellm|]. apply seg_cons. split; [cellm|].
      apply seg_cons. split; [cellm|].
      apply seg_frame with m0; auto. intros d Hd.
      assert (d < length m) by (apply B; apply in_or_app; cbn; auto).
      assert (d <> a) by (intros ->; auto).
      assert (d <> c).
      { intros ->. eapply Dj; eauto. rewrite Eq. apply in_or_app; cbn; auto. }
      cellm.
Qed.

(* ---------- Delete ---------- *)

Lemma dl_delete_rep m p1 a p2 xs1 y xs2 :
  drep m (p1 ++ a :: p2) (xs1 ++ y :: xs2) -> length p1 = length xs1 -> ~ In y xs1 ->
  exists m' p', dl_delete m (Some a) =
                  Done (m', if more_than_one (xs1 ++ y :: xs2) then e_ok else e_only) /\
                drep m' p' (if more_than_one (xs1 ++ y :: xs2) then xs1 ++ xs2 else xs1 ++ y :: xs2).
Proof.
  intros R Hl Hny. pose proof R as (Hh & ND & S).
  destruct (rep_inv _ _ _ _ R) as (p0' & x0 & xs0' & Ep & Ex & H0 & _ & _ & _ & L0 & _ & _).
  destruct (rep_split _ _ _ _ _ _ _ _ R Hl) as (S1 & Ha & S2 & Na1 & Na2 & ND1 & ND2 & Dj & B).
  assert (La : a < length m) by (apply B; apply in_or_app; cbn; auto).
  unfold dl_delete, deref. rewrite Ha. cbn [bind val].
  rewrite (dl_find_rep _ _ _ y R).
  destruct (find_addr_in y (p1 ++ a :: p2) (xs1 ++ y :: xs2)) as [b Eb].
  { eapply seg_length; eauto. } { apply in_or_app; cbn; auto. }
  rewrite Eb. cbn [bind]. unfold ld at 1. rewrite H0. cbn [bind next prev]. unfold pf_d.
  destruct p1 as [|c1 p1].
  - (* the head *)
    destruct xs1; [|discriminate]. cbn [app] in *. injection Hh as ->.
    injection Ep as <-. injection Ex as <- <-.
    cbn [last_opt] in Ha. unfold pf_d in Ha.
    destruct p2 as [|s p2].
    + destruct xs2; [|cbn in S2; tauto]. cbn [hd_opt more_than_one]. eauto.
    + destruct xs2 as [|z xs2]; [cbn in S2; tauto|]. cbn [hd_opt more_than_one].
      unfold ld at 1. rewrite Ha. cbn [bind val]. rewrite Z.eqb_refl.
      apply seg_cons in S2. destruct S2 as [Hs S2'].
      assert (Ls : s < length m) by (apply B; cbn; auto).
      assert (Ns0 : s <> 0) by (intros ->; apply Na2; cbn; auto).
      inversion ND2 as [|? ? Ns ND2']; subst.
      assert (NDn : NoDup (0 :: p2)).
      { constructor; auto. intros Hin; apply Na2; cbn; auto. }
      destruct p2 as [|t p2].
      * destruct xs2; [|cbn in S2'; tauto]. cbn [hd_opt] in *. exec.
        eexists. exists [0]. split; [reflexivity|]. split; [reflexivity|]. split; [exact NDn|].
        apply seg_cons. split; [cell|]. exact I.
      * destruct xs2 as [|w xs2]; [cbn in S2'; tauto|].
        apply seg_cons in S2'. destruct S2' as [Ht S2''].
        assert (Lt : t < length m) by (apply B; cbn; auto).
        assert (Nt0 : t <> 0) by (intros ->; apply Na2; cbn; auto).
        inversion ND2' as [|? ? Nt ND2'']; subst.
        cbn [hd_opt] in *. exec.
        eexists. exists (0 :: t :: p2). split; [reflexivity|]. split; [reflexivity|]. split; [exact NDn|].
        apply seg_cons. split; [cell|]. apply seg_cons. split; [cell|].
        apply seg_frame with m; auto. intros d Hd.
        assert (d < length m) by (apply B; cbn; auto).
        assert (d <> 0) by (intros ->; apply Na2; cbn; auto).
        assert (d <> t) by (intros ->; auto). cell.
  - (* further along *)
    destruct xs1 as [|x1 xs1]; [discriminate|]. cbn [app] in Hh. injection Hh as ->.
    cbn [app] in Ep, Ex. injection Ep as <-. injection Ex as <- <-.
    assert (M1 : more_than_one ((x1 :: xs1) ++ y :: xs2) = true).
    { cbn. destruct xs1; reflexivity. }
    rewrite M1.
    assert (Hxy : (x1 =? y)%Z = false).
    { apply Z.eqb_neq. intros ->. apply Hny. cbn; auto. }
    assert (Enx : exists nx, hd_opt (p1 ++ a :: p2) None = Some nx) by (destruct p1; cbn; eauto).
    destruct Enx as [nx Enx]. rewrite Enx.
    unfold ld at 1. rewrite Ha. cbn [bind val]. rewrite Hxy. cbn [next prev].
    destruct (seg_last_cell pf_d m (Some a) p1 0 None (x1 :: xs1) S1)
      as (c & q & xq & xc & _ & Eq & Exq & Hlq & Sq & Hc).
    assert (Elo : last_opt (0 :: p1) None = Some c) by (rewrite Eq; apply last_opt_snoc).
    rewrite Elo in Ha |- *. unfold pf_d in Ha |- *.
    assert (Lc : c < length m) by (apply B; apply in_or_app; left; rewrite Eq; apply in_or_app; cbn; auto).
    assert (Nca : c <> a) by (intros ->; apply Na1; rewrite Eq; apply in_or_app; cbn; auto).
    assert (Ncq : ~ In c q).
    { intros Hin. rewrite Eq in ND1. eapply (nodup_app_disj q [c]); eauto. cbn; auto. }
    assert (NDn : NoDup ((0 :: p1) ++ p2)) by (eapply NoDup_remove_1; eauto).
    assert (Hhn : hd_error ((0 :: p1) ++ p2) = Some 0) by reflexivity.
    assert (F1 : forall m', (forall d, d < length m -> d <> a -> d <> c -> ~ In d p2 -> load m' d = load m d) ->
                            dseg m' None q xq (Some c)).
    { intros m' Hm'. apply seg_frame with m; auto. intros d Hd. apply Hm'.
      - apply B; apply in_or_app; left; rewrite Eq; apply in_or_app; auto.
      - intros ->; apply Na1; rewrite Eq; apply in_or_app; auto.
      - intros ->; auto.
      - intros Hd2. eapply Dj; eauto. rewrite Eq; apply in_or_app; auto. }
    destruct p2 as [|s p2].
    + destruct xs2; [|cbn in S2; tauto]. cbn [hd_opt] in *. exec.
      eexists. exists ((0 :: p1) ++ []). split; [reflexivity|]. split; [exact Hhn|]. split; [exact NDn|].
      rewrite Exq, Eq. rewrite !app_nil_r.
      apply seg_app; auto. split.
      * apply F1. intros d D1 D2 D3 _. cell.
      * apply seg_cons. split; [cell|]. exact I.
    + destruct xs2 as [|z xs2]; [cbn in S2; tauto|].
      apply seg_cons in S2. destruct S2 as [Hs S2'].
      assert (Ls : s < length m) by (apply B; apply in_or_app; cbn; auto).
      assert (Nsa : s <> a) by (intros ->; apply Na2; cbn; auto).
      assert (Nsc : s <> c).
      { intros ->. eapply Dj; [|cbn; eauto]. rewrite Eq. apply in_or_app; cbn; auto. }
      inversion ND2 as [|? ? Ns ND2']; subst.
      cbn [hd_opt] in *. exec.
      eexists. exists ((0 :: p1) ++ s :: p2). split; [reflexivity|]. split; [exact Hhn|]. split; [exact NDn|].
      rewrite Exq, Eq. rewrite <- !app_assoc. cbn [app].
      apply seg_app; auto. split.
      * apply F1. intros d D1 D2 D3 D4.
        assert (d <> s) by (intros ->; apply D4; cbn; auto). cell.
      * apply seg_cons. split; [cell|]. apply seg_cons. split; [cell|].
        apply seg_frame with m; auto. intros d Hd.
        assert (d < length m) by (apply B; apply in_or_app; cbn; auto).
        assert (d <> a) by (intros ->; apply Na2; cbn; auto).
        assert (d <> s) by (intros ->; auto).
        assert (d <> c).
        { intros ->. eapply Dj; [|cbn; eauto]. rewrite Eq. apply in_or_app; cbn; auto. }
        cell.
Qed.

(* ---------- Shift ---------- *)

Lemma dl_shift_rep m p xs :
  drep m p xs ->
  exists m' p' nod, dl_shift m = Done (m', nod) /\
                    drep m' p' (if more_than_one xs then tl xs else [0%Z]).
Proof.
  intros R. destruct (rep_inv _ _ _ _ R) as (p' & x & xs' & -> & -> & H0 & S' & N0 & ND' & L0 & B & Hfu).
  unfold dl_shift. unfold ld at 1. rewrite H0. cbn [bind next].
  destruct p' as [|s p'].
  - destruct xs'; [|cbn in S'; tauto]. cbn [hd_opt more_than_one] in *. exec.
    rewrite !store_store.
    eexists. exists [0]. eexists. split; [reflexivity|]. split; [reflexivity|].
    split; [constructor; [tauto|constructor]|].
    apply seg_cons. split; [cell|]. exact I.
  - destruct xs' as [|z xs']; [cbn in S'; tauto|]. cbn [hd_opt more_than_one tl].
    apply seg_cons in S'. destruct S' as [Hs S''].
    destruct (B s) as [Ls Ns0]; [cbn; auto|].
    inversion ND' as [|? ? Ns ND'']; subst.
    assert (NDn : NoDup (0 :: p')).
    { constructor; auto. intros Hin; apply N0; cbn; auto. }
    destruct p' as [|t p'].
    + destruct xs'; [|cbn in S''; tauto]. cbn [hd_opt] in *. exec.
      eexists. exists [0]. eexists. split; [reflexivity|]. split; [reflexivity|]. split; [exact NDn|].
      apply seg_cons. split; [cell|]. exact I.
    + destruct xs' as [|w xs']; [cbn in S''; tauto|].
      apply seg_cons in S''. destruct S'' as [Ht S'''].
      destruct (B t) as [Lt Nt0]; [cbn; auto|].
      inversion ND'' as [|? ? Nt ND''']; subst.
      cbn [hd_opt] in *. exec.
      eexists. exists (0 :: t :: p'). eexists. split; [reflexivity|]. split; [reflexivity|]. split; [exact NDn|].
      apply seg_cons. split; [cell|]. apply seg_cons. split; [cell|].
      apply seg_frame with m; auto. intros d Hd.
      destruct (B d) as [Ld Nd0]; [cbn; auto|].
      assert (d <> t) by (intros ->; auto). cell.
Qed.

(* ---------- Pop ---------- *)

Lemma dl_pop_rep m p xs :
  drep m p xs ->
  exists m' p' nod, dl_pop m = Done (m', nod) /\
                    drep m' p' (if more_than_one xs then removelast xs else xs).
Proof.
  intros R. destruct (rep_inv _ _ _ _ R) as (p' & x & xs' & -> & -> & H0 & S' & N0 & ND' & L0 & B & Hfu).
  pose proof R as (Hh & ND & S).
  pose proof (seg_length _ _ _ _ _ _ S') as Hlen.
  unfold dl_pop. unfold ld at 1. rewrite H0. cbn [bind next].
  destruct p' as [|b p'].
  - destruct xs'; [|discriminate]. cbn [hd_opt more_than_one]. eauto.
  - destruct xs' as [|y xs']; [discriminate|]. cbn [hd_opt more_than_one].
    destruct (two_last_split (0 :: b :: p')) as (q & t & l & Eq); [cbn; lia|].
    destruct (two_last_split (x :: y :: xs')) as (xq & xt & xl & Ex); [cbn; lia|].
    assert (Hlq : length q = length xq).
    { apply (f_equal (@length _)) in Eq. apply (f_equal (@length _)) in Ex.
      rewrite app_length in Eq, Ex. cbn in Eq, Ex. cbn in Hlen. lia. }
    rewrite Eq in S, ND, Hh. rewrite Ex in S |- *.
    destruct (dl_pop_loop_spec pf_d m q 0 t l _ None (fuel_of m)
                (mkNode x (Some b) (pf_d None)) S Hh) as [nod En].
    { apply (f_equal (@length _)) in Eq. rewrite app_length in Eq. cbn in Eq, Hfu. lia. }
    rewrite En. cbn [bind].
    pose proof S as S0. apply seg_app in S0; auto. destruct S0 as [Sq St].
    apply seg_cons in St. destruct St as [Ht Sl]. cbn [hd_opt] in Sq, Ht.
    exec. rewrite removelast_two.
    eexists. exists (q ++ [t]). eexists. split; [reflexivity|]. split; [|split].
    + destruct q; cbn in Hh |- *; exact Hh.
    + change [t; l] with ([t] ++ [l]) in ND. rewrite app_assoc in ND.
      eapply nodup_app_l; eauto.
    + apply seg_app; auto. split.
      * apply seg_frame with m; auto. intros c Hc.
        assert (c <> t).
        { intros ->. eapply (nodup_app_disj q [t; l]); eauto. cbn; auto. }
        cell.
      * apply seg_cons. split; [|exact I].
        assert (t < length m) by (eapply load_lt; eauto). cell.
Qed.

(* ---------- Clear ---------- *)

Lemma dl_clear_rep m p xs :
  drep m p xs -> exists m' p', dl_clear m = Done m' /\ drep m' p' [hd 0%Z xs].
Proof.
  intros R. destruct (rep_inv _ _ _ _ R) as (p' & x & xs' & -> & -> & H0 & S' & N0 & ND' & L0 & B & Hfu).
  unfold dl_clear. exec.
  eexists. exists [0]. split; [reflexivity|]. split; [reflexivity|].
  split; [constructor; [tauto|constructor]|].
  apply seg_cons. split; [cell|]. exact I.
Qed.
