(* C19_ProofsHist.v — one step of either list type refines one step of the
   reference list machine; lifted to all histories. *)

From Gogu Require Import Base Mem C19_Model C19_Proofs C19_ProofsSList C19_ProofsDList.
Local Open Scope nat_scope.

Lemma err_if_ok : proj_ret (RErr e_ok) = err_if false.
Proof. reflexivity. Qed.

Ltac fin := split; [reflexivity|]; split; [eassumption|]; try reflexivity.

(* ---------- SList ---------- *)

Lemma sl_step_refines m p xs o :
  srep m p xs ->
  exists m' p' r, sl_step m o = Done (m', r) /\
                  srep m' p' (fst (spec_step KS xs o)) /\
                  proj_ret r = snd (spec_step KS xs o).
Proof.
  intros R. pose proof R as (_ & _ & SR). pose proof (seg_length _ _ _ _ _ _ SR) as Hlen.
  destruct o as [v|v|a v|a v|a v|a| | |a| | | ]; cbn [sl_step spec_step].
  - destruct (sl_unshift_rep _ _ _ v R) as (m' & p' & E & R'). rewrite E. cbn [bind].
    exists m', p', RVoid. fin.
  - destruct (sl_append_rep _ _ _ v R) as (m' & p' & E & R'). rewrite E. cbn [bind].
    exists m', p', RVoid. fin.
  - rewrite (sl_find_rep _ _ _ a R). cbn [bind].
    destruct (find_addr a p xs) as [h|] eqn:Ef.
    + destruct (find_addr_some _ _ _ _ Ef) as (p1 & p2 & xs1 & xs2 & -> & -> & Hl & Hn).
      destruct (sl_insert_after_rep _ _ _ _ _ _ _ v R Hl) as (m' & p' & E & R'). rewrite E. cbn [bind].
      rewrite mem_z_split. rewrite ins_after_split by exact Hn.
      exists m', p', (RErr e_ok). fin.
    + apply find_addr_none in Ef; auto. apply mem_z_notin in Ef. rewrite Ef.
      rewrite sl_insert_after_nil. cbn [bind].
      exists m, p, (RErr e_nil). fin.
  - exists m, p, RUnsup. fin.
  - destruct (sl_replace_rep _ _ _ _ a v R) as (m' & E & R'). unfold sl_replace in E. unfold sl_replace.
    rewrite E. cbn [bind].
    destruct (mem_z a xs) eqn:Em.
    + exists m', p, (RErr e_ok). fin.
    + apply mem_z_notin in Em. rewrite repl_first_absent in R' by exact Em.
      exists m', p, (RErr e_notfound). fin.
  - rewrite (sl_find_rep _ _ _ a R). cbn [bind].
    destruct (find_addr a p xs) as [h|] eqn:Ef.
    + destruct (find_addr_some _ _ _ _ Ef) as (p1 & p2 & xs1 & xs2 & -> & -> & Hl & Hn).
      destruct (sl_delete_rep _ _ _ _ _ _ _ R Hl Hn) as (m' & p' & E & R'). rewrite E. cbn [bind].
      rewrite mem_z_split. rewrite remove_first_split by exact Hn.
      destruct (more_than_one (xs1 ++ a :: xs2)).
      * exists m', p', (RErr e_ok). fin.
      * exists m', p', (RErr e_only). fin.
    + apply find_addr_none in Ef; auto. apply mem_z_notin in Ef. rewrite Ef.
      exists m, p, RSkip. fin.
  - destruct (sl_shift_rep _ _ _ R) as (m' & p' & E & R'). rewrite E. cbn [bind].
    exists m', p', RVoid. destruct (more_than_one xs); fin.
  - destruct (sl_pop_rep _ _ _ R) as (m' & p' & E & R'). rewrite E. cbn [bind].
    exists m', p', RVoid. destruct (more_than_one xs); fin.
  - rewrite (sl_find_rep _ _ _ a R). cbn [bind].
    eexists m, p, _. split; [reflexivity|]. split; [exact R|]. cbn [proj_ret snd]. f_equal.
    destruct (find_addr a p xs) eqn:Ef.
    + destruct (find_addr_some _ _ _ _ Ef) as (p1 & p2 & xs1 & xs2 & -> & -> & Hl & Hn).
      now rewrite mem_z_split.
    + apply find_addr_none in Ef; auto. apply mem_z_notin in Ef. now rewrite Ef.
  - exists m, p, RUnsup. fin.
  - exists m, p, RUnsup. fin.
  - exists m, p, RUnsup. fin.
Qed.

Lemma sl_observe_rep m p xs :
  srep m p xs -> sl_observe m = Done (m, xs, spec_fl KS xs).
Proof. intros R. unfold sl_observe. rewrite (each_rep _ _ _ _ R). reflexivity. Qed.

(* ---------- DList ---------- *)

Lemma dl_step_refines m p xs o :
  drep m p xs ->
  exists m' p' r, dl_step m o = Done (m', r) /\
                  drep m' p' (fst (spec_step KD xs o)) /\
                  proj_ret r = snd (spec_step KD xs o).
Proof.
  intros R. pose proof R as (_ & _ & SR). pose proof (seg_length _ _ _ _ _ _ SR) as Hlen.
  unfold dl_step.
  destruct o as [v|v|a v|a v|a v|a| | |a| | | ]; cbn [dl_step_with spec_step impl_fixed
    i_unshift i_insert_before i_delete i_shift].
  - destruct (dl_unshift_rep _ _ _ v R) as (m' & p' & E & R'). rewrite E. cbn [bind].
    exists m', p', RVoid. fin.
  - destruct (dl_append_rep _ _ _ v R) as (m' & p' & E & R'). rewrite E. cbn [bind].
    exists m', p', RVoid. fin.
  - rewrite (dl_find_rep _ _ _ a R). cbn [bind].
    destruct (find_addr a p xs) as [h|] eqn:Ef.
    + destruct (find_addr_some _ _ _ _ Ef) as (p1 & p2 & xs1 & xs2 & -> & -> & Hl & Hn).
      destruct (dl_insert_after_rep _ _ _ _ _ _ _ v R Hl) as (m' & p' & E & R'). rewrite E. cbn [bind].
      rewrite mem_z_split. rewrite ins_after_split by exact Hn.
      exists m', p', (RErr e_ok). fin.
    + apply find_addr_none in Ef; auto. apply mem_z_notin in Ef. rewrite Ef.
      rewrite dl_insert_after_nil. cbn [bind].
      exists m, p, (RErr e_nil). fin.
  - rewrite (dl_find_rep _ _ _ a R). cbn [bind].
    destruct (find_addr a p xs) as [h|] eqn:Ef.
    + destruct (find_addr_some _ _ _ _ Ef) as (p1 & p2 & xs1 & xs2 & -> & -> & Hl & Hn).
      destruct (dl_insert_before_rep _ _ _ _ _ _ _ v R Hl) as (m' & p' & E & R'). rewrite E. cbn [bind].
      rewrite mem_z_split. rewrite ins_before_split by exact Hn.
      exists m', p', (RErr e_ok). fin.
    + apply find_addr_none in Ef; auto. apply mem_z_notin in Ef. rewrite Ef.
      destruct (dl_insert_before_nil _ _ _ v R) as (m' & E & R'). rewrite E. cbn [bind].
      exists m', p, (RErr e_nil). fin.
  - destruct (sl_replace_rep _ _ _ _ a v R) as (m' & E & R'). unfold sl_replace in E. unfold dl_replace.
    rewrite E. cbn [bind].
    destruct (mem_z a xs) eqn:Em.
    + exists m', p, (RErr e_ok). fin.
    + apply mem_z_notin in Em. rewrite repl_first_absent in R' by exact Em.
      exists m', p, (RErr e_notfound). fin.
  - rewrite (dl_find_rep _ _ _ a R). cbn [bind].
    destruct (find_addr a p xs) as [h|] eqn:Ef.
    + destruct (find_addr_some _ _ _ _ Ef) as (p1 & p2 & xs1 & xs2 & -> & -> & Hl & Hn).
      destruct (dl_delete_rep _ _ _ _ _ _ _ R Hl Hn) as (m' & p' & E & R'). rewrite E. cbn [bind].
      rewrite mem_z_split. rewrite remove_first_split by exact Hn.
      destruct (more_than_one (xs1 ++ a :: xs2)).
      * exists m', p', (RErr e_ok). fin.
      * exists m', p', (RErr e_only). fin.
    + apply find_addr_none in Ef; auto. apply mem_z_notin in Ef. rewrite Ef.
      exists m, p, RSkip. fin.
  - destruct (dl_shift_rep _ _ _ R) as (m' & p' & nod & E & R'). rewrite E. cbn [bind].
    exists m', p', RVoid. destruct (more_than_one xs); fin.
  - destruct (dl_pop_rep _ _ _ R) as (m' & p' & nod & E & R'). rewrite E. cbn [bind].
    exists m', p', RVoid. destruct (more_than_one xs); fin.
  - rewrite (dl_find_rep _ _ _ a R). cbn [bind].
    eexists m, p, _. split; [reflexivity|]. split; [exact R|]. cbn [proj_ret snd]. f_equal.
    destruct (find_addr a p xs) eqn:Ef.
    + destruct (find_addr_some _ _ _ _ Ef) as (p1 & p2 & xs1 & xs2 & -> & -> & Hl & Hn).
      now rewrite mem_z_split.
    + apply find_addr_none in Ef; auto. apply mem_z_notin in Ef. now rewrite Ef.
  - rewrite (dl_first_rep _ _ _ R). cbn [bind]. exists m, p, (RVal (hd 0%Z xs)). fin.
  - rewrite (dl_last_rep _ _ _ R). cbn [bind]. exists m, p, (RVal (last xs 0%Z)). fin.
  - destruct (dl_clear_rep _ _ _ R) as (m' & p' & E & R'). rewrite E. cbn [bind].
    exists m', p', RVoid. fin.
Qed.

Lemma dl_observe_rep m p xs :
  drep m p xs -> dl_observe m = Done (m, xs, spec_fl KD xs).
Proof.
  intros R. unfold dl_observe. rewrite (dl_each_rep _ _ _ R). cbn [bind].
  rewrite (dl_first_rep _ _ _ R). cbn [bind]. rewrite (dl_last_rep _ _ _ R). reflexivity.
Qed.

(* ---------- histories ---------- *)

Lemma sl_init_rep v : srep (sl_init v) [0] [v].
Proof. split; [reflexivity|]. split; [constructor; [tauto|constructor]|]. cbn. auto. Qed.

Lemma dl_init_rep v : drep (dl_init v) [0] [v].
Proof. split; [reflexivity|]. split; [constructor; [tauto|constructor]|]. cbn. auto. Qed.

Lemma sl_run_refines ops : forall m p xs,
  srep m p xs -> map proj_obs (run_from sl_step sl_observe m ops) = run_spec_from KS xs ops.
Proof.
  induction ops as [|o ops IH]; intros m p xs R; [reflexivity|].
  destruct (sl_step_refines _ _ _ o R) as (m' & p' & r & E & R' & Hr).
  cbn [run_from run_spec_from]. rewrite E. rewrite (sl_observe_rep _ _ _ R').
  destruct (spec_step KS xs o) as [xs' r']. cbn [fst snd] in *.
  cbn [map proj_obs]. rewrite Hr. f_equal. eapply IH; eauto.
Qed.

Lemma dl_run_refines ops : forall m p xs,
  drep m p xs -> map proj_obs (run_from dl_step dl_observe m ops) = run_spec_from KD xs ops.
Proof.
  induction ops as [|o ops IH]; intros m p xs R; [reflexivity|].
  destruct (dl_step_refines _ _ _ o R) as (m' & p' & r & E & R' & Hr).
  cbn [run_from run_spec_from]. rewrite E. rewrite (dl_observe_rep _ _ _ R').
  destruct (spec_step KD xs o) as [xs' r']. cbn [fst snd] in *.
  cbn [map proj_obs]. rewrite Hr. f_equal. eapply IH; eauto.
Qed.

Theorem history_refines_spec k v ops :
  map proj_obs (run_model k v ops) = run_spec k v ops.
Proof.
  destruct k; unfold run_model, run_spec.
  - eapply sl_run_refines. apply sl_init_rep.
  - eapply dl_run_refines. apply dl_init_rep.
Qed.

Definition pf_of (k : kind) := match k with KS => pf_s | KD => pf_d end.

Lemma sl_final_refines ops : forall m p xs,
  srep m p xs ->
  exists m', final_from sl_step sl_observe m ops = Done m' /\
             is_seq pf_s m' (fold_left (fun xs o => fst (spec_step KS xs o)) ops xs).
Proof.
  induction ops as [|o ops IH]; intros m p xs R.
  - exists m. split; [reflexivity|]. exists p; exact R.
  - destruct (sl_step_refines _ _ _ o R) as (m' & p' & r & E & R' & _).
    cbn [final_from fold_left]. rewrite E. cbn [bind]. rewrite (sl_observe_rep _ _ _ R'). cbn [bind].
    eapply IH; eauto.
Qed.

Lemma dl_final_refines ops : forall m p xs,
  drep m p xs ->
  exists m', final_from dl_step dl_observe m ops = Done m' /\
             is_seq pf_d m' (fold_left (fun xs o => fst (spec_step KD xs o)) ops xs).
Proof.
  induction ops as [|o ops IH]; intros m p xs R.
  - exists m. split; [reflexivity|]. exists p; exact R.
  - destruct (dl_step_refines _ _ _ o R) as (m' & p' & r & E & R' & _).
    cbn [final_from fold_left]. rewrite E. cbn [bind]. rewrite (dl_observe_rep _ _ _ R'). cbn [bind].
    eapply IH; eauto.
Qed.

Theorem reachable_represents k v ops :
  exists m, final_model k v ops = Done m /\ is_seq (pf_of k) m (spec_final k v ops).
Proof.
  destruct k; unfold final_model, spec_final; cbn [pf_of].
  - eapply sl_final_refines. apply sl_init_rep.
  - eapply dl_final_refines. apply dl_init_rep.
Qed.

(* the reference machine never empties its sequence *)
Lemma spec_step_nonempty k xs o : xs <> [] -> fst (spec_step k xs o) <> [].
Proof.
  intros Hx. destruct xs as [|x xs]; [congruence|].
  destruct o, k; cbn [spec_step]; try discriminate;
    repeat match goal with |- context [if ?b then _ else _] => destruct b eqn:? end;
    cbn [fst]; try discriminate.
  all: try (destruct xs; discriminate).
  all: try (cbn; destruct (x =? a)%Z; discriminate).
  all: try (destruct xs as [|y xs]; [discriminate|]; cbn [tl removelast]; try discriminate).
  all: try (cbn in *; destruct (x =? a)%Z; try discriminate; congruence).
  all: try (destruct xs; discriminate).
Qed.

Lemma spec_final_nonempty k v ops : spec_final k v ops <> [].
Proof.
  unfold spec_final. assert (H : [v] <> []) by discriminate. revert H. generalize [v].
  induction ops as [|o ops IH]; intros xs Hx; cbn [fold_left]; auto.
  apply IH. apply spec_step_nonempty; auto.
Qed.

Lemma run_spec_only_steps k xs ops o :
  In o (run_spec_from k xs ops) -> exists r vs fl, o = OStep r vs fl.
Proof.
  revert xs; induction ops as [|o' ops IH]; intros xs Hin; cbn in Hin; [tauto|].
  destruct (spec_step k xs o') as [xs' r]. destruct Hin as [<-|Hin]; eauto.
Qed.

Lemma run_spec_each_nonempty k ops : forall xs o r vs fl,
  xs <> [] -> In o (run_spec_from k xs ops) -> o = OStep r vs fl -> vs <> [].
Proof.
  induction ops as [|o' ops IH]; intros xs o r vs fl Hx Hin E; cbn in Hin; [tauto|].
  pose proof (spec_step_nonempty k xs o' Hx) as Hne.
  destruct (spec_step k xs o') as [xs' r']. cbn [fst] in Hne.
  destruct Hin as [<-|Hin].
  - injection E as _ <- _. exact Hne.
  - eapply IH; eauto.
Qed.

(* ====================================================================== *)
(* per-operation statements at the level of [is_seq] (handles from Find)   *)
(* ====================================================================== *)

Notation s_seq := (is_seq pf_s).
Notation d_seq := (is_seq pf_d).

Lemma is_seq_nonempty pf m xs : is_seq pf m xs -> xs <> [].
Proof. intros [p R]. eapply rep_nonempty; eauto. Qed.

(* what a successful Find tells about the sequence: the handle is the cell of
   the FIRST occurrence *)
Definition first_occ (a : Z) (xs xs1 xs2 : list Z) : Prop :=
  xs = xs1 ++ a :: xs2 /\ ~ In a xs1.

Lemma first_occ_in a xs xs1 xs2 : first_occ a xs xs1 xs2 -> In a xs.
Proof. intros [-> _]. apply in_or_app; cbn; auto. Qed.

Lemma first_occ_exists a xs : In a xs -> exists xs1 xs2, first_occ a xs xs1 xs2.
Proof.
  induction xs as [|x xs IH]; cbn; [tauto|]. intros H.
  destruct (Z.eq_dec x a) as [->|Hne].
  - exists [], xs. split; auto.
  - destruct H as [H|H]; [congruence|]. destruct (IH H) as (xs1 & xs2 & -> & Hn).
    exists (x :: xs1), xs2. split; [reflexivity|]. intros [E|E]; auto.
Qed.

(* -- SList -- *)

Lemma s_find m xs a :
  s_seq m xs ->
  exists r, sl_find m a = Done (m, r) /\
            (match r with Some _ => In a xs | None => ~ In a xs end).
Proof.
  intros [p R]. pose proof R as (_ & _ & S). pose proof (seg_length _ _ _ _ _ _ S) as Hl.
  exists (find_addr a p xs). split; [apply sl_find_rep; exact R|].
  destruct (find_addr a p xs) eqn:E.
  - destruct (find_addr_some _ _ _ _ E) as (? & ? & ? & ? & _ & -> & _). apply in_or_app; cbn; auto.
  - apply find_addr_none in E; auto.
Qed.

Lemma s_each m xs : s_seq m xs -> sl_each m = Done (xs, m).
Proof. intros [p R]. eapply each_rep; eauto. Qed.

Lemma s_unshift m xs v : s_seq m xs -> exists m', sl_unshift m v = Done m' /\ s_seq m' (v :: xs).
Proof. intros [p R]. destruct (sl_unshift_rep _ _ _ v R) as (m' & p' & E & R'). exists m'; split; eauto. exists p'; auto. Qed.

Lemma s_append m xs v : s_seq m xs -> exists m', sl_append m v = Done m' /\ s_seq m' (xs ++ [v]).
Proof. intros [p R]. destruct (sl_append_rep _ _ _ v R) as (m' & p' & E & R'). exists m'; split; eauto. exists p'; auto. Qed.

Lemma s_insert_after m xs a h m1 v :
  s_seq m xs -> sl_find m a = Done (m1, Some h) ->
  exists m', sl_insert_after m1 (Some h) v = Done (m', e_ok) /\ s_seq m' (ins_after a v xs).
Proof.
  intros [p R] Hf. rewrite (sl_find_rep _ _ _ a R) in Hf. injection Hf as <- Hf.
  destruct (find_addr_some _ _ _ _ Hf) as (p1 & p2 & xs1 & xs2 & -> & -> & Hl & Hn).
  destruct (sl_insert_after_rep _ _ _ _ _ _ _ v R Hl) as (m' & p' & E & R').
  exists m'. split; [exact E|]. rewrite ins_after_split by exact Hn. exists p'; auto.
Qed.

Lemma s_replace m xs a v :
  s_seq m xs ->
  exists m', sl_replace m a v = Done (m', if mem_z a xs then e_ok else e_notfound) /\
             s_seq m' (repl_first a v xs).
Proof. intros [p R]. destruct (sl_replace_rep _ _ _ _ a v R) as (m' & E & R'). exists m'; split; eauto. exists p; auto. Qed.

Lemma s_delete m xs a h m1 :
  s_seq m xs -> sl_find m a = Done (m1, Some h) ->
  exists m', sl_delete m1 (Some h) = Done (m', if more_than_one xs then e_ok else e_only) /\
             s_seq m' (if more_than_one xs then remove_first a xs else xs).
Proof.
  intros [p R] Hf. rewrite (sl_find_rep _ _ _ a R) in Hf. injection Hf as <- Hf.
  destruct (find_addr_some _ _ _ _ Hf) as (p1 & p2 & xs1 & xs2 & -> & -> & Hl & Hn).
  destruct (sl_delete_rep _ _ _ _ _ _ _ R Hl Hn) as (m' & p' & E & R').
  exists m'. split; [exact E|]. rewrite remove_first_split by exact Hn. exists p'; auto.
Qed.

Lemma s_shift m xs :
  s_seq m xs -> exists m', sl_shift m = Done m' /\ s_seq m' (if more_than_one xs then tl xs else xs).
Proof. intros [p R]. destruct (sl_shift_rep _ _ _ R) as (m' & p' & E & R'). exists m'; split; eauto. exists p'; auto. Qed.

Lemma s_pop m xs :
  s_seq m xs -> exists m', sl_pop m = Done m' /\ s_seq m' (if more_than_one xs then removelast xs else xs).
Proof. intros [p R]. destruct (sl_pop_rep _ _ _ R) as (m' & p' & E & R'). exists m'; split; eauto. exists p'; auto. Qed.

(* -- DList -- *)

Lemma d_find m xs a :
  d_seq m xs ->
  exists r, dl_find m a = Done (m, r) /\
            (match r with Some _ => In a xs | None => ~ In a xs end).
Proof.
  intros [p R]. pose proof R as (_ & _ & S). pose proof (seg_length _ _ _ _ _ _ S) as Hl.
  exists (find_addr a p xs). split; [apply dl_find_rep; exact R|].
  destruct (find_addr a p xs) eqn:E.
  - destruct (find_addr_some _ _ _ _ E) as (? & ? & ? & ? & _ & -> & _). apply in_or_app; cbn; auto.
  - apply find_addr_none in E; auto.
Qed.

Lemma d_each m xs : d_seq m xs -> dl_each m = Done (xs, m).
Proof. intros [p R]. eapply dl_each_rep; eauto. Qed.

Lemma d_first m xs : d_seq m xs -> dl_first m = Done (hd 0%Z xs).
Proof. intros [p R]. eapply dl_first_rep; eauto. Qed.

Lemma d_last m xs : d_seq m xs -> dl_last m = Done (last xs 0%Z, m).
Proof. intros [p R]. eapply dl_last_rep; eauto. Qed.

Lemma d_unshift m xs v : d_seq m xs -> exists m', dl_unshift m v = Done m' /\ d_seq m' (v :: xs).
Proof. intros [p R]. destruct (dl_unshift_rep _ _ _ v R) as (m' & p' & E & R'). exists m'; split; eauto. exists p'; auto. Qed.

Lemma d_append m xs v : d_seq m xs -> exists m', dl_append m v = Done m' /\ d_seq m' (xs ++ [v]).
Proof. intros [p R]. destruct (dl_append_rep _ _ _ v R) as (m' & p' & E & R'). exists m'; split; eauto. exists p'; auto. Qed.

Lemma d_insert_after m xs a h m1 v :
  d_seq m xs -> dl_find m a = Done (m1, Some h) ->
  exists m', dl_insert_after m1 (Some h) v = Done (m', e_ok) /\ d_seq m' (ins_after a v xs).
Proof.
  intros [p R] Hf. rewrite (dl_find_rep _ _ _ a R) in Hf. injection Hf as <- Hf.
  destruct (find_addr_some _ _ _ _ Hf) as (p1 & p2 & xs1 & xs2 & -> & -> & Hl & Hn).
  destruct (dl_insert_after_rep _ _ _ _ _ _ _ v R Hl) as (m' & p' & E & R').
  exists m'. split; [exact E|]. rewrite ins_after_split by exact Hn. exists p'; auto.
Qed.

Lemma d_insert_before m xs a h m1 v :
  d_seq m xs -> dl_find m a = Done (m1, Some h) ->
  exists m', dl_insert_before m1 (Some h) v = Done (m', e_ok) /\ d_seq m' (ins_before a v xs).
Proof.
  intros [p R] Hf. rewrite (dl_find_rep _ _ _ a R) in Hf. injection Hf as <- Hf.
  destruct (find_addr_some _ _ _ _ Hf) as (p1 & p2 & xs1 & xs2 & -> & -> & Hl & Hn).
  destruct (dl_insert_before_rep _ _ _ _ _ _ _ v R Hl) as (m' & p' & E & R').
  exists m'. split; [exact E|]. rewrite ins_before_split by exact Hn. exists p'; auto.
Qed.

Lemma d_insert_nil m xs v :
  d_seq m xs ->
  dl_insert_after m None v = Done (m, e_nil) /\
  exists m', dl_insert_before m None v = Done (m', e_nil) /\ d_seq m' xs.
Proof.
  intros [p R]. split; [reflexivity|].
  destruct (dl_insert_before_nil _ _ _ v R) as (m' & E & R'). exists m'; split; auto. exists p; auto.
Qed.

Lemma d_replace m xs a v :
  d_seq m xs ->
  exists m', dl_replace m a v = Done (m', if mem_z a xs then e_ok else e_notfound) /\
             d_seq m' (repl_first a v xs).
Proof. intros [p R]. destruct (sl_replace_rep _ _ _ _ a v R) as (m' & E & R'). exists m'; split; eauto. exists p; auto. Qed.

Lemma d_delete m xs a h m1 :
  d_seq m xs -> dl_find m a = Done (m1, Some h) ->
  exists m', dl_delete m1 (Some h) = Done (m', if more_than_one xs then e_ok else e_only) /\
             d_seq m' (if more_than_one xs then remove_first a xs else xs).
Proof.
  intros [p R] Hf. rewrite (dl_find_rep _ _ _ a R) in Hf. injection Hf as <- Hf.
  destruct (find_addr_some _ _ _ _ Hf) as (p1 & p2 & xs1 & xs2 & -> & -> & Hl & Hn).
  destruct (dl_delete_rep _ _ _ _ _ _ _ R Hl Hn) as (m' & p' & E & R').
  exists m'. split; [exact E|]. rewrite remove_first_split by exact Hn. exists p'; auto.
Qed.

Lemma d_shift m xs :
  d_seq m xs ->
  exists m' nod, dl_shift m = Done (m', nod) /\ d_seq m' (if more_than_one xs then tl xs else [0%Z]).
Proof. intros [p R]. destruct (dl_shift_rep _ _ _ R) as (m' & p' & nod & E & R'). exists m', nod; split; eauto. exists p'; auto. Qed.

Lemma d_pop m xs :
  d_seq m xs ->
  exists m' nod, dl_pop m = Done (m', nod) /\ d_seq m' (if more_than_one xs then removelast xs else xs).
Proof. intros [p R]. destruct (dl_pop_rep _ _ _ R) as (m' & p' & nod & E & R'). exists m', nod; split; eauto. exists p'; auto. Qed.

Lemma d_clear m xs : d_seq m xs -> exists m', dl_clear m = Done m' /\ d_seq m' [hd 0%Z xs].
Proof. intros [p R]. destruct (dl_clear_rep _ _ _ R) as (m' & p' & E & R'). exists m'; split; eauto. exists p'; auto. Qed.

(* ---------- no panic, no hang, never empty, over all histories ---------- *)

Lemma proj_obs_step o : (exists r vs fl, proj_obs o = OStep r vs fl) -> exists r vs fl, o = OStep r vs fl.
Proof. destruct o; cbn; eauto; intros (? & ? & ? & ?); discriminate. Qed.

Theorem history_only_steps k v ops o :
  In o (run_model k v ops) -> exists r vs fl, o = OStep r vs fl /\ vs <> [].
Proof.
  intros Hin. apply (in_map proj_obs) in Hin. rewrite history_refines_spec in Hin.
  destruct (run_spec_only_steps _ _ _ _ Hin) as (r & vs & fl & E).
  destruct o as [r0 vs0 fl0| |]; cbn in E; try discriminate.
  exists r0, vs0, fl0. split; [reflexivity|].
  apply (run_spec_each_nonempty k ops [v] (OStep (proj_ret r0) vs0 fl0) (proj_ret r0) vs0 fl0);
    [discriminate | exact Hin | reflexivity].
Qed.

Lemma run_spec_length k ops : forall xs, length (run_spec_from k xs ops) = length ops.
Proof.
  induction ops as [|o ops IH]; intros xs; cbn; [reflexivity|].
  destruct (spec_step k xs o). cbn. now rewrite IH.
Qed.

Theorem history_complete k v ops : length (run_model k v ops) = length ops.
Proof.
  rewrite <- (map_length proj_obs), history_refines_spec. apply run_spec_length.
Qed.

(* ====================================================================== *)
(* checkpointed histories                                                  *)
(* ====================================================================== *)

Lemma sl_runq_refines ops : forall m p xs,
  srep m p xs -> map proj_qobs (runq_from sl_step sl_observe m ops) = runq_spec_from KS xs ops.
Proof.
  induction ops as [|[o|] ops IH]; intros m p xs R; [reflexivity| |].
  - destruct (sl_step_refines _ _ _ o R) as (m' & p' & r & E & R' & Hr).
    cbn [runq_from runq_spec_from]. rewrite E.
    destruct (spec_step KS xs o) as [xs' r']. cbn [fst snd] in *.
    cbn [map proj_qobs]. rewrite Hr. f_equal. eapply IH; eauto.
  - cbn [runq_from runq_spec_from]. rewrite (sl_observe_rep _ _ _ R).
    cbn [map proj_qobs]. f_equal. eapply IH; eauto.
Qed.

Lemma dl_runq_refines ops : forall m p xs,
  drep m p xs -> map proj_qobs (runq_from dl_step dl_observe m ops) = runq_spec_from KD xs ops.
Proof.
  induction ops as [|[o|] ops IH]; intros m p xs R; [reflexivity| |].
  - destruct (dl_step_refines _ _ _ o R) as (m' & p' & r & E & R' & Hr).
    cbn [runq_from runq_spec_from]. rewrite E.
    destruct (spec_step KD xs o) as [xs' r']. cbn [fst snd] in *.
    cbn [map proj_qobs]. rewrite Hr. f_equal. eapply IH; eauto.
  - cbn [runq_from runq_spec_from]. rewrite (dl_observe_rep _ _ _ R).
    cbn [map proj_qobs]. f_equal. eapply IH; eauto.
Qed.

Theorem checkpointed_refines_spec k v ops :
  map proj_qobs (runq_model k v ops) = runq_spec k v ops.
Proof.
  destruct k; unfold runq_model, runq_spec.
  - eapply sl_runq_refines. apply sl_init_rep.
  - eapply dl_runq_refines. apply dl_init_rep.
Qed.

(* what a checkpoint shows is the reference sequence reached by the calls
   before it: looks change nothing *)
Lemma runq_spec_looks k : forall ops xs,
  Forall (fun o => match o with
                   | QSeen vs fl => vs <> [] /\ fl = spec_fl k vs
                   | QRes _ => True
                   | _ => False
                   end) (runq_spec_from k xs ops) \/ xs = [].
Proof.
  induction ops as [|[o|] ops IH]; intros xs; cbn [runq_spec_from].
  - left; constructor.
  - destruct xs as [|x xs0]; [right; reflexivity|].
    pose proof (spec_step_nonempty k (x :: xs0) o ltac:(discriminate)) as Hne.
    destruct (spec_step k (x :: xs0) o) as [xs' r]. cbn [fst] in Hne.
    destruct (IH xs') as [H|H]; [|contradiction]. left. constructor; auto.
  - destruct xs as [|x xs0]; [right; reflexivity|].
    destruct (IH (x :: xs0)) as [H|H]; [|discriminate]. left. constructor; auto.
    split; [discriminate|reflexivity].
Qed.

Lemma runq_spec_length k ops : forall xs, length (runq_spec_from k xs ops) = length ops.
Proof.
  induction ops as [|[o|] ops IH]; intros xs; cbn; [reflexivity| |].
  - destruct (spec_step k xs o). cbn. now rewrite IH.
  - now rewrite IH.
Qed.

Theorem checkpointed_complete k v ops : length (runq_model k v ops) = length ops.
Proof.
  rewrite <- (map_length proj_qobs), checkpointed_refines_spec. apply runq_spec_length.
Qed.

(* the sequence a checkpoint shows does not depend on where the earlier
   checkpoints were: it is the reference sequence after the calls so far *)
Lemma runq_spec_final k : forall ops xs,
  runq_spec_from k xs (ops ++ [QLook]) =
  runq_spec_from k xs ops ++
  [let ys := fold_left (fun xs o => fst (spec_step k xs o)) (qops_ops ops) xs in QSeen ys (spec_fl k ys)].
Proof.
  induction ops as [|[o|] ops IH]; intros xs; cbn [app runq_spec_from qops_ops fold_left].
  - reflexivity.
  - destruct (spec_step k xs o) as [xs' r] eqn:E. cbn [fst]. rewrite IH. reflexivity.
  - rewrite IH. reflexivity.
Qed.

(* ====================================================================== *)
(* every step of the reference machine is an edit at ONE position          *)
(* ====================================================================== *)

(* xs' is xs with nothing done, one value put in at one place, one element
   taken out, or one element's value changed; everything else keeps its
   value, its multiplicity and its place *)
Inductive one_edit (xs : list Z) : list Z -> Prop :=
| oe_same : one_edit xs xs
| oe_ins l1 l2 v : xs = l1 ++ l2 -> one_edit xs (l1 ++ v :: l2)
| oe_del l1 x l2 : xs = l1 ++ x :: l2 -> one_edit xs (l1 ++ l2)
| oe_set l1 x l2 v : xs = l1 ++ x :: l2 -> one_edit xs (l1 ++ v :: l2).

Lemma in_mem_split a xs : mem_z a xs = true -> exists xs1 xs2, xs = xs1 ++ a :: xs2 /\ ~ In a xs1.
Proof. intros H. apply mem_z_in in H. apply first_occ_exists in H. exact H. Qed.

Lemma removelast_split (xs : list Z) : xs <> [] -> exists l x, xs = l ++ [x] /\ removelast xs = l.
Proof.
  intros H. destruct (exists_last H) as (l & x & ->). exists l, x. split; [reflexivity|].
  apply removelast_last.
Qed.

Theorem spec_step_one_edit k xs o :
  xs <> [] -> o <> Clear -> one_edit xs (fst (spec_step k xs o)).
Proof.
  intros Hx Hc. destruct o as [v|v|a v|a v|a v|a| | |a| | | ]; cbn [spec_step]; try congruence.
  - apply (oe_ins xs [] xs v). reflexivity.
  - rewrite <- (app_nil_r xs) at 1. apply (oe_ins _ xs [] v). now rewrite app_nil_r.
  - destruct (mem_z a xs) eqn:Em; cbn [fst]; [|constructor].
    destruct (in_mem_split _ _ Em) as (xs1 & xs2 & -> & Hn). rewrite ins_after_split by exact Hn.
    replace (xs1 ++ a :: v :: xs2) with ((xs1 ++ [a]) ++ v :: xs2) by (rewrite <- app_assoc; reflexivity).
    apply oe_ins. rewrite <- app_assoc. reflexivity.
  - destruct k; cbn [fst]; [constructor|].
    destruct (mem_z a xs) eqn:Em; cbn [fst]; [|constructor].
    destruct (in_mem_split _ _ Em) as (xs1 & xs2 & -> & Hn). rewrite ins_before_split by exact Hn.
    apply oe_ins. reflexivity.
  - destruct (mem_z a xs) eqn:Em; cbn [fst]; [|constructor].
    destruct (in_mem_split _ _ Em) as (xs1 & xs2 & -> & Hn). rewrite repl_first_split by exact Hn.
    eapply oe_set. reflexivity.
  - destruct (mem_z a xs) eqn:Em; cbn [fst]; [|constructor].
    destruct (more_than_one xs); cbn [fst]; [|constructor].
    destruct (in_mem_split _ _ Em) as (xs1 & xs2 & -> & Hn). rewrite remove_first_split by exact Hn.
    eapply oe_del. reflexivity.
  - destruct (more_than_one xs) eqn:Em; cbn [fst].
    + destruct xs as [|x xs0]; [congruence|]. cbn [tl]. apply (oe_del _ [] x xs0). reflexivity.
    + destruct k; cbn [fst]; [constructor|].
      destruct xs as [|x [|y xs0]]; [congruence| |discriminate].
      apply (oe_set _ [] x [] 0%Z). reflexivity.
  - destruct (more_than_one xs) eqn:Em; cbn [fst]; [|constructor].
    destruct (removelast_split xs Hx) as (l & x & E & ->).
    rewrite <- (app_nil_r l). eapply oe_del. rewrite E. reflexivity.
  - constructor.
  - destruct k; constructor.
  - destruct k; constructor.
Qed.

(* a handle obtained from Find is the address of a node that carries the value *)
Lemma find_addr_load pf m a : forall p xs pv e h,
  seg pf m pv p xs e -> find_addr a p xs = Some h -> exists nd, load m h = Some nd /\ val nd = a.
Proof.
  induction p as [|b p IH]; intros [|x xs] pv e h S E; cbn in S, E; try discriminate; try tauto.
  destruct S as [L S]. destruct (x =? a)%Z eqn:Ex.
  - injection E as <-. apply Z.eqb_eq in Ex. eexists; split; [exact L|]. exact Ex.
  - eapply IH; eauto.
Qed.

(* Find in a state that represents xs: the heap is unchanged; a present value
   always yields a handle, the handle is the address of a node carrying the
   value; an absent value yields nil *)
Lemma s_find_handle (m : mem) (xs : list Z) (a : Z) :
  is_seq pf_s m xs ->
  (In a xs -> exists h nd, sl_find m a = Done (m, Some h) /\ load m h = Some nd /\ val nd = a) /\
  (~ In a xs -> sl_find m a = Done (m, None)).
Proof.
  intros [p R]. pose proof R as (_ & _ & S). pose proof (seg_length _ _ _ _ _ _ S) as Hl.
  rewrite (sl_find_rep _ _ _ a R). split; intros H.
  - destruct (find_addr a p xs) as [h|] eqn:E.
    + destruct (find_addr_load _ _ _ _ _ _ _ _ S E) as (nd & L & V). eauto.
    + apply find_addr_none in E; tauto.
  - apply (find_addr_none a p xs Hl) in H. now rewrite H.
Qed.

Lemma d_find_handle (m : mem) (xs : list Z) (a : Z) :
  is_seq pf_d m xs ->
  (In a xs -> exists h nd, dl_find m a = Done (m, Some h) /\ load m h = Some nd /\ val nd = a) /\
  (~ In a xs -> dl_find m a = Done (m, None)).
Proof.
  intros [p R]. pose proof R as (_ & _ & S). pose proof (seg_length _ _ _ _ _ _ S) as Hl.
  rewrite (dl_find_rep _ _ _ a R). split; intros H.
  - destruct (find_addr a p xs) as [h|] eqn:E.
    + destruct (find_addr_load _ _ _ _ _ _ _ _ S E) as (nd & L & V). eauto.
    + apply find_addr_none in E; tauto.
  - apply (find_addr_none a p xs Hl) in H. now rewrite H.
Qed.

(* a checkpointed history never panics or hangs; every checkpoint shows a
   non-empty sequence, with First/Last its two ends *)
Definition qobs_fine (k : kind) (o : qobs) : Prop :=
  match o with
  | QSeen vs fl => vs <> [] /\ fl = spec_fl k vs
  | QRes _ => True
  | _ => False
  end.

Theorem checkpointed_only_steps k v ops : Forall (qobs_fine k) (runq_model k v ops).
Proof.
  destruct (runq_spec_looks k ops [v]) as [H|H]; [|discriminate].
  change (runq_spec_from k [v] ops) with (runq_spec k v ops) in H.
  rewrite <- checkpointed_refines_spec in H. apply Forall_map in H.
  eapply Forall_impl; [|exact H]. intros [r|vs fl| |]; cbn; auto.
Qed.

(* the checkpoint after a history shows the reference machine's sequence after
   the calls of that history, wherever the earlier checkpoints were *)
Theorem checkpoint_shows_sequence_so_far k v ops :
  map proj_qobs (runq_model k v (ops ++ [QLook])) =
  map proj_qobs (runq_model k v ops) ++
  [let ys := spec_final k v (qops_ops ops) in QSeen ys (spec_fl k ys)].
Proof.
  rewrite !checkpointed_refines_spec. unfold runq_spec, spec_final. apply runq_spec_final.
Qed.

(* between two consecutive states of any history exactly one position is
   touched (Clear, which keeps the first element only, is the exception) *)
Theorem history_one_edit k v ops o :
  o <> Clear -> one_edit (spec_final k v ops) (spec_final k v (ops ++ [o])).
Proof.
  intros Hc. unfold spec_final. rewrite fold_left_app. cbn [fold_left].
  apply spec_step_one_edit; [apply spec_final_nonempty | exact Hc].
Qed.
